/-
WP close, item 3 — the size dispatcher of api.cpp (`piApi64`, `piApi128`, PcModel/TopAlgs.lean) with `phi := phiReal …`, the L2
model of phi.cpp, in place of an abstract `phi` under `PhiContract`.  The hypotheses about `phi` are asked only for the calls the
dispatcher really makes: `phi(x, π(√x))` for `maxCached < x ≤ legendreMax` and `phi(x, π(x^(1/3)))` for `legendreMax < x ≤ meisselMax`.
-/
import PcProofs.ClosePhi

namespace Pc.ClosePhi
open Nat Pc.Top Pc.LB Pc.PhiAlgProofs PcGen.ApiConst
open scoped Nat.Prime

/-- what remains to be assumed about the `phi` call of ONE level `pi(n)` of the dispatcher: table contracts, the literature
    inequality `π ≤ pix_upper`, "the reduction adds every index once", and the cache contents (`CallRunOK`) — for the one
    call that level makes.  Nothing about `pi_noprint`. -/
structure PhiExec (P : ℕ → ℕ → PhiTop) (order : ℕ → ℕ → List ℕ) (sched : ℕ → ℕ → ℕ → PhiCacheL1 × ℕ) (n : ℕ) : Prop where
  legendre : maxCached < n → n ≤ legendreMax →
    CallRunOK (P n (π (Nat.sqrt n))) (order n (π (Nat.sqrt n))) (sched n (π (Nat.sqrt n))) n (π (Nat.sqrt n))
  meissel : legendreMax < n → n ≤ meisselMax →
    CallRunOK (P n (π (irootN 3 n))) (order n (π (irootN 3 n))) (sched n (π (irootN 3 n))) n (π (irootN 3 n))

/-- `piApi64_step` (TopAlgsApi) with `phi := phiReal …`: `PhiContract` is replaced by `PhiExec` at the one argument `x` -/
theorem piApi64_step_phi {σ : Type} (T : Tables σ) {B : ℕ} (hT : TablesOK T B)
    (P : ℕ → ℕ → PhiTop) (order : ℕ → ℕ → List ℕ) (sched : ℕ → ℕ → ℕ → PhiCacheL1 × ℕ) (pi : ℕ → ℕ) (x : ℤ)
    (hx : x < 2 ^ 63) (threads : ℤ) (isPrint : Bool) (r : ApiRun)
    (hphi : PhiExec P order sched x.toNat) (hpi : ∀ n : ℕ, (n : ℤ) < x → pi n = π n)
    (hex : (maxCached : ℤ) < x → ApiExec T B false x.toNat r) :
    piApi64 T (phiReal P order sched) pi x threads isPrint r = .ok (π x.toNat : ℤ) ∨
      piApi64 T (phiReal P order sched) pi x threads isPrint r = .error (.hard .badRun) := by
  have c1 : (maxCached : ℤ) = 30719 := rfl
  have c2 : (legendreMax : ℤ) = 100000 := rfl
  have c3 : (meisselMax : ℤ) = 100000000 := rfl
  have n1 : maxCached = 30719 := rfl
  have l1 : legendreMax = 100000 := rfl
  have l2 : meisselMax = 100000000 := rfl
  unfold piApi64
  split_ifs with h1 h2 h3
  · left; rw [piCacheTop_eq x h1]
  · left
    have hpi' : ∀ m, m < x.toNat → pi m = π m := fun m hm => hpi m (by omega)
    rw [P2L.piLegendre_eq hpi' (phiReal_eq P order sched _ _ (hphi.legendre (by omega) (by omega)) le_rfl)]
  · left
    have hpi' : ∀ m, m < x.toNat → pi m = π m := fun m hm => hpi m (by omega)
    have hex' := hex (by omega)
    have hxy : x.toNat / max (irootN 3 x.toNat) 1 < two63 := by
      have : x.toNat / max (irootN 3 x.toNat) 1 ≤ x.toNat := Nat.div_le_self _ _
      unfold two63; omega
    rw [P2L.piMeissel_eq hT.iter hpi'
      (phiReal_eq P order sched _ _ (hphi.meissel (by omega) (by omega)) (pi_iroot3_le_pi_sqrt _)) T.lc hT.consts hxy r.meissel
      (fun a b => hex'.meissel (by omega) (by omega) a b)]
    rfl
  · have hex' := hex (by omega)
    exact piGourdon_total T hT pi false x (by unfold InType; simpa using hx) (Or.inr (by omega)) threads isPrint r.gourdon
      (fun n hn _ => hpi n hn) (fun _ => hex'.gourdon (by omega))

theorem piApi128_step_phi {σ : Type} (T : Tables σ) {B : ℕ} (hT : TablesOK T B)
    (P : ℕ → ℕ → PhiTop) (order : ℕ → ℕ → List ℕ) (sched : ℕ → ℕ → ℕ → PhiCacheL1 × ℕ) (pi : ℕ → ℕ) (x : ℤ)
    (hx : x < 2 ^ 127) (threads : ℤ) (isPrint : Bool) (r : ApiRun)
    (hphi : PhiExec P order sched x.toNat) (hpi : ∀ n : ℕ, (n : ℤ) < x → n < 2 ^ 63 → pi n = π n)
    (hex : (maxCached : ℤ) < x → ApiExec T B (decide ((PiApi.int64Max : ℤ) < x)) x.toNat r) :
    piApi128 T (phiReal P order sched) pi x threads isPrint r = .ok (π x.toNat : ℤ) ∨
      piApi128 T (phiReal P order sched) pi x threads isPrint r = .error (.hard .badRun) := by
  have c0 : (PiApi.int64Max : ℤ) = 2 ^ 63 - 1 := by unfold PiApi.int64Max; norm_num
  have c1 : (maxCached : ℤ) = 30719 := rfl
  unfold piApi128
  split_ifs with h1 h2
  · left
    have : x.toNat = 0 := by omega
    rw [this]; rfl
  · have hd : decide ((PiApi.int64Max : ℤ) < x) = false := by simp; omega
    rw [hd] at hex
    exact piApi64_step_phi T hT P order sched pi x (by omega) threads isPrint r hphi (fun n hn => hpi n hn (by omega)) hex
  · have hd : decide ((PiApi.int64Max : ℤ) < x) = true := by simp; omega
    rw [hd] at hex
    have hex' := hex (by omega)
    have l2 : meisselMax = 100000000 := rfl
    exact piGourdon_total T hT pi true x (by unfold InType; simpa using hx) (Or.inr (by omega)) threads isPrint r.gourdon hpi
      (fun _ => hex'.gourdon (by omega))

/-- closing the recursion with the L2 model of phi.cpp: `phi` needs no knowledge about `pi_noprint` at all (its `phi_pix` returns
    are unreachable from `pi_legendre` / `pi_meissel`), so the induction is the one of `pi_noprint_fixpoint` -/
theorem pi_noprint_fixpoint_phi {σ : Type} (T : Tables σ) {B : ℕ} (hT : TablesOK T B)
    (P : ℕ → ℕ → PhiTop) (order : ℕ → ℕ → List ℕ) (sched : ℕ → ℕ → ℕ → PhiCacheL1 × ℕ) (pi : ℕ → ℕ) (x : ℕ)
    (hx : x ≤ 2 ^ 63)
    (hphi : ∀ n, n < x → PhiExec P order sched n)
    (hrec : ∀ n, n < x → ∃ (threads : ℤ) (r : ApiRun), (maxCached < n → ApiExec T B false n r) ∧
      piApi64 T (phiReal P order sched) pi (n : ℤ) threads false r = .ok (pi n : ℤ)) :
    ∀ n, n < x → pi n = π n := by
  intro n
  induction n using Nat.strong_induction_on with
  | _ n ih =>
    intro hn
    obtain ⟨threads, r, hex, hres⟩ := hrec n hn
    have hpi : ∀ m : ℕ, (m : ℤ) < (n : ℤ) → pi m = π m := fun m hm =>
      ih m (by exact_mod_cast hm) (lt_trans (by exact_mod_cast hm) hn)
    have hn63 : (n : ℤ) < 2 ^ 63 := by
      have h1 : (n : ℤ) < (x : ℤ) := by exact_mod_cast hn
      have h2 : (x : ℤ) ≤ 2 ^ 63 := by exact_mod_cast hx
      omega
    have hstep := piApi64_step_phi T hT P order sched pi (n : ℤ) hn63 threads false r
      (by rw [Int.toNat_natCast]; exact hphi n hn) hpi
      (fun h => by rw [Int.toNat_natCast]; exact hex (by exact_mod_cast h))
    rw [Int.toNat_natCast] at hstep
    rcases hstep with h | h
    · rw [hres] at h
      have : (pi n : ℤ) = (π n : ℤ) := by injection h
      exact_mod_cast this
    · rw [hres] at h; cases h

theorem piApi_eq_pi_phi {σ : Type} (T : Tables σ) {B : ℕ} (hT : TablesOK T B)
    (P : ℕ → ℕ → PhiTop) (order : ℕ → ℕ → List ℕ) (sched : ℕ → ℕ → ℕ → PhiCacheL1 × ℕ) (pi : ℕ → ℕ) (x : ℤ)
    (hx : x < 2 ^ 127) (threads : ℤ) (isPrint : Bool) (r : ApiRun)
    (hphi : ∀ n : ℕ, (n : ℤ) ≤ x → PhiExec P order sched n)
    (hrec : ∀ n : ℕ, (n : ℤ) < x → n < 2 ^ 63 → ∃ (threads : ℤ) (r : ApiRun), (maxCached < n → ApiExec T B false n r) ∧
      piApi64 T (phiReal P order sched) pi (n : ℤ) threads false r = .ok (pi n : ℤ))
    (hex : (maxCached : ℤ) < x → ApiExec T B (decide ((PiApi.int64Max : ℤ) < x)) x.toNat r) :
    piApi128 T (phiReal P order sched) pi x threads isPrint r = .ok (π x.toNat : ℤ) ∨
      piApi128 T (phiReal P order sched) pi x threads isPrint r = .error (.hard .badRun) := by
  have hpi : ∀ n : ℕ, (n : ℤ) < x → n < 2 ^ 63 → pi n = π n := by
    intro n hn h63
    exact pi_noprint_fixpoint_phi T hT P order sched pi (n + 1) (by omega) (fun m hm => hphi m (by omega))
      (fun m hm => hrec m (by omega) (by omega)) n (by omega)
  by_cases h0 : 0 ≤ x
  · exact piApi128_step_phi T hT P order sched pi x hx threads isPrint r (hphi x.toNat (by omega)) hpi hex
  · left
    unfold piApi128
    rw [if_pos (by omega)]
    have : x.toNat = 0 := by omega
    rw [this]; rfl

/-- `PhiExec` from the per-call hypotheses for the real tables: in the dispatcher's range `√n ≤ 10^4 ≤ 30719`, so `pix_upper(√n)` is the
    exact table and the only fact needed about the double formula `f` is at `n` itself -/
theorem phiExec_realTop (gen : PrimeGen) (hg : PrimeGenSpec gen) (threads : ℕ → ℕ → ℤ) (f : ℕ → ℕ) (piFn prime : ℕ → ℕ → ℕ → ℕ)
    (order : ℕ → ℕ → List ℕ) (sched : ℕ → ℕ → ℕ → PhiCacheL1 × ℕ) (n : ℕ)
    (hf : ∀ a, a ≤ π (Nat.sqrt n) → π n ≤ f n ∨ a < f n)
    (hp0 : ∀ a, prime n a 0 = 0) (hp : ∀ a i, 1 ≤ i → i ≤ a → prime n a i = Spec.p i)
    (horder : ∀ a, (order n a).Perm (List.range' 9 (a - 8)))
    (hcache : ∀ a i, 9 ≤ i → i ≤ a → CacheOK (sched n a i)) :
    PhiExec (fun x a => realTop gen (threads x a) f (piFn x a) (prime x a) (Nat.sqrt x)) order sched n := by
  have l2 : meisselMax = 100000000 := rfl
  have l1 : legendreMax = 100000 := rfl
  have key : ∀ a, n ≤ meisselMax → a ≤ π (Nat.sqrt n) →
      CallRunOK (realTop gen (threads n a) f (piFn n a) (prime n a) (Nat.sqrt n)) (order n a) (sched n a) n a := by
    intro a hn ha
    have hs : Nat.sqrt n ≤ 30719 := sqrt_le_maxCached (by omega)
    exact { top := callOK_realTop gen hg _ f _ _ n a ha (fun _ => hf a ha) (fun h => by omega) (hp0 a) (hp a)
            order := horder a, cache := hcache a }
  exact { legendre := fun _ h => key _ (by omega) le_rfl, meissel := fun _ h => key _ h (pi_iroot3_le_pi_sqrt n) }


/-! ### instances (used by the non-vacuity examples of the property files) -/

/-- tables of spec values -/
noncomputable def idealTop : PhiTop :=
  { pixUpper := fun y => π y, piFn := fun _ => 0, prime := fun i => if i = 0 then 0 else Spec.p i,
    piTab := fun v => π v, tiny := fun y a => Spec.phi y a }

theorem idealTop_callOK (x a : ℕ) (ha : a ≤ π (Nat.sqrt x)) : CallOK idealTop x a :=
  { pixUpperX := Or.inl le_rfl, pixUpperSqrt := ha, prime0 := by simp [idealTop],
    prime := fun i hi _ => by simp [idealTop]; omega, piTab := fun _ _ => rfl, tiny := fun _ _ _ => rfl }

/-- a cache whose arrays hold spec values, with the geometry the constructor computes for `x = 10^8`, `a = 1229`
    (`max_a_ = 100`, `max_x_ = 13 · 240 − 1`) -/
noncomputable def idealCache : PhiCacheL1 := { maxX := 3119, maxA := 100, val := fun y b => Spec.phi y b }

theorem idealCache_valOK : CacheValOK idealCache := fun _ _ _ _ _ => rfl

/-- the identity order with fresh ideal caches: a legal execution of every call, with a `pi_noprint` (`piFn = 0`) that is
    WRONG everywhere — it is never consulted -/
theorem ideal_callRunOK (x a : ℕ) (ha : a ≤ π (Nat.sqrt x)) :
    CallRunOK idealTop (List.range' 9 (a - 8)) (fun _ => (idealCache, 0)) x a :=
  { top := idealTop_callOK x a ha, order := List.Perm.refl _, cache := fun _ _ _ => cacheOK_initial idealCache_valOK }

theorem ideal_phiExec (n : ℕ) :
    PhiExec (fun _ _ => idealTop) (fun _ a => List.range' 9 (a - 8)) (fun _ _ _ => (idealCache, 0)) n :=
  { legendre := fun _ _ => ideal_callRunOK n _ le_rfl, meissel := fun _ _ => ideal_callRunOK n _ (pi_iroot3_le_pi_sqrt n) }

end Pc.ClosePhi
