/-
WP close: the error direction of `store_n_primes` / `store_primes` — "… is too narrow for generating primes up to …" (`SErr.narrow`) is
returned EXACTLY when a prime that has to be stored exceeds the maximum `vmax` of the vector's element type (the success direction is
PcProofs/CloseStore.lean / CloseStore2.lean).
-/
import PcProofs.CloseStore2

namespace Pc.It
open Nat

theorem sorted_take_le {l : List ℕ} (hs : l.Pairwise (· < ·)) {k x : ℕ} (hx : x ∈ l.take k) (hk : k - 1 < l.length) :
    x ≤ l[k - 1] := by
  obtain ⟨j, hj, rfl⟩ := List.getElem_of_mem hx
  rw [List.getElem_take]
  rw [List.length_take] at hj
  by_cases h : j = k - 1
  · subst h; exact le_refl _
  · exact le_of_lt (List.pairwise_iff_getElem.1 hs j (k - 1) (by omega) hk (by omega))

/-- the `while` loop of `store_n_primes` when one of the primes still to be stored does not fit -/
theorem storeNLoop_narrow (e : Env) (he : GenSpec e) (vmax start Q : ℕ) (F : List ℕ) (hF : PrimesIn F start Q) (hQ : Q ≤ umax) :
    ∀ fuel n (s : St) (acc : List ℕ) (L : ℕ), 1 ≤ n → n ≤ fuel → s.buf.getLast? = some L → PrimesIn (acc ++ s.buf) start L →
      FwdReady s (L + 1) → L + 1 ≤ umax → s.hint ≤ umax → s.start ≤ umax → acc.length + n ≤ F.length →
      (∃ x ∈ F.take (acc.length + n), vmax < x) →
      storeNLoop e vmax fuel n s acc = .error .narrow := by
  intro fuel
  induction fuel with
  | zero => intro n s acc L h1 h2; omega
  | succ fuel ih =>
    intro n s acc L hn1 hnf hL hP hr hLu hh hst hlen hv
    have hLmem : L ∈ s.buf := List.mem_of_getLast? hL
    have hsL : start ≤ L := ((hP.2 L).1 (List.mem_append_right _ hLmem)).2.1
    have hsize : s.size = s.buf.length := rfl
    have hbne : 1 ≤ s.buf.length := List.length_pos_of_mem hLmem
    rw [storeNLoop]
    by_cases hsz : n ≥ s.size
    · rw [if_pos hsz]
      simp only [hL]
      have hkey : acc ++ s.buf = F.take (acc.length + s.buf.length) := by
        have := hP.take_eq hF (acc.length + s.buf.length) (by simp) (by omega)
        rw [← this, ← List.length_append, List.take_length]
      by_cases hLv : L > vmax
      · rw [if_pos hLv]
      rw [if_neg hLv]
      by_cases hn0 : n - s.size = 0
      · exfalso
        obtain ⟨x, hx, hxv⟩ := hv
        rw [show n = s.buf.length by omega, ← hkey] at hx
        have := ((hP.2 x).1 hx).2.2
        omega
      · rw [if_neg hn0]
        have hlt : acc.length + s.buf.length < F.length := by omega
        have hex : ∃ p, p.Prime ∧ L + 1 ≤ p ∧ p ≤ umax := by
          have hm : F[acc.length + s.buf.length] ∈ F := List.getElem_mem hlt
          obtain ⟨h1, _, h3⟩ := (hF.2 _).1 hm
          refine ⟨_, h1, ?_, by omega⟩
          by_contra hcon
          have hin : F[acc.length + s.buf.length] ∈ acc ++ s.buf :=
            (hP.2 _).2 ⟨h1, ((hF.2 _).1 hm).2.1, by omega⟩
          rw [hkey] at hin
          obtain ⟨j, hj, hjeq⟩ := List.getElem_of_mem hin
          rw [List.getElem_take] at hjeq
          rw [List.length_take] at hj
          have := List.pairwise_iff_getElem.1 hF.1 j (acc.length + s.buf.length) (by omega) hlt (by omega)
          omega
        obtain ⟨s1, h1, hd⟩ := (genNext_spec e he bigFuel s (L + 1) hr hLu hh hst (fwdFuel_le_big s _)).1 hex
        obtain ⟨L1, hL1⟩ : ∃ L1, s1.buf.getLast? = some L1 := ⟨s1.buf.getLast hd.ne, List.getLast?_eq_some_getLast hd.ne⟩
        obtain ⟨hP1, hr1, hL1u, hLL1⟩ := fwdDone_ready hd hL1
        simp only [h1]
        exact ih (n - s.size) s1 (acc ++ s.buf) L1 (by omega) (by omega) hL1
          (hP.append hP1 (by omega) (by omega)) hr1 hL1u (by rw [hd.hint]; exact hh) hd.start_le
          (by rw [List.length_append]; omega)
          (by rw [List.length_append, hsize]
              rw [show acc.length + s.buf.length + (n - s.buf.length) = acc.length + n by omega]; exact hv)
    · have hsz' : n < s.buf.length := by omega
      rw [if_neg hsz]
      have hkey : acc ++ s.buf.take n = F.take (acc.length + n) := by
        have := hP.take_eq hF (acc.length + n) (by simp; omega) hlen
        rw [← this, List.take_length_add_append]
      have hget : s.buf[n - 1]? = some (s.buf[n - 1]'(by omega)) := List.getElem?_eq_getElem (by omega)
      simp only [hget]
      obtain ⟨x, hx, hxv⟩ := hv
      rw [← hkey, ← List.take_length_add_append] at hx
      have hle := sorted_take_le hP.1 hx (by simp; omega)
      rw [List.getElem_append_right (by omega)] at hle
      rw [if_pos]
      have : s.buf[acc.length + n - 1 - acc.length]'(by omega) = s.buf[n - 1]'(by omega) := by
        congr 1; omega
      omega

/-- **`store_n_primes`, error direction**: if one of the first `n` primes `≥ start` exceeds the maximum of the element type, the call
    throws "too narrow" (and nothing else: no `hang`, `oob`, `primesieve_error`) -/
theorem storeNPrimes_narrow (e : Env) (he : GenSpec e) (vmax n start nthHint Q : ℕ) (F : List ℕ) (hF : PrimesIn F start Q)
    (hQ : Q ≤ umax) (hs : start ≤ umax) (hlen : n ≤ F.length) (hv : ∃ x ∈ F.take n, vmax < x) :
    storeNPrimes e vmax n start nthHint = .error .narrow := by
  unfold storeNPrimes
  have hn : n ≠ 0 := by
    rintro rfl
    obtain ⟨x, hx, _⟩ := hv
    simp at hx
  rw [if_neg hn]
  have hstop : (start + nthHint) % two64 ≤ umax := by
    have := Nat.mod_lt (start + nthHint) (show 0 < two64 by unfold two64; omega)
    unfold two64 at *; unfold umax; omega
  have hex : ∃ p, p.Prime ∧ start ≤ p ∧ p ≤ umax := by
    have hm : F[0]'(by omega) ∈ F := List.getElem_mem _
    obtain ⟨h1, h2, h3⟩ := (hF.2 _).1 hm
    exact ⟨_, h1, h2, by omega⟩
  obtain ⟨s0, h0, hd⟩ := (genNext_spec e he bigFuel (init start ((start + nthHint) % two64)) start
    (fwdReady_init _ _ hs) hs hstop hs (fwdFuel_le_big _ _)).1 hex
  obtain ⟨L0, hL0⟩ : ∃ L0, s0.buf.getLast? = some L0 := ⟨s0.buf.getLast hd.ne, List.getLast?_eq_some_getLast hd.ne⟩
  obtain ⟨hP0, hr0, hL0u, _⟩ := fwdDone_ready hd hL0
  simp only [h0]
  exact storeNLoop_narrow e he vmax start Q F hF hQ (n + 1) n s0 [] L0 (by omega) (by omega) hL0 (by simpa using hP0) hr0 hL0u
    (by rw [hd.hint]; exact hstop) hd.start_le (by simpa using hlen) (by simpa using hv)

/-- **`generate_n_primes<T>(n)`: success iff `p n` fits the element type** (for `p n` below 2^64) -/
theorem pcGenerateNPrimes_iff (e : Env) (he : GenSpec e) (vmax n nthHint : ℕ) (hn : 1 ≤ n) (hu : Spec.p n ≤ umax) :
    (Spec.p n ≤ vmax → pcGenerateNPrimes e vmax n nthHint = .ok (0 :: firstNPrimes n)) ∧
    (vmax < Spec.p n → pcGenerateNPrimes e vmax n nthHint = .error .narrow) := by
  constructor
  · intro hv
    unfold pcGenerateNPrimes
    rw [storeNPrimes_zero_correct e he vmax n nthHint hu hv]
  · intro hv
    unfold pcGenerateNPrimes
    rw [storeNPrimes_narrow e he vmax n 0 nthHint (Spec.p n) (firstNPrimes n) (firstNPrimes_primesIn n hn) hu (Nat.zero_le _)
      (by rw [firstNPrimes_length]) ⟨Spec.p n, ?_, hv⟩]
    rw [firstNPrimes_take n n (le_refl _)]
    unfold firstNPrimes
    exact List.mem_map.2 ⟨n - 1, List.mem_range.2 (by omega), by rw [show n - 1 + 1 = n by omega]⟩

/-- **`store_primes`, error direction**: a non-empty request `[start, stop]` below the last 64-bit prime whose `stop` exceeds the element
    type throws "too narrow" before any sieving (StorePrimes.hpp:66-70) -/
theorem storePrimes_narrow (e : Env) (vmax start stop : ℕ) (hss : start ≤ stop) (hm : start ≤ maxPrime64) (hv : vmax < stop) :
    storePrimes e vmax start stop = .error .narrow := by
  unfold storePrimes
  rw [if_neg (by omega), if_neg (by omega), if_pos (by omega)]

/-- the table as the function `prime : ℕ → ℕ` the phi.cpp model (`PhiTop.prime`, `callOK_realTop`) reads: `primes[i]`, 0 outside / on error -/
def genNPrimesFn (e : Env) (vmax a nthHint : ℕ) : ℕ → ℕ := fun i =>
  (match pcGenerateNPrimes e vmax a nthHint with | .ok l => l | .error _ => []).getD i 0

/-- **the hypotheses `hp0` / `hp` of `callOK_realTop` discharged**: for `a ≤ π(N)` with `N` inside `uint64_t` and the element type (phi.cpp:
    `a ≤ π(√x)`, `N = √x`), the vector `generate_n_primes<T>(a)` has `primes[0] = 0` and `primes[i] = p i` for `1 ≤ i ≤ a` (also `a = 0`) -/
theorem genNPrimesFn_spec (e : Env) (he : GenSpec e) (vmax a nthHint N : ℕ) (ha : a ≤ Nat.primeCounting N) (hN : N ≤ umax)
    (hNv : N ≤ vmax) :
    pcGenerateNPrimes e vmax a nthHint = .ok (0 :: firstNPrimes a) ∧
    genNPrimesFn e vmax a nthHint 0 = 0 ∧ ∀ i, 1 ≤ i → i ≤ a → genNPrimesFn e vmax a nthHint i = Spec.p i := by
  have hok : pcGenerateNPrimes e vmax a nthHint = .ok (0 :: firstNPrimes a) := by
    by_cases h0 : a = 0
    · subst h0; rfl
    · have hp : Spec.p a ≤ N := (Spec.p_le_iff (by omega)).2 ha
      exact ((pcGenerateNPrimes_iff e he vmax a nthHint (by omega) (by omega)).1 (by omega))
  refine ⟨hok, ?_, fun i hi hia => ?_⟩
  · unfold genNPrimesFn; rw [hok]; rfl
  · unfold genNPrimesFn; rw [hok]
    obtain ⟨j, rfl⟩ : ∃ j, i = j + 1 := ⟨i - 1, by omega⟩
    unfold firstNPrimes
    simp [List.getD, show j < a by omega]

/-- the hand-written branch of `store_primes` in isolation: asking for `[2^64-59, 2^64-1]` returns the last 64-bit prime alone (the
    iterator is started, its first buffer ends above `limit = 2^64-60`, nothing is copied from it, `maxPrime64` is appended) -/
theorem storePrimes_last (e : Env) (he : GenSpec e) : storePrimes e umax maxPrime64 umax = .ok [maxPrime64] := by
  obtain ⟨l, h, hP⟩ := storePrimes_correct e he umax maxPrime64 umax (by unfold maxPrime64 umax; omega) (le_refl _) (le_refl _)
  have h1 := primesIn_singleton_max umax (by unfold maxPrime64 umax; omega) (le_refl _)
  rw [show maxPrime64 - 1 + 1 = maxPrime64 by unfold maxPrime64; omega] at h1
  rw [h, hP.unique h1]

end Pc.It
