/-
C18 core, second half: `SievingPrimes::next()` — list vocabulary (`prFrom`), the word-reading lemma and the loop of `fill()`.
-/
import PcProofs.PsCore2SvpDefs
import PcProofs.PsCore2NT
import PcProofs.PsCoreExtract
import Mathlib.Data.List.Sort

namespace Pc.PsCore
open Pc.PsWheelSpec
open Pc.Sieve (Bytes bitAt word64)

/-- the primes `p` with `a ≤ p`, `163 < p ≤ N`, increasing -/
noncomputable def prFrom (N a : ℕ) : List ℕ :=
  (List.range (N + 1)).filter (fun p => decide (a ≤ p) && (decide (163 < p) && decide (Nat.Prime p)))

theorem mem_prFrom {N a n : ℕ} : n ∈ prFrom N a ↔ a ≤ n ∧ 163 < n ∧ Nat.Prime n ∧ n ≤ N := by
  unfold prFrom
  simp only [List.mem_filter, List.mem_range, Bool.and_eq_true, decide_eq_true_eq]
  constructor
  · rintro ⟨h1, h2, h3, h4⟩; exact ⟨h2, h3, h4, by omega⟩
  · rintro ⟨h2, h3, h4, h1⟩; exact ⟨by omega, h2, h3, h4⟩

theorem prFrom_sorted (N a : ℕ) : (prFrom N a).Pairwise (· < ·) :=
  List.Pairwise.filter _ List.pairwise_lt_range

theorem prFrom_eq_nil {N a : ℕ} (h : N < a) : prFrom N a = [] := by
  apply List.eq_nil_iff_forall_not_mem.2
  intro n hn
  have := mem_prFrom.1 hn
  omega

theorem svPrimes_eq_prFrom (N a : ℕ) (ha : a ≤ 164) : svPrimes N = prFrom N a := by
  unfold svPrimes prFrom
  apply List.filter_congr
  intro p _
  by_cases h : 163 < p
  · have : a ≤ p := by omega
    simp [h, this]
  · simp [h]

theorem prime_ge_165 {n : ℕ} (hp : Nat.Prime n) (h : 163 < n) : 165 ≤ n := by
  by_contra hlt
  have : n = 164 := by omega
  subst this
  have := (Nat.prime_dvd_prime_iff_eq Nat.prime_two hp).mp (by norm_num : 2 ∣ 164)
  omega

theorem svPrimes_small {N : ℕ} (h : N < 165) : svPrimes N = [] := by
  rw [svPrimes_eq_prFrom N 164 (le_refl _)]
  apply List.eq_nil_iff_forall_not_mem.2
  intro n hn
  obtain ⟨h1, h2, h3, h4⟩ := mem_prFrom.1 hn
  have : n = 164 := by omega
  subst this
  have := (Nat.prime_dvd_prime_iff_eq Nat.prime_two h3).mp (by norm_num : 2 ∣ 164)
  omega

/-- cutting an initial stretch `[a, b)` off `prFrom N a` -/
theorem prFrom_split (N a b : ℕ) (l : List ℕ) (hab : a ≤ b) (hsorted : l.Pairwise (· < ·))
    (hmem : ∀ n, n ∈ l ↔ (a ≤ n ∧ n < b ∧ 163 < n ∧ Nat.Prime n ∧ n ≤ N)) :
    prFrom N a = l ++ prFrom N b := by
  apply List.Pairwise.eq_of_mem_iff (r := (· < ·)) (prFrom_sorted N a)
  · rw [List.pairwise_append]
    refine ⟨hsorted, prFrom_sorted N b, ?_⟩
    intro x hx y hy
    have h1 := (hmem x).1 hx
    have h2 := mem_prFrom.1 hy
    omega
  · intro n
    rw [List.mem_append, mem_prFrom, mem_prFrom, hmem]
    constructor
    · rintro ⟨h1, h2, h3, h4⟩
      by_cases hb : n < b
      · exact Or.inl ⟨h1, hb, h2, h3, h4⟩
      · exact Or.inr ⟨by omega, h2, h3, h4⟩
    · rintro (⟨h1, _, h2, h3, h4⟩ | ⟨h1, h2, h3, h4⟩)
      · exact ⟨h1, h2, h3, h4⟩
      · exact ⟨by omega, h2, h3, h4⟩

/-- **reading one word** of a sieved segment: the word `w` delivers exactly the primes of `(163, N]` in
    `[L + 240 w + 7, L + 240 (w + 1) + 7)`; bytes beyond `size` (last segment) read as zero -/
theorem word_prFrom (N L : ℕ) (s : Bytes) (hL : 30 ∣ L) (hs : SegOk 165 N L s)
    (hcov : s.size % 8 = 0 ∨ N ≤ L + 30 * s.size + 6) (w : ℕ) (hw : 8 * w < s.size) :
    prFrom N (L + 240 * w + 7) = wordPrimes (word64 s w) (L + 240 * w) ++ prFrom N (L + 240 * (w + 1) + 7) := by
  obtain ⟨hsort, hmem⟩ := wordPrimes_sorted_mem s hs.1 L w
  apply prFrom_split N _ _ _ (by omega) hsort
  intro n
  rw [hmem]
  constructor
  · rintro ⟨t, ht, hb, rfl⟩
    obtain ⟨h1, h2, h3, h4⟩ := (hs.2 _).1 hb
    have hlo := (numOf_lt_iff L (64 * w + t) (8 * w))
    have hhi := (numOf_lt_iff L (64 * w + t) (8 * (w + 1)))
    refine ⟨by omega, by omega, by omega, h2, h4⟩
  · rintro ⟨h1, h2, h3, h4, h5⟩
    obtain ⟨p, hp⟩ := exists_numOf L n hL (by omega) (prime_coprime_30 n h4 (by omega))
    have hlo := (numOf_lt_iff L p (8 * w))
    have hhi := (numOf_lt_iff L p (8 * (w + 1)))
    have hsz := (numOf_lt_iff L p s.size)
    rw [hp] at hlo hhi hsz
    have hp1 : 64 * w ≤ p := by omega
    have hp2 : p < 64 * w + 64 := by omega
    have h165 := prime_ge_165 h4 h3
    have hp3 : p < 8 * s.size := by
      rcases hcov with hc | hc
      · omega
      · omega
    refine ⟨p - 64 * w, by omega, ?_, ?_⟩
    · rw [show 64 * w + (p - 64 * w) = p by omega]
      exact (hs.2 p).2 ⟨hp3, by rw [hp]; exact h4, by rw [hp]; omega, by rw [hp]; exact h5⟩
    · rw [show 64 * w + (p - 64 * w) = p by omega]; exact hp.symm

theorem svpFillLoop_step (s : Bytes) (f : ℕ) (acc : Array ℕ) (low idx : ℕ) :
    svpFillLoop s (f + 1) acc low idx =
      if (acc ++ (wordPrimes (word64 s (idx / 8)) low).toArray).size ≤ 64 ∧ idx + 8 < s.size then
        svpFillLoop s f (acc ++ (wordPrimes (word64 s (idx / 8)) low).toArray) (low + 240) (idx + 8)
      else (acc ++ (wordPrimes (word64 s (idx / 8)) low).toArray, low + 240, idx + 8) := rfl

/-- **the loop of `fill()`** on a sieved segment, started at word `w` inside the array: it reads the words `w … w' − 1`
    (`w < w'`, the last one started inside the array) and appends exactly the primes of those words; the loop's own fuel
    suffices when it is at least the number of words left -/
theorem svpFillLoop_spec (N L : ℕ) (s : Bytes) (hL : 30 ∣ L) (hs : SegOk 165 N L s)
    (hcov : s.size % 8 = 0 ∨ N ≤ L + 30 * s.size + 6) :
    ∀ (fuel : ℕ) (acc : Array ℕ) (w : ℕ), 8 * w < s.size →
      ∃ w' l, svpFillLoop s (fuel + 1) acc (L + 240 * w) (8 * w) = (acc ++ l.toArray, L + 240 * w', 8 * w') ∧
        w < w' ∧ 8 * w' < s.size + 8 ∧ prFrom N (L + 240 * w + 7) = l ++ prFrom N (L + 240 * w' + 7) ∧
        ((s.size - 8 * w + 7) / 8 ≤ fuel + 1 → (s.size ≤ 8 * w' ∨ 64 < (acc ++ l.toArray).size))
  | 0, acc, w, hw => by
    refine ⟨w + 1, wordPrimes (word64 s w) (L + 240 * w), ?_, by omega, by omega,
      word_prFrom N L s hL hs hcov w hw, fun h => Or.inl (by omega)⟩
    rw [svpFillLoop_step, show 8 * w / 8 = w by omega]
    split
    · rw [svpFillLoop]; rw [show L + 240 * w + 240 = L + 240 * (w + 1) by ring, show 8 * w + 8 = 8 * (w + 1) by ring]
    · rw [show L + 240 * w + 240 = L + 240 * (w + 1) by ring, show 8 * w + 8 = 8 * (w + 1) by ring]
  | fuel + 1, acc, w, hw => by
    rw [svpFillLoop_step, show 8 * w / 8 = w by omega]
    have hword := word_prFrom N L s hL hs hcov w hw
    split
    · next hc =>
      obtain ⟨w', l, h1, h2, h3, h4, h5⟩ := svpFillLoop_spec N L s hL hs hcov fuel
        (acc ++ (wordPrimes (word64 s w) (L + 240 * w)).toArray) (w + 1) (by omega)
      refine ⟨w', wordPrimes (word64 s w) (L + 240 * w) ++ l, ?_, by omega, h3, ?_, ?_⟩
      · rw [show L + 240 * w + 240 = L + 240 * (w + 1) by ring, show 8 * w + 8 = 8 * (w + 1) by ring, h1]
        simp [Array.append_assoc]
      · rw [hword, h4, List.append_assoc]
      · intro hf
        have := h5 (by omega)
        simpa [Array.append_assoc] using this
    · next hc =>
      refine ⟨w + 1, wordPrimes (word64 s w) (L + 240 * w), ?_, by omega, by omega, hword, ?_⟩
      · rw [show L + 240 * w + 240 = L + 240 * (w + 1) by ring, show 8 * w + 8 = 8 * (w + 1) by ring]
      · intro _
        by_cases h8 : 8 * w + 8 < s.size
        · right; omega
        · left; omega

end Pc.PsCore
