/-
WP close: `store_n_primes` / `generate_n_primes<T>(n)` (StorePrimes.hpp:102-160, /repo/src/generate_primes.cpp) — the model
`storeNLoop` / `storeNPrimes` / `pcGenerateNPrimes` of PcModel/Iter.lean returns EXACTLY the first `n` primes `≥ start`
(for `start = 0`: `p 1 … p n` behind the leading `primes[0] = 0`), for every stop hint `nthHint`, every float outcome and every batching
(both inside `e`), under the contract `GenSpec e` of the sieving core. notes/wp-iter.md listed these as "modelled and tied, not proved".

The induction is over the fuel of `storeNLoop` with the invariant
  "`acc ++ s.buf` lists exactly the primes of `[start, last s.buf]`, and the object is `FwdReady` at `last + 1`";
the only facts about `generate_next_primes()` used are `genNext_spec` / `FwdDone` (PcProofs/IterRefine.lean).
-/
import PcProofs.CloseIterPrime
import PcProofs.Spec.Basic

namespace Pc.It
open Nat

/-! ### lists of "exactly the primes of an interval" -/

/-- membership in the `≤ c` prefix of a strictly increasing list -/
theorem mem_takeWhile_le_sorted {l : List ℕ} (hs : l.Pairwise (· < ·)) (c x : ℕ) :
    x ∈ l.takeWhile (fun y => decide (y ≤ c)) ↔ x ∈ l ∧ x ≤ c := by
  induction l with
  | nil => simp
  | cons a t ih =>
    have hat := (List.pairwise_cons.1 hs).1
    have iht := ih (List.pairwise_cons.1 hs).2
    by_cases hac : a ≤ c
    · rw [List.takeWhile_cons_of_pos (by simpa using hac), List.mem_cons, List.mem_cons, iht]
      constructor
      · rintro (rfl | ⟨h1, h2⟩)
        · exact ⟨Or.inl rfl, hac⟩
        · exact ⟨Or.inr h1, h2⟩
      · rintro ⟨rfl | h1, h2⟩
        · exact Or.inl rfl
        · exact Or.inr ⟨h1, h2⟩
    · rw [List.takeWhile_cons_of_neg (by simpa using hac)]
      constructor
      · intro h; simp at h
      · rintro ⟨h1, h2⟩
        exfalso
        rcases List.mem_cons.1 h1 with rfl | h1
        · exact hac h2
        · have := hat x h1; omega

theorem PrimesIn.unique {A B : List ℕ} {a b : ℕ} (hA : PrimesIn A a b) (hB : PrimesIn B a b) : A = B :=
  hA.1.eq_of_mem_iff hB.1 (fun q => by rw [hA.2 q, hB.2 q])

/-- the `≤ b` part of the primes of `[a, c]` -/
theorem PrimesIn.takeWhile {B : List ℕ} {a b c : ℕ} (hB : PrimesIn B a c) (hbc : b ≤ c) :
    PrimesIn (B.takeWhile (fun y => decide (y ≤ b))) a b := by
  refine ⟨hB.1.sublist (List.takeWhile_sublist _), fun q => ?_⟩
  rw [mem_takeWhile_le_sorted hB.1, hB.2 q]
  constructor
  · rintro ⟨⟨h1, h2, _⟩, h4⟩; exact ⟨h1, h2, h4⟩
  · rintro ⟨h1, h2, h3⟩; exact ⟨⟨h1, h2, by omega⟩, h3⟩

theorem PrimesIn.prefix {A B : List ℕ} {a b c : ℕ} (hA : PrimesIn A a b) (hB : PrimesIn B a c) (hbc : b ≤ c) : A <+: B := by
  rw [hA.unique (hB.takeWhile hbc)]
  exact List.takeWhile_prefix _

/-- two lists of primes from the same start agree on every common prefix length -/
theorem PrimesIn.take_eq {A B : List ℕ} {a b c : ℕ} (hA : PrimesIn A a b) (hB : PrimesIn B a c) (k : ℕ) (hkA : k ≤ A.length)
    (hkB : k ≤ B.length) : A.take k = B.take k := by
  rcases Nat.le_total b c with h | h
  · rw [List.prefix_iff_eq_take.1 (hA.prefix hB h), List.take_take, Nat.min_eq_left hkA]
  · rw [List.prefix_iff_eq_take.1 (hB.prefix hA h), List.take_take, Nat.min_eq_left hkB]

theorem PrimesIn.append {A B : List ℕ} {a b c : ℕ} (hA : PrimesIn A a b) (hB : PrimesIn B (b + 1) c) (hab : a ≤ b + 1)
    (hbc : b ≤ c) : PrimesIn (A ++ B) a c := by
  refine ⟨List.pairwise_append.2 ⟨hA.1, hB.1, fun x hx y hy => ?_⟩, fun q => ?_⟩
  · have := ((hA.2 x).1 hx).2.2
    have := ((hB.2 y).1 hy).2.1
    omega
  · rw [List.mem_append, hA.2 q, hB.2 q]
    constructor
    · rintro (⟨h1, h2, h3⟩ | ⟨h1, h2, h3⟩)
      · exact ⟨h1, h2, by omega⟩
      · exact ⟨h1, by omega, h3⟩
    · rintro ⟨h1, h2, h3⟩
      by_cases h : q ≤ b
      · exact Or.inl ⟨h1, h2, h⟩
      · exact Or.inr ⟨h1, by omega, h3⟩

theorem mem_take_mono {l : List ℕ} {k k' x : ℕ} (hk : k ≤ k') (h : x ∈ l.take k) : x ∈ l.take k' := by
  have : l.take k = (l.take k').take k := by rw [List.take_take, Nat.min_eq_left hk]
  rw [this] at h
  exact List.mem_of_mem_take h

/-- what a successful `generate_next_primes()` re-establishes (as in `nextCalls_spec`) -/
theorem fwdDone_ready {s s' : St} {n L : ℕ} (hd : FwdDone s s' n) (hL : s'.buf.getLast? = some L) :
    PrimesIn s'.buf n L ∧ FwdReady s' (L + 1) ∧ L + 1 ≤ umax ∧ n ≤ L := by
  obtain ⟨hP, hle, hg⟩ := hd.covers L hL
  have hLm := (hP.2 L).1 (List.mem_of_getLast? hL)
  have hLu : L + 1 ≤ umax := by
    have := hd.stop_le
    have : L ≠ umax := fun h => umax_not_prime (h ▸ hLm.1)
    omega
  exact ⟨hP, ⟨hd.stop_le, Or.inr ⟨_, hg, rfl, rfl, hd.incl, by show L + 1 ≤ s'.mem.stop + 1; omega⟩⟩, hLu, hLm.2.1⟩

/-! ### `store_n_primes` -/

/-- the `while (n >= it.size_)` loop: from any state whose buffer ends the primes of `[start, L]` collected so far, with `n ≥ 1` primes
    still wanted and at least that many left below 2^64, the loop returns the first `acc.length + n` primes `≥ start` -/
theorem storeNLoop_specC (e : Env) (he : GenSpec e) (vmax start Q : ℕ) (F : List ℕ) (hF : PrimesIn F start Q) (hQ : Q ≤ umax) :
    ∀ fuel n (s : St) (acc : List ℕ) (L : ℕ), 1 ≤ n → n ≤ fuel → s.buf.getLast? = some L → PrimesIn (acc ++ s.buf) start L →
      FwdReady s (L + 1) → L + 1 ≤ umax → s.hint ≤ umax → s.start ≤ umax → acc.length + n ≤ F.length →
      (∀ x ∈ F.take (acc.length + n), x ≤ vmax) →
      storeNLoop e vmax fuel n s acc = .ok (F.take (acc.length + n)) := by
  intro fuel
  induction fuel with
  | zero => intro n s acc L h1 h2; omega
  | succ fuel ih =>
    intro n s acc L hn1 hnf hL hP hr hLu hh hst hlen hv
    have hLmem : L ∈ s.buf := List.mem_of_getLast? hL
    have hsL : start ≤ L := ((hP.2 L).1 (List.mem_append_right _ hLmem)).2.1
    have hsize : s.size = s.buf.length := rfl
    have hbne : 1 ≤ s.buf.length := List.length_pos_of_mem hLmem
    rw [storeNLoop]
    by_cases hsz : n ≥ s.size
    · have hsz' : s.buf.length ≤ n := hsz
      rw [if_pos hsz]
      simp only [hL]
      have hkey : acc ++ s.buf = F.take (acc.length + s.buf.length) := by
        have := hP.take_eq hF (acc.length + s.buf.length) (by simp) (by omega)
        rw [← this, ← List.length_append, List.take_length]
      have hLv : L ≤ vmax := by
        apply hv
        apply mem_take_mono (k := acc.length + s.buf.length) (by omega)
        rw [← hkey]; exact List.mem_append_right _ hLmem
      rw [if_neg (by omega)]
      by_cases hn0 : n - s.size = 0
      · rw [if_pos hn0]
        have : n = s.buf.length := by unfold St.size at hn0; omega
        rw [hkey, this]
      · rw [if_neg hn0]
        have hlt : acc.length + s.buf.length < F.length := by unfold St.size at hn0; omega
        -- the next prime exists below 2^64: the entry of `F` behind the common prefix
        have hex : ∃ p, p.Prime ∧ L + 1 ≤ p ∧ p ≤ umax := by
          have hm : F[acc.length + s.buf.length] ∈ F := List.getElem_mem hlt
          obtain ⟨h1, _, h3⟩ := (hF.2 _).1 hm
          refine ⟨_, h1, ?_, by omega⟩
          by_contra hcon
          have hin : F[acc.length + s.buf.length] ∈ acc ++ s.buf :=
            (hP.2 _).2 ⟨h1, ((hF.2 _).1 hm).2.1, by omega⟩
          rw [hkey] at hin
          obtain ⟨j, hj, hjeq⟩ := List.getElem_of_mem hin
          rw [List.getElem_take] at hjeq
          rw [List.length_take] at hj
          have := List.pairwise_iff_getElem.1 hF.1 j (acc.length + s.buf.length) (by omega) hlt (by omega)
          omega
        obtain ⟨s1, h1, hd⟩ := (genNext_spec e he bigFuel s (L + 1) hr hLu hh hst (fwdFuel_le_big s _)).1 hex
        obtain ⟨L1, hL1⟩ : ∃ L1, s1.buf.getLast? = some L1 := ⟨s1.buf.getLast hd.ne, List.getLast?_eq_some_getLast hd.ne⟩
        obtain ⟨hP1, hr1, hL1u, hLL1⟩ := fwdDone_ready hd hL1
        simp only [h1]
        have hne : s1.buf.length ≠ 0 := fun h => hd.ne (List.length_eq_zero_iff.1 h)
        have := ih (n - s.size) s1 (acc ++ s.buf) L1 (by omega) (by omega) hL1
          (hP.append hP1 (by omega) (by omega)) hr1 hL1u (by rw [hd.hint]; exact hh) hd.start_le
          (by rw [List.length_append]; unfold St.size; omega)
          (by rw [List.length_append]; unfold St.size
              rw [show acc.length + s.buf.length + (n - s.buf.length) = acc.length + n by omega]; exact hv)
        rw [this, List.length_append]; unfold St.size
        rw [show acc.length + s.buf.length + (n - s.buf.length) = acc.length + n by omega]
    · have hsz' : n < s.buf.length := by unfold St.size at hsz; omega
      rw [if_neg hsz]
      have hkey : acc ++ s.buf.take n = F.take (acc.length + n) := by
        have := hP.take_eq hF (acc.length + n) (by simp; omega) hlen
        rw [← this, List.take_length_add_append]
      have hget : s.buf[n - 1]? = some (s.buf[n - 1]'(by omega)) := List.getElem?_eq_getElem (by omega)
      simp only [hget]
      have hv1 : s.buf[n - 1]'(by omega) ≤ vmax := by
        apply hv
        rw [← hkey]
        apply List.mem_append_right
        rw [List.mem_take_iff_getElem]
        exact ⟨n - 1, by omega, rfl⟩
      rw [if_neg (by omega), hkey]

/-- **`store_n_primes(n, start, primes)`**: if the primes of `[start, Q]` (`Q ≤ 2^64-1`, the list `F`) are at least `n` and the first `n`
    of them fit the element type, the call returns exactly these `n` primes, in increasing order — for every stop hint `nthHint`
    (i.e. every outcome of the float expression `n * (log n + log log n)`), every float outcome and batching inside `e` -/
theorem storeNPrimes_correct (e : Env) (he : GenSpec e) (vmax n start nthHint Q : ℕ) (F : List ℕ) (hF : PrimesIn F start Q)
    (hQ : Q ≤ umax) (hs : start ≤ umax) (hlen : n ≤ F.length) (hv : ∀ x ∈ F.take n, x ≤ vmax) :
    storeNPrimes e vmax n start nthHint = .ok (F.take n) := by
  unfold storeNPrimes
  by_cases hn : n = 0
  · rw [if_pos hn, hn, List.take_zero]
  · rw [if_neg hn]
    have hstop : (start + nthHint) % two64 ≤ umax := by
      have := Nat.mod_lt (start + nthHint) (show 0 < two64 by unfold two64; omega)
      unfold two64 at *; unfold umax; omega
    have hex : ∃ p, p.Prime ∧ start ≤ p ∧ p ≤ umax := by
      have hm : F[0]'(by omega) ∈ F := List.getElem_mem _
      obtain ⟨h1, h2, h3⟩ := (hF.2 _).1 hm
      exact ⟨_, h1, h2, by omega⟩
    obtain ⟨s0, h0, hd⟩ := (genNext_spec e he bigFuel (init start ((start + nthHint) % two64)) start
      (fwdReady_init _ _ hs) hs hstop hs (fwdFuel_le_big _ _)).1 hex
    obtain ⟨L0, hL0⟩ : ∃ L0, s0.buf.getLast? = some L0 := ⟨s0.buf.getLast hd.ne, List.getLast?_eq_some_getLast hd.ne⟩
    obtain ⟨hP0, hr0, hL0u, _⟩ := fwdDone_ready hd hL0
    simp only [h0]
    have := storeNLoop_specC e he vmax start Q F hF hQ (n + 1) n s0 [] L0 (by omega) (by omega) hL0 (by simpa using hP0) hr0 hL0u
      (by rw [hd.hint]; exact hstop) hd.start_le (by simpa using hlen) (by simpa using hv)
    simpa using this

/-! ### the first `n` primes: `p 1 … p n` -/

/-- the list `[p 1, …, p n]` -/
noncomputable def firstNPrimes (n : ℕ) : List ℕ := (List.range n).map (fun i => Spec.p (i + 1))

theorem firstNPrimes_length (n : ℕ) : (firstNPrimes n).length = n := by simp [firstNPrimes]

theorem firstNPrimes_primesIn (n : ℕ) (hn : 1 ≤ n) : PrimesIn (firstNPrimes n) 0 (Spec.p n) := by
  refine ⟨?_, fun q => ?_⟩
  · unfold firstNPrimes
    rw [List.pairwise_map]
    exact List.Pairwise.imp_of_mem (fun {a b} _ _ hab => Spec.p_lt_p (by omega) (by omega)) List.pairwise_lt_range
  · unfold firstNPrimes
    rw [List.mem_map]
    constructor
    · rintro ⟨i, hi, rfl⟩
      exact ⟨Spec.p_prime (by omega), Nat.zero_le _, Spec.p_le_p (by have := List.mem_range.1 hi; omega)⟩
    · rintro ⟨h1, _, h3⟩
      have h4 := Spec.one_le_pi_of_prime h1
      have h5 : Nat.primeCounting q ≤ n := by
        have := Spec.pi_mono h3
        rwa [Spec.pi_p hn] at this
      refine ⟨Nat.primeCounting q - 1, List.mem_range.2 (by omega), ?_⟩
      rw [show Nat.primeCounting q - 1 + 1 = Nat.primeCounting q by omega]
      exact Spec.p_pi_of_prime h1

theorem firstNPrimes_take (n k : ℕ) (hk : k ≤ n) : (firstNPrimes n).take k = firstNPrimes k := by
  unfold firstNPrimes
  rw [← List.map_take, List.take_range, Nat.min_eq_left hk]

/-- **`store_n_primes(n, 0, primes)`** returns `[p 1, …, p n]` whenever `p n` fits `uint64_t` and the element type -/
theorem storeNPrimes_zero_correct (e : Env) (he : GenSpec e) (vmax n nthHint : ℕ) (hu : Spec.p n ≤ umax) (hv : Spec.p n ≤ vmax) :
    storeNPrimes e vmax n 0 nthHint = .ok (firstNPrimes n) := by
  by_cases hn : n = 0
  · subst hn; rfl
  · have := storeNPrimes_correct e he vmax n 0 nthHint (Spec.p n) (firstNPrimes n) (firstNPrimes_primesIn n (by omega)) hu
      (Nat.zero_le _) (by rw [firstNPrimes_length]) (fun x hx => by
        have := ((firstNPrimes_primesIn n (by omega)).2 x).1 (List.mem_of_mem_take hx)
        omega)
    rw [this, firstNPrimes_take n n (le_refl _)]

/-- **`generate_n_primes<T>(a)`** (1-indexed, `primes[0] = 0`): the shape `CallOK.prime0 / prime` of phi.cpp needs -/
theorem pcGenerateNPrimes_correct (e : Env) (he : GenSpec e) (vmax a nthHint : ℕ) (hu : Spec.p a ≤ umax) (hv : Spec.p a ≤ vmax) :
    ∃ l, pcGenerateNPrimes e vmax a nthHint = .ok l ∧ l = 0 :: firstNPrimes a ∧ l.length = a + 1 ∧ l.getD 0 0 = 0 ∧
      ∀ i, 1 ≤ i → i ≤ a → l.getD i 0 = Spec.p i := by
  refine ⟨0 :: firstNPrimes a, ?_, rfl, by simp [firstNPrimes_length], rfl, fun i hi hia => ?_⟩
  · unfold pcGenerateNPrimes
    rw [storeNPrimes_zero_correct e he vmax a nthHint hu hv]
  · obtain ⟨j, rfl⟩ : ∃ j, i = j + 1 := ⟨i - 1, by omega⟩
    unfold firstNPrimes
    simp [List.getD, show j < a by omega]

end Pc.It
