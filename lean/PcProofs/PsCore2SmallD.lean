/-
C18 core, second half: the 8 unrolled loops of `EratSmall::crossOff` (`fastBlock` in front of `case 8g:`).  One round of the loop of
group `g` = the 8 single steps of the `switch` from wheel position 0 of group `g` (all 8 bytes inside the block), so the `switch`
with the unrolled loops satisfies the same block specification.
-/
import PcProofs.PsCore2SmallC
import Mathlib.Data.List.GetD

namespace Pc.PsCore
open Pc.PsWheelSpec
open Pc.Sieve (Bytes clearBit bitAt)

def fHead (g : ℕ) : ℕ × ℕ × ℕ × ℕ := Gen.psSmallFastHead.getD g (0, 0, 0, 0)
def fBody (g : ℕ) : List (ℕ × ℕ × ℕ) := Gen.psSmallFastBody.getD g []
/-- `k` of statement `j` of the unrolled loop of group `g`; for `j = 8` the step of the loop -/
def fbK (g j : ℕ) : ℕ := if j < 8 then ((fBody g).getD j (0, 0, 0)).1 else (fHead g).2.2.1
def fbC (g j : ℕ) : ℕ := if j < 8 then ((fBody g).getD j (0, 0, 0)).2.1 else (fHead g).2.2.2

/-! the unrolled loops against the `case` lines (finite table facts) -/
theorem fast_len : ∀ g < 8, (fBody g).length = 8 := by decide +kernel
theorem fast_zero : ∀ g < 8, fbK g 0 = 0 ∧ fbC g 0 = 0 := by decide +kernel
theorem fast_tab : ∀ g < 8, ∀ j < 8,
    ((fBody g).getD j (0, 0, 0)).2.2 = (Gen.psSmallTab.getD (8 * g + j) (0, 0, 0, 0)).1 ∧
    fbK g (j + 1) = fbK g j + (Gen.psSmallTab.getD (8 * g + j) (0, 0, 0, 0)).2.1 ∧
    fbC g (j + 1) = fbC g j + (Gen.psSmallTab.getD (8 * g + j) (0, 0, 0, 0)).2.2.1 ∧
    (Gen.psSmallTab.getD (8 * g + j) (0, 0, 0, 0)).2.2.2 = 8 * g + (j + 1) % 8 ∧
    fbK g j ≤ (fHead g).1 ∧ fbC g j ≤ (fHead g).2.1 := by decide +kernel

/-- statements `j … 7` of one round -/
theorem fastRound_aux (P q Lseg base n g m : ℕ) (s : Bytes) (u : ℕ) (hL : 30 ∣ Lseg) (hP : 1 ≤ P) (hg : g < 8)
    (hin : m + (P * (fHead g).1 + (fHead g).2.1) < n) :
    ∀ (r j : ℕ), j + r = 8 → ∀ (sj : Bytes) (uj : ℕ),
      Pos 30 8 P q (Lseg + 30 * base) (m + P * fbK g j + fbC g j) (8 * g + j % 8) uj →
      Reach 30 q Lseg (Lseg + 30 * base + 30 * n + 7) (n + (P * 6 + 6 + 1)) m s u (m + P * fbK g j + fbC g j) sj uj →
      ∃ u', Pos 30 8 P q (Lseg + 30 * base) (m + P * fbK g 8 + fbC g 8) (8 * g) u' ∧
        Reach 30 q Lseg (Lseg + 30 * base + 30 * n + 7) (n + (P * 6 + 6 + 1)) m s u (m + P * fbK g 8 + fbC g 8)
          (((fBody g).drop j).foldl (fun s e => s.modify (base + m + P * e.1 + e.2.1) (clearBit · e.2.2)) sj) u' := by
  intro r
  induction r with
  | zero =>
    intro j hj sj uj hpos hr
    have : j = 8 := by omega
    subst this
    rw [List.drop_eq_nil_of_le (by rw [fast_len g hg])]
    exact ⟨uj, by simpa using hpos, hr⟩
  | succ r ih =>
    intro j hj sj uj hpos hr
    have hj8 : j < 8 := by omega
    rw [Nat.mod_eq_of_lt hj8] at hpos
    obtain ⟨t1, t2, t3, t4, t5, t6⟩ := fast_tab g hg j hj8
    have hlen : j < (fBody g).length := by rw [fast_len g hg]; exact hj8
    have hmul : P * fbK g j ≤ P * (fHead g).1 := Nat.mul_le_mul_left P t5
    obtain ⟨hp2, hr2⟩ := reach_step tabOk_small Lseg base n hL hP hpos (by omega) sj
    set e := Gen.psSmallTab.getD (8 * g + j) (0, 0, 0, 0) with he
    rw [List.drop_eq_getElem_cons hlen, List.foldl_cons]
    have hb : (fBody g)[j] = (fBody g).getD j (0, 0, 0) := (List.getD_eq_getElem _ _ hlen).symm
    have hK : ((fBody g).getD j (0, 0, 0)).1 = fbK g j := by unfold fbK; rw [if_pos hj8]
    have hC : ((fBody g).getD j (0, 0, 0)).2.1 = fbC g j := by unfold fbC; rw [if_pos hj8]
    have hidx : base + m + P * (fBody g)[j].1 + (fBody g)[j].2.1 = base + (m + P * fbK g j + fbC g j) := by
      rw [hb, hK, hC]; omega
    have hm2 : m + P * fbK g j + fbC g j + P * e.2.1 + e.2.2.1 = m + P * fbK g (j + 1) + fbC g (j + 1) := by
      rw [t2, t3, Nat.mul_add]; omega
    rw [hidx, hb, t1]
    rw [hm2, t4] at hp2
    rw [hm2] at hr2
    exact ih (j + 1) (by omega) _ _ hp2 (hr.trans hr2)

/-- **one round of an unrolled loop** = 8 single steps -/
theorem fastRound_reach (P q Lseg base n g m : ℕ) (s : Bytes) (u : ℕ) (hL : 30 ∣ Lseg) (hP : 1 ≤ P) (hg : g < 8)
    (hin : m + (P * (fHead g).1 + (fHead g).2.1) < n) (hpos : Pos 30 8 P q (Lseg + 30 * base) m (8 * g) u) :
    ∃ u', Pos 30 8 P q (Lseg + 30 * base) (m + P * (fHead g).2.2.1 + (fHead g).2.2.2) (8 * g) u' ∧
      Reach 30 q Lseg (Lseg + 30 * base + 30 * n + 7) (n + (P * 6 + 6 + 1)) m s u
        (m + P * (fHead g).2.2.1 + (fHead g).2.2.2) (fastRound P base (fBody g) m s) u' := by
  obtain ⟨z1, z2⟩ := fast_zero g hg
  have h0 : m + P * fbK g 0 + fbC g 0 = m := by rw [z1, z2]; omega
  have := fastRound_aux P q Lseg base n g m s u hL hP hg hin 8 0 rfl s u
    (by rw [h0]; simpa using hpos) (by rw [h0]; exact Reach.refl ..)
  exact this

/-- the whole unrolled loop: some number of rounds -/
theorem fastLoop_reach (P q Lseg base n g : ℕ) (hL : 30 ∣ Lseg) (hP : 1 ≤ P) (hg : g < 8) :
    ∀ (fuel m : ℕ) (s : Bytes) (u : ℕ), Pos 30 8 P q (Lseg + 30 * base) m (8 * g) u →
      ∃ u2, Pos 30 8 P q (Lseg + 30 * base)
          (fastLoop P base (max n (P * (fHead g).1 + (fHead g).2.1) - (P * (fHead g).1 + (fHead g).2.1))
            (fHead g).2.2.1 (fHead g).2.2.2 (fBody g) fuel m s).1 (8 * g) u2 ∧
        Reach 30 q Lseg (Lseg + 30 * base + 30 * n + 7) (n + (P * 6 + 6 + 1)) m s u
          (fastLoop P base (max n (P * (fHead g).1 + (fHead g).2.1) - (P * (fHead g).1 + (fHead g).2.1))
            (fHead g).2.2.1 (fHead g).2.2.2 (fBody g) fuel m s).1
          (fastLoop P base (max n (P * (fHead g).1 + (fHead g).2.1) - (P * (fHead g).1 + (fHead g).2.1))
            (fHead g).2.2.1 (fHead g).2.2.2 (fBody g) fuel m s).2 u2 := by
  intro fuel
  induction fuel with
  | zero => intro m s u hpos; exact ⟨u, hpos, Reach.refl ..⟩
  | succ fuel ih =>
    intro m s u hpos
    unfold fastLoop
    by_cases hm : m < max n (P * (fHead g).1 + (fHead g).2.1) - (P * (fHead g).1 + (fHead g).2.1)
    · rw [if_pos hm]
      obtain ⟨u1, hp1, hr1⟩ := fastRound_reach P q Lseg base n g m s u hL hP hg (by omega) hpos
      obtain ⟨u2, hp2, hr2⟩ := ih _ (fastRound P base (fBody g) m s) u1 hp1
      exact ⟨u2, hp2, hr1.trans hr2⟩
    · rw [if_neg hm]; exact ⟨u, hpos, Reach.refl ..⟩

theorem fastBlock_eq (P base size g m : ℕ) (s : Bytes) :
    fastBlock P base size g m s =
      fastLoop P base (max size (P * (fHead g).1 + (fHead g).2.1) - (P * (fHead g).1 + (fHead g).2.1))
        (fHead g).2.2.1 (fHead g).2.2.2 (fBody g) (size + 1) m s := rfl

theorem preOk2_small (P q Lseg base n : ℕ) (hL : 30 ∣ Lseg) (hP : 1 ≤ P) : PreOk2 30 8 6 P q Lseg base n := by
  intro m idx s u hidx hpos
  have hg : idx / 8 < 8 ∧ idx = 8 * (idx / 8) := by
    obtain ⟨g, j, U, hg, hj, _, _, hi, _⟩ := hpos
    omega
  rw [fastBlock_eq]
  have hpos' : Pos 30 8 P q (Lseg + 30 * base) m (8 * (idx / 8)) u := by rw [← hg.2]; exact hpos
  obtain ⟨u2, hp2, hr2⟩ := fastLoop_reach P q Lseg base n (idx / 8) hL hP hg.1 (n + 1) m s u hpos'
  rw [← hg.2] at hp2
  exact ⟨u2, hp2, hr2⟩

/-- item 2: the `switch` of EratSmall WITH its unrolled loops satisfies the block specification -/
theorem crossOk_small_fast : CrossOk Gen.psSmallTab true :=
  fun P q Lseg base n hP hL =>
    crossLoop_specG Gen.psSmallTab true 30 8 6 tabOk_small P q Lseg base n hP hL (fun _ => preOk2_small P q Lseg base n hL hP)

/-- item 2 in the shape of `crossLoop_spec2` -/
theorem crossLoop_fast_spec (P q Lseg base n : ℕ) (hP : 1 ≤ P) (hL : 30 ∣ Lseg) :
    ∀ (fuel m idx : ℕ) (s : Bytes) (u : ℕ), Pos 30 8 P q (Lseg + 30 * base) m idx u → n - m < fuel →
    ∃ u', u ≤ u' ∧
      Pos 30 8 P q (Lseg + 30 * base + 30 * n) (crossLoop Gen.psSmallTab true P base n fuel m idx s).1
        (crossLoop Gen.psSmallTab true P base n fuel m idx s).2.1 u' ∧
      (∀ p, bitAt (crossLoop Gen.psSmallTab true P base n fuel m idx s).2.2 p = true ↔
        (bitAt s p = true ∧ ¬ Hit 30 q Lseg u u' p)) ∧
      (crossLoop Gen.psSmallTab true P base n fuel m idx s).2.2.size = s.size ∧
      ((crossLoop Gen.psSmallTab true P base n fuel m idx s).1 < P * 6 + 6 + 1 ∨
        (n ≤ m ∧ (crossLoop Gen.psSmallTab true P base n fuel m idx s).1 = m - n)) ∧
      (∀ t, u ≤ t → t < u' → Nat.Coprime t 30 → q * t < Lseg + 30 * base + 30 * n + 7) :=
  crossOk_small_fast P q Lseg base n hP hL

theorem primeOk_small : PrimeOk Gen.psSmallTab true := primeOk_of_crossOk crossOk_small_fast

end Pc.PsCore
