/-
Bridge, part 3: the terms that are sums over square-free numbers — `S1`, `Phi0`, `S2`, `C`, `D` of
PcModel/Formulas.lean equal the spec terms of PcProofs/Spec for every valid table that is large enough.
(`factorInfo` / `sqfreeBetween` themselves are specified in PcProofs/FormulasFactor.lean.)
-/
import PcProofs.FormulasPrime
import PcProofs.FormulasFactor

namespace Pc
open Nat Finset Classical
open scoped Nat.Prime ArithmeticFunction.Moebius
variable {t : NT}

/-! ### helpers -/

theorem sumInt_flatMap {α : Type} (l : List α) (h : α → List ℤ) :
    sumInt (l.flatMap h) = sumInt (l.map fun a => sumInt (h a)) := by
  simp only [sumInt_sum]
  induction l with
  | nil => simp
  | cons a l ih => rw [List.flatMap_cons, List.sum_append, ih, List.map_cons, List.sum_cons]

/-- `sqfreeBetween` sums with a weight that vanishes for `μ = 0` range over all `m` with prime factors in
    `(pmin, pmax]` (the non-square-free ones contribute `0`) -/
theorem sum_sqfree_mu0 (lo hi pmin pmax : ℕ) (F : ℕ × ℤ → ℤ) (hF : ∀ m, F (m, 0) = 0) :
    sumInt ((sqfreeBetween lo hi pmin pmax).map F) =
      ∑ m ∈ (Ioc lo hi).filter (fun m => ∀ q, q.Prime → q ∣ m → pmin < q ∧ q ≤ pmax), F (m, μ m) := by
  rw [sum_sqfreeBetween_fn]
  apply Finset.sum_subset
  · intro m hm
    rw [mem_filter] at hm ⊢
    exact ⟨hm.1, hm.2.2⟩
  · intro m hm hnm
    rw [mem_filter] at hm hnm
    have : ¬ Squarefree m := fun h => hnm ⟨hm.1, h, hm.2⟩
    rw [ArithmeticFunction.moebius_eq_zero_of_not_squarefree this, hF]

/-- for a prime `q`: `t.p c < q ↔ c < π q` (also for `c = 0`, where `t.p 0 = 0`) -/
theorem NT.Valid.p_lt_iff (hv : t.Valid) {c q : ℕ} (hc : c ≤ π t.bound) (hq : q.Prime) :
    t.p c < q ↔ c < π q := by
  rcases Nat.eq_zero_or_pos c with h | h
  · subst h
    rw [hv.p_zero]
    have := Spec.one_le_pi_of_prime hq
    have := hq.pos
    omega
  · rw [hv.p_eq c h hc, Spec.lt_pi_iff_p_lt h hq]

theorem NT.Valid.factor_cond (hv : t.Valid) {b y m : ℕ} (hb : b ≤ π t.bound) :
    (∀ q, q.Prime → q ∣ m → t.p b < q ∧ q ≤ y) ↔ (∀ q, q.Prime → q ∣ m → b < π q ∧ π q ≤ π y) := by
  constructor
  · intro h q hq hd
    exact ⟨(hv.p_lt_iff hb hq).1 (h q hq hd).1, (Spec.prime_le_iff_pi_le' hq).1 (h q hq hd).2⟩
  · intro h q hq hd
    exact ⟨(hv.p_lt_iff hb hq).2 (h q hq hd).1, (Spec.prime_le_iff_pi_le' hq).2 (h q hq hd).2⟩

/-- ordinary-leaf sums: `n ≤ z` with prime factors in `(p_b, y]` -/
theorem NT.Valid.ordSum_eq (hv : t.Valid) {z y b : ℕ} (hb : b ≤ π t.bound) (F : ℕ × ℤ → ℤ) (f : ℕ → ℤ)
    (hF : ∀ m mu, F (m, mu) = mu * f m) :
    sumInt ((sqfreeBetween 0 z (t.p b) y).map F) =
      ∑ n ∈ (Icc 1 z).filter (fun n => ∀ q, q.Prime → q ∣ n → b < π q ∧ π q ≤ π y), μ n * f n := by
  rw [sum_sqfree_mu0 _ _ _ _ _ (by intro m; rw [hF]; ring)]
  apply Finset.sum_congr
  · ext n
    rw [mem_filter, mem_filter, mem_Ioc, mem_Icc, hv.factor_cond hb]
    constructor
    · rintro ⟨⟨h1, h2⟩, h3⟩; exact ⟨⟨h1, h2⟩, h3⟩
    · rintro ⟨⟨h1, h2⟩, h3⟩; exact ⟨⟨h1, h2⟩, h3⟩
  · intro n _; exact hF n _

/-- special-leaf sums of level `b`: `z / p_b < m ≤ z` with prime factors in `(p_b, y]`, restricted by `c` -/
theorem NT.Valid.leafSum_eq (hv : t.Valid) {z y b : ℕ} (hb1 : 1 ≤ b) (hb : b ≤ π t.bound) (F : ℕ × ℤ → ℤ)
    (c : ℕ → Prop) [DecidablePred c] (f : ℕ → ℤ) (hF : ∀ m mu, F (m, mu) = if c m then mu * f m else 0) :
    sumInt ((sqfreeBetween (z / t.p b) z (t.p b) y).map F) =
      ∑ m ∈ (Ioc (z / Spec.p b) z).filter
        (fun m => (∀ q, q.Prime → q ∣ m → b < π q ∧ π q ≤ π y) ∧ c m), μ m * f m := by
  rw [sum_sqfree_mu0 _ _ _ _ _ (by intro m; rw [hF]; split_ifs <;> ring)]
  simp only [hF]
  rw [← Finset.sum_filter, Finset.filter_filter, hv.p_eq b hb1 hb]
  apply Finset.sum_congr _ (fun _ _ => rfl)
  ext m
  simp only [mem_filter, ← hv.p_eq b hb1 hb, hv.factor_cond hb]

/-- all special leaves of level `b` (cut-off `y`): the `specTerm` of the spec -/
theorem NT.Valid.specLevel_eq (hv : t.Valid) {x y b : ℕ} (hb1 : 1 ≤ b) (hb : b ≤ π t.bound) (F : ℕ × ℤ → ℤ)
    (hF : ∀ m mu, F (m, mu) = mu * (t.phiOf (x / (t.p b * m)) (b - 1) : ℤ)) :
    sumInt ((sqfreeBetween (y / t.p b) y (t.p b) y).map F) = Spec.specTerm x y b (π y) := by
  rw [hv.leafSum_eq hb1 hb F (fun _ => True) (fun m => (t.phiOf (x / (t.p b * m)) (b - 1) : ℤ))
    (by intro m mu; rw [hF, if_pos trivial]), Spec.specTerm_eq_moebius]
  apply Finset.sum_congr
  · ext m; simp only [mem_filter, and_true]
  · intro m _
    rw [NT.phiOf_eq hv (by omega), hv.p_eq b hb1 hb, mul_comm (Spec.p b) m]

/-! ### S1, Φ0 -/

/-- `S1`: only the first `c` primes and `μ`, `lpf` up to `y` are used; the table has to hold `p c` -/
theorem NT.S1_eq (hv : t.Valid) {x y c : ℕ} (hc : c ≤ π t.bound) : t.S1 x y c = Spec.S1 x y c := by
  unfold NT.S1 Spec.S1
  rw [hv.ordSum_eq hc _ (fun n => (t.phiOf (x / n) c : ℤ)) (fun _ _ => rfl), Spec.ord_eq_moebius]
  apply Finset.sum_congr rfl
  intro n _
  rw [NT.phiOf_eq hv hc]

theorem NT.Phi0_eq (hv : t.Valid) {x y z k : ℕ} (hk : k ≤ π t.bound) :
    t.Phi0 x y z k = Spec.Phi0 x y z k := by
  unfold NT.Phi0 Spec.Phi0
  rw [hv.ordSum_eq hk _ (fun n => (t.phiOf (x / n) k : ℤ)) (fun _ _ => rfl), Spec.ord_eq_moebius]
  apply Finset.sum_congr rfl
  intro n _
  rw [NT.phiOf_eq hv hk]

/-! ### S2 -/

/-- `S2` (all special leaves of LMO): the table has to reach `y` -/
theorem NT.S2_eq (hv : t.Valid) {x y c : ℕ} (hy : y ≤ t.bound) : t.S2 x y c = Spec.S2 x y c := by
  unfold NT.S2 Spec.S2 Spec.spec
  rw [hv.piOf_eq _ hy]
  refine (congrArg Neg.neg (sumInt_map_range_sub c (π y) (fun b =>
    sumInt ((sqfreeBetween (y / t.p b) y (t.p b) y).map
      fun (m, mu) => mu * (t.phiOf (x / (t.p b * m)) (b - 1) : ℤ))))).trans ?_
  congr 1
  apply Finset.sum_congr rfl
  intro b hb
  rw [mem_Ioc] at hb
  exact hv.specLevel_eq (by omega) (le_trans hb.2 (Spec.pi_mono hy)) _ (fun _ _ => rfl)

/-! ### Gourdon's C and D -/

/-- the per-level sum of `gourdonLeaves`-based terms -/
theorem NT.Valid.sum_gourdonLeaves (hv : t.Valid) {x y z k : ℕ} (hxs : xStar x y ≤ t.bound)
    (g : ℕ × ℕ × ℕ × ℤ → ℤ) :
    sumInt ((t.gourdonLeaves x y z k).map g) = ∑ b ∈ Ioc k (π (xStar x y)),
      sumInt ((sqfreeBetween (z / t.p b) z (t.p b) y).map fun x => g (b, t.p b, x.1, x.2)) := by
  unfold NT.gourdonLeaves
  simp only [List.map_flatMap, List.map_map]
  rw [sumInt_flatMap, hv.piOf_eq _ hxs]
  exact sumInt_map_range_sub k (π (xStar x y)) (fun b =>
    sumInt ((sqfreeBetween (z / t.p b) z (t.p b) y).map fun x => g (b, t.p b, x.1, x.2)))

/-- `C`: the table has to reach `x⋆` (`≤ y`) and `x / (z + 1)` (`≤ x / y` when `y ≤ z`) -/
theorem NT.C_eq (hv : t.Valid) {x y z k : ℕ} (hxs : xStar x y ≤ t.bound) (hb : x / (z + 1) ≤ t.bound) :
    t.C x y z k = Spec.C x y z k (xStar x y) := by
  unfold NT.C Spec.C
  rw [hv.sum_gourdonLeaves hxs]
  congr 1
  apply Finset.sum_congr rfl
  intro b hb'
  rw [mem_Ioc] at hb'
  have hb1 : 1 ≤ b := by omega
  have hbB : b ≤ π t.bound := le_trans hb'.2 (Spec.pi_mono hxs)
  rw [hv.leafSum_eq hb1 hbB _
    (fun m => x / (t.p b * t.p b * t.p b) < m ∧ m ≤ x / (t.p b * t.p b))
    (fun m => (t.piOf (x / (t.p b * m)) : ℤ) - b + 2) (fun _ _ => rfl)]
  unfold Spec.Cterm
  rw [hv.p_eq b hb1 hbB]
  apply Finset.sum_congr
  · ext m; simp only [mem_filter]; tauto
  · intro m hm
    rw [mem_filter, mem_Ioc] at hm
    have hq0 := Spec.p_pos b
    have h1 : z < m * Spec.p b := (Nat.div_lt_iff_lt_mul hq0).1 hm.1.1
    have h2 : x / (Spec.p b * m) ≤ x / (z + 1) := by
      apply Nat.div_le_div_left _ (by omega)
      rw [mul_comm]; exact h1
    rw [hv.piOf_eq _ (le_trans h2 hb), mul_comm (Spec.p b) m]

/-- `D`: the table has to reach `x⋆` -/
theorem NT.D_eq (hv : t.Valid) {x y z k : ℕ} (hxs : xStar x y ≤ t.bound) :
    t.D x y z k = Spec.D x y z k (xStar x y) := by
  unfold NT.D Spec.D
  rw [hv.sum_gourdonLeaves hxs]
  congr 1
  apply Finset.sum_congr rfl
  intro b hb'
  rw [mem_Ioc] at hb'
  have hb1 : 1 ≤ b := by omega
  have hbB : b ≤ π t.bound := le_trans hb'.2 (Spec.pi_mono hxs)
  rw [hv.leafSum_eq hb1 hbB _
    (fun m => m ≤ x / (t.p b * t.p b * t.p b))
    (fun m => (t.phiOf (x / (t.p b * m)) (b - 1) : ℤ)) (fun _ _ => rfl)]
  unfold Spec.Dterm
  rw [hv.p_eq b hb1 hbB]
  apply Finset.sum_congr rfl
  intro m _
  rw [NT.phiOf_eq hv (by omega), mul_comm (Spec.p b) m]

end Pc
