/-
WP close: `store_primes(start, stop, primes)` / `generate_primes<T>(max)` (StorePrimes.hpp:57-99, /repo/src/generate_primes.cpp) — the model
`storeLoop1` / `storeLoop2` / `storePrimes` / `pcGeneratePrimes` of PcModel/Iter.lean returns EXACTLY the primes of `[start, stop]`, strictly
increasing, for every float outcome and batching inside `e`, under `GenSpec e`. The hand-appended last 64-bit prime (`maxPrime64 = 2^64-59`,
StorePrimes.hpp:88-97: the iterator would throw beyond it) is covered by `prime_maxPrime64` / `no_prime_above_maxPrime64`
(PcProofs/CloseIterPrime.lean).
-/
import PcProofs.CloseStore

namespace Pc.It
open Nat

/-- StorePrimes.hpp:84 — the whole-buffer loop: ends with a buffer whose last entry exceeds `limit`; `acc ++ buffer` is still exactly the
    primes from `start` to that entry and everything in `acc` is `≤ limit` -/
theorem storeLoop1_specC (e : Env) (he : GenSpec e) (start limit : ℕ) (hlim : limit < maxPrime64) :
    ∀ fuel (s : St) (acc : List ℕ) (L : ℕ), s.buf.getLast? = some L → PrimesIn (acc ++ s.buf) start L → FwdReady s (L + 1) →
      L + 1 ≤ umax → s.hint ≤ umax → s.start ≤ umax → (∀ x ∈ acc, x ≤ limit) → limit + 1 - L < fuel →
      ∃ s' acc' L', storeLoop1 e limit fuel s acc = .ok (s', acc') ∧ s'.buf.getLast? = some L' ∧ limit < L' ∧
        PrimesIn (acc' ++ s'.buf) start L' ∧ ∀ x ∈ acc', x ≤ limit := by
  intro fuel
  induction fuel with
  | zero => intro s acc L _ _ _ _ _ _ _ h; omega
  | succ fuel ih =>
    intro s acc L hL hP hr hLu hh hst hacc hf
    have hLmem : L ∈ s.buf := List.mem_of_getLast? hL
    have hsL : start ≤ L := ((hP.2 L).1 (List.mem_append_right _ hLmem)).2.1
    rw [storeLoop1]
    simp only [hL]
    by_cases hle : L ≤ limit
    · rw [if_pos hle]
      have hex : ∃ p, p.Prime ∧ L + 1 ≤ p ∧ p ≤ umax :=
        ⟨maxPrime64, prime_maxPrime64, by omega, by unfold maxPrime64 umax; omega⟩
      obtain ⟨s1, h1, hd⟩ := (genNext_spec e he bigFuel s (L + 1) hr hLu hh hst (fwdFuel_le_big s _)).1 hex
      obtain ⟨L1, hL1⟩ : ∃ L1, s1.buf.getLast? = some L1 := ⟨s1.buf.getLast hd.ne, List.getLast?_eq_some_getLast hd.ne⟩
      obtain ⟨hP1, hr1, hL1u, hLL1⟩ := fwdDone_ready hd hL1
      simp only [h1]
      exact ih s1 (acc ++ s.buf) L1 hL1 (hP.append hP1 (by omega) (by omega)) hr1 hL1u (by rw [hd.hint]; exact hh) hd.start_le
        (fun x hx => by have := ((hP.2 x).1 hx).2.2; omega) (by omega)
    · rw [if_neg hle]
      exact ⟨s, acc, L, rfl, hL, by omega, hP, hacc⟩

/-- StorePrimes.hpp:86 — the element loop stops at the first entry `> limit` (one exists: no read past the end) -/
theorem storeLoop2_specC (limit : ℕ) (buf : List ℕ) :
    ∀ k i (acc : List ℕ), buf.length - i = k → (∃ j, ∃ h : j < buf.length, i ≤ j ∧ limit < buf[j]) →
      storeLoop2 limit buf i acc = .ok (acc ++ (buf.drop i).takeWhile (fun y => decide (y ≤ limit))) := by
  intro k
  induction k with
  | zero => intro i acc hk ⟨j, h, hij, _⟩; omega
  | succ k ih =>
    intro i acc hk ⟨j, hj, hij, hgt⟩
    have hi : i < buf.length := by omega
    rw [storeLoop2, dif_pos hi, List.drop_eq_getElem_cons hi]
    by_cases hle : buf[i] ≤ limit
    · rw [if_pos hle, List.takeWhile_cons_of_pos (by simpa using hle)]
      have hne : i ≠ j := fun h => by subst h; omega
      rw [ih (i + 1) _ (by omega) ⟨j, hj, by omega, hgt⟩, List.append_assoc]
      rfl
    · rw [if_neg hle, List.takeWhile_cons_of_neg (by simpa using hle), List.append_nil]

theorem primesIn_nil_above (start stop : ℕ) (h1 : maxPrime64 < start) (h2 : stop ≤ umax) : PrimesIn [] start stop :=
  ⟨List.Pairwise.nil, fun q => by
    constructor
    · intro h; simp at h
    · rintro ⟨hq, ha, hb⟩; exact absurd (by omega : q ≤ umax) (no_prime_above_maxPrime64 q hq (by omega))⟩

theorem primesIn_singleton_max (stop : ℕ) (h1 : maxPrime64 ≤ stop) (h2 : stop ≤ umax) :
    PrimesIn [maxPrime64] (maxPrime64 - 1 + 1) stop :=
  ⟨List.pairwise_singleton _ _, fun q => by
    rw [List.mem_singleton]
    constructor
    · rintro rfl; exact ⟨prime_maxPrime64, by unfold maxPrime64; omega, h1⟩
    · rintro ⟨hq, ha, hb⟩
      by_contra hne
      have hlt : maxPrime64 < q := by unfold maxPrime64 at *; omega
      exact no_prime_above_maxPrime64 q hq hlt (by omega)⟩

/-- **`store_primes(start, stop, primes)`** on an empty vector whose element type holds `stop`: exactly the primes of `[start, stop]`,
    strictly increasing, up to and including the last 64-bit prime; never `hang` / `oob` / `primesieve_error` -/
theorem storePrimes_correct (e : Env) (he : GenSpec e) (vmax start stop : ℕ) (hss : start ≤ stop) (hv : stop ≤ vmax)
    (hu : stop ≤ umax) : ∃ l, storePrimes e vmax start stop = .ok l ∧ PrimesIn l start stop := by
  unfold storePrimes
  rw [if_neg (by omega)]
  by_cases hmax : start > maxPrime64
  · rw [if_pos hmax]; exact ⟨[], rfl, primesIn_nil_above start stop hmax hu⟩
  · rw [if_neg hmax, if_neg (by omega)]
    have hs : start ≤ umax := by omega
    have hex : ∃ p, p.Prime ∧ start ≤ p ∧ p ≤ umax := ⟨maxPrime64, prime_maxPrime64, by omega, by unfold maxPrime64 umax; omega⟩
    obtain ⟨s0, h0, hd⟩ := (genNext_spec e he bigFuel (init start stop) start (fwdReady_init _ _ hs) hs hu hs (fwdFuel_le_big _ _)).1 hex
    obtain ⟨L0, hL0⟩ : ∃ L0, s0.buf.getLast? = some L0 := ⟨s0.buf.getLast hd.ne, List.getLast?_eq_some_getLast hd.ne⟩
    obtain ⟨hP0, hr0, hL0u, _⟩ := fwdDone_ready hd hL0
    simp only [h0]
    have hlim : min stop (maxPrime64 - 1) < maxPrime64 := by unfold maxPrime64; omega
    obtain ⟨s1, acc1, L1, h1, hL1, hgt, hP1, hacc1⟩ := storeLoop1_specC e he start (min stop (maxPrime64 - 1)) hlim
      (min stop (maxPrime64 - 1) + 2) s0 [] L0 hL0 (by simpa using hP0) hr0 hL0u (by rw [hd.hint]; exact hu) hd.start_le
      (by simp) (by omega)
    simp only [h1]
    have hne1 : s1.buf ≠ [] := fun h => by rw [h] at hL1; simp at hL1
    have hlen1 : 0 < s1.buf.length := List.length_pos_iff.2 hne1
    have hlast : s1.buf[s1.buf.length - 1]'(by omega) = L1 := by
      have := List.getLast?_eq_getElem? (l := s1.buf)
      rw [hL1, List.getElem?_eq_getElem (by omega)] at this
      exact (Option.some.inj this).symm
    rw [storeLoop2_specC _ s1.buf _ 0 acc1 rfl ⟨s1.buf.length - 1, by omega, Nat.zero_le _, by rw [hlast]; exact hgt⟩]
    simp only [List.drop_zero]
    have hR : PrimesIn (acc1 ++ s1.buf.takeWhile (fun y => decide (y ≤ min stop (maxPrime64 - 1)))) start (min stop (maxPrime64 - 1)) := by
      have := hP1.takeWhile (b := min stop (maxPrime64 - 1)) (by omega)
      rwa [List.takeWhile_append_of_pos (fun a ha => by simpa using hacc1 a ha)] at this
    by_cases hge : stop ≥ maxPrime64
    · rw [if_pos hge]
      rw [show min stop (maxPrime64 - 1) = maxPrime64 - 1 by omega] at hR ⊢
      exact ⟨_, rfl, hR.append (primesIn_singleton_max stop hge hu) (by omega) (by omega)⟩
    · rw [if_neg hge]
      rw [show min stop (maxPrime64 - 1) = stop by omega] at hR ⊢
      exact ⟨_, rfl, hR⟩

/-- **`generate_primes<T>(max)`**: `primes[0] = 0`, then exactly the primes `≤ max` -/
theorem pcGeneratePrimes_correct (e : Env) (he : GenSpec e) (vmax mx : ℕ) (hv : mx ≤ vmax) (hu : mx ≤ umax) :
    ∃ l, pcGeneratePrimes e vmax mx = .ok (0 :: l) ∧ PrimesIn l 0 mx := by
  obtain ⟨l, h, hP⟩ := storePrimes_correct e he vmax 0 mx (Nat.zero_le _) hv hu
  exact ⟨l, by unfold pcGeneratePrimes; rw [h], hP⟩

/-- … in the index form of `pi[x]`-free callers: the entry `i` is `p i` for `1 ≤ i ≤ π(max)`, and the length is `π(max) + 1` -/
theorem pcGeneratePrimes_index (e : Env) (he : GenSpec e) (vmax mx : ℕ) (hv : mx ≤ vmax) (hu : mx ≤ umax) :
    pcGeneratePrimes e vmax mx = .ok (0 :: firstNPrimes (Nat.primeCounting mx)) := by
  obtain ⟨l, h, hP⟩ := pcGeneratePrimes_correct e he vmax mx hv hu
  rw [h]
  congr 2
  by_cases hpi : Nat.primeCounting mx = 0
  · rw [hpi]
    show l = []
    apply hP.nil_iff.2
    intro q hq _ hle
    have := Spec.pi_mono hle
    have := Spec.one_le_pi_of_prime hq
    omega
  · have hF := firstNPrimes_primesIn (Nat.primeCounting mx) (by omega)
    have hle : Spec.p (Nat.primeCounting mx) ≤ mx := Spec.p_pi_le (by omega)
    -- both lists are the primes of `[0, mx]`: nothing between `p (π mx)` and `mx`
    refine hP.unique ⟨hF.1, fun q => ?_⟩
    rw [hF.2 q]
    constructor
    · rintro ⟨h1, h2, h3⟩; exact ⟨h1, h2, by omega⟩
    · rintro ⟨h1, h2, h3⟩
      refine ⟨h1, h2, ?_⟩
      have := Spec.pi_mono h3
      rw [← Spec.p_pi_of_prime h1]
      exact Spec.p_le_p this

end Pc.It
