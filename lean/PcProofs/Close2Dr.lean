/-
WP close2, item 4 (second half) — `pi_deleglise_rivat_128` as a stand-alone entry point with the SHARP nested-call hypothesis
(`pi n = π n` only for `n < 2^63`, which is what the closed recursion `nested_pi_eq_world` supplies: `pi_noprint` takes an `int64_t`).

`piDeleglieRivat_total` (WP top) asks `pi n = π n` for EVERY `n < x`; for `x ≥ 2^63` that is more than the dispatcher recursion gives.
The function only reads `pi` at `y`, at `isqrt(x)` and (inside `P2_thread`) at `x / prime ≤ x / (y + 1)`, all below `2^63`
once the 128-bit range check has accepted `x` (`x < 2^125`, `y ≤ INT64_MAX`, `x / y < 2^63`):

* `p2Thread_pi_congr`, `p2OpenMP_pi_congr`  — `P2_thread` / `P2_OpenMP` depend on `pi` only through those values;
* `piDeleglieRivat_pi_congr128`             — so does `pi_deleglise_rivat_128` on an accepted `x`;
* `piDeleglieRivat128_total_to`             — the entry point over an iterator meeting the contract up to `N` (the real iterator), sharp `hpi`.
-/
import PcProofs.CloseWorld3

namespace Pc.P2L
open Nat Finset Pc.LB
open scoped Nat.Prime

/-- `P2_thread(x, y, low, high)` reads `pi_noprint` only at `x / prime` with `prime > start ≥ y` -/
theorem p2Thread_pi_congr (it : Iter) (pi pi' : ℕ → ℕ) (x y : ℕ) (h : ∀ n, n ≤ x / (y + 1) → pi n = pi' n) :
    p2Thread it pi x y = p2Thread it pi' x y := by
  funext low high
  unfold p2Thread
  by_cases h1 : low = 0
  · rw [if_pos h1, if_pos h1]
  rw [if_neg h1, if_neg h1]
  by_cases h2 : ¬ low < high
  · rw [if_pos h2, if_pos h2]
  rw [if_neg h2, if_neg h2]
  dsimp only
  by_cases h3 : it.prev (thrStop x low) ≤ thrStart x y high
  · rw [if_pos h3, if_pos h3]
  rw [if_neg h3, if_neg h3]
  have hy : y ≤ thrStart x y high := Nat.le_max_left _ _
  have hle : x / it.prev (thrStop x low) ≤ x / (y + 1) := Nat.div_le_div_left (by omega) (by omega)
  rw [h _ hle]

/-- `P2_OpenMP(x, y, a)` reads `pi_noprint` only at `y`, `isqrt(x)` and below `x / y < 2^63` -/
theorem p2OpenMP_pi_congr (c : Consts) (it : Iter) (pi pi' : ℕ → ℕ) (x y a : ℕ) (r : Run) (hy : pi y = pi' y)
    (hs : pi (isqrtN x) = pi' (isqrtN x)) (h : ∀ n, n < two63 → pi n = pi' n) :
    p2OpenMP c it pi x y a r = p2OpenMP c it pi' x y a r := by
  unfold p2OpenMP
  dsimp only
  rw [hy, hs]
  by_cases hxy : two63 ≤ x / max y 1
  · simp only [if_pos hxy]
  · have hd : x / (y + 1) ≤ x / max y 1 := Nat.div_le_div_left (by omega) (by omega)
    rw [p2Thread_pi_congr it pi pi' x y (fun n hn => h n (by omega))]

end Pc.P2L

namespace Pc.Close
open Nat Pc.Hard Pc.PhiVec Pc.Top Pc.PsCore Pc.LB PcGen.ApiConst
open scoped Nat.Prime

/-- `pi_deleglise_rivat_128(x)` on an `x` its range check accepts depends on `pi_noprint` only through the values below `2^63` -/
theorem piDeleglieRivat_pi_congr128 {σ : Type} (T : Tables σ) (pi pi' : ℕ → ℕ) (x : ℕ) (threads : ℤ) (isPrint : Bool) (r : DrRun)
    (hx2 : 2 ≤ x) (hx : x < 2 ^ 127) (a : ℚ) (henv : DrEnv x a r.fo) (hxm : (x : ℤ) ≤ r.fo.maxX)
    (h : ∀ n, n < 2 ^ 63 → pi n = pi' n) :
    piDeleglieRivat T pi true (x : ℤ) threads isPrint r = piDeleglieRivat T pi' true (x : ℤ) threads isPrint r := by
  obtain ⟨p1, p2⟩ := dr128_accept x threads a r.fo hx2 hx henv hxm
  have hx125 : x < 2 ^ 125 := by
    obtain ⟨ha1, ha, _, _, _, hm, _⟩ := henv
    exact x_lt_of_range_check (by linarith) ha hm hxm
  have hsq : isqrtN x < 2 ^ 63 := by
    rw [isqrtN_eq]
    exact Nat.sqrt_lt'.2 (lt_of_lt_of_le hx125 (by norm_num))
  obtain ⟨_, _, hy63, _⟩ := p2
  have hyl : (dOutPure true x threads r.fo).y.toNat < 2 ^ 63 := by
    unfold i64Max at hy63
    omega
  have e1 := h _ hyl
  have e2 : ∀ a' r', P2L.p2OpenMP T.lc T.it pi x (dOutPure true x threads r.fo).y.toNat a' r' =
      P2L.p2OpenMP T.lc T.it pi' x (dOutPure true x threads r.fo).y.toNat a' r' := fun a' r' =>
    P2L.p2OpenMP_pi_congr T.lc T.it pi pi' x _ a' r' e1 (h _ hsq) (fun n hn => h n (by unfold Pc.LB.two63 at hn; omega))
  unfold piDeleglieRivat
  rw [if_neg (by omega), if_neg (by omega)]
  simp only [Int.toNat_natCast]
  rw [liftP_ok p1, TM_bind_ok, TM_bind_ok]
  simp only [e1, e2]

/-- **`pi_deleglise_rivat_128(x)`** over an iterator that meets the contract up to `N` (the real one: `N = 2^64 - 59`), every int128 `x`;
    the nested calls are only needed at int64 arguments -/
theorem piDeleglieRivat128_total_to {σ : Type} (T : Tables σ) {B N : ℕ} (hT : TablesOK (T.withIt (P2L.patch T.it N)) B)
    (hit : P2L.IterSpecTo T.it N) (hN : 2 ^ 64 - 2 ^ 32 ≤ N) (pi : ℕ → ℕ) (x : ℤ)
    (hx : x < 2 ^ 127) (threads : ℤ) (isPrint : Bool) (r : DrRun)
    (hpi : ∀ n : ℕ, (n : ℤ) < x → n < 2 ^ 63 → pi n = π n) (hex : 2 ≤ x → DrExec T B true x.toNat r) :
    piDeleglieRivat T pi true x threads isPrint r = .ok (π x.toNat : ℤ) ∨
      piDeleglieRivat T pi true x threads isPrint r = .error (.hard .badRun) := by
  -- the same function with `pi_noprint` completed by π above the int64 range
  set pi' : ℕ → ℕ := fun n => if n < 2 ^ 63 then pi n else π n with hpi'
  have hagree : ∀ n, n < 2 ^ 63 → pi n = pi' n := fun n hn => by rw [hpi']; simp only [if_pos hn]
  have hpiAll : ∀ n : ℕ, (n : ℤ) < x → pi' n = π n := by
    intro n hn
    rw [hpi']
    by_cases h63 : n < 2 ^ 63
    · simp only [if_pos h63]; exact hpi n hn h63
    · simp only [if_neg h63]
  have hx127 : x.toNat < 2 ^ 127 := by omega
  have key : piDeleglieRivat T pi' true x threads isPrint r = .ok (π x.toNat : ℤ) ∨
      piDeleglieRivat T pi' true x threads isPrint r = .error (.hard .badRun) := by
    have hb : ∀ y a, P2L.p2OpenMP T.lc T.it pi' x.toNat y a r.p2 = P2L.p2OpenMP T.lc (P2L.patch T.it N) pi' x.toNat y a r.p2 :=
      fun y a => P2L.p2OpenMP_patch_all hit (two63_le_of hN) (isqrtN_le_of_lt hx127 hN)
        (fun n _ h2 => hpiAll n (by omega)) T.lc y a r.p2
    rw [piDeleglieRivat_withIt T (P2L.patch T.it N) pi' true x threads isPrint r hb]
    exact piDeleglieRivat_total (T.withIt (P2L.patch T.it N)) hT pi' true x (by unfold InType; simpa using hx) threads isPrint r
      hpiAll (fun h => (hex h).withIt _)
  by_cases h2 : x < 2
  · left
    unfold piDeleglieRivat
    rw [if_pos h2, pi_small (by omega)]
    rfl
  · obtain ⟨n, rfl⟩ := Int.eq_ofNat_of_zero_le (show 0 ≤ x by omega)
    have hex' := hex (by omega)
    rw [Int.toNat_natCast] at hex'
    obtain ⟨a, ha⟩ := hex'.adm.env
    rw [piDeleglieRivat_pi_congr128 T pi pi' n threads isPrint r (by omega) (by omega) a ha (hex'.accept rfl) hagree]
    exact key

end Pc.Close

namespace Pc.Close
open Nat Pc.Hard Pc.PhiVec Pc.Top Pc.PsCore Pc.LB PcGen.ApiConst
open scoped Nat.Prime

namespace World

/-- **`pi_deleglise_rivat_128(x)` over the world** (tables of the 128-bit instantiation, `wide = true`; bit-exact `class Sieve`), EVERY
    int128 `x` the range check accepts; the nested `pi_noprint` calls are those of the dispatcher over the 64-bit tables -/
theorem pi_deleglise_rivat_128_s (W : World) {B : ℕ} (h : W.OK B) (hB : B < 2 ^ 32) (c : Sieve.Cfg) (f : Sieve.StopFn)
    (pi : ℕ → ℕ) (x : ℤ) (hx : x < 2 ^ 127) (threads : ℤ) (isPrint : Bool) (r : DrRun)
    (hphi : ∀ n : ℕ, (n : ℤ) < x → maxCached < n → n ≤ meisselMax → W.PhiRunOK n)
    (hrec : W.NestedS c f B pi x)
    (hex : 2 ≤ x → DrExec (W.tablesS c f true) B true x.toNat r) :
    piDeleglieRivat (W.tablesS c f true) pi true x threads isPrint r = .ok (π x.toNat : ℤ) ∨
      piDeleglieRivat (W.tablesS c f true) pi true x threads isPrint r = .error (.hard .badRun) :=
  piDeleglieRivat128_total_to (W.tablesS c f true) (W.tablesS_ok h hB c f true) (W.it_specTo h) maxPrime64_ge pi x hx threads isPrint r
    (W.nested_s h hB c f pi x hphi hrec) hex

end World
end Pc.Close
