/-
C18 core, second half — EratSmall (`smallCrossOff`: L1-sized blocks, the `switch` with its 8 unrolled loops) and the `Adv`
strengthening of EratMedium.  Interface file: the assembled statements.
  PsCore2SmallA: `Reach`, `crossLoop_specG`, `crossLoop_spec2`, `PrimeOk`, `CrossOk`
  PsCore2SmallB: `crossBlock_spec`, `Phase`, `mediumCrossOff_spec2`, `smallCrossOff_bytes`, `mediumCrossOff_bytes`
  PsCore2SmallC: the fold over the L1 blocks (`smallCrossOff_spec_of`)
  PsCore2SmallD: the unrolled loops (`crossLoop_fast_spec`, `primeOk_small`)
-/
import PcProofs.PsCore2SmallD

namespace Pc.PsCore
open Pc.PsWheelSpec
open Pc.Sieve (Bytes bitAt)

/-- **`EratSmall::crossOff(sieve)`** (model `smallCrossOff`, blocks of `l1` bytes, unrolled loops): carry-over of ALL stored states
    to the next segment, the exact set of cleared bits, and no cofactor coprime to 30 is skipped (`Adv`). -/
theorem smallCrossOff_spec (L l1 : ℕ) (hL : 30 ∣ L) (hl1 : 0 < l1) (ps : Array SPrime) (gs : List (ℕ × ℕ)) (s : Bytes)
    (_hs : s.size ≤ 2 ^ 23) (h : List.Forall₂ (Stored L) ps.toList gs) :
    ∃ gs' : List (ℕ × ℕ),
      List.Forall₂ (fun g g' => g'.1 = g.1 ∧ Adv 30 g.1 L s.size g.2 g'.2) gs gs' ∧
      List.Forall₂ (Stored (L + 30 * s.size)) (smallCrossOff l1 (s.size / l1 + 1) 0 ps s).1.toList gs' ∧
      (∀ b, bitAt (smallCrossOff l1 (s.size / l1 + 1) 0 ps s).2 b = true ↔
        (bitAt s b = true ∧ ∀ i, i < gs.length → ¬ Hit 30 (gs.getD i (0, 0)).1 L (gs.getD i (0, 0)).2 (gs'.getD i (0, 0)).2 b)) ∧
      (smallCrossOff l1 (s.size / l1 + 1) 0 ps s).2.size = s.size :=
  smallCrossOff_spec_of primeOk_small L l1 hL hl1 ps gs s h

end Pc.PsCore
