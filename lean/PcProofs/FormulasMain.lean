/-
Bridge, summary: the EXECUTABLE reference sums of PcModel/Formulas.lean (the values the C++ terms are compared
with in the C08 / C02 / C11 / C04 streams) are themselves proved to add up to π(x), for ALL x and all admissible
parameters, for every valid table that is large enough (`NT.Covers`; the driver's `tableFor` produces such a
table: `tableFor_spec`).

Index of the bridge (all in namespace `Pc`):
* FormulasBase    `NT.Valid`, `NT.build_valid`, `NT.primesIn_spec`, `NT.mem_primesIn`, `NT.primesIn_sorted`,
                  `NT.sum_primesIn`, `isqrtN_eq`, `irootN_spec`, `NT.phiOf_eq`
* FormulasFactor  `factorInfo_spec`, `sqfreeBetween_spec`, `sum_sqfreeBetween*`
* FormulasPrime   `xStar_eq`, `NT.P2_eq`, `NT.B_eq`, `NT.P3_eq`, `NT.Sigma_eq`, `NT.A_eq`
* FormulasSqfree  `NT.S1_eq`, `NT.Phi0_eq`, `NT.S2_eq`, `NT.C_eq`, `NT.D_eq`
* FormulasDR      `NT.S2trivial_eq`, `NT.S2easy_eq`, `NT.S2hard_eq`
* FormulasMain    `NT_legendre_total`, `NT_meissel_total`, `NT_lehmer_total`, `NT_lmo_total`, `NT_dr_total`,
                  `NT_gourdon_total`, `tableFor_spec`
-/
import PcProofs.FormulasDR
import PcModel.Drv.Formulas

namespace Pc
open Nat Finset Classical
open scoped Nat.Prime
variable {t : NT}

/-- the table is large enough for every π(·) / prime query of the formulas of `(x, y)`:
    it reaches `x / y`, `⌊√x⌋` and `y` -/
structure NT.Covers (t : NT) (x y : ℕ) : Prop where
  hxy : x / y ≤ t.bound
  hs : Nat.sqrt x ≤ t.bound
  hy : y ≤ t.bound

theorem NT.Covers.div_succ {x y : ℕ} (h : t.Covers x y) (hy : 1 ≤ y) : x / (y + 1) ≤ t.bound :=
  le_trans (Nat.div_le_div_left (Nat.le_succ y) hy) h.hxy

/-- the table the driver builds for `(x, y, z)` is valid and covers `(x, y)` -/
theorem tableFor_spec {x y z : ℕ} {t : NT} (hy : 1 ≤ y) (h : Drv.tableFor x y z = some t) :
    t.Valid ∧ t.Covers x y := by
  unfold Drv.tableFor at h
  simp only [] at h
  split_ifs at h with hn
  rw [Option.some.injEq] at h
  subst h
  refine ⟨NT.build_valid _, ?_, ?_, ?_⟩
  · show x / y ≤ max (max (x / max y 1) (isqrtN x)) (max y z) + 2
    rw [max_eq_left hy]
    have := le_max_left (max (x / y) (isqrtN x)) (max y z)
    have := le_max_left (x / y) (isqrtN x)
    omega
  · show Nat.sqrt x ≤ max (max (x / max y 1) (isqrtN x)) (max y z) + 2
    rw [isqrtN_eq]
    have := le_max_left (max (x / max y 1) (Nat.sqrt x)) (max y z)
    have := le_max_right (x / max y 1) (Nat.sqrt x)
    omega
  · show y ≤ max (max (x / max y 1) (isqrtN x)) (max y z) + 2
    have := le_max_right (max (x / max y 1) (isqrtN x)) (max y z)
    have := le_max_left y z
    omega

/-! ### Legendre, Meissel, Lehmer -/

/-- **Legendre** with the executable φ and π table: `π x = φ(x, a) + a − 1`, `a = π ⌊√x⌋` -/
theorem NT_legendre_total (hv : t.Valid) {x : ℕ} (hx : 2 ≤ x) (hs : Nat.sqrt x ≤ t.bound) :
    t.phiOf x (t.piOf (isqrtN x)) + t.piOf (isqrtN x) - 1 = π x := by
  rw [isqrtN_eq, hv.piOf_eq _ hs, NT.phiOf_eq hv (Spec.pi_mono hs)]
  exact (Spec.legendre rfl hx).symm

/-- **Meissel** with the executable terms: `π x = φ(x, a) + a − 1 − P2(x, a)`, `a = π ⌊x^(1/3)⌋` -/
theorem NT_meissel_total (hv : t.Valid) {x : ℕ} (hx : 1 ≤ x) (hs : Nat.sqrt x ≤ t.bound)
    (hb : x / (irootN 3 x + 1) ≤ t.bound) :
    (t.phiOf x (t.piOf (irootN 3 x)) : ℤ) + t.piOf (irootN 3 x) - 1 - t.P2 x (irootN 3 x) = π x := by
  have hc3 : irootN 3 x ≤ t.bound := le_trans (irootN3_le_sqrt x) hs
  obtain ⟨h1, h2⟩ := irootN_spec 3 x (by omega)
  rw [hv.piOf_eq _ hc3, NT.phiOf_eq hv (Spec.pi_mono hc3), NT.P2_eq hv hs hb]
  have hcx : irootN 3 x ≤ x := le_trans (irootN3_le_sqrt x) (Nat.sqrt_le_self x)
  have := Spec.meissel_pi_add hx hcx h2
  have h3 : ((π x + 1 + Spec.P2 x (π (irootN 3 x)) : ℕ) : ℤ)
      = ((Spec.phi x (π (irootN 3 x)) + π (irootN 3 x) : ℕ) : ℤ) := by rw [this]
  push_cast at h3
  linarith

/-- **Lehmer** with the executable terms: `π x = φ(x, a) + a − 1 − P2(x, a) − P3(x, a)`, `a = π ⌊x^(1/4)⌋` -/
theorem NT_lehmer_total (hv : t.Valid) {x : ℕ} (hx : 1 ≤ x) (hs : Nat.sqrt x ≤ t.bound)
    (hb : x / (irootN 4 x + 1) ≤ t.bound) :
    (t.phiOf x (t.piOf (irootN 4 x)) : ℤ) + t.piOf (irootN 4 x) - 1 - t.P2 x (irootN 4 x)
      - t.P3 x (irootN 4 x) = π x := by
  obtain ⟨h1, h2⟩ := irootN_spec 4 x (by omega)
  have hyx : irootN 4 x ≤ x := by
    rcases Nat.eq_zero_or_pos (irootN 4 x) with h | h
    · omega
    · calc irootN 4 x = irootN 4 x ^ 1 := (pow_one _).symm
        _ ≤ irootN 4 x ^ 4 := Nat.pow_le_pow_right h (by omega)
        _ ≤ x := h1
  have hr4 : irootN 4 x ≤ t.bound := by
    refine le_trans ?_ hs
    rw [Nat.le_sqrt]
    rcases Nat.eq_zero_or_pos (irootN 4 x) with h | h
    · rw [h]; omega
    · calc irootN 4 x * irootN 4 x = irootN 4 x ^ 2 := by ring
        _ ≤ irootN 4 x ^ 4 := Nat.pow_le_pow_right h (by omega)
        _ ≤ x := h1
  rw [hv.piOf_eq _ hr4, NT.phiOf_eq hv (Spec.pi_mono hr4), NT.P2_eq hv hs hb,
    NT.P3_eq hv (le_trans (irootN3_le_sqrt x) hs) hb]
  have hl : irootN 4 x + 1 ≤ Spec.p (π (irootN 4 x) + 1) := Spec.lt_p_pi_succ _
  have := Spec.lehmer_add hx (Spec.pi_mono hyx) (lt_of_lt_of_le h2 (Nat.pow_le_pow_left hl 4))
  have h3 : ((π x + 1 + Spec.P2 x (π (irootN 4 x)) + Spec.P3 x (π (irootN 4 x)) : ℕ) : ℤ)
      = ((Spec.phi x (π (irootN 4 x)) + π (irootN 4 x) : ℕ) : ℤ) := by rw [this]
  push_cast at h3
  linarith

/-! ### LMO, Deleglise-Rivat -/

/-- **LMO** with the executable terms, for every `y` with `1 ≤ y ≤ x < (y+1)³` and every `c ≤ π y` -/
theorem NT_lmo_total (hv : t.Valid) {x y c : ℕ} (hcov : t.Covers x y) (hy : 1 ≤ y) (hyx : y ≤ x)
    (hy3 : x < (y + 1) ^ 3) (hc : c ≤ π y) :
    t.S1 x y c + t.S2 x y c + (t.piOf y : ℤ) - 1 - t.P2 x y = π x := by
  have hcB : c ≤ π t.bound := le_trans hc (Spec.pi_mono hcov.hy)
  rw [NT.S1_eq hv hcB, NT.S2_eq hv hcov.hy, hv.piOf_eq _ hcov.hy, NT.P2_eq hv hcov.hs (hcov.div_succ hy)]
  exact (Spec.pi_lmo hy hyx hy3 hc).symm

/-- **Deleglise-Rivat** with the executable terms (`z = x / y`), for every `y` with `y² ≤ x < (y+1)³` and every
    `c ≤ π y`: the seven numbers of the `ident_dr` op add up to π(x) -/
theorem NT_dr_total (hv : t.Valid) {x y c : ℕ} (hcov : t.Covers x y) (hy : 1 ≤ y) (hy2 : y * y ≤ x)
    (hy3 : x < (y + 1) ^ 3) (hc : c ≤ π y) :
    t.S1 x y c + t.S2trivial x y (x / y) c + t.S2easy x y (x / y) c + t.S2hard x y (x / y) c
      + (t.piOf y : ℤ) - 1 - t.P2 x y = π x := by
  have hcB : c ≤ π t.bound := le_trans hc (Spec.pi_mono hcov.hy)
  have hc3 : irootN 3 x ≤ y := by
    by_contra h
    push Not at h
    have h1 := (irootN_spec 3 x (by omega)).1
    have h2 : (y + 1) ^ 3 ≤ irootN 3 x ^ 3 := Nat.pow_le_pow_left h 3
    omega
  rw [NT.S1_eq hv hcB, NT.S2trivial_eq hv hy hcov.hy hy2 hc, NT.S2easy_eq hv hy hcov.hy hc3,
    NT.S2hard_eq hv hcov.hy, hv.piOf_eq _ hcov.hy, NT.P2_eq hv hcov.hs (hcov.div_succ hy)]
  exact (Spec.pi_dr hy hy2 hy3 hc).symm

/-! ### Gourdon -/

/-- **Gourdon** with the executable terms, for every `(y, z)` with `x^(1/3) < y ≤ z ≤ √x` and every
    `k ≤ π ⌊x^(1/4)⌋`: the numbers of the `ident_gourdon` op add up to π(x) -/
theorem NT_gourdon_total (hv : t.Valid) {x y z k : ℕ} (hcov : t.Covers x y) (hy : irootN 3 x < y)
    (hy2 : y * y ≤ x) (hyz : y ≤ z) (hz : z * z ≤ x) (hk : k ≤ π (irootN 4 x)) :
    t.A x y + t.C x y z k - t.B x y + t.D x y z k + t.Phi0 x y z k + t.Sigma x y = π x := by
  obtain ⟨c1, c2⟩ := irootN_spec 3 x (by omega)
  obtain ⟨r1, r2⟩ := irootN_spec 4 x (by omega)
  have g := Spec.GParams.of_xstar c1 c2 r1 r2 hy hy2 hyz hz hk
  have hy1 : 1 ≤ y := g.y_pos
  rw [← xStar_eq hy1] at g
  have hxs : xStar x y ≤ t.bound := le_trans (xStar_le_y hy1) hcov.hy
  have hkB : k ≤ π t.bound := le_trans g.hk (Spec.pi_mono hxs)
  have hA : x / ((xStar x y + 1) * (xStar x y + 1)) ≤ t.bound := by
    refine le_trans (Nat.div_le_div_left ?_ hy1) hcov.hxy
    exact le_trans hyz g.z_lt.le
  have hC : x / (z + 1) ≤ t.bound :=
    le_trans (Nat.div_le_div_left (by omega) hy1) hcov.hxy
  rw [NT.A_eq hv hy1 hcov.hs hA, NT.C_eq hv hxs hC, NT.B_eq hv hcov.hs (hcov.div_succ hy1),
    NT.D_eq hv hxs, NT.Phi0_eq hv hkB, NT.Sigma_eq hv hy1 hcov.hy hcov.hs hcov.hxy g.s_le_c3]
  have := g.pi_gourdon
  linarith

/-! ### the tables the driver really builds -/

/-- the seven numbers printed by the driver op `ident_dr` (table from `tableFor x y (x / y)`) add up to π(x) -/
theorem NT_dr_total_tableFor {x y c : ℕ} {t : NT} (ht : Drv.tableFor x y (x / y) = some t) (hy : 1 ≤ y)
    (hy2 : y * y ≤ x) (hy3 : x < (y + 1) ^ 3) (hc : c ≤ π y) :
    t.S1 x y c + t.S2trivial x y (x / y) c + t.S2easy x y (x / y) c + t.S2hard x y (x / y) c
      + (t.piOf y : ℤ) - 1 - t.P2 x y = π x :=
  NT_dr_total (tableFor_spec hy ht).1 (tableFor_spec hy ht).2 hy hy2 hy3 hc

/-- the numbers printed by the driver op `ident_gourdon` (table from `tableFor x y z`) add up to π(x) -/
theorem NT_gourdon_total_tableFor {x y z k : ℕ} {t : NT} (ht : Drv.tableFor x y z = some t)
    (hy : irootN 3 x < y) (hy2 : y * y ≤ x) (hyz : y ≤ z) (hz : z * z ≤ x) (hk : k ≤ π (irootN 4 x)) :
    t.A x y + t.C x y z k - t.B x y + t.D x y z k + t.Phi0 x y z k + t.Sigma x y = π x :=
  have hy1 : 1 ≤ y := by omega
  NT_gourdon_total (tableFor_spec hy1 ht).1 (tableFor_spec hy1 ht).2 hy hy2 hyz hz hk

/-! ### non-vacuity: concrete tables and parameters -/

theorem covers_build {n x y : ℕ} (h1 : x / y ≤ n) (h2 : x < (n + 1) * (n + 1)) (h3 : y ≤ n) :
    (NT.build n).Covers x y :=
  ⟨h1, Nat.le_of_lt_succ (Nat.sqrt_lt.2 h2), h3⟩

/-- Deleglise-Rivat at `x = 1000`, `y = 12`, `c = 2` with the sieve-built table up to 100 -/
example := NT_dr_total (NT.build_valid 100) (x := 1000) (y := 12) (c := 2)
  (covers_build (by norm_num) (by norm_num) (by norm_num)) (by norm_num) (by norm_num) (by norm_num)
  (by rw [show π 12 = 5 by decide]; norm_num)

/-- Gourdon at `x = 100000`, `y = 60`, `z = 100`, `k = 2` with the sieve-built table up to 2000 -/
example := NT_gourdon_total (NT.build_valid 2000) (x := 100000) (y := 60) (z := 100) (k := 2)
  (covers_build (by norm_num) (by norm_num) (by norm_num))
  (by rw [irootN_eq_of (r := 46) (by norm_num) (by norm_num) (by norm_num)]; norm_num)
  (by norm_num) (by norm_num) (by norm_num)
  (by rw [irootN_eq_of (r := 17) (by norm_num) (by norm_num) (by norm_num),
        show π 17 = 7 by decide]; norm_num)

end Pc

#print axioms Pc.NT.build_valid
#print axioms Pc.tableFor_spec
#print axioms Pc.NT_legendre_total
#print axioms Pc.NT_meissel_total
#print axioms Pc.NT_lehmer_total
#print axioms Pc.NT_lmo_total
#print axioms Pc.NT_dr_total
#print axioms Pc.NT_gourdon_total
