/-
C08 (wp-easy), A + C part 1: the `A` kernel of src/gourdon/AC.cpp (`A`, `A_64`, `A_128`; model `Pc.Easy.acAKernel`) for ONE
(segment, b), and the additivity of the per-segment values over ANY chain of segments.

* `aLoop_eq`            one of the two `for` loops: all reads in bounds, sum of `π(xp / p j)` over the visited indices;
* `a_visit_iff`         THE INDEX LEMMA: `j` is visited by the two loops iff `b < j ≤ π√xp` and `low ≤ xp / p j < high`
                        (exact: adjacent segments neither share nor skip a leaf), and by the FIRST loop iff moreover
                        `y ≤ xp / p j` (the weight 1 / 2 split);
* `acAKernel_eq`        the kernel returns `Σ_{b < j ≤ π√xp, low ≤ xp / p j < high} χ_j · π(xp / p j)`;
* `chain_filter_sum`    for every chain `l₀ ≤ l₁ ≤ … ≤ lₙ` the per-segment filtered sums add up to the filtered sum over `[l₀, lₙ)`;
* `acA_chain_total`     hence `Σ_segments A(segment, b) = Spec.Aidx x y b` for every chain from `0` to any `top > xp / p (b+1)`.
-/
import PcModel.EasyAC
import PcProofs.EasyLoops2
import PcProofs.FormulasPrime

namespace Pc.Easy
open Nat Finset Classical
open scoped Nat.Prime

variable {t : NT}

theorem segGet_ok (hv : t.Valid) {low high n : ℕ} (h1 : low ≤ n) (h2 : n < high) (hb : n ≤ t.bound) :
    segGet t low high n = .ok (π n) := by
  unfold segGet; rw [if_pos ⟨h1, h2⟩, hv.piOf_eq n hb]

/-- one `for (; i <= max_i; i++)` loop of `A` -/
theorem aLoop_eq (k : Kern) (hv : t.Valid) {size low high xp : ℕ} (mult : ℤ) (hh : high ≤ t.bound + 1)
    (hh64 : high ≤ 2 ^ 64) :
    ∀ (n i : ℕ) (sum : ℤ), 1 ≤ i → i + n ≤ size → i + n ≤ π t.bound + 1 →
      (∀ j, i ≤ j → j < i + n → low ≤ xp / Spec.p j ∧ xp / Spec.p j < high) →
      aLoop k t size low high xp mult n i sum
        = .ok (sum + (∑ j ∈ Ico i (i + n), (π (xp / Spec.p j) : ℤ)) * mult, i + n) := by
  intro n
  induction n with
  | zero => intro i sum _ _ _ _; simp [aLoop]
  | succ n ih =>
    intro i sum hi1 hsz hpb hread
    obtain ⟨h1, h2⟩ := hread i le_rfl (by omega)
    unfold aLoop
    rw [primesGet_ok hv hi1 (by omega) (by omega), EM_bind_ok, kern_div_ok k (Spec.two_le_p i) (by omega), EM_bind_ok,
      segGet_ok hv h1 h2 (by omega), EM_bind_ok,
      ih (i + 1) _ (by omega) (by omega) (by omega) (fun j hj1 hj2 => hread j (by omega) (by omega)),
      Finset.sum_eq_sum_Ico_succ_bot (by omega : i < i + (n + 1))]
    have e : i + 1 + n = i + (n + 1) := by omega
    rw [e]
    congr 2
    ring

/-- **the index lemma of `A`**: with `s = ⌊√xp⌋`, `prime ≤ s`, `xlow = x / max(low, 1)`, `xhigh = x / high`, `xp = x / prime`:
    `j` lies in `(π(max(prime, min(xhigh / prime, s))), π(min(xlow / prime, s))]` iff `π prime < j ≤ π s` and
    `low ≤ xp / p j < high` -/
theorem a_visit_iff {x prime low high j : ℕ} (hp : 0 < prime) (hhigh : 0 < high) (hj1 : 1 ≤ j) :
    (π (max prime (min (x / high / prime) (Nat.sqrt (x / prime)))) < j ∧
      j ≤ π (min (x / max low 1 / prime) (Nat.sqrt (x / prime))))
    ↔ (π prime < j ∧ j ≤ π (Nat.sqrt (x / prime))) ∧ low ≤ x / prime / Spec.p j ∧ x / prime / Spec.p j < high := by
  set s := Nat.sqrt (x / prime) with hs
  have hq0 := Spec.p_pos j
  rw [← Spec.lt_p_iff hj1, ← Spec.p_le_iff hj1, ← Spec.lt_p_iff hj1, ← Spec.p_le_iff hj1, max_lt_iff, le_min_iff]
  -- the two quotient facts
  have hhi : x / high / prime < Spec.p j ↔ x / prime / Spec.p j < high := by
    rw [Nat.div_div_eq_div_mul, Nat.div_div_eq_div_mul, Nat.div_lt_iff_lt_mul (Nat.mul_pos hhigh hp),
      Nat.div_lt_iff_lt_mul (Nat.mul_pos hp hq0)]
    constructor <;> intro h <;> nlinarith [h]
  have hlo : Spec.p j ≤ s → (Spec.p j ≤ x / max low 1 / prime ↔ low ≤ x / prime / Spec.p j) := by
    intro hjs
    have hm : 0 < max low 1 := lt_of_lt_of_le Nat.zero_lt_one (le_max_right _ _)
    rw [Nat.div_div_eq_div_mul, Nat.div_div_eq_div_mul, Nat.le_div_iff_mul_le (Nat.mul_pos hm hp),
      Nat.le_div_iff_mul_le (Nat.mul_pos hp hq0)]
    rcases Nat.eq_zero_or_pos low with h0 | h0
    · subst h0
      simp only [Nat.zero_mul, Nat.zero_le, iff_true]
      -- p j ≤ s ≤ xp
      have h1 : Spec.p j * Spec.p j ≤ x / prime := Nat.le_sqrt.1 hjs
      have h2 : Spec.p j ≤ x / prime := le_trans (Nat.le_mul_self _) h1
      have h3 := (Nat.le_div_iff_mul_le hp).1 h2
      simpa using h3
    · rw [max_eq_left h0]
      constructor <;> intro h <;> nlinarith [h]
  constructor
  · rintro ⟨⟨h1, h2⟩, h3, h4⟩
    refine ⟨⟨h1, h4⟩, (hlo h4).1 h3, hhi.1 ?_⟩
    rcases min_lt_iff.1 h2 with h | h
    · exact h
    · omega
  · rintro ⟨⟨h1, h2⟩, h3, h4⟩
    exact ⟨⟨h1, lt_of_le_of_lt (min_le_left _ _) (hhi.2 h4)⟩, (hlo h2).2 h3, h2⟩

/-- the first loop's extra bound: `p j ≤ xp / y ↔ y ≤ xp / p j` -/
theorem a_weight_iff {xp y j : ℕ} (hy : 0 < y) : Spec.p j ≤ xp / y ↔ y ≤ xp / Spec.p j := by
  rw [Nat.le_div_iff_mul_le hy, Nat.le_div_iff_mul_le (Spec.p_pos j), mul_comm]

/-- the value `A` adds for the leaf `(b, j)` -/
noncomputable def aTerm (xp y j : ℕ) : ℤ := (if y ≤ xp / Spec.p j then (1 : ℤ) else 2) * (π (xp / Spec.p j) : ℤ)

/-- splitting an index interval at `m1` with weights 1 / 2 -/
theorem two_loops_sum {f : ℕ → ℤ} {i0 m1 m2 : ℕ} (h12 : m1 ≤ m2) :
    (∑ j ∈ Ico (i0 + 1) (i0 + 1 + (m1 + 1 - (i0 + 1))), f j) * 1
      + (∑ j ∈ Ico (i0 + 1 + (m1 + 1 - (i0 + 1))) (i0 + 1 + (m1 + 1 - (i0 + 1)) + (m2 + 1 - (i0 + 1 + (m1 + 1 - (i0 + 1))))), f j) * 2
    = ∑ j ∈ Ioc i0 m2, (if j ≤ m1 then (1 : ℤ) else 2) * f j := by
  by_cases h : i0 ≤ m1
  · have e1 : i0 + 1 + (m1 + 1 - (i0 + 1)) = m1 + 1 := by omega
    rw [e1]
    have e2 : m1 + 1 + (m2 + 1 - (m1 + 1)) = m2 + 1 := by omega
    rw [e2, ← Finset.sum_Ioc_consecutive _ h h12]
    have a1 : Ico (i0 + 1) (m1 + 1) = Ioc i0 m1 := by ext j; simp only [mem_Ico, mem_Ioc]; omega
    have a2 : Ico (m1 + 1) (m2 + 1) = Ioc m1 m2 := by ext j; simp only [mem_Ico, mem_Ioc]; omega
    rw [a1, a2, mul_one, Finset.sum_mul]
    congr 1
    · apply Finset.sum_congr rfl; intro j hj; rw [mem_Ioc] at hj; rw [if_pos hj.2, one_mul]
    · apply Finset.sum_congr rfl; intro j hj; rw [mem_Ioc] at hj; rw [if_neg (by omega), mul_comm]
  · have e1 : i0 + 1 + (m1 + 1 - (i0 + 1)) = i0 + 1 := by omega
    rw [e1, Finset.Ico_self, Finset.sum_empty, zero_mul, zero_add, Finset.sum_mul]
    by_cases h2 : i0 ≤ m2
    · have e2 : i0 + 1 + (m2 + 1 - (i0 + 1)) = m2 + 1 := by omega
      have a2 : Ico (i0 + 1) (m2 + 1) = Ioc i0 m2 := by ext j; simp only [mem_Ico, mem_Ioc]; omega
      rw [e2, a2]
      apply Finset.sum_congr rfl; intro j hj; rw [mem_Ioc] at hj; rw [if_neg (by omega), mul_comm]
    · have e2 : i0 + 1 + (m2 + 1 - (i0 + 1)) = i0 + 1 := by omega
      rw [e2, Finset.Ico_self, Finset.Ioc_eq_empty (by omega)]; simp

/-- **`A` for one (segment, b)** — `A` of AC.cpp, `A_64`, `A_128` of AC_libdivide.cpp (kernel `k`): for `prime = p b ≤ ⌊√xp⌋`
    (true for `b ≤ π ⌊x^(1/3)⌋`), `⌊√xp⌋` inside `PiTable pi(maxPi)` and the prime vector, the segment inside the table:
    the two loops return the weighted sum over exactly the leaves `(b, j)` with `low ≤ xp / p j < high`; every `primes[·]`,
    `pi[·]`, `segmentedPi[·]` read is in bounds and no division traps. -/
theorem acAKernel_eq (k : Kern) (hv : t.Valid) {size maxPi low high x y b : ℕ} (hb1 : 1 ≤ b) (hy : 1 ≤ y)
    (hhigh : 0 < high) (hps : Spec.p b ≤ Nat.sqrt (x / Spec.p b)) (hsm : Nat.sqrt (x / Spec.p b) ≤ maxPi)
    (hmb : maxPi ≤ t.bound) (hm64 : maxPi ≤ ITy.u64.maxVal) (hsz : π (Nat.sqrt (x / Spec.p b)) < size)
    (hh : high ≤ t.bound + 1) (hh64 : high ≤ 2 ^ 64) :
    acAKernel k t size maxPi low high (x / max low 1) (x / high) (x / Spec.p b) y (Spec.p b)
      = .ok (∑ j ∈ (Ioc b (π (Nat.sqrt (x / Spec.p b)))).filter
              (fun j => low ≤ x / Spec.p b / Spec.p j ∧ x / Spec.p b / Spec.p j < high), aTerm (x / Spec.p b) y j) := by
  have hp0 := Spec.p_pos b
  set prime := Spec.p b with hprime
  set xp := x / prime with hxp
  set s := Nat.sqrt xp with hs
  set i0 := π (max prime (min (x / high / prime) s)) with hi0
  set m2 := π (min (x / max low 1 / prime) s) with hm2
  set m1 := π (min (xp / y) (min (x / max low 1 / prime) s)) with hm1
  have hr0 : max prime (min (x / high / prime) s) ≤ s := max_le hps (min_le_right _ _)
  have hr2 : min (x / max low 1 / prime) s ≤ s := min_le_right _ _
  have hr1 : min (xp / y) (min (x / max low 1 / prime) s) ≤ s := le_trans (min_le_right _ _) hr2
  have hi0s : i0 ≤ π s := Spec.pi_mono hr0
  have hm2s : m2 ≤ π s := Spec.pi_mono hr2
  have hm12 : m1 ≤ m2 := Spec.pi_mono (min_le_right _ _)
  have hsB : π s ≤ π t.bound := Spec.pi_mono (le_trans hsm hmb)
  -- every index the loops touch is a leaf of this segment
  have hvis : ∀ j, i0 < j → j ≤ m2 → low ≤ xp / Spec.p j ∧ xp / Spec.p j < high := by
    intro j h1 h2
    exact ((a_visit_iff hp0 hhigh (by omega)).1 ⟨h1, h2⟩).2
  unfold acAKernel
  rw [isqrtN_eq, narrowE_ok (le_trans hsm hm64), EM_bind_ok, divE_ok (by omega), EM_bind_ok, divE_ok (by omega), EM_bind_ok]
  simp only []
  rw [piGet_ok hv (le_trans hr0 hsm) (le_trans hr0 (le_trans hsm hmb)), EM_bind_ok, divE_ok (by omega), EM_bind_ok,
    piGet_ok hv (le_trans hr1 hsm) (le_trans hr1 (le_trans hsm hmb)), EM_bind_ok,
    piGet_ok hv (le_trans hr2 hsm) (le_trans hr2 (le_trans hsm hmb)), EM_bind_ok]
  rw [← hi0, ← hm1, ← hm2]
  rw [aLoop_eq k hv 1 hh hh64 (m1 + 1 - (i0 + 1)) (i0 + 1) 0 (by omega) (by omega) (by omega)
    (fun j h1 h2 => hvis j (by omega) (by omega)), EM_bind_ok]
  simp only []
  rw [aLoop_eq k hv 2 hh hh64 _ _ _ (by omega) (by omega) (by omega)
    (fun j h1 h2 => hvis j (by omega) (by omega)), EM_bind_ok]
  simp only [EM_pure]
  congr 1
  rw [zero_add, two_loops_sum hm12]
  -- the visited interval is the filtered set, the weights agree
  have hset : Ioc i0 m2 = (Ioc b (π s)).filter (fun j => low ≤ xp / Spec.p j ∧ xp / Spec.p j < high) := by
    ext j
    rw [mem_Ioc, mem_filter, mem_Ioc]
    by_cases hj : 1 ≤ j
    · have := a_visit_iff (x := x) (low := low) hp0 hhigh hj
      rw [Spec.pi_p hb1] at this
      exact this
    · constructor
      · intro h; omega
      · intro h; omega
  rw [hset]
  apply Finset.sum_congr rfl
  intro j hj
  rw [mem_filter, mem_Ioc] at hj
  have hj1 : 1 ≤ j := by omega
  unfold aTerm
  congr 1
  have hjm2 : j ≤ m2 := by
    have : j ∈ Ioc i0 m2 := by rw [hset, mem_filter, mem_Ioc]; exact hj
    exact (mem_Ioc.1 this).2
  have : j ≤ m1 ↔ y ≤ xp / Spec.p j := by
    rw [hm1, ← Spec.p_le_iff hj1, le_min_iff, a_weight_iff (by omega)]
    constructor
    · intro h; exact h.1
    · intro h; exact ⟨h, (Spec.p_le_iff hj1).2 hjm2⟩
  by_cases hc : j ≤ m1
  · rw [if_pos hc, if_pos (this.1 hc)]
  · rw [if_neg hc, if_neg (fun h => hc (this.2 h))]

/-! ### any chain of segments -/

/-- a chain of segment boundaries `l₀ ≤ l₁ ≤ … ≤ lₙ` as the list of its consecutive pairs -/
def chainPairs : List ℕ → List (ℕ × ℕ)
  | a :: b :: rest => (a, b) :: chainPairs (b :: rest)
  | _ => []

/-- **segment additivity (generic)**: for every sorted chain of boundaries the sums over the leaves with
    `lᵢ ≤ g j < lᵢ₊₁` add up to the sum over the leaves with `l₀ ≤ g j < lₙ` — no leaf twice, none lost -/
theorem chain_filter_sum {S : Finset ℕ} (g : ℕ → ℕ) (F : ℕ → ℤ) :
    ∀ (l : List ℕ) (a : ℕ), (a :: l).Pairwise (· ≤ ·) →
      ((chainPairs (a :: l)).map fun lh => ∑ j ∈ S.filter (fun j => lh.1 ≤ g j ∧ g j < lh.2), F j).sum
        = ∑ j ∈ S.filter (fun j => a ≤ g j ∧ g j < (a :: l).getLast (List.cons_ne_nil _ _)), F j := by
  intro l
  induction l with
  | nil =>
    intro a _
    show (0 : ℤ) = _
    symm
    apply Finset.sum_eq_zero
    intro j hj
    have h := (Finset.mem_filter.1 hj).2
    have e : [a].getLast (List.cons_ne_nil _ _) = a := rfl
    rw [e] at h
    omega
  | cons b rest ih =>
    intro a hp
    rw [List.pairwise_cons] at hp
    have hab : a ≤ b := hp.1 b (List.mem_cons_self ..)
    have hlast : b ≤ (b :: rest).getLast (List.cons_ne_nil _ _) := by
      rcases List.eq_or_ne_mem_of_mem (List.getLast_mem (List.cons_ne_nil b rest)) with h | h
      · rw [h]
      · exact (List.pairwise_cons.1 hp.2).1 _ h.2
    simp only [chainPairs, List.map_cons, List.sum_cons]
    rw [ih b hp.2, List.getLast_cons (List.cons_ne_nil _ _), ← Finset.sum_union]
    · apply Finset.sum_congr _ (fun _ _ => rfl)
      ext j
      simp only [mem_union, mem_filter]
      constructor
      · rintro (⟨h1, h2, h3⟩ | ⟨h1, h2, h3⟩)
        · exact ⟨h1, h2, lt_of_lt_of_le h3 hlast⟩
        · exact ⟨h1, le_trans hab h2, h3⟩
      · rintro ⟨h1, h2, h3⟩
        by_cases h : g j < b
        · exact Or.inl ⟨h1, h2, h⟩
        · exact Or.inr ⟨h1, by omega, h3⟩
    · rw [Finset.disjoint_left]
      intro j h1 h2
      rw [mem_filter] at h1 h2
      omega

/-- members of the pair list of a strictly increasing chain: non-empty segments inside the chain -/
theorem mem_chainPairs : ∀ (l : List ℕ), l.Pairwise (· < ·) → ∀ lh ∈ chainPairs l, lh.1 < lh.2 ∧ lh.2 ∈ l := by
  intro l
  induction l with
  | nil => intro _ lh h; simp [chainPairs] at h
  | cons a rest ih =>
    intro hp lh h
    cases rest with
    | nil => simp [chainPairs] at h
    | cons b rest' =>
      rw [chainPairs, List.mem_cons] at h
      rcases h with h | h
      · subst h
        exact ⟨(List.pairwise_cons.1 hp).1 b (List.mem_cons_self ..), List.mem_cons_of_mem _ (List.mem_cons_self ..)⟩
      · obtain ⟨h1, h2⟩ := ih (List.pairwise_cons.1 hp).2 lh h
        exact ⟨h1, List.mem_cons_of_mem _ h2⟩

theorem le_getLast_of_mem {l : List ℕ} (hp : l.Pairwise (· < ·)) (hne : l ≠ []) {v : ℕ} (hv : v ∈ l) :
    v ≤ l.getLast hne := by
  induction l with
  | nil => exact absurd rfl hne
  | cons a rest ih =>
    cases rest with
    | nil => simp at hv; subst hv; simp
    | cons b rest' =>
      rw [List.getLast_cons (List.cons_ne_nil _ _)]
      rcases List.mem_cons.1 hv with h | h
      · subst h
        have h1 : v < (b :: rest').getLast (List.cons_ne_nil _ _) :=
          (List.pairwise_cons.1 hp).1 _ (List.getLast_mem _)
        exact h1.le
      · exact ih (List.pairwise_cons.1 hp).2 (List.cons_ne_nil _ _) h

/-- the value of `A` for one (segment, b) -/
noncomputable def aSeg (x y b low high : ℕ) : ℤ :=
  ∑ j ∈ (Ioc b (π (Nat.sqrt (x / Spec.p b)))).filter
    (fun j => low ≤ x / Spec.p b / Spec.p j ∧ x / Spec.p b / Spec.p j < high), aTerm (x / Spec.p b) y j

/-- **A over any chain of segments**: for EVERY strictly increasing chain `0 = l₀ < l₁ < … < lₙ` whose top exceeds every leaf
    value `x / (p b · p j)` of the level (AC_OpenMP: `lₙ = ⌊√x⌋`), each segment's kernel call returns its `aSeg`, and the
    segment values add up to the level's defining sum `Spec.Aidx x y b` (the inner sum of Gourdon's `A`) -/
theorem acA_chain_total (k : Kern) (hv : t.Valid) {size maxPi x y b : ℕ} (hb1 : 1 ≤ b) (hy : 1 ≤ y)
    (hps : Spec.p b ≤ Nat.sqrt (x / Spec.p b)) (hsm : Nat.sqrt (x / Spec.p b) ≤ maxPi)
    (hmb : maxPi ≤ t.bound) (hm64 : maxPi ≤ ITy.u64.maxVal) (hsz : π (Nat.sqrt (x / Spec.p b)) < size)
    (l : List ℕ) (hl : (0 :: l).Pairwise (· < ·))
    (htb : (0 :: l).getLast (List.cons_ne_nil _ _) ≤ t.bound + 1) (ht64 : (0 :: l).getLast (List.cons_ne_nil _ _) ≤ 2 ^ 64)
    (htop : ∀ j, b < j → x / Spec.p b / Spec.p j < (0 :: l).getLast (List.cons_ne_nil _ _)) :
    (∀ lh ∈ chainPairs (0 :: l),
      acAKernel k t size maxPi lh.1 lh.2 (x / max lh.1 1) (x / lh.2) (x / Spec.p b) y (Spec.p b)
        = .ok (aSeg x y b lh.1 lh.2)) ∧
    ((chainPairs (0 :: l)).map fun lh => aSeg x y b lh.1 lh.2).sum = Spec.Aidx x y b := by
  constructor
  · intro lh hlh
    obtain ⟨h1, h2⟩ := mem_chainPairs _ hl lh hlh
    have h3 := le_getLast_of_mem hl (List.cons_ne_nil _ _) h2
    exact acAKernel_eq k hv hb1 hy (by omega) hps hsm hmb hm64 hsz (by omega) (by omega)
  · have hle : (0 :: l).Pairwise (· ≤ ·) := hl.imp (fun h => Nat.le_of_lt h)
    unfold aSeg
    rw [chain_filter_sum (fun j => x / Spec.p b / Spec.p j) (fun j => aTerm (x / Spec.p b) y j) l 0 hle]
    unfold Spec.Aidx aTerm
    rw [Finset.filter_true_of_mem]
    intro j hj
    rw [mem_Ioc] at hj
    exact ⟨Nat.zero_le _, htop j hj.1⟩

end Pc.Easy
