/-
WP safety4 (C16 / C12): the checked `omp for` body, thread-private copies and reduction of `S1_OpenMP` / `Phi0_OpenMP`
(`leafBodyC`, `threadRunC`, `ompReduceC`, `leafOpenMPC` of PcModel/SafetyLeaf.lean) for EVERY schedule:
if `absG x z c (π y) c 1 ≤ sMax` (the absolute sum of ALL ordinary leaves, root included) every signed step fits.
-/
import PcProofs.SafetyLeaf

namespace Pc
open Nat Finset Classical
open scoped Nat.Prime

namespace Spec

/-- the root plus, for every first prime `p b`, the majorant below the node `(b, p b)` -/
theorem absG_root {x z c a : ℕ} (hz : 1 ≤ z) :
    absG x z c a c 1 = phi x c + ∑ b ∈ Ioc c a, absG x z c a b (p b) := by
  have key : ∀ n c', c' + n = a →
      absG x z c a c' 1 = phi x c + ∑ b ∈ Ioc c' a, absG x z c a b (p b) := by
    intro n
    induction n with
    | zero =>
      intro c' h
      have : c' = a := by omega
      subst this
      rw [absG_of_le le_rfl, if_pos hz, Finset.Ioc_self, Finset.sum_empty, Nat.div_one, add_zero]
    | succ n ih =>
      intro c' h
      rw [absG_step (by omega), ih (c' + 1) (by omega), Nat.one_mul]
      have hI : Ioc c' a = insert (c' + 1) (Ioc (c' + 1) a) := by
        ext i; simp [mem_Ioc]; omega
      rw [hI, Finset.sum_insert (by simp)]
      ring
  rcases Nat.le_total c a with h | h
  · exact key (a - c) c (by omega)
  · rw [absG_of_le h, if_pos hz, Finset.Ioc_eq_empty (by omega), Finset.sum_empty, Nat.div_one, add_zero]

end Spec

variable {t : NT}

/-- one checked `omp for` iteration: `M = absG … b (p b)` -/
theorem leafBodyC_eq (hv : t.Valid) {w : ITy} {sMax x y z c : ℕ} (hy : y ≤ t.bound) (hc : c ≤ 8) (hyz : y ≤ z)
    (hw : z * y ≤ w.maxVal) {b : ℕ} (hb1 : 1 ≤ b) (hb : b ≤ π y) (s : ℤ)
    (hlo : -(sMax : ℤ) ≤ s - (Spec.absG x z c (π y) b (Spec.p b) : ℤ))
    (hhi : s + (Spec.absG x z c (π y) b (Spec.p b) : ℤ) ≤ (sMax : ℤ)) :
    leafBodyC sMax t w (π y + 1) x z c b s = .ok (s + - Spec.ordG x z c (π y) b (Spec.p b)) ∧
      -(Spec.absG x z c (π y) b (Spec.p b) : ℤ) ≤ - Spec.ordG x z c (π y) b (Spec.p b) ∧
      - Spec.ordG x z c (π y) b (Spec.p b) ≤ (Spec.absG x z c (π y) b (Spec.p b) : ℤ) := by
  have hpe : t.p b = Spec.p b := hv.p_eq _ hb1 (le_trans hb (Spec.pi_mono hy))
  have hpy : Spec.p b ≤ y := (Spec.p_le_iff hb1).2 hb
  have hp2 := Spec.two_le_p b
  obtain ⟨r, hr, hrv, hr1, hr2⟩ := leafThreadC_eq (sMax := sMax) (x := x) hv hy hc hw (π y - b) b rfl 1 (Spec.p b) 0
    (Or.inl rfl) (by omega) (le_trans hpy hyz) (by omega) (by omega)
  set A := Spec.absG x z c (π y) b (Spec.p b) with hA
  set ph := Spec.phi (x / Spec.p b) c with hph
  have h1 : fitsT sMax (s + -(ph : ℤ)) := by unfold fitsT; omega
  have h2 : fitsT sMax (s + -(ph : ℤ) + r) := by unfold fitsT; omega
  refine ⟨?_, ?_, ?_⟩
  · unfold leafBodyC
    rw [hpe, divM_ok (by omega), liftLX_ok, LXM_bind_ok, phiTinyM_eq hc, liftLX_ok, LXM_bind_ok, ← hph, accS_ok h1,
      LXM_bind_ok, hr, LXM_bind_ok, accS_ok h2, hrv]
    congr 1; ring
  · rw [hrv] at hr1 hr2; omega
  · rw [hrv] at hr1 hr2; omega

/-- a thread's private copy with majorants `m b` -/
theorem foldlM_add_eqC {sMax : ℕ} {body : ℕ → ℤ → LXM ℤ} {v m : ℕ → ℤ} :
    ∀ (its : List ℕ) (acc : ℤ),
      (∀ b ∈ its, ∀ s, -(sMax : ℤ) ≤ s - m b → s + m b ≤ (sMax : ℤ) → body b s = .ok (s + v b)) →
      (∀ b ∈ its, -(m b) ≤ v b ∧ v b ≤ m b) →
      -(sMax : ℤ) ≤ acc - (its.map m).sum → acc + (its.map m).sum ≤ (sMax : ℤ) →
      its.foldlM (fun acc b => body b acc) acc = .ok (acc + (its.map v).sum) := by
  intro its
  induction its with
  | nil => intro acc _ _ _ _; simp
  | cons b bs ih =>
    intro acc h hm hlo hhi
    simp only [List.map_cons, List.sum_cons] at hlo hhi
    have hmb := hm b (List.mem_cons_self ..)
    have hrest : 0 ≤ (bs.map m).sum := List.sum_nonneg (by
      intro a ha; rw [List.mem_map] at ha; obtain ⟨b', hb', rfl⟩ := ha
      have := hm b' (List.mem_cons_of_mem _ hb'); omega)
    rw [List.foldlM_cons, h b (List.mem_cons_self ..) acc (by omega) (by omega), LXM_bind_ok,
      ih _ (fun b' hb' => h b' (List.mem_cons_of_mem _ hb')) (fun b' hb' => hm b' (List.mem_cons_of_mem _ hb'))
        (by omega) (by omega), List.map_cons, List.sum_cons]
    congr 1; ring

theorem list_sum_bounds {v m : ℕ → ℤ} : ∀ (its : List ℕ), (∀ b ∈ its, -(m b) ≤ v b ∧ v b ≤ m b) →
    -((its.map m).sum) ≤ (its.map v).sum ∧ (its.map v).sum ≤ (its.map m).sum := by
  intro its
  induction its with
  | nil => intro _; simp
  | cons b bs ih =>
    intro h
    have h1 := h b (List.mem_cons_self ..)
    have h2 := ih (fun b' hb' => h b' (List.mem_cons_of_mem _ hb'))
    simp only [List.map_cons, List.sum_cons]
    omega

/-- the whole checked region, any distribution -/
theorem ompReduceC_eq {sMax : ℕ} {body : ℕ → ℤ → LXM ℤ} {v m : ℕ → ℤ} :
    ∀ (sched : List (List ℕ)) (init : ℤ),
      (∀ b ∈ sched.flatten, ∀ s, -(sMax : ℤ) ≤ s - m b → s + m b ≤ (sMax : ℤ) → body b s = .ok (s + v b)) →
      (∀ b ∈ sched.flatten, -(m b) ≤ v b ∧ v b ≤ m b) →
      -(sMax : ℤ) ≤ init - (sched.flatten.map m).sum → init + (sched.flatten.map m).sum ≤ (sMax : ℤ) →
      ompReduceC sMax init body sched = .ok (init + (sched.flatten.map v).sum) := by
  intro sched
  induction sched with
  | nil => intro init _ _ _ _; simp [ompReduceC]
  | cons its rest ih =>
    intro init h hm hlo hhi
    rw [List.flatten_cons, List.map_append, List.sum_append] at hlo hhi
    have h1 : ∀ b ∈ its, ∀ s, -(sMax : ℤ) ≤ s - m b → s + m b ≤ (sMax : ℤ) → body b s = .ok (s + v b) :=
      fun b hb => h b (by rw [List.flatten_cons]; exact List.mem_append_left _ hb)
    have h2 : ∀ b ∈ rest.flatten, ∀ s, -(sMax : ℤ) ≤ s - m b → s + m b ≤ (sMax : ℤ) → body b s = .ok (s + v b) :=
      fun b hb => h b (by rw [List.flatten_cons]; exact List.mem_append_right _ hb)
    have hm1 : ∀ b ∈ its, -(m b) ≤ v b ∧ v b ≤ m b :=
      fun b hb => hm b (by rw [List.flatten_cons]; exact List.mem_append_left _ hb)
    have hm2 : ∀ b ∈ rest.flatten, -(m b) ≤ v b ∧ v b ≤ m b :=
      fun b hb => hm b (by rw [List.flatten_cons]; exact List.mem_append_right _ hb)
    have hb1 := list_sum_bounds its hm1
    have hb2 := list_sum_bounds rest.flatten hm2
    have hrun : threadRunC body its = .ok ((its.map v).sum) := by
      unfold threadRunC
      rw [foldlM_add_eqC its 0 h1 hm1 (by omega) (by omega), zero_add]
    have hfit : fitsT sMax (init + (its.map v).sum) := by unfold fitsT; omega
    have := ih (init + (its.map v).sum) h2 hm2 (by omega) (by omega)
    unfold ompReduceC at this ⊢
    rw [List.foldlM_cons, hrun, LXM_bind_ok, accS_ok hfit, LXM_bind_ok, this, List.flatten_cons,
      List.map_append, List.sum_append]
    congr 1; ring

/-- **`S1_OpenMP` / `Phi0_OpenMP`, width-checked, every schedule**: `1 ≤ y ≤ z` (`z = y` for S1), `c ≤ 8`, the operand type holds
    `z·y`, and the absolute sum of all ordinary leaves fits the signed `T`: the checked mirror returns `ord x z c (π y)`
    (`= Spec.S1 x y c` for `z = y`, `= Spec.Phi0 x y z c`) -/
theorem leafOpenMPC_eq (hv : t.Valid) {w : ITy} {sMax x y z c : ℕ} (hy1 : 1 ≤ y) (hy : y ≤ t.bound) (hc : c ≤ 8)
    (hyz : y ≤ z) (hw : z * y ≤ w.maxVal) (hA : Spec.absG x z c (π y) c 1 ≤ sMax)
    {sched : List (List ℕ)} (hs : IsSchedule (c + 1) (π y) sched) :
    leafOpenMPC sMax t w x y z c sched = .ok (Spec.ord x z c (π y)) := by
  have hroot := Spec.absG_root (x := x) (z := z) (c := c) (a := π y) (le_trans hy1 hyz)
  set m : ℕ → ℤ := fun b => (Spec.absG x z c (π y) b (Spec.p b) : ℤ) with hm
  have hmsum : (sched.flatten.map m).sum = ∑ b ∈ Ioc c (π y), m b := by
    rw [(hs.map m).sum_eq, sum_range'_eq]
  have hAz : (Spec.phi x c : ℤ) + ∑ b ∈ Ioc c (π y), m b ≤ (sMax : ℤ) := by
    have : ((Spec.absG x z c (π y) c 1 : ℕ) : ℤ) ≤ (sMax : ℤ) := by exact_mod_cast hA
    rw [hroot] at this
    push_cast at this
    exact this
  have hmnn : 0 ≤ ∑ b ∈ Ioc c (π y), m b := Finset.sum_nonneg (fun b _ => Int.natCast_nonneg _)
  have hmem : ∀ b ∈ sched.flatten, c < b ∧ b ≤ π y := by
    intro b hb
    have := (hs.mem_iff).1 hb
    rw [List.mem_range'_1] at this
    omega
  unfold leafOpenMPC
  rw [hv.piOf_eq y hy, phiTinyM_eq hc, liftLX_ok, LXM_bind_ok]
  have hfit0 : fitsT sMax (Spec.phi x c : ℤ) := by unfold fitsT; omega
  rw [if_neg (not_not.2 hfit0)]
  rw [ompReduceC_eq (v := fun b => - Spec.ordG x z c (π y) b (Spec.p b)) (m := m) sched _
    (fun b hb s h1 h2 => (leafBodyC_eq hv hy hc hyz hw (by have := hmem b hb; omega) (hmem b hb).2 s h1 h2).1)
    (fun b hb => by
      have hb' := hmem b hb
      have hMb : m b ≤ ∑ b ∈ Ioc c (π y), m b :=
        Finset.single_le_sum (f := m) (fun i _ => Int.natCast_nonneg _) (mem_Ioc.2 hb')
      have hMb' : ((Spec.absG x z c (π y) b (Spec.p b) : ℕ) : ℤ) ≤ ∑ b ∈ Ioc c (π y), m b := hMb
      have hp0 : (0 : ℤ) ≤ (Spec.phi x c : ℤ) := Int.natCast_nonneg _
      exact (leafBodyC_eq (sMax := sMax) hv hy hc hyz hw (by omega) hb'.2 0 (by omega) (by omega)).2)
    (by rw [hmsum]; omega) (by rw [hmsum]; omega)]
  rw [(hs.map _).sum_eq, sum_range'_eq, Spec.ord_eq_root_sub_sum (le_trans hy1 hyz), Finset.sum_neg_distrib]
  congr 1

end Pc

#print axioms Pc.leafOpenMPC_eq
