/-
WP indep: non-vacuity of PcProofs/IndepApi.lean — a concrete environment `exExecs` over `exWorld` whose contexts DEPEND on the configuration
(the sieve's inline count body is chosen from the thread count) and which meets `CallOK` for all four kinds of calls under EVERY configuration.
-/
import PcProofs.IndepApi
import PcProofs.IndepEx

namespace Pc.Indep
open Pc.Top Pc.Close Pc.ClosePhi Nat PcGen.ApiConst Pc.PhiAlgProofs
open scoped Nat.Prime

/-- spec-valued tables of phi.cpp (incl. `pi_noprint := π`) -/
noncomputable def specTop : PhiTop := { idealTop with piFn := fun y => π y }

theorem specTop_ok (x A : ℕ) : TopOK specTop x A :=
  { pixUpperX := le_rfl, pixUpperSqrt := le_rfl, piFn := rfl, prime0 := by simp [specTop, idealTop],
    prime := fun i hi _ => by simp [specTop, idealTop]; omega, piTab := fun _ _ => rfl, tiny := fun _ _ _ => rfl }

/-- an environment: `exWorld`; sieve configuration `c`, count bodies `f₁` (one thread) / `f₂` (more); digits-only calculator -/
noncomputable def exExecs (c : Sieve.Cfg) (f₁ f₂ : Sieve.StopFn) (r : ApiRun) : Execs where
  ctx := fun cfg _ => exCtx c (if cfg.threads = 1 then f₁ else f₂) 0 false
  run := fun _ _ => r
  ev := PiApi.calcDigits
  phiTop := fun _ _ => specTop
  phiOrder := fun _ q => match q with | .phi _ a => List.range' 9 (a.toNat - 8) | _ => []
  phiSched := fun _ _ _ => (idealCache, 0)
  nthApprox := fun _ _ _ => 50
  nthHp := fun _ _ _ => 0
  nthHn := fun _ _ _ => 0

theorem exExecs_k (c : Sieve.Cfg) (f₁ f₂ : Sieve.StopFn) (r : ApiRun) (cfg : ApiConfig) (q : ApiCompute) :
    (exExecs c f₁ f₂ r).k cfg q = exCtx c (if cfg.threads = 1 then f₁ else f₂) cfg.threads cfg.print := rfl

/-- `pi(x)` for every int64 `x ≤ 10^5`, under EVERY configuration -/
theorem exExecs_pi (c : Sieve.Cfg) (f₁ f₂ : Sieve.StopFn) (r : ApiRun) (cfg : ApiConfig) (x : ℤ) (hx : x ≤ 100000) :
    CallOK (exExecs c f₁ f₂ r) cfg (.pi x) := by
  intro _
  rw [exExecs_k]
  exact ⟨exCtx_ok _ _ _ _ _ hx, exCtx_apiExec _ _ _ _ _ hx _, exCtx_accepted _ _ _ _ _ hx _⟩

/-- `pi("40000")` under every configuration -/
theorem exExecs_piStr (c : Sieve.Cfg) (f₁ f₂ : Sieve.StopFn) (r : ApiRun) (cfg : ApiConfig) :
    CallOK (exExecs c f₁ f₂ r) cfg (.piStr [52, 48, 48, 48, 48]) := by
  intro n hn
  have h : PiApi.toMaxint PiApi.calcDigits (strArg [52, 48, 48, 48, 48]) = .ok 40000 := by decide
  have hn' : PiApi.toMaxint PiApi.calcDigits (strArg [52, 48, 48, 48, 48]) = .ok n := hn
  rw [h] at hn'
  cases hn'
  rw [exExecs_k]
  exact ⟨by norm_num, exCtx_ok _ _ _ _ _ (by norm_num), exCtx_apiExec _ _ _ _ _ (by norm_num) _,
    exCtx_accepted _ _ _ _ _ (by norm_num) _⟩

/-- `phi(x, a)` for all int64 arguments -/
theorem exExecs_phi (c : Sieve.Cfg) (f₁ f₂ : Sieve.StopFn) (r : ApiRun) (cfg : ApiConfig) (x a : ℤ) :
    CallOK (exExecs c f₁ f₂ r) cfg (.phi x a) :=
  fun _ _ => ⟨specTop_ok _ _, List.Perm.refl _, fun _ => cacheOK_initial idealCache_valOK⟩

/-- `nth_prime(5)` with `RiemannR_inverse(5) = 50`, bound `N = 100` -/
theorem exExecs_nth (c : Sieve.Cfg) (f₁ f₂ : Sieve.StopFn) (r : ApiRun) (cfg : ApiConfig) :
    CallOK (exExecs c f₁ f₂ r) cfg (.nthPrime 5) :=
  fun _ _ => ⟨100, by norm_num, exCtx_ok _ _ _ _ _ (by norm_num), fun _ => Nat.zero_le _, by show 50 ≤ 100; norm_num,
    by show Spec.p 5 ≤ 100; norm_num [Spec.p]⟩

end Pc.Indep
