/-
C18 core, second half (EratSmall / EratMedium): the `switch` on one block, generic in the `fast` flag.
`Reach` = "a run of single wheel steps": the relation between the state `(m, s, u)` before and `(m2, s2, u2)` after any number
of single steps of one sieving prime (bits cleared = exactly the multiples `q·t`, `u ≤ t < u2`; all passed cofactors belong to
the block).  `crossLoop_specG` proves the block specification (incl. the `Adv` fact) from an abstract hypothesis about the code in
front of `case 8g:` (nothing for `fast = false`, the unrolled loops of EratSmall for `fast = true`).
-/
import PcProofs.PsCore2Defs

namespace Pc.PsCore
open Pc.PsWheelSpec
open Pc.Sieve (Bytes clearBit bitAt bitAt_clear)

/-- a run of single wheel steps of the prime `q` from `(m, s, u)` to `(m2, s2, u2)`; `B` = bound for the multiples passed,
    `Mb` = bound for the byte index reached when at least one step was taken -/
structure Reach (M q Lseg B Mb : ℕ) (m : ℕ) (s : Bytes) (u : ℕ) (m2 : ℕ) (s2 : Bytes) (u2 : ℕ) : Prop where
  u_le : u ≤ u2
  m_le : m ≤ m2
  bits : ∀ p, bitAt s2 p = true ↔ (bitAt s p = true ∧ ¬ Hit M q Lseg u u2 p)
  size : s2.size = s.size
  adv : ∀ t, u ≤ t → t < u2 → Nat.Coprime t M → q * t < B
  bound : m2 = m ∨ m2 < Mb

theorem hit_split {M q L u u1 u2 p : ℕ} (h1 : u ≤ u1) (h2 : u1 ≤ u2) :
    Hit M q L u u2 p ↔ (Hit M q L u u1 p ∨ Hit M q L u1 u2 p) := by
  constructor
  · rintro ⟨t, a, b, c, d⟩
    by_cases ht : t < u1
    · exact Or.inl ⟨t, a, ht, c, d⟩
    · exact Or.inr ⟨t, by omega, b, c, d⟩
  · rintro (⟨t, a, b, c, d⟩ | ⟨t, a, b, c, d⟩)
    · exact ⟨t, a, by omega, c, d⟩
    · exact ⟨t, by omega, b, c, d⟩

theorem hit_empty {M q L u p : ℕ} : ¬ Hit M q L u u p := by
  rintro ⟨t, a, b, _, _⟩; omega

theorem Reach.refl (M q Lseg B Mb m : ℕ) (s : Bytes) (u : ℕ) : Reach M q Lseg B Mb m s u m s u :=
  ⟨le_refl _, le_refl _, fun _ => ⟨fun h => ⟨h, hit_empty⟩, fun h => h.1⟩, rfl, fun t a b _ => by omega, Or.inl rfl⟩

theorem Reach.trans {M q Lseg B Mb m : ℕ} {s : Bytes} {u m1 : ℕ} {s1 : Bytes} {u1 m2 : ℕ} {s2 : Bytes} {u2 : ℕ}
    (h1 : Reach M q Lseg B Mb m s u m1 s1 u1) (h2 : Reach M q Lseg B Mb m1 s1 u1 m2 s2 u2) :
    Reach M q Lseg B Mb m s u m2 s2 u2 := by
  refine ⟨le_trans h1.u_le h2.u_le, le_trans h1.m_le h2.m_le, ?_, by rw [h2.size, h1.size], ?_, ?_⟩
  · intro p
    rw [h2.bits p, h1.bits p, hit_split h1.u_le h2.u_le]
    tauto
  · intro t a b c
    by_cases ht : t < u1
    · exact h1.adv t a ht c
    · exact h2.adv t (by omega) b c
  · rcases h2.bound with e | e
    · rcases h1.bound with e1 | e1
      · left; omega
      · right; omega
    · right; exact e

theorem bitVals_le31 : ∀ a < 8, bitVals.getD a 0 ≤ 31 := by decide

/-- one single step (one `case` line) inside the block: `m < n` -/
theorem reach_step {M size K P q m idx u : ℕ} {tab} (ht : TabOk M size K tab) (Lseg base n : ℕ) (hL : 30 ∣ Lseg)
    (hP : 1 ≤ P) (h : Pos M size P q (Lseg + 30 * base) m idx u) (hm : m < n) (s : Bytes) :
    let e := tab.getD idx (0, 0, 0, 0)
    Pos M size P q (Lseg + 30 * base) (m + P * e.2.1 + e.2.2.1) e.2.2.2 (u + e.2.1) ∧
    Reach M q Lseg (Lseg + 30 * base + 30 * n + 7) (n + (P * K + K + 1)) m s u
      (m + P * e.2.1 + e.2.2.1) (s.modify (base + m) (clearBit · e.1)) (u + e.2.1) := by
  have hLb : 30 ∣ Lseg + 30 * base := by omega
  obtain ⟨hbit, hnum, hpos2, hk, hgap, hkle, hcle⟩ := pos_step ht h hLb Lseg base rfl
  dsimp only
  set e := tab.getD idx (0, 0, 0, 0) with he
  have hcop := pos_coprime ht h
  have hmul : P * e.2.1 ≤ P * K := Nat.mul_le_mul_left P hkle
  refine ⟨hpos2, ⟨by omega, by omega, ?_, by rw [Array.size_modify], ?_, by right; omega⟩⟩
  · intro p
    rw [bitAt_clear s (base + m) e.1 p hbit]
    simp only [Bool.and_eq_true, decide_eq_true_eq]
    constructor
    · rintro ⟨h1, h2⟩
      refine ⟨h1, ?_⟩
      rintro ⟨t, ht1, ht2, ht3, ht4⟩
      have htu : t = u := by
        by_contra hne
        exact hgap t (by omega) ht2 ht3
      subst htu
      have hnum' : q * t = numOf Lseg (8 * (base + m) + e.1) := hnum
      rw [hnum'] at ht4
      exact h2 (numOf_inj _ _ _ ht4).symm
    · rintro ⟨h1, h2⟩
      refine ⟨h1, ?_⟩
      intro hp
      apply h2
      refine ⟨u, le_refl u, by omega, hcop, ?_⟩
      rw [hp]; exact hnum
  · intro t ht1 ht2 ht3
    have htu : t = u := by
      by_contra hne
      exact hgap t (by omega) ht2 ht3
    subst htu
    have hnum' : q * t = numOf Lseg (8 * (base + m) + e.1) := hnum
    rw [hnum', numOf_byte _ _ _ hbit]
    have := bitVals_le31 _ hbit
    omega

/-- the code in front of the `case` line -/
def crossPre (fast : Bool) (P base size m idx : ℕ) (s : Bytes) : ℕ × Bytes :=
  if fast && idx % 8 == 0 then fastBlock P base size (idx / 8) m s else (m, s)

theorem crossLoop_succ (tab : List (ℕ × ℕ × ℕ × ℕ)) (fast : Bool) (P base size fuel m idx : ℕ) (s : Bytes) :
    crossLoop tab fast P base size (fuel + 1) m idx s =
      if (crossPre fast P base size m idx s).1 ≥ size then
        ((crossPre fast P base size m idx s).1 - size, idx, (crossPre fast P base size m idx s).2)
      else
        crossLoop tab fast P base size fuel
          ((crossPre fast P base size m idx s).1 + P * (tab.getD idx (0, 0, 0, 0)).2.1 + (tab.getD idx (0, 0, 0, 0)).2.2.1)
          (tab.getD idx (0, 0, 0, 0)).2.2.2
          ((crossPre fast P base size m idx s).2.modify (base + (crossPre fast P base size m idx s).1)
            (clearBit · (tab.getD idx (0, 0, 0, 0)).1)) := rfl

/-- what the block in front of `case 8g:` must satisfy: a run of single steps that keeps the wheel index -/
def PreOk2 (M size K P q Lseg base n : ℕ) : Prop :=
  ∀ (m idx : ℕ) (s : Bytes) (u : ℕ), idx % 8 = 0 → Pos M size P q (Lseg + 30 * base) m idx u →
    ∃ u2, Pos M size P q (Lseg + 30 * base) (fastBlock P base n (idx / 8) m s).1 idx u2 ∧
      Reach M q Lseg (Lseg + 30 * base + 30 * n + 7) (n + (P * K + K + 1)) m s u
        (fastBlock P base n (idx / 8) m s).1 (fastBlock P base n (idx / 8) m s).2 u2

/-- **the `switch` on one block**, any `fast`: `crossLoop_spec` + the `Adv` fact -/
theorem crossLoop_specG (tab : List (ℕ × ℕ × ℕ × ℕ)) (fast : Bool) (M size K : ℕ) (ht : TabOk M size K tab)
    (P q Lseg base n : ℕ) (hP : 1 ≤ P) (hL : 30 ∣ Lseg) (hpre : fast = true → PreOk2 M size K P q Lseg base n) :
    ∀ (fuel m idx : ℕ) (s : Bytes) (u : ℕ), Pos M size P q (Lseg + 30 * base) m idx u → n - m < fuel →
    ∃ u', u ≤ u' ∧
      Pos M size P q (Lseg + 30 * base + 30 * n) (crossLoop tab fast P base n fuel m idx s).1
        (crossLoop tab fast P base n fuel m idx s).2.1 u' ∧
      (∀ p, bitAt (crossLoop tab fast P base n fuel m idx s).2.2 p = true ↔
        (bitAt s p = true ∧ ¬ Hit M q Lseg u u' p)) ∧
      (crossLoop tab fast P base n fuel m idx s).2.2.size = s.size ∧
      ((crossLoop tab fast P base n fuel m idx s).1 < P * K + K + 1 ∨
        (n ≤ m ∧ (crossLoop tab fast P base n fuel m idx s).1 = m - n)) ∧
      (∀ t, u ≤ t → t < u' → Nat.Coprime t M → q * t < Lseg + 30 * base + 30 * n + 7) := by
  have hLb : 30 ∣ Lseg + 30 * base := by omega
  intro fuel
  induction fuel with
  | zero => intro m idx s u _ h; omega
  | succ fuel ih =>
    intro m idx s u hpos hfuel
    rw [crossLoop_succ]
    obtain ⟨u1, hpos1, hr1⟩ : ∃ u1, Pos M size P q (Lseg + 30 * base) (crossPre fast P base n m idx s).1 idx u1 ∧
        Reach M q Lseg (Lseg + 30 * base + 30 * n + 7) (n + (P * K + K + 1)) m s u
          (crossPre fast P base n m idx s).1 (crossPre fast P base n m idx s).2 u1 := by
      unfold crossPre
      by_cases hc : (fast && idx % 8 == 0) = true
      · rw [if_pos hc]
        simp only [Bool.and_eq_true, beq_iff_eq] at hc
        exact hpre hc.1 m idx s u hc.2 hpos
      · rw [if_neg hc]; exact ⟨u, hpos, Reach.refl ..⟩
    generalize crossPre fast P base n m idx s = ms at hpos1 hr1 ⊢
    obtain ⟨m1, s1⟩ := ms
    simp only at hpos1 hr1 ⊢
    by_cases hm : m1 ≥ n
    · rw [if_pos hm]
      refine ⟨u1, hr1.u_le, pos_shift hpos1 hLb hm, hr1.bits, hr1.size, ?_, hr1.adv⟩
      rcases hr1.bound with e | e
      · right; subst e; exact ⟨hm, rfl⟩
      · left; show m1 - n < _; omega
    · rw [if_neg hm]
      obtain ⟨hpos2, hr2⟩ := reach_step ht Lseg base n hL hP hpos1 (by omega) s1
      have hr := hr1.trans hr2
      have hk := (pos_step ht hpos1 hLb Lseg base rfl).2.2.2.1
      set e := tab.getD idx (0, 0, 0, 0) with he
      have hk' : 1 ≤ P * e.2.1 := Nat.mul_pos (by omega) (by omega)
      have hm1 := hr1.m_le
      obtain ⟨u', hu', hp', hbits, hsz, hbound, hadv⟩ := ih (m1 + P * e.2.1 + e.2.2.1) e.2.2.2
        (s1.modify (base + m1) (clearBit · e.1)) (u1 + e.2.1) hpos2 (by omega)
      have hr3 : Reach M q Lseg (Lseg + 30 * base + 30 * n + 7) (n + (P * K + K + 1)) m s u
          (m1 + P * e.2.1 + e.2.2.1) (crossLoop tab fast P base n fuel (m1 + P * e.2.1 + e.2.2.1) e.2.2.2
            (s1.modify (base + m1) (clearBit · e.1))).2.2 u' :=
        hr.trans ⟨hu', le_refl _, hbits, hsz, hadv, Or.inl rfl⟩
      refine ⟨u', hr3.u_le, hp', hr3.bits, hr3.size, ?_, hr3.adv⟩
      left
      rcases hbound with h | ⟨_, h⟩
      · exact h
      · rw [h]
        rcases hr2.bound with e2 | e2
        · omega
        · omega

/-- item 1: `crossLoop_spec` (`fast = false`, generic table) with the `Adv` conjunct -/
theorem crossLoop_spec2 (tab : List (ℕ × ℕ × ℕ × ℕ)) (M size K : ℕ) (ht : TabOk M size K tab)
    (P q Lseg base n : ℕ) (hP : 1 ≤ P) (hL : 30 ∣ Lseg) :
    ∀ (fuel m idx : ℕ) (s : Bytes) (u : ℕ), Pos M size P q (Lseg + 30 * base) m idx u → n - m < fuel →
    ∃ u', u ≤ u' ∧
      Pos M size P q (Lseg + 30 * base + 30 * n) (crossLoop tab false P base n fuel m idx s).1
        (crossLoop tab false P base n fuel m idx s).2.1 u' ∧
      (∀ p, bitAt (crossLoop tab false P base n fuel m idx s).2.2 p = true ↔
        (bitAt s p = true ∧ ¬ Hit M q Lseg u u' p)) ∧
      (crossLoop tab false P base n fuel m idx s).2.2.size = s.size ∧
      ((crossLoop tab false P base n fuel m idx s).1 < P * K + K + 1 ∨
        (n ≤ m ∧ (crossLoop tab false P base n fuel m idx s).1 = m - n)) ∧
      (∀ t, u ≤ t → t < u' → Nat.Coprime t M → q * t < Lseg + 30 * base + 30 * n + 7) :=
  crossLoop_specG tab false M size K ht P q Lseg base n hP hL (fun h => by cases h)

/-! ### one sieving prime on one block, with the 23 + 9 bit packing -/

/-- the per-prime specification of `crossPrime tab fast` on the block `[base, base + n)` of the segment with low `L` -/
def PrimeOk (tab : List (ℕ × ℕ × ℕ × ℕ)) (fast : Bool) : Prop :=
  ∀ (q L base n : ℕ), 30 ∣ L → 30 ≤ q → q < 2 ^ 25 →
    ∀ (p : SPrime) (u : ℕ), Pos 30 8 (q / 30) q (L + 30 * base) p.mi p.wi u → p.sp = q / 30 → ∀ s : Bytes,
    ∃ u', u ≤ u' ∧
      Pos 30 8 (q / 30) q (L + 30 * base + 30 * n) (crossPrime tab fast base n p s).1.mi
        (crossPrime tab fast base n p s).1.wi u' ∧
      (crossPrime tab fast base n p s).1.sp = q / 30 ∧
      (∀ b, bitAt (crossPrime tab fast base n p s).2 b = true ↔ (bitAt s b = true ∧ ¬ Hit 30 q L u u' b)) ∧
      (crossPrime tab fast base n p s).2.size = s.size ∧
      (∀ t, u ≤ t → t < u' → Nat.Coprime t 30 → q * t < L + 30 * base + 30 * n + 7)

/-- the block specification for the modulo 30 wheel (statement of `crossLoop_specG` for `M = 30`) -/
def CrossOk (tab : List (ℕ × ℕ × ℕ × ℕ)) (fast : Bool) : Prop :=
  ∀ (P q Lseg base n : ℕ), 1 ≤ P → 30 ∣ Lseg →
    ∀ (fuel m idx : ℕ) (s : Bytes) (u : ℕ), Pos 30 8 P q (Lseg + 30 * base) m idx u → n - m < fuel →
    ∃ u', u ≤ u' ∧
      Pos 30 8 P q (Lseg + 30 * base + 30 * n) (crossLoop tab fast P base n fuel m idx s).1
        (crossLoop tab fast P base n fuel m idx s).2.1 u' ∧
      (∀ p, bitAt (crossLoop tab fast P base n fuel m idx s).2.2 p = true ↔
        (bitAt s p = true ∧ ¬ Hit 30 q Lseg u u' p)) ∧
      (crossLoop tab fast P base n fuel m idx s).2.2.size = s.size ∧
      ((crossLoop tab fast P base n fuel m idx s).1 < P * 6 + 6 + 1 ∨
        (n ≤ m ∧ (crossLoop tab fast P base n fuel m idx s).1 = m - n)) ∧
      (∀ t, u ≤ t → t < u' → Nat.Coprime t 30 → q * t < Lseg + 30 * base + 30 * n + 7)

theorem crossOk_false (tab : List (ℕ × ℕ × ℕ × ℕ)) (ht : TabOk 30 8 6 tab) : CrossOk tab false :=
  fun P q Lseg base n hP hL => crossLoop_spec2 tab 30 8 6 ht P q Lseg base n hP hL

theorem primeOk_of_crossOk {tab : List (ℕ × ℕ × ℕ × ℕ)} {fast : Bool} (h : CrossOk tab fast) : PrimeOk tab fast := by
  intro q L base n hL hq hq25 p u hp hsp s
  have hP : 1 ≤ q / 30 := by omega
  have hmi : p.mi < 2 ^ 23 := by
    unfold SPrime.mi; rw [packShift_eq, Nat.and_two_pow_sub_one_eq_mod]; exact Nat.mod_lt _ (by norm_num)
  obtain ⟨u', hu', hpos, hbits, hsz, hbound, hadv⟩ := h (q / 30) q L base n hP hL
    (crossFuel n p.mi) p.mi p.wi s u hp (by unfold crossFuel; omega)
  unfold crossPrime
  simp only [hsp]
  set r := crossLoop tab fast (q / 30) base n (crossFuel n p.mi) p.mi p.wi s with hr
  have hidx : r.2.1 < 2 ^ 9 := by
    obtain ⟨g, j, U, hg, hj, _, _, hi, _⟩ := hpos
    rw [hi]; omega
  have hm : r.1 < 2 ^ 23 := by
    rcases hbound with h | ⟨_, h⟩
    · omega
    · omega
  have hsp32 : q / 30 < 2 ^ 32 := by omega
  obtain ⟨e1, e2, e3⟩ := sprime_roundtrip (q / 30) r.1 r.2.1 hsp32 hm hidx
  refine ⟨u', hu', ?_, e1, hbits, hsz, hadv⟩
  rw [e2, e3]
  exact hpos

theorem primeOk_medium : PrimeOk Gen.psMediumTab false := primeOk_of_crossOk (crossOk_false _ tabOk_medium)

end Pc.PsCore
