/-
WP close2, item 4 (first half): `D_thread` (src/gourdon/D.cpp:55-171) WITHOUT `4 ≤ k`, on the inputs where D has no leaf.

`dThread_eq` (PcProofs/HardDChunk.lean) needs `4 ≤ k` because the segmented engine (`segLoop_spec`) is proved for levels `b ≥ 4`
(the Sieve has 2, 3, 5 built in) and FactorTableD only holds numbers coprime to 2·3·5·7·11 (`d_lvspec` needs `min_b ≥ 5`).
For `get_k(x) = π(x^(1/4))` (every `x < 20^4`, in particular `2 ≤ x < 2401` where `get_k(x) < 4`) no level `b > k` has a leaf:
`p_b > x^(1/4)` ⇒ `x / p_b³ < p_b` ⇒ no `m > p_b` with `m ≤ x / p_b³`.  The real control flow then never touches the sieve:
either `min_b > max_b` (D.cpp:78-79 `return 0`) or, in every segment, the loop head of the FIRST level `b = min_b`
takes `goto next_segment` (D.cpp:110-111 `if (prime >= max_m) goto next_segment` resp. D.cpp:149-150
`if (prime >= primes[l]) goto next_segment`), before `sieve.count` / `factor.is_leaf` are reached.

* `segLoop_first_none`   the segment loop returns its accumulator when the first level of every segment says `goto next_segment`
* `dLv_none_of_noleaf`   `x / p_b³ < p_b` ⇒ the loop head of level `b` is `goto next_segment`
* `WSD_zero_of_noleaf`   … and the level has no leaf in any window
* `dThread_eq_noleaf`    the chunk theorem of `D_thread` for EVERY `k` (no `4 ≤ k`, no FactorTableD / Sieve contract needed)
* `noleaf_of_r4`         `get_k(x) = π(x^(1/4))` ⇒ the no-leaf hypothesis;  `getK_eq_pi_r4` for `x < 20^4`
-/
import PcProofs.HardDChunk
import PcProofs.TopAlgsGourdon

namespace Pc.Hard
open Nat Finset
open scoped Nat.Prime ArithmeticFunction.Moebius

local notation "p" => Spec.p
local notation "φ" => Spec.phi

variable {σ : Type} {S : SieveOps σ}

/-- the segment loop when the first level of every (non-empty) segment takes `goto next_segment`: nothing is added,
    `sieve.count` / `cross_off_count` are never called -/
theorem segLoop_first_none (lv : ℕ → ℕ → ℕ → Except Err (Option (List (ℕ × ℤ)))) (prime : ℕ → ℕ)
    {minB maxB limit segSize : ℕ} (hmm : minB ≤ maxB) (hseg : 1 ≤ segSize)
    (hlv : ∀ lo hi, lo < hi → lv minB lo hi = .ok none) :
    ∀ (n low : ℕ) (s : σ) (phi : Array ℤ) (sum : ℤ), limit ≤ low + n →
      segLoop S lv prime minB maxB limit segSize n low s phi sum = .ok sum := by
  intro n
  induction n with
  | zero =>
    intro low s phi sum h
    unfold segLoop
    rw [if_neg (by omega)]
  | succ n ih =>
    intro low s phi sum h
    unfold segLoop
    split_ifs with hl
    · obtain ⟨j, hj⟩ : ∃ j, maxB + 1 - minB = j + 1 := ⟨maxB - minB, by omega⟩
      rw [hj]
      unfold levelLoop
      rw [if_pos hmm, hlv low (min (low + segSize) limit) (by rw [lt_min_iff]; omega)]
      exact ih (low + segSize) _ _ _ (by omega)
    · rfl

/-- `x / p_b³ < p_b` ⇒ the loop head of level `b` of `D_thread` is `goto next_segment` (first loop: `prime >= max_m`; second loop:
    `prime >= primes[pi[max_m]]`), for every segment; no table is read out of bounds -/
theorem dLv_none_of_noleaf {e : Env} {x y z maxB b lo hi : ℕ} (hE : EnvOK e y) (hsz : Nat.sqrt z ≤ y)
    (hb1 : 1 ≤ b) (hb2 : b ≤ maxB) (hmax : maxB ≤ π y) (hlh : lo < hi)
    (hnl : x / (p b * p b * p b) < p b) :
    dLv e x y z (e.pi (isqrtN z)) maxB b lo hi = .ok none := by
  have hpis : e.pi (isqrtN z) = π (Nat.sqrt z) := by rw [isqrtN_eq, hE.pi_eq _ hsz]
  have hbP : b ≤ π y := le_trans hb2 hmax
  have hpb : e.primes b = p b := hE.primes_eq b hb1 hbP
  have hq0 := Spec.p_pos b
  have hqy : p b ≤ y := (Spec.p_le_iff hb1).2 hbP
  unfold dLv
  split_ifs with hs
  · unfold dLevel1
    rw [hpb, cube_div, hE.primesSize, if_neg (by omega), if_neg (by omega), if_pos]
    exact le_trans (min_le_left _ _) hnl.le
  · unfold dLevel2
    rw [hpb, cube_div, hE.primesSize, hE.piMax, if_neg (by omega), if_neg (by omega)]
    set a := min (x / (p b * p b * p b)) (min (x / p b / max lo 1) y) with ha
    have haP : a ≤ y := le_trans (min_le_right _ _) (min_le_right _ _)
    have hab : a < p b := lt_of_le_of_lt (min_le_left _ _) hnl
    have hpia : π a < b := (Spec.lt_p_iff hb1).1 hab
    rw [if_neg (by omega), hE.pi_eq a haP, if_neg (by have := Spec.pi_mono haP; omega), if_pos]
    rcases Nat.eq_zero_or_pos (π a) with h0 | h0
    · rw [h0, hE.primes_zero]; exact Nat.zero_le _
    · rw [hE.primes_eq _ h0 (Spec.pi_mono haP)]; exact Spec.p_le_p hpia.le

/-- a level with `x / p_b³ < p_b` has no leaf, in any window -/
theorem WSD_zero_of_noleaf {x y z b lo hi : ℕ} (hyz : y ≤ z) (hb1 : 1 ≤ b) (hnl : x / (p b * p b * p b) < p b) :
    WSD x y z b lo hi = 0 :=
  WSD_zero_of_no_leaf hyz hb1 (fun m _ _ hqm hcube _ => by omega)

/-- **the chunk theorem of `D_thread` with no restriction on `k`**, on inputs where no level above `k` has a leaf
    (`hnl`; true whenever `k = π(x^(1/4))`, see `noleaf_of_r4`): for EVERY work item the model returns 0 = the sum of the (no) hard
    leaves of the window — without reading any table out of bounds and without a single `Sieve` call whose contract matters
    (hence no `SieveSpec` / `FactorDOK` hypothesis at all). -/
theorem dThread_eq_noleaf {e : Env} {x xs xz y z k low segments segSize : ℕ}
    (hE : EnvOK e y) (hyz : y ≤ z) (hsz : Nat.sqrt z ≤ y) (hxs : xs ≤ y)
    (hnl : ∀ b, k < b → x / (p b * p b * p b) < p b)
    (hsize : 1 ≤ segSize) (hsegs : 1 ≤ segments) (hlow : low < xz) :
    dThread S e x xs xz y z k low segments segSize =
      .ok (∑ b ∈ Ioc k (π xs), WSD x y z b low (chunkLimit low segments segSize xz)) := by
  have hzero : (∑ b ∈ Ioc k (π xs), WSD x y z b low (chunkLimit low segments segSize xz)) = 0 := by
    apply Finset.sum_eq_zero
    intro b hb
    rw [mem_Ioc] at hb
    exact WSD_zero_of_noleaf hyz (by omega) (hnl b hb.1)
  rw [hzero]
  unfold dThread
  simp only []
  set limit := chunkLimit low segments segSize xz with hlimit
  have hlim1 : low < limit := by
    rw [hlimit]; unfold chunkLimit; rw [lt_min_iff]
    have : segSize * 1 ≤ segSize * segments := Nat.mul_le_mul_left _ hsegs
    omega
  rw [hE.piMax, isqrtN_eq z, if_neg (by omega), if_neg (by omega), if_neg (by omega)]
  set maxArg := min (min (Nat.sqrt (x / max low 1)) (Nat.sqrt limit)) xs with hmaxArg
  have hmaxArgxs : maxArg ≤ xs := min_le_right _ _
  have hmaxB : dMaxB e x xs low limit = π maxArg := by
    unfold dMaxB
    rw [hE.pi_eq _ (by omega), isqrtN_eq, isqrtN_eq]
  rw [hmaxB]
  have hmaxBP : π maxArg ≤ π y := Spec.pi_mono (by omega)
  set a2 := min (xz / limit) xs with ha2
  have ha2P : a2 ≤ y := le_trans (min_le_right _ _) hxs
  rw [if_neg (by omega)]
  have hminB : dMinB e xz xs k limit = max k (π a2) + 1 := by
    unfold dMinB; rw [← ha2, hE.pi_eq a2 ha2P]
  rw [hminB]
  by_cases hempty : max k (π a2) + 1 > π maxArg
  · rw [if_pos hempty]
  · rw [if_neg hempty]
    have hk : k < max k (π a2) + 1 := by have := le_max_left k (π a2); omega
    refine segLoop_first_none _ _ (by omega) hsize (fun lo hi hlh => ?_) limit low _ _ 0 (by omega)
    rw [← isqrtN_eq z]
    exact dLv_none_of_noleaf hE hsz (by omega) (by omega) hmaxBP hlh (hnl _ hk)

end Pc.Hard

namespace Pc.Top
open Nat Finset Pc.Hard
open scoped Nat.Prime

/-- `get_k(x) = π(x^(1/4))` below `20^4` (`PhiTiny::pi[]` has 20 entries); in particular for `x < 2401`, where it is `< 4` -/
theorem getK_eq_pi_r4 {x : ℕ} (hx : x < 160000) : getK x = π (irootN 4 x) := by
  unfold getK
  rw [getC_eq]
  apply SimpleAlgs.getC_eq_pi_of_lt
  by_contra h
  push Not at h
  have h1 := (irootN_spec 4 x (by norm_num)).1
  have : 20 ^ 4 ≤ irootN 4 x ^ 4 := Nat.pow_le_pow_left h 4
  omega

/-- `k = π(x^(1/4))` ⇒ no level above `k` has a D leaf: `p_b ≥ x^(1/4) + 1` hence `p_b⁴ > x` -/
theorem noleaf_of_r4 {x k : ℕ} (hk : k = π (irootN 4 x)) :
    ∀ b, k < b → x / (Spec.p b * Spec.p b * Spec.p b) < Spec.p b := by
  intro b hb
  have hb1 : 1 ≤ b := by omega
  have h1 : irootN 4 x < Spec.p b := (Spec.lt_p_iff hb1).2 (by omega)
  have h2 := (irootN_spec 4 x (by norm_num)).2
  have hq0 := Spec.p_pos b
  rw [Nat.div_lt_iff_lt_mul (by positivity)]
  calc x < (irootN 4 x + 1) ^ 4 := h2
    _ ≤ Spec.p b ^ 4 := Nat.pow_le_pow_left h1 4
    _ = Spec.p b * (Spec.p b * Spec.p b * Spec.p b) := by ring

end Pc.Top

#print axioms Pc.Hard.dThread_eq_noleaf
#print axioms Pc.Top.noleaf_of_r4
