/-
Proofs about the integer-root models (C12): every estimate leads to the exact floor root.
-/
import PcModel.Roots
import Mathlib.Tactic.Ring
import Mathlib.Tactic.Linarith
import Mathlib.Tactic.NormNum
import Mathlib.Data.Nat.Sqrt
import Mathlib.Tactic.Push
import Mathlib.Tactic.ByContra
import Mathlib.Tactic.Cases

namespace Pc

/-! ### isqrt -/

theorem sqDown_spec (x r : ℕ) : (sqDown x r) * (sqDown x r) ≤ x ∧ (sqDown x r ≤ r) ∧
    (∀ s, s ≤ r → s * s ≤ x → s ≤ sqDown x r) := by
  induction r with
  | zero => simp [sqDown]
  | succ r ih =>
    unfold sqDown
    split
    · rename_i h
      refine ⟨ih.1, by omega, ?_⟩
      intro s hs hsx
      rcases Nat.lt_or_ge s (r+1) with h' | h'
      · exact ih.2.2 s (by omega) hsx
      · have : s = r+1 := by omega
        subst this; omega
    · rename_i h
      exact ⟨by omega, le_rfl, fun s hs _ => hs⟩

theorem sqUp_spec (x r : ℕ) (hr : r * r ≤ x) : sqUp x r = Nat.sqrt x := by
  induction' hk : x - r * r using Nat.strong_induction_on with k ih generalizing r
  unfold sqUp
  split
  · rename_i h
    have e := sq_succ r
    exact ih _ (by omega) (r+1) (by omega) rfl
  · rename_i h
    have h2 : ¬ (2 * r < x - r * r) := fun h' => h ⟨hr, h'⟩
    have e := sq_succ r
    rw [Nat.eq_sqrt]
    constructor
    · exact hr
    · omega

/-- both correction loops reach `⌊√x⌋` from EVERY initial estimate -/
theorem isqrtLoop_eq_sqrt (x r0 : ℕ) : isqrtLoop x r0 = Nat.sqrt x := by
  unfold isqrtLoop
  split
  · rename_i h
    obtain ⟨h1, h2, h3⟩ := sqDown_spec x r0
    rw [Nat.eq_sqrt]
    refine ⟨h1, ?_⟩
    by_contra hc
    push Not at hc
    have hle : sqDown x r0 + 1 ≤ r0 := by
      by_contra h'
      have : sqDown x r0 = r0 := by omega
      rw [this] at h1; omega
    have := h3 (sqDown x r0 + 1) hle hc
    omega
  · rename_i h
    exact sqUp_spec x r0 (by omega)

theorem isqrtL2_eq_sqrt (t : ITy) (x s : ℕ) : isqrtL2 t x s = Nat.sqrt x :=
  isqrtLoop_eq_sqrt x _

/-- invariant of the binary search of `ct_sqrt` -/
theorem sqrtHelper_spec (x : ℕ) : ∀ fuel lo hi, lo ≤ hi → hi - lo < fuel →
    lo * lo ≤ x → x < (hi + 1) * (hi + 1) → sqrtHelper x fuel lo hi = Nat.sqrt x := by
  intro fuel
  induction fuel with
  | zero => intro lo hi _ h; omega
  | succ fuel ih =>
    intro lo hi hle hf hlo hhi
    unfold sqrtHelper
    by_cases heq : lo = hi
    · subst heq
      simp only [beq_self_eq_true, if_true]
      exact (Nat.eq_sqrt.2 ⟨hlo, hhi⟩)
    · have hne : (lo == hi) = false := by simpa using heq
      simp only [hne, Bool.false_eq_true, if_false]
      have hmid_pos : 0 < (lo + hi + 1) / 2 := by omega
      split
      · rename_i h
        -- x / mid < mid  →  x < mid * mid
        have hx : x < ((lo + hi + 1) / 2) * ((lo + hi + 1) / 2) := by
          exact (Nat.div_lt_iff_lt_mul hmid_pos).1 h
        apply ih lo ((lo + hi + 1) / 2 - 1) (by omega) (by omega) hlo
        have : (lo + hi + 1) / 2 - 1 + 1 = (lo + hi + 1) / 2 := by omega
        rw [this]; exact hx
      · rename_i h
        have hx : ((lo + hi + 1) / 2) * ((lo + hi + 1) / 2) ≤ x := by
          have := Nat.le_of_not_lt h
          exact (Nat.le_div_iff_mul_le hmid_pos).1 this
        exact ih ((lo + hi + 1) / 2) hi (by omega) (by omega) hx hhi

theorem ctSqrt_eq_sqrt (x : ℕ) : ctSqrt x = Nat.sqrt x := by
  unfold ctSqrt
  apply sqrtHelper_spec x _ 0 (x / 2 + 1) (by omega) (by omega) (by omega)
  have : x / 2 + 1 + 1 = x / 2 + 2 := by omega
  rw [this]
  have h2 : x < 2 * (x / 2 + 2) := by omega
  have h3 : 2 * (x / 2 + 2) ≤ (x / 2 + 2) * (x / 2 + 2) := Nat.mul_le_mul_right _ (by omega)
  omega

theorem sqrtMax_eq (t : ITy) : sqrtMax t = Nat.sqrt t.maxVal := ctSqrt_eq_sqrt _

/-! ### iroot -/

theorem ipowT_eq : ∀ e b, ipowT e b = b ^ e := by
  intro e
  induction e using Nat.strong_induction_on with
  | _ e ih =>
    intro b
    cases e with
    | zero => simp [ipowT]
    | succ e =>
      unfold ipowT
      split
      · rw [ih e (by omega), pow_succ]
      · rename_i h
        have hev : (e + 1) % 2 = 0 := by
          have : ¬ ((e + 1) % 2 = 1) := by simpa using h
          omega
        rw [ih ((e + 1) / 2) (by omega)]
        rw [← pow_add]
        congr 1; omega

theorem pow_pred_le_div_iff (n x r : ℕ) (hn : 1 ≤ n) (hr : 0 < r) :
    r ^ (n - 1) ≤ x / r ↔ r ^ n ≤ x := by
  rw [Nat.le_div_iff_mul_le hr]
  have : r ^ (n - 1) * r = r ^ n := by
    rw [← pow_succ]; congr 1; omega
  rw [this]

theorem rootDown_spec (n x : ℕ) (hn : 1 ≤ n) : ∀ r, (rootDown n x r) ^ n ≤ x ∧ rootDown n x r ≤ r := by
  intro r
  induction r with
  | zero => simp [rootDown, Nat.zero_pow (by omega : 0 < n)]
  | succ r ih =>
    unfold rootDown
    rw [ipowT_eq]
    split
    · rename_i h
      exact ⟨(pow_pred_le_div_iff n x (r + 1) hn (by omega)).1 h, le_rfl⟩
    · exact ⟨ih.1, by omega⟩

theorem rootUp_spec (n x : ℕ) (hn : 1 ≤ n) : ∀ fuel r, x + 1 ≤ fuel + r → r ^ n ≤ x →
    (rootUp n x fuel r) ^ n ≤ x ∧ x < (rootUp n x fuel r + 1) ^ n := by
  intro fuel
  induction fuel with
  | zero =>
    intro r hf hr
    -- r ≥ x + 1 and r^n ≤ x is impossible since r ≤ r^n
    exfalso
    have : r ≤ r ^ n := Nat.le_self_pow (by omega) r
    omega
  | succ fuel ih =>
    intro r hf hr
    unfold rootUp
    rw [ipowT_eq]
    split
    · rename_i h
      have h' := (pow_pred_le_div_iff n x (r + 1) hn (by omega)).1 h
      exact ih (r + 1) (by omega) h'
    · rename_i h
      refine ⟨hr, ?_⟩
      by_contra hc
      push Not at hc
      exact h ((pow_pred_le_div_iff n x (r + 1) hn (by omega)).2 hc)

/-- both loops of `iroot<N>` reach the exact floor root from EVERY initial estimate -/
theorem irootLoop_spec (n x r0 : ℕ) (hn : 1 ≤ n) :
    (irootLoop n x r0) ^ n ≤ x ∧ x < (irootLoop n x r0 + 1) ^ n := by
  unfold irootLoop
  exact rootUp_spec n x hn (x + 1) _ (by omega) (rootDown_spec n x hn r0).1

/-- the floor root is unique, so `irootLoop` does not depend on the estimate -/
theorem floor_root_unique (n x a b : ℕ) (hn : 1 ≤ n)
    (ha : a ^ n ≤ x ∧ x < (a + 1) ^ n) (hb : b ^ n ≤ x ∧ x < (b + 1) ^ n) : a = b := by
  have hn0 : n ≠ 0 := by omega
  by_contra hne
  rcases Nat.lt_or_gt_of_ne hne with h | h
  · have : (a + 1) ^ n ≤ b ^ n := Nat.pow_le_pow_left (by omega) n
    omega
  · have : (b + 1) ^ n ≤ a ^ n := Nat.pow_le_pow_left (by omega) n
    omega

theorem irootLoop_indep (n x r0 r1 : ℕ) (hn : 1 ≤ n) : irootLoop n x r0 = irootLoop n x r1 :=
  floor_root_unique n x _ _ hn (irootLoop_spec n x r0 hn) (irootLoop_spec n x r1 hn)

end Pc
