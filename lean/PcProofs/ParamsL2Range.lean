/-
C12 (magnitude half), part 2: magnitude lemmas under the float envelopes of `PcModel/ParamsEnv.lean`.

Notation in comments: c = ⌊x^(1/3)⌋, s = ⌊√x⌋, r6 = ⌊x^(1/6)⌋, e = 1 + 2^-40.
-/
import PcProofs.ParamsL2
import Mathlib.Algebra.Order.Field.Basic
import Mathlib.Tactic.FieldSimp
import Mathlib.Tactic.Positivity
import Mathlib.Data.Rat.Cast.Order

namespace Pc

/-! ### integer root facts -/

section roots
variable (x : ℕ)

theorem c_cube_le : (irootN 3 x) ^ 3 ≤ x := (irootN_spec 3 x (by norm_num)).1
theorem lt_c_succ_cube : x < (irootN 3 x + 1) ^ 3 := (irootN_spec 3 x (by norm_num)).2
theorem r6_pow_le : (irootN 6 x) ^ 6 ≤ x := (irootN_spec 6 x (by norm_num)).1
theorem r4_pow_le : (irootN 4 x) ^ 4 ≤ x := (irootN_spec 4 x (by norm_num)).1
theorem lt_r4_succ_pow : x < (irootN 4 x + 1) ^ 4 := (irootN_spec 4 x (by norm_num)).2
theorem s_sq_le : isqrtN x * isqrtN x ≤ x := by rw [isqrtN_eq]; exact Nat.sqrt_le x
theorem lt_s_succ_sq : x < (isqrtN x + 1) * (isqrtN x + 1) := by rw [isqrtN_eq]; exact Nat.lt_succ_sqrt x

theorem one_le_iroot (n : ℕ) (hn : 1 ≤ n) (hx : 1 ≤ x) : 1 ≤ irootN n x := by
  by_contra h
  have h0 : irootN n x = 0 := by omega
  have := (irootN_spec n x hn).2
  rw [h0] at this
  simp at this
  omega

theorem one_le_isqrt (hx : 1 ≤ x) : 1 ≤ isqrtN x := by
  rw [isqrtN_eq, Nat.le_sqrt]; omega

/-- ⌊x^(1/3)⌋·⌊x^(1/6)⌋ ≤ ⌊√x⌋ -/
theorem c_mul_r6_le_s : irootN 3 x * irootN 6 x ≤ isqrtN x := by
  rw [isqrtN_eq, Nat.le_sqrt]
  have h1 := c_cube_le x
  have h2 := r6_pow_le x
  set c := irootN 3 x
  set r := irootN 6 x
  -- ((c r)^2)^3 = (c^3)^2 * r^6 ≤ x^3
  by_contra hlt
  push Not at hlt
  have h3 : x ^ 3 < ((c * r) * (c * r)) ^ 3 := Nat.pow_lt_pow_left hlt (by norm_num)
  have h4 : ((c * r) * (c * r)) ^ 3 = (c ^ 3) * (c ^ 3) * r ^ 6 := by ring
  have h5 : (c ^ 3) * (c ^ 3) * r ^ 6 ≤ x * x * x := Nat.mul_le_mul (Nat.mul_le_mul h1 h1) h2
  have h6 : x * x * x = x ^ 3 := by ring
  omega

/-- for x ≥ 64 the clamps have room: ⌊x^(1/3)⌋ + 2 ≤ ⌊√x⌋ (restated from `root_gap`) -/
theorem root_gap' (hx : 64 ≤ x) : irootN 3 x + 2 ≤ isqrtN x := root_gap x hx

end roots

/-! ### magnitudes of the roots below a power of two -/

theorem isqrt_lt_of_lt {x B : ℕ} (h : x < B * B) : isqrtN x < B := by
  rw [isqrtN_eq]; exact Nat.sqrt_lt.2 h

theorem iroot_lt_of_lt {n x B : ℕ} (hn : 1 ≤ n) (h : x < B ^ n) : irootN n x < B :=
  root_lt_of_lt_pow (irootN_spec n x hn).1 h

/-! ### the envelope constants -/

theorem relEps_eq : relEps = 1 / 2 ^ 40 := rfl
theorem relEps_pos : 0 < relEps := by rw [relEps_eq]; positivity
theorem one_sub_relEps_pos : 0 < 1 - relEps := by rw [relEps_eq]; norm_num
theorem one_add_relEps_le_two : 1 + relEps ≤ 2 := by rw [relEps_eq]; norm_num
theorem one_add_relEps_pos : 0 < 1 + relEps := by rw [relEps_eq]; positivity

/-! ### Claim A: the range check bounds x -/

/-- `x² ≤ K·R`, `R² ≤ x` ⇒ `x³ ≤ K²` (no numerals: the constants of the application are too large for `ring`) -/
theorem cube_le_of_sq_le {x R K : ℚ} (hx : 0 < x) (hR : 0 ≤ R) (hK : 0 ≤ K) (h4 : x ^ 2 ≤ K * R) (hR2 : R ^ 2 ≤ x) :
    x ^ 3 ≤ K ^ 2 := by
  have h5 : (x ^ 2) ^ 2 ≤ (K * R) ^ 2 := pow_le_pow_left₀ (by positivity) h4 2
  have h6 : (K * R) ^ 2 ≤ K ^ 2 * x := by
    calc (K * R) ^ 2 = K ^ 2 * R ^ 2 := by ring
      _ ≤ K ^ 2 * x := mul_le_mul_of_nonneg_left hR2 (by positivity)
  have : x ^ 3 * x ≤ K ^ 2 * x := by
    calc x ^ 3 * x = (x ^ 2) ^ 2 := by ring
      _ ≤ K ^ 2 * x := le_trans h5 h6
  exact le_of_mul_le_mul_right this hx

/-- `x ≤ maxX`, `maxX` within the envelope of `pow(2^62·a, 3/2)` and `a ≤ ⌊x^(1/6)⌋` force `x < 2^125`
    (exactly: x^(3/4) ≤ 2^93·(1+ε)^(1/2)) -/
theorem x_lt_of_range_check {x : ℕ} {a : ℚ} {m : ℤ} (ha0 : 0 ≤ a) (ha : a ≤ (irootN 6 x : ℚ))
    (hm : MaxXNear a m) (hxm : (x : ℤ) ≤ m) : x < 2 ^ 125 := by
  obtain ⟨_, hm2, _⟩ := hm
  by_contra hge
  push Not at hge
  set r := irootN 6 x with hr
  have hr6 : r ^ 6 ≤ x := r6_pow_le x
  have hxq : (2 : ℚ) ^ 125 ≤ (x : ℚ) := by exact_mod_cast hge
  have hxm' : (x : ℚ) ≤ (m : ℚ) := by exact_mod_cast hxm
  have hx0 : (0 : ℚ) ≤ x := by positivity
  -- x² ≤ m² ≤ (2^62 a)³ (1+ε) ≤ 2^187 r³
  have h1 : (x : ℚ) ^ 2 ≤ (m : ℚ) ^ 2 := pow_le_pow_left₀ hx0 hxm' 2
  have h2 : (2 ^ 62 * a) ^ 3 ≤ (2 ^ 62 * (r : ℚ)) ^ 3 :=
    pow_le_pow_left₀ (by positivity) (mul_le_mul_of_nonneg_left ha (by positivity)) 3
  have h3 : (2 ^ 62 * a) ^ 3 * (1 + relEps) ≤ (2 ^ 62 * (r : ℚ)) ^ 3 * 2 :=
    mul_le_mul h2 one_add_relEps_le_two one_add_relEps_pos.le (by positivity)
  have h4 : (x : ℚ) ^ 2 ≤ 2 ^ 187 * (r : ℚ) ^ 3 := by
    calc (x : ℚ) ^ 2 ≤ (m : ℚ) ^ 2 := h1
      _ ≤ (2 ^ 62 * a) ^ 3 * (1 + relEps) := hm2
      _ ≤ (2 ^ 62 * (r : ℚ)) ^ 3 * 2 := h3
      _ = 2 ^ 187 * (r : ℚ) ^ 3 := by rw [mul_pow, ← pow_mul, mul_right_comm, ← pow_succ]
  have hr6q : ((r : ℚ) ^ 3) ^ 2 ≤ (x : ℚ) := by
    have : ((r ^ 6 : ℕ) : ℚ) ≤ (x : ℚ) := by exact_mod_cast hr6
    calc ((r : ℚ) ^ 3) ^ 2 = ((r ^ 6 : ℕ) : ℚ) := by push_cast; ring
      _ ≤ x := this
  have hxpos : (0 : ℚ) < x := lt_of_lt_of_le (by positivity) hxq
  have h7 : (x : ℚ) ^ 3 ≤ 2 ^ 374 := by
    have := cube_le_of_sq_le hxpos (by positivity : (0 : ℚ) ≤ (r : ℚ) ^ 3) (by positivity : (0 : ℚ) ≤ 2 ^ 187) h4 hr6q
    rwa [← pow_mul] at this
  have h8 : ((2 : ℚ) ^ 125) ^ 3 ≤ (x : ℚ) ^ 3 := pow_le_pow_left₀ (by positivity) hxq 3
  have h9 : ((2 : ℚ) ^ 125) ^ 3 = 2 ^ 375 := by rw [← pow_mul]
  rw [h9] at h8
  have : (2 : ℚ) ^ 375 ≤ 2 ^ 374 := le_trans h8 h7
  rw [pow_le_pow_iff_right₀ (by norm_num : (1 : ℚ) < 2)] at this
  omega

/-- the value that `get_max_x` casts to `int128_t` fits (for every x of that type) -/
theorem maxX_lt_of_env {x : ℕ} {a : ℚ} {m : ℤ} (hx : x < 2 ^ 127) (ha0 : 0 ≤ a) (ha : a ≤ (irootN 6 x : ℚ))
    (hm : MaxXNear a m) : m < 2 ^ 127 := by
  obtain ⟨hm0, hm2, _⟩ := hm
  by_contra hge
  push Not at hge
  have hr : irootN 6 x < 2 ^ 22 := iroot_lt_of_lt (by norm_num) (lt_trans hx (by norm_num))
  have hrq : (irootN 6 x : ℚ) ≤ 2 ^ 22 := by exact_mod_cast hr.le
  have hmq : (2 : ℚ) ^ 127 ≤ (m : ℚ) := by exact_mod_cast hge
  have h1 : ((2 : ℚ) ^ 127) ^ 2 ≤ (m : ℚ) ^ 2 := pow_le_pow_left₀ (by positivity) hmq 2
  have h2 : (2 ^ 62 * a) ^ 3 ≤ (2 ^ 62 * (2 : ℚ) ^ 22) ^ 3 :=
    pow_le_pow_left₀ (by positivity) (mul_le_mul_of_nonneg_left (le_trans ha hrq) (by positivity)) 3
  have h3 : (2 ^ 62 * a) ^ 3 * (1 + relEps) ≤ (2 ^ 62 * (2 : ℚ) ^ 22) ^ 3 * 2 :=
    mul_le_mul h2 one_add_relEps_le_two one_add_relEps_pos.le (by positivity)
  have : ((2 : ℚ) ^ 127) ^ 2 ≤ (2 ^ 62 * (2 : ℚ) ^ 22) ^ 3 * 2 := le_trans h1 (le_trans hm2 h3)
  have e1 : ((2 : ℚ) ^ 127) ^ 2 = 2 ^ 254 := by rw [← pow_mul]
  have e2 : (2 ^ 62 * (2 : ℚ) ^ 22) ^ 3 * 2 = 2 ^ 253 := by
    rw [← pow_add, ← pow_mul, ← pow_succ]
  rw [e1, e2, pow_le_pow_iff_right₀ (by norm_num : (1 : ℚ) < 2)] at this
  omega

/-! ### Claim B: x / y fits int64 -/

/-- core of Claim B without numerals: `2·A·c·p < x·q`, `x² ≤ A³·e`, `x < c³·t` ⇒ `8·p³ < t·q³·e` -/
theorem claimB_core {x A c p q e t : ℚ} (hx : 0 < x) (hA : 0 ≤ A) (hc : 0 < c) (hp : 0 < p)
    (h1 : 2 * A * c * p < x * q) (h2 : x ^ 2 ≤ A ^ 3 * e) (h3 : x < c ^ 3 * t) (he : 0 < e) (hq : 0 < q) :
    8 * p ^ 3 < t * q ^ 3 * e := by
  have h4 : (2 * A * c * p) ^ 3 < (x * q) ^ 3 := pow_lt_pow_left₀ h1 (by positivity) (by norm_num)
  have h5 : x ^ 2 * (8 * c ^ 3 * p ^ 3) ≤ (2 * A * c * p) ^ 3 * e := by
    calc x ^ 2 * (8 * c ^ 3 * p ^ 3) ≤ A ^ 3 * e * (8 * c ^ 3 * p ^ 3) :=
          mul_le_mul_of_nonneg_right h2 (by positivity)
      _ = (2 * A * c * p) ^ 3 * e := by ring
  have h6 : x ^ 2 * (8 * c ^ 3 * p ^ 3) < x ^ 2 * (x * q ^ 3 * e) := by
    calc x ^ 2 * (8 * c ^ 3 * p ^ 3) ≤ (2 * A * c * p) ^ 3 * e := h5
      _ < (x * q) ^ 3 * e := mul_lt_mul_of_pos_right h4 he
      _ = x ^ 2 * (x * q ^ 3 * e) := by ring
  have h7 : 8 * c ^ 3 * p ^ 3 < x * q ^ 3 * e := lt_of_mul_lt_mul_left h6 (by positivity)
  have h8 : x * q ^ 3 * e < c ^ 3 * t * q ^ 3 * e := by
    have : 0 < q ^ 3 * e := by positivity
    nlinarith
  have h9 : c ^ 3 * (8 * p ^ 3) < c ^ 3 * (t * q ^ 3 * e) := by
    calc c ^ 3 * (8 * p ^ 3) = 8 * c ^ 3 * p ^ 3 := by ring
      _ < x * q ^ 3 * e := h7
      _ < c ^ 3 * t * q ^ 3 * e := h8
      _ = c ^ 3 * (t * q ^ 3 * e) := by ring
  exact lt_of_mul_lt_mul_left h9 (by positivity)

/-- the numeric instance: with p = 1 − 2^-40, q = 1 + 2^-30, t = (1 + 2^-31)³, e = 1 + 2^-40 the conclusion is false -/
theorem claimB_numeric :
    ¬ (8 * (1 - relEps) ^ 3 < (1 + 1 / 2 ^ 31) ^ 3 * (1 + 1 / 2 ^ 30 : ℚ) ^ 3 * (1 + relEps)) := by
  rw [relEps_eq]; norm_num

/-- Claim B for large x: if `y + 1` exceeds the (slightly shrunk) exact product `c·a` and `x ≤ maxX`, then `x < 2^63·y` -/
theorem lt_two63_mul_of_env {x : ℕ} {a : ℚ} {m y : ℤ} (hx93 : 2 ^ 93 ≤ x) (hm : MaxXNear a m) (hxm : (x : ℤ) ≤ m)
    (ha0 : 0 ≤ a) (hy : (irootN 3 x : ℚ) * a * (1 - relEps) < (y : ℚ) + 1) : (x : ℤ) < 2 ^ 63 * y := by
  by_contra hge
  push Not at hge
  obtain ⟨_, hm2, _⟩ := hm
  set c := irootN 3 x with hc
  have hc3 : x < (c + 1) ^ 3 := lt_c_succ_cube x
  -- c ≥ 2^31
  have hc31 : 2 ^ 31 ≤ c := by
    by_contra h
    push Not at h
    have : (c + 1) ^ 3 ≤ (2 ^ 31) ^ 3 := Nat.pow_le_pow_left h 3
    have e : ((2 : ℕ) ^ 31) ^ 3 = 2 ^ 93 := by rw [← pow_mul]
    omega
  have hxq : (2 : ℚ) ^ 93 ≤ (x : ℚ) := by exact_mod_cast hx93
  have hxpos : (0 : ℚ) < x := lt_of_lt_of_le (by positivity) hxq
  have hcq : (2 : ℚ) ^ 31 ≤ (c : ℚ) := by exact_mod_cast hc31
  have hcpos : (0 : ℚ) < c := lt_of_lt_of_le (by positivity) hcq
  -- (1) 2·A·c·(1−ε) < x·(1+2^-30)
  have hgeq : (2 : ℚ) ^ 63 * (y : ℚ) ≤ (x : ℚ) := by exact_mod_cast hge
  have h63 : (2 : ℚ) ^ 63 ≤ (x : ℚ) * (1 / 2 ^ 30) := by
    have : (2 : ℚ) ^ 63 = 2 ^ 93 * (1 / 2 ^ 30) := by norm_num
    rw [this]
    exact mul_le_mul_of_nonneg_right hxq (by positivity)
  have h1 : 2 * (2 ^ 62 * a) * (c : ℚ) * (1 - relEps) < (x : ℚ) * (1 + 1 / 2 ^ 30) := by
    have : 2 * (2 ^ 62 * a) * (c : ℚ) * (1 - relEps) = 2 ^ 63 * ((c : ℚ) * a * (1 - relEps)) := by ring
    rw [this]
    calc (2 : ℚ) ^ 63 * ((c : ℚ) * a * (1 - relEps)) < 2 ^ 63 * ((y : ℚ) + 1) :=
          mul_lt_mul_of_pos_left hy (by positivity)
      _ = 2 ^ 63 * (y : ℚ) + 2 ^ 63 := by ring
      _ ≤ (x : ℚ) + (x : ℚ) * (1 / 2 ^ 30) := add_le_add hgeq h63
      _ = (x : ℚ) * (1 + 1 / 2 ^ 30) := by ring
  -- (2) x² ≤ A³ e
  have hxm' : (x : ℚ) ≤ (m : ℚ) := by exact_mod_cast hxm
  have h2 : (x : ℚ) ^ 2 ≤ (2 ^ 62 * a) ^ 3 * (1 + relEps) :=
    le_trans (pow_le_pow_left₀ hxpos.le hxm' 2) hm2
  -- (3) x < c³ (1 + 2^-31)³
  have h3 : (x : ℚ) < (c : ℚ) ^ 3 * (1 + 1 / 2 ^ 31) ^ 3 := by
    have h3a : (x : ℚ) < ((c : ℚ) + 1) ^ 3 := by exact_mod_cast hc3
    have h3b : (c : ℚ) + 1 ≤ (c : ℚ) * (1 + 1 / 2 ^ 31) := by
      have : (1 : ℚ) ≤ (c : ℚ) * (1 / 2 ^ 31) := by
        calc (1 : ℚ) = 2 ^ 31 * (1 / 2 ^ 31) := by norm_num
          _ ≤ (c : ℚ) * (1 / 2 ^ 31) := mul_le_mul_of_nonneg_right hcq (by positivity)
      linarith
    calc (x : ℚ) < ((c : ℚ) + 1) ^ 3 := h3a
      _ ≤ ((c : ℚ) * (1 + 1 / 2 ^ 31)) ^ 3 := pow_le_pow_left₀ (by positivity) h3b 3
      _ = (c : ℚ) ^ 3 * (1 + 1 / 2 ^ 31) ^ 3 := by ring
  exact claimB_numeric (claimB_core hxpos (by positivity) hcpos one_sub_relEps_pos h1 h2 h3 one_add_relEps_pos (by positivity))

/-- Claim B for the middle range: `2^21 ≤ c < 2^31` and `y ≥ c` ⇒ `x < 2^63·y` -/
theorem lt_two63_mul_of_mid {x : ℕ} (h63 : 2 ^ 63 ≤ x) (h93 : x < 2 ^ 93) {y : ℕ} (hy : irootN 3 x ≤ y) :
    x < 2 ^ 63 * y := by
  set c := irootN 3 x with hc
  have hc3 : x < (c + 1) ^ 3 := lt_c_succ_cube x
  have hcle : c ^ 3 ≤ x := c_cube_le x
  have hc31 : c < 2 ^ 31 := by
    apply root_lt_of_lt_pow hcle
    calc x < 2 ^ 93 := h93
      _ = (2 ^ 31) ^ 3 := by rw [← pow_mul]
  have hc1 : 1 ≤ c := by
    by_contra h
    have : c = 0 := by omega
    rw [this] at hc3
    norm_num at hc3
    omega
  have h1 : (c + 1) * (c + 1) ≤ 2 ^ 62 := by
    have : c + 1 ≤ 2 ^ 31 := hc31
    calc (c + 1) * (c + 1) ≤ 2 ^ 31 * 2 ^ 31 := Nat.mul_le_mul this this
      _ = 2 ^ 62 := by norm_num
  calc x < (c + 1) ^ 3 := hc3
    _ = (c + 1) * ((c + 1) * (c + 1)) := by ring
    _ ≤ (2 * c) * 2 ^ 62 := Nat.mul_le_mul (by omega) h1
    _ = 2 ^ 63 * c := by ring
    _ ≤ 2 ^ 63 * y := Nat.mul_le_mul_left _ hy

/-! ### the two casts `(int64_t)(x13 * alpha_y)` and `(int64_t)(y * alpha_z)` -/

theorem int_le_of_rat_lt {t N : ℤ} {B : ℚ} (h : (t : ℚ) ≤ B) (hB : B < (N : ℚ) + 1) : t ≤ N := by
  have : (t : ℚ) < ((N + 1 : ℤ) : ℚ) := by push_cast; exact lt_of_le_of_lt h hB
  have : t < N + 1 := by exact_mod_cast this
  omega

theorem int_nonneg_of_rat {t : ℤ} {p : ℚ} (hp : 0 ≤ p) (h : p < (t : ℚ) + 1) : 0 ≤ t := by
  have : ((-1 : ℤ) : ℚ) < (t : ℚ) := by push_cast; linarith
  have : (-1 : ℤ) < t := by exact_mod_cast this
  omega

/-- `v = trunc(fl(c·ay))` with `1 ≤ ay ≤ r6`: `0 ≤ v ≤ s·(1+ε)` -/
theorem v_bounds {x : ℕ} {ay : ℚ} {v : ℤ} (hay1 : 1 ≤ ay) (hay : ay ≤ (irootN 6 x : ℚ))
    (hv : TruncNear ((irootN 3 x : ℚ) * ay) v) : 0 ≤ v ∧ (v : ℚ) ≤ (isqrtN x : ℚ) * (1 + relEps) := by
  obtain ⟨hv1, hv2⟩ := hv
  have hc0 : (0 : ℚ) ≤ (irootN 3 x : ℚ) := by positivity
  refine ⟨int_nonneg_of_rat (mul_nonneg (mul_nonneg hc0 (by linarith)) one_sub_relEps_pos.le) hv1, ?_⟩
  have h1 : (irootN 3 x : ℚ) * ay ≤ (isqrtN x : ℚ) := by
    calc (irootN 3 x : ℚ) * ay ≤ (irootN 3 x : ℚ) * (irootN 6 x : ℚ) := mul_le_mul_of_nonneg_left hay hc0
      _ = ((irootN 3 x * irootN 6 x : ℕ) : ℚ) := by push_cast; ring
      _ ≤ (isqrtN x : ℚ) := by exact_mod_cast c_mul_r6_le_s x
  exact le_trans hv2 (mul_le_mul_of_nonneg_right h1 one_add_relEps_pos.le)

/-- numeric closing step: below `3·2^61` (+2^21) and three rounding factors, still below `2^63 − 1` -/
theorem below_i64 {s : ℕ} (hs : s < 3 * 2 ^ 61) {t : ℤ} (ht : (t : ℚ) ≤ ((s : ℚ) + 2 ^ 21) * (1 + relEps) ^ 3) : t ≤ i64Max := by
  apply int_le_of_rat_lt ht
  have hsq : (s : ℚ) ≤ 3 * 2 ^ 61 := by exact_mod_cast hs.le
  have : ((s : ℚ) + 2 ^ 21) * (1 + relEps) ^ 3 ≤ (3 * 2 ^ 61 + 2 ^ 21) * (1 + relEps) ^ 3 :=
    mul_le_mul_of_nonneg_right (by linarith) (by have := one_add_relEps_pos; positivity)
  refine lt_of_le_of_lt this ?_
  rw [relEps_eq]; unfold i64Max; norm_num

theorem one_le_e : (1 : ℚ) ≤ 1 + relEps := by have := relEps_pos; linarith

theorem le_mul_e {a : ℚ} (ha : 0 ≤ a) : a ≤ a * (1 + relEps) := by
  have := mul_le_mul_of_nonneg_left one_le_e ha; linarith

/-- the clamped `y` is at most `max v (c+1)` and at most `max (s−1) 1` -/
theorem gY_le (x : ℕ) (v : ℤ) : gY x v ≤ max v ((irootN 3 x : ℤ) + 1) ∧ gY x v ≤ max ((isqrtN x : ℤ) - 1) 1 ∧ 1 ≤ gY x v := by
  unfold gY clampY
  have : (0 : ℤ) ≤ (irootN 3 x : ℤ) := by positivity
  omega

/-- `w = trunc(fl(y·az))` for the clamped `y`, `az = 1` or `ay·az ≤ r6·(1+ε)`: `0 ≤ w ≤ (s + 2^21)(1+ε)³` -/
theorem w_bounds {x : ℕ} {ay az : ℚ} {v w : ℤ} (hx1 : 1 ≤ x) (hr6 : irootN 6 x ≤ 2 ^ 21)
    (hay1 : 1 ≤ ay) (hay : ay ≤ (irootN 6 x : ℚ)) (haz1 : 1 ≤ az)
    (haz : az = 1 ∨ ay * az ≤ (irootN 6 x : ℚ) * (1 + relEps))
    (hv : TruncNear ((irootN 3 x : ℚ) * ay) v) (hw : TruncNear ((gY x v : ℚ) * az) w) :
    0 ≤ w ∧ (w : ℚ) ≤ ((isqrtN x : ℚ) + 2 ^ 21) * (1 + relEps) ^ 3 := by
  obtain ⟨hw1, hw2⟩ := hw
  obtain ⟨hy1, hy2, hy3⟩ := gY_le x v
  set y := gY x v with hy
  have hyq : (1 : ℚ) ≤ (y : ℚ) := by exact_mod_cast hy3
  have hs1 : 1 ≤ isqrtN x := one_le_isqrt x hx1
  have he := one_add_relEps_pos
  have he1 := one_le_e
  have hs0 : (0 : ℚ) ≤ (isqrtN x : ℚ) := by positivity
  refine ⟨int_nonneg_of_rat (mul_nonneg (mul_nonneg (by linarith) (by linarith)) one_sub_relEps_pos.le) hw1, ?_⟩
  -- y·az ≤ (s + 2^21)·e²
  have key : (y : ℚ) * az ≤ ((isqrtN x : ℚ) + 2 ^ 21) * (1 + relEps) ^ 2 := by
    have hS : (0 : ℚ) ≤ (isqrtN x : ℚ) + 2 ^ 21 := by positivity
    rcases haz with h1 | h2
    · -- az = 1: y ≤ s
      have hys : (y : ℚ) ≤ (isqrtN x : ℚ) := by
        have : y ≤ (isqrtN x : ℤ) := by omega
        exact_mod_cast this
      rw [h1, mul_one]
      calc (y : ℚ) ≤ (isqrtN x : ℚ) := hys
        _ ≤ (isqrtN x : ℚ) + 2 ^ 21 := by linarith [show (0 : ℚ) ≤ 2 ^ 21 by positivity]
        _ ≤ ((isqrtN x : ℚ) + 2 ^ 21) * (1 + relEps) ^ 2 := by
          have : (1 : ℚ) ≤ (1 + relEps) ^ 2 := one_le_pow₀ he1
          have := mul_le_mul_of_nonneg_left this hS
          linarith
    · obtain ⟨_, hv2⟩ := hv
      have haz0 : (0 : ℚ) ≤ az := by linarith
      have hc0 : (0 : ℚ) ≤ (irootN 3 x : ℚ) := by positivity
      have hcr : (irootN 3 x : ℚ) * (irootN 6 x : ℚ) ≤ (isqrtN x : ℚ) := by
        have : ((irootN 3 x * irootN 6 x : ℕ) : ℚ) ≤ (isqrtN x : ℚ) := by exact_mod_cast c_mul_r6_le_s x
        push_cast at this; exact this
      have hr6q : (irootN 6 x : ℚ) ≤ 2 ^ 21 := by exact_mod_cast hr6
      rcases le_max_iff.1 hy1 with hyv | hyc
      · -- y ≤ v ≤ c·ay·e
        have hyvq : (y : ℚ) ≤ (v : ℚ) := by exact_mod_cast hyv
        calc (y : ℚ) * az ≤ ((irootN 3 x : ℚ) * ay * (1 + relEps)) * az :=
              mul_le_mul_of_nonneg_right (le_trans hyvq hv2) haz0
          _ = (irootN 3 x : ℚ) * (ay * az) * (1 + relEps) := by ring
          _ ≤ (irootN 3 x : ℚ) * ((irootN 6 x : ℚ) * (1 + relEps)) * (1 + relEps) :=
              mul_le_mul_of_nonneg_right (mul_le_mul_of_nonneg_left h2 hc0) he.le
          _ = ((irootN 3 x : ℚ) * (irootN 6 x : ℚ)) * (1 + relEps) ^ 2 := by ring
          _ ≤ ((isqrtN x : ℚ) + 2 ^ 21) * (1 + relEps) ^ 2 :=
              mul_le_mul_of_nonneg_right (by linarith [show (0 : ℚ) ≤ 2 ^ 21 by positivity]) (by positivity)
      · -- y ≤ c + 1
        have hycq : (y : ℚ) ≤ (irootN 3 x : ℚ) + 1 := by exact_mod_cast hyc
        have h3 : az ≤ ay * az := by
          have := mul_le_mul_of_nonneg_right hay1 haz0
          linarith
        have hc1 : (0 : ℚ) ≤ (irootN 3 x : ℚ) + 1 := by positivity
        calc (y : ℚ) * az ≤ ((irootN 3 x : ℚ) + 1) * (ay * az) := mul_le_mul hycq h3 haz0 hc1
          _ ≤ ((irootN 3 x : ℚ) + 1) * ((irootN 6 x : ℚ) * (1 + relEps)) := mul_le_mul_of_nonneg_left h2 hc1
          _ = ((irootN 3 x : ℚ) * (irootN 6 x : ℚ) + (irootN 6 x : ℚ)) * (1 + relEps) := by ring
          _ ≤ ((isqrtN x : ℚ) + 2 ^ 21) * (1 + relEps) := mul_le_mul_of_nonneg_right (by linarith) he.le
          _ ≤ ((isqrtN x : ℚ) + 2 ^ 21) * (1 + relEps) ^ 2 := by
            have : (1 + relEps) ≤ (1 + relEps) ^ 2 := by
              have := mul_le_mul_of_nonneg_left he1 he.le
              nlinarith
            exact mul_le_mul_of_nonneg_left this hS
  calc (w : ℚ) ≤ (y : ℚ) * az * (1 + relEps) := hw2
    _ ≤ ((isqrtN x : ℚ) + 2 ^ 21) * (1 + relEps) ^ 2 * (1 + relEps) := mul_le_mul_of_nonneg_right key he.le
    _ = ((isqrtN x : ℚ) + 2 ^ 21) * (1 + relEps) ^ 3 := by ring

end Pc
