/-
C17: the incremental `count(stop)` (counter array + `prev_stop_`) is correct for every non-decreasing
query sequence between resets.
-/
import PcProofs.Sieve.CountSpec

namespace Pc.Sieve
open Pc.WheelSpec

/-- number of set bits whose number is `< x` -/
def bitsLt (s : Bytes) (x : ℕ) : ℕ := cnt (fun p => bitAt s p && decide (offsetOfBit p < x)) 0 (8 * s.size)

theorem bitsLt_le (s : Bytes) (x : ℕ) : bitsLt s x ≤ 8 * s.size := cnt_le _ _ _

theorem bitsIn_le (s : Bytes) (a b : ℕ) : bitsIn s a b ≤ 8 * s.size := cnt_le _ _ _

theorem bitsLt_one (s : Bytes) : bitsLt s 1 = 0 := by
  unfold bitsLt
  apply cnt_zero
  intro p _ _
  have := offsetOfBit_pos p
  have : ¬ offsetOfBit p < 1 := by omega
  simp [this]

theorem bitsLt_split (s : Bytes) (a b : ℕ) (h : a ≤ b + 1) : bitsLt s (b + 1) = bitsLt s a + bitsIn s a b := by
  unfold bitsLt bitsIn cnt
  rw [← sumFrom_add_fun]
  apply sumFrom_congr_range
  intro p _ _
  show (bitAt s p && decide (offsetOfBit p < b + 1)).toNat =
    (bitAt s p && decide (offsetOfBit p < a)).toNat + (inRange s a b p).toNat
  unfold inRange
  by_cases hbit : bitAt s p = true
  · by_cases h1 : offsetOfBit p < a
    · have h2 : offsetOfBit p < b + 1 := by omega
      have h3 : ¬ a ≤ offsetOfBit p := by omega
      simp [hbit, h1, h2, h3]
    · by_cases h2 : offsetOfBit p ≤ b
      · have h3 : offsetOfBit p < b + 1 := by omega
        have h4 : a ≤ offsetOfBit p := by omega
        simp [hbit, h1, h2, h3, h4]
      · have h3 : ¬ offsetOfBit p < b + 1 := by omega
        simp [hbit, h1, h2, h3]
  · have hbit' : bitAt s p = false := by simpa using hbit
    simp [hbit']

/-- the counter array holds the number of set bits of every block (`counter_.dist` numbers each) -/
structure CounterOk (σ : State) : Prop where
  dist_pos : 0 < σ.cDist
  block : ∀ j, j * σ.cDist < σ.segmentSize →
    bitsLt σ.sieve ((j + 1) * σ.cDist) = bitsLt σ.sieve (j * σ.cDist) + σ.counter.getD j 0

/-- state invariant of the incremental count between two resets -/
structure IncInv (σ : State) : Prop where
  count : σ.count = bitsLt σ.sieve (σ.prevStop + 1)
  cstop : σ.cStop = (σ.cI + 1) * σ.cDist
  csum : σ.cSum = bitsLt σ.sieve (σ.cI * σ.cDist)

/-- everything `count(stop)` must not touch -/
def SameData (σ τ : State) : Prop :=
  τ.sieve = σ.sieve ∧ τ.wheel = σ.wheel ∧ τ.counter = σ.counter ∧ τ.cDist = σ.cDist ∧ τ.cLog2 = σ.cLog2 ∧
  τ.start = σ.start ∧ τ.totalCount = σ.totalCount ∧ τ.inited = σ.inited

theorem SameData.refl (σ : State) : SameData σ σ := ⟨rfl, rfl, rfl, rfl, rfl, rfl, rfl, rfl⟩

theorem SameData.trans {a b c : State} (h1 : SameData a b) (h2 : SameData b c) : SameData a c := by
  obtain ⟨a1, a2, a3, a4, a5, a6, a7, a8⟩ := h1
  obtain ⟨b1, b2, b3, b4, b5, b6, b7, b8⟩ := h2
  exact ⟨b1.trans a1, b2.trans a2, b3.trans a3, b4.trans a4, b5.trans a5, b6.trans a6, b7.trans a7, b8.trans a8⟩

theorem CounterOk.of_same {σ τ : State} (h : SameData σ τ) (hc : CounterOk σ) : CounterOk τ := by
  obtain ⟨h1, _, h3, h4, _⟩ := h
  constructor
  · rw [h4]; exact hc.dist_pos
  · intro j hj
    have : τ.segmentSize = σ.segmentSize := by unfold State.segmentSize; rw [h1]
    rw [h1, h3, h4]; rw [this, h4] at hj; exact hc.block j hj

/-- the `while (counter_.stop <= stop)` loop -/
theorem counterLoop_spec (stop : ℕ) : ∀ (fuel start : ℕ) (σ : State),
    BytesOk σ.sieve → σ.sieve.size < 2 ^ 58 → CounterOk σ →
    σ.cStop = (σ.cI + 1) * σ.cDist → σ.cSum = bitsLt σ.sieve (σ.cI * σ.cDist) →
    σ.count = bitsLt σ.sieve start → start ≤ stop → stop < σ.segmentSize → stop / σ.cDist < fuel + σ.cI →
    ∀ r, counterLoop stop fuel start σ = r →
    SameData σ r.2 ∧ r.2.prevStop = σ.prevStop ∧
    r.2.cStop = (r.2.cI + 1) * r.2.cDist ∧ r.2.cSum = bitsLt r.2.sieve (r.2.cI * r.2.cDist) ∧
    r.2.count = bitsLt r.2.sieve r.1 ∧ r.1 ≤ stop ∧ stop < r.2.cStop
  | 0, start, σ, _, _, hc, h1, h2, h3, h4, _, h6, r, hr => by
    have e : counterLoop stop 0 start σ = (start, σ) := rfl
    rw [e] at hr; subst hr
    refine ⟨SameData.refl σ, rfl, h1, h2, h3, h4, ?_⟩
    show stop < σ.cStop
    have hd := hc.dist_pos
    rw [h1]
    have : stop < (stop / σ.cDist + 1) * σ.cDist := by
      rw [Nat.mul_comm]; exact Nat.lt_mul_div_succ stop hd
    have : (stop / σ.cDist + 1) * σ.cDist ≤ (σ.cI + 1) * σ.cDist := Nat.mul_le_mul_right _ (by omega)
    omega
  | fuel + 1, start, σ, hb, hsz, hc, h1, h2, h3, h4, h5, h6, r, hr => by
    by_cases hcond : σ.cStop ≤ stop
    · have hd := hc.dist_pos
      -- one iteration
      have hblk := hc.block σ.cI (by
        have : σ.cI * σ.cDist < (σ.cI + 1) * σ.cDist := by rw [Nat.add_mul]; omega
        omega)
      have hsum : (σ.cSum + σ.counter.getD σ.cI 0) % M64 = bitsLt σ.sieve ((σ.cI + 1) * σ.cDist) := by
        rw [hblk, h2]
        apply Nat.mod_eq_of_lt
        have := bitsLt_le σ.sieve ((σ.cI + 1) * σ.cDist)
        rw [hblk] at this
        simp only [M64]; omega
      set τ : State := { σ with cStop := σ.cStop + σ.cDist, cSum := (σ.cSum + σ.counter.getD σ.cI 0) % M64,
                                  cI := σ.cI + 1, count := (σ.cSum + σ.counter.getD σ.cI 0) % M64 } with hτ
      have e : counterLoop stop (fuel + 1) start σ = counterLoop stop fuel σ.cStop τ := by
        simp only [counterLoop, hcond, if_true, hτ]
      have hsame : SameData σ τ := ⟨rfl, rfl, rfl, rfl, rfl, rfl, rfl, rfl⟩
      have ih := counterLoop_spec stop fuel σ.cStop τ hb hsz (hc.of_same hsame)
        (by show σ.cStop + σ.cDist = (σ.cI + 1 + 1) * σ.cDist; rw [h1]; ring)
        (by show (σ.cSum + σ.counter.getD σ.cI 0) % M64 = bitsLt σ.sieve ((σ.cI + 1) * σ.cDist); exact hsum)
        (by show (σ.cSum + σ.counter.getD σ.cI 0) % M64 = bitsLt σ.sieve σ.cStop; rw [hsum, h1])
        hcond h5 (by show stop / σ.cDist < fuel + (σ.cI + 1); omega) r (by rw [← e]; exact hr)
      obtain ⟨i1, i2, i3, i4, i5, i6, i7⟩ := ih
      exact ⟨hsame.trans i1, i2, i3, i4, i5, i6, i7⟩
    · have e : counterLoop stop (fuel + 1) start σ = (start, σ) := by
        simp only [counterLoop, hcond, if_false]
      rw [e] at hr; subst hr
      refine ⟨SameData.refl σ, rfl, h1, h2, h3, h4, ?_⟩
      show stop < σ.cStop
      omega

/-- **One `count(stop)` query.**  If the state invariant holds, the counters are right and
    `prev_stop ≤ stop < segment_size`, then the call returns the number of set bits whose number is `≤ stop`,
    re-establishes the invariant and touches nothing else.  Holds for all three instruction paths. -/
theorem countStop_correct (f : StopFn) (σ : State) (hb : BytesOk σ.sieve) (hsz : σ.sieve.size < 2 ^ 58)
    (hc : CounterOk σ) (hi : IncInv σ) (stop : ℕ) (h1 : σ.prevStop ≤ stop) (h2 : stop < σ.segmentSize) :
    (countStop f σ stop).2 = bitsLt σ.sieve (stop + 1) ∧ IncInv (countStop f σ stop).1 ∧
    SameData σ (countStop f σ stop).1 ∧ (countStop f σ stop).1.prevStop = stop := by
  by_cases hgt : σ.prevStop + 1 > stop
  · have e0 : countStop f σ stop = ({ σ with prevStop := stop }, σ.count) := by
      unfold countStop; simp only []; rw [if_pos hgt]
    rw [e0]
    have e : σ.prevStop = stop := by omega
    refine ⟨?_, ⟨?_, hi.cstop, hi.csum⟩, ⟨rfl, rfl, rfl, rfl, rfl, rfl, rfl, rfl⟩, rfl⟩
    · show σ.count = bitsLt σ.sieve (stop + 1)
      rw [hi.count, e]
    · show σ.count = bitsLt σ.sieve (stop + 1)
      rw [hi.count, e]
  · set σ0 : State := { σ with prevStop := stop } with hσ0
    have hsame0 : SameData σ σ0 := ⟨rfl, rfl, rfl, rfl, rfl, rfl, rfl, rfl⟩
    obtain ⟨start, τ, hloop⟩ : ∃ start τ, counterLoop stop (stop / σ0.cDist + 2) (σ.prevStop + 1) σ0 = (start, τ) :=
      ⟨_, _, rfl⟩
    have hl := counterLoop_spec stop (stop / σ0.cDist + 2) (σ.prevStop + 1) σ0 hb hsz (hc.of_same hsame0)
      hi.cstop hi.csum hi.count (by omega) h2 (by omega) (start, τ) hloop
    obtain ⟨l1, l2, l3, l4, l5, l6, l7⟩ := hl
    have l2' : τ.prevStop = stop := l2
    have l5' : τ.count = bitsLt τ.sieve start := l5
    have l6' : start ≤ stop := l6
    have hsv : τ.sieve = σ.sieve := l1.1
    have e0 : countStop f σ stop =
        ({ τ with count := (τ.count + f.count (word64 τ.sieve) start stop) % M64 },
          (τ.count + f.count (word64 τ.sieve) start stop) % M64) := by
      unfold countStop; simp only []; rw [if_neg hgt]
      have hloop' : counterLoop stop (stop / σ.cDist + 2) (σ.prevStop + 1) { σ with prevStop := stop } = (start, τ) := hloop
      rw [hloop']
    rw [e0]
    have hcnt : f.count (word64 τ.sieve) start stop = bitsIn σ.sieve start stop := by
      rw [stopFn_count_eq f _ (fun i => word64_lt _ (by rw [hsv]; exact hb.lt) i), hsv,
        countSpec_eq_bitsIn σ.sieve hb start stop l6' (by unfold State.segmentSize at h2; omega)]
      apply Nat.mod_eq_of_lt
      have := bitsIn_le σ.sieve start stop
      simp only [M64]; omega
    have hfin : (τ.count + f.count (word64 τ.sieve) start stop) % M64 = bitsLt σ.sieve (stop + 1) := by
      rw [hcnt, l5', hsv, ← bitsLt_split σ.sieve start stop (by omega)]
      apply Nat.mod_eq_of_lt
      have := bitsLt_le σ.sieve (stop + 1)
      simp only [M64]; omega
    refine ⟨hfin, ⟨?_, l3, l4⟩, ?_, l2'⟩
    · show (τ.count + f.count (word64 τ.sieve) start stop) % M64 = bitsLt τ.sieve (τ.prevStop + 1)
      rw [hfin, hsv, l2']
    · exact hsame0.trans ⟨l1.1, l1.2.1, l1.2.2.1, l1.2.2.2.1, l1.2.2.2.2.1, l1.2.2.2.2.2.1, l1.2.2.2.2.2.2.1,
        l1.2.2.2.2.2.2.2⟩

/-- `reset_counter()` establishes the invariant -/
theorem resetCounter_inv (σ : State) : IncInv (resetCounter σ) := by
  refine ⟨?_, ?_, ?_⟩
  · show 0 = bitsLt σ.sieve (0 + 1); rw [bitsLt_one]
  · show σ.cDist = (0 + 1) * σ.cDist; omega
  · show 0 = bitsLt σ.sieve (0 * σ.cDist)
    rw [Nat.zero_mul]
    unfold bitsLt; symm; apply cnt_zero; intro p _ _; simp

/-- a whole query sequence: results of successive `count(stop)` calls -/
def countSeq (f : StopFn) : State → List ℕ → State × List ℕ
  | σ, [] => (σ, [])
  | σ, b :: bs =>
    let r := countStop f σ b
    let rest := countSeq f r.1 bs
    (rest.1, r.2 :: rest.2)

/-- **Every non-decreasing query sequence.** -/
theorem countSeq_correct (f : StopFn) : ∀ (stops : List ℕ) (σ : State), BytesOk σ.sieve → σ.sieve.size < 2 ^ 58 →
    CounterOk σ → IncInv σ → (stops.Pairwise (· ≤ ·)) → (∀ b ∈ stops, σ.prevStop ≤ b ∧ b < σ.segmentSize) →
    (countSeq f σ stops).2 = stops.map (fun b => bitsLt σ.sieve (b + 1)) ∧
    IncInv (countSeq f σ stops).1 ∧ SameData σ (countSeq f σ stops).1
  | [], σ, _, _, _, hi, _, _ => ⟨rfl, hi, SameData.refl σ⟩
  | b :: bs, σ, hb, hsz, hc, hi, hp, hr => by
    obtain ⟨c1, c2, c3, c4⟩ := countStop_correct f σ hb hsz hc hi b (hr b (by simp)).1 (hr b (by simp)).2
    have hsv : (countStop f σ b).1.sieve = σ.sieve := c3.1
    have hseg : (countStop f σ b).1.segmentSize = σ.segmentSize := by unfold State.segmentSize; rw [hsv]
    have ih := countSeq_correct f bs (countStop f σ b).1 (by rw [hsv]; exact hb) (by rw [hsv]; exact hsz)
      (hc.of_same c3) c2 (List.Pairwise.of_cons hp)
      (by intro x hx; rw [c4, hseg]
          exact ⟨List.rel_of_pairwise_cons hp hx, (hr x (by simp [hx])).2⟩)
    obtain ⟨i1, i2, i3⟩ := ih
    simp only [countSeq, List.map_cons]
    refine ⟨?_, i2, c3.trans i3⟩
    rw [c1, i1, hsv]

end Pc.Sieve
