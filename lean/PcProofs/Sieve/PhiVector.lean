/-
C17: `phi_vector(x, a)[i] = φ(x, i − 1)` for every `1 ≤ i ≤ a` — given the environment of the code:
`primes[i]` is the i-th prime, `pi[x] = π(x)`, `isqrt(x) = ⌊√x⌋` (C12) and the inner `PhiCache::phi<-1>` returns
`−φ` (C07).  Uses the Legendre recurrence `phi_rec` and `phi_eq_one` of the shared L0 vocabulary.
-/
import PcModel.PhiVector
import PcProofs.Spec.Legendre

namespace Pc.PhiVec
open Pc.Spec Nat
open scoped Nat.Prime

/-- what the vector must contain up to index `n` (exclusive) -/
def Good (x : ℕ) (acc : List ℤ) : Prop := ∀ t, 1 ≤ t → t < acc.length → acc.getD t 0 = (phi x (t - 1) : ℤ)

theorem getD_append_lt (acc : List ℤ) (v : ℤ) (t : ℕ) (h : t < acc.length) : (acc ++ [v]).getD t 0 = acc.getD t 0 := by
  rw [List.getD_eq_getElem?_getD, List.getD_eq_getElem?_getD, List.getElem?_append_left h]

theorem getD_append_eq (acc : List ℤ) (v : ℤ) : (acc ++ [v]).getD acc.length 0 = v := by
  rw [List.getD_eq_getElem?_getD, List.getElem?_append_right (le_refl _)]
  simp

theorem Good.push {x : ℕ} {acc : List ℤ} (h : Good x acc) (v : ℤ) (hv : 1 ≤ acc.length → v = (phi x (acc.length - 1) : ℤ)) :
    Good x (acc ++ [v]) := by
  intro t h1 h2
  rw [List.length_append, List.length_singleton] at h2
  by_cases ht : t < acc.length
  · rw [getD_append_lt acc v t ht]; exact h t h1 ht
  · have : t = acc.length := by omega
    rw [this, getD_append_eq]; exact hv (by omega)

section
variable (primes : ℕ → ℕ) (phiNeg : ℕ → ℕ → ℤ) (x : ℕ)
  (hprimes : ∀ i, 1 ≤ i → primes i = p i) (hinner : ∀ y b, phiNeg y b = -(phi y b : ℤ))
include hprimes hinner

theorem loop1_spec (a' : ℕ) : ∀ (fuel i : ℕ) (acc : List ℤ), 2 ≤ i → acc.length = i → Good x acc →
    Good x (loop1 primes (Nat.sqrt x) phiNeg x a' fuel i acc).2 ∧
    (loop1 primes (Nat.sqrt x) phiNeg x a' fuel i acc).2.length = (loop1 primes (Nat.sqrt x) phiNeg x a' fuel i acc).1 ∧
    i ≤ (loop1 primes (Nat.sqrt x) phiNeg x a' fuel i acc).1 ∧
    (a' + 1 ≤ fuel + i → (loop1 primes (Nat.sqrt x) phiNeg x a' fuel i acc).1 ≤ a' →
      Nat.sqrt x < p ((loop1 primes (Nat.sqrt x) phiNeg x a' fuel i acc).1 - 1))
  | 0, i, acc, _, hl, hg => ⟨hg, hl, le_refl _, fun h1 h2 => by simp only [loop1] at h2; omega⟩
  | fuel + 1, i, acc, hi, hl, hg => by
    by_cases hc : i ≤ a' ∧ primes (i - 1) ≤ Nat.sqrt x
    · have e : loop1 primes (Nat.sqrt x) phiNeg x a' (fuel + 1) i acc =
          loop1 primes (Nat.sqrt x) phiNeg x a' fuel (i + 1)
            (acc ++ [acc.getD (i - 1) 0 + phiNeg (x / primes (i - 1)) (i - 2)]) := by
        simp only [loop1, hc, and_self, if_true]
      rw [e]
      have hnew : Good x (acc ++ [acc.getD (i - 1) 0 + phiNeg (x / primes (i - 1)) (i - 2)]) := by
        apply hg.push
        intro _
        rw [hl, hg (i - 1) (by omega) (by omega), hinner, hprimes (i - 1) (by omega)]
        have := phi_rec x (i - 1) (by omega)
        rw [show i - 1 - 1 = i - 2 by omega] at this ⊢
        push_cast [← this]; ring
      obtain ⟨r1, r2, r3, r4⟩ := loop1_spec a' fuel (i + 1) _ (by omega) (by simp [hl]) hnew
      exact ⟨r1, r2, by omega, fun h1 h2 => r4 (by omega) h2⟩
    · have e : loop1 primes (Nat.sqrt x) phiNeg x a' (fuel + 1) i acc = (i, acc) := by
        simp only [loop1, hc, if_false]
      rw [e]
      refine ⟨hg, hl, le_refl _, fun _ h2 => ?_⟩
      have h2' : i ≤ a' := h2
      have : ¬ primes (i - 1) ≤ Nat.sqrt x := fun hh => hc ⟨h2', hh⟩
      rw [hprimes (i - 1) (by omega)] at this
      show Nat.sqrt x < p (i - 1)
      omega

omit hprimes hinner in
/-- second loop: all remaining primes exceed `√x`, so `φ(x / p, ·) = 1` -/
theorem loop2_spec (a' : ℕ) (ha' : a' ≤ π x) : ∀ (fuel i : ℕ) (acc : List ℤ), 2 ≤ i → acc.length = i → Good x acc →
    (i ≤ a' → Nat.sqrt x < p (i - 1)) →
    Good x (loop2 x a' fuel i acc).2 ∧ (loop2 x a' fuel i acc).2.length = (loop2 x a' fuel i acc).1 ∧
    i ≤ (loop2 x a' fuel i acc).1 ∧ (a' + 1 ≤ fuel + i → a' < (loop2 x a' fuel i acc).1)
  | 0, i, acc, _, hl, hg, _ => ⟨hg, hl, le_refl _, fun h => by simp only [loop2]; omega⟩
  | fuel + 1, i, acc, hi, hl, hg, hsq => by
    by_cases hc : i ≤ a'
    · have e : loop2 x a' (fuel + 1) i acc =
          loop2 x a' fuel (i + 1) (acc ++ [acc.getD (i - 1) 0 - (if x > 0 then 1 else 0)]) := by
        simp only [loop2, hc, if_true]
      rw [e]
      have hsq' := hsq hc
      -- p (i-1) ≤ x because i - 1 < a' ≤ π x
      have hpx : p (i - 1) ≤ x := (p_le_iff (by omega)).2 (by omega)
      have hxpos : 0 < x := lt_of_lt_of_le (p_pos _) hpx
      have hone : phi (x / p (i - 1)) (i - 2) = 1 := by
        apply phi_eq_one
        · exact (Nat.one_le_div_iff (p_pos _)).2 hpx
        · rw [show i - 2 + 1 = i - 1 by omega]
          -- x / p < p since p > √x
          have : x < p (i - 1) * p (i - 1) := by
            have h1 := Nat.sqrt_lt'.1 hsq'
            nlinarith
          exact (Nat.div_lt_iff_lt_mul (p_pos _)).2 this
      have hnew : Good x (acc ++ [acc.getD (i - 1) 0 - (if x > 0 then 1 else 0)]) := by
        apply hg.push
        intro _
        rw [hl, hg (i - 1) (by omega) (by omega), if_pos hxpos]
        have := phi_rec x (i - 1) (by omega)
        rw [show i - 1 - 1 = i - 2 by omega, hone] at this
        rw [show i - 1 - 1 = i - 2 by omega]
        push_cast [← this]; ring
      obtain ⟨r1, r2, r3, r4⟩ := loop2_spec a' ha' fuel (i + 1) _ (by omega) (by simp [hl]) hnew
        (by
          intro h
          have : p (i - 1) < p (i + 1 - 1) := p_lt_p (by omega) (by omega)
          omega)
      exact ⟨r1, r2, by omega, fun h => r4 (by omega)⟩
    · have e : loop2 x a' (fuel + 1) i acc = (i, acc) := by simp only [loop2, hc, if_false]
      rw [e]
      exact ⟨hg, hl, le_refl _, fun _ => by show a' < i; omega⟩

omit hprimes hinner in
/-- third loop: beyond `π(x)` every `φ(x, ·)` is `[x > 0]` -/
theorem loop3_spec (size : ℕ) : ∀ (fuel i : ℕ) (acc : List ℤ), 2 ≤ i → acc.length = i → Good x acc → π x < i →
    Good x (loop3 x size fuel i acc)
  | 0, _, _, _, _, hg, _ => hg
  | fuel + 1, i, acc, hi, hl, hg, hpi => by
    by_cases hc : i < size
    · have e : loop3 x size (fuel + 1) i acc = loop3 x size fuel (i + 1) (acc ++ [if x > 0 then 1 else 0]) := by
        simp only [loop3, hc, if_true]
      rw [e]
      apply loop3_spec size fuel (i + 1) _ (by omega) (by simp [hl]) _ (by omega)
      apply hg.push
      intro _
      rw [hl]
      by_cases hx : x > 0
      · rw [if_pos hx, phi_eq_one_of_pi_le hx (by omega)]; rfl
      · have : x = 0 := by omega
        rw [if_neg hx, this, phi_zero_left]; rfl
    · have e : loop3 x size (fuel + 1) i acc = acc := by simp only [loop3, hc, if_false]
      rw [e]; exact hg

omit hprimes hinner in
theorem loop3_length (size : ℕ) : ∀ (fuel i : ℕ) (acc : List ℤ), acc.length = i → size ≤ fuel + i →
    size ≤ (loop3 x size fuel i acc).length
  | 0, i, acc, hl, h => by simp only [loop3]; omega
  | fuel + 1, i, acc, hl, h => by
    by_cases hc : i < size
    · have e : loop3 x size (fuel + 1) i acc = loop3 x size fuel (i + 1) (acc ++ [if x > 0 then 1 else 0]) := by
        simp only [loop3, hc, if_true]
      rw [e]
      exact loop3_length size fuel (i + 1) _ (by simp [hl]) (by omega)
    · have e : loop3 x size (fuel + 1) i acc = acc := by simp only [loop3, hc, if_false]
      rw [e]; omega

omit hprimes hinner in
theorem loop3_noop (size fuel i : ℕ) (acc : List ℤ) (h : ¬ i < size) : loop3 x size fuel i acc = acc := by
  cases fuel with
  | zero => rfl
  | succ n => simp only [loop3, h, if_false]

/-- **`phi_vector` is correct**: for every `x`, `a` and every `1 ≤ i ≤ a`, `phi_vector(x, a)[i] = φ(x, i − 1)`
    (so that `phi[b] + count(n − low)` is `φ(n, b − 1)` in the callers, which pass `x = low`). -/
theorem phiVector_correct (a : ℕ) (i : ℕ) (hi1 : 1 ≤ i) (hia : i ≤ a) :
    (phiVector primes (π x) (Nat.sqrt x) phiNeg x a).getD i 0 = (phi x (i - 1) : ℤ) := by
  have ha : a + 1 > 1 := by omega
  unfold phiVector
  rw [if_pos ha]
  simp only []
  set a' := if primes a > x then π x else a with ha'
  have ha'pi : a' ≤ π x := by
    rw [ha']
    split
    · exact le_refl _
    · rename_i h
      rw [hprimes a (by omega)] at h
      exact (p_le_iff (by omega)).1 (by omega)
  have ha'a : a' ≤ a := by
    rw [ha']
    split
    · rename_i h
      rw [hprimes a (by omega)] at h
      have := (lt_p_iff (by omega : 1 ≤ a)).1 h
      omega
    · exact le_refl _
  have hg0 : Good x [0, (x : ℤ)] := by
    intro t h1 h2
    have : t = 1 := by simp at h2; omega
    subst this
    simp [phi_zero_right]
  obtain ⟨r1, r2, r3, r4⟩ := loop1_spec primes phiNeg x hprimes hinner a' (a + 1) 2 [0, (x : ℤ)] (le_refl _) rfl hg0
  obtain ⟨s1, s2, s3, s4⟩ := loop2_spec x a' ha'pi (a + 1) _ _ (by omega) r2 r1 (fun h => r4 (by omega) h)
  have hbig := s4 (by omega)
  by_cases hcase : primes a > x
  · have ha'e : a' = π x := by rw [ha', if_pos hcase]
    have hfin := loop3_spec x (a + 1) (a + 1) _ _ (by omega) s2 s1 (by omega)
    have hlen := loop3_length x (a + 1) (a + 1) _ _ s2 (by omega)
    exact hfin i hi1 (by omega)
  · have ha'e : a' = a := by rw [ha', if_neg hcase]
    rw [loop3_noop x (a + 1) (a + 1) _ _ (by omega)]
    exact s1 i hi1 (by omega)
end

end Pc.PhiVec
