/-
C17: number-theoretic reading of the bit counts.  Under the sieve-array invariant the number of set bits whose
number lies in `[a, b]` is `specCount`: the number of `t ∈ [a, b]`, `t < n`, with `L + t` coprime to 30 and
divisible by none of the numbers crossed off (the naive definition the oracle stream evaluates).
-/
import PcProofs.Sieve.Pre

namespace Pc.Sieve
open Pc.WheelSpec

theorem filter_length_range (P : ℕ → Bool) : ∀ m, ((List.range m).filter P).length = cnt P 0 m := by
  intro m
  unfold cnt
  rw [← sum_map_range_eq_sumFrom]
  induction m with
  | zero => rfl
  | succ m ih =>
    rw [List.range_succ, List.filter_append, List.length_append, ih, List.map_append, List.sum_append]
    congr 1
    simp only [List.filter_cons, List.filter_nil, List.map_cons, List.map_nil, List.sum_cons, List.sum_nil,
      Nat.zero_add, Nat.add_zero]
    cases P m <;> simp

/-- one byte: the 8 bits are the 8 numbers coprime to 30 among 30 consecutive numbers -/
theorem byte_sum (f : ℕ → ℕ) (m : ℕ) :
    sumFrom (fun p => f (offsetOfBit p)) (8 * m) 8 =
    sumFrom (fun t => if Nat.gcd t 30 = 1 then f t else 0) (30 * m) 30 := by
  rw [← sum_map_range_eq_sumFrom, ← sum_map_range_eq_sumFrom]
  have e8 : List.range 8 = [0, 1, 2, 3, 4, 5, 6, 7] := by decide
  have e30 : List.range 30 = [0, 1, 2, 3, 4, 5, 6, 7, 8, 9, 10, 11, 12, 13, 14, 15, 16, 17, 18, 19, 20, 21, 22, 23,
    24, 25, 26, 27, 28, 29] := by decide
  have hg : ∀ r, Nat.gcd (30 * m + r) 30 = Nat.gcd r 30 := fun r => gcd_add30 m r
  rw [e8, e30]
  simp only [List.map_cons, List.map_nil, List.sum_cons, List.sum_nil, hg]
  have o : ∀ b, b < 8 → offsetOfBit (8 * m + b) = 30 * m + residues.getD b 0 := fun b hb => offsetOfBit_byte m b hb
  rw [o 0 (by decide), o 1 (by decide), o 2 (by decide), o 3 (by decide), o 4 (by decide), o 5 (by decide),
    o 6 (by decide), o 7 (by decide)]
  simp (config := { decide := true }) [residues]

theorem bits_sum (f : ℕ → ℕ) : ∀ z,
    sumFrom (fun p => f (offsetOfBit p)) 0 (8 * z) =
    sumFrom (fun t => if Nat.gcd t 30 = 1 then f t else 0) 0 (30 * z)
  | 0 => rfl
  | z + 1 => by
    rw [show 8 * (z + 1) = 8 * z + 8 by ring, show 30 * (z + 1) = 30 * z + 30 by ring, sumFrom_add, sumFrom_add,
      bits_sum f z, Nat.zero_add, Nat.zero_add, byte_sum]

/-- **bits ↔ numbers.**  Under `BitsInv` the number of set bits with number in `[a, b]` (`b` inside the array)
    is the naive count `specCount` over the numbers crossed off so far. -/
theorem bitsIn_eq_specCount (σ : State) (G : Ghost) (h : BitsInv σ G) (a b : ℕ) (hab : a ≤ b)
    (hb : b < σ.segmentSize) :
    bitsIn σ.sieve a b = specCount G.L G.n (G.qs.take G.k) a b := by
  unfold State.segmentSize at hb
  -- the predicate on numbers
  set F : ℕ → Bool := fun t => decide (a ≤ t) && decide (t ≤ b) && decide (t < G.n) &&
    (G.qs.take G.k).all (fun q => (G.L + t) % q != 0) with hF
  have hbit : ∀ p, inRange σ.sieve a b p = F (offsetOfBit p) := by
    intro p
    unfold inRange
    rw [hF]
    simp only []
    have hb' := h.bits p
    by_cases hset : bitAt σ.sieve p = true
    · obtain ⟨h1, h2⟩ := hb'.mp hset
      have hall : (G.qs.take G.k).all (fun q => (G.L + offsetOfBit p) % q != 0) = true := by
        rw [List.all_eq_true]
        intro q hq
        obtain ⟨i, hi, rfl⟩ := List.getElem_of_mem hq
        rw [List.length_take] at hi
        have hik : i < G.k := by omega
        have := h2 i hik
        rw [List.getElem_take]
        have e : G.qs.getD i 0 = G.qs[i]'(by omega) := by
          rw [List.getD_eq_getElem?_getD, List.getElem?_eq_getElem (by omega)]; rfl
        rw [e] at this
        simp only [bne_iff_ne, ne_eq]
        intro hz; exact this (Nat.dvd_of_mod_eq_zero hz)
      simp [hset, h1, hall, Bool.and_comm]
    · have hset' : bitAt σ.sieve p = false := by simpa using hset
      rw [hset']
      simp only [Bool.false_and]
      cases hv : (decide (a ≤ offsetOfBit p) && decide (offsetOfBit p ≤ b) && decide (offsetOfBit p < G.n) &&
          (G.qs.take G.k).all (fun q => (G.L + offsetOfBit p) % q != 0)) with
      | false => rfl
      | true =>
        exfalso
        simp only [Bool.and_eq_true, decide_eq_true_eq, List.all_eq_true, bne_iff_ne, ne_eq] at hv
        obtain ⟨⟨⟨_, _⟩, h3⟩, h4⟩ := hv
        apply hset
        apply hb'.mpr
        refine ⟨h3, fun i hi hdvd => ?_⟩
        have hik : i < G.qs.length := by have := h.kle; omega
        have e : G.qs.getD i 0 = G.qs[i]'hik := by
          rw [List.getD_eq_getElem?_getD, List.getElem?_eq_getElem hik]; rfl
        have hmem : G.qs[i]'hik ∈ G.qs.take G.k := by
          rw [List.mem_take_iff_getElem]
          exact ⟨i, by omega, rfl⟩
        rw [e] at hdvd
        exact h4 _ hmem (Nat.mod_eq_zero_of_dvd hdvd)
  unfold bitsIn cnt
  rw [sumFrom_congr_range _ (fun p => (fun t => (F t).toNat) (offsetOfBit p)) 0 _ (fun p _ _ => by rw [hbit p]),
    bits_sum (fun t => (F t).toNat) σ.sieve.size]
  -- right hand side
  unfold specCount
  rw [filter_length_range]
  unfold cnt
  -- split [0, 30 size) = [0, a) ++ [a, b] ++ (b, 30 size)
  have hsplit : 30 * σ.sieve.size = a + ((b + 1 - a) + (30 * σ.sieve.size - (b + 1))) := by omega
  rw [hsplit, sumFrom_add, sumFrom_add, Nat.zero_add]
  rw [sumFrom_zero _ 0 a (by
    intro t _ ht
    have : ¬ a ≤ t := by omega
    simp [hF, this])]
  rw [sumFrom_zero _ (a + (b + 1 - a)) _ (by
    intro t ht _
    have : ¬ t ≤ b := by omega
    simp [hF, this])]
  rw [Nat.zero_add, Nat.add_zero]
  have := sumFrom_shift (fun t => if Nat.gcd t 30 = 1 then (F t).toNat else 0) a 0 (b + 1 - a)
  simp only [Nat.add_zero] at this
  rw [← this]
  apply sumFrom_congr_range
  intro d _ hd
  have hd' : d < b + 1 - a := by omega
  have hg : Nat.gcd (G.L + (a + d)) 30 = Nat.gcd (a + d) 30 := by
    obtain ⟨c, hc⟩ := h.hL
    rw [hc]; exact gcd_add30 c (a + d)
  show (if Nat.gcd (a + d) 30 = 1 then (F (a + d)).toNat else 0) = _
  rw [hF]
  simp only [hg]
  have h1 : a ≤ a + d := by omega
  have h2 : a + d ≤ b := by omega
  by_cases hgc : Nat.gcd (a + d) 30 = 1
  · simp [hgc, h1, h2]
  · have hbeq : ((a + d).gcd 30 == 1) = false := by simpa using hgc
    simp [hgc, hbeq]

end Pc.Sieve
