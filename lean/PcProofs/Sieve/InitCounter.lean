/-
C17: `Sieve::init_counter` fills the counter array with the number of set bits of every block and
`total_count_` with the number of all set bits.
-/
import PcProofs.Sieve.Reset

namespace Pc.Sieve
open Pc.WheelSpec

/-- no set bit at or beyond `n`: `bitsLt` is constant from `n` on -/
theorem bitsLt_const (s : Bytes) (n x y : ℕ) (h : ∀ p, bitAt s p = true → offsetOfBit p < n) (hx : n ≤ x) (hy : n ≤ y) :
    bitsLt s x = bitsLt s y := by
  unfold bitsLt
  apply cnt_congr
  intro p _ _
  by_cases hb : bitAt s p = true
  · have := h p hb
    have h1 : offsetOfBit p < x := by omega
    have h2 : offsetOfBit p < y := by omega
    simp [hb, h1, h2]
  · have : bitAt s p = false := by simpa using hb
    simp [this]

theorem countWords_bitsIn (cfg : Cfg) (s : Bytes) (hok : BytesOk s) (hsmall : 8 * s.size < M32) (a b : ℕ)
    (hab : a ≤ b) (hb : b < 30 * s.size) : countWords cfg (word64 s) a b = bitsIn s a b := by
  rw [countWords_eq cfg _ (word64_lt _ hok.lt), countSpec_eq_bitsIn s hok a b hab hb]
  apply Nat.mod_eq_of_lt
  have := bitsIn_le s a b
  simp only [M64, M32] at hsmall ⊢; omega

/-- the `while (start <= max_stop)` loop of `init_counter` -/
theorem initCounterLoop_spec (cfg : Cfg) (s : Bytes) (hok : BytesOk s) (hsmall : 8 * s.size < M32) (log2 n : ℕ)
    (h1 : 1 ≤ n) (hn : n ≤ 30 * s.size) (hbits : ∀ p, bitAt s p = true → offsetOfBit p < n) :
    ∀ (fuel j : ℕ) (c : Array ℕ) (t : ℕ),
    (∀ j' < j, bitsLt s ((j' + 1) * (30 * 2 ^ log2)) = bitsLt s (j' * (30 * 2 ^ log2)) + c.getD j' 0) →
    t = bitsLt s (j * (30 * 2 ^ log2)) → s.size ≤ c.size * 2 ^ log2 →
    (n - 1) / (30 * 2 ^ log2) + 1 < fuel + j →
    ∃ J, n ≤ J * (30 * 2 ^ log2) ∧
      (∀ j' < J, bitsLt s ((j' + 1) * (30 * 2 ^ log2)) = bitsLt s (j' * (30 * 2 ^ log2)) +
        (initCounterLoop cfg s (30 * 2 ^ log2) log2 (n - 1) fuel (j * (30 * 2 ^ log2)) c t).1.getD j' 0) ∧
      (initCounterLoop cfg s (30 * 2 ^ log2) log2 (n - 1) fuel (j * (30 * 2 ^ log2)) c t).2 = bitsLt s (J * (30 * 2 ^ log2)) ∧
      (initCounterLoop cfg s (30 * 2 ^ log2) log2 (n - 1) fuel (j * (30 * 2 ^ log2)) c t).1.size = c.size
  | 0, j, c, t, hc, ht, hcs, hf => by
    have hd : 0 < 30 * 2 ^ log2 := by have := Nat.two_pow_pos log2; omega
    refine ⟨j, ?_, hc, ht, rfl⟩
    have : (n - 1) < ((n - 1) / (30 * 2 ^ log2) + 1) * (30 * 2 ^ log2) := by
      rw [Nat.mul_comm]; exact Nat.lt_mul_div_succ _ hd
    have : ((n - 1) / (30 * 2 ^ log2) + 1) * (30 * 2 ^ log2) ≤ j * (30 * 2 ^ log2) :=
      Nat.mul_le_mul_right _ (by omega)
    omega
  | fuel + 1, j, c, t, hc, ht, hcs, hf => by
    set B := 2 ^ log2 with hB
    have hBpos : 0 < B := Nat.two_pow_pos log2
    set d := 30 * B with hd
    by_cases hcond : j * d ≤ n - 1
    · -- one block
      set stop := min (j * d + d - 1) (n - 1) with hstop
      have hss : j * d ≤ stop := by omega
      have hstoplt : stop < 30 * s.size := by omega
      have hcnt : (if j * d > stop then 0 else countWords cfg (word64 s) (j * d) stop) = bitsIn s (j * d) stop := by
        rw [if_neg (by omega)]; exact countWords_bitsIn cfg s hok hsmall _ _ hss hstoplt
      have hidx : (j * d / 30) >>> log2 = j := by
        rw [Nat.shiftRight_eq_div_pow, hd, ← hB]
        have : j * (30 * B) / 30 = j * B := by
          rw [show j * (30 * B) = 30 * (j * B) by ring]; exact Nat.mul_div_cancel_left _ (by decide)
        rw [this, Nat.mul_div_cancel _ hBpos]
      have hsplit := bitsLt_split s (j * d) stop (by omega)
      have hnext : bitsLt s ((j + 1) * d) = bitsLt s (stop + 1) := by
        by_cases hm : j * d + d - 1 ≤ n - 1
        · have : stop + 1 = (j + 1) * d := by rw [Nat.add_mul]; omega
          rw [this]
        · have hs : stop = n - 1 := by omega
          apply bitsLt_const s n _ _ hbits
          · rw [Nat.add_mul]; omega
          · omega
      have hle := bitsLt_le s (stop + 1)
      have hjc : j < c.size := by
        have h1 : j * B < s.size := by
          have : 30 * (j * B) < 30 * s.size := by rw [show 30 * (j * B) = j * d by rw [hd]; ring]; omega
          omega
        exact Nat.lt_of_mul_lt_mul_right (lt_of_lt_of_le h1 hcs)
      have e : initCounterLoop cfg s d log2 (n - 1) (fuel + 1) (j * d) c t =
          initCounterLoop cfg s d log2 (n - 1) fuel ((j + 1) * d)
            (c.setIfInBounds j (bitsIn s (j * d) stop % M32)) ((t + bitsIn s (j * d) stop) % M64) := by
        simp only [initCounterLoop, hcond, if_true, ← hstop, hcnt, hidx]
        rw [show j * d + d = (j + 1) * d by rw [Nat.add_mul]; omega]
      have hm32 : bitsIn s (j * d) stop % M32 = bitsIn s (j * d) stop :=
        Nat.mod_eq_of_lt (by have := bitsIn_le s (j * d) stop; omega)
      have hm64 : (t + bitsIn s (j * d) stop) % M64 = bitsLt s ((j + 1) * d) := by
        rw [hnext, hsplit, ← ht]
        apply Nat.mod_eq_of_lt
        rw [ht, ← hsplit]; simp only [M64, M32] at hsmall ⊢; omega
      obtain ⟨J, i1, i2, i3, i4⟩ := initCounterLoop_spec cfg s hok hsmall log2 n h1 hn hbits fuel (j + 1)
        (c.setIfInBounds j (bitsIn s (j * d) stop % M32)) ((t + bitsIn s (j * d) stop) % M64)
        (by
          intro j' hj'
          rw [getD_set]
          by_cases hjj : j' = j
          · rw [if_pos ⟨hjj, hjc⟩, hjj, hm32, hnext, hsplit]
          · rw [if_neg (by intro hh; exact hjj hh.1)]; exact hc j' (by omega))
        hm64 (by rw [Array.size_setIfInBounds]; exact hcs) (by show (n - 1) / d + 1 < fuel + (j + 1); omega)
      rw [e]
      exact ⟨J, i1, i2, i3, by rw [i4, Array.size_setIfInBounds]⟩
    · have e : initCounterLoop cfg s d log2 (n - 1) (fuel + 1) (j * d) c t = (c, t) := by
        simp only [initCounterLoop, hcond, if_false]
      rw [e]
      exact ⟨j, by omega, hc, ht, rfl⟩

/-- **`init_counter`** establishes the counter invariant (given that no bit is set at or beyond `high − low`) -/
theorem initCounter_spec (cfg : Cfg) (σ : State) (n : ℕ) (hok : BytesOk σ.sieve) (h1 : 1 ≤ n)
    (hn : n ≤ σ.segmentSize) (hn2 : σ.segmentSize < n + 240)
    (hbits : ∀ p, bitAt σ.sieve p = true → offsetOfBit p < n)
    (hd : σ.cDist = 30 * 2 ^ σ.cLog2) (hl : 3 ≤ σ.cLog2) (hcs : σ.sieve.size ≤ σ.counter.size * 2 ^ σ.cLog2)
    (hsmall : 8 * σ.sieve.size < M32) :
    CountInv (initCounter cfg σ n) ∧ (initCounter cfg σ n).sieve = σ.sieve ∧
    (initCounter cfg σ n).wheel = σ.wheel ∧ (initCounter cfg σ n).start = σ.start := by
  unfold State.segmentSize at hn hn2
  have hloop := initCounterLoop_spec cfg σ.sieve hok hsmall σ.cLog2 n h1 (by omega) hbits
    ((n - 1) / (30 * 2 ^ σ.cLog2) + 2) 0 σ.counter 0 (by intro j' hj'; omega)
    (by rw [Nat.zero_mul]; unfold bitsLt; symm; apply cnt_zero; intro p _ _; simp) hcs (by omega)
  rw [Nat.zero_mul] at hloop
  obtain ⟨J, j1, j2, j3, j4⟩ := hloop
  have e : initCounter cfg σ n =
      { resetCounter σ with
        counter := (initCounterLoop cfg σ.sieve (30 * 2 ^ σ.cLog2) σ.cLog2 (n - 1) ((n - 1) / (30 * 2 ^ σ.cLog2) + 2) 0 σ.counter 0).1,
        totalCount := (initCounterLoop cfg σ.sieve (30 * 2 ^ σ.cLog2) σ.cLog2 (n - 1) ((n - 1) / (30 * 2 ^ σ.cLog2) + 2) 0 σ.counter 0).2 } := by
    unfold initCounter
    simp only []
    show _ = _
    rw [show (resetCounter σ).cDist = 30 * 2 ^ σ.cLog2 from hd]
    rfl
  rw [e]
  refine ⟨⟨⟨?_, ?_⟩, hd, ?_, hsmall, hl, incInv_of_reset _ rfl rfl rfl rfl rfl⟩, rfl, rfl, rfl⟩
  · intro j hj
    show bitsLt σ.sieve ((j + 1) * σ.cDist) = bitsLt σ.sieve (j * σ.cDist) + _
    rw [hd]
    apply j2 j
    -- j * dist < 30 * size and both are multiples of 240, n > 30 * size - 240
    have hj' : j * (30 * 2 ^ σ.cLog2) < 30 * σ.sieve.size := by
      have : j * σ.cDist < 30 * σ.sieve.size := hj
      rwa [hd] at this
    have h240 : (j * (30 * 2 ^ σ.cLog2)) % 240 = 0 := by
      obtain ⟨e, he⟩ : ∃ e, σ.cLog2 = e + 3 := ⟨σ.cLog2 - 3, by omega⟩
      rw [he, pow_add, show j * (30 * (2 ^ e * 2 ^ 3)) = 240 * (j * 2 ^ e) by ring]
      exact Nat.mul_mod_right _ _
    have hw := hok.words
    by_contra hge
    have hJ : J * (30 * 2 ^ σ.cLog2) ≤ j * (30 * 2 ^ σ.cLog2) := Nat.mul_le_mul_right _ (by omega)
    omega
  · show _ = bitsLt σ.sieve (30 * σ.sieve.size)
    rw [j3]
    exact bitsLt_const σ.sieve n _ _ hbits j1 (by omega)
  · show σ.sieve.size ≤ _ * 2 ^ σ.cLog2
    rw [j4]; exact hcs

end Pc.Sieve
