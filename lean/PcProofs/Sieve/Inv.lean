/-
C17: the sieve-array / wheel part of the object invariant (`BitsInv`) and its preservation by
`cross_off` and `cross_off_count`.
-/
import PcProofs.Sieve.CrossState

namespace Pc.Sieve
open Pc.WheelSpec

/-- sieve array and wheel states agree with the ghost description:
    a bit is set iff its number is inside the segment and divisible by none of the numbers crossed off so far;
    the wheel slots already used in this segment point into the NEXT segment (carry-over), the others into
    the current one. -/
structure BitsInv (σ : State) (G : Ghost) : Prop where
  hL : 30 ∣ G.L
  ok : BytesOk σ.sieve
  kle : G.k ≤ G.qs.length
  wsize : 4 + G.qs.length ≤ σ.wheel.size
  qs_ok : ∀ i < G.qs.length, Nat.gcd (G.qs.getD i 0) 30 = 1 ∧ G.qs.getD i 0 < M32
  bits : ∀ p, bitAt σ.sieve p = true ↔ (offsetOfBit p < G.n ∧ ∀ i < G.k, ¬ G.qs.getD i 0 ∣ G.L + offsetOfBit p)
  nle : G.n ≤ σ.segmentSize
  done : ∀ i < G.k, SlotOk (G.qs.getD i 0) (G.L + σ.segmentSize) (σ.wheel.getD (4 + i) ⟨0, 0⟩)
  todo : ∀ i, G.k ≤ i → i < G.qs.length → SlotOk (G.qs.getD i 0) G.L (σ.wheel.getD (4 + i) ⟨0, 0⟩)

/-- the next slot may be crossed off with `q` (see `AvailP`) -/
def Avail (σ : State) (G : Ghost) (q : ℕ) : Prop := AvailP σ.wheel.size σ.start G q

/-- `if (i >= wheel_.size()) add(prime);` -/
def wheelWith (σ : State) (q i : ℕ) : Array Wheel :=
  if i ≥ σ.wheel.size then σ.wheel.push (addWheel σ.start q) else σ.wheel

/-- the switch, entered from the wheel slot `i` -/
def crossRes (fast : Bool) (σ : State) (q i : ℕ) : XRes :=
  crossLoop fast (q / 30) σ.sieve.size (crossFuel σ.sieve.size ((wheelWith σ q i).getD i ⟨0, 0⟩).multiple)
    ((wheelWith σ q i).getD i ⟨0, 0⟩).multiple ((wheelWith σ q i).getD i ⟨0, 0⟩).index σ.sieve

theorem crossOff_sieve (σ : State) (q i : ℕ) : (crossOff σ q i).sieve = (crossRes true σ q i).2.2 := rfl
theorem crossOff_wheel (σ : State) (q i : ℕ) : (crossOff σ q i).wheel =
    (wheelWith σ q i).setIfInBounds i ⟨(crossRes true σ q i).1 % M32, (crossRes true σ q i).2.1⟩ := rfl

theorem crossOffCount_sieve (σ : State) (q i : ℕ) : (crossOffCount σ q i).sieve = (crossRes false σ q i).2.2 := by
  unfold crossOffCount crossRes wheelWith
  simp only []
  have := crossCountLoop_proj (q / 30) (resetCounter σ).sieve.size (resetCounter σ).cLog2
    (crossFuel (resetCounter σ).sieve.size
      ((if i ≥ σ.wheel.size then σ.wheel.push (addWheel σ.start q) else σ.wheel).getD i ⟨0, 0⟩).multiple)
    ((if i ≥ σ.wheel.size then σ.wheel.push (addWheel σ.start q) else σ.wheel).getD i ⟨0, 0⟩).multiple
    ((if i ≥ σ.wheel.size then σ.wheel.push (addWheel σ.start q) else σ.wheel).getD i ⟨0, 0⟩).index
    (resetCounter σ).sieve (resetCounter σ).counter (resetCounter σ).totalCount
  exact (congrArg (fun x => x.2.2) this)

theorem crossOffCount_wheel (σ : State) (q i : ℕ) : (crossOffCount σ q i).wheel =
    (wheelWith σ q i).setIfInBounds i ⟨(crossRes false σ q i).1 % M32, (crossRes false σ q i).2.1⟩ := by
  unfold crossOffCount crossRes wheelWith
  simp only []
  have := crossCountLoop_proj (q / 30) (resetCounter σ).sieve.size (resetCounter σ).cLog2
    (crossFuel (resetCounter σ).sieve.size
      ((if i ≥ σ.wheel.size then σ.wheel.push (addWheel σ.start q) else σ.wheel).getD i ⟨0, 0⟩).multiple)
    ((if i ≥ σ.wheel.size then σ.wheel.push (addWheel σ.start q) else σ.wheel).getD i ⟨0, 0⟩).multiple
    ((if i ≥ σ.wheel.size then σ.wheel.push (addWheel σ.start q) else σ.wheel).getD i ⟨0, 0⟩).index
    (resetCounter σ).sieve (resetCounter σ).counter (resetCounter σ).totalCount
  have e1 := congrArg (fun x => x.1) this
  have e2 := congrArg (fun x => x.2.1) this
  simp only [] at e1 e2
  show Array.setIfInBounds _ i (Wheel.mk (_ % M32) _) = _
  rw [e1, e2]
  rfl

theorem wheel_getD_set (a : Array Wheel) (i k : ℕ) (v d : Wheel) :
    (a.setIfInBounds i v).getD k d = if k = i ∧ i < a.size then v else a.getD k d := by
  rw [Array.getD_eq_getD_getElem?, Array.getD_eq_getD_getElem?, Array.getElem?_setIfInBounds]
  by_cases h : i = k
  · subst h
    by_cases hlt : i < a.size
    · simp [hlt]
    · simp [hlt, Array.getElem?_eq_none (Nat.le_of_not_lt hlt)]
  · have : ¬ k = i := fun e => h e.symm
    simp [h, this]

theorem wheel_getD_push (a : Array Wheel) (k : ℕ) (v d : Wheel) :
    (a.push v).getD k d = if k = a.size then v else a.getD k d := by
  rw [Array.getD_eq_getD_getElem?, Array.getD_eq_getD_getElem?, Array.getElem?_push]
  by_cases h : k = a.size <;> simp [h]

theorem list_getD_snoc (l : List ℕ) (q i : ℕ) :
    (l ++ [q]).getD i 0 = if i < l.length then l.getD i 0 else if i = l.length then q else 0 := by
  rw [List.getD_eq_getElem?_getD, List.getD_eq_getElem?_getD, List.getElem?_append]
  by_cases h : i < l.length
  · simp [h]
  · by_cases h2 : i = l.length
    · subst h2; simp
    · have : i - l.length ≠ 0 := by omega
      obtain ⟨d, hd⟩ : ∃ d, i - l.length = d + 1 := ⟨i - l.length - 1, by omega⟩
      simp [h, h2, hd]

/-- the wheel slot that `cross_off(_count)(q, 4 + k)` is going to use is correct for the current segment -/
theorem BitsInv.slot {σ : State} {G : Ghost} (h : BitsInv σ G) (q : ℕ) (hav : Avail σ G q) :
    SlotOk q G.L ((wheelWith σ q (4 + G.k)).getD (4 + G.k) ⟨0, 0⟩) := by
  rcases hav with ⟨h1, h2⟩ | ⟨h1, h2, h3, h4, h5⟩
  · have : ¬ (4 + G.k ≥ σ.wheel.size) := by have := h.wsize; omega
    unfold wheelWith
    rw [if_neg this, ← h2]; exact h.todo _ (le_refl _) h1
  · have : 4 + G.k ≥ σ.wheel.size := by omega
    unfold wheelWith
    rw [if_pos this, wheel_getD_push, if_pos (by omega), h3]
    exact addWheel_spec σ.start q (by rw [← h3]; exact h.hL) h4 h5

theorem BitsInv.slot_index {σ : State} {G : Ghost} (h : BitsInv σ G) (q : ℕ) (hav : Avail σ G q) :
    ((wheelWith σ q (4 + G.k)).getD (4 + G.k) ⟨0, 0⟩).index < 64 := by
  obtain ⟨g, j, u, hg, _, hidx, hpos, _, _⟩ := h.slot q hav
  have := hpos.1
  omega

/-- **`cross_off` / `cross_off_count` preserve the sieve-array invariant**: the next slot's number is added to
    the crossed-off set, its wheel state now points into the next segment. -/
theorem BitsInv.cross {σ : State} {G : Ghost} (h : BitsInv σ G) (fast : Bool) (q : ℕ) (hav : Avail σ G q)
    (τ : State) (hs : τ.sieve = (crossRes fast σ q (4 + G.k)).2.2)
    (hw : τ.wheel = (wheelWith σ q (4 + G.k)).setIfInBounds (4 + G.k)
      ⟨(crossRes fast σ q (4 + G.k)).1 % M32, (crossRes fast σ q (4 + G.k)).2.1⟩)
    (hst : τ.start = σ.start) :
    BitsInv τ (G.crossed q) := by
  -- the slot that is used
  set W := wheelWith σ q (4 + G.k) with hW
  have hWsize : 4 + G.k < W.size := by
    rcases hav with ⟨h1, _⟩ | ⟨h1, h2, _⟩
    · have : ¬ (4 + G.k ≥ σ.wheel.size) := by have := h.wsize; omega
      rw [hW]; unfold wheelWith; rw [if_neg this]; have := h.wsize; omega
    · have : 4 + G.k ≥ σ.wheel.size := by omega
      rw [hW]; unfold wheelWith; rw [if_pos this, Array.size_push]; omega
  have hWge : σ.wheel.size ≤ W.size := by
    rw [hW]; unfold wheelWith
    split
    · rw [Array.size_push]; omega
    · exact le_refl _
  have hWother : ∀ i, i < G.qs.length → W.getD (4 + i) ⟨0, 0⟩ = σ.wheel.getD (4 + i) ⟨0, 0⟩ := by
    intro i hi
    rw [hW]; unfold wheelWith
    split
    · rw [wheel_getD_push, if_neg (by have := h.wsize; omega)]
    · rfl
  have hq : Nat.gcd q 30 = 1 ∧ q < M32 := by
    rcases hav with ⟨h1, h2⟩ | ⟨_, _, _, h4, h5⟩
    · rw [← h2]; exact h.qs_ok _ h1
    · exact ⟨h4, h5⟩
  have hslot : SlotOk q G.L (W.getD (4 + G.k) ⟨0, 0⟩) := by
    rcases hav with ⟨h1, h2⟩ | ⟨h1, h2, h3, h4, h5⟩
    · rw [hWother _ h1, ← h2]; exact h.todo _ (le_refl _) h1
    · have : 4 + G.k ≥ σ.wheel.size := by omega
      rw [hW]; unfold wheelWith
      rw [if_pos this, wheel_getD_push, if_pos (by omega), h3]
      exact addWheel_spec σ.start q (by rw [← h3]; exact h.hL) h4 h5
  obtain ⟨c1, c2, c3, c4⟩ := cross_segment fast q G.L h.hL _ hslot hq.2 σ.sieve h.ok
  have hres : crossRes fast σ q (4 + G.k) =
      crossLoop fast (q / 30) σ.sieve.size (crossFuel σ.sieve.size (W.getD (4 + G.k) ⟨0, 0⟩).multiple)
        (W.getD (4 + G.k) ⟨0, 0⟩).multiple (W.getD (4 + G.k) ⟨0, 0⟩).index σ.sieve := rfl
  rw [← hres] at c1 c2 c3 c4
  have hseg : τ.segmentSize = σ.segmentSize := by unfold State.segmentSize; rw [hs, c3]
  have hqs' : ∀ i, i < G.k → (G.crossed q).qs.getD i 0 = G.qs.getD i 0 := by
    intro i hi
    unfold Ghost.crossed; simp only []
    split
    · rfl
    · rw [list_getD_snoc, if_pos (by have := h.kle; omega)]
  have hqsk : (G.crossed q).qs.getD G.k 0 = q := by
    unfold Ghost.crossed; simp only []
    rcases hav with ⟨h1, h2⟩ | ⟨h1, _⟩
    · rw [if_pos h1]; exact h2
    · rw [if_neg (by omega), list_getD_snoc, if_neg (by omega), if_pos h1]
  have hlen : (G.crossed q).qs.length = if G.k < G.qs.length then G.qs.length else G.qs.length + 1 := by
    unfold Ghost.crossed; simp only []
    split <;> simp
  have hqsAll : ∀ i, i < G.qs.length → (G.crossed q).qs.getD i 0 = G.qs.getD i 0 := by
    intro i hi
    unfold Ghost.crossed; simp only []
    split
    · rfl
    · rw [list_getD_snoc, if_pos hi]
  have hwτ : ∀ i, τ.wheel.getD (4 + i) ⟨0, 0⟩ =
      if i = G.k then ⟨(crossRes fast σ q (4 + G.k)).1 % M32, (crossRes fast σ q (4 + G.k)).2.1⟩
      else W.getD (4 + i) ⟨0, 0⟩ := by
    intro i
    rw [hw, wheel_getD_set]
    by_cases hi : i = G.k
    · subst hi; rw [if_pos ⟨rfl, hWsize⟩, if_pos rfl]
    · rw [if_neg (by omega), if_neg hi]
  constructor
  · exact h.hL
  · rw [hs]; exact c2
  · show G.k + 1 ≤ (G.crossed q).qs.length
    rw [hlen]; have := h.kle; split <;> omega
  · rw [hw, Array.size_setIfInBounds, hlen]
    have := h.wsize
    split <;> omega
  · intro i hi
    rw [hlen] at hi
    by_cases hi2 : i < G.qs.length
    · rw [hqsAll i hi2]; exact h.qs_ok i hi2
    · have : i = G.k := by have := h.kle; split at hi <;> omega
      rw [this, hqsk]; exact hq
  · intro p
    rw [hs, c1 p, h.bits p]
    show _ ↔ (offsetOfBit p < G.n ∧ ∀ i < G.k + 1, ¬ (G.crossed q).qs.getD i 0 ∣ G.L + offsetOfBit p)
    constructor
    · rintro ⟨⟨a, b⟩, c⟩
      refine ⟨a, fun i hi => ?_⟩
      by_cases hik : i < G.k
      · rw [hqs' i hik]; exact b i hik
      · have : i = G.k := by omega
        rw [this, hqsk]; exact c
    · rintro ⟨a, b⟩
      refine ⟨⟨a, fun i hi => ?_⟩, ?_⟩
      · rw [← hqs' i hi]; exact b i (by omega)
      · rw [← hqsk]; exact b G.k (by omega)
  · rw [hseg]; exact h.nle
  · intro i hi
    have hi' : i < G.k + 1 := hi
    rw [hwτ i, hseg]
    by_cases hik : i = G.k
    · rw [if_pos hik, hik, hqsk]
      unfold State.segmentSize
      rw [Nat.mul_comm]; exact c4
    · rw [if_neg hik, hqs' i (by omega), hWother i (by have := h.kle; omega)]
      exact h.done i (by omega)
  · intro i h1 h2
    have h1' : G.k + 1 ≤ i := h1
    rw [hlen] at h2
    have hi2 : i < G.qs.length := by split at h2 <;> omega
    rw [hwτ i, if_neg (by omega), hqsAll i hi2, hWother i hi2]
    exact h.todo i (by omega) hi2

end Pc.Sieve
