/-
C17: the counter part of the object invariant (`CountInv`): counter array, total count and the incremental
`count(stop)` state; preserved by `cross_off_count`, used by `count(stop)`.
-/
import PcProofs.Sieve.Inv

namespace Pc.Sieve
open Pc.WheelSpec

/-- counter array, `total_count_` and the incremental counting state agree with the sieve array -/
structure CountInv (σ : State) : Prop where
  cinv : CInv σ.sieve σ.counter σ.totalCount σ.cDist
  cdist : σ.cDist = 30 * 2 ^ σ.cLog2
  csize : σ.sieve.size ≤ σ.counter.size * 2 ^ σ.cLog2
  small : 8 * σ.sieve.size < M32
  clog : 3 ≤ σ.cLog2
  inc : IncInv σ

theorem CountInv.counterOk {σ : State} (h : CountInv σ) : CounterOk σ := by
  constructor
  · rw [h.cdist]; have := Nat.two_pow_pos σ.cLog2; omega
  · intro j hj
    apply h.cinv.block j
    unfold State.segmentSize at hj; omega

theorem incInv_of_reset (σ : State) (h1 : σ.prevStop = 0) (h2 : σ.count = 0) (h3 : σ.cI = 0) (h4 : σ.cSum = 0)
    (h5 : σ.cStop = σ.cDist) : IncInv σ := by
  refine ⟨?_, ?_, ?_⟩
  · rw [h1, h2, bitsLt_one]
  · rw [h3, h5]; omega
  · rw [h3, h4, Nat.zero_mul]
    unfold bitsLt; symm; apply cnt_zero; intro p _ _; simp

/-- **`cross_off_count` keeps the counters right** (for a wheel slot with a valid case index) -/
theorem CountInv.xc {σ : State} (h : CountInv σ) (q i : ℕ)
    (hidx : ((wheelWith σ q i).getD i ⟨0, 0⟩).index < 64) : CountInv (crossOffCount σ q i) := by
  have hW : (if i ≥ σ.wheel.size then σ.wheel.push (addWheel σ.start q) else σ.wheel) = wheelWith σ q i := rfl
  have key := crossCountLoop_cinv (q / 30) σ.cLog2
    (crossFuel σ.sieve.size ((wheelWith σ q i).getD i ⟨0, 0⟩).multiple)
    ((wheelWith σ q i).getD i ⟨0, 0⟩).multiple ((wheelWith σ q i).getD i ⟨0, 0⟩).index
    σ.sieve σ.counter σ.totalCount hidx h.small h.csize (by rw [← h.cdist]; exact h.cinv)
  have hsz : (crossOffCount σ q i).sieve.size = σ.sieve.size := by
    rw [crossOffCount_sieve]
    -- the loop never changes the size of the array
    have : ∀ (fuel m idx : ℕ) (s : Bytes), (crossLoop false (q / 30) σ.sieve.size fuel m idx s).2.2.size = s.size := by
      intro fuel
      induction fuel with
      | zero => intro m idx s; rfl
      | succ n ih =>
        intro m idx s
        simp only [crossLoop, Bool.false_and, Bool.false_eq_true, if_false]
        split
        · rfl
        · rw [ih, Array.size_modify]
    exact this _ _ _ _
  have hcsz : ∀ (fuel m idx : ℕ) (s : Bytes) (c : Array ℕ) (t : ℕ),
      (crossCountLoop (q / 30) σ.sieve.size σ.cLog2 fuel m idx s c t).2.2.2.1.size = c.size := by
    intro fuel
    induction fuel with
    | zero => intro m idx s c t; rfl
    | succ n ih =>
      intro m idx s c t
      simp only [crossCountLoop]
      split
      · rfl
      · rw [ih, Array.size_modify]
  constructor
  · show CInv (crossCountLoop _ _ _ _ _ _ _ _ _).2.2.1 (crossCountLoop _ _ _ _ _ _ _ _ _).2.2.2.1
      (crossCountLoop _ _ _ _ _ _ _ _ _).2.2.2.2 σ.cDist
    rw [h.cdist]; exact key
  · exact h.cdist
  · rw [hsz]
    show σ.sieve.size ≤ (crossCountLoop (q / 30) σ.sieve.size σ.cLog2 _ _ _ σ.sieve σ.counter σ.totalCount).2.2.2.1.size
      * 2 ^ σ.cLog2
    rw [hcsz]; exact h.csize
  · rw [hsz]; exact h.small
  · exact h.clog
  · exact incInv_of_reset _ rfl rfl rfl rfl rfl

/-- `count(stop)` does not disturb the counter invariant -/
theorem CountInv.of_same {σ τ : State} (h : CountInv σ) (hs : SameData σ τ) (hi : IncInv τ) : CountInv τ := by
  obtain ⟨s1, _, s3, s4, s5, _, s7, _⟩ := hs
  exact ⟨by rw [s1, s3, s4, s7]; exact h.cinv, by rw [s4, s5]; exact h.cdist, by rw [s1, s3, s5]; exact h.csize,
    by rw [s1]; exact h.small, by rw [s5]; exact h.clog, hi⟩

theorem BitsInv.of_same {σ τ : State} {G : Ghost} (h : BitsInv σ G) (hs : SameData σ τ) : BitsInv τ G := by
  obtain ⟨s1, s2, _, _, _, _, _, _⟩ := hs
  have hseg : τ.segmentSize = σ.segmentSize := by unfold State.segmentSize; rw [s1]
  exact ⟨h.hL, by rw [s1]; exact h.ok, h.kle, by rw [s2]; exact h.wsize, h.qs_ok, by rw [s1]; exact h.bits,
    by rw [hseg]; exact h.nle, by rw [s2, hseg]; exact h.done, by rw [s2]; exact h.todo⟩

end Pc.Sieve
