/-
C17: the whole object.  For every disciplined history (any number of consecutive segments starting at any
offset divisible by 30, any `pre_sieve`, any `cross_off_count` order the specification machine accepts, any
non-decreasing `count(stop)` queries, `count(a, b)`, `get_total_count()`), every value returned by the model
of `class Sieve` equals the naive count from the definition (`specCount`).
-/
import PcProofs.Sieve.SpecCount

namespace Pc.Sieve
open Pc.WheelSpec

/-- after a finished segment the slots used in it are ready for the next one -/
theorem ready_of_inv {σ : State} {G : Ghost} (hb : BitsInv σ G) (hc : CountInv σ) :
    Ready σ (G.L + σ.segmentSize) (G.qs.take G.k) := by
  have hlen : (G.qs.take G.k).length = G.k := by rw [List.length_take]; have := hb.kle; omega
  have hget : ∀ i, i < G.k → (G.qs.take G.k).getD i 0 = G.qs.getD i 0 := by
    intro i hi
    rw [List.getD_eq_getElem?_getD, List.getD_eq_getElem?_getD, List.getElem?_take, if_pos hi]
  constructor
  · obtain ⟨c, hc'⟩ := hb.hL
    unfold State.segmentSize
    exact ⟨c + σ.sieve.size, by rw [hc']; ring⟩
  · exact hb.ok.words
  · rw [hlen]; have := hb.wsize; have := hb.kle; omega
  · intro i hi; rw [hlen] at hi; rw [hget i hi]; exact hb.qs_ok i (by have := hb.kle; omega)
  · intro i hi; rw [hlen] at hi; rw [hget i hi]; exact hb.done i hi
  · exact hc.cdist
  · exact hc.clog
  · exact hc.csize
  · exact hc.small

/-- the freshly constructed object is ready for its first segment -/
theorem ready_new (low seg e : ℕ) (hlow : 30 ∣ low) (he : 3 ≤ e) (hsmall : alignSegmentSize seg / 30 * 8 < M32) :
    Ready (new low seg (2 ^ e)) low [] := by
  have hal : alignSegmentSize seg % 240 = 0 := by
    unfold alignSegmentSize
    simp only [bne_iff_ne, ne_eq, ite_not]
    split <;> omega
  constructor
  · exact hlow
  · show (Array.replicate (alignSegmentSize seg / 30) 0).size % 8 = 0
    rw [Array.size_replicate]; omega
  · show 4 + 0 ≤ (Array.replicate 4 (⟨0, 0⟩ : Wheel)).size
    rw [Array.size_replicate]
  · intro i hi; exact absurd hi (Nat.not_lt_zero _)
  · intro i hi; exact absurd hi (Nat.not_lt_zero _)
  · show 2 ^ e * 30 = 30 * 2 ^ (Nat.log2 (2 ^ e))
    rw [Nat.log2_two_pow]; ring
  · show 3 ≤ Nat.log2 (2 ^ e)
    rw [Nat.log2_two_pow]; exact he
  · show (Array.replicate (alignSegmentSize seg / 30) 0).size ≤
      (Array.replicate (ceilDiv (alignSegmentSize seg / 30) (2 ^ e)) 0).size * 2 ^ (Nat.log2 (2 ^ e))
    rw [Array.size_replicate, Array.size_replicate, Nat.log2_two_pow]
    unfold ceilDiv
    have hpos : 0 < 2 ^ e := Nat.two_pow_pos e
    have := Nat.lt_div_mul_add hpos (a := alignSegmentSize seg / 30 + 2 ^ e - 1)
    have := Nat.div_mul_le_self (alignSegmentSize seg / 30 + 2 ^ e - 1) (2 ^ e)
    omega
  · show 8 * (Array.replicate (alignSegmentSize seg / 30) 0).size < M32
    rw [Array.size_replicate]; omega

/-- what links the model state to the specification state -/
structure RunInv (σ : State) (sp : SpecState) : Prop where
  start : σ.start = sp.st
  ws : σ.wheel.size = sp.ws
  seg : σ.segmentSize = sp.segSize
  pre : sp.inited = false → Ready σ sp.G.L [] ∧ sp.G.k = 0 ∧ sp.G.qs = []
  post : sp.inited = true → BitsInv σ sp.G ∧ CountInv σ ∧ σ.prevStop = sp.prevStop

theorem bitsLt_zero (s : Bytes) : bitsLt s 0 = 0 := by
  unfold bitsLt; apply cnt_zero; intro p _ _; simp

theorem wheelWith_size' (σ : State) (G : Ghost) (h : BitsInv σ G) (q : ℕ) (hav : Avail σ G q) :
    (wheelWith σ q (4 + G.k)).size = if G.k < G.qs.length then σ.wheel.size else σ.wheel.size + 1 :=
  wheelWith_size σ G h q hav

theorem specOp_pre_inv (primes : Array ℕ) (sp sp' : SpecState) (c lo hi : ℕ) (out : Option ℕ)
    (h : specOp primes sp (.pre c lo hi) = some (sp', out)) :
    lo < hi ∧ hi - lo ≤ sp.segSize ∧ lo = (if sp.inited = true then sp.G.L + sp.segSize else sp.G.L) ∧
    AvailAll sp.ws sp.st ⟨if sp.inited = true then sp.G.L + sp.segSize else sp.G.L, hi - lo, sp.G.qs.take sp.G.k, 0⟩
      (preList primes c) ∧
    sp' = { sp with
      G := (⟨if sp.inited = true then sp.G.L + sp.segSize else sp.G.L, hi - lo, sp.G.qs.take sp.G.k, 0⟩ : Ghost).crossedAll
        (preList primes c),
      segSize := if hi - lo < sp.segSize then alignSegmentSize (hi - lo) else sp.segSize,
      ws := wsAfter sp.ws ⟨if sp.inited = true then sp.G.L + sp.segSize else sp.G.L, hi - lo, sp.G.qs.take sp.G.k, 0⟩
        (preList primes c),
      prevStop := 0, inited := true } ∧ out = none := by
  unfold specOp at h
  simp only [] at h
  by_cases hc : lo < hi ∧ hi - lo ≤ sp.segSize ∧ lo = (if sp.inited = true then sp.G.L + sp.segSize else sp.G.L) ∧
      AvailAll sp.ws sp.st ⟨if sp.inited = true then sp.G.L + sp.segSize else sp.G.L, hi - lo, sp.G.qs.take sp.G.k, 0⟩
        (preList primes c)
  · rw [if_pos hc] at h
    injection h with h
    injection h with e1 e2
    exact ⟨hc.1, hc.2.1, hc.2.2.1, hc.2.2.2, e1.symm, e2.symm⟩
  · rw [if_neg hc] at h
    exact absurd h (by simp)

/-- **one call**: if the specification machine accepts it, the model returns the specified value and the link
    between the two states is maintained -/
theorem step_correct (cfg : Cfg) (primes : Array ℕ) (σ : State) (sp sp' : SpecState) (op : Op) (out : Option ℕ)
    (hinv : RunInv σ sp) (hspec : specOp primes sp op = some (sp', out)) :
    (applyOp cfg primes σ op).2 = out ∧ RunInv (applyOp cfg primes σ op).1 sp' := by
  cases op with
  | pre c lo hi =>
    obtain ⟨h1, h2, h3, h4, e1, e2⟩ := specOp_pre_inv primes sp sp' c lo hi out hspec
    subst e1; subst e2
    -- the object is ready for the segment starting at L'
    have hready : Ready σ (if sp.inited = true then sp.G.L + sp.segSize else sp.G.L) (sp.G.qs.take sp.G.k) := by
      by_cases hin : sp.inited = true
      · rw [if_pos hin, ← hinv.seg]
        obtain ⟨b1, b2, _⟩ := hinv.post hin
        exact ready_of_inv b1 b2
      · have hin' : sp.inited = false := by simpa using hin
        rw [if_neg hin]
        obtain ⟨r1, r2, r3⟩ := hinv.pre hin'
        rw [r2, r3]; exact r1
    obtain ⟨p1, p2, p3, p4, p5, p6, p7⟩ := preSieve_spec cfg σ _ _ hready primes c (hi - lo) (by omega)
      (by rw [hinv.seg]; exact h2) (by rw [hinv.ws, hinv.start]; exact h4)
    refine ⟨rfl, ⟨?_, ?_, ?_, ?_, ?_⟩⟩
    · show (preSieve cfg σ primes c (hi - lo)).start = sp.st
      rw [p4, hinv.start]
    · show (preSieve cfg σ primes c (hi - lo)).wheel.size = _
      rw [p5, hinv.ws]
    · show (preSieve cfg σ primes c (hi - lo)).segmentSize = _
      rw [p6, hinv.seg]
    · intro h; exact absurd h (by simp)
    · intro _; exact ⟨p1, p2, p7⟩
  | cross p i => simp [specOp] at hspec
  | crossCount q i =>
    simp only [specOp] at hspec
    split at hspec
    · rename_i hcond
      obtain ⟨h1, h2, h3⟩ := hcond
      injection hspec with hspec
      injection hspec with e1 e2
      subst e1; subst e2; subst h2
      obtain ⟨b1, b2, b3⟩ := hinv.post h1
      have hav : Avail σ sp.G q := by unfold Avail; rw [hinv.ws, hinv.start]; exact h3
      have hB := b1.cross false q hav (crossOffCount σ q (4 + sp.G.k)) (crossOffCount_sieve σ q _)
        (crossOffCount_wheel σ q _) rfl
      have hC := b2.xc q (4 + sp.G.k) (b1.slot_index q hav)
      refine ⟨rfl, ⟨?_, ?_, ?_, ?_, ?_⟩⟩
      · show (crossOffCount σ q (4 + sp.G.k)).start = sp.st
        exact hinv.start
      · show (crossOffCount σ q (4 + sp.G.k)).wheel.size = _
        rw [crossOffCount_wheel, Array.size_setIfInBounds, wheelWith_size' σ sp.G b1 q hav, hinv.ws]
      · show (crossOffCount σ q (4 + sp.G.k)).sieve.size * 30 = sp.segSize
        rw [crossOffCount_sieve]
        have : (crossRes false σ q (4 + sp.G.k)).2.2.size = σ.sieve.size := crossLoop_size _ _ _ _ _ _ _
        rw [this]; exact hinv.seg
      · intro h; rw [h1] at h; exact absurd h (by simp)
      · intro _; exact ⟨hB, hC, rfl⟩
    · exact absurd hspec (by simp)
  | count f stop =>
    simp only [specOp] at hspec
    split at hspec
    · rename_i hcond
      obtain ⟨h1, h2, h3⟩ := hcond
      injection hspec with hspec
      injection hspec with e1 e2
      subst e1; subst e2
      obtain ⟨b1, b2, b3⟩ := hinv.post h1
      have hsz : σ.sieve.size < 2 ^ 58 := by have := b2.small; simp only [M32] at this; omega
      obtain ⟨c1, c2, c3, c4⟩ := countStop_correct f σ b1.ok hsz b2.counterOk b2.inc stop (by rw [b3]; exact h2)
        (by rw [hinv.seg]; exact h3)
      have hval : (countStop f σ stop).2 = specCount sp.G.L sp.G.n (sp.G.qs.take sp.G.k) 0 stop := by
        rw [c1, bitsLt_split σ.sieve 0 stop (by omega), bitsLt_zero, Nat.zero_add]
        exact bitsIn_eq_specCount σ sp.G b1 0 stop (Nat.zero_le _) (by rw [hinv.seg]; exact h3)
      have hseg : (countStop f σ stop).1.segmentSize = σ.segmentSize := by
        unfold State.segmentSize; rw [c3.1]
      refine ⟨by show some (countStop f σ stop).2 = _; rw [hval], ⟨?_, ?_, ?_, ?_, ?_⟩⟩
      · show (countStop f σ stop).1.start = sp.st
        rw [c3.2.2.2.2.2.1, hinv.start]
      · show (countStop f σ stop).1.wheel.size = sp.ws
        rw [c3.2.1, hinv.ws]
      · show (countStop f σ stop).1.segmentSize = sp.segSize
        rw [hseg, hinv.seg]
      · intro h; rw [h1] at h; exact absurd h (by simp)
      · intro _; exact ⟨b1.of_same c3, b2.of_same c3 c2, c4⟩
    · exact absurd hspec (by simp)
  | range a b =>
    simp only [specOp] at hspec
    split at hspec
    · rename_i hcond
      obtain ⟨h1, h2⟩ := hcond
      injection hspec with hspec
      injection hspec with e1 e2
      subst e1; subst e2
      obtain ⟨b1, b2, b3⟩ := hinv.post h1
      refine ⟨?_, hinv⟩
      show some (countRange cfg σ a b) = _
      congr 1
      unfold countRange
      by_cases hab : a > b
      · rw [if_pos hab, if_pos hab]
      · rw [if_neg hab, if_neg hab]
        have hb : b < sp.segSize := by rcases h2 with h | h; exact absurd h hab; exact h
        have hb' : b < 30 * σ.sieve.size := by have := hinv.seg; unfold State.segmentSize at this; omega
        rw [countWords_bitsIn cfg σ.sieve b1.ok b2.small a b (by omega) hb']
        exact bitsIn_eq_specCount σ sp.G b1 a b (by omega) (by rw [hinv.seg]; exact hb)
    · exact absurd hspec (by simp)
  | total =>
    simp only [specOp] at hspec
    split at hspec
    · rename_i h1
      injection hspec with hspec
      injection hspec with e1 e2
      subst e1; subst e2
      obtain ⟨b1, b2, b3⟩ := hinv.post h1
      refine ⟨?_, hinv⟩
      show some σ.totalCount = _
      congr 1
      rw [b2.cinv.total]
      by_cases hz : σ.sieve.size = 0
      · have hseg0 : sp.segSize = 0 := by rw [← hinv.seg]; unfold State.segmentSize; rw [hz]
        have hn0 : sp.G.n = 0 := by have := b1.nle; rw [hinv.seg, hseg0] at this; omega
        rw [hz, hseg0, hn0, Nat.mul_zero, bitsLt_zero]
        unfold specCount
        simp
      · have hpos : 1 ≤ 30 * σ.sieve.size := by omega
        have e : 30 * σ.sieve.size = (30 * σ.sieve.size - 1) + 1 := by omega
        rw [e, bitsLt_split σ.sieve 0 (30 * σ.sieve.size - 1) (by omega), bitsLt_zero, Nat.zero_add]
        have hs : sp.segSize - 1 = 30 * σ.sieve.size - 1 := by
          rw [← hinv.seg]; unfold State.segmentSize; omega
        rw [hs]
        exact bitsIn_eq_specCount σ sp.G b1 0 _ (Nat.zero_le _) (by unfold State.segmentSize; omega)
    · exact absurd hspec (by simp)

/-- **Every disciplined history** -/
theorem run_correct (cfg : Cfg) (primes : Array ℕ) : ∀ (ops : List Op) (σ : State) (sp : SpecState) (outs : List ℕ),
    RunInv σ sp → specRun primes sp ops = some outs → runOps cfg primes σ ops = outs
  | [], _, _, outs, _, h => by
    simp only [specRun, Option.some.injEq] at h
    subst h; rfl
  | op :: rest, σ, sp, outs, hinv, h => by
    simp only [specRun] at h
    split at h
    · exact absurd h (by simp)
    · rename_i sp' out hstep
      obtain ⟨s1, s2⟩ := step_correct cfg primes σ sp sp' op out hinv hstep
      split at h
      · exact absurd h (by simp)
      · rename_i outs' hrest
        injection h with h
        have ih := run_correct cfg primes rest _ sp' outs' s2 hrest
        simp only [runOps]
        rw [s1]
        cases out with
        | none => simp only [] at h ⊢; rw [ih]; exact h
        | some v => simp only [] at h ⊢; rw [ih]; exact h

end Pc.Sieve

namespace Pc.Sieve

/-- the counter granularity chosen by `allocate_counter` is a power of two `≥ 8`, whatever the floating point
    computation returned -/
theorem counterBytes_pow2 (low bci : ℕ) (hb : 8 ≤ bci) : ∃ e, 3 ≤ e ∧ counterBytes low bci = 2 ^ e := by
  unfold counterBytes
  simp only []
  generalize (Float.sqrt (Float.sqrt low.toFloat) * Float.sqrt (bci * 30).toFloat).toUInt64.toNat / 30 = d
  have hx : 64 ≤ max d (bci * 8) := by omega
  generalize max d (bci * 8) = x at hx
  unfold nextPow2
  rw [if_neg (by omega)]
  refine ⟨Nat.log2 (x - 1) + 1, ?_, rfl⟩
  have : 2 ≤ Nat.log2 (x - 1) := (Nat.le_log2 (by omega)).mpr (by omega)
  omega

/-- **The segmented counting sieve answers every query exactly.**  Construct the object at any `low` divisible
    by 30 with any segment size (array < 2^29 bytes), under any CPU configuration; run ANY disciplined history
    (`specRun … = some outs`: consecutive segments, any `pre_sieve`, any accepted `cross_off_count`, non-decreasing
    `count(stop)` through any of the three instruction paths, `count(a, b)`, `get_total_count()`): every returned
    value equals the naive count from the definition. -/
theorem sieve_correct (cfg : Cfg) (primes : Array ℕ) (low seg : ℕ) (hlow : 30 ∣ low)
    (hsmall : alignSegmentSize seg / 30 * 8 < M32) (ops : List Op) (outs : List ℕ)
    (h : specRun primes (specInit low seg) ops = some outs) :
    runOps cfg primes (create cfg low seg) ops = outs := by
  obtain ⟨e, he, hbytes⟩ := counterBytes_pow2 low cfg.bci (by cases cfg <;> decide)
  apply run_correct cfg primes ops _ (specInit low seg) outs _ h
  unfold create
  rw [hbytes]
  have hal : alignSegmentSize seg % 240 = 0 := by
    unfold alignSegmentSize
    simp only [bne_iff_ne, ne_eq, ite_not]
    split <;> omega
  refine ⟨rfl, ?_, ?_, ?_, ?_⟩
  · show (Array.replicate 4 (⟨0, 0⟩ : Wheel)).size = 4
    rw [Array.size_replicate]
  · show (Array.replicate (alignSegmentSize seg / 30) 0).size * 30 = alignSegmentSize seg
    rw [Array.size_replicate]; omega
  · intro _
    exact ⟨ready_new low seg e hlow he hsmall, rfl, rfl⟩
  · intro hh; exact absurd hh (by simp [specInit])

end Pc.Sieve
