/-
C15: the three bit counting paths (AVX512 8-lane loop with masked tail, POPCNT, portable SWAR) compute the
same value: the sum of the population counts of the (masked) words, modulo 2^64.
-/
import PcProofs.Sieve.Popcount

namespace Pc.Sieve

/-- `Σ_{t < n} f (a + t)` -/
def sumFrom (f : ℕ → ℕ) : ℕ → ℕ → ℕ
  | _, 0 => 0
  | a, n + 1 => f a + sumFrom f (a + 1) n

theorem sumFrom_add (f : ℕ → ℕ) : ∀ (a m n : ℕ), sumFrom f a (m + n) = sumFrom f a m + sumFrom f (a + m) n
  | a, 0, n => by simp [sumFrom]
  | a, m + 1, n => by
    have e : m + 1 + n = (m + n) + 1 := by omega
    rw [e]; simp only [sumFrom]
    rw [sumFrom_add f (a + 1) m n, show a + 1 + m = a + (m + 1) by omega]; omega

/-- what every path computes (before reduction modulo 2^64): population counts of the two masked border
    words plus those of the words strictly between -/
def countSpec (w : ℕ → ℕ) (start stop : ℕ) : ℕ :=
  let p := countPrologue w start stop
  popCount64 p.2.2.1 + popCount64 p.2.2.2 +
    sumFrom (fun i => popCount64 (w i)) (p.1 + 1) (p.2.1 - (p.1 + 1))

theorem popcnt64_eq (hw : Bool) (x : ℕ) (hx : x < M64) : popcnt64 hw x = popCount64 x := by
  cases hw
  · simp [popcnt64, swar_popcount_eq x hx]
  · simp [popcnt64, popcntHw]

theorem sumWords_eq (pc : ℕ → ℕ) (w : ℕ → ℕ) : ∀ (n i acc : ℕ), acc < M64 →
    sumWords pc w n i acc = (acc + sumFrom (fun i => pc (w i)) i n) % M64
  | 0, i, acc, h => by simp [sumWords, sumFrom, Nat.mod_eq_of_lt h]
  | n + 1, i, acc, h => by
    have hM : 0 < M64 := by decide
    simp only [sumWords, sumFrom]
    rw [sumWords_eq pc w n (i + 1) _ (Nat.mod_lt _ hM), Nat.add_mod, Nat.mod_mod, ← Nat.add_mod]
    congr 1; omega

theorem sumFrom_congr (f g : ℕ → ℕ) (h : ∀ i, f i = g i) : ∀ a n, sumFrom f a n = sumFrom g a n
  | _, 0 => rfl
  | a, n + 1 => by simp only [sumFrom]; rw [h a, sumFrom_congr f g h (a + 1) n]

theorem and_lt_M64 (x m : ℕ) (hx : x < M64) : x &&& m < M64 := lt_of_le_of_lt Nat.and_le_left hx

/-- `count_popcnt64(start, stop)` with either `popcnt64` implementation -/
theorem countPopcnt64_eq (hw : Bool) (w : ℕ → ℕ) (hwlt : ∀ i, w i < M64) (start stop : ℕ) :
    countPopcnt64 (popcnt64 hw) w start stop = countSpec w start stop % M64 := by
  have hM : 0 < M64 := by decide
  unfold countPopcnt64 countSpec
  simp only []
  rw [sumWords_eq _ _ _ _ _ (Nat.mod_lt _ hM)]
  have e1 : popcnt64 hw (countPrologue w start stop).2.2.1 = popCount64 (countPrologue w start stop).2.2.1 :=
    popcnt64_eq hw _ (by unfold countPrologue; simp only []; exact and_lt_M64 _ _ (hwlt _))
  have e2 : popcnt64 hw (countPrologue w start stop).2.2.2 = popCount64 (countPrologue w start stop).2.2.2 :=
    popcnt64_eq hw _ (by unfold countPrologue; simp only []; exact and_lt_M64 _ _ (hwlt _))
  rw [e1, e2, sumFrom_congr (fun i => popcnt64 hw (w i)) (fun i => popCount64 (w i))
    (fun i => popcnt64_eq hw _ (hwlt i)), Nat.add_mod, Nat.mod_mod, ← Nat.add_mod]

/-! ### AVX512 -/

theorem vreduce_go : ∀ (v : List ℕ) (acc : ℕ), acc < M64 →
    v.foldl (fun a b => (a + b) % M64) acc = (acc + v.sum) % M64
  | [], acc, h => by simp [Nat.mod_eq_of_lt h]
  | b :: v, acc, h => by
    have hM : 0 < M64 := by decide
    simp only [List.foldl_cons, List.sum_cons]
    rw [vreduce_go v _ (Nat.mod_lt _ hM), Nat.add_mod, Nat.mod_mod, ← Nat.add_mod]
    congr 1; omega

theorem vreduce_eq (v : Vec) : vreduce v = v.sum % M64 := by
  unfold vreduce; rw [vreduce_go v 0 (by decide)]; simp

theorem vadd_sum : ∀ (a b : List ℕ), a.length = b.length →
    (vadd a b).sum % M64 = (a.sum + b.sum) % M64
  | [], [], _ => by simp [vadd]
  | x :: a, y :: b, h => by
    have ih := vadd_sum a b (by simpa using h)
    simp only [vadd, List.zipWith_cons_cons, List.sum_cons] at ih ⊢
    rw [Nat.add_mod, Nat.mod_mod, ih, ← Nat.add_mod]
    congr 1; omega
  | [], _ :: _, h => by simp at h
  | _ :: _, [], h => by simp at h

theorem vadd_length (a b : List ℕ) (h : a.length = b.length) : (vadd a b).length = a.length := by
  simp [vadd, h]

theorem sum_map_range_eq_sumFrom (f : ℕ → ℕ) (a : ℕ) : ∀ n, ((List.range n).map fun k => f (a + k)).sum = sumFrom f a n := by
  intro n
  induction n generalizing a with
  | zero => simp [sumFrom]
  | succ n ih =>
    rw [List.range_succ_eq_map, List.map_cons, List.sum_cons, List.map_map]
    simp only [sumFrom, Nat.add_zero]
    congr 1
    rw [← ih (a + 1)]
    congr 1
    apply List.map_congr_left
    intro k _; simp only [Function.comp]; congr 1; omega

theorem vload_sum (w : ℕ → ℕ) (i : ℕ) :
    (vpopcnt (vload w i)).sum = sumFrom (fun i => popCount64 (w i)) i 8 := by
  unfold vpopcnt vload
  rw [List.map_map, ← sum_map_range_eq_sumFrom]; rfl

theorem popCount64_zero : popCount64 0 = 0 := by decide

/-- the masked tail load: the mask `0xff >> d` selects exactly the lanes `k` with `k + d < 8` -/
theorem mask_testBit (d k : ℕ) (hk : k < 8) : ((0xff >>> d) % 256).testBit k = decide (k + d < 8) := by
  have e : (256 : ℕ) = 2 ^ 8 := by decide
  have e2 : (0xff : ℕ) = 2 ^ 8 - 1 := by decide
  rw [e, Nat.testBit_mod_two_pow, Nat.testBit_shiftRight, e2, Nat.testBit_two_pow_sub_one]
  simp [hk, Nat.add_comm]

theorem sum_map_const_zero {α : Type} (g : α → ℕ) (hg : ∀ x, g x = 0) : ∀ l : List α, (l.map g).sum = 0
  | [] => rfl
  | x :: l => by simp [hg x, sum_map_const_zero g hg l]

theorem sum_map_range_masked (f : ℕ → ℕ) (a m : ℕ) : ∀ n, m ≤ n →
    ((List.range n).map fun k => if k < m then f (a + k) else 0).sum = sumFrom f a m := by
  intro n
  induction n generalizing a m with
  | zero => intro h; have : m = 0 := by omega
            subst this; simp [sumFrom]
  | succ n ih =>
    intro h
    rw [List.range_succ_eq_map, List.map_cons, List.sum_cons, List.map_map]
    cases m with
    | zero =>
      simp only [sumFrom, Nat.not_lt_zero, if_false]
      rw [Nat.zero_add]; exact sum_map_const_zero _ (fun x => rfl) _
    | succ m =>
      simp only [sumFrom, Nat.zero_lt_succ, if_true, Nat.add_zero]
      congr 1
      rw [← ih (a + 1) m (by omega)]
      congr 1
      apply List.map_congr_left
      intro k _
      simp only [Function.comp, Nat.succ_eq_add_one, Nat.add_lt_add_iff_right]
      by_cases hk : k < m
      · simp only [hk, if_true]; congr 1; omega
      · simp only [hk, if_false]

attribute [local irreducible] popCount64

theorem vloadMask_sum (w : ℕ → ℕ) (i d : ℕ) :
    (vpopcnt (vloadMask ((0xff >>> d) % 256) w i)).sum = sumFrom (fun i => popCount64 (w i)) i (8 - d) := by
  unfold vpopcnt vloadMask
  rw [List.map_map, ← sum_map_range_masked (fun i => popCount64 (w i)) i (8 - d) 8 (by omega)]
  have key : ∀ k ∈ List.range 8,
      (popCount64 ∘ fun k => if ((0xff >>> d) % 256).testBit k then w (i + k) else 0) k =
      (fun k => if k < 8 - d then (fun i => popCount64 (w i)) (i + k) else 0) k := by
    intro k hk
    have hk8 : k < 8 := by simpa using hk
    simp only [Function.comp, mask_testBit d k hk8]
    by_cases h : k + d < 8
    · have : k < 8 - d := by omega
      simp [h, this]
    · have : ¬ k < 8 - d := by omega
      simp [h, this, popCount64_zero]
  rw [List.map_congr_left key]

/-- loop invariant of the 8-lane loop -/
theorem avxLoop_spec (w : ℕ → ℕ) (stopIdx : ℕ) : ∀ (fuel i : ℕ) (v : Vec), v.length = 8 → stopIdx ≤ fuel + i →
    (avxLoop w stopIdx fuel i v).2.length = 8 ∧ i ≤ (avxLoop w stopIdx fuel i v).1 ∧
    ((avxLoop w stopIdx fuel i v).1 = i ∨ (avxLoop w stopIdx fuel i v).1 < stopIdx) ∧
    ¬ ((avxLoop w stopIdx fuel i v).1 + 8 < stopIdx) ∧
    (avxLoop w stopIdx fuel i v).2.sum % M64 =
      (v.sum + sumFrom (fun i => popCount64 (w i)) i ((avxLoop w stopIdx fuel i v).1 - i)) % M64
  | 0, i, v, hv, hf => by
    have e : avxLoop w stopIdx 0 i v = (i, v) := rfl
    rw [e]
    refine ⟨hv, le_refl _, Or.inl rfl, by omega, ?_⟩
    simp [sumFrom]
  | fuel + 1, i, v, hv, hf => by
    by_cases hc : i + 8 < stopIdx
    · have e : avxLoop w stopIdx (fuel + 1) i v = avxLoop w stopIdx fuel (i + 8) (vadd v (vpopcnt (vload w i))) := by
        simp only [avxLoop, hc, if_true]
      have hlen2 : (vpopcnt (vload w i)).length = 8 := by simp [vpopcnt, vload]
      have hlen : (vadd v (vpopcnt (vload w i))).length = 8 := by
        rw [vadd_length _ _ (by rw [hv, hlen2])]; exact hv
      obtain ⟨h1, h2, h3, h4, h5⟩ :=
        avxLoop_spec w stopIdx fuel (i + 8) (vadd v (vpopcnt (vload w i))) hlen (by omega)
      rw [e]
      set r := avxLoop w stopIdx fuel (i + 8) (vadd v (vpopcnt (vload w i))) with hr
      refine ⟨h1, by omega, Or.inr (by rcases h3 with h | h <;> omega), h4, ?_⟩
      rw [h5, Nat.add_mod, vadd_sum v _ (by rw [hv, hlen2]), ← Nat.add_mod, vload_sum]
      have e' : r.1 - i = 8 + (r.1 - (i + 8)) := by omega
      rw [e', sumFrom_add]
      congr 1; omega
    · have e : avxLoop w stopIdx (fuel + 1) i v = (i, v) := by
        simp only [avxLoop, hc, if_false]
      rw [e]
      refine ⟨hv, le_refl _, Or.inl rfl, hc, ?_⟩
      simp [sumFrom]

/-- `count_avx512(start, stop)` -/
theorem countAvx512_eq (w : ℕ → ℕ) (start stop : ℕ) :
    countAvx512 w start stop = countSpec w start stop % M64 := by
  unfold countAvx512 countSpec
  simp only []
  generalize countPrologue w start stop = p
  obtain ⟨si, ti, sb, tb⟩ := p
  simp only []
  have hv0len : (vpopcnt [sb, tb, 0, 0, 0, 0, 0, 0]).length = 8 := by simp [vpopcnt]
  have hv0sum : (vpopcnt [sb, tb, 0, 0, 0, 0, 0, 0]).sum = popCount64 sb + popCount64 tb := by
    simp [vpopcnt, popCount64_zero]
  obtain ⟨h1, h2, h3, h4, h5⟩ := avxLoop_spec w ti (ti + 1) (si + 1) _ hv0len (by omega)
  generalize avxLoop w ti (ti + 1) (si + 1) (vpopcnt [sb, tb, 0, 0, 0, 0, 0, 0]) = r at h1 h2 h3 h4 h5 ⊢
  obtain ⟨ri, rv⟩ := r
  simp only [] at h1 h2 h3 h4 h5 ⊢
  have hlen3 : (vpopcnt (vloadMask ((0xff >>> (ri + 8 - ti)) % 256) w ri)).length = 8 := by
    simp [vpopcnt, vloadMask]
  rw [vreduce_eq, vadd_sum _ _ (by rw [h1, hlen3]), Nat.add_mod, h5, ← Nat.add_mod,
    vloadMask_sum, hv0sum]
  have e : 8 - (ri + 8 - ti) = ti - ri := by omega
  rw [e]
  have e2 : ti - (si + 1) = (ri - (si + 1)) + (ti - ri) := by
    rcases h3 with h | h <;> omega
  rw [e2, sumFrom_add]
  have e3 : si + 1 + (ri - (si + 1)) = ri := by omega
  rw [e3]
  congr 1; omega

/-- **All instruction-set paths count the same.**  For every word array (`w i < 2^64`), every `start`, `stop`:
    the AVX512 routine, `count_popcnt64` with the POPCNT instruction and `count_popcnt64` with the portable
    SWAR popcount all return the sum of the population counts (mod 2^64). -/
theorem count_paths_equal (w : ℕ → ℕ) (hw : ∀ i, w i < M64) (start stop : ℕ) :
    countAvx512 w start stop = countSpec w start stop % M64 ∧
    countPopcnt64 (popcnt64 true) w start stop = countSpec w start stop % M64 ∧
    countPopcnt64 (popcnt64 false) w start stop = countSpec w start stop % M64 :=
  ⟨countAvx512_eq w start stop, countPopcnt64_eq true w hw start stop, countPopcnt64_eq false w hw start stop⟩

theorem countWords_eq (cfg : Cfg) (w : ℕ → ℕ) (hw : ∀ i, w i < M64) (start stop : ℕ) :
    countWords cfg w start stop = countSpec w start stop % M64 := by
  cases cfg
  · exact countAvx512_eq w start stop
  · exact countPopcnt64_eq true w hw start stop
  · exact countPopcnt64_eq false w hw start stop

theorem stopFn_count_eq (f : StopFn) (w : ℕ → ℕ) (hw : ∀ i, w i < M64) (start stop : ℕ) :
    f.count w start stop = countSpec w start stop % M64 := by
  cases f with
  | avx512 => exact countAvx512_eq w start stop
  | pop64 hwb => exact countPopcnt64_eq hwb w hw start stop

end Pc.Sieve
