/-
C17: the 64-case switch of `Sieve::cross_off` / `Sieve::cross_off_count` — main loop invariant, termination,
and the counter bookkeeping of `COUNT_UNSET_BIT`.
-/
import PcProofs.Sieve.CrossLoop

namespace Pc.Sieve
open Pc.WheelSpec

section main
variable (q P g L size : ℕ) (hq : q = 30 * P + rho g) (hg : g < 8) (hL : 30 ∣ L)
include hq hg hL

/-- **The switch of `cross_off`** (with or without the unrolled blocks): started at the pending multiple `q·u`
    it clears exactly the bits of the multiples `q·t`, `u0 ≤ t < u'`, where `q·u'` is the first pending multiple
    that lies beyond the segment; the returned wheel state describes `q·u'`. -/
theorem crossLoop_spec (fast : Bool) (u0 : ℕ) (s0 : Bytes) :
    ∀ (fuel m j u : ℕ) (s : Bytes), Pos q L m j u → u0 ≤ u → Bits q L u0 u s0 s → Below q L size u0 u →
    BytesOk s → 8 * (size - m) + (8 - j) < fuel →
    ∃ u' j', (crossLoop fast P size fuel m (8 * g + j) s).2.1 = 8 * g + j' ∧
      Pos q L ((crossLoop fast P size fuel m (8 * g + j) s).1 + size) j' u' ∧ u ≤ u' ∧
      Bits q L u0 u' s0 (crossLoop fast P size fuel m (8 * g + j) s).2.2 ∧ Below q L size u0 u' ∧
      BytesOk (crossLoop fast P size fuel m (8 * g + j) s).2.2 ∧
      (crossLoop fast P size fuel m (8 * g + j) s).2.2.size = s.size ∧
      (crossLoop fast P size fuel m (8 * g + j) s).1 ≤ max (m - size) (6 * P + 30)
  | 0, m, j, u, s, _, _, _, _, _, hf => by omega
  | fuel + 1, m, j, u, s, hp, h0, hb, hbl, hok, hf => by
    have hqpos := q_pos q P g L hq hg hL
    have hj : j < 8 := hp.1
    -- the optional unrolled block
    obtain ⟨m1, s1, u1, hms, p1, a1, a2, a3, a4, a5, a6, a7⟩ :
        ∃ m1 s1 u1, (if (fast && (8 * g + j) % 8 == 0) = true then fastBlock P size ((8 * g + j) / 8) m s else (m, s)) = (m1, s1) ∧
          Pos q L m1 j u1 ∧ u ≤ u1 ∧ m ≤ m1 ∧ Bits q L u0 u1 s0 s1 ∧ Below q L size u0 u1 ∧ BytesOk s1 ∧
          s1.size = s.size ∧ (m1 = m ∨ m1 < size + 2 * P + 30) := by
      by_cases hfb : (fast && (8 * g + j) % 8 == 0) = true
      · have hj0 : j = 0 := by
          simp only [Bool.and_eq_true, beq_iff_eq] at hfb; omega
        subst hj0
        rw [if_pos hfb, show (8 * g + 0) / 8 = g by omega]
        obtain ⟨u', b1, b2, b3, b4, b5, b6, b7, b8⟩ := fastBlock_spec q P g L size hq hg hL u0 s0 m u s hp h0 hb hbl hok
        exact ⟨_, _, u', rfl, b1, b2, b3, b4, b5, b6, b7, b8⟩
      · rw [if_neg hfb]
        exact ⟨m, s, u, rfl, hp, le_refl _, le_refl _, hb, hbl, hok, rfl, Or.inl rfl⟩
    by_cases hfin : m1 ≥ size
    · have e : crossLoop fast P size (fuel + 1) m (8 * g + j) s = (m1 - size, 8 * g + j, s1) := by
        simp only [crossLoop, hms, hfin, if_true]
      rw [e]
      exact ⟨u1, j, rfl, by show Pos q L (m1 - size + size) j u1; rw [Nat.sub_add_cancel hfin]; exact p1,
        a1, a3, a4, a5, by show s1.size = s.size; exact a6,
        by show m1 - size ≤ max (m - size) (6 * P + 30); rcases a7 with h | h <;> omega⟩
    · have hent := wheelTab_getD g j hg hj
      have e : crossLoop fast P size (fuel + 1) m (8 * g + j) s =
          crossLoop fast P size fuel (m1 + P * (expectedEntry g j).2.1 + (expectedEntry g j).2.2.1)
            (8 * g + (j + 1) % 8) (s1.modify m1 (clearBit · (expectedEntry g j).1)) := by
        simp only [crossLoop, hms, hfin, if_false, hent]
        rfl
      obtain ⟨st1, st2, st3, st4, st5, st6⟩ := step_spec q P g L hq hg hL m1 j u1 p1
      -- bits after the step
      have hbits : ∀ p, bitAt (s1.modify m1 (clearBit · (expectedEntry g j).1)) p = true ↔
          (bitAt s1 p = true ∧ ¬ Hit q L u1 (u1 + (expectedEntry g j).2.1) p) := by
        intro p
        rw [bitAt_clear _ _ _ _ st5, ← st3 p]
        simp
      have hbl' : Below q L size u0 (u1 + (expectedEntry g j).2.1) := by
        intro t hco h1 h2
        by_cases ht : t < u1
        · exact a4 t hco h1 ht
        · have := st4 t hco (by omega) h2
          subst this
          obtain ⟨_, _, hdiv⟩ := p1
          obtain ⟨c, rfl⟩ := hL
          have := Nat.div_add_mod (q * t) 30
          have := Nat.mod_lt (q * t) (by decide : 0 < 30)
          omega
      have hmeas : 8 * (size - (m1 + P * (expectedEntry g j).2.1 + (expectedEntry g j).2.2.1)) + (8 - (j + 1) % 8) < fuel := by
        by_cases h7 : j = 7
        · have := st6 h7
          subst h7
          omega
        · have : (j + 1) % 8 = j + 1 := by omega
          omega
      obtain ⟨u', j', i1, i2, i3, i4, i5, i6, i7, i8⟩ := crossLoop_spec fast u0 s0 fuel _ ((j + 1) % 8) _ _ st1 (by omega)
        (a3.extend hqpos (by omega) (by omega) hbits) hbl' (bytesOk_modify_clear s1 a5 m1 _) hmeas
      rw [e]
      have hkc := entry_kc_le g hg j hj
      exact ⟨u', j', i1, i2, by omega, i4, i5, i6, by rw [i7, Array.size_modify, a6], by
        have hP : P * (expectedEntry g j).2.1 ≤ P * 6 := Nat.mul_le_mul_left _ hkc.1
        omega⟩

end main

/-! ### `cross_off_count`: same trajectory, plus counters -/

/-- the `(multiple, index, sieve)` part of `cross_off_count`'s switch is the switch of `cross_off` without
    unrolled blocks -/
theorem crossCountLoop_proj (P size log2 : ℕ) : ∀ (fuel m idx : ℕ) (s : Bytes) (c : Array ℕ) (t : ℕ),
    ((crossCountLoop P size log2 fuel m idx s c t).1, (crossCountLoop P size log2 fuel m idx s c t).2.1,
      (crossCountLoop P size log2 fuel m idx s c t).2.2.1) = crossLoop false P size fuel m idx s
  | 0, _, _, _, _, _ => rfl
  | fuel + 1, m, idx, s, c, t => by
    by_cases h : m ≥ size
    · simp only [crossCountLoop, crossLoop, h, if_true, Bool.false_and, Bool.false_eq_true, if_false]
    · simp only [crossCountLoop, crossLoop, h, if_false, Bool.false_and, Bool.false_eq_true, Gen.wheelTabCount_eq]
      exact crossCountLoop_proj P size log2 fuel _ _ _ _ _

theorem getD_modify' (c : Array ℕ) (j i : ℕ) (f : ℕ → ℕ) :
    (c.modify j f).getD i 0 = if i = j ∧ j < c.size then f (c.getD i 0) else c.getD i 0 := by
  rw [Array.getD_eq_getD_getElem?, Array.getD_eq_getD_getElem?, Array.getElem?_modify]
  by_cases h : j = i
  · subst h
    by_cases hlt : j < c.size
    · simp [hlt]
    · simp [hlt, Array.getElem?_eq_none (Nat.le_of_not_lt hlt)]
  · have : ¬ i = j := fun e => h e.symm
    simp [h, this]

/-- counters and total agree with the sieve array: `counter[j]` = set bits of block `j`, `total` = all set bits -/
structure CInv (s : Bytes) (c : Array ℕ) (t dist : ℕ) : Prop where
  block : ∀ j, j * dist < 30 * s.size → bitsLt s ((j + 1) * dist) = bitsLt s (j * dist) + c.getD j 0
  total : t = bitsLt s (30 * s.size)

theorem isBit_eq (b bit : ℕ) : (b >>> bit) &&& 1 = (b.testBit bit).toNat := by
  rw [Nat.and_one_is_mod, Nat.shiftRight_eq_div_pow, Nat.toNat_testBit]

/-- one `COUNT_UNSET_BIT` keeps counters and total in step with the sieve array -/
theorem cinv_step (s : Bytes) (c : Array ℕ) (t log2 m bit : ℕ) (hbit : bit < 8) (hm : m < s.size)
    (hsz : 8 * s.size < M32) (hcs : s.size ≤ c.size * 2 ^ log2)
    (h : CInv s c t (30 * 2 ^ log2)) :
    CInv (s.modify m (clearBit · bit))
      (c.modify (m >>> log2) (fun v => (v + M32 - ((s.getD m 0 >>> bit) &&& 1)) % M32))
      ((t + M64 - ((s.getD m 0 >>> bit) &&& 1)) % M64) (30 * 2 ^ log2) := by
  set B := 2 ^ log2 with hB
  have hBpos : 0 < B := Nat.two_pow_pos log2
  set p0 := 8 * m + bit with hp0
  have hisbit : (s.getD m 0 >>> bit) &&& 1 = (bitAt s p0).toNat := by
    rw [isBit_eq]; unfold bitAt
    rw [show p0 / 8 = m by omega, show p0 % 8 = bit by omega]
  rw [hisbit]
  set s' := s.modify m (clearBit · bit) with hs'
  have hsize : s'.size = s.size := Array.size_modify
  have hbits : ∀ p, bitAt s' p = (bitAt s p && decide (p ≠ p0)) := fun p => bitAt_clear s m bit p hbit
  have hoff : offsetOfBit p0 = 30 * m + residues.getD bit 0 := offsetOfBit_byte m bit hbit
  have hres := residues_lt bit hbit
  have hres1 : 1 ≤ residues.getD bit 0 := by
    have h : ∀ b < 8, 1 ≤ residues.getD b 0 := by decide
    exact h bit hbit
  set j0 := m >>> log2 with hj0
  have hj0' : j0 = m / B := Nat.shiftRight_eq_div_pow m log2
  have hj0c : j0 < c.size := by
    rw [hj0']
    have := Nat.div_lt_of_lt_mul (show m < B * c.size by rw [Nat.mul_comm]; omega)
    exact this
  -- block j0 contains p0
  have hlo : j0 * (30 * B) ≤ 30 * m := by
    rw [hj0']; have := Nat.div_mul_le_self m B
    calc m / B * (30 * B) = 30 * (m / B * B) := by ring
      _ ≤ 30 * m := Nat.mul_le_mul_left _ this
  have hhi : 30 * m + 30 ≤ (j0 + 1) * (30 * B) := by
    rw [hj0']
    have := Nat.lt_div_mul_add hBpos (a := m)
    calc 30 * m + 30 = 30 * (m + 1) := by ring
      _ ≤ 30 * (m / B * B + B) := Nat.mul_le_mul_left _ (by omega)
      _ = (m / B + 1) * (30 * B) := by ring
  have hclr := bitsLt_clear s s' p0 hsize hbits
  have hle : ∀ x, bitsLt s x ≤ 8 * s.size := bitsLt_le s
  constructor
  · intro j hj
    rw [hsize] at hj
    have hblk := h.block j hj
    have c1 := hclr ((j + 1) * (30 * B))
    have c2 := hclr (j * (30 * B))
    rw [getD_modify']
    by_cases hset : bitAt s p0 = true
    · simp only [hset, Bool.true_and, Bool.toNat_true] at c1 c2 ⊢
      by_cases hjj : j = j0
      · have e1 : (j + 1) * (30 * B) = (j0 + 1) * (30 * B) := by rw [hjj]
        have e2 : j * (30 * B) = j0 * (30 * B) := by rw [hjj]
        have d1 : offsetOfBit p0 < (j + 1) * (30 * B) := by omega
        have d2 : ¬ offsetOfBit p0 < j * (30 * B) := by omega
        simp only [d1, d2, decide_true, decide_false, if_true, Bool.false_eq_true, if_false, Nat.add_zero] at c1 c2
        rw [if_pos ⟨hjj, hj0c⟩]
        have hmono := bitsLt_mono s' (j * (30 * B)) ((j + 1) * (30 * B)) (Nat.mul_le_mul_right _ (by omega))
        have hv : 1 ≤ c.getD j 0 := by omega
        have hv2 : c.getD j 0 < M32 := by have := hle ((j + 1) * (30 * B)); omega
        have : (c.getD j 0 + M32 - 1) % M32 = c.getD j 0 - 1 := by
          rw [show c.getD j 0 + M32 - 1 = (c.getD j 0 - 1) + M32 by omega, Nat.add_mod_right]
          exact Nat.mod_eq_of_lt (by omega)
        rw [this]; omega
      · rw [if_neg (by intro hh; exact hjj hh.1)]
        by_cases hlt : j < j0
        · have hmul : (j + 1) * (30 * B) ≤ j0 * (30 * B) := Nat.mul_le_mul_right _ (by omega)
          have d1 : ¬ offsetOfBit p0 < (j + 1) * (30 * B) := by omega
          have d2 : ¬ offsetOfBit p0 < j * (30 * B) := by
            have : j * (30 * B) ≤ (j + 1) * (30 * B) := Nat.mul_le_mul_right _ (by omega)
            omega
          simp only [d1, d2, decide_false, Bool.false_eq_true, if_false, Nat.add_zero] at c1 c2
          omega
        · have hmul : (j0 + 1) * (30 * B) ≤ j * (30 * B) := Nat.mul_le_mul_right _ (by omega)
          have d1 : offsetOfBit p0 < (j + 1) * (30 * B) := by
            have : j * (30 * B) ≤ (j + 1) * (30 * B) := Nat.mul_le_mul_right _ (by omega)
            omega
          have d2 : offsetOfBit p0 < j * (30 * B) := by omega
          simp only [d1, d2, decide_true, if_true] at c1 c2
          omega
    · have hset' : bitAt s p0 = false := by simpa using hset
      simp only [hset', Bool.false_and, Bool.false_eq_true, if_false, Nat.add_zero, Bool.toNat_false,
        Nat.sub_zero] at c1 c2 ⊢
      rw [c1, c2, hblk]
      congr 1
      split
      · rename_i hh
        rw [hh.1]
        have hv2 : c.getD j0 0 < M32 := by
          have := h.block j0 (by omega); have := hle ((j0 + 1) * (30 * B)); omega
        rw [Nat.add_mod_right, Nat.mod_eq_of_lt hv2]
      · rfl
  · have c1 := hclr (30 * s.size)
    rw [hsize, h.total]
    by_cases hset : bitAt s p0 = true
    · have d1 : offsetOfBit p0 < 30 * s.size := by omega
      simp only [hset, Bool.true_and, d1, decide_true, if_true, Bool.toNat_true] at c1 ⊢
      have := hle (30 * s.size)
      rw [show bitsLt s (30 * s.size) + M64 - 1 = (bitsLt s (30 * s.size) - 1) + M64 by omega, Nat.add_mod_right]
      rw [Nat.mod_eq_of_lt (by simp only [M64, M32] at hsz ⊢; omega)]
      omega
    · have hset' : bitAt s p0 = false := by simpa using hset
      simp only [hset', Bool.false_and, Bool.false_eq_true, if_false, Nat.add_zero, Bool.toNat_false,
        Nat.sub_zero] at c1 ⊢
      have := hle (30 * s.size)
      rw [Nat.add_mod_right, Nat.mod_eq_of_lt (by simp only [M64, M32] at hsz ⊢; omega)]
      omega

/-- the whole switch of `cross_off_count` keeps counters and total in step -/
theorem crossCountLoop_cinv (P log2 : ℕ) : ∀ (fuel m idx : ℕ) (s : Bytes) (c : Array ℕ) (t : ℕ), idx < 64 →
    8 * s.size < M32 → s.size ≤ c.size * 2 ^ log2 → CInv s c t (30 * 2 ^ log2) →
    CInv (crossCountLoop P s.size log2 fuel m idx s c t).2.2.1 (crossCountLoop P s.size log2 fuel m idx s c t).2.2.2.1
      (crossCountLoop P s.size log2 fuel m idx s c t).2.2.2.2 (30 * 2 ^ log2)
  | 0, _, _, _, _, _, _, _, _, h => h
  | fuel + 1, m, idx, s, c, t, hidx, hsz, hcs, h => by
    by_cases hfin : m ≥ s.size
    · simp only [crossCountLoop, hfin, if_true]; exact h
    · obtain ⟨g, j, hg, hj, rfl⟩ : ∃ g j, g < 8 ∧ j < 8 ∧ idx = 8 * g + j := ⟨idx / 8, idx % 8, by omega, by omega, by omega⟩
      have hent := wheelTabCount_getD g j hg hj
      have hstep := cinv_step s c t log2 m (expectedEntry g j).1 (tab_bit_lt g hg j hj) (by omega) hsz hcs h
      have hsize : (s.modify m (clearBit · (expectedEntry g j).1)).size = s.size := Array.size_modify
      have ih := crossCountLoop_cinv P log2 fuel (m + P * (expectedEntry g j).2.1 + (expectedEntry g j).2.2.1)
        (8 * g + (j + 1) % 8) (s.modify m (clearBit · (expectedEntry g j).1))
        (c.modify (m >>> log2) (fun v => (v + M32 - ((s.getD m 0 >>> (expectedEntry g j).1) &&& 1)) % M32))
        ((t + M64 - ((s.getD m 0 >>> (expectedEntry g j).1) &&& 1)) % M64)
        (by omega) (by rw [hsize]; exact hsz) (by rw [hsize, Array.size_modify]; exact hcs) hstep
      rw [hsize] at ih
      simp only [crossCountLoop, hfin, if_false, hent]
      exact ih

end Pc.Sieve
