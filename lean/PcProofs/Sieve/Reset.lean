/-
C17: `Sieve::reset_sieve` (all bits set, last partial word masked with `unset_larger`) and
`Sieve::init_counter`.
-/
import PcProofs.Sieve.CountInv

namespace Pc.Sieve
open Pc.WheelSpec

theorem getD_set (a : Bytes) (i k v : ℕ) :
    (a.setIfInBounds i v).getD k 0 = if k = i ∧ i < a.size then v else a.getD k 0 := by
  rw [Array.getD_eq_getD_getElem?, Array.getD_eq_getD_getElem?, Array.getElem?_setIfInBounds]
  by_cases h : i = k
  · subst h
    by_cases hlt : i < a.size
    · simp [hlt]
    · simp [hlt, Array.getElem?_eq_none (Nat.le_of_not_lt hlt)]
  · have : ¬ k = i := fun e => h e.symm
    simp [h, this]

theorem getD_replicate (n v i : ℕ) : (Array.replicate n v).getD i 0 = if i < n then v else 0 := by
  rw [Array.getD_eq_getD_getElem?, Array.getElem?_replicate]
  split <;> simp

theorem getD_extract0 (a : Bytes) (m i : ℕ) : (a.extract 0 m).getD i 0 = if i < min m a.size then a.getD i 0 else 0 := by
  rw [Array.getD_eq_getD_getElem?, Array.getElem?_extract, Array.getD_eq_getD_getElem?]
  simp only [Nat.sub_zero, Nat.zero_add]
  split <;> simp

/-- writing the 8 bytes of a 64-bit value `wv` at word `wi` -/
def setWord (s : Bytes) (wi wv : ℕ) : Bytes :=
  (List.range 8).foldl (fun s k => s.setIfInBounds (8 * wi + k) (wv / 256 ^ k % 256)) s

theorem setWord_size (s : Bytes) (wi wv : ℕ) : (setWord s wi wv).size = s.size := by
  simp [setWord, List.range_succ_eq_map, List.range_zero]

theorem setWord_getD (s : Bytes) (wi wv i : ℕ) (h : 8 * wi + 8 ≤ s.size) :
    (setWord s wi wv).getD i 0 =
      if 8 * wi ≤ i ∧ i < 8 * wi + 8 then wv / 256 ^ (i - 8 * wi) % 256 else s.getD i 0 := by
  have e : List.range 8 = [0, 1, 2, 3, 4, 5, 6, 7] := by decide
  unfold setWord
  rw [e]
  simp only [List.foldl_cons, List.foldl_nil, getD_set, Array.size_setIfInBounds]
  by_cases hi : 8 * wi ≤ i ∧ i < 8 * wi + 8
  · rw [if_pos hi]
    obtain ⟨k, hk, rfl⟩ : ∃ k, k < 8 ∧ i = 8 * wi + k := ⟨i - 8 * wi, by omega, by omega⟩
    have : 8 * wi + k - 8 * wi = k := by omega
    rw [this]
    have hk' : k = 0 ∨ k = 1 ∨ k = 2 ∨ k = 3 ∨ k = 4 ∨ k = 5 ∨ k = 6 ∨ k = 7 := by omega
    rcases hk' with rfl | rfl | rfl | rfl | rfl | rfl | rfl | rfl <;>
      simp (config := { decide := true }) [show 8 * wi + 0 = 8 * wi by rfl] <;> omega
  · rw [if_neg hi]
    have h0 : ¬ (i = 8 * wi + 0 ∧ 8 * wi + 0 < s.size) := by omega
    have h1 : ¬ (i = 8 * wi + 1 ∧ 8 * wi + 1 < s.size) := by omega
    have h2 : ¬ (i = 8 * wi + 2 ∧ 8 * wi + 2 < s.size) := by omega
    have h3 : ¬ (i = 8 * wi + 3 ∧ 8 * wi + 3 < s.size) := by omega
    have h4 : ¬ (i = 8 * wi + 4 ∧ 8 * wi + 4 < s.size) := by omega
    have h5 : ¬ (i = 8 * wi + 5 ∧ 8 * wi + 5 < s.size) := by omega
    have h6 : ¬ (i = 8 * wi + 6 ∧ 8 * wi + 6 < s.size) := by omega
    have h7 : ¬ (i = 8 * wi + 7 ∧ 8 * wi + 7 < s.size) := by omega
    simp only [h0, h1, h2, h3, h4, h5, h6, h7, if_false]

end Pc.Sieve

namespace Pc.Sieve
open Pc.WheelSpec

theorem align_eq (n : ℕ) (h : 1 ≤ n) : alignSegmentSize n = 240 * ((n - 1) / 240 + 1) := by
  unfold alignSegmentSize
  simp only [bne_iff_ne, ne_eq, ite_not]
  by_cases h1 : n ≤ 240
  · have : max n 240 = 240 := by omega
    rw [this]; simp; omega
  · have : max n 240 = n := by omega
    rw [this]
    split <;> omega

theorem byte255_testBit : ∀ b < 8, (255 : ℕ).testBit b = true := by decide

theorem off_lt_iff (p z : ℕ) : offsetOfBit p < 30 * z ↔ p / 8 < z := by
  unfold offsetOfBit
  have h : ∀ r < 8, 1 ≤ residues.getD r 0 ∧ residues.getD r 0 < 30 := by decide
  have := h (p % 8) (Nat.mod_lt _ (by decide))
  omega

theorem testBit_byte_of (wv k b : ℕ) (hb : b < 8) : (wv / 256 ^ k % 256).testBit b = wv.testBit (8 * k + b) := by
  have e1 : (256 : ℕ) = 2 ^ 8 := by decide
  have e2 : (256 : ℕ) ^ k = 2 ^ (8 * k) := by rw [e1, ← pow_mul]
  rw [e2]
  conv_lhs => rw [e1]
  rw [Nat.testBit_mod_two_pow, Nat.testBit_div_two_pow]
  simp [hb, Nat.add_comm]

theorem resetSieve_short (σ : State) (n : ℕ) (h : n < σ.segmentSize) :
    (resetSieve σ n).sieve =
      setWord ((Array.replicate σ.sieve.size 0xff).extract 0 (alignSegmentSize n / 30)) ((n - 1) / 240)
        (word64 ((Array.replicate σ.sieve.size 0xff).extract 0 (alignSegmentSize n / 30)) ((n - 1) / 240) &&&
          unsetLarger.getD ((n - 1) % 240) 0) ∧
    (resetSieve σ n).wheel = σ.wheel ∧ (resetSieve σ n).start = σ.start ∧ (resetSieve σ n).counter = σ.counter ∧
    (resetSieve σ n).cDist = σ.cDist ∧ (resetSieve σ n).cLog2 = σ.cLog2 := by
  unfold resetSieve
  simp only [h, if_true, and_true]
  rfl

theorem resetSieve_full (σ : State) (n : ℕ) (h : ¬ n < σ.segmentSize) :
    (resetSieve σ n).sieve = Array.replicate σ.sieve.size 0xff ∧
    (resetSieve σ n).wheel = σ.wheel ∧ (resetSieve σ n).start = σ.start ∧ (resetSieve σ n).counter = σ.counter ∧
    (resetSieve σ n).cDist = σ.cDist ∧ (resetSieve σ n).cLog2 = σ.cLog2 := by
  unfold resetSieve
  simp only [h, if_false, and_true]

/-- **`reset_sieve(low, high)`** with `size = high − low`: afterwards a bit is set iff its number is `< size`
    (all bits of the array when the segment is full; the last partial word is masked with `unset_larger`),
    and the array has been shrunk to the smallest whole number of 64-bit words that holds `size` numbers. -/
theorem resetSieve_spec (σ : State) (n : ℕ) (hw : σ.sieve.size % 8 = 0) (h1 : 1 ≤ n) (h2 : n ≤ σ.segmentSize) :
    BytesOk (resetSieve σ n).sieve ∧ (∀ p, bitAt (resetSieve σ n).sieve p = true ↔ offsetOfBit p < n) ∧
    n ≤ (resetSieve σ n).segmentSize ∧ (resetSieve σ n).segmentSize < n + 240 ∧
    (resetSieve σ n).sieve.size ≤ σ.sieve.size ∧
    (resetSieve σ n).wheel = σ.wheel ∧ (resetSieve σ n).start = σ.start ∧ (resetSieve σ n).counter = σ.counter ∧
    (resetSieve σ n).cDist = σ.cDist ∧ (resetSieve σ n).cLog2 = σ.cLog2 := by
  unfold State.segmentSize at h2
  by_cases hfull : n < σ.segmentSize
  · -- the last segment: shrink and mask
    unfold State.segmentSize at hfull
    obtain ⟨z, hz⟩ : ∃ z, σ.sieve.size = 8 * z := ⟨σ.sieve.size / 8, by omega⟩
    set wi := (n - 1) / 240 with hwi
    set r := (n - 1) % 240 with hr
    have hal : alignSegmentSize n / 30 = 8 * (wi + 1) := by rw [align_eq n h1]; omega
    have hnb : 8 * (wi + 1) ≤ σ.sieve.size := by omega
    set s1 := (Array.replicate σ.sieve.size 0xff).extract 0 (8 * (wi + 1)) with hs1
    have hs1size : s1.size = 8 * (wi + 1) := by
      rw [hs1, Array.size_extract, Array.size_replicate]; omega
    have hs1get : ∀ i, s1.getD i 0 = if i < 8 * (wi + 1) then 255 else 0 := by
      intro i
      rw [hs1, getD_extract0, Array.size_replicate, getD_replicate]
      by_cases hi : i < 8 * (wi + 1)
      · have h3 : i < min (8 * (wi + 1)) σ.sieve.size := by omega
        have h4 : i < σ.sieve.size := by omega
        simp [hi, h3, h4]
      · have h3 : ¬ i < min (8 * (wi + 1)) σ.sieve.size := by omega
        simp [hi, h3]
    have hword : word64 s1 wi = M64 - 1 := by
      unfold word64
      rw [hs1get, hs1get, hs1get, hs1get, hs1get, hs1get, hs1get, hs1get]
      rw [if_pos (by omega), if_pos (by omega), if_pos (by omega), if_pos (by omega), if_pos (by omega),
        if_pos (by omega), if_pos (by omega), if_pos (by omega)]
      simp only [M64]
    have hmask : unsetLarger.getD r 0 = unsetL r := unsetLarger_getD r (Nat.mod_lt _ (by decide))
    have hwv : word64 s1 wi &&& unsetLarger.getD r 0 = unsetL r := by
      rw [hword, hmask, Nat.and_comm]; exact and_ones _ (unsetL_lt r)
    have hshort := resetSieve_short σ n (by unfold State.segmentSize; exact hfull)
    have hres : (resetSieve σ n).sieve = setWord s1 wi (unsetL r) := by
      rw [hshort.1, hal, hwv]
    have hframe := hshort.2
    have hsize : (resetSieve σ n).sieve.size = 8 * (wi + 1) := by rw [hres, setWord_size, hs1size]
    have hget : ∀ i, (resetSieve σ n).sieve.getD i 0 =
        if 8 * wi ≤ i ∧ i < 8 * wi + 8 then unsetL r / 256 ^ (i - 8 * wi) % 256 else s1.getD i 0 := by
      intro i; rw [hres]; exact setWord_getD s1 wi _ i (by rw [hs1size]; omega)
    refine ⟨⟨?_, by rw [hsize]; omega⟩, ?_, ?_, ?_, by rw [hsize]; exact hnb, hframe⟩
    · intro i
      rw [hget i]
      split
      · exact Nat.mod_lt _ (by decide)
      · rw [hs1get]; split <;> decide
    · intro p
      unfold bitAt
      rw [hget (p / 8)]
      have hp8 : p % 8 < 8 := Nat.mod_lt _ (by decide)
      have hoff := off_bounds' p
      by_cases hin : 8 * wi ≤ p / 8 ∧ p / 8 < 8 * wi + 8
      · rw [if_pos hin, testBit_byte_of _ _ _ hp8]
        have ht : 8 * (p / 8 - 8 * wi) + p % 8 = p - 64 * wi := by omega
        have ht64 : p - 64 * wi < 64 := by omega
        rw [ht, unsetL_testBit r _ (Nat.mod_lt _ (by decide)) ht64]
        obtain ⟨_, _, e⟩ := off_bounds p wi (by omega) (by omega)
        simp only [decide_eq_true_eq]
        omega
      · rw [if_neg hin, hs1get]
        by_cases hlo : p / 8 < 8 * wi
        · rw [if_pos (by omega), byte255_testBit _ hp8]
          have : offsetOfBit p < 30 * (8 * wi) := (off_lt_iff p (8 * wi)).mpr hlo
          simp only [true_iff]
          omega
        · have hge : 8 * (wi + 1) ≤ p / 8 := by omega
          rw [if_neg (by omega)]
          have : ¬ offsetOfBit p < 30 * (8 * (wi + 1)) := fun hc => by
            have := (off_lt_iff p (8 * (wi + 1))).mp hc; omega
          simp only [Nat.zero_testBit, Bool.false_eq_true, false_iff]
          omega
    · unfold State.segmentSize; rw [hsize]; omega
    · unfold State.segmentSize; rw [hsize]; omega
  · -- a full segment
    unfold State.segmentSize at hfull
    have hn : n = σ.sieve.size * 30 := by omega
    have hfl := resetSieve_full σ n (by unfold State.segmentSize; exact hfull)
    have hres := hfl.1
    have hframe := hfl.2
    have hsize : (resetSieve σ n).sieve.size = σ.sieve.size := by rw [hres, Array.size_replicate]
    refine ⟨⟨?_, by rw [hsize]; exact hw⟩, ?_, ?_, ?_, by rw [hsize], hframe⟩
    · intro i; rw [hres, getD_replicate]; split <;> decide
    · intro p
      unfold bitAt
      rw [hres, getD_replicate, hn, Nat.mul_comm, off_lt_iff]
      have hp8 : p % 8 < 8 := Nat.mod_lt _ (by decide)
      by_cases h : p / 8 < σ.sieve.size
      · simp [h, byte255_testBit _ hp8]
      · simp [h]
    · unfold State.segmentSize; rw [hsize]; omega
    · unfold State.segmentSize; rw [hsize]; omega

/-- the size of the array after `reset_sieve` -/
theorem resetSieve_segsize (σ : State) (n : ℕ) (hw : σ.sieve.size % 8 = 0) (h1 : 1 ≤ n) (h2 : n ≤ σ.segmentSize) :
    (resetSieve σ n).sieve.size * 30 = (if n < σ.segmentSize then alignSegmentSize n else σ.segmentSize) := by
  by_cases hfull : n < σ.segmentSize
  · rw [if_pos hfull, (resetSieve_short σ n hfull).1, setWord_size, Array.size_extract, Array.size_replicate,
      align_eq n h1]
    unfold State.segmentSize at hfull h2
    omega
  · rw [if_neg hfull, (resetSieve_full σ n hfull).1, Array.size_replicate]
    rfl

end Pc.Sieve
