/-
C17: clearing one bit of the sieve array (`sieve[m] &= ~(1 << bit)`) — effect on the bit view and on the
bit counts.
-/
import PcProofs.Sieve.CountInc

namespace Pc.Sieve
open Pc.WheelSpec

theorem getD_modify (s : Bytes) (m i : ℕ) (f : ℕ → ℕ) (hf : f 0 = 0) :
    (s.modify m f).getD i 0 = if i = m then f (s.getD i 0) else s.getD i 0 := by
  rw [Array.getD_eq_getD_getElem?, Array.getD_eq_getD_getElem?, Array.getElem?_modify]
  by_cases h : m = i
  · subst h
    simp only [if_true]
    cases hs : s[m]? <;> simp [hf]
  · have : ¬ i = m := fun e => h e.symm
    simp [h, this]

theorem clearBit_zero (bit : ℕ) : clearBit 0 bit = 0 := by simp [clearBit]

theorem clearBit_le (b bit : ℕ) : clearBit b bit ≤ b := Nat.and_le_left

theorem mask_testBit8 : ∀ bit < 8, ∀ j < 8, (255 - 2 ^ bit).testBit j = decide (j ≠ bit) := by decide

theorem clearBit_testBit (b bit j : ℕ) (hbit : bit < 8) (hj : j < 8) :
    (clearBit b bit).testBit j = (b.testBit j && decide (j ≠ bit)) := by
  unfold clearBit
  rw [Nat.testBit_and, mask_testBit8 bit hbit j hj]

/-- `sieve[m] &= ~(1 << bit)` clears exactly global bit `8 m + bit` -/
theorem bitAt_clear (s : Bytes) (m bit p : ℕ) (hbit : bit < 8) :
    bitAt (s.modify m (clearBit · bit)) p = (bitAt s p && decide (p ≠ 8 * m + bit)) := by
  unfold bitAt
  rw [getD_modify s m (p / 8) (clearBit · bit) (clearBit_zero bit)]
  have hp8 : p % 8 < 8 := Nat.mod_lt _ (by decide)
  by_cases h : p / 8 = m
  · simp only [h, if_true]
    rw [clearBit_testBit _ _ _ hbit hp8]
    have : (p % 8 ≠ bit) ↔ (p ≠ 8 * m + bit) := by omega
    simp only [this]
  · have : p ≠ 8 * m + bit := by omega
    simp [h, this]

theorem bytesOk_modify_clear (s : Bytes) (hs : BytesOk s) (m bit : ℕ) : BytesOk (s.modify m (clearBit · bit)) := by
  constructor
  · intro i
    rw [getD_modify s m i (clearBit · bit) (clearBit_zero bit)]
    split
    · exact lt_of_le_of_lt (clearBit_le _ _) (hs.lt i)
    · exact hs.lt i
  · rw [Array.size_modify]; exact hs.words

theorem residues_inj : ∀ a < 8, ∀ b < 8, residues.getD a 0 = residues.getD b 0 → a = b := by decide
theorem residues_lt : ∀ a < 8, residues.getD a 0 < 30 := by decide

theorem offsetOfBit_inj (p p' : ℕ) (h : offsetOfBit p = offsetOfBit p') : p = p' := by
  unfold offsetOfBit at h
  have h1 : p % 8 < 8 := Nat.mod_lt _ (by decide)
  have h2 : p' % 8 < 8 := Nat.mod_lt _ (by decide)
  have r1 := residues_lt _ h1
  have r2 := residues_lt _ h2
  have e1 : p / 8 = p' / 8 := by omega
  have e2 : residues.getD (p % 8) 0 = residues.getD (p' % 8) 0 := by omega
  have e3 := residues_inj _ h1 _ h2 e2
  omega

theorem bitAt_false_of_ge (s : Bytes) (p : ℕ) (h : 8 * s.size ≤ p) : bitAt s p = false := by
  unfold bitAt
  have : s.size ≤ p / 8 := by omega
  rw [Array.getD_eq_getD_getElem?, Array.getElem?_eq_none this]
  simp

/-! ### counting after a single-point change -/

theorem sumFrom_update (f f' : ℕ → ℕ) (p0 : ℕ) (h : ∀ p, p ≠ p0 → f' p = f p) (h0 : f' p0 + 1 = f p0) :
    ∀ (a n : ℕ), sumFrom f' a n + (if a ≤ p0 ∧ p0 < a + n then 1 else 0) = sumFrom f a n
  | _, 0 => by simp [sumFrom]
  | a, n + 1 => by
    simp only [sumFrom]
    have ih := sumFrom_update f f' p0 h h0 (a + 1) n
    by_cases ha : a = p0
    · subst ha
      have c1 : (a ≤ a ∧ a < a + (n + 1)) := ⟨le_refl _, by omega⟩
      have c2 : ¬ (a + 1 ≤ a ∧ a < a + 1 + n) := by omega
      rw [if_pos c1]; rw [if_neg c2] at ih
      omega
    · rw [h a ha]
      have : (a ≤ p0 ∧ p0 < a + (n + 1)) ↔ (a + 1 ≤ p0 ∧ p0 < a + 1 + n) := by omega
      simp only [this]
      omega

/-- the effect of clearing bit `p0` on "number of set bits with a property" -/
theorem cnt_clear (s s' : Bytes) (p0 : ℕ) (hsz : s'.size = s.size)
    (hbits : ∀ p, bitAt s' p = (bitAt s p && decide (p ≠ p0))) (Q : ℕ → Bool) :
    cnt (fun p => bitAt s' p && Q p) 0 (8 * s'.size) + (if bitAt s p0 && Q p0 then 1 else 0) =
    cnt (fun p => bitAt s p && Q p) 0 (8 * s.size) := by
  rw [hsz]
  by_cases hset : (bitAt s p0 && Q p0) = true
  · simp only [hset, if_true]
    have hlt : p0 < 8 * s.size := by
      by_contra hc
      have := bitAt_false_of_ge s p0 (by omega)
      simp [this] at hset
    have := sumFrom_update (fun p => (bitAt s p && Q p).toNat) (fun p => (bitAt s' p && Q p).toNat) p0
      (by intro p hp; simp [hbits p, hp])
      (by simp [hbits p0, hset]) 0 (8 * s.size)
    rw [if_pos ⟨Nat.zero_le _, by omega⟩] at this
    exact this
  · simp only [hset, Bool.false_eq_true, if_false, Nat.add_zero]
    apply cnt_congr
    intro p _ _
    rw [hbits p]
    by_cases hp : p = p0
    · subst hp
      have : (bitAt s p && Q p) = false := by simpa using hset
      rcases hb : bitAt s p with _ | _
      · simp
      · rw [hb] at this; simp at this; simp [this]
    · simp [hp]

theorem sumFrom_mono (f g : ℕ → ℕ) (h : ∀ p, f p ≤ g p) : ∀ a n, sumFrom f a n ≤ sumFrom g a n
  | _, 0 => le_refl _
  | a, n + 1 => by
    simp only [sumFrom]
    have := sumFrom_mono f g h (a + 1) n
    have := h a
    omega

theorem bitsLt_mono (s : Bytes) (x y : ℕ) (h : x ≤ y) : bitsLt s x ≤ bitsLt s y := by
  unfold bitsLt cnt
  apply sumFrom_mono
  intro p
  show (bitAt s p && decide (offsetOfBit p < x)).toNat ≤ (bitAt s p && decide (offsetOfBit p < y)).toNat
  rcases hb : bitAt s p with _ | _
  · simp
  · by_cases h1 : offsetOfBit p < x
    · have : offsetOfBit p < y := by omega
      simp [h1, this]
    · simp [h1]

theorem bitsLt_clear (s s' : Bytes) (p0 : ℕ) (hsz : s'.size = s.size)
    (hbits : ∀ p, bitAt s' p = (bitAt s p && decide (p ≠ p0))) (x : ℕ) :
    bitsLt s' x + (if bitAt s p0 && decide (offsetOfBit p0 < x) then 1 else 0) = bitsLt s x :=
  cnt_clear s s' p0 hsz hbits (fun p => decide (offsetOfBit p < x))

end Pc.Sieve
