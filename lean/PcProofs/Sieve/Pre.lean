/-
C17: `Sieve::pre_sieve` = `reset_sieve` ; `cross_off` of the first primes ; `init_counter` establishes the
object invariant for a new segment; carry-over of the wheel states between segments (`Ready`).
-/
import PcProofs.Sieve.InitCounter

namespace Pc.Sieve
open Pc.WheelSpec

theorem avail_iff (σ : State) (G : Ghost) (q : ℕ) : Avail σ G q ↔ AvailP σ.wheel.size σ.start G q := Iff.rfl

/-- `for (i = 4 + k0; …; i++) cross_off(q_i, i)` -/
def crossList (σ : State) (k0 : ℕ) : List ℕ → State
  | [] => σ
  | q :: rest => crossList (crossOff σ q (4 + k0)) (k0 + 1) rest

theorem crossOff_frame (σ : State) (q i : ℕ) :
    (crossOff σ q i).start = σ.start ∧ (crossOff σ q i).counter = σ.counter ∧ (crossOff σ q i).cDist = σ.cDist ∧
    (crossOff σ q i).cLog2 = σ.cLog2 ∧ (crossOff σ q i).inited = σ.inited ∧
    (crossOff σ q i).totalCount = σ.totalCount := ⟨rfl, rfl, rfl, rfl, rfl, rfl⟩

theorem fastLoop_size (P limit sk sc : ℕ) (body : List (ℕ × ℕ × ℕ)) : ∀ (fuel m : ℕ) (s : Bytes),
    (fastLoop P limit sk sc body fuel m s).2.size = s.size
  | 0, _, _ => rfl
  | fuel + 1, m, s => by
    simp only [fastLoop]
    split
    · rw [fastLoop_size P limit sk sc body fuel, size_fastRound]
    · rfl

theorem fastBlock_size (P size g m : ℕ) (s : Bytes) : (fastBlock P size g m s).2.size = s.size := by
  unfold fastBlock
  exact fastLoop_size _ _ _ _ _ _ _ _

theorem crossLoop_size (fast : Bool) (P size : ℕ) : ∀ (fuel m idx : ℕ) (s : Bytes),
    (crossLoop fast P size fuel m idx s).2.2.size = s.size
  | 0, _, _, _ => rfl
  | fuel + 1, m, idx, s => by
    simp only [crossLoop]
    split
    · split
      · exact fastBlock_size _ _ _ _ _
      · rw [crossLoop_size fast P size fuel, Array.size_modify]; exact fastBlock_size _ _ _ _ _
    · split
      · rfl
      · rw [crossLoop_size fast P size fuel, Array.size_modify]

theorem wheelWith_size (σ : State) (G : Ghost) (h : BitsInv σ G) (q : ℕ) (hav : Avail σ G q) :
    (wheelWith σ q (4 + G.k)).size = if G.k < G.qs.length then σ.wheel.size else σ.wheel.size + 1 := by
  unfold wheelWith
  rcases hav with ⟨h1, _⟩ | ⟨h1, h2, _⟩
  · have : ¬ (4 + G.k ≥ σ.wheel.size) := by have := h.wsize; omega
    rw [if_neg this, if_pos h1]
  · have : 4 + G.k ≥ σ.wheel.size := by omega
    rw [if_pos this, if_neg (by omega), Array.size_push]

theorem BitsInv.crossList : ∀ (qs' : List ℕ) (σ : State) (G : Ghost), BitsInv σ G →
    AvailAll σ.wheel.size σ.start G qs' →
    BitsInv (crossList σ G.k qs') (G.crossedAll qs') ∧ (crossList σ G.k qs').start = σ.start ∧
    (crossList σ G.k qs').counter = σ.counter ∧ (crossList σ G.k qs').cDist = σ.cDist ∧
    (crossList σ G.k qs').cLog2 = σ.cLog2 ∧ (crossList σ G.k qs').sieve.size = σ.sieve.size ∧
    (crossList σ G.k qs').wheel.size = wsAfter σ.wheel.size G qs'
  | [], σ, G, h, _ => ⟨h, rfl, rfl, rfl, rfl, rfl, rfl⟩
  | q :: rest, σ, G, h, hav => by
    obtain ⟨hav1, hav2⟩ := hav
    have hstep := h.cross true q hav1 (crossOff σ q (4 + G.k)) (crossOff_sieve σ q _) (crossOff_wheel σ q _) rfl
    have hws : (crossOff σ q (4 + G.k)).wheel.size = if G.k < G.qs.length then σ.wheel.size else σ.wheel.size + 1 := by
      rw [crossOff_wheel, Array.size_setIfInBounds]; exact wheelWith_size σ G h q hav1
    have ih := BitsInv.crossList rest (crossOff σ q (4 + G.k)) (G.crossed q) hstep (by rw [hws]; exact hav2)
    obtain ⟨i1, i2, i3, i4, i5, i6, i7⟩ := ih
    have hsz : (crossOff σ q (4 + G.k)).sieve.size = σ.sieve.size := by
      rw [crossOff_sieve]; exact crossLoop_size _ _ _ _ _ _ _
    show BitsInv (Pc.Sieve.crossList (crossOff σ q (4 + G.k)) (G.k + 1) rest) ((G.crossed q).crossedAll rest) ∧ _
    have hk : (G.crossed q).k = G.k + 1 := rfl
    rw [hk] at i1 i2 i3 i4 i5 i6 i7
    refine ⟨i1, i2, i3, i4, i5, ?_, ?_⟩
    · show (Pc.Sieve.crossList (crossOff σ q (4 + G.k)) (G.k + 1) rest).sieve.size = _
      rw [i6, hsz]
    · show (Pc.Sieve.crossList (crossOff σ q (4 + G.k)) (G.k + 1) rest).wheel.size = _
      rw [i7, hws]; rfl

/-- the loop of `pre_sieve` is `crossList` over `primes[4..c]` -/
theorem foldl_cross_eq (primes : Array ℕ) : ∀ (m k0 : ℕ) (σ : State),
    (List.range m).foldl (fun σ k => crossOff σ (primes.getD (4 + (k0 + k)) 0) (4 + (k0 + k))) σ =
    crossList σ k0 ((List.range m).map fun k => primes.getD (4 + (k0 + k)) 0)
  | 0, _, _ => rfl
  | m + 1, k0, σ => by
    rw [List.range_succ_eq_map, List.foldl_cons, List.map_cons, List.foldl_map, List.map_map]
    simp only [crossList, Nat.add_zero]
    have := foldl_cross_eq primes m (k0 + 1) (crossOff σ (primes.getD (4 + k0) 0) (4 + k0))
    have e1 : ∀ k, 4 + (k0 + 1 + k) = 4 + (k0 + (k + 1)) := by intro k; omega
    simp only [e1] at this
    exact this

/-- between two segments: every slot in `qs` is in sync with the segment that starts at `L` -/
structure Ready (σ : State) (L : ℕ) (qs : List ℕ) : Prop where
  hL : 30 ∣ L
  words : σ.sieve.size % 8 = 0
  wsize : 4 + qs.length ≤ σ.wheel.size
  qs_ok : ∀ i < qs.length, Nat.gcd (qs.getD i 0) 30 = 1 ∧ qs.getD i 0 < M32
  slots : ∀ i < qs.length, SlotOk (qs.getD i 0) L (σ.wheel.getD (4 + i) ⟨0, 0⟩)
  cdist : σ.cDist = 30 * 2 ^ σ.cLog2
  clog : 3 ≤ σ.cLog2
  csize : σ.sieve.size ≤ σ.counter.size * 2 ^ σ.cLog2
  small : 8 * σ.sieve.size < M32

/-- **`pre_sieve(primes, c, low, high)`** with `n = high − low`, `1 ≤ n ≤ segment_size`, started between two
    segments: establishes the sieve-array invariant (bits = numbers `< n` not divisible by `primes[4..c]`) and the
    counter invariant. -/
theorem preSieve_spec (cfg : Cfg) (σ : State) (L : ℕ) (qs : List ℕ) (hr : Ready σ L qs) (primes : Array ℕ) (c n : ℕ)
    (h1 : 1 ≤ n) (hn : n ≤ σ.segmentSize)
    (hav : AvailAll σ.wheel.size σ.start ⟨L, n, qs, 0⟩ (preList primes c)) :
    BitsInv (preSieve cfg σ primes c n) ((⟨L, n, qs, 0⟩ : Ghost).crossedAll (preList primes c)) ∧
    CountInv (preSieve cfg σ primes c n) ∧ (preSieve cfg σ primes c n).inited = true ∧
    (preSieve cfg σ primes c n).start = σ.start ∧
    (preSieve cfg σ primes c n).wheel.size = wsAfter σ.wheel.size ⟨L, n, qs, 0⟩ (preList primes c) ∧
    (preSieve cfg σ primes c n).segmentSize = (if n < σ.segmentSize then alignSegmentSize n else σ.segmentSize) ∧
    (preSieve cfg σ primes c n).prevStop = 0 := by
  obtain ⟨r1, r2, r3, r4, r5, r6, r7, r8, r9, r10⟩ := resetSieve_spec σ n hr.words h1 hn
  have hsegsize : (resetSieve σ n).sieve.size * 30 = (if n < σ.segmentSize then alignSegmentSize n else σ.segmentSize) :=
    resetSieve_segsize σ n hr.words h1 hn
  set σ1 := resetSieve σ n with hσ1
  have hB1 : BitsInv σ1 ⟨L, n, qs, 0⟩ := by
    refine ⟨hr.hL, r1, Nat.zero_le _, by rw [r6]; exact hr.wsize, hr.qs_ok, ?_, r3, ?_, ?_⟩
    · intro p; rw [r2 p]
      constructor
      · intro h; exact ⟨h, fun i hi => absurd hi (Nat.not_lt_zero _)⟩
      · intro h; exact h.1
    · intro i hi; exact absurd hi (Nat.not_lt_zero _)
    · intro i _ hi; rw [r6]; exact hr.slots i hi
  have hfold : preSieve cfg σ primes c n =
      { initCounter cfg (crossList σ1 0 (preList primes c)) n with inited := true } := by
    unfold preSieve
    simp only []
    have := foldl_cross_eq primes (c + 1 - 4) 0 σ1
    simp only [Nat.zero_add] at this
    rw [this]
    rfl
  obtain ⟨c1, c2, c3, c4, c5, c6, c7⟩ := hB1.crossList (preList primes c) σ1 ⟨L, n, qs, 0⟩
    (by rw [r6, r7]; exact hav)
  set σ2 := crossList σ1 0 (preList primes c) with hσ2
  have hseg2 : σ2.segmentSize = σ1.segmentSize := by unfold State.segmentSize; rw [c6]
  have hGn : ∀ (qs' : List ℕ) (G : Ghost), (G.crossedAll qs').n = G.n ∧ (G.crossedAll qs').L = G.L := by
    intro qs'
    induction qs' with
    | nil => intro G; exact ⟨rfl, rfl⟩
    | cons q rest ih => intro G; exact ih (G.crossed q)
  obtain ⟨d1, d2, d3, d4⟩ := initCounter_spec cfg σ2 n c1.ok h1
    (by have := c1.nle; rw [(hGn _ _).1] at this; exact this)
    (by rw [hseg2]; exact r4)
    (by intro p hp; have := (c1.bits p).mp hp; rw [(hGn _ _).1] at this; exact this.1)
    (by rw [c4, c5, r9, r10]; exact hr.cdist) (by rw [c5, r10]; exact hr.clog)
    (by rw [c6, c3, c5, r8, r10]; exact le_trans r5 hr.csize)
    (by rw [c6]; have := hr.small; omega)
  rw [hfold]
  have hsame : SameData (initCounter cfg σ2 n) { initCounter cfg σ2 n with inited := true } → True := fun _ => trivial
  refine ⟨?_, ?_, rfl, ?_, ?_, ?_, rfl⟩
  · -- BitsInv only looks at sieve, wheel
    have hb : BitsInv (initCounter cfg σ2 n) ((⟨L, n, qs, 0⟩ : Ghost).crossedAll (preList primes c)) := by
      have hseg : (initCounter cfg σ2 n).segmentSize = σ2.segmentSize := by unfold State.segmentSize; rw [d2]
      exact ⟨c1.hL, by rw [d2]; exact c1.ok, c1.kle, by rw [d3]; exact c1.wsize, c1.qs_ok, by rw [d2]; exact c1.bits,
        by rw [hseg]; exact c1.nle, by rw [d3, hseg]; exact c1.done, by rw [d3]; exact c1.todo⟩
    exact ⟨hb.hL, hb.ok, hb.kle, hb.wsize, hb.qs_ok, hb.bits, hb.nle, hb.done, hb.todo⟩
  · exact ⟨d1.cinv, d1.cdist, d1.csize, d1.small, d1.clog, ⟨d1.inc.count, d1.inc.cstop, d1.inc.csum⟩⟩
  · show (initCounter cfg σ2 n).start = σ.start
    rw [d4, c2, r7]
  · show (initCounter cfg σ2 n).wheel.size = _
    rw [d3, c7, r6]
  · show (initCounter cfg σ2 n).sieve.size * 30 = _
    rw [d2, c6]
    exact hsegsize

end Pc.Sieve
