/-
C17: `countSpec (word64 s) start stop` (the value all counting paths compute) is the number of set bits
whose number lies in `[start, stop]`.
-/
import PcProofs.Sieve.Bits

namespace Pc.Sieve
open Pc.WheelSpec

theorem off_bounds (p i : ℕ) (h1 : 64 * i ≤ p) (h2 : p < 64 * i + 64) :
    240 * i < offsetOfBit p ∧ offsetOfBit p < 240 * i + 240 ∧
    offsetOfBit p = 240 * i + offsetOfBit (p - 64 * i) := by
  have e : p = 64 * i + (p - 64 * i) := by omega
  have ht : p - 64 * i < 64 := by omega
  have h3 := offsetOfBit_word i (p - 64 * i) ht
  rw [← e] at h3
  have := offsetOfBit_pos (p - 64 * i)
  have := offsetOfBit_lt_word (p - 64 * i) ht
  omega

theorem off_bounds' (p : ℕ) : 240 * (p / 64) < offsetOfBit p ∧ offsetOfBit p < 240 * (p / 64) + 240 := by
  have := off_bounds p (p / 64) (by omega) (by omega)
  exact ⟨this.1, this.2.1⟩

theorem or_ones (m : ℕ) (hm : m < M64) : (M64 - 1) ||| m = M64 - 1 := by
  apply Nat.eq_of_testBit_eq
  intro i
  rw [Nat.testBit_or]
  simp only [M64] at hm ⊢
  rw [Nat.testBit_two_pow_sub_one]
  by_cases h : i < 64
  · simp [h]
  · have : m.testBit i = false :=
      Nat.testBit_lt_two_pow (lt_of_lt_of_le hm (Nat.pow_le_pow_right (by decide) (by omega)))
    simp [h, this]

theorem and_ones (m : ℕ) (hm : m < M64) : m &&& (M64 - 1) = m := by
  have := Nat.and_two_pow_sub_one_eq_mod m 64
  simp only [M64] at hm ⊢
  rw [this]; exact Nat.mod_eq_of_lt hm

/-- the prologue when `start` and `stop` lie in the same word -/
theorem prologue_same (w : ℕ → ℕ) (a b : ℕ) (h : a / 240 = b / 240) :
    countPrologue w a b = (a / 240, b / 240, w (a / 240) &&& (unsetS (a % 240) &&& unsetL (b % 240)), 0) := by
  unfold countPrologue
  have hne : (a / 240 != b / 240) = false := by simp [h]
  simp only [hne, Bool.false_eq_true, if_false, Nat.zero_or, Nat.and_zero,
    unsetSmaller_getD _ (Nat.mod_lt a (by decide)), unsetLarger_getD _ (Nat.mod_lt b (by decide))]

/-- the prologue when they lie in different words -/
theorem prologue_diff (w : ℕ → ℕ) (a b : ℕ) (h : a / 240 ≠ b / 240) :
    countPrologue w a b = (a / 240, b / 240, w (a / 240) &&& unsetS (a % 240), w (b / 240) &&& unsetL (b % 240)) := by
  unfold countPrologue
  have hne : (a / 240 != b / 240) = true := by simp [h]
  simp only [hne, if_true, unsetSmaller_getD _ (Nat.mod_lt a (by decide)),
    unsetLarger_getD _ (Nat.mod_lt b (by decide)), or_ones _ (unsetL_lt _), and_ones _ (unsetS_lt _),
    and_ones _ (unsetL_lt _)]

theorem cnt_zero (P : ℕ → Bool) (a n : ℕ) (h : ∀ p, a ≤ p → p < a + n → P p = false) : cnt P a n = 0 := by
  unfold cnt
  apply sumFrom_zero
  intro p h1 h2; rw [h p h1 h2]; rfl

theorem cnt_congr (P Q : ℕ → Bool) (a n : ℕ) (h : ∀ p, a ≤ p → p < a + n → P p = Q p) : cnt P a n = cnt Q a n := by
  unfold cnt
  apply sumFrom_congr_range
  intro p h1 h2; rw [h p h1 h2]

theorem cnt_add (P : ℕ → Bool) (a m n : ℕ) : cnt P a (m + n) = cnt P a m + cnt P (a + m) n := sumFrom_add _ a m n

/-- **`countSpec` counts bits.**  For a sieve array of whole words of bytes and `start ≤ stop` inside it, the
    value computed by every counting path is the number of set bits whose number lies in `[start, stop]`. -/
theorem countSpec_eq_bitsIn (s : Bytes) (hs : BytesOk s) (a b : ℕ) (hab : a ≤ b) (hb : b < 30 * s.size) :
    countSpec (word64 s) a b = bitsIn s a b := by
  obtain ⟨n, hn⟩ : ∃ n, s.size = 8 * n := ⟨s.size / 8, by have := hs.words; omega⟩
  have hlt := hs.lt
  have hti : b / 240 < n := by omega
  have hsi : a / 240 ≤ b / 240 := Nat.div_le_div_right hab
  unfold bitsIn
  rw [hn, show 8 * (8 * n) = 64 * n by ring]
  by_cases hsame : a / 240 = b / 240
  · -- one word
    unfold countSpec
    rw [prologue_same _ a b hsame]
    simp only [popCount64_zero, Nat.add_zero]
    rw [show b / 240 - (a / 240 + 1) = 0 by omega]
    simp only [sumFrom, Nat.add_zero]
    rw [popCount_word_mask s hlt]
    set i := a / 240 with hi
    have split : 64 * n = 64 * i + (64 + 64 * (n - i - 1)) := by omega
    rw [split, cnt_add, cnt_add, Nat.zero_add]
    rw [cnt_zero (inRange s a b) 0 (64 * i) (by
      intro p _ h2
      have := off_bounds' p
      have : p / 64 < i := by omega
      have : ¬ a ≤ offsetOfBit p := by omega
      simp [inRange, this])]
    rw [cnt_zero (inRange s a b) (64 * i + 64) _ (by
      intro p h1 _
      have := off_bounds' p
      have : i + 1 ≤ p / 64 := by omega
      have : ¬ offsetOfBit p ≤ b := by omega
      simp [inRange, this])]
    simp only [Nat.zero_add, Nat.add_zero]
    apply cnt_congr
    intro p h1 h2
    obtain ⟨_, _, e⟩ := off_bounds p i h1 h2
    have ht : p - 64 * i < 64 := by omega
    rw [Nat.testBit_and, unsetS_testBit _ _ (Nat.mod_lt a (by decide)) ht,
      unsetL_testBit _ _ (Nat.mod_lt b (by decide)) ht]
    unfold inRange
    have e1 : (a % 240 ≤ offsetOfBit (p - 64 * i)) ↔ a ≤ offsetOfBit p := by omega
    have e2 : (offsetOfBit (p - 64 * i) ≤ b % 240) ↔ offsetOfBit p ≤ b := by omega
    simp only [e1, e2, Bool.and_assoc]
  · -- several words
    have hlt2 : a / 240 < b / 240 := by omega
    unfold countSpec
    rw [prologue_diff _ a b hsame]
    simp only []
    rw [popCount_word_mask s hlt, popCount_word_mask s hlt]
    set i := a / 240 with hi
    set j := b / 240 with hj
    -- the words strictly between
    have hmid : sumFrom (fun k => popCount64 (word64 s k)) (i + 1) (j - (i + 1)) =
        cnt (inRange s a b) (64 * (i + 1)) (64 * (j - (i + 1))) := by
      unfold cnt
      rw [← sumFrom_blocks]
      apply sumFrom_congr_range
      intro k h1 h2
      rw [popCount_word s hlt k]
      apply cnt_congr
      intro p hp1 hp2
      obtain ⟨h3, h4, _⟩ := off_bounds p k hp1 hp2
      have e1 : a ≤ offsetOfBit p := by omega
      have e2 : offsetOfBit p ≤ b := by omega
      unfold inRange
      simp only [e1, e2, decide_true, Bool.and_true]
    rw [hmid]
    have split : 64 * n = 64 * i + (64 + (64 * (j - (i + 1)) + (64 + 64 * (n - j - 1)))) := by omega
    rw [split, cnt_add, cnt_add, cnt_add, cnt_add, Nat.zero_add]
    rw [cnt_zero (inRange s a b) 0 (64 * i) (by
      intro p _ h2
      have := off_bounds' p
      have : p / 64 < i := by omega
      have : ¬ a ≤ offsetOfBit p := by omega
      simp [inRange, this])]
    have e3 : 64 * i + 64 + 64 * (j - (i + 1)) = 64 * j := by omega
    rw [e3]
    rw [cnt_zero (inRange s a b) (64 * j + 64) _ (by
      intro p h1 _
      have := off_bounds' p
      have : j + 1 ≤ p / 64 := by omega
      have : ¬ offsetOfBit p ≤ b := by omega
      simp [inRange, this])]
    have e4 : 64 * i + 64 = 64 * (i + 1) := by ring
    rw [e4]
    have c1 : cnt (fun p => bitAt s p && (unsetS (a % 240)).testBit (p - 64 * i)) (64 * i) 64 =
        cnt (inRange s a b) (64 * i) 64 := by
      apply cnt_congr
      intro p h1 h2
      obtain ⟨_, _, e⟩ := off_bounds p i h1 h2
      have ht : p - 64 * i < 64 := by omega
      rw [unsetS_testBit _ _ (Nat.mod_lt a (by decide)) ht]
      unfold inRange
      have e1 : (a % 240 ≤ offsetOfBit (p - 64 * i)) ↔ a ≤ offsetOfBit p := by omega
      have e2 : offsetOfBit p ≤ b := by omega
      simp only [e1, e2, decide_true, Bool.and_true]
    have c2 : cnt (fun p => bitAt s p && (unsetL (b % 240)).testBit (p - 64 * j)) (64 * j) 64 =
        cnt (inRange s a b) (64 * j) 64 := by
      apply cnt_congr
      intro p h1 h2
      obtain ⟨_, _, e⟩ := off_bounds p j h1 h2
      have ht : p - 64 * j < 64 := by omega
      rw [unsetL_testBit _ _ (Nat.mod_lt b (by decide)) ht]
      unfold inRange
      have e1 : (offsetOfBit (p - 64 * j) ≤ b % 240) ↔ offsetOfBit p ≤ b := by omega
      have e2 : a ≤ offsetOfBit p := by omega
      simp only [e1, e2, decide_true, Bool.and_true]
    rw [c1, c2]; omega

end Pc.Sieve
