/-
C17: the switch of `Sieve::cross_off` (with its unrolled fast loops) crosses off exactly the multiples of the
sieving number that are coprime to 30, in order, and leaves the wheel state at the first multiple beyond the
segment.
-/
import PcProofs.Sieve.BitOps
import PcProofs.Sieve.Wheel

namespace Pc.Sieve
open Pc.WheelSpec

/-- wheel state `(m, 8g+j)` of the sieving number `q` relative to a segment starting at `L`:
    the pending multiple is `q·u`, `u ≡ w_j (mod 30)`, and it lives in byte `m` -/
def Pos (q L m j u : ℕ) : Prop := j < 8 ∧ u % 30 = wheelW j ∧ (q * u) / 30 = L / 30 + m

/-- bit `p` is a multiple `q·t` with `u0 ≤ t < u` -/
def Hit (q L u0 u p : ℕ) : Prop :=
  q ∣ L + offsetOfBit p ∧ q * u0 ≤ L + offsetOfBit p ∧ L + offsetOfBit p < q * u

theorem rho_pos : ∀ g < 8, 1 ≤ rho g := by decide
theorem rho_lt : ∀ g < 8, rho g < 30 := by decide
theorem wheelW_pos : ∀ j < 9, 1 ≤ wheelW j := by decide
theorem wheelW_lt30 : ∀ j < 8, wheelW j < 30 := by decide
theorem wheelW_mono : ∀ j < 8, wheelW j < wheelW (j + 1) := by decide
theorem wheelW_zero : wheelW 0 = 1 := by decide
theorem residues_gcd : ∀ r < 8, Nat.gcd (residues.getD r 0) 30 = 1 := by decide
theorem entry_kc_le : ∀ g < 8, ∀ j < 8, (expectedEntry g j).2.1 ≤ 6 ∧ (expectedEntry g j).2.2.1 ≤ 6 := by decide
theorem entry_c_last : ∀ g < 8, 1 ≤ (expectedEntry g 7).2.2.1 := by decide
/-- the residues coprime to 30 in `[1, 31)` are exactly the wheel factors -/
theorem coprime_iff_wheel : ∀ r < 31, 1 ≤ r → (Nat.gcd r 30 = 1 ↔ ∃ j < 8, r = wheelW j) := by decide

theorem offsetOfBit_byte (m b : ℕ) (hb : b < 8) : offsetOfBit (8 * m + b) = 30 * m + residues.getD b 0 := by
  unfold offsetOfBit
  rw [show (8 * m + b) / 8 = m by omega, show (8 * m + b) % 8 = b by omega]

theorem coprime_off (L p : ℕ) (hL : 30 ∣ L) : Nat.gcd (L + offsetOfBit p) 30 = 1 := by
  obtain ⟨c, rfl⟩ := hL
  unfold offsetOfBit
  rw [show 30 * c + (30 * (p / 8) + residues.getD (p % 8) 0) = 30 * (c + p / 8) + residues.getD (p % 8) 0 by ring,
    gcd_add30]
  exact residues_gcd _ (Nat.mod_lt _ (by decide))

/-- the number of bit `b` of byte `m` is the pending multiple -/
theorem num_at (q L m u b : ℕ) (hL : 30 ∣ L) (hdiv : (q * u) / 30 = L / 30 + m) (hb : b < 8)
    (hres : (q * u) % 30 = residues.getD b 0) : L + offsetOfBit (8 * m + b) = q * u := by
  rw [offsetOfBit_byte m b hb]
  obtain ⟨c, rfl⟩ := hL
  have := Nat.div_add_mod (q * u) 30
  have : 30 * c / 30 = c := by omega
  omega

/-- a bit whose number is a multiple `q·t`, `u ≤ t < u + k`, when nothing coprime to 30 lies strictly between
    `u` and `u + k`: it is the bit of `q·u` -/
theorem hit_is_u (q L u k p : ℕ) (hq : 0 < q) (hL : 30 ∣ L)
    (hgap : ∀ t, u < t → t < u + k → ¬ Nat.Coprime t 30)
    (h1 : q ∣ L + offsetOfBit p) (h2 : q * u ≤ L + offsetOfBit p) (h3 : L + offsetOfBit p < q * (u + k)) :
    L + offsetOfBit p = q * u := by
  obtain ⟨t, ht⟩ := h1
  rw [ht] at h2 h3 ⊢
  have ht1 : u ≤ t := Nat.le_of_mul_le_mul_left h2 hq
  have ht2 : t < u + k := Nat.lt_of_mul_lt_mul_left h3
  have hco : Nat.Coprime t 30 := by
    have := coprime_off L p hL
    rw [ht] at this
    exact Nat.Coprime.coprime_dvd_left (Dvd.intro_left q rfl) this
  by_cases he : t = u
  · rw [he]
  · exact absurd hco (hgap t (by omega) ht2)

section step
variable (q P g L : ℕ) (hq : q = 30 * P + rho g) (hg : g < 8) (hL : 30 ∣ L)
include hq hg hL

theorem q_pos : 0 < q := by have := rho_pos g hg; omega

/-- residue of the pending multiple -/
theorem pos_residue (m j u : ℕ) (hp : Pos q L m j u) :
    (q * u) % 30 = residues.getD (expectedEntry g j).1 0 ∧ (expectedEntry g j).1 < 8 := by
  obtain ⟨hj, hu, _⟩ := hp
  have e : u = 30 * (u / 30) + wheelW j := by omega
  rw [e, hq, mul_mod30]
  exact ⟨tab_bit g hg j hj, tab_bit_lt g hg j hj⟩

/-- **one `case` line** (unguarded): position, wheel state and the set of cleared bits -/
theorem step_spec (m j u : ℕ) (hp : Pos q L m j u) :
    Pos q L (m + P * (expectedEntry g j).2.1 + (expectedEntry g j).2.2.1) ((j + 1) % 8) (u + (expectedEntry g j).2.1) ∧
    0 < (expectedEntry g j).2.1 ∧
    (∀ p, (p = 8 * m + (expectedEntry g j).1) ↔ Hit q L u (u + (expectedEntry g j).2.1) p) ∧
    (∀ t, Nat.Coprime t 30 → u ≤ t → t < u + (expectedEntry g j).2.1 → t = u) ∧
    (expectedEntry g j).1 < 8 ∧ (j = 7 → 1 ≤ (expectedEntry g j).2.2.1) := by
  have hpos := hp
  obtain ⟨hj, hu, hdiv⟩ := hp
  have e : u = 30 * (u / 30) + wheelW j := by omega
  have ws := wheel_step_correct g j hg hj P (u / 30)
  simp only [] at ws
  rw [wheelTab_getD g j hg hj, ← e, ← hq] at ws
  obtain ⟨w1, w2, w3, w4, w5, _, w7⟩ := ws
  have hk : 0 < (expectedEntry g j).2.1 := by
    have := tab_k g hg j hj; have := wheelW_mono j hj; omega
  have hqpos := q_pos q P g L hq hg hL
  refine ⟨⟨Nat.mod_lt _ (by decide), w7, by rw [w3, hdiv]; omega⟩, hk, ?_,
    fun t hco h1 h2 => by
      by_contra hne
      exact w5 t (by omega) h2 hco,
    w2, fun h7 => by subst h7; exact entry_c_last g hg⟩
  intro p
  have hnum := num_at q L m u _ hL hdiv w2 w1
  constructor
  · rintro rfl
    refine ⟨by rw [hnum]; exact Dvd.intro _ rfl, by rw [hnum], ?_⟩
    rw [hnum]; exact Nat.mul_lt_mul_of_pos_left (by omega) hqpos
  · rintro ⟨h1, h2, h3⟩
    have := hit_is_u q L u _ p hqpos hL w5 h1 h2 h3
    rw [← hnum] at this
    exact offsetOfBit_inj _ _ (by omega)

end step

/-! ### bits after a list of clears -/

theorem bitAt_foldl_clear (P m : ℕ) : ∀ (body : List (ℕ × ℕ × ℕ)) (s : Bytes), (∀ e ∈ body, e.2.2 < 8) →
    ∀ p, bitAt (fastRound P body m s) p = (bitAt s p && decide (∀ e ∈ body, p ≠ 8 * (m + P * e.1 + e.2.1) + e.2.2))
  | [], s, _, p => by simp [fastRound]
  | e :: body, s, h, p => by
    have ih := bitAt_foldl_clear P m body (s.modify (m + P * e.1 + e.2.1) (clearBit · e.2.2))
      (fun x hx => h x (by simp [hx])) p
    unfold fastRound at ih ⊢
    rw [List.foldl_cons, ih, bitAt_clear _ _ _ _ (h e (by simp))]
    simp only [List.mem_cons, forall_eq_or_imp, Bool.decide_and, Bool.and_assoc]

theorem size_fastRound (P m : ℕ) : ∀ (body : List (ℕ × ℕ × ℕ)) (s : Bytes), (fastRound P body m s).size = s.size
  | [], s => rfl
  | e :: body, s => by
    have ih := size_fastRound P m body (s.modify (m + P * e.1 + e.2.1) (clearBit · e.2.2))
    unfold fastRound at ih ⊢
    rw [List.foldl_cons, ih, Array.size_modify]

theorem bytesOk_fastRound (P m : ℕ) : ∀ (body : List (ℕ × ℕ × ℕ)) (s : Bytes), BytesOk s → BytesOk (fastRound P body m s)
  | [], s, h => h
  | e :: body, s, h => by
    have ih := bytesOk_fastRound P m body _ (bytesOk_modify_clear s h (m + P * e.1 + e.2.1) e.2.2)
    unfold fastRound at ih ⊢
    rw [List.foldl_cons]; exact ih

end Pc.Sieve
