/-
C15: the portable SWAR `popcnt64_bitwise_noinline` equals the population count.
Proof by splitting the 64-bit word into bytes: every stage of the algorithm acts bytewise (the bits that a
shift moves across a byte boundary are removed by the mask), the per-byte functions are checked on all 256
byte values by `decide`, and the final multiply adds the 8 byte counts.  No `bv_decide`.
-/
import PcModel.Sieve
import Mathlib.Tactic.Ring

namespace Pc.Sieve

/-- little-endian base-256 digits (digits may be arbitrary naturals) -/
def ofDigits : List ℕ → ℕ
  | [] => 0
  | b :: bs => b + 256 * ofDigits bs

def AllLt (n : ℕ) (ds : List ℕ) : Prop := ∀ d ∈ ds, d < n

theorem ofDigits_add : ∀ (as bs : List ℕ), as.length = bs.length →
    ofDigits (List.zipWith (· + ·) as bs) = ofDigits as + ofDigits bs
  | [], [], _ => rfl
  | a :: as, b :: bs, h => by
    simp only [List.zipWith_cons_cons, ofDigits]
    rw [ofDigits_add as bs (by simpa using h)]; ring
  | [], _ :: _, h => by simp at h
  | _ :: _, [], h => by simp at h

theorem ofDigits_map_add (f g : ℕ → ℕ) (ds : List ℕ) :
    ofDigits (ds.map fun d => f d + g d) = ofDigits (ds.map f) + ofDigits (ds.map g) := by
  induction ds with
  | nil => rfl
  | cons d ds ih => simp only [List.map_cons, ofDigits, ih]; ring

theorem ofDigits_map_sub (f g : ℕ → ℕ) (ds : List ℕ) (h : ∀ d ∈ ds, g d ≤ f d) :
    ofDigits (ds.map fun d => f d - g d) = ofDigits (ds.map f) - ofDigits (ds.map g) := by
  have key : ofDigits (ds.map fun d => f d - g d) + ofDigits (ds.map g) = ofDigits (ds.map f) := by
    rw [← ofDigits_map_add]
    congr 1
    apply List.map_congr_left
    intro d hd; have := h d hd; omega
  omega

theorem ofDigits_lt : ∀ (ds : List ℕ), AllLt 256 ds → ofDigits ds < 256 ^ ds.length
  | [], _ => by simp [ofDigits]
  | d :: ds, h => by
    have h1 : d < 256 := h d (by simp)
    have h2 := ofDigits_lt ds (fun x hx => h x (by simp [hx]))
    simp only [ofDigits, List.length_cons, pow_succ]
    omega

/-- AND acts bytewise -/
theorem and_peel (b c x y : ℕ) (hb : b < 256) (hc : c < 256) :
    (b + 256 * x) &&& (c + 256 * y) = (b &&& c) + 256 * (x &&& y) := by
  have h1 : ((b + 256 * x) &&& (c + 256 * y)) % 2 ^ 8 = b &&& c := by
    rw [Nat.and_mod_two_pow]
    have e1 : (b + 256 * x) % 2 ^ 8 = b := by omega
    have e2 : (c + 256 * y) % 2 ^ 8 = c := by omega
    rw [e1, e2]
  have h2 : ((b + 256 * x) &&& (c + 256 * y)) / 2 ^ 8 = x &&& y := by
    rw [Nat.and_div_two_pow]
    have e1 : (b + 256 * x) / 2 ^ 8 = x := by omega
    have e2 : (c + 256 * y) / 2 ^ 8 = y := by omega
    rw [e1, e2]
  have := Nat.mod_add_div ((b + 256 * x) &&& (c + 256 * y)) (2 ^ 8)
  rw [h1, h2] at this
  omega

/-- the mask `c c c …` (n bytes) -/
def rep (c : ℕ) (n : ℕ) : ℕ := ofDigits (List.replicate n c)

theorem and_rep (c : ℕ) (hc : c < 256) : ∀ (ds : List ℕ), AllLt 256 ds →
    ofDigits ds &&& rep c ds.length = ofDigits (ds.map (· &&& c))
  | [], _ => by simp [ofDigits, rep]
  | d :: ds, h => by
    have h1 : d < 256 := h d (by simp)
    have ih := and_rep c hc ds (fun x hx => h x (by simp [hx]))
    simp only [rep, List.length_cons, List.replicate_succ, ofDigits, List.map_cons] at ih ⊢
    rw [and_peel d c _ _ h1 hc, ih]

theorem and_small (t r c : ℕ) (k : ℕ) (ht : t < 2 ^ k) (hc : c < 2 ^ k) :
    (t + 2 ^ k * r) &&& c = t &&& c := by
  apply Nat.eq_of_testBit_eq
  intro i
  rw [Nat.testBit_and, Nat.testBit_and, Nat.add_comm, Nat.testBit_two_pow_mul_add r ht]
  by_cases hi : i < k
  · simp [hi]
  · have : c.testBit i = false :=
      Nat.testBit_lt_two_pow (lt_of_lt_of_le hc (Nat.pow_le_pow_right (by decide) (by omega)))
    simp [this]

/-- shift right by `s < 8` then mask with a byte pattern whose top `s` bits are clear: acts bytewise -/
theorem shift_and_peel (s b c x y : ℕ) (hs : s ≤ 8) (hb : b < 256) (hc : c < 2 ^ (8 - s)) :
    ((b + 256 * x) >>> s) &&& (c + 256 * y) = ((b >>> s) &&& c) + 256 * ((x >>> s) &&& y) := by
  have hc' : c < 256 := lt_of_lt_of_le hc (by
    calc 2 ^ (8 - s) ≤ 2 ^ 8 := Nat.pow_le_pow_right (by decide) (by omega)
      _ = 256 := by decide)
  have h256 : (256 : ℕ) = 2 ^ s * 2 ^ (8 - s) := by
    have : s + (8 - s) = 8 := by omega
    rw [← pow_add, this]; rfl
  have hpos : 0 < 2 ^ s := Nat.two_pow_pos s
  -- (b + 256 x) / 2^s = b / 2^s + 2^(8-s) * x
  have hdiv : (b + 256 * x) / 2 ^ s = b / 2 ^ s + 2 ^ (8 - s) * x := by
    rw [h256, Nat.mul_assoc, Nat.add_mul_div_left _ _ hpos]
  have hbs : b / 2 ^ s < 2 ^ (8 - s) := by
    rw [Nat.div_lt_iff_lt_mul hpos, Nat.mul_comm, ← h256]; exact hb
  rw [Nat.shiftRight_eq_div_pow, Nat.shiftRight_eq_div_pow, Nat.shiftRight_eq_div_pow, hdiv]
  -- write 2^(8-s) * x = 2^(8-s) * (x % 2^s) + 256 * (x / 2^s)
  have hx : 2 ^ (8 - s) * x = 2 ^ (8 - s) * (x % 2 ^ s) + 256 * (x / 2 ^ s) := by
    conv_lhs => rw [← Nat.mod_add_div x (2 ^ s)]
    rw [Nat.mul_add, h256]; ring
  have hlow : b / 2 ^ s + 2 ^ (8 - s) * (x % 2 ^ s) < 256 := by
    have : x % 2 ^ s < 2 ^ s := Nat.mod_lt _ hpos
    calc b / 2 ^ s + 2 ^ (8 - s) * (x % 2 ^ s)
        < 2 ^ (8 - s) + 2 ^ (8 - s) * (x % 2 ^ s) := by omega
      _ = 2 ^ (8 - s) * (x % 2 ^ s + 1) := by ring
      _ ≤ 2 ^ (8 - s) * 2 ^ s := Nat.mul_le_mul_left _ this
      _ = 256 := by rw [h256]; ring
  rw [hx, ← Nat.add_assoc, and_peel _ c _ _ hlow hc', and_small _ _ _ _ hbs hc]

theorem shift_and_rep (s c : ℕ) (hs : s ≤ 8) (hc : c < 2 ^ (8 - s)) : ∀ (ds : List ℕ), AllLt 256 ds →
    (ofDigits ds >>> s) &&& rep c ds.length = ofDigits (ds.map fun d => (d >>> s) &&& c)
  | [], _ => by simp [ofDigits, rep]
  | d :: ds, h => by
    have h1 : d < 256 := h d (by simp)
    have ih := shift_and_rep s c hs hc ds (fun x hx => h x (by simp [hx]))
    simp only [rep, List.length_cons, List.replicate_succ, ofDigits, List.map_cons] at ih ⊢
    rw [shift_and_peel s d c _ _ hs h1 hc, ih]

/-! ### the per-byte stage functions -/

def g1 (b : ℕ) : ℕ := (b >>> 1) &&& 0x55
def f1 (b : ℕ) : ℕ := b - g1 b
def f2 (b : ℕ) : ℕ := (b &&& 0x33) + ((b >>> 2) &&& 0x33)
def f3 (b : ℕ) : ℕ := b % 16 + b / 16

theorem g1_le : ∀ b < 256, g1 b ≤ b := by decide +kernel
theorem f1_lt : ∀ b < 256, f1 b < 256 := by decide +kernel
theorem f2_nibbles : ∀ b < 256, f2 (f1 b) % 16 ≤ 4 ∧ f2 (f1 b) / 16 ≤ 4 := by decide +kernel
theorem byte_popcount : ∀ b < 256, f3 (f2 (f1 b)) = popCountBits 8 b := by decide +kernel

/-- stage 3: `(x + (x >> 4)) & m4` when every nibble is at most 4 -/
theorem stage3 : ∀ (ds : List ℕ), (∀ d ∈ ds, d % 16 ≤ 4 ∧ d / 16 ≤ 4) →
    (ofDigits ds + ofDigits ds >>> 4) &&& rep 0x0F ds.length = ofDigits (ds.map f3)
  | [], _ => by simp [ofDigits, rep]
  | d :: ds, h => by
    have hd := h d (by simp)
    have ih := stage3 ds (fun x hx => h x (by simp [hx]))
    simp only [rep, List.length_cons, List.replicate_succ, ofDigits, List.map_cons] at ih ⊢
    set X := ofDigits ds with hX
    -- low nibble of the next byte is at most 4
    have hX16 : X % 16 ≤ 4 := by
      cases ds with
      | nil => simp [hX, ofDigits]
      | cons e es =>
        have he := h e (by simp)
        simp only [hX, ofDigits]; omega
    rw [Nat.shiftRight_eq_div_pow] at ih ⊢
    have e1 : d + 256 * X + (d + 256 * X) / 2 ^ 4 = (d % 16 + d / 16 + 16 * (d / 16 + X % 16)) + 256 * (X + X / 2 ^ 4) := by
      omega
    have hlow : d % 16 + d / 16 + 16 * (d / 16 + X % 16) < 256 := by omega
    rw [e1, and_peel _ 15 _ _ hlow (show (15 : ℕ) < 256 by decide), ih]
    congr 1
    have : (d % 16 + d / 16 + 16 * (d / 16 + X % 16)) &&& 15 = d % 16 + d / 16 := by
      have := Nat.and_two_pow_sub_one_eq_mod (d % 16 + d / 16 + 16 * (d / 16 + X % 16)) 4
      have e15 : (2 : ℕ) ^ 4 - 1 = 15 := by decide
      have e16 : (2 : ℕ) ^ 4 = 16 := by decide
      rw [e15, e16] at this
      rw [this]; omega
    simpa [f3] using this

theorem top_digit (s0 s1 s2 s3 s4 s5 s6 s7 : ℕ)
    (h : s0 ≤ 64 ∧ s1 ≤ 64 ∧ s2 ≤ 64 ∧ s3 ≤ 64 ∧ s4 ≤ 64 ∧ s5 ≤ 64 ∧ s6 ≤ 64 ∧ s7 ≤ 64) :
    (s0 + 256 * (s1 + 256 * (s2 + 256 * (s3 + 256 * (s4 + 256 * (s5 + 256 * (s6 + 256 * s7))))))) % 2 ^ 64 / 2 ^ 56
      = s7 := by
  omega

/-- the final multiply `(x * h01) >> 56` adds the 8 byte counts -/
theorem mul_h01 (c0 c1 c2 c3 c4 c5 c6 c7 : ℕ)
    (h : c0 ≤ 8 ∧ c1 ≤ 8 ∧ c2 ≤ 8 ∧ c3 ≤ 8 ∧ c4 ≤ 8 ∧ c5 ≤ 8 ∧ c6 ≤ 8 ∧ c7 ≤ 8) :
    ((ofDigits [c0, c1, c2, c3, c4, c5, c6, c7] * 0x0101010101010101) % M64) >>> 56
      = c0 + c1 + c2 + c3 + c4 + c5 + c6 + c7 := by
  obtain ⟨h0, h1, h2, h3, h4, h5, h6, h7⟩ := h
  -- x * h01 = L + 2^64 * H with L the 8 prefix sums as base-256 digits
  have hsplit : ofDigits [c0, c1, c2, c3, c4, c5, c6, c7] * 0x0101010101010101 =
      (c0 + 256 * ((c0 + c1) + 256 * ((c0 + c1 + c2) + 256 * ((c0 + c1 + c2 + c3) +
        256 * ((c0 + c1 + c2 + c3 + c4) + 256 * ((c0 + c1 + c2 + c3 + c4 + c5) +
        256 * ((c0 + c1 + c2 + c3 + c4 + c5 + c6) + 256 * (c0 + c1 + c2 + c3 + c4 + c5 + c6 + c7)))))))) +
      2 ^ 64 * ((c1 + c2 + c3 + c4 + c5 + c6 + c7) + 256 * ((c2 + c3 + c4 + c5 + c6 + c7) +
        256 * ((c3 + c4 + c5 + c6 + c7) + 256 * ((c4 + c5 + c6 + c7) + 256 * ((c5 + c6 + c7) +
        256 * ((c6 + c7) + 256 * c7)))))) := by
    simp only [ofDigits]; ring
  rw [hsplit, M64, Nat.add_mul_mod_self_left, Nat.shiftRight_eq_div_pow]
  exact top_digit _ _ _ _ _ _ _ _ ⟨by omega, by omega, by omega, by omega, by omega, by omega, by omega, by omega⟩

theorem popCountBits_le : ∀ k x, popCountBits k x ≤ k
  | 0, _ => by simp [popCountBits]
  | k + 1, x => by
    have := popCountBits_le k (x / 2)
    simp only [popCountBits]; omega

/-- the population count splits at any bit position -/
theorem popCountBits_split : ∀ (j k b x : ℕ), b < 2 ^ j →
    popCountBits (j + k) (b + 2 ^ j * x) = popCountBits j b + popCountBits k x
  | 0, k, b, x, h => by
    have : b = 0 := by simpa using h
    simp [this, popCountBits]
  | j + 1, k, b, x, h => by
    have e : j + 1 + k = (j + k) + 1 := by omega
    rw [e]
    simp only [popCountBits]
    have e2 : 2 ^ (j + 1) * x = 2 * (2 ^ j * x) := by rw [pow_succ]; ring
    have h1 : (b + 2 ^ (j + 1) * x) % 2 = b % 2 := by rw [e2]; omega
    have h2 : (b + 2 ^ (j + 1) * x) / 2 = b / 2 + 2 ^ j * x := by rw [e2]; omega
    have h3 : b / 2 < 2 ^ j := by rw [pow_succ] at h; omega
    rw [h1, h2, popCountBits_split j k (b / 2) x h3]; omega

theorem popCount_ofDigits : ∀ (ds : List ℕ), AllLt 256 ds →
    popCountBits (8 * ds.length) (ofDigits ds) = (ds.map (popCountBits 8)).sum
  | [], _ => rfl
  | d :: ds, h => by
    have h1 : d < 2 ^ 8 := h d (by simp)
    have ih := popCount_ofDigits ds (fun x hx => h x (by simp [hx]))
    have e : 8 * (d :: ds).length = 8 + 8 * ds.length := by simp only [List.length_cons]; omega
    have e2 : ofDigits (d :: ds) = d + 2 ^ 8 * ofDigits ds := rfl
    rw [e, e2, popCountBits_split 8 _ d _ h1, ih]; simp

theorem popCount64_bytes (b0 b1 b2 b3 b4 b5 b6 b7 : ℕ)
    (h : b0 < 256 ∧ b1 < 256 ∧ b2 < 256 ∧ b3 < 256 ∧ b4 < 256 ∧ b5 < 256 ∧ b6 < 256 ∧ b7 < 256) :
    popCount64 (ofDigits [b0, b1, b2, b3, b4, b5, b6, b7]) =
      popCountBits 8 b0 + popCountBits 8 b1 + popCountBits 8 b2 + popCountBits 8 b3 +
      popCountBits 8 b4 + popCountBits 8 b5 + popCountBits 8 b6 + popCountBits 8 b7 := by
  obtain ⟨h0, h1, h2, h3, h4, h5, h6, h7⟩ := h
  have := popCount_ofDigits [b0, b1, b2, b3, b4, b5, b6, b7] (by
    intro d hd; simp at hd; rcases hd with rfl | rfl | rfl | rfl | rfl | rfl | rfl | rfl <;> assumption)
  simp only [List.length_cons, List.length_nil, List.map_cons, List.map_nil, List.sum_cons, List.sum_nil] at this
  unfold popCount64
  rw [this]; omega

/-- **SWAR population count**: `popcnt64_bitwise_noinline(x)` is the number of 1 bits of `x`, for every
    64-bit word -/
theorem swar_popcount_eq (x : ℕ) (hx : x < M64) : popcntSwar x = popCount64 x := by
  -- split into bytes
  obtain ⟨b0, b1, b2, b3, b4, b5, b6, b7, hb, rfl⟩ :
      ∃ b0 b1 b2 b3 b4 b5 b6 b7 : ℕ,
        (b0 < 256 ∧ b1 < 256 ∧ b2 < 256 ∧ b3 < 256 ∧ b4 < 256 ∧ b5 < 256 ∧ b6 < 256 ∧ b7 < 256) ∧
        x = ofDigits [b0, b1, b2, b3, b4, b5, b6, b7] := by
    refine ⟨x % 256, x / 256 % 256, x / 256 ^ 2 % 256, x / 256 ^ 3 % 256, x / 256 ^ 4 % 256,
      x / 256 ^ 5 % 256, x / 256 ^ 6 % 256, x / 256 ^ 7 % 256, ?_, ?_⟩
    · omega
    · simp only [ofDigits, M64] at hx ⊢; omega
  set ds := [b0, b1, b2, b3, b4, b5, b6, b7] with hds
  have hall : AllLt 256 ds := by
    obtain ⟨h0, h1, h2, h3, h4, h5, h6, h7⟩ := hb
    intro d hd; simp [hds] at hd; rcases hd with rfl | rfl | rfl | rfl | rfl | rfl | rfl | rfl <;> assumption
  have hlen : ds.length = 8 := by simp [hds]
  have m1 : (0x5555555555555555 : ℕ) = rep 0x55 ds.length := by rw [hlen]; rfl
  have m2 : (0x3333333333333333 : ℕ) = rep 0x33 ds.length := by rw [hlen]; rfl
  have m4 : (0x0F0F0F0F0F0F0F0F : ℕ) = rep 0x0F ds.length := by rw [hlen]; rfl
  have hlt : ∀ es : List ℕ, es.length = 8 → AllLt 256 es → ofDigits es < M64 := by
    intro es h8 h; have := ofDigits_lt es h; rw [h8] at this; simpa [M64] using this
  -- stage 1
  have s1 : (ofDigits ds + M64 - ((ofDigits ds >>> 1) &&& 0x5555555555555555)) % M64 = ofDigits (ds.map f1) := by
    rw [m1, shift_and_rep 1 0x55 (by decide) (by decide) ds hall]
    have hsub := ofDigits_map_sub id g1 ds (fun d hd => g1_le d (hall d hd))
    have hle : ofDigits (ds.map g1) ≤ ofDigits ds := by
      have := ofDigits_map_add (fun d => id d - g1 d) g1 ds
      have e : (ds.map fun d => (fun d => id d - g1 d) d + g1 d) = ds := by
        conv_rhs => rw [← List.map_id ds]
        apply List.map_congr_left; intro d hd; have := g1_le d (hall d hd); simp only [id]; omega
      rw [e] at this; omega
    simp only [List.map_id, id] at hsub
    have : (ds.map fun d => (d >>> 1) &&& 0x55) = ds.map g1 := rfl
    rw [this]
    have hX := hlt ds hlen hall
    have : ofDigits ds + M64 - ofDigits (ds.map g1) = (ofDigits ds - ofDigits (ds.map g1)) + M64 := by omega
    rw [this, Nat.add_mod_right, Nat.mod_eq_of_lt (by omega)]
    exact hsub.symm
  set d1 := ds.map f1 with hd1
  have hall1 : AllLt 256 d1 := by
    intro d hd; simp only [hd1, List.mem_map] at hd; obtain ⟨e, he, rfl⟩ := hd; exact f1_lt e (hall e he)
  have hlen1 : d1.length = 8 := by simp [hd1, hlen]
  -- stage 2
  have s2 : ((ofDigits d1 &&& 0x3333333333333333) + ((ofDigits d1 >>> 2) &&& 0x3333333333333333)) % M64
      = ofDigits (d1.map f2) := by
    have e2 : (0x3333333333333333 : ℕ) = rep 0x33 d1.length := by rw [hlen1]; rfl
    rw [e2, and_rep 0x33 (by decide) d1 hall1, shift_and_rep 2 0x33 (by decide) (by decide) d1 hall1,
      ← ofDigits_map_add]
    have : (d1.map fun d => (fun d => d &&& 0x33) d + (fun d => (d >>> 2) &&& 0x33) d) = d1.map f2 := rfl
    rw [this]
    apply Nat.mod_eq_of_lt
    apply hlt _ (by simp [hlen1])
    intro d hd; simp only [List.mem_map] at hd; obtain ⟨e, he, rfl⟩ := hd
    simp only [hd1, List.mem_map] at he; obtain ⟨e', he', rfl⟩ := he
    have := f2_nibbles e' (hall e' he'); omega
  set d2 := d1.map f2 with hd2
  have hnib : ∀ d ∈ d2, d % 16 ≤ 4 ∧ d / 16 ≤ 4 := by
    intro d hd; simp only [hd2, hd1, List.map_map, List.mem_map] at hd
    obtain ⟨e, he, rfl⟩ := hd; exact f2_nibbles e (hall e he)
  have hlen2 : d2.length = 8 := by simp [hd2, hlen1]
  -- stage 3
  have s3 : ((ofDigits d2 + ofDigits d2 >>> 4) % M64) &&& 0x0F0F0F0F0F0F0F0F = ofDigits (d2.map f3) := by
    have e4 : (0x0F0F0F0F0F0F0F0F : ℕ) = rep 0x0F d2.length := by rw [hlen2]; rfl
    have hX : ofDigits d2 < M64 := hlt d2 hlen2 (by intro d hd; have := hnib d hd; omega)
    have hsmall : ofDigits d2 + ofDigits d2 >>> 4 < M64 := by
      -- every byte is at most 0x44, so the word is at most 0x4444444444444444
      have hb : ∀ es : List ℕ, (∀ d ∈ es, d ≤ 0x44) → ofDigits es ≤ rep 0x44 es.length := by
        intro es; induction es with
        | nil => intro _; simp [ofDigits, rep]
        | cons e es ih =>
          intro h
          have := ih (fun d hd => h d (by simp [hd]))
          have he := h e (by simp)
          simp only [rep, ofDigits, List.length_cons, List.replicate_succ] at this ⊢; omega
      have := hb d2 (by intro d hd; have := hnib d hd; omega)
      rw [hlen2] at this
      have e : rep 0x44 8 = 0x4444444444444444 := by rfl
      rw [e] at this
      rw [Nat.shiftRight_eq_div_pow]; simp only [M64]; omega
    rw [Nat.mod_eq_of_lt hsmall, e4, stage3 d2 hnib]
  -- assemble
  unfold popcntSwar
  simp only []
  rw [s1, s2, s3]
  have hfinal : d2.map f3 = [f3 (f2 (f1 b0)), f3 (f2 (f1 b1)), f3 (f2 (f1 b2)), f3 (f2 (f1 b3)),
      f3 (f2 (f1 b4)), f3 (f2 (f1 b5)), f3 (f2 (f1 b6)), f3 (f2 (f1 b7))] := by
    simp [hd2, hd1, hds]
  obtain ⟨h0, h1, h2, h3, h4, h5, h6, h7⟩ := hb
  rw [hfinal, byte_popcount b0 h0, byte_popcount b1 h1, byte_popcount b2 h2, byte_popcount b3 h3,
    byte_popcount b4 h4, byte_popcount b5 h5, byte_popcount b6 h6, byte_popcount b7 h7]
  rw [mul_h01 _ _ _ _ _ _ _ _ ⟨popCountBits_le _ _, popCountBits_le _ _, popCountBits_le _ _, popCountBits_le _ _,
    popCountBits_le _ _, popCountBits_le _ _, popCountBits_le _ _, popCountBits_le _ _⟩]
  rw [popCount64_bytes _ _ _ _ _ _ _ _ ⟨h0, h1, h2, h3, h4, h5, h6, h7⟩]

end Pc.Sieve
