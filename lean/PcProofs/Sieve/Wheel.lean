/-
C17: the wheel step of `Sieve::cross_off` / `cross_off_count` is correct (generic proof from the three
table equations of DESIGN.md 5.5; the tables themselves are tied to src/Sieve.cpp by the generated
obligations `PcGen/WheelObl.lean`).
-/
import PcModel.Sieve
import PcGen.WheelObl
import Mathlib.Tactic.Ring
import Mathlib.Data.Nat.GCD.Basic

namespace Pc.Sieve
open Pc.WheelSpec

/-- `(30P + ρ)(30U + w) = 30·(30PU + wP + ρU) + ρw` -/
theorem mul_split (P U ρ w : ℕ) :
    (30 * P + ρ) * (30 * U + w) = 30 * (30 * (P * U) + w * P + ρ * U) + ρ * w := by ring

theorem mul_mod30 (P U ρ w : ℕ) : ((30 * P + ρ) * (30 * U + w)) % 30 = (ρ * w) % 30 := by
  rw [mul_split, Nat.mul_add_mod]

theorem mul_div30 (P U ρ w : ℕ) :
    ((30 * P + ρ) * (30 * U + w)) / 30 = 30 * (P * U) + w * P + ρ * U + (ρ * w) / 30 := by
  rw [mul_split, Nat.mul_add_div (by norm_num)]

/-- table facts (finite, by evaluation) -/
theorem tab_bit : ∀ g < 8, ∀ j < 8, (rho g * wheelW j) % 30 = residues.getD (expectedEntry g j).1 0 := by decide

theorem tab_k : ∀ g < 8, ∀ j < 8, wheelW j + (expectedEntry g j).2.1 = wheelW (j + 1) := by decide

theorem tab_c : ∀ g < 8, ∀ j < 8,
    rho g * wheelW j / 30 + (expectedEntry g j).2.2.1 = rho g * wheelW (j + 1) / 30 := by decide

theorem wheelW_coprime : ∀ j < 9, Nat.gcd (wheelW j) 30 = 1 := by decide

theorem wheelW_gap : ∀ j < 8, ∀ s < 32, wheelW j < s → s < wheelW (j + 1) → Nat.gcd s 30 ≠ 1 := by decide

theorem wheelW_next_mod : ∀ j < 8, wheelW (j + 1) % 30 = wheelW ((j + 1) % 8) := by decide

theorem wheelW_lt : ∀ j < 9, wheelW j < 32 := by decide

theorem tab_bit_lt : ∀ g < 8, ∀ j < 8, (expectedEntry g j).1 < 8 := by decide

theorem gcd_add30 (U s : ℕ) : Nat.gcd (30 * U + s) 30 = Nat.gcd s 30 := by
  rw [Nat.add_comm, Nat.gcd_add_mul_left_left]

/-- the entry of case `8g + j` in the table extracted from `Sieve::cross_off` is the defining formula -/
theorem wheelTab_getD (g j : ℕ) (hg : g < 8) (hj : j < 8) :
    Gen.wheelTab.getD (8 * g + j) (0, 0, 0, 0) = expectedEntry g j := by
  rw [Gen.wheelTab_ok]
  have h : 8 * g + j < 64 := by omega
  unfold expectedTab
  rw [List.getD_eq_getElem?_getD, List.getElem?_map, List.getElem?_range h]
  simp only [Option.map_some, Option.getD_some]
  congr 1 <;> omega

theorem wheelTabCount_getD (g j : ℕ) (hg : g < 8) (hj : j < 8) :
    Gen.wheelTabCount.getD (8 * g + j) (0, 0, 0, 0) = expectedEntry g j := by
  rw [Gen.wheelTabCount_eq]; exact wheelTab_getD g j hg hj

/-- **One wheel step.**  Let `q = 30P + ρ_g` be the sieving number of residue class `g` and `q·u` its current
    multiple with `u = 30U + w_j` (wheel position `j`).  The `case 8g+j` entry `(bit, k, c, next)` satisfies:
    the multiple sits at bit `bit` of byte `(q·u)/30`; `q·(u+k)` is the NEXT multiple of `q` that is coprime
    to 30 (nothing coprime to 30 strictly between `u` and `u+k`); its byte is `m + P·k + c`; and `next` is the
    case of wheel position `j+1` in the same residue class. -/
theorem wheel_step_correct (g j : ℕ) (hg : g < 8) (hj : j < 8) (P U : ℕ) :
    let q := 30 * P + rho g
    let u := 30 * U + wheelW j
    let e := Gen.wheelTab.getD (8 * g + j) (0, 0, 0, 0)
    (q * u) % 30 = residues.getD e.1 0 ∧ e.1 < 8 ∧
    (q * (u + e.2.1)) / 30 = (q * u) / 30 + P * e.2.1 + e.2.2.1 ∧
    Nat.Coprime (u + e.2.1) 30 ∧
    (∀ t, u < t → t < u + e.2.1 → ¬ Nat.Coprime t 30) ∧
    e.2.2.2 = 8 * g + (j + 1) % 8 ∧
    (u + e.2.1) % 30 = wheelW ((j + 1) % 8) := by
  intro q u e
  have he : e = expectedEntry g j := wheelTab_getD g j hg hj
  have hk := tab_k g hg j hj
  have hc := tab_c g hg j hj
  have hu' : u + e.2.1 = 30 * U + wheelW (j + 1) := by
    rw [he]; show 30 * U + wheelW j + _ = _; omega
  refine ⟨?_, ?_, ?_, ?_, ?_, ?_, ?_⟩
  · rw [he]; show ((30 * P + rho g) * (30 * U + wheelW j)) % 30 = _
    rw [mul_mod30]; exact tab_bit g hg j hj
  · rw [he]; exact tab_bit_lt g hg j hj
  · rw [hu']; show ((30 * P + rho g) * (30 * U + wheelW (j + 1))) / 30 =
      ((30 * P + rho g) * (30 * U + wheelW j)) / 30 + P * e.2.1 + e.2.2.1
    rw [mul_div30, mul_div30, he]
    have : wheelW (j + 1) * P = wheelW j * P + P * (expectedEntry g j).2.1 := by
      rw [← hk]; ring
    omega
  · rw [hu']; show Nat.gcd _ _ = 1
    rw [gcd_add30]; exact wheelW_coprime (j + 1) (by omega)
  · intro t h1 h2 hco
    rw [hu'] at h2
    have h1' : 30 * U + wheelW j < t := h1
    have hlt := wheelW_lt (j + 1) (by omega)
    obtain ⟨s, rfl⟩ : ∃ s, t = 30 * U + s := ⟨t - 30 * U, by omega⟩
    have : Nat.gcd (30 * U + s) 30 = 1 := hco
    rw [gcd_add30] at this
    exact wheelW_gap j hj s (by omega) (by omega) (by omega) this
  · rw [he]; rfl
  · rw [hu', Nat.mul_add_mod]; exact wheelW_next_mod j hj

/-- the same for the table of `Sieve::cross_off_count` (the two switch tables agree) -/
theorem wheel_step_correct_count (g j : ℕ) (hg : g < 8) (hj : j < 8) :
    Gen.wheelTabCount.getD (8 * g + j) (0, 0, 0, 0) = Gen.wheelTab.getD (8 * g + j) (0, 0, 0, 0) := by
  rw [wheelTabCount_getD g j hg hj, wheelTab_getD g j hg hj]

end Pc.Sieve
