/-
C17: bit-level meaning of the counting routines.  `countSpec` (what all instruction paths compute,
PcProofs/Sieve/CountPaths.lean) is the number of set bits of the sieve array whose number lies in
`[start, stop]`.  Uses the mask tables `unset_smaller` / `unset_larger` (modelled constexpr functions).
-/
import PcProofs.Sieve.CountPaths

namespace Pc.Sieve
open Pc.WheelSpec

/-! ### sums -/

theorem sumFrom_congr_range (f g : ℕ → ℕ) : ∀ (a n : ℕ), (∀ p, a ≤ p → p < a + n → f p = g p) →
    sumFrom f a n = sumFrom g a n
  | _, 0, _ => rfl
  | a, n + 1, h => by
    simp only [sumFrom]
    rw [h a (le_refl _) (by omega), sumFrom_congr_range f g (a + 1) n (fun p h1 h2 => h p (by omega) (by omega))]

theorem sumFrom_zero (f : ℕ → ℕ) (a n : ℕ) (h : ∀ p, a ≤ p → p < a + n → f p = 0) : sumFrom f a n = 0 := by
  rw [sumFrom_congr_range f (fun _ => 0) a n h]
  clear h
  induction n generalizing a with
  | zero => rfl
  | succ n ih => simp [sumFrom, ih]

theorem sumFrom_shift (g : ℕ → ℕ) (a : ℕ) : ∀ (b n : ℕ), sumFrom (fun t => g (a + t)) b n = sumFrom g (a + b) n
  | _, 0 => rfl
  | b, n + 1 => by simp only [sumFrom]; rw [sumFrom_shift g a (b + 1) n]; rfl

theorem sumFrom_blocks (g : ℕ → ℕ) (k : ℕ) : ∀ (a n : ℕ),
    sumFrom (fun i => sumFrom g (k * i) k) a n = sumFrom g (k * a) (k * n)
  | _, 0 => by simp [sumFrom]
  | a, n + 1 => by
    simp only [sumFrom]
    rw [sumFrom_blocks g k (a + 1) n, show k * (n + 1) = k + k * n by ring, sumFrom_add,
      show k * (a + 1) = k * a + k by ring]

theorem sumFrom_add_fun (f g : ℕ → ℕ) : ∀ (a n : ℕ),
    sumFrom (fun p => f p + g p) a n = sumFrom f a n + sumFrom g a n
  | _, 0 => rfl
  | a, n + 1 => by simp only [sumFrom]; rw [sumFrom_add_fun f g (a + 1) n]; omega

theorem sumFrom_le (f : ℕ → ℕ) (c : ℕ) (h : ∀ p, f p ≤ c) : ∀ (a n : ℕ), sumFrom f a n ≤ c * n
  | _, 0 => by simp [sumFrom]
  | a, n + 1 => by
    simp only [sumFrom]
    have := sumFrom_le f c h (a + 1) n
    have := h a
    rw [Nat.mul_succ]; omega

/-- number of `p ∈ [a, a+n)` with `P p` -/
def cnt (P : ℕ → Bool) (a n : ℕ) : ℕ := sumFrom (fun p => (P p).toNat) a n

theorem cnt_le (P : ℕ → Bool) (a n : ℕ) : cnt P a n ≤ n := by
  have := sumFrom_le (fun p => (P p).toNat) 1 (fun p => by cases P p <;> simp) a n
  simpa [cnt] using this

/-! ### population count = number of set bits -/

theorem popCountBits_eq_sum : ∀ (k x : ℕ), popCountBits k x = sumFrom (fun t => (x.testBit t).toNat) 0 k
  | 0, _ => rfl
  | k + 1, x => by
    simp only [popCountBits, sumFrom]
    rw [popCountBits_eq_sum k (x / 2)]
    have h0 : (x.testBit 0).toNat = x % 2 := by
      rw [Nat.testBit_zero]
      rcases Nat.mod_two_eq_zero_or_one x with h | h <;> simp [h]
    rw [h0]
    congr 1
    have := sumFrom_shift (fun t => (x.testBit t).toNat) 1 0 k
    simp only [Nat.add_zero] at this
    rw [show (0 : ℕ) + 1 = 1 by rfl, ← this]
    apply sumFrom_congr_range
    intro p _ _
    show ((x / 2).testBit p).toNat = (x.testBit (1 + p)).toNat
    rw [show 1 + p = p.succ by omega, Nat.testBit_succ]

/-! ### little-endian words -/

/-- every entry is a byte and the array consists of whole 64-bit words -/
structure BytesOk (s : Bytes) : Prop where
  lt : ∀ i, s.getD i 0 < 256
  words : s.size % 8 = 0

theorem ofDigits_testBit : ∀ (ds : List ℕ), AllLt 256 ds → ∀ t,
    (ofDigits ds).testBit t = (ds.getD (t / 8) 0).testBit (t % 8)
  | [], _, t => by simp [ofDigits]
  | d :: ds, h, t => by
    have h1 : d < 2 ^ 8 := h d (by simp)
    have ih := ofDigits_testBit ds (fun x hx => h x (by simp [hx]))
    have e : ofDigits (d :: ds) = 2 ^ 8 * ofDigits ds + d := by simp only [ofDigits]; omega
    rw [e, Nat.testBit_two_pow_mul_add _ h1]
    by_cases ht : t < 8
    · have e1 : t / 8 = 0 := by omega
      have e2 : t % 8 = t := by omega
      simp [ht, e1, e2]
    · have e1 : t / 8 = (t - 8) / 8 + 1 := by omega
      have e2 : t % 8 = (t - 8) % 8 := by omega
      simp only [ht, if_false]
      rw [ih (t - 8), e1, e2]
      simp

theorem word64_eq_ofDigits (s : Bytes) (i : ℕ) :
    word64 s i = ofDigits ((List.range 8).map fun k => s.getD (8 * i + k) 0) := by
  simp [word64, ofDigits, List.range_succ_eq_map, List.range_zero]

theorem word64_testBit (s : Bytes) (hs : ∀ i, s.getD i 0 < 256) (i t : ℕ) (ht : t < 64) :
    (word64 s i).testBit t = bitAt s (64 * i + t) := by
  rw [word64_eq_ofDigits, ofDigits_testBit]
  · unfold bitAt
    have e1 : (64 * i + t) / 8 = 8 * i + t / 8 := by omega
    have e2 : (64 * i + t) % 8 = t % 8 := by omega
    rw [e1, e2]
    congr 1
    have ht8 : t / 8 < 8 := by omega
    rw [List.getD_eq_getElem?_getD, List.getElem?_map, List.getElem?_range ht8]
    simp
  · intro d hd
    simp only [List.mem_map] at hd
    obtain ⟨k, _, rfl⟩ := hd
    exact hs _

theorem word64_lt (s : Bytes) (hs : ∀ i, s.getD i 0 < 256) (i : ℕ) : word64 s i < M64 := by
  have := hs (8 * i); have := hs (8 * i + 1); have := hs (8 * i + 2); have := hs (8 * i + 3)
  have := hs (8 * i + 4); have := hs (8 * i + 5); have := hs (8 * i + 6); have := hs (8 * i + 7)
  simp only [word64, M64]; omega

theorem offsetOfBit_word (i t : ℕ) (ht : t < 64) : offsetOfBit (64 * i + t) = 240 * i + offsetOfBit t := by
  unfold offsetOfBit
  have e1 : (64 * i + t) / 8 = 8 * i + t / 8 := by omega
  have e2 : (64 * i + t) % 8 = t % 8 := by omega
  rw [e1, e2]; omega

theorem offsetOfBit_pos : ∀ t, 1 ≤ offsetOfBit t := by
  intro t
  unfold offsetOfBit
  have : t % 8 < 8 := Nat.mod_lt _ (by decide)
  have h : ∀ r < 8, 1 ≤ residues.getD r 0 := by decide
  have := h _ this
  omega

theorem offsetOfBit_lt_word : ∀ t < 64, offsetOfBit t < 240 := by decide

/-- `popCount64 (sieve64[i] & mask)` counts the set bits of word `i` selected by the mask -/
theorem popCount_word_mask (s : Bytes) (hs : ∀ i, s.getD i 0 < 256) (i m : ℕ) :
    popCount64 (word64 s i &&& m) = cnt (fun p => bitAt s p && m.testBit (p - 64 * i)) (64 * i) 64 := by
  unfold popCount64 cnt
  rw [popCountBits_eq_sum]
  have := sumFrom_shift (fun p => (bitAt s p && m.testBit (p - 64 * i)).toNat) (64 * i) 0 64
  simp only [Nat.add_zero] at this
  rw [← this]
  apply sumFrom_congr_range
  intro t _ ht
  show ((word64 s i &&& m).testBit t).toNat = (bitAt s (64 * i + t) && m.testBit (64 * i + t - 64 * i)).toNat
  rw [Nat.testBit_and, word64_testBit s hs i t (by omega), show 64 * i + t - 64 * i = t by omega]

theorem popCount_word (s : Bytes) (hs : ∀ i, s.getD i 0 < 256) (i : ℕ) :
    popCount64 (word64 s i) = cnt (fun p => bitAt s p) (64 * i) 64 := by
  have h := popCount_word_mask s hs i (M64 - 1)
  have e : word64 s i &&& (M64 - 1) = word64 s i := by
    have := Nat.and_two_pow_sub_one_eq_mod (word64 s i) 64
    simp only [M64]; rw [this]; exact Nat.mod_eq_of_lt (word64_lt s hs i)
  rw [e] at h; rw [h]
  unfold cnt
  apply sumFrom_congr_range
  intro p h1 h2
  have : (M64 - 1).testBit (p - 64 * i) = true := by
    simp only [M64]; rw [Nat.testBit_two_pow_sub_one]; simp; omega
  simp [this]

/-! ### the mask tables -/

theorem unsetSmaller_getD (r : ℕ) (hr : r < 240) : unsetSmaller.getD r 0 = unsetS r := by
  unfold unsetSmaller
  rw [Array.getD_eq_getD_getElem?, Array.getElem?_map, Array.getElem?_range]
  simp [hr]

theorem unsetLarger_getD (r : ℕ) (hr : r < 240) : unsetLarger.getD r 0 = unsetL r := by
  unfold unsetLarger
  rw [Array.getD_eq_getD_getElem?, Array.getElem?_map, Array.getElem?_range]
  simp [hr]

theorem leftShift_spec : ∀ r < 240, ∀ t < 64, (leftShift r ≤ t ↔ r ≤ offsetOfBit t) := by decide +kernel

theorem rightShift_spec : ∀ r < 240, r ≠ 0 → ∀ t < 64, (rightShift r + t < 64 ↔ offsetOfBit t ≤ r) := by
  decide +kernel

/-- `unset_smaller[r]` keeps exactly the bits of the numbers `≥ r` -/
theorem unsetS_testBit (r t : ℕ) (hr : r < 240) (ht : t < 64) :
    (unsetS r).testBit t = decide (r ≤ offsetOfBit t) := by
  unfold unsetS
  simp only [M64]
  rw [Nat.testBit_mod_two_pow, Nat.testBit_shiftLeft, Nat.testBit_two_pow_sub_one]
  have := leftShift_spec r hr t ht
  by_cases h : leftShift r ≤ t
  · have h2 : t - leftShift r < 64 := by omega
    simp [ht, h, h2, this.mp h]
  · have h3 : ¬ r ≤ offsetOfBit t := fun hh => h (this.mpr hh)
    simp [h, h3]

/-- `unset_larger[r]` keeps exactly the bits of the numbers `≤ r` -/
theorem unsetL_testBit (r t : ℕ) (hr : r < 240) (ht : t < 64) :
    (unsetL r).testBit t = decide (offsetOfBit t ≤ r) := by
  unfold unsetL
  by_cases h0 : r = 0
  · subst h0
    have := offsetOfBit_pos t
    simp; omega
  · have hb : (r == 0) = false := by simpa using h0
    simp only [hb, M64, Bool.false_eq_true, if_false]
    rw [Nat.testBit_shiftRight, Nat.testBit_two_pow_sub_one]
    have := rightShift_spec r hr h0 t ht
    by_cases h : rightShift r + t < 64
    · simp [h, this.mp h]
    · have h3 : ¬ offsetOfBit t ≤ r := fun hh => h (this.mpr hh)
      simp [h, h3]

theorem unsetS_lt (r : ℕ) : unsetS r < M64 := Nat.mod_lt _ (by decide)

theorem unsetL_lt (r : ℕ) : unsetL r < M64 := by
  unfold unsetL
  split
  · decide
  · rw [Nat.shiftRight_eq_div_pow]
    exact lt_of_le_of_lt (Nat.div_le_self _ _) (by decide)

/-! ### `countSpec` = number of set bits with number in `[start, stop]` -/

/-- the bit predicate: bit `p` is set and its number lies in `[a, b]` -/
def inRange (s : Bytes) (a b : ℕ) (p : ℕ) : Bool :=
  bitAt s p && decide (a ≤ offsetOfBit p) && decide (offsetOfBit p ≤ b)

/-- number of set bits among the first `n` words whose number lies in `[a, b]` -/
def bitsIn (s : Bytes) (a b : ℕ) : ℕ := cnt (inRange s a b) 0 (8 * s.size)

end Pc.Sieve
