/-
C17: loop invariants of `Sieve::cross_off` — the unrolled fast loops and the 64-case switch.
-/
import PcProofs.Sieve.Cross

namespace Pc.Sieve
open Pc.WheelSpec

theorem expectedFastBody_getD (g : ℕ) (hg : g < 8) :
    Gen.wheelFastBody.getD g [] = (List.range 8).map (expectedFastEntry g) := by
  rw [Gen.wheelFastBody_ok]
  unfold expectedFastBody
  rw [List.getD_eq_getElem?_getD, List.getElem?_map, List.getElem?_range hg]
  simp

theorem expectedFastHead_getD (g : ℕ) (hg : g < 8) :
    Gen.wheelFastHead.getD g (0, 0, 0, 0) = (wheelW 7 - 1, rho g * wheelW 7 / 30, 30, rho g) := by
  rw [Gen.wheelFastHead_ok]
  unfold expectedFastHead
  rw [List.getD_eq_getElem?_getD, List.getElem?_map, List.getElem?_range hg]
  simp

/-- bits of `s` = bits of `s0` minus the multiples `q·t`, `u0 ≤ t < u` -/
def Bits (q L u0 u : ℕ) (s0 s : Bytes) : Prop :=
  ∀ p, bitAt s p = true ↔ (bitAt s0 p = true ∧ ¬ Hit q L u0 u p)

/-- every multiple handled so far lies inside the segment -/
def Below (q L size u0 u : ℕ) : Prop :=
  ∀ t, Nat.Coprime t 30 → u0 ≤ t → t < u → q * t < L + 30 * size

theorem hit_union (q L u0 u u' p : ℕ) (hq : 0 < q) (h1 : u0 ≤ u) (h2 : u ≤ u') :
    (Hit q L u0 u p ∨ Hit q L u u' p) ↔ Hit q L u0 u' p := by
  unfold Hit
  have m1 : q * u0 ≤ q * u := Nat.mul_le_mul_left _ h1
  have m2 : q * u ≤ q * u' := Nat.mul_le_mul_left _ h2
  constructor
  · rintro (⟨a, b, c⟩ | ⟨a, b, c⟩)
    · exact ⟨a, b, by omega⟩
    · exact ⟨a, by omega, c⟩
  · rintro ⟨a, b, c⟩
    by_cases h : L + offsetOfBit p < q * u
    · exact Or.inl ⟨a, b, h⟩
    · exact Or.inr ⟨a, by omega, c⟩

theorem Bits.extend {q L u0 u u' : ℕ} {s0 s s' : Bytes} (hq : 0 < q) (h1 : u0 ≤ u) (h2 : u ≤ u')
    (hb : Bits q L u0 u s0 s) (hs : ∀ p, bitAt s' p = true ↔ (bitAt s p = true ∧ ¬ Hit q L u u' p)) :
    Bits q L u0 u' s0 s' := by
  intro p
  rw [hs p, hb p, ← hit_union q L u0 u u' p hq h1 h2]
  tauto

section loops
variable (q P g L size : ℕ) (hq : q = 30 * P + rho g) (hg : g < 8) (hL : 30 ∣ L)
include hq hg hL

/-- position of statement `i` of the unrolled loop = the bit of `q·(30U + w_i)` -/
theorem fast_entry_num (m u i : ℕ) (hi : i < 8) (hp : Pos q L m 0 u) :
    L + offsetOfBit (8 * (m + P * (expectedFastEntry g i).1 + (expectedFastEntry g i).2.1) + (expectedFastEntry g i).2.2)
      = q * (30 * (u / 30) + wheelW i) ∧
    m + P * (expectedFastEntry g i).1 + (expectedFastEntry g i).2.1 ≤ m + P * 28 + rho g * 29 / 30 := by
  obtain ⟨_, hu, hdiv⟩ := hp
  rw [wheelW_zero] at hu
  have e : u = 30 * (u / 30) + 1 := by omega
  have hρ := rho_lt g hg
  have hw := wheelW_pos i (by omega)
  have hw30 := wheelW_lt30 i hi
  obtain ⟨w', hw'⟩ : ∃ w', wheelW i = w' + 1 := ⟨wheelW i - 1, by omega⟩
  have d1 : (q * u) / 30 = 30 * (P * (u / 30)) + 1 * P + rho g * (u / 30) + rho g * 1 / 30 := by
    conv_lhs => rw [e, hq]
    exact mul_div30 P (u / 30) (rho g) 1
  have d2 := mul_div30 P (u / 30) (rho g) (wheelW i)
  rw [← hq] at d2
  have z : rho g * 1 / 30 = 0 := by omega
  have hmul : wheelW i * P = P * w' + P := by rw [hw']; ring
  unfold expectedFastEntry
  simp only []
  constructor
  · apply num_at q L _ _ _ hL
    · rw [d2, hmul, hw', Nat.add_sub_cancel]
      rw [← hw']; omega
    · exact tab_bit_lt g hg i hi
    · rw [hq, mul_mod30]; exact tab_bit g hg i hi
  · rw [hw', Nat.add_sub_cancel]
    have h1 : P * w' ≤ P * 28 := Nat.mul_le_mul_left _ (by omega)
    have h2 : rho g * (w' + 1) / 30 ≤ rho g * 29 / 30 :=
      Nat.div_le_div_right (Nat.mul_le_mul_left _ (by omega))
    omega

/-- **one round of an unrolled loop** = one full turn of the wheel -/
theorem fastRound_spec (m u : ℕ) (hp : Pos q L m 0 u) (s : Bytes) :
    Pos q L (m + P * 30 + rho g) 0 (u + 30) ∧
    (∀ p, bitAt (fastRound P ((List.range 8).map (expectedFastEntry g)) m s) p = true ↔
      (bitAt s p = true ∧ ¬ Hit q L u (u + 30) p)) ∧
    (∀ t, Nat.Coprime t 30 → u ≤ t → t < u + 30 → (q * t) / 30 ≤ L / 30 + (m + P * 28 + rho g * 29 / 30)) := by
  have hpos := hp
  obtain ⟨_, hu, hdiv⟩ := hp
  rw [wheelW_zero] at hu
  have e : u = 30 * (u / 30) + 1 := by omega
  have hqpos := q_pos q P g L hq hg hL
  -- every t coprime to 30 in [u, u+30) is 30U + w_i
  have hcop : ∀ t, Nat.Coprime t 30 → u ≤ t → t < u + 30 → ∃ i < 8, t = 30 * (u / 30) + wheelW i := by
    intro t hco h1 h2
    obtain ⟨r, rfl⟩ : ∃ r, t = 30 * (u / 30) + r := ⟨t - 30 * (u / 30), by omega⟩
    have hg' : Nat.gcd r 30 = 1 := by
      have : Nat.gcd (30 * (u / 30) + r) 30 = 1 := hco
      rwa [gcd_add30] at this
    obtain ⟨i, hi, rfl⟩ := (coprime_iff_wheel r (by omega) (by omega)).mp hg'
    exact ⟨i, hi, rfl⟩
  refine ⟨⟨by decide, by rw [wheelW_zero]; omega, ?_⟩, ?_, ?_⟩
  · rw [Nat.mul_add, Nat.add_mul_div_right _ _ (by decide : 0 < 30), hdiv, hq]; omega
  · intro p
    rw [bitAt_foldl_clear P m _ s (by
      intro e he
      simp only [List.mem_map, List.mem_range] at he
      obtain ⟨i, hi, rfl⟩ := he
      exact tab_bit_lt g hg i hi)]
    simp only [Bool.and_eq_true, decide_eq_true_eq, List.mem_map, List.mem_range, forall_exists_index, and_imp,
      forall_apply_eq_imp_iff₂]
    apply and_congr_right
    intro _
    constructor
    · intro hne hhit
      obtain ⟨h1, h2, h3⟩ := hhit
      obtain ⟨t, ht⟩ := h1
      have ht1 : u ≤ t := by rw [ht] at h2; exact Nat.le_of_mul_le_mul_left h2 hqpos
      have ht2 : t < u + 30 := by rw [ht] at h3; exact Nat.lt_of_mul_lt_mul_left h3
      have hco : Nat.Coprime t 30 := by
        have := coprime_off L p hL
        rw [ht] at this
        exact Nat.Coprime.coprime_dvd_left (Dvd.intro_left q rfl) this
      obtain ⟨i, hi, rfl⟩ := hcop t hco ht1 ht2
      have := (fast_entry_num q P g L hq hg hL m u i hi hpos).1
      rw [← ht] at this
      exact hne i hi (offsetOfBit_inj _ _ (by omega))
    · intro hnh i hi hp
      apply hnh
      have hn := (fast_entry_num q P g L hq hg hL m u i hi hpos).1
      rw [← hp] at hn
      have hw := wheelW_pos i (by omega)
      have hw30 := wheelW_lt30 i hi
      refine ⟨by rw [hn]; exact Dvd.intro _ rfl, by rw [hn]; exact Nat.mul_le_mul_left _ (by omega), ?_⟩
      rw [hn]; exact Nat.mul_lt_mul_of_pos_left (by omega) hqpos
  · intro t hco h1 h2
    obtain ⟨i, hi, rfl⟩ := hcop t hco h1 h2
    obtain ⟨hn, hle⟩ := fast_entry_num q P g L hq hg hL m u i hi hpos
    have hb8 : (expectedFastEntry g i).2.2 < 8 := tab_bit_lt g hg i hi
    rw [← hn, offsetOfBit_byte _ _ hb8]
    obtain ⟨c, rfl⟩ := hL
    have := residues_lt _ hb8
    omega

/-- the unrolled loop `for (; m < limit; m += prime * 30 + ρ) { 8 statements }` -/
theorem fastLoop_spec (limit : ℕ) (hlim : ∀ m, m < limit → m + P * 28 + rho g * 29 / 30 < size) (u0 : ℕ) (s0 : Bytes) :
    ∀ (fuel m u : ℕ) (s : Bytes), Pos q L m 0 u → u0 ≤ u → Bits q L u0 u s0 s → Below q L size u0 u →
    BytesOk s →
    ∃ u', Pos q L (fastLoop P limit 30 (rho g) ((List.range 8).map (expectedFastEntry g)) fuel m s).1 0 u' ∧
      u ≤ u' ∧ m ≤ (fastLoop P limit 30 (rho g) ((List.range 8).map (expectedFastEntry g)) fuel m s).1 ∧
      Bits q L u0 u' s0 (fastLoop P limit 30 (rho g) ((List.range 8).map (expectedFastEntry g)) fuel m s).2 ∧
      Below q L size u0 u' ∧
      BytesOk (fastLoop P limit 30 (rho g) ((List.range 8).map (expectedFastEntry g)) fuel m s).2 ∧
      (fastLoop P limit 30 (rho g) ((List.range 8).map (expectedFastEntry g)) fuel m s).2.size = s.size ∧
      ((fastLoop P limit 30 (rho g) ((List.range 8).map (expectedFastEntry g)) fuel m s).1 = m ∨
       (fastLoop P limit 30 (rho g) ((List.range 8).map (expectedFastEntry g)) fuel m s).1 < size + 2 * P + 30)
  | 0, m, u, s, hp, h0, hb, hbl, hok => ⟨u, hp, le_refl _, le_refl _, hb, hbl, hok, rfl, Or.inl rfl⟩
  | fuel + 1, m, u, s, hp, h0, hb, hbl, hok => by
    have hqpos := q_pos q P g L hq hg hL
    by_cases hc : m < limit
    · have e : fastLoop P limit 30 (rho g) ((List.range 8).map (expectedFastEntry g)) (fuel + 1) m s =
          fastLoop P limit 30 (rho g) ((List.range 8).map (expectedFastEntry g)) fuel (m + P * 30 + rho g)
            (fastRound P ((List.range 8).map (expectedFastEntry g)) m s) := by
        simp only [fastLoop, hc, if_true]
      obtain ⟨r1, r2, r3⟩ := fastRound_spec q P g L hq hg hL m u hp s
      have hbl' : Below q L size u0 (u + 30) := by
        intro t hco h1 h2
        by_cases ht : t < u
        · exact hbl t hco h1 ht
        · have := r3 t hco (by omega) h2
          have hl := hlim m hc
          obtain ⟨c, rfl⟩ := hL
          have := Nat.div_add_mod (q * t) 30
          have := Nat.mod_lt (q * t) (by decide : 0 < 30)
          omega
      obtain ⟨u', i1, i2, i3, i4, i5, i6, i7, i8⟩ := fastLoop_spec limit hlim u0 s0 fuel (m + P * 30 + rho g) (u + 30)
        (fastRound P ((List.range 8).map (expectedFastEntry g)) m s) r1 (by omega)
        (hb.extend hqpos h0 (by omega) r2) hbl' (bytesOk_fastRound P m _ s hok)
      rw [e]
      have hl := hlim m hc
      have hρ := rho_lt g hg
      exact ⟨u', i1, by omega, by omega, i4, i5, i6, by rw [i7, size_fastRound],
        Or.inr (by rcases i8 with h | h <;> omega)⟩
    · have e : fastLoop P limit 30 (rho g) ((List.range 8).map (expectedFastEntry g)) (fuel + 1) m s = (m, s) := by
        simp only [fastLoop, hc, if_false]
      rw [e]
      exact ⟨u, hp, le_refl _, le_refl _, hb, hbl, hok, rfl, Or.inl rfl⟩

/-- the block in front of `case 8g` -/
theorem fastBlock_spec (u0 : ℕ) (s0 : Bytes) (m u : ℕ) (s : Bytes) (hp : Pos q L m 0 u) (h0 : u0 ≤ u)
    (hb : Bits q L u0 u s0 s) (hbl : Below q L size u0 u) (hok : BytesOk s) :
    ∃ u', Pos q L (fastBlock P size g m s).1 0 u' ∧ u ≤ u' ∧ m ≤ (fastBlock P size g m s).1 ∧
      Bits q L u0 u' s0 (fastBlock P size g m s).2 ∧ Below q L size u0 u' ∧
      BytesOk (fastBlock P size g m s).2 ∧ (fastBlock P size g m s).2.size = s.size ∧
      ((fastBlock P size g m s).1 = m ∨ (fastBlock P size g m s).1 < size + 2 * P + 30) := by
  unfold fastBlock
  rw [expectedFastHead_getD g hg, expectedFastBody_getD g hg]
  simp only []
  have hw7 : wheelW 7 - 1 = 28 := by decide
  have hw7' : wheelW 7 = 29 := by decide
  apply fastLoop_spec q P g L size hq hg hL _ _ u0 s0 (size + 1) m u s hp h0 hb hbl hok
  intro m' hm'
  rw [hw7, hw7'] at hm'
  omega

end loops

end Pc.Sieve
