/-
C17: one sieving number in one segment — all its multiples (coprime to 30) inside the segment are crossed off
and the wheel state is carried over to the next segment; `Sieve::add` computes a correct initial wheel state.
-/
import PcProofs.Sieve.CrossMain

namespace Pc.Sieve
open Pc.WheelSpec

/-- wheel slot `w` is the correct state of the sieving number `q` for the segment starting at `L`:
    it points at `q·u`, the first multiple `≥ L` whose cofactor is coprime to 30 -/
def SlotOk (q L : ℕ) (w : Wheel) : Prop :=
  ∃ g j u, g < 8 ∧ q % 30 = rho g ∧ w.index = 8 * g + j ∧ Pos q L w.multiple j u ∧
    (∀ t, Nat.Coprime t 30 → L ≤ q * t → u ≤ t) ∧ w.multiple < M32

theorem bits_refl (q L u : ℕ) (s : Bytes) : Bits q L u u s s := by
  intro p
  unfold Hit
  constructor
  · intro h; exact ⟨h, by omega⟩
  · intro h; exact h.1

/-- **One sieving number, one segment.**  Running the switch of `cross_off` (`fast = true`, with the unrolled
    loops) or of `cross_off_count` (`fast = false`) from a correct wheel state clears exactly the bits whose
    number is divisible by `q`, and returns the correct wheel state for the NEXT segment. -/
theorem cross_segment (fast : Bool) (q L : ℕ) (hL : 30 ∣ L) (w : Wheel) (hslot : SlotOk q L w) (hq32 : q < M32)
    (s : Bytes) (hok : BytesOk s) :
    (∀ p, bitAt (crossLoop fast (q / 30) s.size (crossFuel s.size w.multiple) w.multiple w.index s).2.2 p = true ↔
      (bitAt s p = true ∧ ¬ q ∣ L + offsetOfBit p)) ∧
    BytesOk (crossLoop fast (q / 30) s.size (crossFuel s.size w.multiple) w.multiple w.index s).2.2 ∧
    (crossLoop fast (q / 30) s.size (crossFuel s.size w.multiple) w.multiple w.index s).2.2.size = s.size ∧
    SlotOk q (L + 30 * s.size)
      ⟨(crossLoop fast (q / 30) s.size (crossFuel s.size w.multiple) w.multiple w.index s).1 % M32,
       (crossLoop fast (q / 30) s.size (crossFuel s.size w.multiple) w.multiple w.index s).2.1⟩ := by
  obtain ⟨g, j, u, hg, hqr, hidx, hpos, hfirst, hm32⟩ := hslot
  have hq : q = 30 * (q / 30) + rho g := by omega
  have hqpos := q_pos q (q / 30) g L hq hg hL
  have hj := hpos.1
  obtain ⟨u', j', r1, r2, r3, r4, r5, r6, r7, r8⟩ :=
    crossLoop_spec q (q / 30) g L s.size hq hg hL fast u s (crossFuel s.size w.multiple) w.multiple j u s hpos
      (le_refl _) (bits_refl q L u s) (by intro t _ h1 h2; omega) hok (by unfold crossFuel; omega)
  rw [hidx]
  generalize crossLoop fast (q / 30) s.size (crossFuel s.size w.multiple) w.multiple (8 * g + j) s = r at *
  obtain ⟨rm, ridx, rs⟩ := r
  simp only [] at r1 r2 r4 r6 r7 r8 ⊢
  obtain ⟨hj', hu', hdiv'⟩ := r2
  obtain ⟨c, rfl⟩ := hL
  have hge : 30 * c + 30 * s.size ≤ q * u' := by
    have := Nat.div_add_mod (q * u') 30
    have : 30 * c / 30 = c := by omega
    omega
  refine ⟨?_, r6, r7, ?_⟩
  · intro p
    rw [r4 p]
    apply and_congr_right
    intro hset
    have hp : p < 8 * s.size := by
      by_contra hc
      have := bitAt_false_of_ge s p (by omega)
      rw [this] at hset; exact Bool.noConfusion hset
    have hoff := off_bounds' p
    have hofflt : offsetOfBit p < 30 * s.size := by
      unfold offsetOfBit
      have := residues_lt (p % 8) (Nat.mod_lt _ (by decide))
      omega
    constructor
    · intro hnh hdvd
      apply hnh
      obtain ⟨t, ht⟩ := hdvd
      have hco : Nat.Coprime t 30 := by
        have := coprime_off (30 * c) p (Dvd.intro _ rfl)
        rw [ht] at this
        exact Nat.Coprime.coprime_dvd_left (Dvd.intro_left q rfl) this
      have hut := hfirst t hco (by rw [← ht]; omega)
      exact ⟨⟨t, ht⟩, by rw [ht]; exact Nat.mul_le_mul_left _ hut, by omega⟩
    · intro hnd hhit
      exact hnd hhit.1
  · have hrm : rm < M32 := by
      have : 6 * (q / 30) + 30 < M32 := by simp only [M32] at hq32 ⊢; omega
      omega
    refine ⟨g, j', u', hg, hqr, r1, ⟨hj', hu', ?_⟩, ?_, ?_⟩
    · show q * u' / 30 = (30 * c + 30 * s.size) / 30 + rm % M32
      rw [Nat.mod_eq_of_lt hrm, hdiv']
      have : (30 * c + 30 * s.size) / 30 = c + s.size := by omega
      have : 30 * c / 30 = c := by omega
      omega
    · intro t hco hle
      by_contra hlt
      by_cases htu : t < u
      · have := hfirst t hco (by omega)
        omega
      · have := r5 t hco (by omega) (by omega)
        omega
    · show rm % M32 < M32
      exact Nat.mod_lt _ (by decide)

/-! ### `Sieve::add` -/

theorem init_spec : ∀ r < 30,
    (nextCoprimeDist r < 7 ∧ Nat.gcd (r + nextCoprimeDist r) 30 = 1 ∧
     (∀ d < nextCoprimeDist r, Nat.gcd (r + d) 30 ≠ 1) ∧
     bitOf ((r + nextCoprimeDist r) % 30) < 8 ∧
     wheelW (bitOf ((r + nextCoprimeDist r) % 30)) = (r + nextCoprimeDist r) % 30) := by decide

theorem offsets_spec : ∀ r < 30, Nat.gcd r 30 = 1 →
    (bitOf r < 8 ∧ rho (bitOf r) = r ∧ expectedOffsets.getD r 0 = 8 * bitOf r) := by decide

theorem wheelInit_getD (r : ℕ) (hr : r < 30) :
    Gen.wheelInit.getD r (0, 0) = (nextCoprimeDist r, bitOf ((r + nextCoprimeDist r) % 30)) := by
  rw [Gen.wheelInit_ok]
  unfold expectedInit
  rw [List.getD_eq_getElem?_getD, List.getElem?_map, List.getElem?_range hr]
  simp

theorem gcd_mod30 (a : ℕ) : Nat.gcd (a % 30) 30 = Nat.gcd a 30 := by
  conv_rhs => rw [← Nat.mod_add_div a 30, Nat.add_comm, gcd_add30]

/-- **`Sieve::add(prime)`**: the new wheel slot points at the first multiple `> start_` of `q` whose cofactor is
    coprime to 30 (for `30 ∣ start_`, `gcd(q, 30) = 1`). -/
theorem addWheel_spec (S q : ℕ) (hS : 30 ∣ S) (hq : Nat.gcd q 30 = 1) (hq32 : q < M32) :
    SlotOk q S (addWheel S q) := by
  have hqpos : 0 < q := by
    rcases Nat.eq_zero_or_pos q with h | h
    · subst h; simp at hq
    · exact h
  have hr30 : q % 30 < 30 := Nat.mod_lt _ (by decide)
  have hgr : Nat.gcd (q % 30) 30 = 1 := by rw [gcd_mod30]; exact hq
  obtain ⟨hg, hrho, hoffs⟩ := offsets_spec (q % 30) hr30 hgr
  set Q := S / q + 1 with hQ
  have hQ30 : Q % 30 < 30 := Nat.mod_lt _ (by decide)
  obtain ⟨i1, i2, i3, i4, i5⟩ := init_spec (Q % 30) hQ30
  set f := nextCoprimeDist (Q % 30) with hf
  set j := bitOf ((Q % 30 + f) % 30) with hj
  have hadd : addWheel S q = ⟨(q * Q + q * f - S) / 30 % M32, j + Gen.wheelOffsets.getD (q % 30) 0⟩ := by
    unfold addWheel
    simp only [← hQ, wheelInit_getD (Q % 30) hQ30, ← hf, ← hj]
  rw [hadd, Gen.wheelOffsets_ok, hoffs]
  set u := Q + f with hu
  have hmul : q * Q + q * f = q * u := by rw [hu]; ring
  rw [hmul]
  -- S < q * Q
  have hSQ : S < q * Q := by
    rw [hQ, Nat.mul_add, Nat.mul_one]
    have := Nat.div_add_mod S q
    have := Nat.mod_lt S hqpos
    omega
  have hQu : q * Q ≤ q * u := Nat.mul_le_mul_left _ (by omega)
  obtain ⟨c, rfl⟩ := hS
  have hdiv : (q * u - 30 * c) / 30 = q * u / 30 - c := by omega
  have hge : c ≤ q * u / 30 := by omega
  have hfit : (q * u - 30 * c) / 30 < M32 := by
    have h1 : q * u ≤ q * Q + q * 6 := by
      rw [hu, Nat.mul_add]; exact Nat.add_le_add_left (Nat.mul_le_mul_left _ (by omega)) _
    have h2 : q * Q ≤ 30 * c + q := by
      rw [hQ, Nat.mul_add, Nat.mul_one]
      have := Nat.div_add_mod (30 * c) q
      omega
    simp only [M32] at hq32 ⊢
    omega
  refine ⟨bitOf (q % 30), j, u, hg, hrho.symm, ?_, ⟨i4, ?_, ?_⟩, ?_, Nat.mod_lt _ (by decide)⟩
  · show j + 8 * bitOf (q % 30) = 8 * bitOf (q % 30) + j
    omega
  · rw [i5, hu]; omega
  · show q * u / 30 = 30 * c / 30 + (q * u - 30 * c) / 30 % M32
    rw [Nat.mod_eq_of_lt hfit, hdiv]
    have : 30 * c / 30 = c := by omega
    omega
  · intro t hco hle
    -- q t = S is impossible for t coprime to 30
    have hne : q * t ≠ 30 * c := by
      intro heq
      have hdvd : 30 ∣ q * t := ⟨c, heq⟩
      have : 30 ∣ t := (Nat.Coprime.dvd_mul_left (by rw [Nat.coprime_comm]; exact hq)).mp hdvd
      have h30 : Nat.gcd t 30 = 30 := Nat.gcd_eq_right this
      have : Nat.gcd t 30 = 1 := hco
      omega
    have hlt : 30 * c < q * t := by omega
    have htQ : Q ≤ t := by
      rw [hQ]
      have : 30 * c / q < t := (Nat.div_lt_iff_lt_mul hqpos).mpr (by rw [Nat.mul_comm t q]; exact hlt)
      omega
    by_contra hcon
    have hd : t - Q < f := by omega
    have := i3 (t - Q) hd
    apply this
    have e : Nat.gcd (Q % 30 + (t - Q)) 30 = Nat.gcd t 30 := by
      rw [← gcd_mod30 (Q % 30 + (t - Q)), ← gcd_mod30 t]
      congr 1
      omega
    rw [e]; exact hco

end Pc.Sieve
