/-
`phiNaive` (the Legendre sum computed from its definition) equals the L0 spec `Pc.Spec.phi`.
-/
import PcProofs.Oracle
import PcProofs.Spec.Phi

namespace Pc
open Nat Pc.Oracle

/-- general form: any list whose members are exactly `p 1, …, p a` -/
theorem phiNaive_eq_of_mem (x a : ℕ) (ps : List ℕ)
    (hps : ∀ q, q ∈ ps ↔ ∃ i, 1 ≤ i ∧ i ≤ a ∧ q = Spec.p i) : phiNaive x ps = Spec.phi x a := by
  unfold phiNaive Spec.phi
  rw [length_filter_range, Nat.count_eq_card_filter_range]
  congr 1
  ext n
  simp only [Spec.phiSet, Finset.mem_filter, Finset.mem_range, Finset.mem_Icc, Bool.and_eq_true,
    decide_eq_true_iff, List.all_eq_true, bne_iff_ne, ne_eq]
  constructor
  · rintro ⟨h1, h2, h3⟩
    refine ⟨⟨h2, by omega⟩, fun i hi1 hi2 hdv => ?_⟩
    exact h3 (Spec.p i) ((hps _).mpr ⟨i, hi1, hi2, rfl⟩) (Nat.mod_eq_zero_of_dvd hdv)
  · rintro ⟨⟨h1, h2⟩, h3⟩
    refine ⟨by omega, h1, fun q hq hmod => ?_⟩
    obtain ⟨i, hi1, hi2, rfl⟩ := (hps q).mp hq
    exact h3 i hi1 hi2 (Nat.dvd_of_mod_eq_zero hmod)

/-- the sieve's list of primes is `nth Prime 0, nth Prime 1, …` -/
theorem primesUpTo_eq_map_nth (n : ℕ) :
    primesUpTo n = (List.range (Nat.primeCounting n)).map (Nat.nth Nat.Prime) := by
  apply List.Pairwise.eq_of_mem_iff (r := (· < ·)) (primesUpTo_spec n).1
  · rw [List.pairwise_map]
    exact List.Pairwise.imp (fun h => Nat.nth_strictMono Nat.infinite_setOfPred_prime h) List.pairwise_lt_range
  · intro q
    rw [(primesUpTo_spec n).2 q]
    simp only [List.mem_map, List.mem_range]
    constructor
    · rintro ⟨h1, h2⟩
      refine ⟨Nat.count Nat.Prime q, ?_, Nat.nth_count h2⟩
      show _ < Nat.count Nat.Prime (n + 1)
      exact Nat.count_strict_mono h2 (by omega)
    · rintro ⟨i, hi, rfl⟩
      refine ⟨?_, Nat.prime_nth_prime i⟩
      have : Nat.nth Nat.Prime i < n + 1 := Nat.nth_lt_of_lt_count hi
      omega

/-- `phiNaive x (first a primes) = φ(x, a)`, the first `a` primes coming from the proved sieve
    (any sieve limit `n` with `a ≤ π(n)`) -/
theorem phiNaive_eq (x a n : ℕ) (ha : a ≤ Nat.primeCounting n) :
    phiNaive x (firstPrimes a n) = Spec.phi x a := by
  apply phiNaive_eq_of_mem
  intro q
  unfold firstPrimes
  rw [primesUpTo_eq_map_nth, ← List.map_take, List.take_range, min_eq_left ha]
  simp only [List.mem_map, List.mem_range, Spec.p]
  constructor
  · rintro ⟨j, hj, rfl⟩
    exact ⟨j + 1, by omega, by omega, by simp⟩
  · rintro ⟨i, h1, h2, rfl⟩
    exact ⟨i - 1, by omega, rfl⟩

end Pc
