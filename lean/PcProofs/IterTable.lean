/-
C18 (WP iter2): the table path of `PrimeGenerator` (PrimeGenerator.cpp:41-253; PcModel/Iter.lean `smallPrimes`, `primePi`,
`startIdx`, `stopIdx`, `smallPart`, `pgPrimes`).

The model's hand-copied `smallPrimes` table is tied to the table GENERATED from the C++ (`Pc.Gen.psSmallPrimes`,
PcGen/PsWheelData.lean) by `smallPrimes_eq_gen`, the model's `primePi n` (a count over that table) to the generated
`Pc.Gen.psPrimePi` by `primePi_eq_gen`; WP core's `smallPrefix_isList` (PcProofs/PsCore2RunC.lean) then gives
* `smallPart_isList` : `smallPart start stop` lists exactly the primes `< 720` of `[start, stop]`;
* `pgPrimes_spec`    : around any core that lists the primes of `[a, b]` for `a >= 721`, `pgPrimes core start stop` lists exactly
                       the primes of `[start, stop]` (`stop <= 2^64-1`), including the guard `startErat < 2^64-1`.
-/
import PcProofs.IterRefine
import PcProofs.PsCore2RunC

namespace Pc.It
open Nat Pc.PsCore Pc.PsWheelSpec

/-- the hand-copied table of the model is the table generated from PrimeGenerator.cpp:41 -/
theorem smallPrimes_eq_gen : smallPrimes = Pc.Gen.psSmallPrimes := by decide +kernel

/-- the model's `primePi n` (count of table entries `<= n`) is the number of primes-by-trial-division below `n + 1` -/
theorem primePi_eq_cntTD (n : ℕ) (hn : n < 720) : primePi n = cntTD (n + 1) := by
  unfold primePi cntTD
  rw [smallPrimes_eq_gen, Pc.Gen.psSmallPrimes_ok]
  unfold expectedSmallPrimes
  obtain ⟨k, hk⟩ : ∃ k, 720 = (n + 1) + k := ⟨720 - (n + 1), by omega⟩
  rw [hk, range_split, List.filter_append, List.filter_append, List.length_append]
  have h1 : ((List.range (n + 1)).filter PsWheelSpec.isPrimeTD).filter (fun x => decide (x ≤ n)) = (List.range (n + 1)).filter PsWheelSpec.isPrimeTD := by
    rw [List.filter_eq_self]
    intro a ha
    have := (List.mem_filter.1 ha).1
    rw [List.mem_range] at this
    exact decide_eq_true (by omega)
  have h2 : ((List.range' (n + 1) k).filter PsWheelSpec.isPrimeTD).filter (fun x => decide (x ≤ n)) = [] := by
    rw [List.filter_eq_nil_iff]
    intro a ha
    have := (List.mem_filter.1 ha).1
    rw [List.mem_range'_1] at this
    rw [decide_eq_true_eq]; omega
  rw [h1, h2]; rfl

/-- … hence agrees with the generated `primePi[]` table (PrimeGenerator.cpp:60) on all 720 entries -/
theorem primePi_eq_gen (n : ℕ) (hn : n < 720) : primePi n = Pc.Gen.psPrimePi.getD n 0 := by
  rw [primePi_eq_cntTD n hn, primePi_getD n hn]

theorem primesIn_iff_isList (l : List ℕ) (a b : ℕ) : PrimesIn l a b ↔ IsList l (fun q => q.Prime ∧ a ≤ q ∧ q ≤ b) := Iff.rfl

/-- `std::copy(smallPrimes.begin() + getStartIdx(), smallPrimes.begin() + getStopIdx(), …)` behind `start <= maxCachedPrime()`:
    exactly the primes below 720 of `[start, stop]` -/
theorem smallPart_isList (start stop : ℕ) :
    IsList (smallPart start stop) (fun p => Nat.Prime p ∧ start ≤ p ∧ p ≤ stop ∧ p < 720) := by
  unfold smallPart maxCached
  by_cases hs : start ≤ 719
  · rw [if_pos hs, List.drop_take]
    have h := smallPrefix_isList start stop hs
    have e1 : startIdx start = (if start > 1 then Pc.Gen.psPrimePi.getD (start - 1) 0 else 0) := by
      unfold startIdx
      split
      · rw [primePi_eq_gen _ (by omega)]
      · rfl
    have e2 : stopIdx stop = (if stop < 719 then Pc.Gen.psPrimePi.getD stop 0 else Pc.Gen.psSmallPrimes.length) := by
      unfold stopIdx maxCached
      split
      · rw [primePi_eq_gen _ (by omega)]
      · rw [smallPrimes_eq_gen]
    rw [e1, e2, smallPrimes_eq_gen]
    exact h
  · rw [if_neg hs]
    exact isList_nil (fun n ⟨_, h2, _, h4⟩ => by omega)

theorem not_prime_720 : ¬ Nat.Prime 720 := by
  have : 720 = 2 * 360 := by norm_num
  rw [this]
  exact Nat.not_prime_mul (by norm_num) (by norm_num)

/-- what `initErat()` contributes: the primes of `[max(start, 721), stop]` -/
theorem eratPart_isList (core : ℕ → ℕ → List ℕ) (hc : ∀ a b, 721 ≤ a → PrimesIn (core a b) a b) (start stop : ℕ)
    (hstop : stop ≤ umax) :
    IsList (if max (maxCached + 2) start ≤ stop ∧ max (maxCached + 2) start < umax
        then core (max (maxCached + 2) start) stop else [])
      (fun p => Nat.Prime p ∧ max 721 start ≤ p ∧ p ≤ stop) := by
  have hm : maxCached + 2 = 721 := rfl
  rw [hm]
  by_cases hg : max 721 start ≤ stop ∧ max 721 start < umax
  · rw [if_pos hg]
    exact (primesIn_iff_isList _ _ _).1 (hc _ _ (Nat.le_max_left _ _))
  · rw [if_neg hg]
    apply isList_nil
    rintro n ⟨hp, h1, h2⟩
    have : n = umax := by omega
    exact umax_not_prime (this ▸ hp)

/-- **the table path of `PrimeGenerator`**: `smallPrimes[getStartIdx() .. getStopIdx())` followed by what the sieving core
    delivers for `[max(start, 721), stop]` is exactly the list of primes of `[start, stop]` -/
theorem pgPrimes_spec (core : ℕ → ℕ → List ℕ) (hc : ∀ a b, 721 ≤ a → PrimesIn (core a b) a b) (start stop : ℕ)
    (hstop : stop ≤ umax) : PrimesIn (pgPrimes core start stop) start stop := by
  rw [primesIn_iff_isList]
  unfold pgPrimes
  simp only []
  refine ((smallPart_isList start stop).append (eratPart_isList core hc start stop hstop) ?_).congr ?_
  · rintro a b ⟨_, _, _, h1⟩ ⟨_, h2, _⟩; omega
  · intro q
    constructor
    · rintro (⟨h1, h2, h3, _⟩ | ⟨h1, h2, h3⟩)
      · exact ⟨h1, h2, h3⟩
      · exact ⟨h1, by omega, h3⟩
    · rintro ⟨h1, h2, h3⟩
      by_cases hq : q < 720
      · exact Or.inl ⟨h1, h2, h3, hq⟩
      · right
        refine ⟨h1, ?_, h3⟩
        have : q ≠ 720 := fun h => not_prime_720 (h ▸ h1)
        omega

end Pc.It
