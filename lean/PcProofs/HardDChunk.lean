/-
WP hard: the chunk theorem of `D_thread` (src/gourdon/D.cpp:55-171) — `dThread_eq`:
for every work item `(low, segments, segment_size)` the model returns the sum of the hard leaves of Gourdon's D
(levels `(k, π x⋆]`) whose position `x / (p_b m)` lies in `[low, min(low + segment_size * segments, xz))`; the
`min_b` / `max_b` pruning loses no leaf, the `goto next_segment` exits are sound, no table is read out of bounds.
-/
import PcProofs.HardD
import PcProofs.HardS2Chunk

namespace Pc.Hard
open Nat Finset
open scoped Nat.Prime ArithmeticFunction.Moebius

local notation "p" => Spec.p
local notation "φ" => Spec.phi

variable {σ : Type} {S : SieveOps σ}

/-- the level enumeration of D_thread meets the engine's requirements -/
theorem d_lvspec {e : Env} {tmax x y z minB maxB low0 limit : ℕ} (hE : EnvOK e y) (hF : FactorDOK e tmax y z)
    (hyz : y ≤ z) (hsz : Nat.sqrt z ≤ y) (hmin : 5 ≤ minB) (hmax : maxB ≤ π y) :
    LvSpec (dLv e x y z (e.pi (isqrtN z)) maxB) (brkD x y z) (WSD x y z) minB maxB low0 limit := by
  have hpis : e.pi (isqrtN z) = π (Nat.sqrt z) := by rw [isqrtN_eq, hE.pi_eq _ hsz]
  have hsel : ∀ b, b ≤ maxB → (b ≤ min (e.pi (isqrtN z)) maxB ↔ b ≤ π (Nat.sqrt z)) := by
    intro b hb; rw [hpis, le_min_iff]; exact ⟨fun h => h.1, fun h => ⟨h, hb⟩⟩
  refine ⟨?_, ?_, ?_, ?_, ?_, ?_⟩
  · -- brk_none
    intro b lo hi hb1 hb2 _ hlh _ hbrk
    have hbP : b ≤ π y := le_trans hb2 hmax
    have hb0 : 1 ≤ b := by omega
    have hpb : e.primes b = p b := hE.primes_eq b hb0 hbP
    have hq0 := Spec.p_pos b
    unfold dLv
    by_cases hs : b ≤ π (Nat.sqrt z)
    · rw [if_pos ((hsel b hb2).2 hs)]
      unfold brkD capD at hbrk
      rw [if_pos hs, if_pos hs] at hbrk
      unfold dLevel1
      rw [hpb, cube_div, hE.primesSize, if_neg (by omega), if_neg (by omega), if_pos hbrk]
    · rw [if_neg (fun h => hs ((hsel b hb2).1 h))]
      unfold brkD capD at hbrk
      rw [if_neg hs, if_neg hs] at hbrk
      unfold dLevel2
      rw [hpb, cube_div, hE.primesSize, hE.piMax, if_neg (by omega), if_neg (by omega)]
      set a := min (x / (p b * p b * p b)) (min (x / p b / max lo 1) y) with ha
      have haP : a ≤ y := le_trans (min_le_right _ _) (min_le_right _ _)
      rw [if_neg (by omega), hE.pi_eq a haP, if_neg (by have := Spec.pi_mono haP; omega), if_pos]
      rcases Nat.eq_zero_or_pos (π a) with h0 | h0
      · rw [h0, hE.primes_zero]; exact Nat.zero_le _
      · rw [hE.primes_eq _ h0 (Spec.pi_mono haP)]; exact Spec.p_le_p hbrk
  · -- items
    intro b lo hi hb1 hb2 _ hlh _ hnb
    have hbP : b ≤ π y := le_trans hb2 hmax
    unfold dLv WSD
    by_cases hs : b ≤ π (Nat.sqrt z)
    · rw [if_pos ((hsel b hb2).2 hs), if_pos hs]
      exact dLevel1_items hE hF (by omega) hbP hs hlh hnb
    · rw [if_neg (fun h => hs ((hsel b hb2).1 h)), if_neg hs]
      exact dLevel2_items hE (by omega) hbP hs hlh hnb
  · intro b lo lo' _ _ hll hb
    exact brkD_mono_lo x y z b hll hb
  · intro b lo _ _ hbrk b' lo' hi' hbb hb' hll
    exact WSD_zero_of_brk hyz hbb (by omega) hll hbrk hi'
  · intro b lo mid hi h1 h2
    exact WSD_add x y z b lo mid hi h1 h2
  · intro b lo
    exact WSD_empty x y z b lo

/-- a level whose leaves all miss the window contributes nothing -/
theorem WSD_zero_of_no_leaf {x y z b lo hi : ℕ} (hyz : y ≤ z) (hb1 : 1 ≤ b)
    (h : ∀ m, 0 < m → m ≤ z → p b < m → m ≤ x / (p b * p b * p b) →
      ¬ (lo ≤ x / (p b * m) ∧ x / (p b * m) < hi)) : WSD x y z b lo hi = 0 := by
  unfold WSD
  split_ifs with hs
  · unfold WD1
    rw [Finset.sum_eq_zero, neg_zero]
    intro m hm
    rw [mem_filter, mem_Ioc] at hm
    rw [if_neg (h m (goodD_pos hm.2.1) hm.1.2 (goodD_lt hm.2.1) hm.2.2)]
  · unfold WD2
    apply Finset.sum_eq_zero
    intro j hj
    rw [mem_filter, mem_Ioc] at hj
    have hj1 : 1 ≤ j := by omega
    have hpjy : p j ≤ y := (Spec.p_le_iff hj1).2 hj.1.2
    rw [if_neg (h (p j) (Spec.p_pos j) (by omega) (Spec.p_lt_p hb1 hj.1.1) hj.2)]

/-- **`min_b` / `max_b` lose no leaf**: a level of `(k, π x⋆]` outside `[min_b, max_b]` has no leaf in the chunk window -/
theorem d_pruned {x y z xz xs b low limit a2 : ℕ} (hyz : y ≤ z) (hxz : xz * z ≤ x)
    (hb1 : 1 ≤ b) (hbxs : b ≤ π xs) (hlim : 1 ≤ limit) (ha2 : a2 ≤ xz / limit)
    (hout : π (min (min (Nat.sqrt (x / max low 1)) (Nat.sqrt limit)) xs) < b ∨ b ≤ π a2) :
    WSD x y z b low limit = 0 := by
  have hq0 := Spec.p_pos b
  have hqxs : p b ≤ xs := (Spec.p_le_iff hb1).2 hbxs
  apply WSD_zero_of_no_leaf hyz hb1
  intro m hm0 hmz hqm hcube hw
  have hpm0 : 0 < p b * m := Nat.mul_pos hq0 hm0
  have hpos : 1 ≤ x / (p b * m) := pos_of_leafD hq0 hm0 hcube
  have hsq : p b * p b ≤ x / (p b * m) := sq_le_leafD hq0 hm0 hcube
  rcases hout with hgt | hle
  · have hlt : min (min (Nat.sqrt (x / max low 1)) (Nat.sqrt limit)) xs < p b := (Spec.lt_p_iff hb1).2 hgt
    have hcase : Nat.sqrt (x / max low 1) < p b ∨ Nat.sqrt limit < p b := by omega
    rcases hcase with h1 | h1
    · -- p_b² · low1 > x: every leaf of the level lies below low
      have h2 : x / max low 1 < p b * p b := Nat.sqrt_lt.1 h1
      have h3 : x < p b * p b * max low 1 := (Nat.div_lt_iff_lt_mul (by omega)).1 h2
      have h4 : p b * p b * max low 1 ≤ p b * m * max low 1 :=
        Nat.mul_le_mul_right _ (Nat.mul_le_mul_left _ hqm.le)
      have h5 : x / (p b * m) < max low 1 := by
        rw [Nat.div_lt_iff_lt_mul hpm0, Nat.mul_comm]; omega
      omega
    · -- p_b² > limit, and every D leaf lies at a position ≥ p_b²
      have h2 : limit < p b * p b := Nat.sqrt_lt.1 h1
      omega
  · -- p_b ≤ xz / limit: every leaf lies at or beyond limit
    have h1 : p b ≤ a2 := (Spec.p_le_iff hb1).2 hle
    have h2 : p b * limit ≤ xz := (Nat.le_div_iff_mul_le (by omega : 0 < limit)).1 (le_trans h1 ha2)
    have : limit ≤ x / (p b * m) := by
      rw [Nat.le_div_iff_mul_le hpm0]
      calc limit * (p b * m) = p b * limit * m := by ring
        _ ≤ xz * z := Nat.mul_le_mul h2 hmz
        _ ≤ x := hxz
    omega

/-- **the chunk theorem of `D_thread`**, for a general chunk cap `xz` with `xz·z ≤ x` (the call site passes `xz = x / z`).
    For EVERY work item `(low, segments, segment_size)` with `low < xz`, `low` even, sizes `≥ 1` and a sieve that accepts
    `(low, segment_size)`; `y ≤ z`, `√z ≤ y`, `x⋆ ≤ y`, `4 ≤ k`; tables of `D_OpenMP` (`primes`/`pi` up to `y`, FactorTableD
    for `(y, z)`): the model returns — without any out-of-bounds read — the hard leaves of the levels `(k, π x⋆]` whose
    position lies in `[low, min(low + segment_size·segments, xz))`. -/
theorem dThread_eq_gen {e : Env} {tmax x xs xz y z k low segments segSize : ℕ}
    (hS : ∀ K, K ≤ π y → ∃ H : SieveSpec S K, H.segOK low segSize)
    (hE : EnvOK e y) (hF : FactorDOK e tmax y z)
    (hyz : y ≤ z) (hsz : Nat.sqrt z ≤ y) (hxs : xs ≤ y) (hxz : xz * z ≤ x) (hk : 4 ≤ k) (heven : 2 ∣ low)
    (hsize : 1 ≤ segSize) (hsegs : 1 ≤ segments) (hlow : low < xz) :
    dThread S e x xs xz y z k low segments segSize =
      .ok (∑ b ∈ Ioc k (π xs), WSD x y z b low (chunkLimit low segments segSize xz)) := by
  unfold dThread
  simp only []
  set limit := chunkLimit low segments segSize xz with hlimit
  have hlim1 : low < limit := by
    rw [hlimit]; unfold chunkLimit; rw [lt_min_iff]
    have : segSize * 1 ≤ segSize * segments := Nat.mul_le_mul_left _ hsegs
    omega
  rw [hE.piMax, isqrtN_eq z, if_neg (by omega), if_neg (by omega), if_neg (by omega)]
  set maxArg := min (min (Nat.sqrt (x / max low 1)) (Nat.sqrt limit)) xs with hmaxArg
  have hmaxArgxs : maxArg ≤ xs := min_le_right _ _
  have hmaxB : dMaxB e x xs low limit = π maxArg := by
    unfold dMaxB
    rw [hE.pi_eq _ (by omega), isqrtN_eq, isqrtN_eq]
  rw [hmaxB]
  have hmaxBP : π maxArg ≤ π y := Spec.pi_mono (by omega)
  set a2 := min (xz / limit) xs with ha2
  have ha2P : a2 ≤ y := le_trans (min_le_right _ _) hxs
  rw [if_neg (by omega)]
  have hminB : dMinB e xz xs k limit = max k (π a2) + 1 := by
    unfold dMinB; rw [← ha2, hE.pi_eq a2 ha2P]
  rw [hminB]
  -- the levels outside [min_b, max_b] have no leaf in the window
  have hprune : ∀ b ∈ Ioc k (π xs), b ∉ Icc (max k (π a2) + 1) (π maxArg) → WSD x y z b low limit = 0 := by
    intro b hb hnot
    rw [mem_Ioc] at hb
    rw [mem_Icc] at hnot
    have hb1 : 1 ≤ b := by omega
    have hl1 : 1 ≤ limit := by omega
    have ha2le : a2 ≤ xz / limit := by rw [ha2]; exact min_le_left _ _
    refine d_pruned (a2 := a2) hyz hxz hb1 hb.2 hl1 ha2le ?_
    by_cases h1 : b ≤ π maxArg
    · right
      have : ¬ (max k (π a2) + 1 ≤ b) := fun h => hnot ⟨h, h1⟩
      have := le_max_right k (π a2)
      omega
    · left; exact Nat.lt_of_not_le h1
  have hsub : Icc (max k (π a2) + 1) (π maxArg) ⊆ Ioc k (π xs) := by
    intro b hb
    rw [mem_Icc] at hb
    rw [mem_Ioc]
    have : π maxArg ≤ π xs := Spec.pi_mono hmaxArgxs
    omega
  rw [← Finset.sum_subset hsub hprune]
  by_cases hempty : max k (π a2) + 1 > π maxArg
  · rw [if_pos hempty, Finset.Icc_eq_empty (by omega), Finset.sum_empty]
  · rw [if_neg hempty]
    obtain ⟨H, hOK⟩ := hS (π maxArg) hmaxBP
    have hL := d_lvspec (x := x) (minB := max k (π a2) + 1) (maxB := π maxArg) (low0 := low) (limit := limit)
      hE hF hyz hsz (by omega) hmaxBP
    have hprime : ∀ b, max k (π a2) + 1 ≤ b → b ≤ π maxArg → e.primes b = p b :=
      fun b h1 h2 => hE.primes_eq b (by omega) (le_trans h2 hmaxBP)
    have hrun := segLoop_spec H hL hprime (by omega) hsize limit low (π maxArg + 1) (S.create low segSize (π maxArg))
      (e.phiVec low (π maxArg)) 0 (by omega) le_rfl (by omega) le_rfl
      (by rw [Nat.add_sub_cancel]; exact H.create_ready low segSize _ hOK)
      (hE.phiVec_size _ _)
      (fun b h1 h2 => by
        rw [hE.phiVec_eq low (π maxArg) b hmaxBP (by omega) (by omega), phi_even heven (by omega)])
      (fun b h1 h2 => by omega)
    rw [isqrtN_eq z] at hrun
    rw [hrun, zero_add, Nat.max_eq_right hlim1.le]

/-- **the chunk theorem of `D_thread`** as called by `D_OpenMP` (`xz = x / z`) -/
theorem dThread_eq {e : Env} {tmax x xs y z k low segments segSize : ℕ}
    (hS : ∀ K, K ≤ π y → ∃ H : SieveSpec S K, H.segOK low segSize)
    (hE : EnvOK e y) (hF : FactorDOK e tmax y z)
    (hyz : y ≤ z) (hsz : Nat.sqrt z ≤ y) (hxs : xs ≤ y) (hk : 4 ≤ k) (heven : 2 ∣ low)
    (hsize : 1 ≤ segSize) (hsegs : 1 ≤ segments) (hlow : low < x / z) :
    dThread S e x xs (x / z) y z k low segments segSize =
      .ok (∑ b ∈ Ioc k (π xs), WSD x y z b low (chunkLimit low segments segSize (x / z))) :=
  dThread_eq_gen hS hE hF hyz hsz hxs (Nat.div_mul_le_self x z) hk heven hsize hsegs hlow

end Pc.Hard

#print axioms Pc.Hard.d_lvspec
#print axioms Pc.Hard.d_pruned
#print axioms Pc.Hard.dThread_eq
