/-
Helper lemmas for C20 (PcModel/ApiState.lean): histories, the CLI option fold.
-/
import PcModel.ApiState
import PcGen.GlobalsObl

namespace Pc

/-- THE hypothesis of C20's purity theorems, explicit and named: the value the algorithms compute does not
    depend on the configuration they run under (thread count, alpha overrides, print mode, status precision).
    It is the conjunction of what C01 (π exact on every entry point), C03 (threads/interleaving/time), C04
    (alpha factors), C06 (nth_prime), C07 (φ) establish about the algorithms; C20 adds that nothing ELSE
    (no other state, no history) can influence a result. -/
def AlgConfigIndependent (alg : ApiAlgorithms) (spec : ApiCompute → ApiValue) : Prop :=
  ∀ (cfg : ApiConfig) (c : ApiCompute), alg.run cfg c = spec c

theorem runHistory_length (hw : ApiHw) (alg : ApiAlgorithms) (σ : ApiState) (ops : List ApiOp) :
    (runHistory hw alg σ ops).length = ops.length := by
  induction ops generalizing σ with
  | nil => rfl
  | cons op ops ih => simp [runHistory, ih]

/-- the i-th result of a history is the result of the i-th call in the state reached by the prefix -/
theorem runHistory_getElem? (hw : ApiHw) (alg : ApiAlgorithms) (σ : ApiState) (ops : List ApiOp) (i : Nat) (op : ApiOp)
    (h : ops[i]? = some op) :
    (runHistory hw alg σ ops)[i]? = some (apiStep hw alg (apiStateAfter hw alg σ (ops.take i)) op).2 := by
  induction ops generalizing σ i with
  | nil => simp at h
  | cons o ops ih =>
    cases i with
    | zero =>
      simp only [List.getElem?_cons_zero, Option.some.injEq] at h
      subst h
      simp [runHistory, apiStateAfter]
    | succ i =>
      simp only [List.getElem?_cons_succ] at h
      simp only [runHistory, List.getElem?_cons_succ, List.take_succ_cons, apiStateAfter]
      exact ih _ i h

/-- the CLI option fold never touches `print_variables_` (only partial-formula options do) -/
theorem cliOption_printVariables (hw : ApiHw) (st : ApiState × Bool) (o : CliOpt) :
    (cliOption hw st o).1.printVariables = st.1.printVariables := by
  cases o with
  | status p => cases p <;> rfl
  | _ => rfl

theorem cliFold_printVariables (hw : ApiHw) (opts : List CliOpt) (st : ApiState × Bool) :
    (opts.foldl (cliOption hw) st).1.printVariables = st.1.printVariables := by
  induction opts generalizing st with
  | nil => rfl
  | cons o opts ih => simp only [List.foldl_cons]; rw [ih, cliOption_printVariables]

end Pc
