/-
WP hard: from chunks to `Spec.S2_hard`.

* `hardF x y z c (lo, hi)` : the hard special leaves located in `[lo, hi)`; additive over adjacent windows;
* `hardF_full`  : the window `[0, x / y)` holds all of them: `hardF x y (x/y) c (0, x/y) = Spec.S2_hard x y c`;
* `s2_chunks_total` : every chain of work items covering `[0, z)` sums to `Spec.S2_hard` (`z = x / y`);
* `s2HardThread_concrete` : the chunk theorem with the bit-exact `Sieve` model plugged in (no abstract hypothesis left);
* `s2HardOpenMP_eq` : every recorded run of the parallel region that the replay accepts returns `Spec.S2_hard x y c`.
-/
import PcProofs.HardS2Chunk
import PcProofs.HardSieveInst
import PcProofs.HardSieveRef
import PcProofs.HardOmp

namespace Pc.Hard
open Nat Finset
open scoped Nat.Prime ArithmeticFunction.Moebius

local notation "p" => Spec.p
local notation "φ" => Spec.phi

/-- the hard special leaves of the levels `(c, π y]` located in the window `[lo, hi)` -/
noncomputable def hardF (x y z c : ℕ) (w : LB.Chunk) : ℤ := ∑ b ∈ Ioc c (π y), WS2 x y z b w.1 w.2

theorem hardF_additive (x y z c : ℕ) : LB.Additive (hardF x y z c) := by
  intro a b d h1 h2
  unfold hardF
  rw [← Finset.sum_add_distrib]
  exact Finset.sum_congr rfl (fun i _ => (WS2_add x y z i a b d h1 h2).symm)

/-- level `b ≤ π√y`: the whole window gives the special leaves of the level -/
theorem W1_full {x y b : ℕ} (hy : 1 ≤ y) (hyx : y * y ≤ x) (hb1 : 1 ≤ b) (hbs : b ≤ π (Nat.sqrt y)) :
    W1 x y b 0 (x / y) = - Spec.specTerm x y b (π y) := by
  have hq0 := Spec.p_pos b
  have hqs : p b ≤ Nat.sqrt y := (Spec.p_le_iff hb1).2 hbs
  have hqq : p b * p b ≤ y := Nat.le_sqrt.1 hqs
  have hyq : p b ≤ y / p b := (Nat.le_div_iff_mul_le hq0).2 hqq
  have h2 : 2 ≤ p b := Spec.two_le_p b
  unfold W1
  rw [Spec.specTerm_eq_moebius, Finset.sum_filter, Finset.sum_filter]
  congr 1
  apply Finset.sum_congr rfl
  intro m hm
  rw [mem_Ioc] at hm
  have hm2 : 2 ≤ m := by omega
  have hgt : y < p b * m := by
    have := (Nat.div_lt_iff_lt_mul hq0).1 hm.1
    rw [Nat.mul_comm]; exact this
  have hwin : 0 ≤ x / (p b * m) ∧ x / (p b * m) < x / y :=
    ⟨Nat.zero_le _, Pc.SimpleAlgs.leaf_pos_lt_limit hy hyx hgt⟩
  rw [if_pos hwin, Nat.mul_comm m (p b)]
  have hA : (p b < m.minFac) ↔ (∀ q, q.Prime → q ∣ m → b < π q ∧ π q ≤ π y) := by
    constructor
    · intro h q hq hd
      have h1 : m.minFac ≤ q := Nat.minFac_le_of_dvd hq.two_le hd
      exact ⟨(Spec.lt_pi_iff_p_lt hb1 hq).2 (by omega), Spec.pi_mono (le_trans (Nat.le_of_dvd (by omega) hd) hm.2)⟩
    · intro h
      have hmf := Nat.minFac_prime (show m ≠ 1 by omega)
      exact (Spec.lt_pi_iff_p_lt hb1 hmf).1 (h _ hmf (Nat.minFac_dvd m)).1
  by_cases hg : Good (p b) m
  · rw [if_pos hg, if_pos (hA.1 hg.2)]
  · rw [if_neg hg]
    by_cases hmu : μ m = 0
    · rw [hmu]; simp
    · rw [if_neg]
      intro hc
      exact hg ⟨hmu, hA.2 hc⟩

/-- level `b > π√y`: the whole window gives the two-prime leaves with `p_b p_j ≤ x / y` -/
theorem W2_full {x y b : ℕ} (hy : 1 ≤ y) (hyx : y * y ≤ x) (hb1 : 1 ≤ b) (hbs : π (Nat.sqrt y) < b) :
    W2 x y (x / y) b 0 (x / y) =
      ∑ j ∈ (Ioc b (π y)).filter (fun j => p b * p j ≤ x / y), (φ (x / (p b * p j)) (b - 1) : ℤ) := by
  have hqs : Nat.sqrt y < p b := (Spec.lt_p_iff hb1).2 hbs
  have hsq : y < p b * p b := Nat.sqrt_lt.1 hqs
  unfold W2
  apply Finset.sum_congr rfl
  intro j hj
  rw [mem_filter, mem_Ioc] at hj
  have hlt : p b < p j := Spec.p_lt_p hb1 hj.1.1
  have hgt : y < p b * p j := lt_of_lt_of_le hsq (Nat.mul_le_mul_left _ hlt.le)
  rw [if_pos ⟨Nat.zero_le _, Pc.SimpleAlgs.leaf_pos_lt_limit hy hyx hgt⟩]

/-- **the window `[0, x / y)` holds every hard leaf** -/
theorem hardF_full {x y c : ℕ} (hy : 1 ≤ y) (hyx : y * y ≤ x) (hc : c ≤ π y) :
    hardF x y (x / y) c (0, x / y) = Spec.S2_hard x y c := by
  unfold hardF Spec.S2_hard
  set s := max c (π (Nat.sqrt y)) with hs
  have hcs : c ≤ s := le_max_left _ _
  have hsa : s ≤ π y := max_le hc (Spec.pi_mono (Nat.sqrt_le_self y))
  rw [← Finset.sum_Ioc_consecutive _ hcs hsa]
  congr 1
  · rw [← Finset.sum_neg_distrib]
    apply Finset.sum_congr rfl
    intro b hb
    rw [mem_Ioc] at hb
    have hbs : b ≤ π (Nat.sqrt y) := by
      rcases le_max_iff.1 hb.2 with h | h
      · omega
      · exact h
    unfold WS2
    rw [if_pos hbs]
    exact W1_full hy hyx (by omega) hbs
  · apply Finset.sum_congr rfl
    intro b hb
    rw [mem_Ioc] at hb
    have hbs : π (Nat.sqrt y) < b := lt_of_le_of_lt (le_max_right _ _) hb.1
    unfold WS2
    rw [if_neg (by omega)]
    exact W2_full hy hyx (by omega) hbs

/-- **chunk chains**: the values of any chain of windows from `0` to `x / y` add up to `Spec.S2_hard x y c` -/
theorem s2_chunks_total {x y c : ℕ} (hy : 1 ≤ y) (hyx : y * y ≤ x) (hc : c ≤ π y) {cs : List LB.Chunk}
    (hch : LB.Chain 0 (x / y) cs) : LB.sumF (hardF x y (x / y) c) cs = Spec.S2_hard x y c := by
  have h := LB.Chain.sum_additive (hardF_additive x y (x / y) c) hch
  have he := (hardF_additive x y (x / y) c).empty (x / y)
  rw [h, he, sub_zero, hardF_full hy hyx hc]

/-! ### no abstract hypothesis left: the bit-exact `Sieve` model, and the reference sieve -/

/-- the chunk theorem with the model of `class Sieve` (PcModel/Sieve.lean) plugged in, for every CPU configuration and
    counting path: work items as LoadBalancerS2 hands them out (`low`, `segment_size` multiples of 240, array `< 2^29` bytes),
    sieving primes below `2^32` -/
theorem s2HardThread_concrete (cfg : Sieve.Cfg) (f : Sieve.StopFn) (primesArr : Array ℕ) {e : Env}
    {P tmax x y z c low segments segSize : ℕ}
    (hparr : ∀ i, 4 ≤ i → i ≤ π P → primesArr.getD i 0 = p i) (h32 : P < 2 ^ 32)
    (hE : EnvOK e P) (hP : P = min y (z / Nat.sqrt y)) (hF : FactorOK e tmax y)
    (hy : 1 ≤ y) (hyz : y ≤ z) (hzyx : z * y ≤ x) (hc : 4 ≤ c)
    (hlow30 : 240 ∣ low) (hseg240 : 240 ∣ segSize) (hseg0 : 0 < segSize) (hsmall : segSize / 30 * 8 < 2 ^ 32)
    (hsegs : 1 ≤ segments) (hlow : low < z) :
    s2HardThread (concreteSieve cfg f primesArr) e x y z c low segments segSize =
      .ok (hardF x y z c (low, chunkLimit low segments segSize z)) := by
  apply s2HardThread_eq _ hE hP hF hy hyz hzyx hc (Dvd.dvd.trans (by norm_num) hlow30) hseg0 hsegs hlow
  intro K hK
  have hpK : p K < 2 ^ 32 := by
    rcases Nat.eq_zero_or_pos K with h0 | h0
    · subst h0; rw [Spec.p_zero]; norm_num
    · exact lt_of_le_of_lt (le_trans (Spec.p_le_p hK) (Spec.p_pi_le (by omega))) h32
  refine ⟨concreteSieve_spec cfg f primesArr K (fun i h1 h2 => hparr i h1 (le_trans h2 hK)) hpK, ?_⟩
  exact (concreteSieve_spec_segOK cfg f primesArr K _ hpK low segSize).2
    ⟨Dvd.dvd.trans (by norm_num) hlow30, hseg240, hseg0, hsmall⟩

/-- the chunk theorem with the plain `Array Bool` reference sieve (what `pcdrv` runs by default) -/
theorem s2HardThread_ref {e : Env} {P tmax x y z c low segments segSize : ℕ}
    (hE : EnvOK e P) (hP : P = min y (z / Nat.sqrt y)) (hF : FactorOK e tmax y)
    (hy : 1 ≤ y) (hyz : y ≤ z) (hzyx : z * y ≤ x) (hc : 4 ≤ c) (heven : 2 ∣ low)
    (hseg0 : 1 ≤ segSize) (hsegs : 1 ≤ segments) (hlow : low < z) :
    s2HardThread (refSieve e.primes) e x y z c low segments segSize =
      .ok (hardF x y z c (low, chunkLimit low segments segSize z)) := by
  apply s2HardThread_eq _ hE hP hF hy hyz hzyx hc heven hseg0 hsegs hlow
  intro K hK
  exact ⟨refSieve_spec e.primes K (fun i h1 h2 => hE.primes_eq i h1 (le_trans h2 hK)), trivial⟩

/-- **`S2_hard_OpenMP`**: every recorded history the replay accepts returns `Spec.S2_hard x y c` (`z = x / y`), whatever the
    team size, print mode, order of the `get_work` calls and measured times — for every sieve that meets the contract on the
    work items LoadBalancerS2 hands out (`low`, `segment_size` positive multiples of 240) -/
theorem s2HardOpenMP_eq {σ : Type} (S : SieveOps σ) {e : Env} {P tmax x y c : ℕ}
    (hS : ∀ K, K ≤ π P → ∃ H : SieveSpec S K, ∀ low seg, 240 ∣ low → 240 ∣ seg → 0 < seg → H.segOK low seg)
    (lc : LB.Consts) (hlc : lc.WF) (threads : ℕ) (print : Bool)
    (hE : EnvOK e P) (hP : P = min y (x / y / Nat.sqrt y)) (hF : FactorOK e tmax y)
    (hy : 1 ≤ y) (hyx : y * y ≤ x) (hc : 4 ≤ c) (hcy : c ≤ π y)
    (es : List LB.S2.Ev) (v : ℤ)
    (h : s2HardOpenMP S e lc x y (x / y) c threads print es = .ok v) :
    v = Spec.S2_hard x y c := by
  have hyz : y ≤ x / y := (Nat.le_div_iff_mul_le (by omega)).2 hyx
  have hzyx : x / y * y ≤ x := Nat.div_mul_le_self x y
  rw [s2HardOpenMP_total S e lc hlc x y (x / y) c threads print (hardF x y (x / y) c) (hardF_additive _ _ _ _) ?_ es v h,
    hardF_full hy hyx hcy]
  intro low segs size hg hlow
  apply s2HardThread_eq _ hE hP hF hy hyz hzyx hc (Dvd.dvd.trans (by norm_num) hg.low_al) hg.size_pos hg.segs_pos hlow
  intro K hK
  obtain ⟨H, hH⟩ := hS K hK
  exact ⟨H, hH low size hg.low_al hg.size_al hg.size_pos⟩

/-- the instance `pcdrv` replays (reference sieve): no hypothesis about the sieve is left -/
theorem s2HardOpenMP_ref {e : Env} {P tmax x y c : ℕ} (lc : LB.Consts) (hlc : lc.WF) (threads : ℕ) (print : Bool)
    (hE : EnvOK e P) (hP : P = min y (x / y / Nat.sqrt y)) (hF : FactorOK e tmax y)
    (hy : 1 ≤ y) (hyx : y * y ≤ x) (hc : 4 ≤ c) (hcy : c ≤ π y) (es : List LB.S2.Ev) (v : ℤ)
    (h : s2HardOpenMP (refSieve e.primes) e lc x y (x / y) c threads print es = .ok v) : v = Spec.S2_hard x y c :=
  s2HardOpenMP_eq (refSieve e.primes)
    (fun K hK => ⟨refSieve_spec e.primes K (fun i h1 h2 => hE.primes_eq i h1 (le_trans h2 hK)), fun _ _ _ _ _ => trivial⟩)
    lc hlc threads print hE hP hF hy hyx hc hcy es v h

end Pc.Hard
