/-
C18 (WP iter2): `store_n_primes(n, start, vector)` (StorePrimes.hpp:102-160, PcModel/Iter.lean `storeNPrimes`, `storeNLoop`)
delivers exactly the first `n` primes `≥ start`.
-/
import PcProofs.IterStore
import Mathlib.Data.List.Perm.Subperm

namespace Pc.It
open Nat

theorem PrimesLt.toIn {l : List ℕ} {a L : ℕ} (h : PrimesLt l a (L + 1)) : PrimesIn l a L :=
  ⟨h.1, fun q => by rw [h.2 q]; constructor <;> (rintro ⟨h1, h2, h3⟩; exact ⟨h1, h2, by omega⟩)⟩

theorem pairwise_lt_nodup {l : List ℕ} (h : l.Pairwise (· < ·)) : l.Nodup := h.imp (fun h => Nat.ne_of_lt h)

/-- an enumeration of the primes of `[a, W]` is not longer than one of `[a, l]` for `W ≤ l` -/
theorem primesIn_length_le {r w : List ℕ} {a l W : ℕ} (hr : PrimesIn r a l) (hw : PrimesIn w a W) (hWl : W ≤ l) :
    w.length ≤ r.length := by
  apply List.Subperm.length_le
  apply List.subperm_of_subset (pairwise_lt_nodup hw.1)
  intro q hq
  obtain ⟨h1, h2, h3⟩ := (hw.2 q).1 hq
  exact (hr.2 q).2 ⟨h1, h2, by omega⟩

/-- … and strictly shorter when `W < l` and `l` itself is listed -/
theorem primesIn_length_lt {r w : List ℕ} {a l W : ℕ} (hr : PrimesIn r a l) (hl : l ∈ r) (hw : PrimesIn w a W) (hWl : W < l) :
    w.length < r.length := by
  have hnd : (w ++ [l]).Nodup := by
    apply pairwise_lt_nodup
    refine List.pairwise_append.2 ⟨hw.1, List.pairwise_singleton _ _, fun x hx y hy => ?_⟩
    rw [List.mem_singleton] at hy; subst hy
    have := ((hw.2 x).1 hx).2.2; omega
  have hsub : (w ++ [l]) ⊆ r := by
    intro q hq
    rcases List.mem_append.1 hq with h | h
    · obtain ⟨h1, h2, h3⟩ := (hw.2 q).1 h
      exact (hr.2 q).2 ⟨h1, h2, by omega⟩
    · rw [List.mem_singleton] at h; subst h; exact hl
  have := (List.subperm_of_subset hnd hsub).length_le
  rw [List.length_append, List.length_singleton] at this
  omega

/-- the `while (n >= it.size_)` loop of `store_n_primes` and its tail: when at least `N` primes `≥ start` exist below 2^64
    (witness `w`) and they fit the vector's value type, it terminates and has stored exactly `N` values: the primes of
    `[start, last stored]` -/
theorem storeNLoop_spec (e : Env) (he : GenSpec e) (vmax start N : ℕ) (w : List ℕ) (W : ℕ) (hw : PrimesIn w start W)
    (hwl : w.getLast? = some W) (hWu : W ≤ umax) (hWv : W ≤ vmax) (hN : N ≤ w.length) :
    ∀ fuel n (s : St) (acc : List ℕ) (nn L : ℕ), Batch s nn L → PrimesLt acc start nn → start ≤ nn → acc.length + n = N →
      1 ≤ n → n + 1 ≤ fuel →
      ∃ r Lr, storeNLoop e vmax fuel n s acc = .ok r ∧ r.length = N ∧ r.getLast? = some Lr ∧ PrimesIn r start Lr := by
  have hWp : W.Prime := ((hw.2 W).1 (List.mem_of_getLast? hwl)).1
  intro fuel
  induction fuel with
  | zero => intro n s acc nn L _ _ _ _ h1 h2; omega
  | succ fuel ih =>
    intro n s acc nn L hb hacc hsn hlen hn1 hf
    have hle := hb.le
    have hLm : L ∈ s.buf := List.mem_of_getLast? hb.last
    have hsz : 0 < s.buf.length := List.length_pos_of_mem hLm
    rw [storeNLoop]
    by_cases hns : n ≥ s.size
    · rw [if_pos hns, hb.last]
      simp only []
      have hall : PrimesIn (acc ++ s.buf) start L := (hacc.append hb.primes hsn hle).toIn
      have hns' : s.buf.length ≤ n := hns
      have hLW : L ≤ W := by
        by_contra hc
        have := primesIn_length_lt hall (List.mem_append_right _ hLm) hw (by omega)
        rw [List.length_append] at this
        omega
      rw [if_neg (by omega)]
      by_cases hn0 : n - s.size = 0
      · rw [if_pos hn0]
        have hsz' : n = s.buf.length := by unfold St.size at hn0; omega
        refine ⟨acc ++ s.buf, L, rfl, by rw [List.length_append]; omega, ?_, hall⟩
        rw [List.getLast?_append, hb.last]; rfl
      · rw [if_neg hn0]
        have hn0' : s.buf.length < n := by unfold St.size at hn0; omega
        have hLW' : L < W := by
          by_contra hc
          have := primesIn_length_le hall hw (by omega)
          rw [List.length_append] at this
          omega
        obtain ⟨s', L', h1, _, h3⟩ := (hb.next e he).1 ⟨W, hWp, by omega, hWu⟩
        rw [h1]
        simp only []
        exact ih (n - s.size) s' (acc ++ s.buf) (L + 1) L' h3 (hacc.append hb.primes hsn hle) (by omega)
          (by rw [List.length_append]; unfold St.size; omega) (by unfold St.size; omega) (by unfold St.size; omega)
    · rw [if_neg hns]
      have hns' : n < s.buf.length := by unfold St.size at hns; omega
      have hidx : n - 1 < s.buf.length := by omega
      rw [List.getElem?_eq_getElem hidx]
      simp only []
      have htl : (s.buf.take n).getLast? = some s.buf[n - 1] := by
        rw [List.getLast?_eq_getElem?, List.length_take, Nat.min_eq_left (by omega), List.getElem?_take_of_lt (by omega),
          List.getElem?_eq_getElem hidx]
      obtain ⟨htP, _⟩ := hb.primes.take n htl
      have hnl : nn ≤ s.buf[n - 1] := ((hb.primes.2 _).1 (List.getElem_mem hidx)).2.1
      have hall : PrimesIn (acc ++ s.buf.take n) start s.buf[n - 1] := (hacc.append htP hsn hnl).toIn
      have hlen' : (acc ++ s.buf.take n).length = N := by
        rw [List.length_append, List.length_take, Nat.min_eq_left (by omega)]; omega
      have hlW : s.buf[n - 1] ≤ W := by
        by_contra hc
        have := primesIn_length_lt hall (List.mem_append_right _ (List.mem_of_getLast? htl)) hw (by omega)
        omega
      rw [if_neg (by omega)]
      refine ⟨_, s.buf[n - 1], rfl, hlen', ?_, hall⟩
      rw [List.getLast?_append, htl]; rfl

/-- **`store_n_primes(n, start, primes)`**, `n ≥ 1`: for any core meeting `GenSpec`, any float outcome / batching and ANY value of
    the stop hint `nthHint` (the unchecked `start + nthPrime` may wrap): when at least `n` primes `≥ start` exist below 2^64
    (witness list `w` with last entry `W`) and `W` fits the vector's value type, the call terminates without error and stores
    exactly `n` values: the primes of `[start, last stored]`, increasing — i.e. the first `n` primes `≥ start` -/
theorem storeNPrimes_spec (e : Env) (he : GenSpec e) (vmax n start nthHint : ℕ) (hn : 1 ≤ n) (hs : start ≤ umax)
    (w : List ℕ) (W : ℕ) (hw : PrimesIn w start W) (hwl : w.getLast? = some W) (hWu : W ≤ umax) (hWv : W ≤ vmax)
    (hN : n ≤ w.length) :
    ∃ r Lr, storeNPrimes e vmax n start nthHint = .ok r ∧ r.length = n ∧ r.getLast? = some Lr ∧ PrimesIn r start Lr := by
  have hWm := (hw.2 W).1 (List.mem_of_getLast? hwl)
  have hh : (start + nthHint) % two64 ≤ umax := by
    have h := Nat.mod_lt (start + nthHint) (show 0 < two64 by decide)
    have e : two64 = umax + 1 := by decide
    omega
  obtain ⟨s0, L0, h0, _, hb0⟩ := (Batch.first e he start _ hs hh).1 ⟨W, hWm.1, hWm.2.1, hWu⟩
  obtain ⟨r, Lr, h1, h2, h3, h4⟩ := storeNLoop_spec e he vmax start n w W hw hwl hWu hWv hN (n + 1) n s0 [] start L0 hb0
    (PrimesLt.nil start) (le_refl _) (by simp) hn (le_refl _)
  refine ⟨r, Lr, ?_, h2, h3, h4⟩
  unfold storeNPrimes
  rw [if_neg (by omega)]
  simp only [h0, h1]

theorem storeNPrimes_zero (e : Env) (vmax start nthHint : ℕ) : storeNPrimes e vmax 0 start nthHint = .ok [] := by
  unfold storeNPrimes; rw [if_pos rfl]

end Pc.It
