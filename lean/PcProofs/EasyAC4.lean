/-
C08 (wp-ac2), A + C part 4: the bridge between what the kernels enumerate and `Spec.Cterm` of `gourdon_decomp`.

* `c1G_one_eq_Cterm`   the leaves below the root `(b, 1)` of the `C1` recursion with the `min_m`, `max_m` of AC.cpp:250-259
                       are exactly the `μ`-presentation `Spec.Cterm x y z b` (ALL `m`, prime or composite);
* `acC1Level_eq`       one iteration `b ≤ π√z` of the C1 loop of `AC_OpenMP` returns `Spec.Cterm x y z b`;
* `Cterm_eq_zero_low`  levels `p b ≤ ⌊(x/z)^(1/3)⌋` have no C-leaf (the lower end `pi_root3_xz` of the C1 loop);
* `Cterm_eq_c2`        for `b > π√z` every `m` of `Spec.Cterm` is a prime `p j`, `j ∈ c2Set` — what `C2` enumerates;
* `c2Set_empty_low`    levels `p b ≤ ⌊(x/y)^(1/3)⌋` have no second prime (the lower end `pi_root3_xy` of the C2 loop).
-/
import PcProofs.EasyAC3
import PcProofs.Spec.GourdonMain

namespace Pc.Easy
open Nat Finset Classical
open scoped Nat.Prime ArithmeticFunction.Moebius

variable {t : NT}

/-- the leaves of the `C1` recursion started at the root `(b, 1)` are `Spec.Cterm` -/
theorem c1G_one_eq_Cterm (x y z b : ℕ) :
    c1G (x / Spec.p b) b (π y)
      (min (max (x / Spec.p b / (Spec.p b * Spec.p b)) (z / Spec.p b)) (min (x / Spec.p b / Spec.p b) z))
      (min (x / Spec.p b / Spec.p b) z) b 1 = Spec.Cterm x y z b := by
  have e1 : x / Spec.p b / Spec.p b = x / (Spec.p b * Spec.p b) := Nat.div_div_eq_div_mul _ _ _
  have e2 : x / Spec.p b / (Spec.p b * Spec.p b) = x / (Spec.p b * Spec.p b * Spec.p b) := by
    rw [Nat.div_div_eq_div_mul, mul_assoc]
  rw [e1, e2]
  unfold c1G
  simp only [Nat.one_mul]
  have h := Spec.sum_subsets_eq_sum_moebius b (π y)
    (Ioc (min (max (x / (Spec.p b * Spec.p b * Spec.p b)) (z / Spec.p b)) (min (x / (Spec.p b * Spec.p b)) z))
      (min (x / (Spec.p b * Spec.p b)) z)) (cval (x / Spec.p b) b)
  simp only [mem_Ioc] at h
  rw [h]
  unfold Spec.Cterm
  apply Finset.sum_congr
  · ext n
    simp only [mem_filter, mem_Ioc]
    constructor
    · rintro ⟨⟨h1, h2⟩, h3⟩
      have h4 := le_min_iff.1 h2
      have h5 : max (x / (Spec.p b * Spec.p b * Spec.p b)) (z / Spec.p b) < n := by
        rcases min_lt_iff.1 h1 with h | h
        · exact h
        · omega
      have h6 := max_lt_iff.1 h5
      exact ⟨⟨h6.2, h4.2⟩, h3, h4.1, h6.1⟩
    · rintro ⟨⟨h1, h2⟩, h3, h4, h5⟩
      exact ⟨⟨lt_of_le_of_lt (min_le_left _ _) (max_lt h5 h1), le_min h4 h2⟩, h3⟩
  · intro n _
    unfold cval
    rw [Nat.div_div_eq_div_mul, mul_comm (Spec.p b) n]

/-- **one iteration of the C1 loop of `AC_OpenMP`** (AC.cpp:250-259), any level `1 ≤ b ≤ π√z`: returns `Spec.Cterm x y z b`
    (the caller SUBTRACTS it); `.ok` = `primes[·]`, `pi[·]` in bounds, `prime * prime` inside `int64_t`, `(T) m * primes[i]`
    inside the operand type, no `div` trap, no wrap of `pi[xpm] - b + 2` -/
theorem acC1Level_eq (hv : t.Valid) {w : ITy} {size maxPi x y z b : ℕ} (hb1 : 1 ≤ b) (hbz : b ≤ π (Nat.sqrt z))
    (hyz : y ≤ z) (hzx : z ≤ x) (hsz : π y < size) (hbs : b < size) (hzM : z ≤ maxPi) (hmb : maxPi ≤ t.bound)
    (hm63 : maxPi ≤ ITy.i64.maxVal) (hw : z * y ≤ w.maxVal) :
    acC1Level t w size maxPi (π y) x z b = .ok (Spec.Cterm x y z b) := by
  have hq2 := Spec.two_le_p b
  have hqz : Spec.p b ≤ Nat.sqrt z := (Spec.p_le_iff hb1).2 hbz
  have hqq : Spec.p b * Spec.p b ≤ z := Nat.le_sqrt.1 hqz
  have hqle : Spec.p b ≤ z := le_trans (Nat.le_mul_self _) hqq
  have hm64 : maxPi < 2 ^ 64 := lt_of_le_of_lt hm63 (by decide)
  set q := Spec.p b with hq
  have hmax1 : 1 ≤ min (x / q / q) z := by
    refine le_min ?_ (by omega)
    rw [Nat.div_div_eq_div_mul]
    exact (Nat.le_div_iff_mul_le (by positivity)).2 (by omega)
  have hzq1 : 1 ≤ z / q := (Nat.le_div_iff_mul_le (by omega)).2 (by omega)
  unfold acC1Level
  rw [primesGet_ok hv hb1 hbs (le_trans hbz (Spec.pi_mono (le_trans (Nat.sqrt_le_self z) (le_trans hzM hmb)))),
    EM_bind_ok, divE_ok (by omega), EM_bind_ok, divE_ok (by omega), EM_bind_ok,
    mulE_ok (le_trans hqq (le_trans hzM hm63)), EM_bind_ok, divE_ok (by positivity), EM_bind_ok, divE_ok (by omega), EM_bind_ok]
  simp only []
  rw [c1_eq (plainKern w) hv hsz (le_trans hyz (le_trans hzM hmb))
    (le_trans (Nat.mul_le_mul_right y (min_le_right _ _)) hw) hmb hm64 ?_ (π y - b) b rfl (-1) 1 0 le_rfl hmax1]
  · rw [c1G_one_eq_Cterm]
    have : c1Node (x / q) b (min (max (x / q / (q * q)) (z / q)) (min (x / q / q) z)) (min (x / q / q) z) 1 = 0 := by
      unfold c1Node
      rw [if_neg]
      intro h
      have := lt_of_le_of_lt (le_min (le_trans hzq1 (le_max_right _ _)) hmax1) h.1
      omega
    rw [this]
    congr 1
    ring
  · intro m' h1 h2
    have h3 : max (x / q / (q * q)) (z / q) < m' := by
      rcases min_lt_iff.1 h1 with h | h
      · exact h
      · exact absurd h (not_lt.2 h2)
    have h4 := (max_lt_iff.1 h3).1
    have h5 := (le_min_iff.1 h2).1
    have hm0 : 0 < m' := by omega
    constructor
    · -- xp / m' < q * q ≤ z
      have : x / q / m' < q * q := by
        rw [Nat.div_lt_iff_lt_mul hm0]
        have := (Nat.div_lt_iff_lt_mul (by positivity)).1 h4
        nlinarith [this]
      exact le_trans this.le (le_trans hqq hzM)
    · have h6 : q ≤ x / q / m' := by
        rw [Nat.le_div_iff_mul_le hm0]
        have := (Nat.le_div_iff_mul_le (by omega)).1 h5
        nlinarith [this]
      have := Spec.pi_mono h6
      rw [hq, Spec.pi_p hb1] at this
      omega

/-- levels with `p b ≤ ⌊(x / z)^(1/3)⌋` have no C-leaf: `m ≤ z ≤ x / p³` -/
theorem Cterm_eq_zero_low {x y z b r : ℕ} (hz : 0 < z) (hr : r ^ 3 ≤ x / z) (hb : Spec.p b ≤ r) : Spec.Cterm x y z b = 0 := by
  unfold Spec.Cterm
  apply Finset.sum_eq_zero
  intro m hm
  exfalso
  rw [mem_filter, mem_Ioc] at hm
  obtain ⟨⟨_, h2⟩, _, _, h5⟩ := hm
  have hq0 := Spec.p_pos b
  have h6 := (Nat.div_lt_iff_lt_mul (by positivity)).1 h5
  have h7 : Spec.p b ^ 3 ≤ r ^ 3 := Nat.pow_le_pow_left hb 3
  have h8 := (Nat.le_div_iff_mul_le hz).1 (le_trans h7 hr)
  have h9 : m * (Spec.p b * Spec.p b * Spec.p b) ≤ z * (Spec.p b * Spec.p b * Spec.p b) := Nat.mul_le_mul_right _ h2
  have : Spec.p b ^ 3 * z = z * (Spec.p b * Spec.p b * Spec.p b) := by ring
  omega

/-- levels with `p b ≤ ⌊(x / y)^(1/3)⌋` have no second prime for `C2`: `p j ≤ y ≤ x / p³` -/
theorem c2Set_empty_low {x y b r : ℕ} (hy : 0 < y) (hr : r ^ 3 ≤ x / y) (hb : Spec.p b ≤ r) : c2Set x y b = ∅ := by
  unfold c2Set
  apply Finset.filter_false_of_mem
  intro j hj
  rw [mem_Ioc] at hj
  have hj1 : 1 ≤ j := by omega
  have h1 := (le_min_iff.1 ((Spec.p_le_iff hj1).2 hj.2)).2
  have hq0 := Spec.p_pos b
  rw [Nat.div_div_eq_div_mul, not_lt]
  rw [Nat.le_div_iff_mul_le (by positivity)]
  have h7 : Spec.p b ^ 3 ≤ r ^ 3 := Nat.pow_le_pow_left hb 3
  have h8 := (Nat.le_div_iff_mul_le hy).1 (le_trans h7 hr)
  have h9 : Spec.p j * (Spec.p b * (Spec.p b * Spec.p b)) ≤ y * (Spec.p b * (Spec.p b * Spec.p b)) := Nat.mul_le_mul_right _ h1
  have : Spec.p b ^ 3 * y = y * (Spec.p b * (Spec.p b * Spec.p b)) := by ring
  omega

/-- above `π√z` an `m ∈ (z / q, z]` whose prime factors all exceed `q` is a prime -/
theorem cterm_m_prime {y z b m : ℕ} (hb1 : 1 ≤ b) (hqz : z < Spec.p b * Spec.p b) (hbz : Spec.p b ≤ z)
    (h1 : z / Spec.p b < m) (h2 : m ≤ z) (hc : ∀ q, q.Prime → q ∣ m → b < π q ∧ π q ≤ π y) : m.Prime := by
  have hq0 := Spec.p_pos b
  have hm0 : 0 < m := lt_of_le_of_lt (Nat.zero_le _) h1
  have hm1 : m ≠ 1 := by
    rintro rfl
    have : z / Spec.p b = 0 := Nat.lt_one_iff.1 h1
    rw [Nat.div_eq_zero_iff] at this
    omega
  by_contra hmp
  have hr := Nat.minFac_prime hm1
  have h6 := (hc _ hr (Nat.minFac_dvd m)).1
  have h7 : Spec.p b < m.minFac := (Spec.lt_pi_iff_p_lt hb1 hr).1 h6
  have h8 := Nat.minFac_sq_le_self hm0 hmp
  have : Spec.p b * Spec.p b < m.minFac * m.minFac := Nat.mul_lt_mul'' h7 h7
  rw [pow_two] at h8
  omega

/-- **levels above `π√z`: every `m` of `Spec.Cterm` is a prime** — the second primes `c2Set` that `C2` enumerates; `μ (p j) = -1` -/
theorem Cterm_eq_c2 {x y z b : ℕ} (hyz : y ≤ z) (hb : π (Nat.sqrt z) < b) (hby : Spec.p b ≤ y) :
    Spec.Cterm x y z b = - ∑ j ∈ c2Set x y b, val (x / Spec.p b) b j := by
  have hb1 : 1 ≤ b := by omega
  have hq0 := Spec.p_pos b
  have hqz : z < Spec.p b * Spec.p b := Nat.sqrt_lt.1 ((Spec.lt_p_iff hb1).2 hb)
  rw [← Finset.sum_neg_distrib]
  unfold Spec.Cterm c2Set
  refine Finset.sum_nbij' (fun m => π m) (fun j => Spec.p j) ?_ ?_ ?_ ?_ ?_
  · -- m ↦ π m lands in c2Set
    intro m hm
    rw [mem_filter, mem_Ioc] at hm
    obtain ⟨⟨h1, h2⟩, hc, h4, h5⟩ := hm
    have hmp : m.Prime := cterm_m_prime hb1 hqz (le_trans hby hyz) h1 h2 hc
    obtain ⟨hc1, hc2⟩ := hc m hmp dvd_rfl
    have hmy : m ≤ y := (Spec.prime_le_iff_pi_le' hmp).2 hc2
    rw [mem_filter, mem_Ioc, Spec.p_pi_of_prime hmp]
    refine ⟨⟨hc1, Spec.pi_mono (le_min ?_ hmy)⟩, ?_⟩
    · rw [Nat.div_div_eq_div_mul]; exact h4
    · rw [Nat.div_div_eq_div_mul, ← mul_assoc]; exact h5
  · -- j ↦ p j lands in the set of `Cterm`
    intro j hj
    rw [mem_filter, mem_Ioc] at hj
    obtain ⟨⟨h1, h2⟩, h3⟩ := hj
    have hj1 : 1 ≤ j := by omega
    have h4 := le_min_iff.1 ((Spec.p_le_iff hj1).2 h2)
    have hlt : Spec.p b < Spec.p j := Spec.p_lt_p hb1 h1
    rw [mem_filter, mem_Ioc]
    refine ⟨⟨?_, le_trans h4.2 hyz⟩, ?_, ?_, ?_⟩
    · rw [Nat.div_lt_iff_lt_mul hq0]
      calc z < Spec.p b * Spec.p b := hqz
        _ ≤ Spec.p j * Spec.p b := Nat.mul_le_mul_right _ hlt.le
    · intro r hr hd
      have := (Nat.prime_dvd_prime_iff_eq hr (Spec.p_prime hj1)).1 hd
      rw [this, Spec.pi_p hj1]
      exact ⟨h1, (Spec.p_le_iff hj1).1 h4.2⟩
    · have := h4.1; rwa [Nat.div_div_eq_div_mul] at this
    · rwa [Nat.div_div_eq_div_mul, ← mul_assoc] at h3
  · intro m hm
    rw [mem_filter, mem_Ioc] at hm
    obtain ⟨⟨h1, h2⟩, hc, h4, h5⟩ := hm
    have hmp : m.Prime := cterm_m_prime hb1 hqz (le_trans hby hyz) h1 h2 hc
    exact Spec.p_pi_of_prime hmp
  · intro j hj
    rw [mem_filter, mem_Ioc] at hj
    exact Spec.pi_p (by omega)
  · intro m hm
    rw [mem_filter, mem_Ioc] at hm
    obtain ⟨⟨h1, h2⟩, hc, h4, h5⟩ := hm
    have hmp : m.Prime := cterm_m_prime hb1 hqz (le_trans hby hyz) h1 h2 hc
    unfold val
    rw [ArithmeticFunction.moebius_apply_prime hmp, Spec.p_pi_of_prime hmp, Nat.div_div_eq_div_mul, mul_comm m]
    ring

end Pc.Easy
