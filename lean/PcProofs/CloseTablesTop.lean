/-
WP close, item 4 (part 4): the bundle `Pc.Top.TablesOK` (PcProofs/TopAlgsDR.lean:27) for tables built by the C17 constructor models.

* `realNT gen threads N`     the prime table `generate_primes(N)` and the `PiTable(N, threads)` read out into the `NT` record that
                             S1 / S2_trivial / S2_easy / AC / Sigma / Phi0 / P2 / B use; `realNT_valid : (realNT …).Valid`
                             (`NT.build_valid` is the same statement for the oracle table `NT.build N`, no hypothesis)
* `refSieve_field`, `concreteSieve_field`   the `sieve` field for the `Array Bool` reference sieve (every `K`, every segment) and for
                             the bit-exact model of `class Sieve` (`K` with `p_K < 2^32`, segments with `seg / 30 · 8 < 2^32`: the
                             `uint32_t` fields of the real object; for THAT reason `TablesOK.sieve`, which quantifies every
                             240-aligned segment, is only met by the reference sieve)
* `realTables`, `realTables_ok`             `TablesOK (realTables S gen threads phiNeg wide N it) B` for EVERY `B`
                             from `PrimeGenSpec gen` (C18), `PhiNegSpec phiNeg (π B)` (C07), `P2L.IterSpec it` (C18 `buffer_contract`), and
                             the `sieve` field of `S`;  `realTablesRef_ok`: with the reference sieve over `realNT` (`B ≤ N`).
-/
import PcProofs.CloseTablesEnv
import PcProofs.TopAlgsDR
import PcProofs.HardSieveInst
import PcProofs.HardSieveRef
import PcProofs.Dispenser

namespace Pc.Close
open Nat Pc.Hard Pc.Drv Pc.PhiVec Pc.LB Pc.Top
open scoped Nat.Prime

/-- `generate_primes(N)` and `PiTable(N, threads)` as an `NT` record -/
def realNT (gen : PrimeGen) (threads : ℤ) (N : ℕ) : NT where
  bound := N
  primes := (genPrimes gen N).toArray
  pi := ((List.range (N + 1)).map (piTableGet gen N threads)).toArray

theorem realNT_p (gen : PrimeGen) (threads : ℤ) (N i : ℕ) : (realNT gen threads N).p i = (genPrimes gen N).getD i 0 := by
  show (genPrimes gen N).toArray.getD i 0 = _
  rw [Array.getD_eq_getD_getElem?, List.getElem?_toArray, List.getD_eq_getElem?_getD]

theorem realNT_piOf (gen : PrimeGen) (threads : ℤ) (N m : ℕ) (hm : m ≤ N) :
    (realNT gen threads N).piOf m = piTableGet gen N threads m := by
  show (if m ≤ N then ((List.range (N + 1)).map (piTableGet gen N threads)).toArray.getD m 0 else _) = _
  rw [if_pos hm, Array.getD_eq_getD_getElem?, List.getElem?_toArray, List.getElem?_map, List.getElem?_range (by omega)]
  rfl

/-- **`NT.Valid` for the tables the real constructors build** -/
theorem realNT_valid (gen : PrimeGen) (hg : PrimeGenSpec gen) (threads : ℤ) (N : ℕ) : (realNT gen threads N).Valid := by
  have h := ctorTab_ok gen hg N threads
  refine ⟨fun m hm => ?_, fun i h1 h2 => ?_, ?_⟩
  · rw [realNT_piOf gen threads N m hm]; exact h.pi m hm
  · rw [realNT_p]; exact h.prime i h1 h2
  · rw [realNT_p]; rfl

/-! ### the `sieve` field -/

/-- the reference sieve over a prime table that is right up to `π B` -/
theorem refSieve_field (primes : ℕ → ℕ) (B : ℕ) (hp : ∀ i, 1 ≤ i → i ≤ π B → primes i = Spec.p i) :
    ∀ K, K ≤ π B → ∃ H : SieveSpec (refSieve primes) K, ∀ low seg, 240 ∣ low → 240 ∣ seg → 0 < seg → H.segOK low seg :=
  fun K hK => ⟨refSieve_spec primes K (fun i h1 h2 => hp i h1 (le_trans h2 hK)), fun _ _ _ _ _ => trivial⟩

/-- the bit-exact model of `class Sieve` (the driver's `_cs` sieve object): the contract `SieveSpec` for the levels whose primes fit
    `uint32_t` and the segments whose byte count fits `uint32_t` -/
theorem concreteSieve_field (cfg : Sieve.Cfg) (f : Sieve.StopFn) (primes : Array ℕ) (K : ℕ)
    (hp : ∀ i, 4 ≤ i → i ≤ K → primes.getD i 0 = Spec.p i) (h32 : Spec.p K < 2 ^ 32) :
    ∃ H : SieveSpec (concreteSieve cfg f primes) K,
      ∀ low seg, 240 ∣ low → 240 ∣ seg → 0 < seg → seg / 30 * 8 < 2 ^ 32 → H.segOK low seg :=
  ⟨concreteSieve_spec cfg f primes K hp h32, fun low seg h1 h2 h3 h4 =>
    (concreteSieve_spec_segOK cfg f primes K hp h32 low seg).2 ⟨Dvd.dvd.trans (by norm_num) h1, h2, h3, h4⟩⟩

/-- … in particular over the prime array of the constructor-built table -/
theorem concreteSieve_realNT (cfg : Sieve.Cfg) (f : Sieve.StopFn) (gen : PrimeGen) (hg : PrimeGenSpec gen) (threads : ℤ) (N K : ℕ)
    (hK : K ≤ π N) (h32 : Spec.p K < 2 ^ 32) :
    ∃ H : SieveSpec (concreteSieve cfg f (realNT gen threads N).primes) K,
      ∀ low seg, 240 ∣ low → 240 ∣ seg → 0 < seg → seg / 30 * 8 < 2 ^ 32 → H.segOK low seg :=
  concreteSieve_field cfg f _ K (fun i h4 hi => (realNT_valid gen hg threads N).p_eq i (by omega) (le_trans hi hK)) h32

/-! ### the bundle -/

theorem phiNegSpec_mono {phiNeg : ℕ → ℕ → ℤ} {A A' : ℕ} (h : PhiNegSpec phiNeg A) (hle : A' ≤ A) : PhiNegSpec phiNeg A' :=
  fun y b hy hb => h y b hy (le_trans hb hle)

/-- the tables of one run, all built by the constructor models of C17 (the iterator `it` and the sieve object `S` are parameters) -/
def realTables {σ : Type} (S : SieveOps σ) (gen : PrimeGen) (threads : ℤ) (phiNeg : ℕ → ℕ → ℤ) (wide : Bool) (N : ℕ)
    (it : P2L.Iter) : Tables σ where
  t := realNT gen threads N
  it := it
  lc := genConsts
  S := S
  hardEnv := realHardEnv gen threads phiNeg wide
  dEnv := realDEnv gen threads phiNeg wide

/-- **`TablesOK` for the constructor-built tables, every bound `B`** -/
theorem realTables_ok {σ : Type} (S : SieveOps σ) (gen : PrimeGen) (threads : ℤ) (phiNeg : ℕ → ℕ → ℤ) (wide : Bool) (N : ℕ)
    (it : P2L.Iter) (B : ℕ) (hg : PrimeGenSpec gen) (hphi : PhiNegSpec phiNeg (π B)) (hiter : P2L.IterSpec it)
    (hS : ∀ K, K ≤ π B → ∃ H : SieveSpec S K, ∀ low seg, 240 ∣ low → 240 ∣ seg → 0 < seg → H.segOK low seg) :
    TablesOK (realTables S gen threads phiNeg wide N it) B where
  valid := realNT_valid gen hg threads N
  iter := hiter
  consts := genConsts_wf
  sieve := hS
  hardEnv := fun y z hy => realHardEnv_ok gen threads phiNeg wide hg y z
    (phiNegSpec_mono hphi (Nat.monotone_primeCounting (le_trans (min_le_left _ _) hy)))
  hardFactor := fun y z _ => realHardEnv_factor gen threads phiNeg wide hg y z
  dEnv := fun y z hy => realDEnv_ok gen threads phiNeg wide hg y z (phiNegSpec_mono hphi (Nat.monotone_primeCounting hy))
  dFactor := fun y z _ => realDEnv_factor gen threads phiNeg wide hg y z

/-- … with the reference sieve reading the constructor-built prime table (`B ≤ N`) -/
theorem realTablesRef_ok (gen : PrimeGen) (threads : ℤ) (phiNeg : ℕ → ℕ → ℤ) (wide : Bool) (N : ℕ) (it : P2L.Iter) (B : ℕ)
    (hBN : B ≤ N) (hg : PrimeGenSpec gen) (hphi : PhiNegSpec phiNeg (π B)) (hiter : P2L.IterSpec it) :
    TablesOK (realTables (refSieve (realNT gen threads N).p) gen threads phiNeg wide N it) B :=
  realTables_ok _ gen threads phiNeg wide N it B hg hphi hiter
    (refSieve_field _ B (fun i h1 h2 =>
      (realNT_valid gen hg threads N).p_eq i h1 (le_trans h2 (Nat.monotone_primeCounting hBN))))

end Pc.Close
