/-
C08 (wp-ac2), A + C part 9: the segmentation the driver runs (`uniformSegs`: every `get_work` returns one segment of a fixed size) is
one of the chains `ac_loop_eq_def` quantifies over.
-/
import PcProofs.EasyAC8
namespace Pc.Easy
open Nat

theorem chainPairs_map_range' (g : ℕ → ℕ) : ∀ n k,
    chainPairs ((List.range' k (n + 1)).map g) = (List.range' k n).map (fun j => (g j, g (j + 1))) := by
  intro n
  induction n with
  | zero => intro k; simp [chainPairs]
  | succ n ih =>
    intro k
    have e1 : List.range' k (n + 1 + 1) = k :: List.range' (k + 1) (n + 1) := by
      rw [List.range'_succ]
    have e2 : List.range' (k + 1) (n + 1) = (k + 1) :: List.range' (k + 2) n := by
      rw [List.range'_succ]
    have e3 : List.range' k (n + 1) = k :: List.range' (k + 1) n := by
      rw [List.range'_succ]
    rw [e1, List.map_cons, e2, List.map_cons, chainPairs, ← List.map_cons, ← e2, ih (k + 1), e3, List.map_cons]

/-- the boundaries `0, ss, 2 ss, …, top` of the uniform segmentation -/
def uniformBounds (top ss : ℕ) : List ℕ := (List.range' 1 ((top + ss - 1) / ss)).map (fun j => min (j * ss) top)

theorem lt_top_of_lt_count {top ss j : ℕ} (hss : 1 ≤ ss) (hj : j < (top + ss - 1) / ss) : j * ss < top := by
  have h1 : j + 1 ≤ (top + ss - 1) / ss := hj
  rw [Nat.le_div_iff_mul_le (by omega)] at h1
  have : (j + 1) * ss = j * ss + ss := by ring
  omega

/-- **the driver's segmentation is a chain**: `uniformSegs top ss` (every `get_work` returns one segment of size `ss`) are the
    consecutive pairs of the strictly increasing boundary list `0 < ss < 2 ss < … < top` -/
theorem uniformSegs_chain {top ss : ℕ} (hss : 1 ≤ ss) (htop : 1 ≤ top) :
    uniformSegs top ss = chainPairs (0 :: uniformBounds top ss) ∧
    (0 :: uniformBounds top ss).Pairwise (· < ·) ∧
    (0 :: uniformBounds top ss).getLast (List.cons_ne_nil _ _) = top := by
  set m := (top + ss - 1) / ss with hm
  have hmtop : top ≤ m * ss := by
    have := Nat.lt_div_mul_add (a := top + ss - 1) (b := ss) (by omega)
    rw [← hm] at this
    omega
  have hlist : (0 :: uniformBounds top ss) = (List.range' 0 (m + 1)).map (fun j => min (j * ss) top) := by
    unfold uniformBounds
    rw [← hm]
    have : List.range' 0 (m + 1) = 0 :: List.range' 1 m := by rw [List.range'_succ]
    rw [this, List.map_cons]
    simp
  refine ⟨?_, ?_, ?_⟩
  · rw [hlist, chainPairs_map_range']
    unfold uniformSegs workSegments
    have e1 : max ss 1 = ss := max_eq_left hss
    simp only [e1, ← hm, Nat.zero_add]
    rw [if_neg (by omega), min_eq_right hmtop, Nat.sub_zero, ← hm, List.range_eq_range']
    apply List.map_congr_left
    intro j hj
    rw [List.mem_range'_1] at hj
    have := lt_top_of_lt_count hss (by rw [← hm]; omega : j < (top + ss - 1) / ss)
    rw [min_eq_left this.le]
    congr 2
    ring
  · rw [hlist, List.pairwise_map]
    apply List.Pairwise.imp_of_mem _ (List.pairwise_lt_range' (s := 0) (n := m + 1) (step := 1) (by norm_num))
    intro a b ha hb hab
    rw [List.mem_range'_1] at ha hb
    have ha' := lt_top_of_lt_count hss (by rw [← hm]; omega : a < (top + ss - 1) / ss)
    rw [min_eq_left ha'.le]
    apply lt_min _ ha'
    exact Nat.mul_lt_mul_of_pos_right hab (by omega)
  · have : (0 :: uniformBounds top ss).getLast (List.cons_ne_nil _ _)
        = ((List.range' 0 (m + 1)).map (fun j => min (j * ss) top)).getLast (by simp) := by
      congr 1
    rw [this, List.getLast_map, List.getLast_range']
    simp only [Nat.zero_add, Nat.add_sub_cancel]
    exact min_eq_right hmtop

end Pc.Easy
