/-
WP safety4 (C16 / C12): the width-checked segmented engine (`leafFoldC` / `levelLoopC` / `segLoopC` of PcModel/SafetyHard.lean)
returns, under the hypotheses of `engine_spec` (PcProofs/HardEngine.lean) plus `limit ≤ top ≤ iMax` (`top = low + segment_size·segments`)
and weights `±1`, the same value as the unchecked engine: every `count`, `phi[b] + count`, `mu_m * phi_xpm`, `phi[b] += total`,
`low + segment_size` is value-preserving in `int64_t`.  The reason is the engine's own invariant: `phi[b] + count = φ(xpm, b − 1) ≤ xpm < high`,
`phi[b] + total = φ(high − 1, b − 1) ≤ high − 1`.
-/
import PcProofs.HardEngine
import PcModel.SafetyHard

namespace Pc.Hard
open Nat Finset
open Pc.SimpleAlgs (getD_setIfInBounds)

/-- every weight is `±1` (`-mu(m)` resp. `+1`) -/
def WeightsOK (items : List (ℕ × ℤ)) : Prop := ∀ it ∈ items, it.2 = 1 ∨ it.2 = -1

theorem fitsS_of_nat {m v : ℕ} (h : v ≤ m) : fitsS m (v : ℤ) := by unfold fitsS; omega

theorem fitsS_pm {m v : ℕ} {w : ℤ} (h : v ≤ m) (hw : w = 1 ∨ w = -1) : fitsS m (w * (v : ℤ)) := by
  unfold fitsS
  rcases hw with rfl | rfl
  · omega
  · omega

theorem cnt_le_phi (L lvl stop : ℕ) : cnt L lvl stop ≤ Spec.phi (L + stop) lvl := by unfold cnt; omega

variable {σ : Type} {S : SieveOps σ} {Kmax : ℕ}

/-- the checked leaf loop of one level in one segment `[lo, lo + n)`, `lo + n ≤ iMax + 1` -/
theorem leafFoldC_spec (hS : SieveSpec S Kmax) {iMax lo n lvl K seg : ℕ} (phib : ℤ)
    (hphib : phib = (Spec.phi (lo - 1) lvl : ℤ)) (hiM : lo + n ≤ iMax + 1) :
    ∀ (items : List (ℕ × ℤ)) (s : σ) (prev : ℕ) (sum : ℤ), hS.Seg s lo n lvl K prev seg → ItemsOK lo (lo + n) prev items →
      WeightsOK items →
      ∃ s' prev', leafFoldC iMax S lo n phib items s sum = .ok (s', sum + itemSum (lvl + 1) items) ∧
        hS.Seg s' lo n lvl K prev' seg := by
  intro items
  induction items with
  | nil =>
    intro s prev sum hseg _ _
    exact ⟨s, prev, by simp [leafFoldC, itemSum], hseg⟩
  | cons it rest ih =>
    obtain ⟨pos, w⟩ := it
    intro s prev sum hseg hok hw
    obtain ⟨h1, h2, h3⟩ := hok
    have hcond : ¬ (pos < lo ∨ n ≤ pos - lo) := by omega
    rw [leafFoldC, if_neg hcond]
    have hv := hS.count_val s lo n lvl K prev seg (pos - lo) hseg (by omega) (by omega)
    have hs := hS.count_seg s lo n lvl K prev seg (pos - lo) hseg (by omega) (by omega)
    have e : lo + (pos - lo) = pos := by omega
    have hadd := cnt_add lo lvl (pos - lo)
    rw [e] at hadd
    have hcl := cnt_le_phi lo lvl (pos - lo)
    rw [e] at hcl
    have hple : Spec.phi pos lvl ≤ pos := Spec.phi_le pos lvl
    have hww : w = 1 ∨ w = -1 := hw (pos, w) (by simp)
    rw [hv, if_neg (by omega), hphib, hadd, if_neg (not_not.2 (fitsS_of_nat (by omega))),
      if_neg (not_not.2 (fitsS_pm (by omega) hww))]
    obtain ⟨s', prev', e1, e2⟩ := ih (S.count s (pos - lo)).1 (pos - lo)
      (sum + w * (Spec.phi pos lvl : ℤ)) hs h3 (fun it hit => hw it (List.mem_cons_of_mem _ hit))
    refine ⟨s', prev', ?_, e2⟩
    rw [hphib] at e1
    rw [e1]
    simp only [itemSum, Nat.add_sub_cancel]
    congr 2
    ring

/-- the checked level loops of ONE segment `[lo, hi)`, `hi ≤ iMax + 1` -/
theorem levelLoopC_spec (hS : SieveSpec S Kmax) {lv : ℕ → ℕ → ℕ → Except Err (Option (List (ℕ × ℤ)))} {brk : ℕ → ℕ → Prop}
    {W : ℕ → ℕ → ℕ → ℤ} {minB maxB low0 limit : ℕ} (hL : LvSpec lv brk W minB maxB low0 limit) {prime : ℕ → ℕ}
    (hprime : ∀ b, minB ≤ b → b ≤ maxB → prime b = Spec.p b)
    (hW : ∀ b lo hi its, lv b lo hi = .ok (some its) → WeightsOK its) (hminB : 1 ≤ minB) {iMax : ℕ}
    {lo hi seg E : ℕ} (h0 : low0 ≤ lo) (hlh : lo < hi) (hhl : hi ≤ limit) (hE : E ≤ maxB + 1) (hiM : hi ≤ iMax + 1) :
    ∀ (fuel b : ℕ) (s : σ) (phi : Array ℤ) (sum : ℤ), maxB + 1 ≤ b + fuel → minB ≤ b → b ≤ E →
      hS.Seg s lo (hi - lo) (b - 1) (E - 1) 0 seg → phi.size = maxB + 1 →
      (∀ b', minB ≤ b' → b' < b → phi.getD b' 0 = (Spec.phi (hi - 1) (b' - 1) : ℤ)) →
      (∀ b', b ≤ b' → b' < E → phi.getD b' 0 = (Spec.phi (lo - 1) (b' - 1) : ℤ)) →
      (∀ b', minB ≤ b' → b' < b → ¬ brk b' lo) →
      (∀ b', E ≤ b' → b' ≤ maxB → Dead brk minB b' lo) →
      ∃ s' phi' E' prev', levelLoopC iMax S (fun b => lv b lo hi) prime lo (hi - lo) maxB fuel b s phi sum
          = .ok (s', phi', sum + ∑ b' ∈ Icc b maxB, W b' lo hi) ∧
        minB ≤ E' ∧ E' ≤ E ∧ hS.Seg s' lo (hi - lo) (E' - 1) (E - 1) prev' seg ∧ phi'.size = maxB + 1 ∧
        (∀ b', minB ≤ b' → b' < E' → phi'.getD b' 0 = (Spec.phi (hi - 1) (b' - 1) : ℤ)) ∧
        (∀ b', E' ≤ b' → b' ≤ maxB → Dead brk minB b' lo) := by
  intro fuel
  induction fuel with
  | zero =>
    intro b s phi sum hf hb hbE hseg hsz hdone _ _ hdead
    refine ⟨s, phi, b, 0, ?_, hb, hbE, hseg, hsz, hdone, fun b' h1 h2 => by omega⟩
    rw [levelLoopC, Finset.Icc_eq_empty (by omega)]; simp
  | succ fuel ih =>
    intro b s phi sum hf hb hbE hseg hsz hdone hpend hlive hdead
    by_cases hbm : b ≤ maxB
    swap
    · refine ⟨s, phi, b, 0, ?_, hb, hbE, hseg, hsz, hdone, fun b' h1 h2 => by omega⟩
      rw [levelLoopC, if_neg hbm, Finset.Icc_eq_empty (by omega)]; simp
    rw [levelLoopC, if_pos hbm]
    by_cases hbrk : brk b lo
    · rw [hL.brk_none b lo hi hb hbm h0 hlh hhl hbrk]
      refine ⟨s, phi, b, 0, ?_, hb, hbE, hseg, hsz, hdone, ?_⟩
      · simp only []
        rw [Finset.sum_eq_zero, add_zero]
        intro b' hb'
        rw [mem_Icc] at hb'
        exact hL.brk_zero b lo hb hbm hbrk b' lo hi hb'.1 hb'.2 le_rfl
      · intro b' h1 _
        exact ⟨b, hb, h1, hbrk⟩
    · have hbE' : b < E := by
        by_contra hge
        obtain ⟨b0, g1, g2, g3⟩ := hdead b (by omega) hbm
        rcases Nat.lt_or_ge b0 b with hlt | hge'
        · exact hlive b0 g1 hlt g3
        · have : b0 = b := by omega
          subst this; exact hbrk g3
      obtain ⟨its, hlv, hok, hsum⟩ := hL.items b lo hi hb hbm h0 hlh hhl hbrk
      have hwts := hW b lo hi its hlv
      rw [hlv]
      simp only []
      rw [if_neg (by omega)]
      have hphib := hpend b le_rfl hbE'
      have hlvl : b - 1 + 1 = b := by omega
      have ehi : lo + (hi - lo) = hi := by omega
      obtain ⟨s1, prev1, hfold, hseg1⟩ := leafFoldC_spec hS (iMax := iMax) (phi.getD b 0) hphib (by omega) its s 0 sum hseg
        (by rw [ehi]; exact hok) hwts
      rw [hlvl] at hfold
      rw [hfold]
      simp only []
      have htot := hS.total_val s1 lo (hi - lo) (b - 1) (E - 1) prev1 seg hseg1
      have hcross := hS.cross_seg s1 lo (hi - lo) (b - 1) (E - 1) prev1 seg hseg1 (by omega)
      rw [hlvl] at hcross
      rw [← hprime b hb hbm] at hcross
      have hnewphi : phi.getD b 0 + (S.total s1 : ℤ) = (Spec.phi (hi - 1) (b - 1) : ℤ) := by
        rw [hphib, htot]
        have := cnt_add lo (b - 1) (hi - lo - 1)
        have e : lo + (hi - lo - 1) = hi - 1 := by omega
        rw [e] at this; exact this
      have hple : Spec.phi (hi - 1) (b - 1) ≤ hi - 1 := Spec.phi_le _ _
      rw [hnewphi, if_neg (not_not.2 (fitsS_of_nat (by omega)))]
      have hb1 : b + 1 - 1 = b := by omega
      obtain ⟨s', phi', E', prev', r1, r2, r3, r4, r5, r6, r7⟩ := ih (b + 1) (S.cross s1 (prime b) b)
        (phi.setIfInBounds b (Spec.phi (hi - 1) (b - 1) : ℤ)) (sum + itemSum b its) (by omega) (by omega) (by omega)
        (by rw [hb1]; exact hcross) (by rw [Array.size_setIfInBounds]; exact hsz)
        (fun b' h1 h2 => by
          rw [getD_setIfInBounds]
          by_cases hbb : b = b'
          · subst hbb; rw [if_pos ⟨rfl, by omega⟩]
          · rw [if_neg (fun h => hbb h.1)]; exact hdone b' h1 (by omega))
        (fun b' h1 h2 => by
          rw [getD_setIfInBounds, if_neg (by omega)]; exact hpend b' (by omega) h2)
        (fun b' h1 h2 => by
          rcases Nat.lt_or_ge b' b with hlt | hge
          · exact hlive b' h1 hlt
          · have : b' = b := by omega
            subst this; exact hbrk)
        hdead
      refine ⟨s', phi', E', prev', ?_, r2, r3, r4, r5, r6, r7⟩
      rw [r1]
      congr 2
      have hI : Icc b maxB = insert b (Icc (b + 1) maxB) := by
        ext i; rw [mem_insert, mem_Icc, mem_Icc]; omega
      rw [hI, Finset.sum_insert (by rw [mem_Icc]; omega), hsum]; ring

theorem segLoopC_done {iMax : ℕ} {lv : ℕ → ℕ → ℕ → Except Err (Option (List (ℕ × ℤ)))} {prime : ℕ → ℕ}
    {minB maxB limit segSize : ℕ} {lo : ℕ} (h : limit ≤ lo) (n : ℕ) (s : σ) (phi : Array ℤ) (sum : ℤ) :
    segLoopC iMax S lv prime minB maxB limit segSize n lo s phi sum = .ok sum := by
  cases n with
  | zero => rw [segLoopC, if_neg (by omega)]
  | succ n => rw [segLoopC, if_neg (by omega)]

/-- the checked segment loop: `top` = `low + segment_size·segments` (every `lo` the loop visits has `segSize ∣ top − lo`) -/
theorem segLoopC_spec (hS : SieveSpec S Kmax) {lv : ℕ → ℕ → ℕ → Except Err (Option (List (ℕ × ℤ)))} {brk : ℕ → ℕ → Prop}
    {W : ℕ → ℕ → ℕ → ℤ} {minB maxB low0 limit : ℕ} (hL : LvSpec lv brk W minB maxB low0 limit) {prime : ℕ → ℕ}
    (hprime : ∀ b, minB ≤ b → b ≤ maxB → prime b = Spec.p b)
    (hW : ∀ b lo hi its, lv b lo hi = .ok (some its) → WeightsOK its) (hminB : 4 ≤ minB) {segSize : ℕ} (hseg : 1 ≤ segSize)
    {iMax top : ℕ} (htop : top ≤ iMax) (hlt : limit ≤ top) :
    ∀ (fuel lo E : ℕ) (s : σ) (phi : Array ℤ) (sum : ℤ), limit ≤ lo + fuel → low0 ≤ lo → minB ≤ E → E ≤ maxB + 1 →
      lo ≤ top → segSize ∣ top - lo →
      hS.Ready s lo (E - 1) segSize → phi.size = maxB + 1 →
      (∀ b', minB ≤ b' → b' < E → phi.getD b' 0 = (Spec.phi (lo - 1) (b' - 1) : ℤ)) →
      (∀ b', E ≤ b' → b' ≤ maxB → Dead brk minB b' lo) →
      segLoopC iMax S lv prime minB maxB limit segSize fuel lo s phi sum
        = .ok (sum + ∑ b ∈ Icc minB maxB, W b lo (max lo limit)) := by
  intro fuel
  induction fuel with
  | zero =>
    intro lo E s phi sum hf _ _ _ _ _ _ _ _ _
    rw [segLoopC_done (by omega), Finset.sum_eq_zero, add_zero]
    intro b _
    rw [Nat.max_eq_left (by omega)]; exact hL.W_empty b lo
  | succ fuel ih =>
    intro lo E s phi sum hf h0 hE1 hE2 hlotop hdvd hready hsz hphi hdead
    by_cases hlt' : lo < limit
    swap
    · rw [segLoopC_done (by omega), Finset.sum_eq_zero, add_zero]
      intro b _
      rw [Nat.max_eq_left (by omega)]; exact hL.W_empty b lo
    have hstep : segSize ≤ top - lo := Nat.le_of_dvd (by omega) hdvd
    rw [segLoopC, if_pos hlt', if_neg (by omega)]
    set hi := min (lo + segSize) limit with hhi
    have hlh : lo < hi := by rw [hhi, lt_min_iff]; omega
    have hhl : hi ≤ limit := min_le_right _ _
    have hn : hi - lo ≤ segSize := by have := min_le_left (lo + segSize) limit; omega
    have hpre := hS.pre_seg s lo (E - 1) segSize (minB - 1) (hi - lo) hready (by omega) (by omega) (by omega) hn
    have ehi : lo + (hi - lo) = hi := by omega
    rw [ehi] at hpre
    obtain ⟨s', phi', E', prev', r1, r2, r3, r4, r5, r6, r7⟩ := levelLoopC_spec hS hL hprime hW (by omega) (iMax := iMax)
      h0 hlh hhl hE2 (by omega)
      (maxB + 1 - minB) minB (S.pre s (minB - 1) lo hi) phi sum (by omega) le_rfl hE1 hpre hsz
      (fun b' h1 h2 => by omega) hphi (fun b' h1 h2 => by omega) hdead
    rw [r1]
    simp only []
    rw [Nat.max_eq_right hlt'.le]
    by_cases hmore : lo + segSize < limit
    · have hhs : hi = lo + segSize := by rw [hhi, min_eq_left hmore.le]
      have hnn : hi - lo = segSize := by omega
      rw [hnn] at r4
      have hrd := hS.next_ready s' lo (E' - 1) (E - 1) prev' segSize r4
      have hdvd' : segSize ∣ top - (lo + segSize) := by
        have : top - (lo + segSize) = (top - lo) - segSize := by omega
        rw [this]; exact Nat.dvd_sub hdvd (dvd_refl _)
      rw [ih (lo + segSize) E' s' phi' _ (by omega) (by omega) r2 (by omega) (by omega) hdvd' hrd r5
        (fun b' h1 h2 => by rw [← hhs]; exact r6 b' h1 h2)
        (fun b' h1 h2 => by
          obtain ⟨b0, g1, g2, g3⟩ := r7 b' h1 h2
          exact ⟨b0, g1, g2, hL.brk_mono b0 lo (lo + segSize) g1 (by omega) (by omega) g3⟩)]
      rw [Nat.max_eq_right (by omega), add_assoc, ← Finset.sum_add_distrib]
      have hWa : ∀ b ∈ Icc minB maxB, W b lo hi + W b (lo + segSize) limit = W b lo limit := by
        intro b _
        rw [← hhs]
        exact hL.W_add b lo hi limit hlh.le hhl
      rw [Finset.sum_congr rfl hWa]
    · have hhs : hi = limit := by rw [hhi, min_eq_right (by omega)]
      rw [segLoopC_done (by omega), hhs]

end Pc.Hard

#print axioms Pc.Hard.segLoopC_spec
