/-
WP lmo, part 1: the L2 control-flow models of `pi_legendre`, `pi_meissel`, `pi_lehmer`, `P3` and `pi_lmo1`
(PcModel/SimpleAlgs.lean) equal π(x) for every x.

* `piLegendre_eq_pi`, `piMeissel_eq_pi`, `piLehmer_eq_pi`, `p3Model_eq` (`= Spec.P3`)
* `getC_le_pi`, `getC_le_eight`, `one_le_getC`
* `Tables.Valid` (what the three vectors of pi_lmo1..5 have to hold), `s1Lmo1_eq` (`= Spec.S1`), `s2Lmo1_eq`
  (`= Spec.S2`: the double loop over `b < π y`, `m ∈ (y / p_b, y]` with `lpf[m] > p_b` IS the special-leaf set),
  `piLmo1With_eq_pi`
`tablesFor_valid`: the vectors built by `tablesFor` (sieve primes, `generateLpf`, `generateMoebius`) are valid;
  `piLmo1_eq_pi`.
-/
import PcModel.SimpleAlgs
import PcProofs.L1Routes
import PcProofs.GeneratePrimes
import PcProofs.GenerateMoebius

namespace Pc.SimpleAlgs
open Nat Finset Classical
open scoped Nat.Prime ArithmeticFunction.Moebius

/-! ### small helpers -/

theorem pi_toNat_of_lt_two {x : ℤ} (h : x < 2) : π x.toNat = 0 := by
  have : x.toNat ≤ 1 := by omega
  rcases Nat.le_one_iff_eq_zero_or_eq_one.1 this with h | h <;> rw [h] <;> decide

theorem irootN_pos {n x : ℕ} (hn : 1 ≤ n) (hx : 1 ≤ x) : 1 ≤ irootN n x := by
  obtain ⟨_, h2⟩ := irootN_spec n x hn
  by_contra h
  have h0 : irootN n x = 0 := by omega
  rw [h0] at h2
  simp at h2
  omega

/-- `Σ_{l < hi + 1 - lo} g (lo + l) = Σ_{j ∈ [lo, hi]} g j` -/
theorem sumInt_map_range_Icc (lo hi : ℕ) (g : ℕ → ℤ) :
    sumInt ((List.range (hi + 1 - lo)).map fun l => g (lo + l)) = ∑ j ∈ Icc lo hi, g j := by
  rw [sumInt_map_range, ← Finset.sum_Ico_eq_sum_range]
  congr 1

/-- `Σ_{k < n} g (k + 1) = Σ_{j ∈ (0, n]} g j` -/
theorem sumInt_map_range_succ (n : ℕ) (g : ℕ → ℤ) :
    sumInt ((List.range n).map fun k => g (k + 1)) = ∑ j ∈ Ioc 0 n, g j := by
  have := sumInt_map_range_sub 0 n g
  rw [← this]
  congr 1
  apply List.map_congr_left
  intro k _
  congr 1
  omega

/-! ### Legendre, Meissel -/

/-- **pi_legendre** (control flow of src/pi_legendre.cpp) returns π(x) for every x, negative x included -/
theorem piLegendre_eq_pi (x : ℤ) : piLegendre x = π x.toNat := by
  unfold piLegendre
  split_ifs with h
  · rw [pi_toNat_of_lt_two h]; rfl
  · have hx : 2 ≤ x.toNat := by omega
    have hs : 1 ≤ isqrtN x.toNat := by rw [isqrtN_eq, Nat.le_sqrt]; omega
    have := NT_legendre_total (ntFor_valid x.toNat (isqrtN x.toNat)) hx
      (ntFor_covers x.toNat (isqrtN x.toNat) hs).hs
    simp only []
    rw [← this]
    have hc := ntFor_covers x.toNat (isqrtN x.toNat) hs
    have h1 : 1 ≤ (ntFor x.toNat (isqrtN x.toNat)).phiOf x.toNat
        ((ntFor x.toNat (isqrtN x.toNat)).piOf (isqrtN x.toNat)) := by
      rw [(ntFor_valid _ _).piOf_eq _ hc.hy, NT.phiOf_eq (ntFor_valid _ _) (Spec.pi_mono hc.hy)]
      exact Spec.one_le_phi _ (by omega)
    omega

/-- **pi_meissel** (control flow of src/pi_meissel.cpp) returns π(x) for every x -/
theorem piMeissel_eq_pi (x : ℤ) : piMeissel x = π x.toNat := by
  unfold piMeissel
  split_ifs with h
  · rw [pi_toNat_of_lt_two h]; rfl
  · have hx : 1 ≤ x.toNat := by omega
    have h3 := irootN_pos (n := 3) (by omega) hx
    have hc := ntFor_covers x.toNat (irootN 3 x.toNat) h3
    exact NT_meissel_total (ntFor_valid x.toNat (irootN 3 x.toNat)) hx hc.hs (hc.div_succ h3)

/-! ### P3 and Lehmer -/

variable {t : NT}

/-- **P3** (the double loop of src/P3.cpp over prime indices with the π table) is the third partial sieve function -/
theorem p3Model_eq (hv : t.Valid) {x y : ℕ} (hs : irootN 3 x ≤ t.bound) (hb : x / (y + 1) ≤ t.bound) :
    p3Model t x y (π y) = (Spec.P3 x (π y) : ℤ) := by
  unfold p3Model
  have hc := (irootN_spec 3 x (by omega)).2
  rw [Spec.P3_sum hc]
  simp only []
  split_ifs with hy
  · rw [hv.piOf_eq _ hs]
    refine (sumInt_map_range_sub (π y) (π (irootN 3 x)) (fun i =>
      sumInt ((List.range (t.piOf (isqrtN (x / t.p i)) + 1 - i)).map fun l =>
        (t.piOf (x / t.p i / t.p (i + l)) : ℤ) - (((i + l : ℕ) : ℤ) - 1)))).trans ?_
    push_cast
    apply Finset.sum_congr rfl
    intro i hi
    rw [mem_Ioc] at hi
    have hi1 : 1 ≤ i := by omega
    have hiB : i ≤ π t.bound := le_trans hi.2 (Spec.pi_mono hs)
    have hq : y < Spec.p i := (Spec.lt_p_iff hi1).2 hi.1
    have hxq : x / Spec.p i ≤ t.bound := le_trans (Nat.div_le_div_left hq (by omega)) hb
    have hsq : Nat.sqrt (x / Spec.p i) ≤ t.bound := le_trans (Nat.sqrt_le_self _) hxq
    rw [hv.p_eq i hi1 hiB, isqrtN_eq, hv.piOf_eq _ hsq]
    refine (sumInt_map_range_Icc i (π (Nat.sqrt (x / Spec.p i))) (fun j =>
        (t.piOf (x / Spec.p i / t.p j) : ℤ) - (((j : ℕ) : ℤ) - 1))).trans ?_
    apply Finset.sum_congr rfl
    intro j hj
    rw [mem_Icc] at hj
    have hj1 : 1 ≤ j := by omega
    have hjB : j ≤ π t.bound := le_trans hj.2 (Spec.pi_mono hsq)
    have hr : Spec.p j ≤ Nat.sqrt (x / Spec.p i) := (Spec.p_le_iff hj1).2 hj.2
    have h2 : j ≤ π (x / Spec.p i / Spec.p j) := by
      rw [← Spec.p_le_iff hj1, Nat.le_div_iff_mul_le (Spec.p_pos j)]
      exact Nat.le_sqrt.1 hr
    rw [hv.p_eq j hj1 hjB, hv.piOf_eq _ (le_trans (Nat.div_le_self _ _) hxq), Nat.cast_sub (by omega),
      Nat.cast_sub hj1]
    push_cast; ring
  · rw [Finset.Ioc_eq_empty (by have := Spec.pi_mono (Nat.le_of_lt (Nat.lt_of_not_le hy)); omega)]; simp

/-- **pi_lehmer** (control flow of src/pi_lehmer.cpp with the P3 loops) returns π(x) for every x -/
theorem piLehmer_eq_pi (x : ℤ) : piLehmer x = π x.toNat := by
  unfold piLehmer
  split_ifs with h
  · rw [pi_toNat_of_lt_two h]; rfl
  · have hx : 1 ≤ x.toNat := by omega
    have h4 := irootN_pos (n := 4) (by omega) hx
    have hv := ntFor_valid x.toNat (irootN 4 x.toNat)
    have hc := ntFor_covers x.toNat (irootN 4 x.toNat) h4
    have := NT_lehmer_total hv hx hc.hs (hc.div_succ h4)
    simp only []
    rw [← this, hv.piOf_eq _ hc.hy, p3Model_eq hv (le_trans (irootN3_le_sqrt _) hc.hs) (hc.div_succ h4),
      NT.P3_eq hv (le_trans (irootN3_le_sqrt _) hc.hs) (hc.div_succ h4)]

/-! ### get_c -/

theorem piSmall_length : Gen.PhiTiny.piSmall.length = 20 := by decide

/-- `get_c(y) ≤ π(y)`: a generated obligation over the 20 entries of `PhiTiny::pi` -/
theorem getC_le_pi (y : ℕ) : getC y ≤ π y := by
  unfold getC
  rw [piSmall_length]
  split_ifs with h
  · interval_cases y <;> decide
  · calc Gen.PhiTiny.maxA = π 19 := by decide
      _ ≤ π y := Spec.pi_mono (by omega)

theorem getC_le_eight (y : ℕ) : getC y ≤ 8 := by
  unfold getC
  rw [piSmall_length]
  split_ifs with h
  · interval_cases y <;> decide
  · decide

theorem one_le_getC {y : ℕ} (hy : 2 ≤ y) : 1 ≤ getC y := by
  unfold getC
  rw [piSmall_length]
  split_ifs with h
  · interval_cases y <;> decide
  · decide

/-- for `y < 20` there is no special-leaf level at all: `get_c(y) = π(y)` -/
theorem getC_eq_pi_of_lt {y : ℕ} (hy : y < 20) : getC y = π y := by
  unfold getC
  rw [piSmall_length, if_pos hy]
  interval_cases y <;> decide

/-! ### the three vectors -/

/-- what `primes`, `lpf`, `mu` have to hold for the parameter `y` -/
structure Tables.Valid (T : Tables) (y : ℕ) : Prop where
  piY : T.piY = π y
  p_zero : T.p 0 = 0
  p_eq : ∀ i, 1 ≤ i → i ≤ π y → T.p i = Spec.p i
  mu_eq : ∀ n, 1 ≤ n → n ≤ y → T.muOf n = μ n
  /-- `lpf[1] = INT32_MAX` exceeds `primes[c]` for every `c ≤ 8` -/
  lpf_one : 1 ≤ y → 19 < T.lpfOf 1
  lpf_eq : ∀ n, 2 ≤ n → n ≤ y → T.lpfOf n = n.minFac

theorem p_le_nineteen {c : ℕ} (hc : c ≤ 8) (h1 : 1 ≤ c) : Spec.p c ≤ 19 := by
  calc Spec.p c ≤ Spec.p 8 := Spec.p_le_p hc
    _ = 19 := Spec.p_eight

/-! ### pi_lmo1 -/

/-- the S1 loop of pi_lmo1.cpp (`lpf[n] > primes[c]`) enumerates `phiSet y c` -/
theorem s1Lmo1_eq {T : Tables} {y : ℕ} (hT : T.Valid y) (hv : t.Valid) {x c : ℕ} (hc : c ≤ π y) (hc8 : c ≤ 8)
    (hyB : y ≤ t.bound) : s1Lmo1 T t x y c = Spec.S1 x y c := by
  unfold s1Lmo1
  have hcB : c ≤ π t.bound := le_trans hc (Spec.pi_mono hyB)
  refine (sumInt_map_range_succ y (fun n =>
    if T.lpfOf n > T.p c then T.muOf n * (t.phiOf (x / n) c : ℤ) else 0)).trans ?_
  rw [Spec.S1_eq_moebius, ← Finset.sum_filter]
  have hset : (Ioc 0 y).filter (fun n => T.lpfOf n > T.p c) = Spec.phiSet y c := by
    ext n
    rw [mem_filter, mem_Ioc]
    rcases Nat.eq_zero_or_pos c with h0 | h1
    · subst h0
      rw [hT.p_zero, Spec.mem_phiSet]
      constructor
      · rintro ⟨⟨h1, h2⟩, _⟩
        exact ⟨⟨h1, h2⟩, fun i hi hi0 => by omega⟩
      · rintro ⟨⟨h1, h2⟩, _⟩
        refine ⟨⟨h1, h2⟩, ?_⟩
        rcases Nat.lt_or_ge n 2 with hn | hn
        · have : n = 1 := by omega
          subst this
          have := hT.lpf_one (by omega); omega
        · rw [hT.lpf_eq n hn h2]
          exact (Nat.minFac_prime (by omega)).pos
    · rw [hT.p_eq c h1 hc, Spec.mem_phiSet_iff_minFac h1]
      constructor
      · rintro ⟨⟨h1', h2⟩, h3⟩
        refine ⟨h1', h2, ?_⟩
        rcases Nat.lt_or_ge n 2 with hn | hn
        · left; omega
        · right; rwa [hT.lpf_eq n hn h2] at h3
      · rintro ⟨h1', h2, h3⟩
        refine ⟨⟨h1', h2⟩, ?_⟩
        rcases Nat.lt_or_ge n 2 with hn | hn
        · have : n = 1 := by omega
          subst this
          have := hT.lpf_one (by omega)
          have := p_le_nineteen hc8 h1
          omega
        · rw [hT.lpf_eq n hn h2]
          rcases h3 with h3 | h3
          · omega
          · exact h3
  rw [hset]
  apply Finset.sum_congr rfl
  intro n hn
  rw [Spec.mem_phiSet] at hn
  rw [hT.mu_eq n hn.1.1 hn.1.2, NT.phiOf_eq hv hcB]

/-- one level of the S2 double loop of pi_lmo1.cpp: `m ∈ (y / p_b, y]` with `lpf[m] > p_b` are exactly the special
    leaves with first prime `p_b` -/
theorem s2Level_eq {T : Tables} {y : ℕ} (hT : T.Valid y) {b : ℕ} (hb1 : 1 ≤ b) (hb : b ≤ π y) (f : ℕ → ℤ) :
    sumInt ((List.range (y - y / Spec.p b)).map fun k =>
        let m := y / Spec.p b + 1 + k
        if T.lpfOf m > Spec.p b then T.muOf m * f m else 0)
      = ∑ m ∈ (Ioc (y / Spec.p b) y).filter (fun n => ∀ q, q.Prime → q ∣ n → b < π q ∧ π q ≤ π y), μ m * f m := by
  refine (sumInt_map_range_sub (y / Spec.p b) y (fun m =>
    if T.lpfOf m > Spec.p b then T.muOf m * f m else 0)).trans ?_
  rw [← Finset.sum_filter]
  have hpy : Spec.p b ≤ y := (Spec.p_le_iff hb1).2 hb
  have hdiv : 1 ≤ y / Spec.p b := (Nat.one_le_div_iff (Spec.p_pos b)).2 hpy
  have hset : (Ioc (y / Spec.p b) y).filter (fun m => T.lpfOf m > Spec.p b)
      = (Ioc (y / Spec.p b) y).filter (fun n => ∀ q, q.Prime → q ∣ n → b < π q ∧ π q ≤ π y) := by
    apply Finset.filter_congr
    intro m hm
    rw [mem_Ioc] at hm
    have hm2 : 2 ≤ m := by omega
    rw [hT.lpf_eq m hm2 hm.2]
    constructor
    · intro h q hq hd
      have h1 : m.minFac ≤ q := Nat.minFac_le_of_dvd hq.two_le hd
      refine ⟨(Spec.lt_pi_iff_p_lt hb1 hq).2 (by omega), Spec.pi_mono ?_⟩
      exact le_trans (Nat.le_of_dvd (by omega) hd) hm.2
    · intro h
      have hq := Nat.minFac_prime (n := m) (by omega)
      exact (Spec.lt_pi_iff_p_lt hb1 hq).1 (h _ hq (Nat.minFac_dvd m)).1
  rw [hset]
  apply Finset.sum_congr rfl
  intro m hm
  rw [mem_filter, mem_Ioc] at hm
  rw [hT.mu_eq m (by omega) hm.1.2]

/-- the S2 double loop of pi_lmo1.cpp IS the special-leaf sum -/
theorem s2Lmo1_eq {T : Tables} {y : ℕ} (hT : T.Valid y) (hv : t.Valid) {x c : ℕ} (hyB : y ≤ t.bound) :
    s2Lmo1 T t x y c T.piY = Spec.S2 x y c := by
  unfold s2Lmo1
  rw [hT.piY, Spec.S2_eq_sum_Ioo]
  congr 1
  have hr : π y - (c + 1) = π y - 1 - c := by omega
  rw [hr]
  refine (sumInt_map_range_sub c (π y - 1) (fun b =>
    sumInt ((List.range (y - y / T.p b)).map fun k =>
      let m := y / T.p b + 1 + k
      if T.lpfOf m > T.p b then T.muOf m * (t.phiOf (x / (T.p b * m)) (b - 1) : ℤ) else 0))).trans ?_
  have hI : Ioc c (π y - 1) = Ioo c (π y) := by
    ext b; rw [mem_Ioc, mem_Ioo]; omega
  rw [hI]
  apply Finset.sum_congr rfl
  intro b hb
  rw [mem_Ioo] at hb
  have hb1 : 1 ≤ b := by omega
  rw [hT.p_eq b hb1 (by omega), Spec.specTerm_eq_moebius]
  refine (s2Level_eq hT hb1 (by omega) (fun m => (t.phiOf (x / (Spec.p b * m)) (b - 1) : ℤ))).trans ?_
  apply Finset.sum_congr rfl
  intro m _
  rw [NT.phiOf_eq hv (le_trans (by omega : b - 1 ≤ π y) (Spec.pi_mono hyB)), Nat.mul_comm]

/-- `pi_lmo1` over ANY valid vectors: `S1 + S2 + π(y) − 1 − P2 = π(x)` with `y = ⌊x^(1/3)⌋`, `c = get_c(y)` -/
theorem lmo1_core {T : Tables} {x : ℕ} (hx : 2 ≤ x) (hT : T.Valid (irootN 3 x)) :
    s1Lmo1 T (ntFor x (irootN 3 x)) x (irootN 3 x) (getC (irootN 3 x))
      + s2Lmo1 T (ntFor x (irootN 3 x)) x (irootN 3 x) (getC (irootN 3 x)) T.piY + (T.piY : ℤ) - 1
      - (ntFor x (irootN 3 x)).P2 x (irootN 3 x) = π x := by
  have h3 := irootN_pos (n := 3) (by omega) (by omega : 1 ≤ x)
  obtain ⟨hr1, hr2⟩ := irootN_spec 3 x (by omega)
  have hv := ntFor_valid x (irootN 3 x)
  have hc := ntFor_covers x (irootN 3 x) h3
  have hyx : irootN 3 x ≤ x := le_trans (irootN3_le_sqrt x) (Nat.sqrt_le_self x)
  rw [s1Lmo1_eq hT hv (getC_le_pi _) (getC_le_eight _) hc.hy, s2Lmo1_eq hT hv hc.hy, hT.piY,
    NT.P2_eq hv hc.hs (hc.div_succ h3)]
  exact (Spec.pi_lmo h3 hyx hr2 (getC_le_pi _)).symm

/-- the vectors the models build (`generate_primes`, `generate_lpf`, `generate_moebius`) are valid -/
theorem tablesFor_valid (y : ℕ) : (tablesFor y).Valid y := by
  have hv := NT.build_valid y
  have hprimes : (tablesFor y).primes = (NT.build y).primes := rfl
  have hp : ∀ i, (tablesFor y).p i = (NT.build y).p i := fun _ => rfl
  refine ⟨?_, ?_, ?_, ?_, ?_, ?_⟩
  · show (NT.build y).primes.size - 1 = π y
    show (#[0] ++ (primesUpTo y).toArray).size - 1 = π y
    rw [primesUpTo_eq_map_nth]
    simp
  · rw [hp]; exact hv.p_zero
  · intro i hi1 hi
    rw [hp]; exact hv.p_eq i hi1 hi
  · intro n hn1 hn
    show (generateMoebius y).getD n 0 = μ n
    rw [Array.getD_eq_getD_getElem?, generateMoebius_correct y n hn1 hn]; rfl
  · intro hy
    show 19 < (generateLpf y).getD 1 0
    rw [Array.getD_eq_getD_getElem?, generateLpf_correct y 1 hy]
    simp [int32Max]
  · intro n hn2 hn
    show (generateLpf y).getD n 0 = n.minFac
    rw [Array.getD_eq_getD_getElem?, generateLpf_correct y n hn, if_neg (by omega), if_neg (by omega)]; rfl

/-- **pi_lmo1** (control flow of src/lmo/pi_lmo1.cpp: μ / lpf tables, S1 loop, S2 double loop calling phi)
    returns π(x) for every x -/
theorem piLmo1_eq_pi (x : ℤ) : piLmo1 x = π x.toNat := by
  unfold piLmo1
  split_ifs with h
  · rw [pi_toNat_of_lt_two h]; rfl
  · exact lmo1_core (by omega) (tablesFor_valid _)

end Pc.SimpleAlgs
