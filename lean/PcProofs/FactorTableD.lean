/-
FactorTableD (C17): second phase (primes > y zero their multiples) and `factorTableD_correct`.
-/
import PcProofs.FactorTableCtor
namespace Pc
open Nat

attribute [local irreducible] ftToNumber ftToIndex

/-! ### FactorTableD: the second phase (primes `> y` zero their multiples) -/

open Classical in
theorem ftdZeroStep_get (low high p : ℕ) (hp13 : 13 ≤ p) (hpp : p.Prime) (hlow : 1 ≤ low) (a : FtArr) (I : ℕ) :
    (ftdZeroStep low high a p)[I]?
      = if (low ≤ ftToNumber I ∧ ftToNumber I ≤ high ∧ p ∣ ftToNumber I) then (a[I]?).map (fun _ => some 0) else a[I]? := by
  unfold ftdZeroStep
  simp only
  rw [ftPass_get p low high 0 (by omega) (c2310_prime hpp hp13) hlow ftZero (fun _ => some 0) I
    (fun a mult => ftZero_get a mult I), exists_cofactor_zero (ftToNumber_spec I).1]
  by_cases hc : low ≤ ftToNumber I ∧ ftToNumber I ≤ high ∧ p ∣ ftToNumber I
  · rw [if_pos hc, if_pos hc]
  · rw [if_neg hc, if_neg hc]

theorem ftdZeroStep_size (low high p : ℕ) (a : FtArr) : (ftdZeroStep low high a p).size = a.size := by
  unfold ftdZeroStep
  simp only
  rw [ftMultLoop_size _ _ _ (fun a m => by simp [ftZero])]

open Classical in
theorem ftdZeroFold_get (low high : ℕ) (hlow : 1 ≤ low) (I : ℕ) : ∀ (ps : List ℕ) (a : FtArr),
    (∀ p ∈ ps, 13 ≤ p ∧ p.Prime) →
    ((ps.foldl (ftdZeroStep low high) a).size = a.size) ∧
    (ps.foldl (ftdZeroStep low high) a)[I]?
      = if (low ≤ ftToNumber I ∧ ftToNumber I ≤ high ∧ ∃ p ∈ ps, p ∣ ftToNumber I)
        then (a[I]?).map (fun _ => some 0) else a[I]? := by
  intro ps
  induction ps with
  | nil => intro a _; simp
  | cons p ps ih =>
    intro a hps
    have hp := hps p (by simp)
    obtain ⟨ih1, ih2⟩ := ih (ftdZeroStep low high a p) (fun q hq => hps q (by simp [hq]))
    rw [List.foldl_cons]
    refine ⟨by rw [ih1, ftdZeroStep_size], ?_⟩
    rw [ih2, ftdZeroStep_get low high p hp.1 hp.2 hlow a I]
    have hex : (∃ q ∈ p :: ps, q ∣ ftToNumber I) ↔ (p ∣ ftToNumber I ∨ ∃ q ∈ ps, q ∣ ftToNumber I) := by
      simp only [List.mem_cons, exists_eq_or_imp]
    generalize a[I]? = o
    by_cases hr : low ≤ ftToNumber I ∧ ftToNumber I ≤ high
    · by_cases hd : p ∣ ftToNumber I
      · by_cases hrest : ∃ q ∈ ps, q ∣ ftToNumber I
        · rw [if_pos ⟨hr.1, hr.2, hrest⟩, if_pos ⟨hr.1, hr.2, hd⟩, if_pos ⟨hr.1, hr.2, hex.2 (Or.inl hd)⟩]
          cases o <;> rfl
        · rw [if_neg (fun h => hrest h.2.2), if_pos ⟨hr.1, hr.2, hd⟩, if_pos ⟨hr.1, hr.2, hex.2 (Or.inl hd)⟩]
      · by_cases hrest : ∃ q ∈ ps, q ∣ ftToNumber I
        · rw [if_pos ⟨hr.1, hr.2, hrest⟩, if_neg (fun h => hd h.2.2), if_pos ⟨hr.1, hr.2, hex.2 (Or.inr hrest)⟩]
        · rw [if_neg (fun h => hrest h.2.2), if_neg (fun h => hd h.2.2), if_neg]
          rintro ⟨_, _, h⟩
          rcases hex.1 h with h' | h'
          · exact hd h'
          · exact hrest h'
    · rw [if_neg (fun h => hr ⟨h.1, h.2.1⟩), if_neg (fun h => hr ⟨h.1, h.2.1⟩), if_neg (fun h => hr ⟨h.1, h.2.1⟩)]

open Classical in
/-- the whole second phase of one thread, seen at entry `I` -/
theorem ftdZeroThread_get (gen : PrimeGen) (hg : PrimeGenSpec gen) (start low high : ℕ) (hstart : 13 ≤ start)
    (hlow : 1 ≤ low) (a : FtArr) (I : ℕ) :
    (ftdZeroThread gen start low high a).size = a.size ∧
    (ftdZeroThread gen start low high a)[I]?
      = if (low ≤ ftToNumber I ∧ ftToNumber I ≤ high ∧ ∃ p, p.Prime ∧ start ≤ p ∧ p ∣ ftToNumber I)
        then (a[I]?).map (fun _ => some 0) else a[I]? := by
  have hpos := ftToNumber_pos I
  unfold ftdZeroThread
  split
  · rename_i hsh
    obtain ⟨h1, h2⟩ := ftdZeroFold_get low high hlow I (gen start (high + 1)) a
      (fun p hp => by have := ((hg _ _).2 p).1 hp; exact ⟨by omega, this.2.2⟩)
    refine ⟨h1, ?_⟩
    rw [h2]
    have hiff : (low ≤ ftToNumber I ∧ ftToNumber I ≤ high ∧ ∃ p ∈ gen start (high + 1), p ∣ ftToNumber I) ↔
        (low ≤ ftToNumber I ∧ ftToNumber I ≤ high ∧ ∃ p, p.Prime ∧ start ≤ p ∧ p ∣ ftToNumber I) := by
      constructor
      · rintro ⟨h1, h2, p, hp, hd⟩
        have := ((hg _ _).2 p).1 hp
        exact ⟨h1, h2, p, this.2.2, this.1, hd⟩
      · rintro ⟨h1, h2, p, hp, hs, hd⟩
        have hle := Nat.le_of_dvd (by omega) hd
        exact ⟨h1, h2, p, ((hg _ _).2 p).2 ⟨hs, by omega, hp⟩, hd⟩
    by_cases hc : low ≤ ftToNumber I ∧ ftToNumber I ≤ high ∧ ∃ p ∈ gen start (high + 1), p ∣ ftToNumber I
    · rw [if_pos hc, if_pos (hiff.1 hc)]
    · rw [if_neg hc, if_neg (fun h => hc (hiff.2 h))]
  · rename_i hsh
    refine ⟨rfl, ?_⟩
    rw [if_neg]
    rintro ⟨_, h2, p, _, hs, hd⟩
    have hle := Nat.le_of_dvd (by omega) hd
    omega


/-- the FactorTableD thread body = the FactorTable thread body followed by the second phase -/
theorem ftdThreadStep_eq (gen : PrimeGen) (tmax z td sqrtz start : ℕ) (a : FtArr) (t : ℕ) :
    ftdThreadStep gen tmax z td sqrtz start a t
      = if (ftThreadRange z td t).1 ≤ (ftThreadRange z td t).2
        then ftdZeroThread gen start (ftThreadRange z td t).1 (ftThreadRange z td t).2 (ftThreadStep gen tmax z td sqrtz a t)
        else a := by
  unfold ftdThreadStep ftThreadStep
  simp only
  split <;> rfl

open Classical in
/-- what FactorTableD stores for `n`: 0 when `n` has a prime factor `≥ start` (`start = max(13, y + 1)`, i.e. a
    prime factor `> y`), else the FactorTable encoding -/
noncomputable def ftdSpec (tmax start n : ℕ) : ℕ :=
  if (∃ p, p.Prime ∧ start ≤ p ∧ p ∣ n) then 0 else ftSpec tmax n

theorem ftdThreadStep_size (gen : PrimeGen) (hg : PrimeGenSpec gen) (tmax z td sqrtz start : ℕ) (hstart : 13 ≤ start)
    (a : FtArr) (t : ℕ) : (ftdThreadStep gen tmax z td sqrtz start a t).size = a.size := by
  rw [ftdThreadStep_eq]
  split
  · rw [(ftdZeroThread_get gen hg start _ _ hstart (by unfold ftThreadRange; simp only; rw [ftFirstCoprime_eq]; omega) _ 0).1,
      ftThreadStep_size gen hg]
  · rfl

theorem ftdThreadStep_outside (gen : PrimeGen) (hg : PrimeGenSpec gen) (tmax z td sqrtz start : ℕ) (hstart : 13 ≤ start)
    (a : FtArr) (t I : ℕ) (hlowc : C2310 (ftThreadRange z td t).1)
    (hout : ¬ ((ftThreadRange z td t).1 ≤ ftToNumber I ∧ ftToNumber I ≤ (ftThreadRange z td t).2)) :
    (ftdThreadStep gen tmax z td sqrtz start a t)[I]? = a[I]? := by
  rw [ftdThreadStep_eq]
  split
  · rw [(ftdZeroThread_get gen hg start _ _ hstart (by unfold ftThreadRange; simp only; rw [ftFirstCoprime_eq]; omega) _ I).2,
      if_neg (fun h => hout ⟨h.1, h.2.1⟩), ftThreadStep_outside gen hg tmax z td sqrtz a t I hlowc hout]
  · rfl

theorem ftdThreadStep_inside (gen : PrimeGen) (hg : PrimeGenSpec gen) (tmax z td start : ℕ) (hstart : 13 ≤ start)
    (hz : z ≤ ftMax tmax) (htm : 2 ≤ tmax) (a : FtArr) (t I : ℕ)
    (hlowc : C2310 (ftThreadRange z td t).1)
    (hin : (ftThreadRange z td t).1 ≤ ftToNumber I ∧ ftToNumber I ≤ (ftThreadRange z td t).2)
    (hsz : I < a.size) :
    (ftdThreadStep gen tmax z td (Nat.sqrt z) start a t)[I]? = some (some (ftdSpec tmax start (ftToNumber I))) := by
  rw [ftdThreadStep_eq, if_pos (by omega),
    (ftdZeroThread_get gen hg start _ _ hstart (by unfold ftThreadRange; simp only; rw [ftFirstCoprime_eq]; omega) _ I).2,
    ftThreadStep_inside gen hg tmax z td hz htm a t I hlowc hin hsz]
  unfold ftdSpec
  by_cases hc : ∃ p, p.Prime ∧ start ≤ p ∧ p ∣ ftToNumber I
  · rw [if_pos ⟨hin.1, hin.2, hc⟩, if_pos hc]; rfl
  · rw [if_neg (fun h => hc h.2.2), if_neg hc]

/-- **C17 (FactorTableD)**: for every `z ≤ max()`, every `y`, every thread count and every `n ≤ z` coprime to
    2·3·5·7·11: `is_leaf(to_index(n))` has been written and is 0 when `n` has a prime factor `> y` (in
    particular for primes `> y`), else the FactorTable encoding of (μ(n), lpf(n)). -/
theorem factorTableD_correct (gen : PrimeGen) (hg : PrimeGenSpec gen) (tmax : ℕ) (htm : 3 ≤ tmax) (hodd : tmax % 2 = 1)
    (y z threads : ℤ) (hz : z ≤ ftMax tmax) :
    ∃ a, factorTableDNew gen tmax y z threads = some a ∧
      a.size = (ftToIndex (max 1 z).toNat).toNat + 1 ∧
      ∀ n, C2310 n → n ≤ (max 1 z).toNat →
        a[(ftToIndex n).toNat]? = some (some (ftdSpec tmax (max (13 : ℤ) (y + 1)).toNat n)) := by
  unfold factorTableDNew
  rw [if_neg (by omega), ftFirstCoprime_eq]
  simp only
  have hstart : 13 ≤ (max ((13 : ℕ) : ℤ) (y + 1)).toNat := by
    have := le_max_left ((13 : ℕ) : ℤ) (y + 1); omega
  generalize (max ((13 : ℕ) : ℤ) (y + 1)).toNat = start at *
  have hmaxpos : 3 ≤ ftMax tmax := by
    unfold ftMax
    have : 2 ≤ tmax - 1 := by omega
    have := Nat.mul_le_mul this this
    omega
  have hY1 : 1 ≤ (max 1 z).toNat := by have := le_max_left (1 : ℤ) z; omega
  have hYmax : (max 1 z).toNat ≤ ftMax tmax := by
    rcases max_cases (1 : ℤ) z with ⟨h, _⟩ | ⟨h, _⟩ <;> rw [h] <;> omega
  generalize (max 1 z).toNat = Y at *
  obtain ⟨hthr, h2310, hcov, htd⟩ := ftThreadParams_spec Y threads
  generalize (ftThreadParams Y threads).1 = thr at *
  generalize (ftThreadParams Y threads).2 = td at *
  set a0 : FtArr := (Array.replicate ((ftToIndex Y).toNat + 1) none).setIfInBounds 0 (some (tmax ^^^ 1)) with ha0
  have hsz0 : a0.size = (ftToIndex Y).toNat + 1 := by simp [ha0]
  have hsize : ∀ n, ((List.range n).foldl (ftdThreadStep gen tmax Y td (Nat.sqrt Y) start) a0).size = a0.size := by
    intro n
    induction n with
    | zero => rfl
    | succ n ih =>
      rw [List.range_succ, List.foldl_append, List.foldl_cons, List.foldl_nil, ftdThreadStep_size gen hg _ _ _ _ _ hstart, ih]
  refine ⟨_, rfl, by rw [hsize, hsz0], ?_⟩
  intro n hn hnY
  have hlowc := fun t => ftThreadRange_low_coprime Y td t h2310
  have hn1 : 1 ≤ n := by
    rcases Nat.eq_zero_or_pos n with h | h
    · rw [h] at hn; exact absurd hn (by decide)
    · exact h
  have hI : ftToNumber (ftToIndex n).toNat = n := ftToNumber_toIndex n hn
  have hIsz : (ftToIndex n).toNat < a0.size := by
    rw [hsz0]
    have := (le_ftToIndex_iff Y hY1 (ftToIndex n).toNat).2 (by rw [hI]; exact hnY)
    omega
  by_cases h1 : n = 1
  · subst h1
    have hout : ∀ k, ((List.range k).foldl (ftdThreadStep gen tmax Y td (Nat.sqrt Y) start) a0)[(ftToIndex 1).toNat]?
        = a0[(ftToIndex 1).toNat]? := by
      intro k
      induction k with
      | zero => rfl
      | succ k ih =>
        rw [List.range_succ, List.foldl_append, List.foldl_cons, List.foldl_nil,
          ftdThreadStep_outside gen hg tmax Y td _ start hstart _ k _ (hlowc k), ih]
        rw [hI]
        unfold ftThreadRange
        simp only
        rw [ftFirstCoprime_eq]
        omega
    have hspec : ftdSpec tmax start 1 = tmax - 1 := by
      unfold ftdSpec
      rw [if_neg, ftSpec_one]
      rintro ⟨p, hp, _, hd⟩
      have := Nat.le_of_dvd (by omega) hd
      have := hp.two_le
      omega
    rw [hout, ftToIndex_one, ha0, Array.getElem?_setIfInBounds, if_pos rfl, if_pos (by simp), hspec,
      Nat.xor_one_of_odd (Nat.odd_iff.2 hodd)]
  · have h13 : 13 ≤ n := c2310_ge_13 (by omega) (fun p hp hd => c2310_prime_factor_ge hn hp hd)
    set I := (ftToIndex n).toNat with hIdef
    set t := (n - 1) / td with htdef
    have ht1 : td * t ≤ n - 1 := Nat.mul_div_le _ _
    have ht2 : n - 1 < td * (t + 1) := Nat.lt_mul_div_succ _ htd
    rw [Nat.mul_add, Nat.mul_one] at ht2
    have htthr : t < thr := by
      have : td * t < td * thr := by omega
      exact Nat.lt_of_mul_lt_mul_left this
    have hin : (ftThreadRange Y td t).1 ≤ ftToNumber I ∧ ftToNumber I ≤ (ftThreadRange Y td t).2 := by
      rw [hI]
      unfold ftThreadRange
      simp only
      rw [ftFirstCoprime_eq]
      omega
    have hframe : ∀ (s : FtArr) t', t' ≠ t →
        (fun s : FtArr => (s.size, s[I]?)) (ftdThreadStep gen tmax Y td (Nat.sqrt Y) start s t')
          = (fun s : FtArr => (s.size, s[I]?)) s := by
      intro s t' hne
      simp only
      rw [ftdThreadStep_size gen hg _ _ _ _ _ hstart, ftdThreadStep_outside gen hg tmax Y td _ start hstart s t' I (hlowc t')]
      rw [hI]
      unfold ftThreadRange
      simp only
      rw [ftFirstCoprime_eq]
      intro hc
      apply hne
      have e1 : td * t' ≤ n - 1 := by omega
      have e2 : n - 1 < td * t' + td := by omega
      have e3 : t' * td = td * t' := Nat.mul_comm _ _
      rw [htdef]
      symm
      apply Nat.div_eq_of_lt_le
      · omega
      · rw [Nat.add_mul, Nat.one_mul]; omega
    have hfin := foldl_range_frame (ftdThreadStep gen tmax Y td (Nat.sqrt Y) start) (fun s : FtArr => (s.size, s[I]?)) t hframe thr a0
    rw [if_pos htthr] at hfin
    have hpre := foldl_range_frame (ftdThreadStep gen tmax Y td (Nat.sqrt Y) start) (fun s : FtArr => (s.size, s[I]?)) t hframe t a0
    rw [if_neg (Nat.lt_irrefl t)] at hpre
    have hszpre : I < ((List.range t).foldl (ftdThreadStep gen tmax Y td (Nat.sqrt Y) start) a0).size := by
      have := congrArg Prod.fst hpre
      simp only at this
      rw [this]; exact hIsz
    have := congrArg Prod.snd hfin
    simp only at this
    rw [this, ftdThreadStep_inside gen hg tmax Y td start hstart hYmax (by omega) _ t I (hlowc t) hin hszpre, hI]

end Pc
