/-
WP close, C06: `nth_prime` under BOUNDED callee contracts.

`NthEnv.Correct` (PcProofs/NthPrime.lean) asks the iterator contract `PrimeIter.Spec` at ALL positions and `env.pi x = π x` for
ALL `x`. Neither can be met by the real callees: `primesieve::iterator::next_prime()` throws past the last 64-bit prime
(PcProofs/CloseIterPrime.lean `no_prime_above_maxPrime64`), and `pi(int64_t)` only takes arguments `< 2^63`.

* `PrimeIter.SpecTo it N` / `NthEnv.CorrectTo env N` : the same contracts restricted to positions / arguments `≤ N`.
* `PrimeIter.patch it N`, `NthEnv.patch env N`      : the callees of `env` up to `N`, the specification objects above.
* `patch_spec`, `patch_correct`                     : the patched environment meets the UNBOUNDED contracts.
* `walkFwd_patch`, `walkBwd_patch`, `walk_patch`    : the walk never queries a position above `max (p n) approx`
                                                      (forward: all positions `≤ p n`; backward: all positions `≤ approx`),
                                                      so it cannot tell `it` from `it.patch N`.
* `nthPrime_ok_to`                                  : `nthPrime env n = p n` from `env.CorrectTo N`, `approx n ≤ N`, `p n ≤ N`.
-/
import PcProofs.NthPrime

namespace Pc

open Nat

local notation "π" => Nat.primeCounting
local notation "hInf" => Nat.infinite_setOfPred_prime

/-- `PrimeIter.Spec` restricted to the positions `s ≤ N` -/
structure PrimeIter.SpecTo (it : PrimeIter) (N : ℕ) : Prop where
  next_prime : ∀ s, s ≤ N → (it.nextGe s).Prime
  next_ge : ∀ s, s ≤ N → s ≤ it.nextGe s
  next_min : ∀ s m, s ≤ N → s ≤ m → m < it.nextGe s → ¬ m.Prime
  prev_prime : ∀ s, s ≤ N → 2 ≤ s → (it.prevLe s).Prime
  prev_le : ∀ s, s ≤ N → 2 ≤ s → it.prevLe s ≤ s
  prev_max : ∀ s m, s ≤ N → 2 ≤ s → it.prevLe s < m → m ≤ s → ¬ m.Prime

theorem PrimeIter.Spec.to {it : PrimeIter} (h : it.Spec) (N : ℕ) : it.SpecTo N :=
  ⟨fun s _ => h.next_prime s, fun s _ => h.next_ge s, fun s m _ => h.next_min s m, fun s _ => h.prev_prime s,
    fun s _ => h.prev_le s, fun s m _ => h.prev_max s m⟩

theorem PrimeIter.SpecTo.mono {it : PrimeIter} {N M : ℕ} (h : it.SpecTo N) (hM : M ≤ N) : it.SpecTo M :=
  ⟨fun s hs => h.next_prime s (by omega), fun s hs => h.next_ge s (by omega), fun s m hs => h.next_min s m (by omega),
    fun s hs => h.prev_prime s (by omega), fun s hs => h.prev_le s (by omega), fun s m hs => h.prev_max s m (by omega)⟩

/-- what the theorems assume about the callees of `nth_prime`, up to `N` only -/
structure NthEnv.CorrectTo (env : NthEnv) (N : ℕ) : Prop where
  /-- C18: the prime iterator enumerates primes in order, when positioned at `s ≤ N` -/
  iter : env.it.SpecTo N
  /-- C01: `primecount::pi(x)` is π for `x ≤ N` -/
  pi : ∀ x, x ≤ N → env.pi x = π x
  /-- C17: `PiTable::pi_cache(x) = π x` for `x ≤ max_cached()` -/
  piCache : ∀ m ≤ Gen.nthPrimeMaxCached, env.piCache m = π m

theorem NthEnv.Correct.to {env : NthEnv} (h : env.Correct) (N : ℕ) : env.CorrectTo N :=
  ⟨h.iter.to N, fun x _ => h.pi x, h.piCache⟩

/-! ### the patch -/

/-- `it` at the positions `≤ N`, the specification iterator above -/
noncomputable def PrimeIter.patch (it : PrimeIter) (N : ℕ) : PrimeIter where
  nextGe s := if s ≤ N then it.nextGe s else specIter.nextGe s
  prevLe s := if s ≤ N then it.prevLe s else specIter.prevLe s

theorem PrimeIter.patch_nextGe_le (it : PrimeIter) {N s : ℕ} (h : s ≤ N) : (it.patch N).nextGe s = it.nextGe s := if_pos h
theorem PrimeIter.patch_prevLe_le (it : PrimeIter) {N s : ℕ} (h : s ≤ N) : (it.patch N).prevLe s = it.prevLe s := if_pos h

theorem PrimeIter.patch_nextGe_gt (it : PrimeIter) {N s : ℕ} (h : ¬ s ≤ N) : (it.patch N).nextGe s = specIter.nextGe s :=
  if_neg h
theorem PrimeIter.patch_prevLe_gt (it : PrimeIter) {N s : ℕ} (h : ¬ s ≤ N) : (it.patch N).prevLe s = specIter.prevLe s :=
  if_neg h

theorem PrimeIter.patch_spec {it : PrimeIter} {N : ℕ} (h : it.SpecTo N) : (it.patch N).Spec := by
  refine ⟨fun s => ?_, fun s => ?_, fun s m => ?_, fun s => ?_, fun s => ?_, fun s m => ?_⟩ <;>
    by_cases hs : s ≤ N
  · rw [patch_nextGe_le it hs]; exact h.next_prime s hs
  · rw [patch_nextGe_gt it hs]; exact specIter_spec.next_prime s
  · rw [patch_nextGe_le it hs]; exact h.next_ge s hs
  · rw [patch_nextGe_gt it hs]; exact specIter_spec.next_ge s
  · rw [patch_nextGe_le it hs]; exact h.next_min s m hs
  · rw [patch_nextGe_gt it hs]; exact specIter_spec.next_min s m
  · rw [patch_prevLe_le it hs]; exact h.prev_prime s hs
  · rw [patch_prevLe_gt it hs]; exact specIter_spec.prev_prime s
  · rw [patch_prevLe_le it hs]; exact h.prev_le s hs
  · rw [patch_prevLe_gt it hs]; exact specIter_spec.prev_le s
  · rw [patch_prevLe_le it hs]; exact h.prev_max s m hs
  · rw [patch_prevLe_gt it hs]; exact specIter_spec.prev_max s m

/-- the callees of `env` up to `N`, the specification objects (`specIter`, `π`) above -/
noncomputable def NthEnv.patch (env : NthEnv) (N : ℕ) : NthEnv where
  approx := env.approx
  pi x := if x ≤ N then env.pi x else π x
  piCache := env.piCache
  it := env.it.patch N

theorem NthEnv.patch_correct {env : NthEnv} {N : ℕ} (h : env.CorrectTo N) : (env.patch N).Correct := by
  refine ⟨PrimeIter.patch_spec h.iter, fun x => ?_, h.piCache⟩
  show (if x ≤ N then env.pi x else π x) = π x
  split_ifs with hx
  · exact h.pi x hx
  · rfl

/-! ### the positions of the walk -/

/-- **forward walk**: `k` calls of `next_prime()` from position `s` only query positions `≤` the `k`-th prime `≥ s` -/
theorem walkFwd_patch {it : PrimeIter} {N : ℕ} (hit : it.SpecTo N) :
    ∀ k s (init : ℤ), (k ≠ 0 → Nat.nth Nat.Prime (Nat.count Nat.Prime s + k - 1) ≤ N) →
      walkFwd it k s init = walkFwd (it.patch N) k s init := by
  intro k
  induction k with
  | zero => intro s init _; rfl
  | succ k ih =>
    intro s init hN
    have hN := hN (Nat.succ_ne_zero k)
    have hsN : s ≤ N := by
      calc s ≤ Nat.nth Nat.Prime (Nat.count Nat.Prime s) := Nat.le_nth_count hInf s
        _ ≤ Nat.nth Nat.Prime (Nat.count Nat.Prime s + (k + 1) - 1) := Nat.nth_monotone hInf (by omega)
        _ ≤ N := hN
    have hq : it.nextGe s = Nat.nth Nat.Prime (Nat.count Nat.Prime s) :=
      nthp_next_eq_nth (hit.next_ge s hsN) (hit.next_prime s hsN) (fun m => hit.next_min s m hsN)
    have hc : Nat.count Nat.Prime (it.nextGe s + 1) = Nat.count Nat.Prime s + 1 := by
      rw [hq]; exact Nat.count_nth_succ_of_infinite hInf _
    rw [walkFwd, walkFwd, PrimeIter.patch_nextGe_le it hsN]
    refine ih _ _ (fun _ => ?_)
    rw [hc]
    have : Nat.count Nat.Prime s + 1 + k - 1 = Nat.count Nat.Prime s + (k + 1) - 1 := by omega
    rw [this]; exact hN

/-- **backward walk**: `k ≤ π s` calls of `prev_prime()` from position `s` only query positions `≤ s` -/
theorem walkBwd_patch {it : PrimeIter} {N : ℕ} (hit : it.SpecTo N) :
    ∀ k s (init : ℤ), k ≤ π s → s ≤ N → walkBwd it k s init = walkBwd (it.patch N) k s init := by
  intro k
  induction k with
  | zero => intro s init _ _; rfl
  | succ k ih =>
    intro s init hk hsN
    have hs : 2 ≤ s := nthp_one_le_pi_iff.1 (by omega)
    have hle := hit.prev_le s hsN hs
    obtain ⟨hr, _⟩ := nthp_prev_eq_nth hle (hit.prev_prime s hsN hs) (fun m => hit.prev_max s m hsN hs)
    have hpi : π (it.prevLe s - 1) = π s - 1 := by
      rw [Nat.primeCounting_sub_one, hr]
      exact Nat.primeCounting'_nth_eq _
    rw [walkBwd, walkBwd, PrimeIter.patch_prevLe_le it hsN]
    exact ih _ _ (by rw [hpi]; omega) (by omega)

/-- the walk of nth_prime.cpp:104–128 from `approx` with `count_approx = π approx`: every position it puts the iterator at is
    `≤ p n` (forward, taken iff `approx < p n`) resp. `≤ approx` (backward, taken iff `p n ≤ approx`) -/
theorem walk_patch {it : PrimeIter} {N : ℕ} (hit : it.SpecTo N) (approx n : ℕ) (hn : 1 ≤ n) (ha : approx ≤ N)
    (hp : Spec.p n ≤ N) : walk it approx n (π approx) = walk (it.patch N) approx n (π approx) := by
  unfold walk
  split_ifs with h
  · refine walkFwd_patch hit _ _ _ (fun _ => ?_)
    rw [← nthp_pi_eq_count]
    have : π approx + (n - π approx) - 1 = n - 1 := by omega
    rw [this, ← nthp_p_eq_nth]; exact hp
  · exact walkBwd_patch hit _ _ _ (by omega) ha

/-- the bounded version of `walk_eq` -/
theorem walk_eq_to {it : PrimeIter} {N : ℕ} (hit : it.SpecTo N) (approx n : ℕ) (hn : 1 ≤ n) (ha : approx ≤ N)
    (hp : Spec.p n ≤ N) : walk it approx n (π approx) = ((Spec.p n : ℕ) : ℤ) := by
  rw [walk_patch hit approx n hn ha hp]
  exact walk_eq _ (PrimeIter.patch_spec hit) approx n hn

/-- `nthPrime` cannot tell `env` from `env.patch N` when the approximation and the target are `≤ N`
    (the only calls are `pi(approx)`, `pi_cache(·)`, and the walk) -/
theorem nthPrime_patch {env : NthEnv} {N : ℕ} (henv : env.CorrectTo N) (n : ℕ) (h1 : 1 ≤ n)
    (ha : env.approx n ≤ N) (hp : Spec.p n ≤ N) : nthPrime env (n : ℤ) = nthPrime (env.patch N) (n : ℤ) := by
  unfold nthPrime
  simp only [Int.toNat_natCast]
  have hpi : (env.patch N).pi ((env.patch N).approx n) = env.pi (env.approx n) := by
    show (if env.approx n ≤ N then env.pi (env.approx n) else _) = _
    rw [if_pos ha]
  rw [hpi]
  show _ = if (n : ℤ) < 1 then _ else if (n : ℤ) > _ then _ else if n < _ then _ else if n ≤ env.piCache _ then
    Except.ok ((bsearch env.piCache Gen.nthPrimeMaxCached n : ℕ) : ℤ) else Except.ok (walk (env.it.patch N) (env.approx n) n _)
  rw [henv.pi _ ha, walk_patch henv.iter _ n h1 ha hp]

/-- **`nth_prime(n)` is the n-th prime under the bounded contracts**: callees correct up to `N` (`env.CorrectTo N`),
    `RiemannR_inverse(n) ≤ N` and `p n ≤ N` -/
theorem nthPrime_ok_to (env : NthEnv) (N : ℕ) (henv : env.CorrectTo N) (n : ℕ) (h1 : 1 ≤ n) (h2 : n ≤ Gen.nthPrimeMaxN)
    (ha : env.approx n ≤ N) (hp : Spec.p n ≤ N) : nthPrime env (n : ℤ) = .ok ((Spec.p n : ℕ) : ℤ) := by
  rw [nthPrime_patch henv n h1 ha hp]
  exact nthPrime_ok _ (NthEnv.patch_correct henv) n h1 h2

end Pc
