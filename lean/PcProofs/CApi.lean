/-
Helper lemmas for C14 (C API model, PcModel/CApi.lean): stores into the caller's buffer.
-/
import PcModel.CApi
import PcGen.CApiObl

namespace Pc

theorem applyWrites_append (buf : List Nat) (a b : List BufWrite) :
    applyWrites buf (a ++ b) = applyWrites (applyWrites buf a) b := by
  induction a generalizing buf with
  | nil => rfl
  | cons w ws ih => simp [applyWrites, ih]

theorem applyWrites_length (buf : List Nat) (ws : List BufWrite) :
    (applyWrites buf ws).length = buf.length := by
  induction ws generalizing buf with
  | nil => rfl
  | cons w ws ih => simp [applyWrites, ih]

/-- a position that no store addresses keeps its byte -/
theorem applyWrites_untouched (buf : List Nat) (ws : List BufWrite) (i : Nat)
    (h : ∀ w ∈ ws, w.1 ≠ i) : (applyWrites buf ws)[i]? = buf[i]? := by
  induction ws generalizing buf with
  | nil => rfl
  | cons w ws ih =>
    have hw : w.1 ≠ i := h w (by simp)
    have := ih (buf.set w.1 w.2) (fun w' hw' => h w' (by simp [hw']))
    simp only [applyWrites, this]
    exact List.getElem?_set_ne hw

theorem copyWrites_index (k : Nat) (ds : List Nat) (w : BufWrite) (hw : w ∈ copyWrites k ds) :
    k ≤ w.1 ∧ w.1 < k + ds.length := by
  induction ds generalizing k with
  | nil => simp [copyWrites] at hw
  | cons d ds ih =>
    simp only [copyWrites, List.mem_cons] at hw
    rcases hw with rfl | hw
    · simp
    · have := ih (k + 1) hw
      simp only [List.length_cons]
      omega

/-- `pix.copy(res + k, ...)` puts `ds[j]` at position `k + j` -/
theorem applyWrites_copy (buf : List Nat) (k : Nat) (ds : List Nat) (j : Nat)
    (hj : j < ds.length) (hk : k + j < buf.length) :
    (applyWrites buf (copyWrites k ds))[k + j]? = ds[j]? := by
  induction ds generalizing buf k j with
  | nil => simp at hj
  | cons d ds ih =>
    simp only [copyWrites, applyWrites]
    cases j with
    | zero =>
      have hun := applyWrites_untouched (buf.set k d) (copyWrites (k + 1) ds) k
        (fun w hw => by have := copyWrites_index (k + 1) ds w hw; omega)
      simp only [Nat.add_zero] at hk ⊢
      rw [hun]
      simp [List.getElem?_set_self hk]
    | succ j =>
      have hj' : j < ds.length := by simpa using hj
      have := ih (buf.set k d) (k + 1) j hj' (by simp; omega)
      have e : k + (j + 1) = k + 1 + j := by omega
      rw [e, this]
      simp

/-- the buffer after a successful call: digits, NUL, the rest as before -/
theorem applyWrites_success (buf : List Nat) (pix : List Nat) (h : pix.length + 1 ≤ buf.length) :
    let buf' := applyWrites buf (copyWrites 0 pix ++ [(pix.length, 0)])
    buf'.length = buf.length ∧ (∀ i, i < pix.length → buf'[i]? = pix[i]?) ∧
      buf'[pix.length]? = some 0 ∧ (∀ i, pix.length < i → buf'[i]? = buf[i]?) := by
  intro buf'
  have hb : buf' = (applyWrites buf (copyWrites 0 pix)).set pix.length 0 := by
    simp [buf', applyWrites_append, applyWrites]
  refine ⟨by simp [buf', applyWrites_length], ?_, ?_, ?_⟩
  · intro i hi
    rw [hb, List.getElem?_set_ne (by omega)]
    have := applyWrites_copy buf 0 pix i hi (by omega)
    simpa using this
  · rw [hb]
    exact List.getElem?_set_self (by rw [applyWrites_length]; omega)
  · intro i hi
    rw [hb, List.getElem?_set_ne (by omega)]
    exact applyWrites_untouched _ _ _ (fun w hw => by have := copyWrites_index 0 pix w hw; omega)

theorem toCInt_small (n : Nat) (h : n < 2 ^ 31) : toCInt n = (n : Int) := by
  unfold toCInt
  apply Int.bmod_eq_of_le <;> omega

/-- the four ways the `try` block of primecount_pi_str is left by an exception, as a proposition -/
def PiStrFails {ε : Type} (x? : Option (List Nat)) (res? : Option (List Nat)) (len : Nat)
    (piStr : List Nat → Except ε (List Nat)) : Prop :=
  x? = none ∨ res? = none ∨ (∃ x e, x? = some x ∧ piStr x = .error e) ∨
    (∃ x d, x? = some x ∧ piStr x = .ok d ∧ len < d.length + 1)

/-- case analysis of the `try` block -/
theorem cPiStrTry_cases {ε : Type} (x? : Option (List Nat)) (res? : Option (List Nat)) (len : Nat)
    (piStr : List Nat → Except ε (List Nat)) :
    (PiStrFails x? res? len piStr ∧ ∃ f, cPiStrTry x? res? len piStr = .error f) ∨
    (∃ x buf d, x? = some x ∧ res? = some buf ∧ piStr x = .ok d ∧ d.length + 1 ≤ len ∧
      cPiStrTry x? res? len piStr = .ok (d.length, copyWrites 0 d ++ [(d.length, 0)])) := by
  unfold cPiStrTry PiStrFails
  cases x? with
  | none => left; exact ⟨Or.inl rfl, _, rfl⟩
  | some x =>
    cases res? with
    | none => left; exact ⟨Or.inr (Or.inl rfl), _, rfl⟩
    | some buf =>
      cases hp : piStr x with
      | error e =>
        left
        refine ⟨Or.inr (Or.inr (Or.inl ⟨x, e, rfl, hp⟩)), .cpp e, ?_⟩
        simp [hp]
      | ok d =>
        by_cases hl : len < d.length + 1
        · left
          refine ⟨Or.inr (Or.inr (Or.inr ⟨x, d, rfl, hp, hl⟩)), .tooSmall, ?_⟩
          simp [hp, hl]
        · right
          refine ⟨x, buf, d, rfl, rfl, hp, by omega, ?_⟩
          simp [hp, hl]

/-- in the success case none of the failure conditions holds -/
theorem not_fails_of_success {ε : Type} (x? : Option (List Nat)) (res? : Option (List Nat)) (len : Nat)
    (piStr : List Nat → Except ε (List Nat)) (x buf d : List Nat)
    (hx : x? = some x) (hr : res? = some buf) (hp : piStr x = .ok d) (hl : d.length + 1 ≤ len) :
    ¬ PiStrFails x? res? len piStr := by
  unfold PiStrFails
  rintro (h | h | ⟨x', e, h1, h2⟩ | ⟨x', d', h1, h2, h3⟩)
  · simp [hx] at h
  · simp [hr] at h
  · rw [hx] at h1; cases h1; rw [hp] at h2; cases h2
  · rw [hx] at h1; cases h1; rw [hp] at h2; cases h2; omega

end Pc
