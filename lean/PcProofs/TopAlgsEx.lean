/-
WP top: the hypotheses of the headline theorems are satisfiable — ideal tables meeting every contract of `TablesOK` (for every
bound), and a concrete non-trivial execution of `pi_deleglise_rivat_64` (x = 10^5, y = 46, c = 8, levels 9..14) meeting `DrExec`.
-/
import PcProofs.TopAlgsApi
import PcProofs.HardExamples
import PcProofs.P2LoopEx
import PcProofs.Dispenser

namespace Pc.Top
open Nat Finset Pc.LB Pc.Hard
open scoped Nat.Prime

attribute [local irreducible] ftToNumber ftToIndex

/-- FactorTableD holding exactly the specified values -/
noncomputable def idealEnvD (tmax y z : ℕ) : Env :=
  { idealEnv y tmax z with factor := fun I => ftdSpec tmax (max 13 (y + 1)) (ftToNumber I) }

theorem idealEnvD_ok (tmax y z : ℕ) : EnvOK (idealEnvD tmax y z) y := by
  have h := idealEnv_ok y tmax z
  exact ⟨h.primes_zero, h.primesSize, h.primes_eq, h.piMax, h.pi_eq, h.phiVec_size, h.phiVec_eq⟩

theorem idealEnvD_factor_ok (tmax y z : ℕ) (hodd : tmax % 2 = 1) (hbig : Nat.sqrt z + 1 < tmax) :
    FactorDOK (idealEnvD tmax y z) tmax y z where
  size := rfl
  val := fun n hn _ => by
    show ftdSpec tmax (max 13 (y + 1)) (ftToNumber (toIndex n)) = ftdSpec tmax (max 13 (y + 1)) n
    have : ftToNumber (toIndex n) = n := ftToNumber_toIndex n hn
    rw [this]
  odd := hodd
  big := hbig

/-- ideal objects: the sieve-built prime table, the reference iterator, the generated balancer constants, the `Array Bool`
    reference sieve, ideal FactorTable / FactorTableD / phi_vector contents -/
noncomputable def idealTables (N : ℕ) : Tables RefSieve where
  t := NT.build N
  it := P2L.refIter
  lc := genConsts
  S := refSieve (fun i => if i = 0 then 0 else Spec.p i)
  hardEnv := fun y z => idealEnv (min y (z / Nat.sqrt y)) (2 * Nat.sqrt y + 5) y
  dEnv := fun y z => idealEnvD (2 * Nat.sqrt z + 5) y z

theorem idealTables_ok (N B : ℕ) : TablesOK (idealTables N) B where
  valid := NT.build_valid N
  iter := P2L.refIter_spec
  consts := genConsts_wf
  sieve := fun K _ =>
    ⟨(show SieveSpec (refSieve (fun i => if i = 0 then 0 else Spec.p i)) K from
        refSieve_spec (fun i => if i = 0 then 0 else Spec.p i) K (fun i h1 _ => if_neg (by omega))),
      fun _ _ _ _ _ => trivial⟩
  hardEnv := fun y z _ => idealEnv_ok _ _ _
  hardFactor := fun y z _ => ⟨_, idealEnv_factor_ok _ _ _ (by omega) (by omega)⟩
  dEnv := fun y z _ => idealEnvD_ok _ _ _
  dFactor := fun y z _ => ⟨_, idealEnvD_factor_ok _ _ _ (by omega) (by omega)⟩

/-! ### one execution of `pi_deleglise_rivat_64(100000)` under alpha = 1 -/

def exDrFloats : DFloats := { maxX := 9903520314283042199192993792, v := 46, mt := fun _ => 7 }

def exP2Run : P2L.Run := { team := 1, print := false, es := [⟨0, true, 316, 2173⟩, ⟨0, false, 2173, 2173⟩], order := [0] }

def exDrRun : DrRun :=
  { fo := exDrFloats, p2 := exP2Run, s1 := leafSched 9 14 46 1, easy := Easy.easySched 9 14 1, hard := [] }

theorem iroot3_1e5 : irootN 3 100000 = 46 := irootN_eq_of (by norm_num) (by norm_num) (by norm_num)
theorem iroot6_1e5 : irootN 6 100000 = 6 := irootN_eq_of (by norm_num) (by norm_num) (by norm_num)

theorem exDrEnv : DrEnv 100000 1 exDrFloats := by
  have ht : Int.tdiv ((100000 : ℕ) : ℤ) 46 = 2173 := by decide
  unfold DrEnv TruncNear MaxXNear PowThreadsNear exDrFloats relEps
  simp only []
  rw [iroot3_1e5, iroot6_1e5, ht]
  norm_num

theorem pi46 : π 46 = 14 := by decide
theorem sqrt46 : Nat.sqrt 46 = 6 := by norm_num [Nat.sqrt]

/-- a complete, non-trivial instance of the hypotheses of `piDeleglieRivat_eq_pi` (levels 9..14 exist: c = 8 < π(46) = 14) -/
theorem exDrExec : DrExec (idealTables 3000) 100 false 100000 exDrRun where
  adm :=
    { env := ⟨1, exDrEnv⟩
      p2 := fun _ _ => by
        show exP2Run.valid genConsts 100000 (100000 / max 46 1) = true
        decide
      s1 := by
        show IsSchedule (getCI 46 + 1) (π 46) (leafSched 9 14 46 1)
        have : getCI 46 = 8 := by decide
        rw [this, pi46]
        exact leafSched_isSchedule _ _ _ _
      easy := by
        show IsSchedule (max (getCI 46) (π (Nat.sqrt 46)) + 1) (π (irootN 3 100000)) (Easy.easySched 9 14 1)
        have h1 : getCI 46 = 8 := by decide
        have h2 : π 6 = 3 := by decide
        rw [h1, sqrt46, h2, iroot3_1e5, pi46]
        exact staticSched1_isSchedule 9 14 (by decide) }
  accept := fun h => absurd h (by simp)
  h53 := by rw [iroot3_1e5, iroot6_1e5]; norm_num
  yB := by show (46 : ℤ).toNat ≤ 100; decide
  yb := by show (46 : ℤ).toNat ≤ 3000; decide

end Pc.Top
