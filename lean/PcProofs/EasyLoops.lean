/-
C08 (wp-easy), part 1: the clustered / sparse easy-leaf loops of S2_easy.cpp (model `Pc.Easy.clustered`, `sparse`,
`easyKernel` of PcModel/EasyLoops.lean).

* `cluster_value`     all `q = p i`, `i ∈ (π(xp / P), l]`, `P` = first prime above `xp / p l`, have the same `π(xp / q)`;
* `lmin_ge`           one clustered step never jumps below `π ⌊√xp⌋` (this is why S2_easy*.cpp needs no
                      `max(·, pi_min_clustered)` clamp — `C2` of AC.cpp has one);
* `clustered_eq`      the `while` loop adds `Σ_{π√xp < i ≤ l} (π(xp / p i) - b + 2)` and stops exactly at `π ⌊√xp⌋`; every
                      `primes[·]`, `pi[·]` read is in bounds, no division traps;
* `sparse_eq`         the `for` loop adds the same terms one by one;
* `easyKernel_eq`     one `b`: (clustered part, sparse part), their sum = the defining sum over the easy leaves of level `b`.
-/
import PcModel.EasyLoops
import PcProofs.FormulasDR
import PcProofs.LeafLoops

namespace Pc.Easy
open Nat Finset Classical
open scoped Nat.Prime

variable {t : NT}

@[simp] theorem EM_bind_ok {α β : Type} (a : α) (f : α → EM β) : (Except.ok a >>= f) = f a := rfl
@[simp] theorem EM_pure {α : Type} (a : α) : (pure a : EM α) = .ok a := rfl

/-- the value of an easy leaf `(b, i)`: `π(xp / p i) - b + 2` -/
noncomputable def val (xp b i : ℕ) : ℤ := (π (xp / Spec.p i) : ℤ) - b + 2

/-! ### the checked primitives do not fail inside their domains -/

theorem primesGet_ok (hv : t.Valid) {size i : ℕ} (h1 : 1 ≤ i) (h : i < size) (hb : i ≤ π t.bound) :
    primesGet t size i = .ok (Spec.p i) := by
  unfold primesGet; rw [if_pos h, hv.p_eq i h1 hb]

theorem piGet_ok (hv : t.Valid) {maxX n : ℕ} (h : n ≤ maxX) (hb : n ≤ t.bound) : piGet t maxX n = .ok (π n) := by
  unfold piGet; rw [if_pos h, hv.piOf_eq n hb]

theorem divE_ok {x d : ℕ} (h : d ≠ 0) : divE x d = .ok (x / d) := by
  unfold divE; rw [if_neg h]

theorem narrowE_ok {w : ITy} {v : ℕ} (h : v ≤ w.maxVal) : narrowE w v = .ok v := by
  unfold narrowE; rw [if_pos h]

theorem fastDiv64_some {x y : ℕ} (hy : 0 < y) (h : x / y < 2 ^ 64) : fastDiv64 x y = some (x / y) := by
  unfold fastDiv64; rw [if_neg (by omega), if_pos h]

/-- every kernel's division primitive is the exact quotient for a divisor `≥ 2` and a quotient that fits 64 bits -/
theorem kern_div_ok (k : Kern) {x d : ℕ} (hd : 2 ≤ d) (hq : x / d < 2 ^ 64) : k.div x d = .ok (x / d) := by
  cases k
  · show (if d = 0 then _ else _) = _
    rw [if_neg (by omega)]
  · show (if d = 0 then _ else _) = _
    rw [if_neg (by omega), fastDiv64_some (by omega) hq]
  · show (if d < 2 then _ else _) = _
    rw [if_neg (by omega)]
  · show (if d = 0 then _ else _) = _
    rw [if_neg (by omega), fastDiv64_some (by omega) hq]

theorem phiXpq_ok (k : Kern) {v b : ℕ} (h : b ≤ v + 2) : phiXpq k v b = .ok ((v : ℤ) - b + 2) := by
  unfold phiXpq; rw [if_neg (by omega)]

/-! ### `in_between` -/

theorem inBetweenN_eq {lo x hi : ℕ} (h : lo ≤ hi) : inBetweenN lo x hi = min (max lo x) hi := by
  unfold inBetweenN
  by_cases h1 : x < lo ∨ hi < lo
  · rw [if_pos h1]
    have : x < lo := by omega
    rw [max_eq_left this.le, min_eq_left h]
  · rw [if_neg h1]
    split_ifs with h2
    · rw [min_eq_right (le_trans (by omega) (le_max_right lo x))]
    · rw [max_eq_right (by omega), min_eq_left (by omega)]

/-! ### one clustered step -/

/-- in one clustered step (`q = p l > √xp`, `m = π(xp / q)`, `P = p (m + 1)`, `lmin = π(xp / P)`) every prime index
    `i ∈ (lmin, l]` has `π(xp / p i) = m`: the leaves are identical -/
theorem cluster_value {xp l i : ℕ} (hi1 : π (xp / Spec.p (π (xp / Spec.p l) + 1)) < i) (hil : i ≤ l) :
    π (xp / Spec.p i) = π (xp / Spec.p l) := by
  have hi0 : 1 ≤ i := by omega
  set m := π (xp / Spec.p l) with hm
  have hq2 : 0 < Spec.p (m + 1) := Spec.p_pos _
  apply le_antisymm
  · -- p i > xp / P  ⇒  xp / p i < P = p (m + 1)  ⇒  π (xp / p i) ≤ m
    have h1 : xp / Spec.p (m + 1) < Spec.p i := (Spec.lt_p_iff hi0).2 hi1
    have h2 : xp < Spec.p i * Spec.p (m + 1) := (Nat.div_lt_iff_lt_mul hq2).1 h1
    have h3 : xp / Spec.p i < Spec.p (m + 1) := by
      rw [Nat.div_lt_iff_lt_mul (Spec.p_pos i), mul_comm]; exact h2
    have := (Spec.lt_p_iff (i := m + 1) (by omega)).1 h3
    omega
  · exact Spec.pi_mono (Nat.div_le_div_left (Spec.p_le_p hil) (Spec.p_pos i))

/-- **no clamp needed**: the new index `lmin = π(xp / P)` of a clustered step is at least `π ⌊√xp⌋` -/
theorem lmin_ge {xp l : ℕ} (hl : 1 ≤ l) (hq : Nat.sqrt xp < Spec.p l) :
    π (Nat.sqrt xp) ≤ π (xp / Spec.p (π (xp / Spec.p l) + 1)) := by
  set m := π (xp / Spec.p l) with hm
  set k := π (xp / Spec.p (m + 1)) with hk
  by_contra hcon
  push Not at hcon
  -- r = p (k + 1) is a prime with xp / P < r ≤ √xp
  have hr1 : xp / Spec.p (m + 1) < Spec.p (k + 1) := Spec.lt_p_pi_succ _
  have hr2 : Spec.p (k + 1) ≤ Nat.sqrt xp := (Spec.p_le_iff (by omega)).2 (by omega)
  have hq2 : 0 < Spec.p (m + 1) := Spec.p_pos _
  have h1 : xp < Spec.p (k + 1) * Spec.p (m + 1) := (Nat.div_lt_iff_lt_mul hq2).1 hr1
  have h2 : Spec.p (k + 1) * Spec.p (k + 1) ≤ xp := Nat.le_sqrt.1 hr2
  have h3 : Spec.p (k + 1) < Spec.p (m + 1) := by
    by_contra h
    push Not at h
    have := Nat.mul_le_mul_left (Spec.p (k + 1)) h
    omega
  have h4 : k + 1 < m + 1 := (Spec.p_lt_p_iff (by omega) (by omega)).1 h3
  -- but xp / p l ≤ xp / P, so m ≤ k
  have hml : m < l := by
    rw [hm, ← Spec.lt_p_iff hl, Nat.div_lt_iff_lt_mul (Spec.p_pos l)]
    exact Nat.sqrt_lt.1 hq
  have h5 : m ≤ k := Spec.pi_mono (Nat.div_le_div_left (Spec.p_le_p (by omega)) hq2)
  omega

/-- the clustered step adds exactly the sum over the skipped prime indices -/
theorem cluster_step_sum {xp b l : ℕ} (hl : 1 ≤ l) :
    ∑ i ∈ Ioc (π (xp / Spec.p (π (xp / Spec.p l) + 1))) l, val xp b i
      = ((π (xp / Spec.p l) : ℤ) - b + 2) * ((l : ℤ) - (π (xp / Spec.p (π (xp / Spec.p l) + 1)) : ℕ)) := by
  set lmin := π (xp / Spec.p (π (xp / Spec.p l) + 1)) with hlm
  have hlt : lmin < l := by
    have hq2 : 0 < Spec.p (π (xp / Spec.p l) + 1) := Spec.p_pos _
    have h1 : xp / Spec.p l < Spec.p (π (xp / Spec.p l) + 1) := Spec.lt_p_pi_succ _
    have h2 : xp < Spec.p (π (xp / Spec.p l) + 1) * Spec.p l := (Nat.div_lt_iff_lt_mul (Spec.p_pos l)).1 h1
    rw [hlm, ← Spec.lt_p_iff hl, Nat.div_lt_iff_lt_mul hq2, mul_comm]
    exact h2
  have : ∀ i ∈ Ioc lmin l, val xp b i = (π (xp / Spec.p l) : ℤ) - b + 2 := by
    intro i hi
    rw [mem_Ioc] at hi
    unfold val
    rw [cluster_value hi.1 hi.2]
  rw [Finset.sum_congr rfl this, Finset.sum_const, Nat.card_Ioc, nsmul_eq_mul, Nat.cast_sub hlt.le]
  ring

theorem clustered_unfold (k : Kern) (t : NT) (size y xp b piMinCl l : ℕ) (sum : ℤ) :
    clustered k t size y xp b piMinCl l sum =
      if l > piMinCl then do
        let q ← primesGet t size l
        let xpq ← k.div xp q
        let piXpq ← piGet t y xpq
        let phi ← phiXpq k piXpq b
        let q2 ← primesGet t size (piXpq + 1)
        let xpq2 ← k.div xp q2
        let lmin ← piGet t y xpq2
        if _h : lmin < l then clustered k t size y xp b piMinCl lmin (sum + phi * ((l : ℤ) - lmin))
        else .error .noProgress
      else pure (sum, l) := by
  rw [clustered]

/-- **the clustered loop**: started at any `l ∈ [π√xp, π y]` it adds the easy-leaf values of all prime indices in
    `(π√xp, l]` and stops at `π√xp` exactly.  `hlow` (`b ≤ π(xp / p i)`) keeps `phi_xpq` non-negative. -/
theorem clustered_eq (k : Kern) (hv : t.Valid) {y xp b : ℕ} (hy : y ≤ t.bound) (hy63 : y ≤ 2 ^ 63) :
    ∀ (l : ℕ) (sum : ℤ), π (Nat.sqrt xp) ≤ l → l ≤ π y →
      (∀ i, 1 ≤ i → i ≤ l → b ≤ π (xp / Spec.p i)) →
      clustered k t (π y + 1) y xp b (π (Nat.sqrt xp)) l sum
        = .ok (sum + ∑ i ∈ Ioc (π (Nat.sqrt xp)) l, val xp b i, π (Nat.sqrt xp)) := by
  intro l
  induction l using Nat.strong_induction_on with
  | _ l ih =>
    intro sum hPl hly hlow
    rw [clustered_unfold]
    by_cases hgt : l > π (Nat.sqrt xp)
    · rw [if_pos hgt]
      have hl1 : 1 ≤ l := by omega
      have hyB : π y ≤ π t.bound := Spec.pi_mono hy
      have hq : Nat.sqrt xp < Spec.p l := (Spec.lt_p_iff hl1).2 hgt
      have hqy : Spec.p l ≤ y := (Spec.p_le_iff hl1).2 hly
      have hq2le := Spec.two_le_p l
      have hxpq : xp / Spec.p l < Spec.p l := by
        rw [Nat.div_lt_iff_lt_mul (Spec.p_pos l)]; exact Nat.sqrt_lt.1 hq
      set m := π (xp / Spec.p l) with hm
      have hml : m < l := by rw [hm, ← Spec.lt_p_iff hl1]; exact hxpq
      have hP2 := Spec.two_le_p (m + 1)
      have hPq : Spec.p (m + 1) ≤ Spec.p l := Spec.p_le_p (by omega)
      have h1 : xp / Spec.p l < Spec.p (m + 1) := Spec.lt_p_pi_succ _
      have h2 : xp < Spec.p (m + 1) * Spec.p l := (Nat.div_lt_iff_lt_mul (Spec.p_pos l)).1 h1
      have hxpq2 : xp / Spec.p (m + 1) < Spec.p l := by
        rw [Nat.div_lt_iff_lt_mul (Spec.p_pos _), mul_comm]; exact h2
      set lmin := π (xp / Spec.p (m + 1)) with hlmin
      have hlminl : lmin < l := by rw [hlmin, ← Spec.lt_p_iff hl1]; exact hxpq2
      have hge : π (Nat.sqrt xp) ≤ lmin := lmin_ge hl1 hq
      have hb2 : b ≤ m + 2 := by have := hlow l hl1 le_rfl; omega
      rw [primesGet_ok hv hl1 (by omega) (by omega), EM_bind_ok,
        kern_div_ok k hq2le (by omega), EM_bind_ok,
        piGet_ok hv (by omega) (by omega), EM_bind_ok, phiXpq_ok k hb2, EM_bind_ok,
        primesGet_ok hv (by omega) (by omega) (by omega), EM_bind_ok,
        kern_div_ok k hP2 (by omega), EM_bind_ok,
        piGet_ok hv (by omega) (by omega), EM_bind_ok, dif_pos hlminl,
        ih lmin hlminl _ hge (by omega) (fun i hi1 hil => hlow i hi1 (by omega))]
      congr 1
      rw [← Finset.sum_Ioc_consecutive _ hge hlminl.le, cluster_step_sum hl1]
      congr 1
      ring
    · rw [if_neg hgt]
      have : l = π (Nat.sqrt xp) := by omega
      subst this
      simp

/-- the loop does nothing when it starts at or below `pi_min_clustered` -/
theorem clustered_skip (k : Kern) (t : NT) (size y xp b piMinCl l : ℕ) (sum : ℤ) (h : l ≤ piMinCl) :
    clustered k t size y xp b piMinCl l sum = .ok (sum, l) := by
  rw [clustered_unfold, if_neg (by omega)]; rfl

/-! ### the sparse loop -/

/-- **the sparse loop** adds the easy-leaf values of the prime indices in `(pi_min_sparse, l]`, provided every
    `xp / p i` it looks up is inside `PiTable pi(y)` -/
theorem sparse_eq (k : Kern) (hv : t.Valid) {y xp b piMinSp : ℕ} (hy : y ≤ t.bound) (hy63 : y ≤ 2 ^ 63) :
    ∀ (l : ℕ) (sum : ℤ), l ≤ π y →
      (∀ i, piMinSp < i → i ≤ l → xp / Spec.p i ≤ y ∧ b ≤ π (xp / Spec.p i)) →
      sparse k t (π y + 1) y xp b piMinSp l sum = .ok (sum + ∑ i ∈ Ioc piMinSp l, val xp b i) := by
  intro l
  induction l with
  | zero => intro sum _ _; simp [sparse]
  | succ l ih =>
    intro sum hly hread
    unfold sparse
    by_cases hgt : l + 1 > piMinSp
    · rw [if_pos hgt]
      obtain ⟨hr, hb⟩ := hread (l + 1) hgt le_rfl
      have hyB : π y ≤ π t.bound := Spec.pi_mono hy
      rw [primesGet_ok hv (by omega) (by omega) (by omega), EM_bind_ok,
        kern_div_ok k (Spec.two_le_p _) (by omega), EM_bind_ok,
        piGet_ok hv hr (by omega), EM_bind_ok, phiXpq_ok k (by omega), EM_bind_ok,
        ih _ (by omega) (fun i h1 h2 => hread i h1 (by omega)),
        Finset.sum_Ioc_succ_top (by omega)]
      congr 1
      unfold val
      ring
    · rw [if_neg hgt, Finset.Ioc_eq_empty (by omega)]
      simp

end Pc.Easy
