/-
WP indep, C20: the hypothesis `AlgConfigIndependent` of PcProps/C20.lean DISCHARGED for the algorithms assembled from the closed models.

`Pc.ApiAlgorithms.run : ApiConfig → ApiCompute → ApiValue` (PcModel/ApiState.lean) is "the computing functions as the code runs them under a
configuration".  `closedAlg E` instantiates it with the models the closed theorems are about — NO new model, only the plumbing from the API
state to their arguments:
  * `pi(int64_t x)`              `Top.piApi64` (the 64-bit branch of `piApi128`, `piApi128_eq_piApi64`) over the world, `threads := cfg.threads`
                                  (= `get_num_threads()` of σ), `isPrint := cfg.print`; the tuning overrides `cfg.alphaY / alphaZ` act through
                                  the float outcomes of the recorded run (`GourdonEnv`), which the environment `E` chooses PER CONFIGURATION;
  * `pi(const std::string&)`     `PiApi.toMaxint ev` (api.cpp:43-48, util.cpp:102-127; `ev` = the calculator of C13) ∘ `Top.piApi128` ∘ `to_string`;
  * `phi(x, a)`                  `phiOpenMP` (phi.cpp, C07) over per-call tables / reduction order / cache objects;
  * `nth_prime(n)`               `Pc.nthPrime` (C06) with `pi` := the dispatcher's answers, `it` := the real iterator model over the world's core.
`Execs` = everything the ENVIRONMENT (OpenMP runtime, floats, clocks, hardware) decides, as a function of the configuration and the call — so
"the result does not depend on σ" is a statement about ALL such environments, not about one lucky run.
A call that is not a C++ call (an argument outside `int64_t`) is answered `.err` by `closedAlg` and by `closedSpec` alike (never a default).
-/
import PcProofs.Indep
import PcProofs.ApiState
import PcProofs.ApiStr
import PcProofs.CloseNth2
import PcProofs.BitSieve240

namespace Pc.Indep
open Pc.Top Pc.Close Nat PcGen.ApiConst Pc.PhiAlgProofs
open scoped Nat.Prime

/-- `pi(int128_t)` on an int64 argument IS `pi(int64_t)` (api.cpp:128-129; negative: both 0) -/
theorem piApi128_eq_piApi64 {σ : Type} (T : Tables σ) (phi : ℕ → ℕ → ℕ) (pi : ℕ → ℕ) (x : ℤ) (hx : x ≤ PiApi.int64Max) (threads : ℤ)
    (isPrint : Bool) (r : ApiRun) : piApi128 T phi pi x threads isPrint r = piApi64 T phi pi x threads isPrint r := by
  unfold piApi128
  by_cases h0 : x < 0
  · rw [if_pos h0]
    unfold piApi64 piCacheTop
    have c1 : (maxCached : ℤ) = 30719 := rfl
    have c2 : (cacheZeroBelow : ℤ) = 2 := rfl
    rw [if_pos (by omega), if_pos (by omega)]
  · rw [if_neg h0, if_pos hx]

/-- an argument is a value of `int64_t` -/
def IsI64 (x : ℤ) : Prop := -2 ^ 63 ≤ x ∧ x < 2 ^ 63
instance (x : ℤ) : Decidable (IsI64 x) := by unfold IsI64; infer_instance

/-- everything the environment decides, per configuration and call -/
structure Execs where
  /-- world, sieve configuration, nested `pi_noprint` answers (the `threads` / `isPrint` fields are overwritten from the configuration) -/
  ctx : ApiConfig → ApiCompute → Ctx
  /-- recorded parallel regions and float outcomes of the parameter derivation of the outermost `pi` call -/
  run : ApiConfig → ApiCompute → ApiRun
  /-- `calculator::eval<maxint_t>` (C13) — a function of the string only -/
  ev : List Char → Except PiApi.ApiErr ℤ
  /-- `phi(x, a)`: tables (`generate_n_primes`, `PiTable`, `pix_upper`, `pi_noprint`), reduction order, cache objects of the call -/
  phiTop : ApiConfig → ApiCompute → PhiTop
  phiOrder : ApiConfig → ApiCompute → List ℕ
  phiSched : ApiConfig → ApiCompute → ℕ → PhiCacheL1 × ℕ
  /-- `nth_prime(n)`: `RiemannR_inverse`, the iterators' stop hints -/
  nthApprox : ApiConfig → ApiCompute → ℕ → ℕ
  nthHp : ApiConfig → ApiCompute → ℕ → ℕ
  nthHn : ApiConfig → ApiCompute → ℕ → ℕ

/-- the context of a call under a configuration: thread count and print switch come from the API state -/
def Execs.k (E : Execs) (cfg : ApiConfig) (c : ApiCompute) : Ctx := (E.ctx cfg c).withThreads cfg.threads cfg.print

/-- `nth_prime`'s callees: `pi` = the dispatcher's answers, `PiTable::pi_cache` = the generated table (correct by C17 `piCache_correct`),
    the iterator = the real iterator model over the world's sieving core -/
noncomputable def Execs.nthEnv (E : Execs) (cfg : ApiConfig) (c : ApiCompute) : NthEnv :=
  ⟨E.nthApprox cfg c, (E.ctx cfg c).pi, piCacheLookup PcGen.piCache, It.realPrimeIter (E.ctx cfg c).W.env (E.nthHp cfg c) (E.nthHn cfg c)⟩

def strArg (bytes : List ℕ) : List Char := bytes.map Char.ofNat

/-- **the algorithms of C20, assembled from the closed models** -/
noncomputable def closedAlg (E : Execs) : ApiAlgorithms where
  run cfg c :=
    match c with
    | .pi x =>
        if IsI64 x then
          match piApi64 ((E.k cfg c).W.tablesS (E.k cfg c).c (E.k cfg c).f false) (E.k cfg c).W.phi (E.k cfg c).pi x cfg.threads cfg.print
            (E.run cfg c) with
          | .ok v => .int v
          | .error _ => .err
        else .err
    | .piStr bytes =>
        match PiApi.toMaxint E.ev (strArg bytes) with
        | .error _ => .err
        | .ok n =>
          match (E.k cfg c).piApi n (E.run cfg c) with
          | .ok v => .str (String.ofList (PiApi.toCharsI128 v))
          | .error _ => .err
    | .phi x a =>
        if IsI64 x ∧ IsI64 a then .int (phiOpenMP (E.phiTop cfg c) (E.phiOrder cfg c) (E.phiSched cfg c) x a) else .err
    | .nthPrime n =>
        match nthPrime (E.nthEnv cfg c) n with
        | .ok v => .int v
        | .error _ => .err

/-- **the specification**: a function of the call alone -/
noncomputable def closedSpec (ev : List Char → Except PiApi.ApiErr ℤ) : ApiCompute → ApiValue
  | .pi x => if IsI64 x then .int (π x.toNat : ℤ) else .err
  | .piStr bytes =>
      match PiApi.toMaxint ev (strArg bytes) with
      | .error _ => .err
      | .ok n => .str (String.ofList (PiApi.toCharsI128 (π n.toNat : ℤ)))
  | .phi x a => if IsI64 x ∧ IsI64 a then .int (phiZ x a) else .err
  | .nthPrime n => if 1 ≤ n ∧ n ≤ (Gen.nthPrimeMaxN : ℤ) then .int ((Spec.p n.toNat : ℕ) : ℤ) else .err

/-- the hypotheses about ONE call under ONE configuration — those of the closed theorem of its entry point, nothing else -/
def CallOK (E : Execs) (cfg : ApiConfig) : ApiCompute → Prop
  | .pi x => IsI64 x →
      (E.k cfg (.pi x)).OK x ∧ (E.k cfg (.pi x)).ApiExec x (E.run cfg (.pi x)) ∧ (E.k cfg (.pi x)).piApi x (E.run cfg (.pi x)) ≠ badRun
  | .piStr bytes => ∀ n, PiApi.toMaxint E.ev (strArg bytes) = .ok n →
      n < 2 ^ 127 ∧ (E.k cfg (.piStr bytes)).OK n ∧ (E.k cfg (.piStr bytes)).ApiExec n (E.run cfg (.piStr bytes)) ∧
        (E.k cfg (.piStr bytes)).piApi n (E.run cfg (.piStr bytes)) ≠ badRun
  | .phi x a => IsI64 x → IsI64 a →
      TopOK (E.phiTop cfg (.phi x a)) x.toNat a.toNat ∧ (E.phiOrder cfg (.phi x a)).Perm (List.range' 9 (a.toNat - 8)) ∧
        ∀ i, CacheOK (E.phiSched cfg (.phi x a) i)
  | .nthPrime n => 1 ≤ n → n ≤ (Gen.nthPrimeMaxN : ℤ) →
      -- `N`: a bound below `2^63` on `RiemannR_inverse(n)` and on the n-th prime (`N = 2^63 - 1`: the literature constant `p(max_n) < 2^63`
      -- and the clamp of `RiemannR_inverse_overflow_check`); the dispatcher's answers are needed up to `N` only
      ∃ N : ℕ, N < 2 ^ 63 ∧ (E.ctx cfg (.nthPrime n)).OK ((N : ℤ) + 1) ∧ (∀ m, E.nthHn cfg (.nthPrime n) m ≤ It.umax) ∧
        E.nthApprox cfg (.nthPrime n) n.toNat ≤ N ∧ Spec.p n.toNat ≤ N

/-- **one call, one configuration: the assembled algorithms return the specification value** -/
theorem closedAlg_run_eq (E : Execs) (cfg : ApiConfig) (c : ApiCompute) (h : CallOK E cfg c) :
    (closedAlg E).run cfg c = closedSpec E.ev c := by
  cases c with
  | pi x =>
    simp only [closedAlg, closedSpec]
    by_cases hx : IsI64 x
    · rw [if_pos hx, if_pos hx]
      obtain ⟨h1, h2, h3⟩ := h hx
      have c0 : (PiApi.int64Max : ℤ) = 2 ^ 63 - 1 := by unfold PiApi.int64Max; norm_num
      have hw : isWide x = false := decide_eq_false (by unfold IsI64 at hx; omega)
      have e := (E.k cfg (.pi x)).piApi_eq x (by unfold IsI64 at hx; omega) (E.run cfg (.pi x)) h1 h2 h3
      unfold Ctx.piApi at e
      rw [hw, piApi128_eq_piApi64 _ _ _ _ (by unfold IsI64 at hx; omega)] at e
      have : (E.k cfg (.pi x)).threads = cfg.threads ∧ (E.k cfg (.pi x)).isPrint = cfg.print := ⟨rfl, rfl⟩
      rw [this.1, this.2] at e
      rw [e]
    · rw [if_neg hx, if_neg hx]
  | piStr bytes =>
    simp only [closedAlg, closedSpec]
    cases hm : PiApi.toMaxint E.ev (strArg bytes) with
    | error e => rfl
    | ok n =>
      obtain ⟨h0, h1, h2, h3⟩ := h n hm
      simp only []
      rw [(E.k cfg (.piStr bytes)).piApi_eq n h0 (E.run cfg (.piStr bytes)) h1 h2 h3]
  | phi x a =>
    simp only [closedAlg, closedSpec]
    by_cases hx : IsI64 x ∧ IsI64 a
    · rw [if_pos hx, if_pos hx]
      obtain ⟨h1, h2, h3⟩ := h hx.1 hx.2
      rw [phiOpenMP_correct _ x a h1 _ h2 _ h3]
    · rw [if_neg hx, if_neg hx]
  | nthPrime n =>
    simp only [closedAlg, closedSpec]
    by_cases hn : 1 ≤ n ∧ n ≤ (Gen.nthPrimeMaxN : ℤ)
    · rw [if_pos hn]
      obtain ⟨N, hN, h1, h2, h3, h4⟩ := h hn.1 hn.2
      obtain ⟨m, rfl⟩ := Int.eq_ofNat_of_zero_le (show 0 ≤ n by omega)
      rw [Int.toNat_natCast] at h3 h4 ⊢
      have hpi : ∀ y, y ≤ N → (E.ctx cfg (.nthPrime (m : ℤ))).pi y = π y := fun y hy =>
        (E.ctx cfg (.nthPrime (m : ℤ))).W.nested_s h1.world h1.hB _ _ _ ((N : ℤ) + 1) (fun n hn => h1.phi n hn.le) h1.nested y
          (by omega) (by omega)
      have hc : (E.nthEnv cfg (.nthPrime (m : ℤ))).CorrectTo N :=
        ⟨(It.realPrimeIter_specTo_two63 _ ((E.ctx cfg (.nthPrime (m : ℤ))).W.env_spec h1.world) (E.nthHp cfg (.nthPrime (m : ℤ)))
            (E.nthHn cfg (.nthPrime (m : ℤ))) h2).mono (by omega),
          fun x hx => hpi x hx,
          fun x hx => piCache_correct x (by unfold Gen.nthPrimeMaxCached at hx; omega)⟩
      rw [nthPrime_ok_to _ N hc m (by omega) (by omega) h3 h4]
    · rw [if_neg hn]
      unfold nthPrime
      by_cases h1 : n < 1
      · rw [if_pos h1]
      · rw [if_neg h1, if_pos (by omega)]

/-- **`AlgConfigIndependent` discharged**: if every call under every configuration meets the hypotheses of its closed theorem, the value
    the assembled algorithms compute does not depend on the configuration -/
theorem algConfigIndependent_closed (E : Execs) (h : ∀ cfg c, CallOK E cfg c) : AlgConfigIndependent (closedAlg E) (closedSpec E.ev) :=
  fun cfg c => closedAlg_run_eq E cfg c (h cfg c)

end Pc.Indep
