/-
WP indep: non-vacuity of PcProofs/Indep.lean — concrete execution contexts over `exWorld` (PcProofs/CloseWorldEx.lean) that differ in the
thread count, the print switch, the CPU configuration of `class Sieve` and the inline count body, and meet `Ctx.OK` at every `x ≤ 10^5`.
-/
import PcProofs.Indep

namespace Pc.Indep
open Pc.Top Pc.Close Nat PcGen.ApiConst
open scoped Nat.Prime

/-- `exWorld`, nested answers `π`, ANY thread count / print switch / sieve configuration -/
noncomputable def exCtx (c : Sieve.Cfg) (f : Sieve.StopFn) (threads : ℤ) (isPrint : Bool) : Ctx :=
  ⟨exWorld, 100, c, f, Nat.primeCounting, threads, isPrint⟩

theorem exCtx_ok (c : Sieve.Cfg) (f : Sieve.StopFn) (threads : ℤ) (isPrint : Bool) (x : ℤ) (hx : x ≤ 100000) :
    (exCtx c f threads isPrint).OK x :=
  ⟨exWorld_ok, by show 100 < 2 ^ 32; norm_num, fun n _ _ _ => exWorld_phiRunOK n,
    fun n hn h63 => exWorld_nestedS c f n (lt_of_lt_of_le hn hx) h63⟩

theorem isWide_small {x : ℤ} (hx : x < 2 ^ 63) : isWide x = false := by
  unfold isWide
  have c0 : (PiApi.int64Max : ℤ) = 2 ^ 63 - 1 := by unfold PiApi.int64Max; norm_num
  exact decide_eq_false (by omega)

/-- below `10^5` the dispatcher takes the cache / Legendre route: nothing of the run record is read, every record is an execution -/
theorem exCtx_apiExec (c : Sieve.Cfg) (f : Sieve.StopFn) (threads : ℤ) (isPrint : Bool) (x : ℤ) (hx : x ≤ 100000) (r : ApiRun) :
    (exCtx c f threads isPrint).ApiExec x r := by
  intro h
  have c1 : (maxCached : ℤ) = 30719 := rfl
  have l1 : legendreMax = 100000 := rfl
  have l2 : meisselMax = 100000000 := rfl
  rw [isWide_small (by omega)]
  exact ⟨fun h' _ => absurd h' (by omega), fun h' => absurd h' (by omega)⟩

/-- … and it cannot answer `badRun` there -/
theorem exCtx_accepted (c : Sieve.Cfg) (f : Sieve.StopFn) (threads : ℤ) (isPrint : Bool) (x : ℤ) (hx : x ≤ 100000) (r : ApiRun) :
    (exCtx c f threads isPrint).piApi x r ≠ badRun := by
  intro h
  unfold Ctx.piApi piApi128 piApi64 at h
  have c1 : (maxCached : ℤ) = 30719 := rfl
  have c2 : (legendreMax : ℤ) = 100000 := rfl
  have c0 : (PiApi.int64Max : ℤ) = 2 ^ 63 - 1 := by unfold PiApi.int64Max; norm_num
  split_ifs at h
  all_goals omega

/-! ### the tuning factors range over more than one value at the same `x` -/

/-- float outcomes of a `pi_gourdon_64(100000)` run with `alpha_y = 1.5`, `alpha_z = 1`: `y = z = 69` (the run of `exGFloats` has
    `alpha_y = 1`, `alpha_z = 2`: `y = 47`, `z = 94`) -/
def exGFloats' : GFloats := { maxX := 18193928570460861117506040777, v := 69, w := fun y => y, mt := fun _ => 1 }

theorem exGEnv' : GourdonEnv 100000 (3 / 2) 1 exGFloats' := by
  have hy : gY 100000 exGFloats'.v = 69 := by
    unfold gY clampY exGFloats'
    rw [iroot3_1e5]
    have : isqrtN 100000 = 316 := by rw [isqrtN_eq]; norm_num [Nat.sqrt_eq']
    rw [this]; decide
  have hz : gZ 100000 69 (exGFloats'.w 69) = 69 := by
    unfold gZ clampZ exGFloats'
    have : isqrtN 100000 = 316 := by rw [isqrtN_eq]; norm_num [Nat.sqrt_eq']
    rw [this]; decide
  unfold GourdonEnv
  rw [hy, hz]
  have ht : ((100000 : ℕ) : ℤ) / 69 = 1449 := by decide
  unfold TruncNear MaxXNear PowThreadsNear exGFloats' relEps
  simp only []
  rw [iroot3_1e5, iroot6_1e5, ht]
  norm_num

/-- float outcomes of a `pi_deleglise_rivat_64(100000)` run with `alpha = 2`: `y = 92` (`exDrFloats`: `alpha = 1`, `y = 46`) -/
def exDrFloats' : DFloats := { maxX := 28011385487393069959365969113, v := 92, mt := fun _ => 1 }

theorem exDrEnv' : DrEnv 100000 2 exDrFloats' := by
  have ht : Int.tdiv ((100000 : ℕ) : ℤ) 92 = 1086 := by decide
  unfold DrEnv TruncNear MaxXNear PowThreadsNear exDrFloats' relEps
  simp only []
  rw [iroot3_1e5, iroot6_1e5, ht]
  norm_num

/-- the complete execution of `pi_gourdon_64(100000)` of WP close, with its tuning factors named: `alpha_y = 1`, `alpha_z = 2` -/
theorem exGExecAlpha (c : Sieve.Cfg) (f : Sieve.StopFn) :
    GExecAlpha (exWorld.tablesS c f false) 100 100000 1 2 (exGRun (exWorld.tablesS c f false).t) :=
  let h := exGExecC_worldS c f
  ⟨exGEnv, h.adm.phi0, h.adm.b, h.adm.ac, h.yB, h.reach⟩

/-- … and of `pi_deleglise_rivat_64(100000)`: `alpha = 1` -/
theorem exDrExecAlpha (c : Sieve.Cfg) (f : Sieve.StopFn) : DrExecAlpha (exWorld.tablesS c f false) 100 100000 1 exDrRun :=
  ⟨exDrEnv, exDrExec_worldS c f⟩

end Pc.Indep
