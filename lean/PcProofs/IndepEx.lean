/-
WP indep: non-vacuity of PcProofs/Indep.lean — concrete execution contexts over `exWorld` (PcProofs/CloseWorldEx.lean) that differ in the
thread count, the print switch, the CPU configuration of `class Sieve` and the inline count body, and meet `Ctx.OK` at every `x ≤ 10^5`.
-/
import PcProofs.Indep

namespace Pc.Indep
open Pc.Top Pc.Close Nat PcGen.ApiConst
open scoped Nat.Prime

/-- `exWorld`, nested answers `π`, ANY thread count / print switch / sieve configuration -/
noncomputable def exCtx (c : Sieve.Cfg) (f : Sieve.StopFn) (threads : ℤ) (isPrint : Bool) : Ctx :=
  ⟨exWorld, 100, c, f, Nat.primeCounting, threads, isPrint⟩

theorem exCtx_ok (c : Sieve.Cfg) (f : Sieve.StopFn) (threads : ℤ) (isPrint : Bool) (x : ℤ) (hx : x ≤ 100000) :
    (exCtx c f threads isPrint).OK x :=
  ⟨exWorld_ok, by show 100 < 2 ^ 32; norm_num, fun n _ _ _ => exWorld_phiRunOK n,
    fun n hn h63 => exWorld_nestedS c f n (lt_of_lt_of_le hn hx) h63⟩

theorem isWide_small {x : ℤ} (hx : x < 2 ^ 63) : isWide x = false := by
  unfold isWide
  have c0 : (PiApi.int64Max : ℤ) = 2 ^ 63 - 1 := by unfold PiApi.int64Max; norm_num
  exact decide_eq_false (by omega)

/-- below `10^5` the dispatcher takes the cache / Legendre route: nothing of the run record is read, every record is an execution -/
theorem exCtx_apiExec (c : Sieve.Cfg) (f : Sieve.StopFn) (threads : ℤ) (isPrint : Bool) (x : ℤ) (hx : x ≤ 100000) (r : ApiRun) :
    (exCtx c f threads isPrint).ApiExec x r := by
  intro h
  have c1 : (maxCached : ℤ) = 30719 := rfl
  have l1 : legendreMax = 100000 := rfl
  have l2 : meisselMax = 100000000 := rfl
  rw [isWide_small (by omega)]
  exact ⟨fun h' _ => absurd h' (by omega), fun h' => absurd h' (by omega)⟩

/-- … and it cannot answer `badRun` there -/
theorem exCtx_accepted (c : Sieve.Cfg) (f : Sieve.StopFn) (threads : ℤ) (isPrint : Bool) (x : ℤ) (hx : x ≤ 100000) (r : ApiRun) :
    (exCtx c f threads isPrint).piApi x r ≠ badRun := by
  intro h
  unfold Ctx.piApi piApi128 piApi64 at h
  have c1 : (maxCached : ℤ) = 30719 := rfl
  have c2 : (legendreMax : ℤ) = 100000 := rfl
  have c0 : (PiApi.int64Max : ℤ) = 2 ^ 63 - 1 := by unfold PiApi.int64Max; norm_num
  split_ifs at h
  all_goals omega

end Pc.Indep
