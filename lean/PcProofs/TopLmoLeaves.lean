/-
WP top (item 3): the two level enumerations of pi_lmo5.cpp / pi_lmo_parallel.cpp (`lmoLevel1`, `lmoLevel2` of
PcModel/TopLmo.lean) meet the engine's `LvSpec` with the windowed leaf sums of PcProofs/HardS2.lean taken at the cut
`z := y * y` (no cut: ALL special leaves): `W1 x y b lo hi` (leaves `(p_b, m)`, `μ m ≠ 0`, `p_b < lpf m`, `y / p_b < m ≤ y`) and
`W2 x y (y*y) b lo hi` (leaves `(p_b, p_j)`, `b < j ≤ π y`).
-/
import PcProofs.HardS2
import PcProofs.TopLmoEngine

namespace Pc.TopLmo
open Nat Finset
open Pc.Hard
open scoped Nat.Prime ArithmeticFunction.Moebius

local notation "p" => Spec.p
local notation "φ" => Spec.phi

/-- the tables are what `generate_primes(y)`, `generate_pi(y)` / `PiTable pi(y)`, `phi_vector`, `generate_moebius(y)`,
    `generate_lpf(y)` build -/
structure LmoOK (L : LmoEnv) (y : ℕ) : Prop where
  env : EnvOK L.e y
  vecSize : L.vecSize = y + 1
  mu_eq : ∀ m, 1 ≤ m → m ≤ y → L.mu m = μ m
  lpf_eq : ∀ m, 2 ≤ m → m ≤ y → L.lpf m = m.minFac

/-! ### the leaf loops -/

theorem lmoItems2_eq (e : Env) (q x minM : ℕ) : ∀ l, lmoItems2 e q x minM l = leafItems2 e (x / q) minM l := by
  intro l
  induction l with
  | zero => rfl
  | succ l ih => rw [lmoItems2, leafItems2, ih, Nat.div_div_eq_div_mul]

/-- value of the first leaf loop -/
theorem lmoItems1_sum (L : LmoEnv) (q x b minM : ℕ) : ∀ n,
    itemSum b (lmoItems1 L q x minM n) =
      ∑ m ∈ Ioc minM (minM + n),
        if L.mu m ≠ 0 ∧ q < L.lpf m then - L.mu m * (φ (x / (q * m)) (b - 1) : ℤ) else 0 := by
  intro n
  induction n with
  | zero => simp [lmoItems1, itemSum]
  | succ n ih =>
    rw [lmoItems1, ← Nat.add_assoc, Finset.sum_Ioc_succ_top (by omega)]
    split_ifs with h
    · simp only [itemSum]; rw [ih]; ring
    · rw [ih, add_zero]

/-- the positions of the first leaf loop are visited in non-decreasing order -/
theorem lmoItems1_ok (L : LmoEnv) (q x minM lo hi : ℕ) (hq : 0 < q) : ∀ n prev,
    (∀ m, minM < m → m ≤ minM + n → lo + prev ≤ x / (q * m) ∧ x / (q * m) < hi) →
    ItemsOK lo hi prev (lmoItems1 L q x minM n) := by
  intro n
  induction n with
  | zero => intro _ _; simp [lmoItems1, ItemsOK]
  | succ n ih =>
    intro prev h
    rw [lmoItems1]
    split_ifs with hc
    · obtain ⟨h1, h2⟩ := h (minM + n + 1) (by omega) (by omega)
      refine ⟨h1, h2, ih _ ?_⟩
      intro m hm1 hm2
      have hd : x / (q * (minM + n + 1)) ≤ x / (q * m) :=
        Nat.div_le_div_left (Nat.mul_le_mul_left q (by omega)) (Nat.mul_pos hq (by omega))
      exact ⟨by omega, (h m hm1 (by omega)).2⟩
    · exact ih prev (fun m hm1 hm2 => h m hm1 (by omega))

/-! ### the two levels -/

/-- without the cut the second-loop cap is `min(x / (prime * low1), y)` -/
theorem cap2_eq {x y b lo : ℕ} (hb1 : 1 ≤ b) (hby : b ≤ π y) (hbs : ¬ b ≤ π (Nat.sqrt y)) :
    cap x y (y * y) b lo = min (x / p b / max lo 1) y := by
  have hqy : p b ≤ y := (Spec.p_le_iff hb1).2 hby
  have hq0 := Spec.p_pos b
  unfold cap
  rw [if_neg hbs]
  have : y ≤ y * y / p b := by
    rw [Nat.le_div_iff_mul_le hq0]
    exact Nat.mul_le_mul_left y hqy
  omega

/-- first loop: a level `b ≤ π√y` that does not break -/
theorem lmoLevel1_items {L : LmoEnv} {x y b lo hi : ℕ} (hL : LmoOK L y) (hyx : y * y ≤ x) (hb1 : 1 ≤ b)
    (hbs : b ≤ π (Nat.sqrt y)) (hlh : lo < hi) (hnb : ¬ brk x y (y * y) b lo) :
    ∃ its, lmoLevel1 L x y lo hi b = .ok (some its) ∧ ItemsOK lo hi 0 its ∧ itemSum b its = W1 x y b lo hi := by
  have hE := hL.env
  have hby : b ≤ π y := le_trans hbs (Spec.pi_mono (Nat.sqrt_le_self y))
  have hpb : L.e.primes b = p b := hE.primes_eq b hb1 hby
  have hq0 : 0 < p b := Spec.p_pos b
  have hq2 : 2 ≤ p b := Spec.two_le_p b
  have hqs : p b ≤ Nat.sqrt y := (Spec.p_le_iff hb1).2 hbs
  have hqq : p b * p b ≤ y := Nat.le_sqrt.1 hqs
  have hqy : p b ≤ y := le_trans hqs (Nat.sqrt_le_self y)
  have hyq : p b ≤ y / p b := (Nat.le_div_iff_mul_le hq0).2 hqq
  unfold brk at hnb
  rw [if_pos hbs] at hnb
  unfold cap at hnb
  rw [if_pos hbs] at hnb
  unfold lmoLevel1
  rw [hpb, hE.primesSize, ← Nat.div_div_eq_div_mul x (p b) (max lo 1), ← Nat.div_div_eq_div_mul x (p b) hi,
    if_neg (by omega), if_neg (by omega), if_neg hnb]
  set maxM := min (x / p b / max lo 1) y with hmaxM
  set minM := max (x / p b / hi) (y / p b) with hminM
  have hmaxy : maxM ≤ y := min_le_right _ _
  rw [hL.vecSize, if_neg (by omega)]
  refine ⟨_, rfl, ?_, ?_⟩
  · -- positions
    apply lmoItems1_ok _ _ _ _ _ _ hq0
    intro m hm1 hm2
    have g2 : m ≤ maxM := by omega
    have hm0 : 0 < m := by omega
    have g3 : m ≤ x / p b / max lo 1 := le_trans g2 (min_le_left _ _)
    have g4 : max lo 1 ≤ x / (p b * m) := (le_div_div_iff x _ _ _ hq0 hm0 (by omega)).1 g3
    have g5 : x / p b / hi < m := lt_of_le_of_lt (le_max_left _ _) hm1
    have g6 := (div_div_lt_iff x (p b) _ hi hm0 (by omega)).1 g5
    exact ⟨by omega, g6⟩
  · -- value
    rw [lmoItems1_sum]
    unfold W1
    rw [← Finset.sum_filter, ← Finset.sum_filter, Finset.filter_filter, ← Finset.sum_neg_distrib]
    have hset : (Ioc minM (minM + (maxM - minM))).filter (fun m => L.mu m ≠ 0 ∧ p b < L.lpf m) =
        (Ioc (y / p b) y).filter (fun m => Good (p b) m ∧ (lo ≤ x / (p b * m) ∧ x / (p b * m) < hi)) := by
      ext m
      simp only [mem_filter, mem_Ioc]
      constructor
      · rintro ⟨⟨h1, h2⟩, h3, h4⟩
        have g2 : m ≤ maxM := by omega
        have hmy : m ≤ y := le_trans g2 hmaxy
        have hylt : y / p b < m := lt_of_le_of_lt (le_max_right _ _) h1
        have hm2 : 2 ≤ m := by omega
        have hm0 : 0 < m := by omega
        rw [hL.mu_eq m (by omega) hmy] at h3
        rw [hL.lpf_eq m hm2 hmy] at h4
        have g3 : m ≤ x / p b / max lo 1 := le_trans g2 (min_le_left _ _)
        have g4 := (le_div_div_iff x _ _ _ hq0 hm0 (by omega)).1 g3
        have g5 : x / p b / hi < m := lt_of_le_of_lt (le_max_left _ _) h1
        have g6 := (div_div_lt_iff x (p b) _ hi hm0 (by omega)).1 g5
        exact ⟨⟨hylt, hmy⟩, ⟨h3, h4⟩, by omega, g6⟩
      · rintro ⟨⟨h1, h2⟩, hg, h3, h4⟩
        have hm0 := good_pos hg
        have hm2 : 2 ≤ m := by omega
        have hpos := pos_of_leaf hyx hqy h2 hq0 hm0
        have g5 := (div_div_lt_iff x (p b) _ hi hm0 (by omega)).2 h4
        have g3 := (le_div_div_iff x _ m (max lo 1) hq0 hm0 (by omega)).2 ((max_one_le_iff _ _ hpos).2 h3)
        have hmin : minM < m := by rw [hminM, max_lt_iff]; exact ⟨g5, h1⟩
        have hmax : m ≤ maxM := by rw [hmaxM, le_min_iff]; exact ⟨g3, h2⟩
        refine ⟨⟨hmin, by omega⟩, ?_, ?_⟩
        · rw [hL.mu_eq m (by omega) h2]; exact hg.1
        · rw [hL.lpf_eq m hm2 h2]; exact hg.2
    rw [hset]
    apply Finset.sum_congr rfl
    intro m hm
    rw [mem_filter, mem_Ioc] at hm
    have hm0 := good_pos hm.2.1
    rw [hL.mu_eq m (by omega) hm.1.2]
    ring

/-- second loop: a level `b > π√y` that does not break -/
theorem lmoLevel2_items {L : LmoEnv} {x y b lo hi : ℕ} (hL : LmoOK L y) (hyx : y * y ≤ x) (hb1 : 1 ≤ b)
    (hby : b ≤ π y) (hbs : ¬ b ≤ π (Nat.sqrt y)) (hlh : lo < hi) (hnb : ¬ brk x y (y * y) b lo) :
    ∃ its, lmoLevel2 L x y lo hi b = .ok (some its) ∧ ItemsOK lo hi 0 its ∧ itemSum b its = W2 x y (y * y) b lo hi := by
  have hE := hL.env
  have hpb : L.e.primes b = p b := hE.primes_eq b hb1 hby
  have hq0 : 0 < p b := Spec.p_pos b
  have hqy : p b ≤ y := (Spec.p_le_iff hb1).2 hby
  unfold brk at hnb
  rw [if_neg hbs, cap2_eq hb1 hby hbs] at hnb
  unfold lmoLevel2
  rw [hpb, hE.primesSize, hE.piMax, ← Nat.div_div_eq_div_mul x (p b) (max lo 1), ← Nat.div_div_eq_div_mul x (p b) hi,
    if_neg (by omega), if_neg (by omega)]
  set a := min (x / p b / max lo 1) y with ha
  have hay : a ≤ y := min_le_right _ _
  rw [if_neg (by omega), hE.pi_eq a hay, if_neg (by have := Spec.pi_mono hay; omega)]
  have hl1 : 1 ≤ π a := by omega
  have hpl : L.e.primes (π a) = p (π a) := hE.primes_eq _ hl1 (Spec.pi_mono hay)
  rw [hpl, if_neg (by have := Spec.p_lt_p hb1 (show b < π a by omega); omega)]
  have hprimes : ∀ i, 1 ≤ i → i ≤ π a → L.e.primes i = p i :=
    fun i h1 h2 => hE.primes_eq i h1 (le_trans h2 (Spec.pi_mono hay))
  set minHard := max (x / p b / hi) (p b) with hmh
  have hmem : ∀ i, (π minHard < i ∧ i ≤ π a) ↔
      (b < i ∧ i ≤ π y) ∧ p b * p i ≤ y * y ∧ lo ≤ x / (p b * p i) ∧ x / (p b * p i) < hi := by
    intro i
    constructor
    · rintro ⟨h1, h2⟩
      have hi1 : 1 ≤ i := by omega
      have hpi0 := Spec.p_pos i
      have g1 : minHard < p i := (Spec.lt_p_iff hi1).2 h1
      have g2 : p i ≤ a := (Spec.p_le_iff hi1).2 h2
      have g3 : p i ≤ x / p b / max lo 1 := le_trans g2 (min_le_left _ _)
      have g4 : p i ≤ y := le_trans g2 (min_le_right _ _)
      have g6 := (le_div_div_iff x _ _ _ hq0 hpi0 (by omega)).1 g3
      have g7 : x / p b / hi < p i := lt_of_le_of_lt (le_max_left _ _) g1
      have g8 := (div_div_lt_iff x (p b) _ hi hpi0 (by omega)).1 g7
      have g9 : p b < p i := lt_of_le_of_lt (le_max_right _ _) g1
      exact ⟨⟨(Spec.p_lt_p_iff hb1 hi1).1 g9, (Spec.p_le_iff hi1).1 g4⟩, Nat.mul_le_mul hqy g4, by omega, g8⟩
    · rintro ⟨⟨h1, h2⟩, h3, h4, h5⟩
      have hi1 : 1 ≤ i := by omega
      have hpi0 := Spec.p_pos i
      have g4 : p i ≤ y := (Spec.p_le_iff hi1).2 h2
      have g9 : p b < p i := Spec.p_lt_p hb1 h1
      have hpos : 1 ≤ x / (p b * p i) :=
        (Nat.le_div_iff_mul_le (Nat.mul_pos hq0 hpi0)).2 (by omega)
      have g3 := (le_div_div_iff x _ (p i) (max lo 1) hq0 hpi0 (by omega)).2 ((max_one_le_iff _ _ hpos).2 h4)
      have g7 := (div_div_lt_iff x (p b) _ hi hpi0 (by omega)).2 h5
      refine ⟨(Spec.lt_p_iff hi1).1 ?_, (Spec.p_le_iff hi1).1 ?_⟩
      · rw [hmh, max_lt_iff]; exact ⟨g7, g9⟩
      · rw [ha, le_min_iff]; exact ⟨g3, g4⟩
  refine ⟨_, rfl, ?_, ?_⟩
  · rw [lmoItems2_eq]
    apply leafItems2_ok _ _ _ _ _ _ _ hprimes
    intro i h1 h2
    have := (hmem i).1 ⟨h1, h2⟩
    rw [Nat.div_div_eq_div_mul]
    exact ⟨by omega, this.2.2.2⟩
  · rw [lmoItems2_eq, leafItems2_sum L.e _ b minHard _ hprimes]
    unfold W2
    rw [← Finset.sum_filter, Finset.filter_filter]
    apply Finset.sum_congr
    · ext i
      simp only [mem_filter, mem_Ioc]
      exact hmem i
    · intro i _
      rw [Nat.div_div_eq_div_mul]

/-- the level enumeration of pi_lmo5.cpp / pi_lmo_parallel.cpp meets the engine's requirements; `sel` is the loop bound of the
    first loop (`pi_sqrty` resp. `min(pi_sqrty, max_b)`) -/
theorem lmo_lvspec {L : LmoEnv} {x y sel minB maxB low0 limit : ℕ} (hL : LmoOK L y) (hyx : y * y ≤ x)
    (hmin : 1 ≤ minB) (hmax : maxB ≤ π y)
    (hsel : ∀ b, minB ≤ b → b ≤ maxB → (b ≤ sel ↔ b ≤ π (Nat.sqrt y))) :
    LvSpec (lmoLv L x y sel) (brk x y (y * y)) (WS2 x y (y * y)) minB maxB low0 limit := by
  have hE := hL.env
  refine ⟨?_, ?_, ?_, ?_, ?_, ?_⟩
  · -- brk_none
    intro b lo hi hb1 hb2 _ hlh _ hbrk
    have hby : b ≤ π y := le_trans hb2 hmax
    have hb0 : 1 ≤ b := by omega
    have hpb : L.e.primes b = p b := hE.primes_eq b hb0 hby
    have hq0 := Spec.p_pos b
    unfold lmoLv
    by_cases hs : b ≤ π (Nat.sqrt y)
    · rw [if_pos ((hsel b hb1 hb2).2 hs)]
      unfold brk cap at hbrk
      rw [if_pos hs, if_pos hs] at hbrk
      unfold lmoLevel1
      rw [hpb, hE.primesSize, ← Nat.div_div_eq_div_mul x (p b) (max lo 1), if_neg (by omega), if_neg (by omega),
        if_pos hbrk]
    · rw [if_neg (fun h => hs ((hsel b hb1 hb2).1 h))]
      unfold brk at hbrk
      rw [if_neg hs, cap2_eq hb0 hby hs] at hbrk
      unfold lmoLevel2
      rw [hpb, hE.primesSize, hE.piMax, ← Nat.div_div_eq_div_mul x (p b) (max lo 1), if_neg (by omega),
        if_neg (by omega)]
      set a := min (x / p b / max lo 1) y with ha
      have hay : a ≤ y := min_le_right _ _
      rw [if_neg (by omega), hE.pi_eq a hay, if_neg (by have := Spec.pi_mono hay; omega), if_pos]
      rcases Nat.eq_zero_or_pos (π a) with h0 | h0
      · rw [h0, hE.primes_zero]; exact Nat.zero_le _
      · rw [hE.primes_eq _ h0 (Spec.pi_mono hay)]; exact Spec.p_le_p hbrk
  · -- items
    intro b lo hi hb1 hb2 _ hlh _ hnb
    have hby : b ≤ π y := le_trans hb2 hmax
    unfold lmoLv WS2
    by_cases hs : b ≤ π (Nat.sqrt y)
    · rw [if_pos ((hsel b hb1 hb2).2 hs), if_pos hs]
      exact lmoLevel1_items hL hyx (by omega) hs hlh hnb
    · rw [if_neg (fun h => hs ((hsel b hb1 hb2).1 h)), if_neg hs]
      exact lmoLevel2_items hL hyx (by omega) hby hs hlh hnb
  · intro b lo lo' _ _ hll hb
    exact brk_mono_lo x y (y * y) b hll hb
  · intro b lo _ _ hbrk b' lo' hi' hbb hb' hll
    exact WS2_zero_of_brk hyx hbb (le_trans hb' hmax) (by omega) hll hbrk hi'
  · intro b lo mid hi h1 h2
    exact WS2_add x y (y * y) b lo mid hi h1 h2
  · intro b lo
    exact WS2_empty x y (y * y) b lo

end Pc.TopLmo
