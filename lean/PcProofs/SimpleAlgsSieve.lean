/-
WP lmo, part 2a: building blocks of the sieving variants (pi_lmo2 / pi_lmo3 / pi_lmo4).

* `Unsieved a n`   : `n` is divisible by none of the first `a` primes;  `phi_succ` : φ(m+1, a) = φ(m, a) + [Unsieved a (m+1)]
* `SieveOK`        : a `Vector<bool>` window `[low, low + len)` holds exactly the `Unsieved a` flags
* `countBelow_spec`: the counting loop `for (; i < n; i++) phi += sieve[i]` advances φ(low + i − 1, a) to φ(low + n − 1, a)
* `crossOff_spec`  : the cross-off loop clears exactly `k, k + step, …` below `high` and returns the first such value `≥ high`
* `IsNext`, `crossOff_level`: with `next[b]` = first (odd) multiple `≥ low`, crossing off lifts the window from level `b − 1` to `b`
-/
import PcProofs.SimpleAlgs

namespace Pc.SimpleAlgs
open Nat Finset Classical
open scoped Nat.Prime ArithmeticFunction.Moebius

/-- `n` is divisible by none of the first `a` primes -/
def Unsieved (a n : ℕ) : Prop := ∀ i, 1 ≤ i → i ≤ a → ¬ Spec.p i ∣ n

theorem unsieved_zero (n : ℕ) : Unsieved 0 n := fun i h1 h0 => by omega

theorem unsieved_succ {a n : ℕ} : Unsieved (a + 1) n ↔ Unsieved a n ∧ ¬ Spec.p (a + 1) ∣ n := by
  constructor
  · intro h
    exact ⟨fun i h1 hi => h i h1 (by omega), h (a + 1) (by omega) le_rfl⟩
  · rintro ⟨h1, h2⟩ i hi1 hi
    rcases Nat.lt_or_ge i (a + 1) with h | h
    · exact h1 i hi1 (by omega)
    · have : i = a + 1 := by omega
      subst this; exact h2

theorem phiSet_eq_filter (x a : ℕ) : Spec.phiSet x a = (Icc 1 x).filter (Unsieved a) := rfl

/-- one more number: φ(m + 1, a) = φ(m, a) + [m + 1 is unsieved] -/
theorem phi_succ (m a : ℕ) : Spec.phi (m + 1) a = Spec.phi m a + if Unsieved a (m + 1) then 1 else 0 := by
  unfold Spec.phi
  rw [phiSet_eq_filter, phiSet_eq_filter]
  have hI : Icc 1 (m + 1) = insert (m + 1) (Icc 1 m) := by
    ext n; rw [mem_insert, mem_Icc, mem_Icc]; omega
  rw [hI, Finset.filter_insert]
  split_ifs with h
  · rw [Finset.card_insert_of_notMem]
    rw [mem_filter, mem_Icc]; omega
  · rfl

/-- the window `[low, low + len)` of a `Vector<bool>` holds the level-`a` flags (the number 0 is never looked at) -/
def SieveOK (sieve : Array Bool) (low len a : ℕ) : Prop :=
  ∀ j, j < len → 1 ≤ low + j → (sieve.getD j false = true ↔ Unsieved a (low + j))

theorem countBelow_ge (sieve : Array Bool) {n i : ℕ} (h : n ≤ i) (fuel : ℕ) (phi : ℤ) :
    countBelow sieve n fuel i phi = (i, phi) := by
  cases fuel with
  | zero => rfl
  | succ f => rw [countBelow, if_neg (by omega)]

/-- the counting loop: `phi` advances from φ(low + i − 1, a) to φ(low + n − 1, a) -/
theorem countBelow_spec {sieve : Array Bool} {low len a : ℕ} (h : SieveOK sieve low len a) :
    ∀ (fuel i n : ℕ) (phi : ℤ), n ≤ len → i ≤ n → n - i ≤ fuel → 1 ≤ low + i →
      phi = (Spec.phi (low + i - 1) a : ℤ) →
      countBelow sieve n fuel i phi = (n, (Spec.phi (low + n - 1) a : ℤ)) := by
  intro fuel
  induction fuel with
  | zero =>
    intro i n phi _ hin hf _ hphi
    have : i = n := by omega
    subst this
    rw [countBelow, hphi]
  | succ f ih =>
    intro i n phi hn hin hf hpos hphi
    rcases Nat.lt_or_ge i n with hlt | hge
    · rw [countBelow, if_pos hlt]
      apply ih (i + 1) n _ hn (by omega) (by omega) (by omega)
      have hs := phi_succ (low + i - 1) a
      have e : low + i - 1 + 1 = low + i := by omega
      rw [e] at hs
      have e2 : low + (i + 1) - 1 = low + i := by omega
      rw [e2, hs, hphi]
      have hiff := h i (by omega) hpos
      by_cases hu : Unsieved a (low + i)
      · rw [if_pos hu, if_pos (hiff.2 hu)]; push_cast; ring
      · rw [if_neg hu, if_neg (fun hc => hu (hiff.1 hc))]; push_cast; ring
    · have : i = n := by omega
      subst this
      rw [countBelow_ge sieve le_rfl, hphi]

/-! ### the cross-off loop -/

theorem getD_setIfInBounds_false (s : Array Bool) (i j : ℕ) :
    (s.setIfInBounds i false).getD j false = (s.getD j false && !decide (i = j)) := by
  rw [Array.getD_eq_getD_getElem?, Array.getD_eq_getD_getElem?, Array.getElem?_setIfInBounds]
  by_cases hij : i = j
  · subst hij
    by_cases hlt : i < s.size
    · simp [hlt]
    · simp [hlt]
  · simp [hij]

/-- `for (; k < high; k += step) sieve[k - low] = 0;` clears exactly the positions `k + t·step < high` and returns the
    first `k + t·step ≥ high` -/
theorem crossOff_spec (low high step : ℕ) (hstep : 0 < step) :
    ∀ (fuel k : ℕ) (s : Array Bool), low ≤ k → high ≤ k + fuel →
      (crossOff low high step fuel k s).2.size = s.size ∧
      (∀ j, (crossOff low high step fuel k s).2.getD j false
          = (s.getD j false && !decide (∃ t, low + j = k + t * step ∧ low + j < high))) ∧
      high ≤ (crossOff low high step fuel k s).1 ∧
      (∃ t, (crossOff low high step fuel k s).1 = k + t * step) ∧
      ((crossOff low high step fuel k s).1 < high + step ∨ (crossOff low high step fuel k s).1 = k) := by
  intro fuel
  induction fuel with
  | zero =>
    intro k s hk hf
    rw [crossOff]
    refine ⟨rfl, ?_, by omega, ⟨0, by simp⟩, Or.inr rfl⟩
    intro j
    have : ¬ ∃ t, low + j = k + t * step ∧ low + j < high := by
      rintro ⟨t, h1, h2⟩
      have : 0 ≤ t * step := Nat.zero_le _
      omega
    simp [this]
  | succ f ih =>
    intro k s hk hf
    by_cases hlt : k < high
    · rw [crossOff, if_pos hlt]
      obtain ⟨h1, h2, h3, ⟨t, h4⟩, h5⟩ := ih (k + step) (s.setIfInBounds (k - low) false) (by omega) (by omega)
      refine ⟨by rw [h1, Array.size_setIfInBounds], ?_, h3, ⟨t + 1, by rw [h4]; ring⟩, ?_⟩
      · intro j
        rw [h2 j, getD_setIfInBounds_false]
        by_cases hj : k - low = j
        · have hex : ∃ t, low + j = k + t * step ∧ low + j < high := ⟨0, by omega, by omega⟩
          simp [hj, hex]
        · have hiff : (∃ t, low + j = k + step + t * step ∧ low + j < high)
              ↔ (∃ t, low + j = k + t * step ∧ low + j < high) := by
            constructor
            · rintro ⟨t, ht1, ht2⟩; exact ⟨t + 1, by rw [ht1]; ring, ht2⟩
            · rintro ⟨t, ht1, ht2⟩
              rcases t with _ | t
              · exfalso; apply hj; omega
              · exact ⟨t, by rw [ht1]; ring, ht2⟩
          simp [hj, hiff]
      · rcases h5 with h5 | h5
        · left; exact h5
        · left; rw [h5]; omega
    · rw [crossOff, if_neg hlt]
      refine ⟨rfl, ?_, by omega, ⟨0, by simp⟩, Or.inr rfl⟩
      intro j
      have : ¬ ∃ t, low + j = k + t * step ∧ low + j < high := by
        rintro ⟨t, h1, h2⟩
        have : 0 ≤ t * step := Nat.zero_le _
        omega
      simp [this]

/-! ### `next[b]` and the level step -/

/-- which numbers a stride crosses: all multiples of `q` (`step = q`) or the odd ones (`step = 2 q`) -/
def Hit (q step n : ℕ) : Prop := q ∣ n ∧ (step ≠ q → n % 2 = 1)

/-- `k = next[b]` is the first crossed number `≥ low` -/
structure IsNext (q step low k : ℕ) : Prop where
  ge : low ≤ k
  lt : k < low + step
  hit : Hit q step k

/-- admissible strides: `q` itself, or `2 q` for an odd `q` -/
def StrideOK (q step : ℕ) : Prop := step = q ∨ (step = 2 * q ∧ q % 2 = 1)

theorem hit_add_stride {q step k : ℕ} (hs : StrideOK q step) (hk : Hit q step k) (t : ℕ) :
    Hit q step (k + t * step) := by
  obtain ⟨hd, hodd⟩ := hk
  rcases hs with hs | ⟨hs, _⟩
  · subst hs
    exact ⟨Dvd.dvd.add hd (Dvd.intro_left t rfl), fun h => absurd rfl h⟩
  · refine ⟨Dvd.dvd.add hd ?_, ?_⟩
    · rw [hs]; exact Dvd.dvd.mul_left (Dvd.intro_left 2 rfl) t
    · intro hne
      have := hodd hne
      have e : t * step = 2 * (t * q) := by rw [hs]; ring
      rw [e]; omega

theorem same_class {q step a b : ℕ} (hs : StrideOK q step) (ha : Hit q step a) (hb : Hit q step b)
    (hab : a ≤ b) : step ∣ b - a := by
  rcases hs with hs | ⟨hs, hq⟩
  · subst hs
    exact Nat.dvd_sub hb.1 ha.1
  · have hne : step ≠ q := by
      intro h
      rw [hs] at h
      have : q = 0 := by omega
      rw [this] at hq; omega
    have h2 : 2 ∣ b - a := by
      have := ha.2 hne; have := hb.2 hne; omega
    have hq' : q ∣ b - a := Nat.dvd_sub hb.1 ha.1
    rw [hs]
    exact Nat.Coprime.mul_dvd_of_dvd_of_dvd ((Nat.coprime_two_left).2 (Nat.odd_iff.2 hq)) h2 hq'

/-- from `next[b]` on, the stride visits exactly the numbers it is meant to cross -/
theorem stride_iff_hit {q step low k n : ℕ} (hstep : 0 < step) (hs : StrideOK q step) (hk : IsNext q step low k)
    (hn : low ≤ n) : (∃ t, n = k + t * step) ↔ Hit q step n := by
  constructor
  · rintro ⟨t, rfl⟩
    exact hit_add_stride hs hk.hit t
  · intro hh
    rcases Nat.lt_or_ge n k with hlt | hge
    · exfalso
      obtain ⟨c, hc⟩ := same_class hs hh hk.hit hlt.le
      have hcpos : 1 ≤ c := by
        rcases Nat.eq_zero_or_pos c with h0 | h0
        · subst h0; omega
        · exact h0
      have : step ≤ step * c := Nat.le_mul_of_pos_right _ hcpos
      have := hk.lt
      omega
    · obtain ⟨c, hc⟩ := same_class hs hk.hit hh hge
      exact ⟨c, by rw [Nat.mul_comm]; omega⟩

/-- **level step**: crossing off from `next[b]` lifts the window `[low, high)` from level `b − 1` to level `b` and
    leaves `next[b]` ready for a window starting at `high` (the number 0, at index 0 of pi_lmo2's unsegmented sieve, is
    never crossed and never looked at: hence `max low 1`) -/
theorem crossOff_level {s : Array Bool} {low high b step k : ℕ} (hb : 1 ≤ b)
    (hOK : SieveOK s low (high - low) (b - 1))
    (hs : step = Spec.p b ∨ (step = 2 * Spec.p b ∧ 2 ≤ b))
    (hk : IsNext (Spec.p b) step (max low 1) k) :
    SieveOK (crossOff low high step (high - low) k s).2 low (high - low) b ∧
      (max low 1 ≤ high → IsNext (Spec.p b) step high (crossOff low high step (high - low) k s).1) := by
  have hppos : 0 < Spec.p b := Spec.p_pos b
  have hstep : 0 < step := by rcases hs with h | ⟨h, _⟩ <;> omega
  have hsOK : StrideOK (Spec.p b) step := by
    rcases hs with h | ⟨h, hb2⟩
    · exact Or.inl h
    · exact Or.inr ⟨h, Spec.p_odd hb2⟩
  have hlk : low ≤ k := le_trans (le_max_left _ _) hk.ge
  obtain ⟨_, h2, h3, ⟨t, h4⟩, h5⟩ := crossOff_spec low high step hstep (high - low) k s hlk (by omega)
  refine ⟨?_, fun hlh => ⟨h3, ?_, ?_⟩⟩
  · intro j hj hpos
    rw [h2 j]
    have hlt : low + j < high := by omega
    have hiff := stride_iff_hit hstep hsOK hk (n := low + j) (by rw [Nat.max_le]; omega)
    have hbb : b - 1 + 1 = b := by omega
    rw [← hbb, unsieved_succ, hbb, ← hOK j hj hpos]
    simp only [Bool.and_eq_true, Bool.not_eq_true', decide_eq_false_iff_not]
    constructor
    · rintro ⟨hsj, hno⟩
      refine ⟨hsj, fun hd => ?_⟩
      have hh : Hit (Spec.p b) step (low + j) := by
        refine ⟨hd, fun hne => ?_⟩
        rcases hs with h | ⟨_, hb2⟩
        · exact absurd h hne
        · have hu := (hOK j hj hpos).1 hsj 1 le_rfl (by omega)
          rw [Spec.p_one] at hu
          omega
      obtain ⟨t, ht⟩ := hiff.2 hh
      exact hno ⟨t, ht, hlt⟩
    · rintro ⟨hsj, hnd⟩
      refine ⟨hsj, ?_⟩
      rintro ⟨t, ht, _⟩
      exact hnd (hiff.1 ⟨t, ht⟩).1
  · rcases h5 with h5 | h5
    · exact h5
    · rw [h5]; have := hk.lt; omega
  · rw [h4]; exact hit_add_stride hsOK hk.hit t

/-- `next[b] = primes[b]` is the first multiple (the first odd multiple for `b ≥ 2`) that is `≥ 1` -/
theorem isNext_init {b step : ℕ} (hs : step = Spec.p b ∨ (step = 2 * Spec.p b ∧ 2 ≤ b)) :
    IsNext (Spec.p b) step 1 (Spec.p b) := by
  have hppos : 0 < Spec.p b := Spec.p_pos b
  refine ⟨hppos, by rcases hs with h | ⟨h, _⟩ <;> omega, dvd_rfl, fun hne => ?_⟩
  rcases hs with h | ⟨_, hb2⟩
  · exact absurd h hne
  · exact Spec.p_odd hb2

/-! ### the leaf loop -/

/-- what the leaf loop subtracts for `m` (with the level `a = b − 1` of the sieve) -/
noncomputable def leafVal (T : Tables) (x prime a m : ℕ) : ℤ :=
  if T.muOf m ≠ 0 ∧ prime < T.lpfOf m then T.muOf m * (Spec.phi (x / (prime * m)) a : ℤ) else 0

/-- **leaf loop**: with the pointer `i` not beyond the first leaf position and all leaf positions inside the window, the
    loop over `m = minM + n, …, minM + 1` keeps `phi = φ(low + i − 1, a)` and subtracts `μ(m) φ(x / (prime m), a)` per leaf -/
theorem leafLoop_spec {T : Tables} {x prime low len a minM : ℕ} {sieve : Array Bool}
    (hOK : SieveOK sieve low len a) (hlen : len ≤ sieve.size) (hprime : 0 < prime) :
    ∀ (n i : ℕ) (phi s2 : ℤ), 1 ≤ low + i → i ≤ len → phi = (Spec.phi (low + i - 1) a : ℤ) →
      (1 ≤ n → low + i ≤ x / (prime * (minM + n)) + 1) →
      (1 ≤ n → x / (prime * (minM + 1)) + 1 ≤ low + len) →
      ∃ i', leafLoop T x prime low sieve minM n i phi s2
          = some (i', (Spec.phi (low + i' - 1) a : ℤ), s2 - ∑ m ∈ Ioc minM (minM + n), leafVal T x prime a m)
        ∧ i ≤ i' ∧ i' ≤ len := by
  intro n
  induction n with
  | zero =>
    intro i phi s2 _ hil hphi _ _
    refine ⟨i, ?_, le_rfl, hil⟩
    rw [leafLoop, hphi]; simp
  | succ n ih =>
    intro i phi s2 hpos hil hphi hlo hhi
    have hlo' : low + i ≤ x / (prime * (minM + n + 1)) + 1 := hlo (by omega)
    have hhi' := hhi (by omega)
    have hmono : ∀ m, minM + 1 ≤ m → x / (prime * m) ≤ x / (prime * (minM + 1)) := fun m hm =>
      Nat.div_le_div_left (Nat.mul_le_mul_left _ hm) (Nat.mul_pos hprime (by omega))
    have hsum : ∑ m ∈ Ioc minM (minM + (n + 1)), leafVal T x prime a m
        = ∑ m ∈ Ioc minM (minM + n), leafVal T x prime a m + leafVal T x prime a (minM + n + 1) := by
      rw [show minM + (n + 1) = (minM + n) + 1 from rfl, Finset.sum_Ioc_succ_top (by omega)]
    have hnext : 1 ≤ n → x / (prime * (minM + n + 1)) ≤ x / (prime * (minM + n)) := fun hn =>
      Nat.div_le_div_left (Nat.mul_le_mul_left _ (by omega)) (Nat.mul_pos hprime (by omega))
    rw [leafLoop]
    simp only []
    by_cases hleaf : T.muOf (minM + n + 1) ≠ 0 ∧ prime < T.lpfOf (minM + n + 1)
    · rw [if_pos hleaf]
      set xpm := x / (prime * (minM + n + 1)) with hx
      have hxle : xpm ≤ x / (prime * (minM + 1)) := hmono _ (by omega)
      have hN : xpm + 1 - low ≤ len := by omega
      rw [if_neg (by omega)]
      have hcb := countBelow_spec hOK (xpm + 1 - low) i (xpm + 1 - low) phi hN (by omega) (by omega) hpos hphi
      rw [hcb]
      simp only []
      have e : low + (xpm + 1 - low) - 1 = xpm := by omega
      obtain ⟨i', h1, h2, h3⟩ := ih (xpm + 1 - low) (Spec.phi (low + (xpm + 1 - low) - 1) a)
        (s2 - T.muOf (minM + n + 1) * (Spec.phi (low + (xpm + 1 - low) - 1) a : ℤ)) (by omega) hN rfl
        (fun hn => by have := hnext hn; omega) (fun _ => hhi')
      refine ⟨i', ?_, by omega, h3⟩
      rw [h1, hsum]
      unfold leafVal
      rw [if_pos hleaf, e, ← hx]
      congr 2; ring
    · rw [if_neg hleaf]
      obtain ⟨i', h1, h2, h3⟩ := ih i phi s2 hpos hil hphi
        (fun hn => by have := hnext hn; omega) (fun _ => hhi')
      refine ⟨i', ?_, h2, h3⟩
      rw [h1, hsum]
      unfold leafVal
      rw [if_neg hleaf, add_zero]

end Pc.SimpleAlgs
