/-
C13 — arithmetic lemmas about the repaired `int128_t` operations of `PcModel/Calc.lean`:
every operation that returns a value returns the exact mathematical value, and that value is representable.
-/
import PcModel.Calc
import Mathlib.Tactic.Ring
import Mathlib.Tactic.Linarith
import Mathlib.Tactic.NormNum
import Mathlib.Tactic.Push
import Mathlib.Tactic.ByContra
import Mathlib.Tactic.Cases

namespace Pc.Calc

theorem MIN_val : MIN = -170141183460469231731687303715884105728 := by norm_num [MIN]
theorem MAX_val : MAX = 170141183460469231731687303715884105727 := by norm_num [MAX]

theorem inR_iff (v : Int) : inR v = true ↔ MIN ≤ v ∧ v ≤ MAX := by simp [inR]

theorem chk_ok {v w : Int} (h : chk v = .ok w) : w = v ∧ inR v = true := by
  unfold chk at h
  split at h
  · rename_i hv
    exact ⟨by cases h; rfl, hv⟩
  · cases h

theorem inR_zero : inR 0 = true := by rw [inR_iff, MIN_val, MAX_val]; omega
theorem inR_one : inR 1 = true := by rw [inR_iff, MIN_val, MAX_val]; omega

/-! ### bitwise operations never leave the range -/

theorem natLdiff_le (a b : Nat) : natLdiff a b ≤ a := Nat.sub_le _ _

theorem land_inR {a b : Int} (ha : inR a = true) (hb : inR b = true) : inR (land a b) = true := by
  rw [inR_iff, MIN_val, MAX_val] at *
  cases a with
  | ofNat m =>
    cases b with
    | ofNat n =>
      have := @Nat.and_le_left m n
      simp only [land]; simp only [Int.ofNat_eq_natCast] at *; omega
    | negSucc n =>
      have := natLdiff_le m n
      simp only [land]; simp only [Int.ofNat_eq_natCast] at *; omega
  | negSucc m =>
    cases b with
    | ofNat n =>
      have := natLdiff_le n m
      simp only [land]; simp only [Int.ofNat_eq_natCast] at *; omega
    | negSucc n =>
      have hm : m < 2 ^ 127 := by omega
      have hn : n < 2 ^ 127 := by omega
      have := Nat.or_lt_two_pow hm hn
      simp only [land]; omega

theorem lor_inR {a b : Int} (ha : inR a = true) (hb : inR b = true) : inR (lor a b) = true := by
  rw [inR_iff, MIN_val, MAX_val] at *
  cases a with
  | ofNat m =>
    cases b with
    | ofNat n =>
      simp only [Int.ofNat_eq_natCast] at *
      have hm : m < 2 ^ 127 := by omega
      have hn : n < 2 ^ 127 := by omega
      have := Nat.or_lt_two_pow hm hn
      simp only [lor]; omega
    | negSucc n =>
      have := natLdiff_le n m
      simp only [lor]; omega
  | negSucc m =>
    cases b with
    | ofNat n =>
      have := natLdiff_le m n
      simp only [lor]; omega
    | negSucc n =>
      have := @Nat.and_le_left m n
      simp only [lor]; omega

theorem lnot_inR {a : Int} (ha : inR a = true) : inR (lnot a) = true := by
  rw [inR_iff, MIN_val, MAX_val] at *
  unfold lnot; omega

/-! ### shifts, division -/

theorem shr_inR {a : Int} (ha : inR a = true) (k : Nat) : inR (a >>> k) = true := by
  rw [inR_iff, MIN_val, MAX_val] at *
  rw [Int.shiftRight_eq_div_pow]
  have hd : (0 : Int) < ((2 ^ k : Nat) : Int) := by positivity
  have hd1 : (1 : Int) ≤ ((2 ^ k : Nat) : Int) := hd
  constructor
  · apply Int.le_ediv_of_mul_le hd
    nlinarith
  · apply Int.ediv_le_of_le_mul hd
    nlinarith

theorem tdiv_inR {a b : Int} (ha : inR a = true) (hb0 : b ≠ 0) (hmin : ¬(a = MIN ∧ b = -1)) :
    inR (Int.tdiv a b) = true := by
  rw [inR_iff, MIN_val, MAX_val] at *
  have h1 := Int.natAbs_tdiv a b
  have h2 := Int.natAbs_tdiv_le_natAbs a b
  have hna : a.natAbs ≤ 2 ^ 127 := by omega
  constructor
  · omega
  · by_contra hq
    push Not at hq
    have hq2 : (a.tdiv b).natAbs = 2 ^ 127 := by omega
    have hA : a.natAbs = 2 ^ 127 := by omega
    have hB : b.natAbs = 1 := by
      by_contra hb1
      have hb2 : 2 ≤ b.natAbs := by omega
      have h3 : a.natAbs / b.natAbs ≤ a.natAbs / 2 := Nat.div_le_div_left hb2 (by norm_num)
      have h4 : a.natAbs.div b.natAbs = a.natAbs / b.natAbs := rfl
      omega
    have ha' : a = -170141183460469231731687303715884105728 := by omega
    have hb' : b = 1 := by
      rcases Int.natAbs_eq b with h | h
      · omega
      · exfalso; apply hmin; exact ⟨ha', by omega⟩
    subst hb'
    rw [Int.tdiv_one] at hq
    omega

theorem tmod_inR {a b : Int} (hb : inR b = true) (hb0 : b ≠ 0) : inR (Int.tmod a b) = true := by
  rw [inR_iff, MIN_val, MAX_val] at *
  have h1 := Int.natAbs_tmod a b
  have h2 : a.natAbs % b.natAbs < b.natAbs := Nat.mod_lt _ (by omega)
  omega

/-! ### `pow` -/

theorem pow_split (x : Int) (n : Nat) : x ^ n = x ^ (n % 2) * (x * x) ^ (n / 2) := by
  conv_lhs => rw [← Nat.mod_add_div n 2]
  rw [pow_add, pow_mul, pow_two]

/-- a successful run of the repaired loop returns `res * x^n`, all the products it formed are
    representable (they are exactly `powProducts`), and the result is representable if `res` was -/
theorem powLoop_ok : ∀ (f : Nat) (res x : Int) (n : Nat) (v : Int), n < 2 ^ f →
    powLoop mulC f res x n = .ok v →
    v = res * x ^ n ∧ (∀ p ∈ powProducts f res x n, inR p = true) ∧ (inR res = true → inR v = true) := by
  intro f
  induction f with
  | zero =>
    intro res x n v hn h
    have : n = 0 := by omega
    subst this
    simp only [powLoop] at h
    simp only [if_true] at h
    cases h
    simp [powProducts]
  | succ f ih =>
    intro res x n v hn h
    rw [powLoop] at h
    rw [powProducts]
    by_cases hn0 : n = 0
    · subst hn0
      simp only [if_true] at h
      cases h
      simp
    · simp only [hn0, if_false] at h ⊢
      have hn2 : n / 2 < 2 ^ f := by
        rw [pow_succ] at hn; omega
      by_cases hodd : n % 2 = 1
      · simp only [hodd, if_true] at h ⊢
        cases hm : mulC res x with
        | error e => rw [hm] at h; cases h
        | ok res' =>
          rw [hm] at h
          simp only at h
          obtain ⟨hres', hres'R⟩ := chk_ok hm
          by_cases hh : n / 2 = 0
          · simp only [hh, if_true] at h ⊢
            cases h
            refine ⟨?_, ?_, fun _ => ?_⟩
            · rw [hres', pow_split x n, hodd, hh]; ring
            · intro p hp
              simp at hp; subst hp; exact hres'R
            · rw [hres']; exact hres'R
          · simp only [hh, if_false] at h ⊢
            cases hx : mulC x x with
            | error e => rw [hx] at h; cases h
            | ok x' =>
              rw [hx] at h
              simp only at h
              obtain ⟨hx', hx'R⟩ := chk_ok hx
              obtain ⟨e1, e2, e3⟩ := ih res' x' (n / 2) v hn2 h
              refine ⟨?_, ?_, fun _ => ?_⟩
              · rw [e1, hres', hx', pow_split x n, hodd]; ring
              · intro p hp
                simp only [List.singleton_append, List.mem_cons] at hp
                rcases hp with hp | hp | hp
                · subst hp; exact hres'R
                · subst hp; exact hx'R
                · rw [← hres', ← hx'] at hp; exact e2 p hp
              · exact e3 (by rw [hres']; exact hres'R)
      · have heven : n % 2 = 0 := by omega
        simp only [hodd, if_false] at h ⊢
        have hh : n / 2 ≠ 0 := by omega
        simp only [hh, if_false] at h ⊢
        cases hx : mulC x x with
        | error e => rw [hx] at h; cases h
        | ok x' =>
          rw [hx] at h
          simp only at h
          obtain ⟨hx', hx'R⟩ := chk_ok hx
          obtain ⟨e1, e2, e3⟩ := ih res x' (n / 2) v hn2 h
          refine ⟨?_, ?_, fun hr => e3 hr⟩
          · rw [e1, hx', pow_split x n, heven]; ring
          · intro p hp
            simp only [List.nil_append, List.mem_cons] at hp
            rcases hp with hp | hp
            · subst hp; exact hx'R
            · rw [← hx'] at hp; exact e2 p hp

theorem powC_ok {x n v : Int} (hn : inR n = true) (h : powC x n = .ok v) :
    0 ≤ n ∧ v = x ^ n.toNat ∧ (∀ p ∈ powProducts 128 1 x n.toNat, inR p = true) ∧ inR v = true := by
  unfold powC at h
  split at h
  · cases h
  · rename_i hneg
    rw [inR_iff, MIN_val, MAX_val] at hn
    have hlt : n.toNat < 2 ^ 128 := by omega
    obtain ⟨e1, e2, e3⟩ := powLoop_ok 128 1 x n.toNat v hlt h
    exact ⟨by omega, by rw [e1]; ring, e2, e3 inR_one⟩

/-! ### `calculate` -/

/-- Soundness of the repaired `calculate`: on representable operands, a returned value is the exact
    value of the operator application, is representable, and the side conditions `stepOk` hold. -/
theorem binC_sound {o : Op} {a b v : Int} (ha : inR a = true) (hb : inR b = true)
    (h : binC o a b = .ok v) : binExact o a b = some v ∧ inR v = true ∧ stepOk o a b := by
  cases o with
  | bor => simp only [binC] at h; cases h; exact ⟨rfl, lor_inR ha hb, trivial⟩
  | band => simp only [binC] at h; cases h; exact ⟨rfl, land_inR ha hb, trivial⟩
  | shl =>
    simp only [binC] at h
    split at h
    · cases h
    · rename_i hc
      push Not at hc
      obtain ⟨hv, hR⟩ := chk_ok h
      refine ⟨?_, by rw [hv]; exact hR, ⟨hc.2.1, by omega⟩⟩
      simp only [binExact]
      rw [if_neg (by omega), hv]
  | shr =>
    simp only [binC] at h
    split at h
    · cases h
    · rename_i hc
      push Not at hc
      cases h
      refine ⟨?_, shr_inR ha _, ⟨hc.1, by omega⟩⟩
      simp only [binExact]
      rw [if_neg (by omega)]
  | add => simp only [binC] at h; obtain ⟨hv, hR⟩ := chk_ok h; subst hv; exact ⟨rfl, hR, trivial⟩
  | sub => simp only [binC] at h; obtain ⟨hv, hR⟩ := chk_ok h; subst hv; exact ⟨rfl, hR, trivial⟩
  | mul => simp only [binC, mulC] at h; obtain ⟨hv, hR⟩ := chk_ok h; subst hv; exact ⟨rfl, hR, trivial⟩
  | div =>
    simp only [binC] at h
    split at h
    · cases h
    · rename_i hb0
      split at h
      · cases h
      · rename_i hmin
        cases h
        refine ⟨?_, tdiv_inR ha hb0 hmin, trivial⟩
        simp only [binExact]; rw [if_neg hb0]
  | mod =>
    simp only [binC] at h
    split at h
    · cases h
    · rename_i hb0
      split at h
      · cases h
      · cases h
        refine ⟨?_, tmod_inR hb hb0, trivial⟩
        simp only [binExact]; rw [if_neg hb0]
  | pow =>
    simp only [binC] at h
    obtain ⟨h0, hv, hp, hR⟩ := powC_ok hb h
    refine ⟨?_, hR, ⟨h0, hp⟩⟩
    simp only [binExact]; rw [if_neg (by omega), hv]
  | exp =>
    simp only [binC] at h
    cases hp : powC 10 b with
    | error e => rw [hp] at h; cases h
    | ok p =>
      rw [hp] at h
      simp only [mulC] at h
      obtain ⟨h0, hv, hpr, _⟩ := powC_ok hb hp
      obtain ⟨hv2, hR⟩ := chk_ok h
      refine ⟨?_, by rw [hv2]; exact hR, ⟨h0, hpr⟩⟩
      simp only [binExact]; rw [if_neg (by omega), hv2, hv]

end Pc.Calc
