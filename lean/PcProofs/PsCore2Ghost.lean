/-
C18 core, second half: the ghost lists of EratSmall / EratMedium over one segment — a prime is never hit (soundness), a composite
whose least prime factor is a stored prime is hit (completeness), and `ListInv` is carried to the next segment.
-/
import PcProofs.PsCore2AddInv
import Mathlib.Data.List.GetD

namespace Pc.PsCore
open Pc.PsWheelSpec
open Pc.Sieve (Bytes bitAt)

theorem forall₂_getD_at {α β : Type} {R : α → β → Prop} {l : List α} {l' : List β} (h : List.Forall₂ R l l') (i : ℕ)
    (hi : i < l.length) (d : α) (d' : β) : R (l.getD i d) (l'.getD i d') := by
  have hlen := h.length_eq
  rw [List.getD_eq_getElem l d hi, List.getD_eq_getElem l' d' (by omega)]
  exact List.Forall₂.get h hi (by omega)

theorem mem_getD {α : Type} (l : List α) (i : ℕ) (hi : i < l.length) (d : α) : l.getD i d ∈ l := by
  rw [List.getD_eq_getElem l d hi]; exact List.getElem_mem hi

theorem exists_getD_of_mem {α : Type} (l : List α) (a : α) (h : a ∈ l) (d : α) : ∃ i, i < l.length ∧ l.getD i d = a := by
  obtain ⟨i, hi, e⟩ := List.getElem_of_mem h
  exact ⟨i, hi, by rw [List.getD_eq_getElem l d hi]; exact e⟩

/-- a multiple `q·t` with `2 ≤ q ≤ t` is not prime -/
theorem not_prime_of_hit {M q L u u' p : ℕ} (hq : 2 ≤ q) (hu : q ≤ u) (h : Hit M q L u u' p) : ¬ Nat.Prime (numOf L p) := by
  obtain ⟨t, h1, _, _, h4⟩ := h
  rw [← h4]
  exact Nat.not_prime_mul (by omega) (by omega)

/-- relation between the ghost lists before / after a segment of `n` bytes, as delivered by `smallCrossOff_spec` / `mediumCrossOff_spec2` -/
def GRel (L n : ℕ) (g g' : ℕ × ℕ) : Prop := g'.1 = g.1 ∧ Adv 30 g.1 L n g.2 g'.2

/-- soundness: a prime is hit by no stored prime -/
theorem list_sound {L : ℕ} {ps : Array SPrime} {gs gs' : List (ℕ × ℕ)} (h : ListInv L ps gs) (p : ℕ) (hp : Nat.Prime (numOf L p)) :
    ∀ i, i < gs.length → ¬ Hit 30 (gs.getD i (0, 0)).1 L (gs.getD i (0, 0)).2 (gs'.getD i (0, 0)).2 p := by
  intro i hi hh
  have hmem := mem_getD gs i hi (0, 0)
  have hst : 30 ≤ (gs.getD i (0, 0)).1 := by
    obtain ⟨j, hj, e⟩ := exists_getD_of_mem gs _ hmem (0, 0)
    have := forall₂_getD_at h.1 j (by rw [← h.1.length_eq] at hj; exact hj) default (0, 0)
    rw [e] at this; exact this.q_ge
  exact not_prime_of_hit (by omega) (h.2 _ hmem).1 hh hp

/-- completeness: a number `x = q·t` of the segment, `q` a stored prime, `t ≥ q` coprime to 30, is hit -/
theorem list_complete {L n : ℕ} (hL : 30 ∣ L) {ps ps' : Array SPrime} {gs gs' : List (ℕ × ℕ)} (h : ListInv L ps gs)
    (hrel : List.Forall₂ (GRel L n) gs gs') (hst : List.Forall₂ (Stored (L + 30 * n)) ps'.toList gs')
    (g : ℕ × ℕ) (hg : g ∈ gs) (t p : ℕ) (ht : g.1 ≤ t) (hc : Nat.Coprime t 30) (hx : g.1 * t = numOf L p) (hp : p < 8 * n) :
    ∃ i, i < gs.length ∧ Hit 30 (gs.getD i (0, 0)).1 L (gs.getD i (0, 0)).2 (gs'.getD i (0, 0)).2 p := by
  obtain ⟨i, hi, e⟩ := exists_getD_of_mem gs g hg (0, 0)
  refine ⟨i, hi, ?_⟩
  rw [e]
  have hlen := hrel.length_eq
  have hr : GRel L n (gs.getD i (0, 0)) (gs'.getD i (0, 0)) := forall₂_getD_at hrel i hi (0, 0) (0, 0)
  rw [e] at hr
  have hs : Stored (L + 30 * n) (ps'.toList.getD i default) (gs'.getD i (0, 0)) :=
    forall₂_getD_at hst i (by rw [hst.length_eq]; omega) default (0, 0)
  have hgt := pos_gt hs.pos (by omega)
  rw [hr.1] at hgt
  have hlow : L + 6 < g.1 * t := by rw [hx]; have := numOf_bounds L p; omega
  have hut : g.2 ≤ t := (h.2 g hg).2 t ht hc hlow
  have hxlt : g.1 * t < L + 30 * n + 7 := by rw [hx]; exact (numOf_lt_iff L p n).mp hp
  refine ⟨t, hut, ?_, hc, hx⟩
  by_contra hge
  have : g.1 * (gs'.getD i (0, 0)).2 ≤ g.1 * t := Nat.mul_le_mul_left _ (by omega)
  omega

/-- the invariant of the list for the next segment -/
theorem listInv_next {L n : ℕ} {ps ps' : Array SPrime} {gs gs' : List (ℕ × ℕ)} (h : ListInv L ps gs)
    (hrel : List.Forall₂ (GRel L n) gs gs') (hst : List.Forall₂ (Stored (L + 30 * n)) ps'.toList gs') :
    ListInv (L + 30 * n) ps' gs' := by
  refine ⟨hst, ?_⟩
  intro g' hg'
  obtain ⟨i, hi, e⟩ := exists_getD_of_mem gs' g' hg' (0, 0)
  have hlen := hrel.length_eq
  have hr : GRel L n (gs.getD i (0, 0)) (gs'.getD i (0, 0)) := forall₂_getD_at hrel i (by omega) (0, 0) (0, 0)
  rw [e] at hr
  have hp := h.2 _ (mem_getD gs i (by omega) (0, 0))
  rw [hr.1]
  exact pending_adv hp hr.2

/-- membership of a prime is carried over -/
theorem list_mem_next {L n : ℕ} {gs gs' : List (ℕ × ℕ)} (hrel : List.Forall₂ (GRel L n) gs gs') (q : ℕ)
    (h : ∃ g ∈ gs, g.1 = q) : ∃ g ∈ gs', g.1 = q := by
  obtain ⟨g, hg, e⟩ := h
  obtain ⟨i, hi, e2⟩ := exists_getD_of_mem gs g hg (0, 0)
  have hlen := hrel.length_eq
  have hr : GRel L n (gs.getD i (0, 0)) (gs'.getD i (0, 0)) := forall₂_getD_at hrel i hi (0, 0) (0, 0)
  rw [e2] at hr
  exact ⟨_, mem_getD gs' i (by omega) (0, 0), by rw [hr.1]; exact e⟩

end Pc.PsCore
