/-
WP hard: the chunk theorem of `S2_hard_thread` — `s2HardThread_eq`:
for every work item `(low, segments, segment_size)` the model of S2_hard.cpp:55-180 returns the sum of the hard special leaves
whose position `x / (p_b m)` lies in `[low, min(low + segment_size * segments, z))`; in particular the `min_b` / `max_b`
pruning loses no leaf, the `goto next_segment` exits are sound and no table is read out of bounds.
-/
import PcProofs.HardS2

namespace Pc.Hard
open Nat Finset
open scoped Nat.Prime ArithmeticFunction.Moebius

local notation "p" => Spec.p
local notation "φ" => Spec.phi

variable {σ : Type} {S : SieveOps σ}

theorem sqrt_le_bound {y z : ℕ} (hyz : y ≤ z) (hy : 1 ≤ y) : Nat.sqrt z ≤ min y (z / Nat.sqrt y) ∨ y ≤ Nat.sqrt z := by
  rcases Nat.lt_or_ge (Nat.sqrt z) y with h | h
  · left
    rw [le_min_iff]
    refine ⟨h.le, ?_⟩
    rw [Nat.le_div_iff_mul_le (Nat.sqrt_pos.2 hy)]
    calc Nat.sqrt z * Nat.sqrt y ≤ Nat.sqrt z * Nat.sqrt z := Nat.mul_le_mul_left _ (Nat.sqrt_le_sqrt hyz)
      _ ≤ z := Nat.sqrt_le z
  · right; exact h

theorem sqrt_y_le_P {y z : ℕ} (hyz : y ≤ z) (hy : 1 ≤ y) : Nat.sqrt y ≤ min y (z / Nat.sqrt y) := by
  rw [le_min_iff]
  refine ⟨Nat.sqrt_le_self y, ?_⟩
  rw [Nat.le_div_iff_mul_le (Nat.sqrt_pos.2 hy)]
  exact le_trans (Nat.sqrt_le y) hyz

/-- the three-way minimum of `max_b` stays inside the tables -/
theorem arg_le_P {x y z low1 : ℕ} (hyz : y ≤ z) (hy : 1 ≤ y) :
    min (min (Nat.sqrt (x / low1)) (Nat.sqrt z)) y ≤ min y (z / Nat.sqrt y) := by
  rcases sqrt_le_bound hyz hy with h | h
  · exact le_trans (le_trans (min_le_left _ _) (min_le_right _ _)) h
  · rw [le_min_iff]
    refine ⟨min_le_right _ _, le_trans (min_le_right _ _) ?_⟩
    rw [Nat.le_div_iff_mul_le (Nat.sqrt_pos.2 hy)]
    calc y * Nat.sqrt y ≤ Nat.sqrt z * Nat.sqrt z := Nat.mul_le_mul h (le_trans (Nat.sqrt_le_self y) h)
      _ ≤ z := Nat.sqrt_le z

/-- the level enumeration of S2_hard_thread meets the engine's requirements -/
theorem s2_lvspec {e : Env} {P tmax x y z minB maxB low0 limit : ℕ} (hE : EnvOK e P) (hP : P = min y (z / Nat.sqrt y))
    (hF : FactorOK e tmax y) (hy : 1 ≤ y) (hyz : y ≤ z) (hzyx : z * y ≤ x) (hmin : 5 ≤ minB) (hmax : maxB ≤ π P) :
    LvSpec (s2Lv e x y z (e.pi (isqrtN y)) maxB) (brk x y z) (WS2 x y z) minB maxB low0 limit := by
  have hyx : y * y ≤ x := le_trans (Nat.mul_le_mul_right y hyz) hzyx
  have hzx : z ≤ x := le_trans (Nat.le_mul_of_pos_right z hy) hzyx
  have hPy : P ≤ y := by rw [hP]; exact min_le_left _ _
  have hsP : Nat.sqrt y ≤ P := by rw [hP]; exact sqrt_y_le_P hyz hy
  have hpis : e.pi (isqrtN y) = π (Nat.sqrt y) := by rw [isqrtN_eq, hE.pi_eq _ hsP]
  have hsel : ∀ b, b ≤ maxB → (b ≤ min (e.pi (isqrtN y)) maxB ↔ b ≤ π (Nat.sqrt y)) := by
    intro b hb; rw [hpis, le_min_iff]; exact ⟨fun h => h.1, fun h => ⟨h, hb⟩⟩
  refine ⟨?_, ?_, ?_, ?_, ?_, ?_⟩
  · -- brk_none
    intro b lo hi hb1 hb2 _ hlh _ hbrk
    have hbP : b ≤ π P := le_trans hb2 hmax
    have hb0 : 1 ≤ b := by omega
    have hpb : e.primes b = p b := hE.primes_eq b hb0 hbP
    have hq0 := Spec.p_pos b
    unfold s2Lv
    by_cases hs : b ≤ π (Nat.sqrt y)
    · rw [if_pos ((hsel b hb2).2 hs)]
      unfold brk cap at hbrk
      rw [if_pos hs, if_pos hs] at hbrk
      unfold s2Level1
      rw [hpb, hE.primesSize, if_neg (by omega), if_neg (by omega), if_pos hbrk]
    · rw [if_neg (fun h => hs ((hsel b hb2).1 h))]
      unfold brk cap at hbrk
      rw [if_neg hs, if_neg hs] at hbrk
      have hqs : Nat.sqrt y < p b := (Spec.lt_p_iff hb0).2 (by omega)
      unfold s2Level2
      rw [hpb, hE.primesSize, hE.piMax, if_neg (by omega), if_neg (by omega)]
      set a := min (min (x / p b / max lo 1) y) (z / p b) with ha
      have haP : a ≤ P := by
        rw [hP, le_min_iff]
        refine ⟨le_trans (min_le_left _ _) (min_le_right _ _), le_trans (min_le_right _ _) ?_⟩
        exact Nat.div_le_div_left hqs.le (Nat.sqrt_pos.2 hy)
      rw [if_neg (by omega), hE.pi_eq a haP, if_neg (by have := Spec.pi_mono haP; omega), if_pos]
      rcases Nat.eq_zero_or_pos (π a) with h0 | h0
      · rw [h0, hE.primes_zero]; exact Nat.zero_le _
      · rw [hE.primes_eq _ h0 (Spec.pi_mono haP)]; exact Spec.p_le_p hbrk
  · -- items
    intro b lo hi hb1 hb2 _ hlh _ hnb
    have hbP : b ≤ π P := le_trans hb2 hmax
    unfold s2Lv WS2
    by_cases hs : b ≤ π (Nat.sqrt y)
    · rw [if_pos ((hsel b hb2).2 hs), if_pos hs]
      exact s2Level1_items hE hF hyx (by omega) hbP hs hlh hnb
    · rw [if_neg (fun h => hs ((hsel b hb2).1 h)), if_neg hs]
      exact s2Level2_items hE hP hy hzx (by omega) hbP hs hlh hnb
  · intro b lo lo' _ _ hll hb
    exact brk_mono_lo x y z b hll hb
  · intro b lo _ _ hbrk b' lo' hi' hbb hb' hll
    exact WS2_zero_of_brk hyx hbb (le_trans hb' (le_trans hmax (Spec.pi_mono hPy))) (by omega) hll hbrk hi'
  · intro b lo mid hi h1 h2
    exact WS2_add x y z b lo mid hi h1 h2
  · intro b lo
    exact WS2_empty x y z b lo

/-- a level whose leaves all miss the window contributes nothing -/
theorem WS2_zero_of_no_leaf {x y z b lo hi : ℕ} (hb1 : 1 ≤ b)
    (h : ∀ m, 0 < m → m ≤ y → p b < m → (¬ b ≤ π (Nat.sqrt y) → p b * m ≤ z) →
      ¬ (lo ≤ x / (p b * m) ∧ x / (p b * m) < hi)) : WS2 x y z b lo hi = 0 := by
  unfold WS2
  split_ifs with hs
  · unfold W1
    rw [Finset.sum_eq_zero, neg_zero]
    intro m hm
    rw [mem_filter, mem_Ioc] at hm
    rw [if_neg (h m (good_pos hm.2) hm.1.2 (good_lt hm.2) (fun hh => absurd hs hh))]
  · unfold W2
    apply Finset.sum_eq_zero
    intro j hj
    rw [mem_filter, mem_Ioc] at hj
    have hj1 : 1 ≤ j := by omega
    rw [if_neg (h (p j) (Spec.p_pos j) ((Spec.p_le_iff hj1).2 hj.1.2) (Spec.p_lt_p hb1 hj.1.1) (fun _ => hj.2))]

theorem phi_even {L a : ℕ} (h2 : 2 ∣ L) (ha : 1 ≤ a) : φ L a = φ (L - 1) a := by
  rcases Nat.eq_zero_or_pos L with h0 | h0
  · subst h0; rfl
  · have := Pc.SimpleAlgs.phi_succ (L - 1) a
    have e : L - 1 + 1 = L := by omega
    rw [e] at this
    rw [this, if_neg, Nat.add_zero]
    intro hu
    exact hu 1 le_rfl ha (by rw [Spec.p_one]; exact h2)

/-- **`min_b` / `max_b` lose no leaf**: a level of `(c, π y]` outside `[min_b, max_b]` has no leaf in the chunk window -/
theorem s2_pruned {x y z b low limit maxArg a2 : ℕ} (hyz : y ≤ z) (hzyx : z * y ≤ x)
    (hb1 : 1 ≤ b) (hby : b ≤ π y) (hlim : 1 ≤ limit)
    (hmaxArg : maxArg = if limit ≤ y then Nat.sqrt y else min (min (Nat.sqrt (x / max low 1)) (Nat.sqrt z)) y)
    (ha2 : a2 ≤ z / limit)
    (hout : π maxArg < b ∨ b ≤ π a2) : WS2 x y z b low limit = 0 := by
  have hyx : y * y ≤ x := le_trans (Nat.mul_le_mul_right y hyz) hzyx
  have hq0 := Spec.p_pos b
  have hqy : p b ≤ y := (Spec.p_le_iff hb1).2 hby
  apply WS2_zero_of_no_leaf hb1
  intro m hm0 hmy hqm hz2 hw
  have hpm0 : 0 < p b * m := Nat.mul_pos hq0 hm0
  have hpos : 1 ≤ x / (p b * m) := pos_of_leaf hyx hqy hmy hq0 hm0
  rcases hout with hgt | hle
  · have hlt : maxArg < p b := (Spec.lt_p_iff hb1).2 hgt
    by_cases hly : limit ≤ y
    · -- max_b = π√y: beyond it only two-prime leaves, all at positions ≥ y ≥ limit
      rw [if_pos hly] at hmaxArg
      have hs : ¬ b ≤ π (Nat.sqrt y) := by
        rw [hmaxArg] at hgt; omega
      have hz := hz2 hs
      have : y ≤ x / (p b * m) := by
        rw [Nat.le_div_iff_mul_le hpm0]
        calc y * (p b * m) ≤ y * z := Nat.mul_le_mul_left _ hz
          _ = z * y := Nat.mul_comm _ _
          _ ≤ x := hzyx
      omega
    · rw [if_neg hly] at hmaxArg
      have hcase : Nat.sqrt (x / max low 1) < p b ∨ Nat.sqrt z < p b := by
        rw [hmaxArg] at hlt
        by_contra hc
        push Not at hc
        have : p b ≤ min (min (Nat.sqrt (x / max low 1)) (Nat.sqrt z)) y := by
          rw [le_min_iff, le_min_iff]; exact ⟨⟨hc.1, hc.2⟩, hqy⟩
        omega
      rcases hcase with h1 | h1
      · -- p_b² · low1 > x: every leaf of the level lies below low
        have h2 : x / max low 1 < p b * p b := Nat.sqrt_lt.1 h1
        have h3 : x < p b * p b * max low 1 := (Nat.div_lt_iff_lt_mul (by omega)).1 h2
        have h4 : p b * p b * max low 1 ≤ p b * m * max low 1 :=
          Nat.mul_le_mul_right _ (Nat.mul_le_mul_left _ hqm.le)
        have h5 : x / (p b * m) < max low 1 := by
          rw [Nat.div_lt_iff_lt_mul hpm0, Nat.mul_comm]; omega
        omega
      · have h2 : z < p b * p b := Nat.sqrt_lt.1 h1
        by_cases hs : b ≤ π (Nat.sqrt y)
        · have : p b ≤ Nat.sqrt y := (Spec.p_le_iff hb1).2 hs
          have := Nat.sqrt_le_sqrt hyz
          omega
        · have hz := hz2 hs
          have : p b * p b ≤ p b * m := Nat.mul_le_mul_left _ hqm.le
          omega
  · -- p_b ≤ z / limit: every leaf lies at or beyond limit
    have h1 : p b ≤ a2 := (Spec.p_le_iff hb1).2 hle
    have h2 : p b * limit ≤ z := by
      have := (Nat.le_div_iff_mul_le (by omega : 0 < limit)).1 (le_trans h1 ha2)
      exact this
    have : limit ≤ x / (p b * m) := by
      rw [Nat.le_div_iff_mul_le hpm0]
      calc limit * (p b * m) = p b * limit * m := by ring
        _ ≤ z * y := Nat.mul_le_mul h2 hmy
        _ ≤ x := hzyx
    omega

/-- **the chunk theorem of `S2_hard_thread`**.  For EVERY work item `(low, segments, segment_size)` with `low < z`, `low` even,
    sizes `≥ 1` and a sieve that accepts `(low, segment_size)`, every `1 ≤ y ≤ z`, `z·y ≤ x`, `4 ≤ c`, with the tables of
    `S2_hard_default` (`P = min(y, z / isqrt(y))`, FactorTable for `y`): the model returns — without any out-of-bounds read —
    the hard special leaves of the levels `(c, π y]` whose position lies in `[low, min(low + segment_size·segments, z))`. -/
theorem s2HardThread_eq {e : Env} {P tmax x y z c low segments segSize : ℕ}
    (hS : ∀ K, K ≤ π P → ∃ H : SieveSpec S K, H.segOK low segSize)
    (hE : EnvOK e P) (hP : P = min y (z / Nat.sqrt y)) (hF : FactorOK e tmax y)
    (hy : 1 ≤ y) (hyz : y ≤ z) (hzyx : z * y ≤ x) (hc : 4 ≤ c) (heven : 2 ∣ low)
    (hsz : 1 ≤ segSize) (hsegs : 1 ≤ segments) (hlow : low < z) :
    s2HardThread S e x y z c low segments segSize =
      .ok (∑ b ∈ Ioc c (π y), WS2 x y z b low (chunkLimit low segments segSize z)) := by
  have hPy : P ≤ y := by rw [hP]; exact min_le_left _ _
  have hsP : Nat.sqrt y ≤ P := by rw [hP]; exact sqrt_y_le_P hyz hy
  unfold s2HardThread
  simp only []
  set limit := chunkLimit low segments segSize z with hlimit
  have hlim1 : low < limit := by
    rw [hlimit]; unfold chunkLimit; rw [lt_min_iff]
    have : segSize * 1 ≤ segSize * segments := Nat.mul_le_mul_left _ hsegs
    omega
  have hlimz : limit ≤ z := by rw [hlimit]; exact min_le_right _ _
  have harg : min (min (isqrtN (x / max low 1)) (isqrtN z)) y ≤ P := by
    rw [isqrtN_eq, isqrtN_eq, hP]; exact arg_le_P hyz hy
  rw [hE.piMax, isqrtN_eq y, if_neg (by omega), if_neg (by omega), if_neg (by omega)]
  set maxArg := if limit ≤ y then Nat.sqrt y else min (min (Nat.sqrt (x / max low 1)) (Nat.sqrt z)) y with hmaxArg
  have hmaxArgP : maxArg ≤ P := by
    rw [hmaxArg]; split_ifs
    · exact hsP
    · rw [isqrtN_eq, isqrtN_eq] at harg; exact harg
  have hmaxB : s2MaxB e x y z low limit = π maxArg := by
    unfold s2MaxB
    rw [hmaxArg]
    split_ifs
    · rw [isqrtN_eq, hE.pi_eq _ hsP]
    · rw [hE.pi_eq _ harg, isqrtN_eq, isqrtN_eq]
  rw [hmaxB]
  have hmaxBP : π maxArg ≤ π P := Spec.pi_mono hmaxArgP
  rw [hE.primesSize, if_neg (by omega)]
  have hprimeP : e.primes (π maxArg) ≤ P := by
    rcases Nat.eq_zero_or_pos (π maxArg) with h0 | h0
    · rw [h0, hE.primes_zero]; exact Nat.zero_le _
    · rw [hE.primes_eq _ h0 hmaxBP]; exact le_trans (Spec.p_pi_le h0) hmaxArgP
  set a2 := min (z / limit) (e.primes (π maxArg)) with ha2
  have ha2P : a2 ≤ P := le_trans (min_le_right _ _) hprimeP
  rw [if_neg (by omega)]
  have hminB : s2MinB e z c limit (π maxArg) = max c (π a2) + 1 := by
    unfold s2MinB; rw [← ha2, hE.pi_eq a2 ha2P]
  rw [hminB]
  -- the levels outside [min_b, max_b] have no leaf in the window
  have hprune : ∀ b ∈ Ioc c (π y), b ∉ Icc (max c (π a2) + 1) (π maxArg) → WS2 x y z b low limit = 0 := by
    intro b hb hnot
    rw [mem_Ioc] at hb
    rw [mem_Icc] at hnot
    have hb1 : 1 ≤ b := by omega
    have hl1 : 1 ≤ limit := by omega
    have ha2le : a2 ≤ z / limit := by rw [ha2]; exact min_le_left _ _
    refine s2_pruned (a2 := a2) hyz hzyx hb1 hb.2 hl1 hmaxArg ha2le ?_
    by_cases h1 : b ≤ π maxArg
    · right
      have : ¬ (max c (π a2) + 1 ≤ b) := fun h => hnot ⟨h, h1⟩
      have := le_max_right c (π a2)
      omega
    · left; omega
  have hsub : Icc (max c (π a2) + 1) (π maxArg) ⊆ Ioc c (π y) := by
    intro b hb
    rw [mem_Icc] at hb
    rw [mem_Ioc]
    have : π maxArg ≤ π y := le_trans hmaxBP (Spec.pi_mono hPy)
    omega
  rw [← Finset.sum_subset hsub hprune]
  by_cases hempty : max c (π a2) + 1 > π maxArg
  · rw [if_pos hempty, Finset.Icc_eq_empty (by omega), Finset.sum_empty]
  · rw [if_neg hempty]
    obtain ⟨H, hOK⟩ := hS (π maxArg) hmaxBP
    have hL := s2_lvspec (x := x) (minB := max c (π a2) + 1) (maxB := π maxArg) (low0 := low) (limit := limit)
      hE hP hF hy hyz hzyx (by omega) hmaxBP
    have hprime : ∀ b, max c (π a2) + 1 ≤ b → b ≤ π maxArg → e.primes b = p b :=
      fun b h1 h2 => hE.primes_eq b (by omega) (le_trans h2 hmaxBP)
    have hrun := segLoop_spec H hL hprime (by omega) hsz limit low (π maxArg + 1) (S.create low segSize (π maxArg))
      (e.phiVec low (π maxArg)) 0 (by omega) le_rfl (by omega) le_rfl
      (by rw [Nat.add_sub_cancel]; exact H.create_ready low segSize _ hOK)
      (hE.phiVec_size _ _)
      (fun b h1 h2 => by
        rw [hE.phiVec_eq low (π maxArg) b hmaxBP (by omega) (by omega), phi_even heven (by omega)])
      (fun b h1 h2 => by omega)
    rw [isqrtN_eq y] at hrun
    rw [hrun, zero_add, Nat.max_eq_right hlim1.le]

end Pc.Hard
