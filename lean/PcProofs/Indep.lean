/-
WP indep: C03 / C04 / C05 / C20 as COROLLARIES of the closed end-to-end theorems of WP close (PcProofs/CloseWorld3.lean,
PcProps/C01Closed.lean).  No new model: this file only BUNDLES what one execution of an entry point consists of besides its argument,
so that "two executions" can be written down, and names the tuning factors that `GExecC` / `DrExec` quantify existentially.

* `Ctx`            everything of one execution that is not the argument and not a recorded parallel region: the world `W` (primesieve
                   configuration, iterator floats / batch sizes / hints, constructor thread counts, phi.cpp's per-call data incl. reduction
                   orders and cache objects), the CPU configuration / inline count body of `class Sieve`, the answers `pi` of the nested
                   `pi_noprint` calls, the `threads` argument and the print switch.
* `Ctx.OK k x`     the hypotheses of `pi_api_eq_pi` that are not about the recorded run of the outermost call.
* `Ctx.piApi` / `Ctx.piGourdon` / `Ctx.piDr`   the three entry points of PcProps/C01Closed.lean over a context and a recorded run.
* `GExecAlpha` / `DrExecAlpha`   `GExecC` / `DrExec` with the tuning factors `alpha_y`, `alpha_z` (`alpha`) NAMED and without the `accept`
                   field (the 128-bit range check `x ≤ get_max_x(alpha)` is the one place where the tuning changes the OUTCOME).
-/
import PcProofs.CloseWorld3Ex

namespace Pc.Indep
open Pc.Top Pc.Close Nat PcGen.ApiConst
open scoped Nat.Prime

/-- the "recorded history is not a run of the dispenser" answer of the D / S2_hard models -/
abbrev badRun : TM Int := .error (.hard .badRun)

/-- one execution, minus the argument and minus the recorded parallel regions of the outermost call -/
structure Ctx where
  W : World
  /-- size parameter of the model (reach of the shared table) -/
  B : ℕ
  /-- `class Sieve`: CPU configuration, inline `count` body -/
  c : Sieve.Cfg
  f : Sieve.StopFn
  /-- what the nested `pi_noprint(n)` calls returned -/
  pi : ℕ → ℕ
  /-- the `threads` argument (`get_num_threads()` of the API state) -/
  threads : ℤ
  /-- `is_print()` -/
  isPrint : Bool

/-- the hypotheses of the closed theorems that do not mention the recorded run of the outermost call -/
structure Ctx.OK (k : Ctx) (x : ℤ) : Prop where
  world : k.W.OK k.B
  hB : k.B < 2 ^ 32
  phi : ∀ n : ℕ, (n : ℤ) ≤ x → maxCached < n → n ≤ meisselMax → k.W.PhiRunOK n
  nested : k.W.NestedS k.c k.f k.B k.pi x

theorem Ctx.OK.mono {k : Ctx} {x x' : ℤ} (h : k.OK x) (hle : x' ≤ x) : k.OK x' :=
  ⟨h.world, h.hB, fun n hn => h.phi n (le_trans hn hle), fun n hn => h.nested n (lt_of_lt_of_le hn hle)⟩

/-- the same execution context with another `threads` argument and print switch -/
def Ctx.withThreads (k : Ctx) (threads : ℤ) (isPrint : Bool) : Ctx := ⟨k.W, k.B, k.c, k.f, k.pi, threads, isPrint⟩

/-- the hypotheses about the context do not mention the `threads` argument or the print switch -/
theorem Ctx.OK.withThreads {k : Ctx} {x : ℤ} (h : k.OK x) (threads : ℤ) (isPrint : Bool) : (k.withThreads threads isPrint).OK x :=
  ⟨h.world, h.hB, h.phi, h.nested⟩

/-- two outcomes that are each `ok n` or `badRun`: any two returned values agree -/
theorem ok_unique {e₁ e₂ : TM Int} {n : ℤ} (h₁ : e₁ = .ok n ∨ e₁ = badRun) (h₂ : e₂ = .ok n ∨ e₂ = badRun) {v₁ v₂ : ℤ}
    (hv₁ : e₁ = .ok v₁) (hv₂ : e₂ = .ok v₂) : v₁ = v₂ := by
  rcases h₁ with a | a
  · rcases h₂ with b | b
    · cases a.symm.trans hv₁
      cases b.symm.trans hv₂
      rfl
    · cases b.symm.trans hv₂
  · cases a.symm.trans hv₁

/-- is the argument beyond `INT64_MAX` (the route through `pi_gourdon_128`, `uint32_t` factor tables)? -/
def isWide (x : ℤ) : Bool := decide ((PiApi.int64Max : ℤ) < x)

/-- `pi(int128_t x, threads)` in the context `k` with the recorded run `r` -/
noncomputable def Ctx.piApi (k : Ctx) (x : ℤ) (r : ApiRun) : TM Int :=
  piApi128 (k.W.tablesS k.c k.f (isWide x)) k.W.phi k.pi x k.threads k.isPrint r

/-- `pi_gourdon_64(x, threads)` / `pi_gourdon_128(x, threads)` -/
noncomputable def Ctx.piGourdon (k : Ctx) (wide : Bool) (x : ℤ) (r : GRun) : TM Int :=
  Pc.Top.piGourdon (k.W.tablesS k.c k.f wide) k.pi wide x k.threads k.isPrint r

/-- `pi_deleglise_rivat_64(x, threads)` -/
noncomputable def Ctx.piDr (k : Ctx) (x : ℤ) (r : DrRun) : TM Int :=
  piDeleglieRivat (k.W.tablesS k.c k.f false) k.pi false x k.threads k.isPrint r

/-- the hypothesis about the recorded run of `pi(int128_t x)` -/
def Ctx.ApiExec (k : Ctx) (x : ℤ) (r : ApiRun) : Prop :=
  (maxCached : ℤ) < x → ApiExecC (k.W.tablesS k.c k.f (isWide x)) k.B (isWide x) x.toNat r

theorem Ctx.piApi_total (k : Ctx) (x : ℤ) (hx : x < 2 ^ 127) (r : ApiRun) (h : k.OK x) (hex : k.ApiExec x r) :
    k.piApi x r = .ok (π x.toNat : ℤ) ∨ k.piApi x r = badRun :=
  k.W.pi_api_s h.world h.hB k.c k.f k.pi x hx k.threads k.isPrint r h.phi h.nested hex

theorem Ctx.piApi_eq (k : Ctx) (x : ℤ) (hx : x < 2 ^ 127) (r : ApiRun) (h : k.OK x) (hex : k.ApiExec x r)
    (hacc : k.piApi x r ≠ badRun) : k.piApi x r = .ok (π x.toNat : ℤ) :=
  (k.piApi_total x hx r h hex).resolve_right hacc

theorem Ctx.piGourdon_total (k : Ctx) (wide : Bool) (x : ℤ) (hx : InType wide x) (hsmall : x < 2 ∨ 2401 ≤ x) (r : GRun)
    (h : k.OK x) (hex : 2 ≤ x → GExecC (k.W.tablesS k.c k.f wide) k.B wide x.toNat r) :
    k.piGourdon wide x r = .ok (π x.toNat : ℤ) ∨ k.piGourdon wide x r = badRun :=
  k.W.pi_gourdon_s h.world h.hB k.c k.f k.pi wide x hx hsmall k.threads k.isPrint r (fun n hn => h.phi n hn.le) h.nested hex

theorem Ctx.piDr_total (k : Ctx) (x : ℤ) (hx : x < 2 ^ 63) (r : DrRun) (h : k.OK x)
    (hex : 2 ≤ x → DrExec (k.W.tablesS k.c k.f false) k.B false x.toNat r) :
    k.piDr x r = .ok (π x.toNat : ℤ) ∨ k.piDr x r = badRun :=
  k.W.pi_deleglise_rivat_64_s h.world h.hB k.c k.f k.pi x hx k.threads k.isPrint r (fun n hn => h.phi n hn.le) h.nested hex

/-! ### the tuning factors, named -/

/-- `GExecC` with `alpha_y = ay`, `alpha_z = az` named (they are what `get_alpha_y(x)` / `get_alpha_z(x)` return: the user overrides
    `set_alpha_y` / `set_alpha_z` clamped into `[1, x^(1/6)]`, or the defaults) and WITHOUT the range check of the 128-bit function -/
structure GExecAlpha {σ : Type} (T : Tables σ) (B : ℕ) (x : ℕ) (ay az : ℚ) (r : GRun) : Prop where
  env : GourdonEnv x ay az r.fo
  phi0 : IsSchedule (getK x + 1) (π (gY x r.fo.v).toNat) r.phi0
  b : 4 ≤ x → r.b.valid T.lc x (x / max (gY x r.fo.v).toNat 1) = true
  ac : AcRunOK T.t x (gZ x (gY x r.fo.v) (r.fo.w (gY x r.fo.v))).toNat (getK x) r.acC1 r.acSegs
  yB : (gY x r.fo.v).toNat ≤ B
  reach : GReach T.t x (gY x r.fo.v).toNat

theorem GExecAlpha.toGExecC {σ : Type} {T : Tables σ} {B x : ℕ} {ay az : ℚ} {r : GRun} (h : GExecAlpha T B x ay az r)
    (wide : Bool) (hacc : wide = true → (x : ℤ) ≤ r.fo.maxX) : GExecC T B wide x r :=
  ⟨⟨⟨ay, az, h.env⟩, h.phi0, h.b, h.ac⟩, hacc, h.yB, h.reach⟩

theorem GExecAlpha.ofGExecC {σ : Type} {T : Tables σ} {B x : ℕ} {wide : Bool} {r : GRun} (h : GExecC T B wide x r) :
    ∃ ay az : ℚ, GExecAlpha T B x ay az r := by
  obtain ⟨ay, az, he⟩ := h.adm.env
  exact ⟨ay, az, ⟨he, h.adm.phi0, h.adm.b, h.adm.ac, h.yB, h.reach⟩⟩

/-- `DrExec` of the 64-bit function with `alpha = a` named -/
structure DrExecAlpha {σ : Type} (T : Tables σ) (B : ℕ) (x : ℕ) (a : ℚ) (r : DrRun) : Prop where
  env : DrEnv x a r.fo
  exec : DrExec T B false x r

/-- `ApiExecC` with the tuning factors of the Gourdon route named (the cache / Legendre / Meissel routes have no tuning factor) -/
structure ApiExecAlpha {σ : Type} (T : Tables σ) (B : ℕ) (wide : Bool) (x : ℕ) (ay az : ℚ) (r : ApiRun) : Prop where
  meissel : legendreMax < x → x ≤ meisselMax → 4 ≤ x → irootN 3 x < Nat.sqrt x →
    r.meissel.valid T.lc x (x / max (irootN 3 x) 1) = true
  gourdon : meisselMax < x → GExecAlpha T B x ay az r.gourdon
  /-- the range check of `pi_gourdon_128`: `x ≤ get_max_x(alpha_y)` -/
  accept : meisselMax < x → wide = true → (x : ℤ) ≤ r.gourdon.fo.maxX

theorem ApiExecAlpha.toApiExecC {σ : Type} {T : Tables σ} {B x : ℕ} {wide : Bool} {ay az : ℚ} {r : ApiRun}
    (h : ApiExecAlpha T B wide x ay az r) : ApiExecC T B wide x r :=
  ⟨h.meissel, fun hm => (h.gourdon hm).toGExecC wide (h.accept hm)⟩

/-- every outcome of `pi_gourdon_64/128(x)` under ANY tuning `(ay, az)`: π(x); or the range error, exactly when `x` is above the
    tuning-dependent maximum `get_max_x(alpha_y)` of the 128-bit function; or `badRun` (a recorded D history that is not a run) -/
theorem Ctx.piGourdon_alpha (k : Ctx) (wide : Bool) (x : ℤ) (hx : InType wide x) (hsmall : x < 2 ∨ 2401 ≤ x) (r : GRun)
    (h : k.OK x) (ay az : ℚ) (hex : 2 ≤ x → GExecAlpha (k.W.tablesS k.c k.f wide) k.B x.toNat ay az r) :
    k.piGourdon wide x r = .ok (π x.toNat : ℤ) ∨ k.piGourdon wide x r = badRun ∨
      (wide = true ∧ r.fo.maxX < x ∧ k.piGourdon wide x r = .error (.params .range)) := by
  by_cases hacc : wide = true ∧ 2 ≤ x ∧ r.fo.maxX < x
  · obtain ⟨hw, h2, hm⟩ := hacc
    subst hw
    right; right
    refine ⟨rfl, hm, ?_⟩
    obtain ⟨n, rfl⟩ := Int.eq_ofNat_of_zero_le (show 0 ≤ x by omega)
    have hn127 : n < 2 ^ 127 := by
      unfold InType at hx
      simp only [if_true] at hx
      exact_mod_cast hx
    have he := (hex h2).env
    rw [Int.toNat_natCast] at he
    exact piGourdon_rejects _ k.pi n (by exact_mod_cast h2) hn127 k.threads k.isPrint r ay az he hm
  · have := k.piGourdon_total wide x hx hsmall r h
      (fun h2 => (hex h2).toGExecC wide (fun hw => by
        by_contra hlt
        have hlt' : r.fo.maxX < x := by
          have : ((x.toNat : ℕ) : ℤ) = x := Int.toNat_of_nonneg (by omega)
          rw [this] at hlt
          omega
        exact hacc ⟨hw, h2, hlt'⟩))
    rcases this with h1 | h1
    · exact Or.inl h1
    · exact Or.inr (Or.inl h1)

end Pc.Indep
