/-
C18 (WP iter2): `PrimeSieve::nthPrime` / `negativeNthPrime` (/repo/lib/primesieve/src/nthPrime.cpp:53-187; PcModel/Iter.lean
`nextK`, `prevK`, `nthPrimePos`, `nthPrimeNeg`, `nthPrime`) against the iterator refinement of PcProofs/IterHist.lean.

* counting toolkit for `primeCnt` (PcProofs/IterPar2.lean);
* `nextK_spec`  : `k` calls of `next_prime()` from a state related to the cursor `c` return the `k`-th prime `≥ c.hi`
                  (`primeCnt c.hi p = k`), or throw `primesieve_error` when `[c.hi, 2^64-1]` holds fewer than `k` primes;
* `prevK_spec`  : `k` calls of `prev_prime()` with the `prime == 0` check return the `k`-th prime `≤ c.lo` counted downwards
                  (`primeCnt q c.lo = k`), or throw "nth prime < 2 is impossible" when there are fewer than `k` primes `≤ c.lo`;
* `nthPrimePos_correct`, `nthPrimeNeg_correct`, `nthPrime_correct` : for EVERY outcome of the float approximations.
-/
import PcProofs.IterHist3
import PcProofs.IterPar2

namespace Pc.It
open Nat

/-! ### counting toolkit -/

theorem primeCnt_eq_zero {a b : ℕ} (h : ∀ q, q.Prime → a ≤ q → ¬ q ≤ b) : primeCnt a b = 0 := by
  unfold primeCnt
  rw [List.length_eq_zero_iff, List.filter_eq_nil_iff]
  intro q hq
  rw [List.mem_range'_1] at hq
  intro hp
  exact h q (by simpa using hp) hq.1 (by omega)

theorem primeCnt_pos {a b p : ℕ} (hp : p.Prime) (ha : a ≤ p) (hb : p ≤ b) : 1 ≤ primeCnt a b := by
  unfold primeCnt
  apply List.length_pos_of_mem (a := p)
  rw [List.mem_filter, List.mem_range'_1]
  exact ⟨⟨ha, by omega⟩, by simpa using hp⟩

theorem primeCnt_self {p : ℕ} (hp : p.Prime) : primeCnt p p = 1 := by
  unfold primeCnt
  rw [show p + 1 - p = 1 by omega]
  simp [List.range', hp]

/-- cutting `[a, b]` at a prime `p` of it -/
theorem primeCnt_cut {a b p : ℕ} (hp : p.Prime) (ha : a ≤ p) (hb : p ≤ b) :
    primeCnt a b = primeCnt a (p - 1) + 1 + primeCnt (p + 1) b := by
  have h2 := hp.two_le
  have e1 := primeCnt_add.split a (p - 1) b (by omega) (by omega)
  have e2 := primeCnt_add.split p p b (by omega) hb
  rw [show p - 1 + 1 = p by omega] at e1
  rw [primeCnt_self hp] at e2
  omega

theorem primeCnt_mono_left {a a' b : ℕ} (h : a ≤ a') : primeCnt a' b ≤ primeCnt a b := by
  by_cases hb : b < a'
  · rw [primeCnt_add.empty a' b hb]; exact Nat.zero_le _
  · rcases Nat.eq_zero_or_pos a' with h0 | h0
    · have : a = 0 := by omega
      rw [h0, this]
    · have e := primeCnt_add.split a (a' - 1) b (by omega) (by omega)
      rw [show a' - 1 + 1 = a' by omega] at e
      omega

theorem primeCnt_mono_right {a b b' : ℕ} (h : b ≤ b') : primeCnt a b ≤ primeCnt a b' := by
  by_cases hb : b + 1 < a
  · rw [primeCnt_add.empty a b (by omega)]; exact Nat.zero_le _
  · have e := primeCnt_add.split a b b' (by omega) h
    omega

/-- the smallest prime `≥ n` is the only prime of `[n, p]` -/
theorem IsNext.cnt {n p : ℕ} (h : IsNext n p) : primeCnt n p = 1 := by
  have e := primeCnt_cut h.1 h.2.1 (le_refl p)
  have z1 : primeCnt n (p - 1) = 0 := primeCnt_eq_zero (fun q hq h1 h2 => by
    have := h.2.2 q hq h1; have := h.1.two_le; omega)
  have z2 : primeCnt (p + 1) p = 0 := primeCnt_add.empty _ _ (by omega)
  omega

/-! ### `k` calls of `next_prime()` -/

theorem nextK_spec (e : Env) (he : GenSpec e) : ∀ (k : ℕ) (s : St) (c : Cur) (last : ℕ), Inv s c →
    (∀ p, p.Prime → c.hi ≤ p → p ≤ umax → primeCnt c.hi p = k → nextK e k s last = .ok p) ∧
    (primeCnt c.hi umax < k → nextK e k s last = .error (.iter .ps)) := by
  intro k
  induction k with
  | zero =>
    intro s c last _
    refine ⟨fun p hp h1 _ h3 => ?_, fun h => by omega⟩
    have := primeCnt_pos hp h1 (le_refl p)
    omega
  | succ k ih =>
    intro s c last hinv
    have hs := next_step e he hinv
    rcases hn : absNext c with _ | p1
    · have hnone := absNext_eq_none hn
      have herr := hs.2 hn
      refine ⟨fun p hp h1 h2 _ => absurd h2 (hnone p hp h1), fun _ => ?_⟩
      simp only [nextK, herr]
    · obtain ⟨s', h1, h2⟩ := hs.1 p1 hn
      obtain ⟨hnext, hp1⟩ := absNext_spec hn
      have hcnt := hnext.cnt
      have hstep : nextK e (k + 1) s last = nextK e k s' p1 := by simp only [nextK, h1]
      rw [hstep]
      have ih' := ih s' (Cur.at p1) p1 h2
      have hhi : (Cur.at p1).hi = p1 + 1 := rfl
      rw [hhi] at ih'
      constructor
      · intro p hp hle hpu hc
        have hp1p : p1 ≤ p := hnext.2.2 p hp hle
        have e := primeCnt_add.split c.hi p1 p (by have := hnext.2.1; omega) hp1p
        rcases Nat.eq_or_lt_of_le hp1p with heq | hlt
        · subst heq
          have : k = 0 := by omega
          subst this
          rfl
        · exact ih'.1 p hp (by omega) hpu (by omega)
      · intro hlt
        have e := primeCnt_add.split c.hi p1 umax (by have := hnext.2.1; omega) hp1
        exact ih'.2 (by omega)

/-! ### `k` calls of `prev_prime()` with the `prime == 0` check -/

theorem prevK_spec (e : Env) (he : GenSpec e) : ∀ (k : ℕ) (s : St) (c : Cur) (last : ℕ), Inv s c →
    (∀ q, q.Prime → q ≤ c.lo → primeCnt q c.lo = k → prevK e k s last = .ok q) ∧
    (primeCnt 0 c.lo < k → prevK e k s last = .error .below2) := by
  intro k
  induction k with
  | zero =>
    intro s c last _
    refine ⟨fun q hq h1 h3 => ?_, fun h => by omega⟩
    have := primeCnt_pos hq (le_refl q) h1
    omega
  | succ k ih =>
    intro s c last hinv
    obtain ⟨s', h1, h2⟩ := prev_step e he hinv
    have hvle : absPrev c ≤ c.lo := Nat.findGreatest_le _
    by_cases hv0 : absPrev c = 0
    · have hno : ∀ q, q.Prime → ¬ q ≤ c.lo := by
        intro q hq hle
        have := Nat.le_findGreatest (P := Nat.Prime) hle hq
        have h2 := hq.two_le
        unfold absPrev at hv0
        omega
      have hstep : prevK e (k + 1) s last = .error .below2 := by simp only [prevK, h1, hv0, if_true]
      rw [hstep]
      exact ⟨fun q hq hle _ => absurd hle (hno q hq), fun _ => rfl⟩
    · have hvp : (absPrev c).Prime := Nat.findGreatest_of_ne_zero rfl hv0
      generalize hvdef : absPrev c = v at *
      have hgap : primeCnt (v + 1) c.lo = 0 := primeCnt_eq_zero (fun q hq hq1 hq2 => by
        have hle : q ≤ Nat.findGreatest Nat.Prime c.lo := Nat.le_findGreatest hq2 hq
        have : Nat.findGreatest Nat.Prime c.lo = v := hvdef
        omega)
      have hstep : prevK e (k + 1) s last = prevK e k s' v := by simp only [prevK, h1, hv0, if_false]
      rw [hstep]
      have ih' := ih s' (Cur.at v) v h2
      have hlo : (Cur.at v).lo = v - 1 := rfl
      rw [hlo] at ih'
      have hv2 := hvp.two_le
      constructor
      · intro q hq hle hc
        have hqv : q ≤ v := by
          by_contra hcon
          have := primeCnt_pos hq (show v + 1 ≤ q by omega) hle
          omega
        have ecut := primeCnt_cut hvp hqv hvle
        rcases Nat.eq_or_lt_of_le hqv with heq | hlt
        · subst heq
          have z : primeCnt q (q - 1) = 0 := primeCnt_add.empty _ _ (by omega)
          have : k = 0 := by omega
          subst this
          rfl
        · exact ih'.1 q hq (by omega) (by omega)
      · intro hlt
        have ecut := primeCnt_cut hvp (Nat.zero_le v) hvle
        exact ih'.2 (by omega)

/-! ### the two loops on a fresh iterator -/

theorem fresh_hi (a : ℕ) : (Cur.fresh a).hi = a := rfl
theorem fresh_lo (a : ℕ) : (Cur.fresh a).lo = a := rfl

theorem primeCnt_umax : primeCnt umax umax = 0 :=
  primeCnt_eq_zero (fun q hq h1 h2 => umax_not_prime ((show q = umax by omega) ▸ hq))

theorem fwd_core (e : Env) (he : GenSpec e) (start hint k : ℕ) (hs : start ≤ umax) (hh : hint ≤ umax) :
    (∀ p, p.Prime → start < p → p ≤ umax → primeCnt (start + 1) p = k →
      nextK e k (init (checkedAdd start 1) hint) 0 = .ok p) ∧
    (primeCnt (start + 1) umax < k → nextK e k (init (checkedAdd start 1) hint) 0 = .error (.iter .ps)) := by
  by_cases hlt : start < umax
  · rw [checkedAdd_one _ hlt]
    have h := nextK_spec e he k _ _ 0 (inv_init (start + 1) hint (by omega) hh)
    rw [fresh_hi] at h
    exact ⟨fun p hp h1 h2 h3 => h.1 p hp (by omega) h2 h3, h.2⟩
  · have hsu : start = umax := by omega
    have hc : checkedAdd start 1 = umax := by rw [hsu]; decide
    rw [hc]
    have h := nextK_spec e he k _ _ 0 (inv_init umax hint (le_refl _) hh)
    rw [fresh_hi] at h
    refine ⟨fun p _ h1 h2 _ => by omega, fun hk => h.2 ?_⟩
    rw [primeCnt_umax]
    have := primeCnt_add.empty (start + 1) umax (by omega)
    omega

theorem bwd_core (e : Env) (he : GenSpec e) (start hint k : ℕ) (hs : start ≤ umax) (hh : hint ≤ umax) :
    (∀ q, q.Prime → q ≤ start → primeCnt q start = k → prevK e k (init start hint) 0 = .ok q) ∧
    (primeCnt 0 start < k → prevK e k (init start hint) 0 = .error .below2) := by
  have h := prevK_spec e he k _ _ 0 (inv_init start hint hs hh)
  rw [fresh_lo] at h
  exact h

/-! ### `PrimeSieve::nthPrime(n, start)`, `n >= 0` -/

theorem nthPrimePos_tooLarge (e : Env) (nf : NthFloats) (cnt : ℕ → ℕ → ℕ) (n0 start0 : ℕ)
    (hn : (if n0 = 0 then 1 else n0) > maxN) : nthPrimePos e nf cnt n0 start0 = .error .tooLarge := by
  unfold nthPrimePos
  simp only []
  rw [if_pos hn]

/-- `nthPrime(n, start)` for `n >= 0` (0 is treated as 1), for EVERY outcome of `primePiApprox`, `nthPrimeApprox` (a uint64),
    `avgPrimeGap`, `isqrt`: the result is the `n`-th prime above `start`; when `(start, 2^64-1]` holds fewer than `n` primes the
    iterator's `primesieve_error` comes out. Both the forward branch (approximation undershoots) and the backward branch
    (overshoots; `prev_prime()` can then never return 0) are covered. -/
theorem nthPrimePos_correct (e : Env) (he : GenSpec e) (nf : NthFloats) (hna : ∀ x, nf.nthApprox x ≤ umax)
    (n0 start0 : ℕ) (hs : start0 ≤ umax) (hn : (if n0 = 0 then 1 else n0) ≤ maxN) :
    (∀ p, p.Prime → start0 < p → p ≤ umax → primeCnt (start0 + 1) p = (if n0 = 0 then 1 else n0) →
      nthPrimePos e nf primeCnt n0 start0 = .ok p) ∧
    (primeCnt (start0 + 1) umax < (if n0 = 0 then 1 else n0) →
      nthPrimePos e nf primeCnt n0 start0 = .error (.iter .ps)) := by
  have hn1 : 1 ≤ (if n0 = 0 then 1 else n0) := by split <;> omega
  unfold nthPrimePos
  simp only []
  generalize (if n0 = 0 then 1 else n0) = n at *
  rw [if_neg (by omega)]
  have hpa : max (nf.nthApprox (min (checkedAdd (nf.piApprox start0) n) maxN)) start0 ≤ umax := Nat.max_le.2 ⟨hna _, hs⟩
  have hpa2 : start0 ≤ max (nf.nthApprox (min (checkedAdd (nf.piApprox start0) n) maxN)) start0 := Nat.le_max_right _ _
  generalize max (nf.nthApprox (min (checkedAdd (nf.piApprox start0) n) maxN)) start0 = pa at *
  by_cases hA : pa - start0 > nf.isq pa / 10
  · rw [if_pos hA]
    simp only []
    have hlt : start0 < pa := by omega
    rw [checkedAdd_one start0 (by omega), Nat.max_eq_right (show start0 + 1 ≤ pa by omega)]
    generalize hc : primeCnt (start0 + 1) pa = c
    by_cases hcn : c < n
    · rw [if_pos hcn]
      have hh : checkedAdd (checkedAdd pa 1) ((n - c) * nf.avgGap pa % two64) ≤ umax :=
        checkedAdd_le _ _ (checkedAdd_le _ _ hpa)
      generalize checkedAdd (checkedAdd pa 1) ((n - c) * nf.avgGap pa % two64) = hint at hh
      have h := fwd_core e he pa hint (n - c) hpa hh
      constructor
      · intro p hp h1 h2 h3
        have hpap : pa < p := by
          by_contra hcon
          have := primeCnt_mono_right (a := start0 + 1) (show p ≤ pa by omega)
          omega
        have e1 := primeCnt_add.split (start0 + 1) pa p (by omega) (by omega)
        exact h.1 p hp hpap h2 (by omega)
      · intro hlt2
        have e1 := primeCnt_add.split (start0 + 1) pa umax (by omega) hpa
        exact h.2 (by omega)
    · rw [if_neg hcn]
      have hh : checkedSub pa ((c - n) * nf.avgGap pa % two64) ≤ umax := le_trans (checkedSub_le _ _) hpa
      generalize checkedSub pa ((c - n) * nf.avgGap pa % two64) = hint at hh
      have h := bwd_core e he pa hint (c - n + 1) hpa hh
      constructor
      · intro p hp h1 h2 h3
        have hppa : p ≤ pa := by
          by_contra hcon
          have e1 := primeCnt_add.split (start0 + 1) pa p (by omega) (by omega)
          have := primeCnt_pos hp (show pa + 1 ≤ p by omega) (le_refl p)
          omega
        have c1 := primeCnt_cut hp (show start0 + 1 ≤ p by omega) hppa
        have c2 := primeCnt_cut hp (show start0 + 1 ≤ p by omega) (le_refl p)
        have c3 := primeCnt_cut hp (le_refl p) hppa
        have z1 : primeCnt (p + 1) p = 0 := primeCnt_add.empty _ _ (by omega)
        have z2 : primeCnt p (p - 1) = 0 := primeCnt_add.empty _ _ (by have := hp.two_le; omega)
        exact h.1 p hp hppa (by omega)
      · intro hlt2
        have := primeCnt_mono_right (a := start0 + 1) hpa
        omega
  · rw [if_neg hA]
    simp only []
    rw [if_pos (by omega), Nat.sub_zero]
    have hh : checkedAdd (checkedAdd start0 1) (n * nf.avgGap pa % two64) ≤ umax :=
      checkedAdd_le _ _ (checkedAdd_le _ _ hs)
    generalize checkedAdd (checkedAdd start0 1) (n * nf.avgGap pa % two64) = hint at hh
    exact fwd_core e he start0 hint n hs hh
/-! ### `PrimeSieve::negativeNthPrime(n, start)`, `n = -m` -/

theorem fwd_core0 (e : Env) (he : GenSpec e) (start hint k : ℕ) (hs : start ≤ umax) (hh : hint ≤ umax) :
    (∀ p, p.Prime → start ≤ p → p ≤ umax → primeCnt start p = k → nextK e k (init start hint) 0 = .ok p) ∧
    (primeCnt start umax < k → nextK e k (init start hint) 0 = .error (.iter .ps)) := by
  have h := nextK_spec e he k _ _ 0 (inv_init start hint hs hh)
  rw [fresh_hi] at h
  exact h

theorem primeCnt_zero_zero : primeCnt 0 0 = 0 :=
  primeCnt_eq_zero (fun q hq _ h2 => by have := hq.two_le; omega)

theorem nthPrimeNeg_tooLarge (e : Env) (nf : NthFloats) (cnt : ℕ → ℕ → ℕ) (m start0 : ℕ)
    (h : m ≥ start0 ∨ m > maxN) : nthPrimeNeg e nf cnt m start0 = .error .absTooLarge := by
  unfold nthPrimeNeg
  by_cases h1 : m ≥ start0
  · rw [if_pos h1]
  · rw [if_neg h1, if_pos (by omega)]

/-- `negativeNthPrime`: for EVERY outcome of the float approximations the result is the `m`-th prime below `start`
    (counted downwards); with fewer than `m` primes below `start` the `prime == 0` check throws -/
theorem nthPrimeNeg_correct (e : Env) (he : GenSpec e) (nf : NthFloats) (m start0 : ℕ) (hs : start0 ≤ umax)
    (hm1 : 1 ≤ m) (hm : m < start0) (hmN : m ≤ maxN) :
    (∀ q, q.Prime → q < start0 → primeCnt q (start0 - 1) = m → nthPrimeNeg e nf primeCnt m start0 = .ok q) ∧
    (primeCnt 0 (start0 - 1) < m → nthPrimeNeg e nf primeCnt m start0 = .error .below2) := by
  unfold nthPrimeNeg
  rw [if_neg (by omega), if_neg (by omega)]
  simp only []
  have hpa : min (nf.nthApprox (min (checkedSub (nf.piApprox start0) m) maxN)) start0 ≤ start0 := Nat.min_le_right _ _
  generalize min (nf.nthApprox (min (checkedSub (nf.piApprox start0) m) maxN)) start0 = pa at *
  by_cases hA : start0 - pa > nf.isq start0 / 10
  · rw [if_pos hA]
    simp only []
    have hlt : pa < start0 := by omega
    rw [checkedSub_eq start0 1, Nat.min_eq_left (show pa ≤ start0 - 1 by omega)]
    generalize hc : primeCnt pa (start0 - 1) = c
    by_cases hcm : c ≥ m
    · rw [if_pos hcm]
      have h := fwd_core0 e he pa _ (c - m + 1) (by omega) (checkedAdd_le pa ((c - m) * nf.avgGap pa % two64) (by omega))
      constructor
      · intro q hq h1 h3
        have hpq : pa ≤ q := by
          by_contra hcon
          have e1 := primeCnt_add.split q (pa - 1) (start0 - 1) (by omega) (by omega)
          rw [show pa - 1 + 1 = pa by omega] at e1
          have := primeCnt_pos hq (le_refl q) (show q ≤ pa - 1 by omega)
          omega
        have c1 := primeCnt_cut hq hpq (show q ≤ start0 - 1 by omega)
        have c2 := primeCnt_cut hq (le_refl q) (show q ≤ start0 - 1 by omega)
        have c3 := primeCnt_cut hq hpq (le_refl q)
        have z1 : primeCnt (q + 1) q = 0 := primeCnt_add.empty _ _ (by omega)
        have z2 : primeCnt q (q - 1) = 0 := primeCnt_add.empty _ _ (by have := hq.two_le; omega)
        exact h.1 q hq hpq (by omega) (by omega)
      · intro hlt2
        have := primeCnt_mono_left (b := start0 - 1) (Nat.zero_le pa)
        omega
    · rw [if_neg hcm, checkedSub_eq pa 1]
      have h := bwd_core e he (pa - 1) _ (m - c) (by omega)
        (le_trans (checkedSub_le (pa - 1) ((m - c) * nf.avgGap (pa - 1) % two64)) (by omega))
      constructor
      · intro q hq h1 h3
        have hqpa : q < pa := by
          by_contra hcon
          have := primeCnt_mono_left (b := start0 - 1) (show pa ≤ q by omega)
          omega
        have e1 := primeCnt_add.split q (pa - 1) (start0 - 1) (by omega) (by omega)
        rw [show pa - 1 + 1 = pa by omega] at e1
        exact h.1 q hq (by omega) (by omega)
      · intro hlt2
        rcases Nat.eq_zero_or_pos pa with h0 | h0
        · subst h0
          apply h.2
          rw [show 0 - 1 = 0 by rfl, primeCnt_zero_zero]
          omega
        · have e1 := primeCnt_add.split 0 (pa - 1) (start0 - 1) (by omega) (by omega)
          rw [show pa - 1 + 1 = pa by omega] at e1
          exact h.2 (by omega)
  · rw [if_neg hA]
    simp only []
    rw [if_neg (by omega), Nat.sub_zero, checkedSub_eq start0 1]
    have h := bwd_core e he (start0 - 1) _ m (by omega)
      (le_trans (checkedSub_le (start0 - 1) (m * nf.avgGap (start0 - 1) % two64)) (by omega))
    exact ⟨fun q hq h1 h3 => h.1 q hq (by omega) h3, h.2⟩


/-! ### existence of the `k`-th prime of an interval that holds at least `k` primes -/

theorem primeCnt_single_le (b : ℕ) : primeCnt b b ≤ 1 := by
  by_cases hp : b.Prime
  · rw [primeCnt_self hp]
  · have z : primeCnt b b = 0 := primeCnt_eq_zero (fun q hq h1 h2 => hp ((show q = b by omega) ▸ hq))
    omega

theorem exists_kth_up (a k : ℕ) (hk : 1 ≤ k) : ∀ b, k ≤ primeCnt a b → ∃ p, p.Prime ∧ a ≤ p ∧ p ≤ b ∧ primeCnt a p = k := by
  intro b
  induction b with
  | zero =>
    intro h
    have := primeCnt_mono_left (b := 0) (Nat.zero_le a)
    have z : primeCnt 0 0 = 0 := primeCnt_eq_zero (fun q hq _ h2 => by have := hq.two_le; omega)
    omega
  | succ b ih =>
    intro h
    by_cases hb : k ≤ primeCnt a b
    · obtain ⟨p, h1, h2, h3, h4⟩ := ih hb
      exact ⟨p, h1, h2, by omega, h4⟩
    · have hab : a ≤ b + 1 := by
        by_contra hcon
        rw [primeCnt_add.empty a (b + 1) (by omega)] at h; omega
      have e := primeCnt_add.split a b (b + 1) hab (by omega)
      have hle := primeCnt_single_le (b + 1)
      by_cases hp : (b + 1).Prime
      · exact ⟨b + 1, hp, hab, le_refl _, by omega⟩
      · have z : primeCnt (b + 1) (b + 1) = 0 :=
          primeCnt_eq_zero (fun q hq h1 h2 => hp ((show q = b + 1 by omega) ▸ hq))
        omega

theorem exists_kth_down_aux (b k : ℕ) (hk : 1 ≤ k) : ∀ j, k ≤ primeCnt (b + 1 - j) b →
    ∃ q, q.Prime ∧ b + 1 - j ≤ q ∧ q ≤ b ∧ primeCnt q b = k := by
  intro j
  induction j with
  | zero =>
    intro h
    rw [primeCnt_add.empty (b + 1 - 0) b (by omega)] at h; omega
  | succ j ih =>
    intro h
    by_cases hj : b + 1 - (j + 1) = b + 1 - j
    · rw [hj] at h ⊢; exact ih h
    · have ha : b + 1 - (j + 1) + 1 = b + 1 - j := by omega
      generalize b + 1 - (j + 1) = a at *
      by_cases hb : k ≤ primeCnt (a + 1) b
      · obtain ⟨q, h1, h2, h3, h4⟩ := ih (ha ▸ hb)
        exact ⟨q, h1, by omega, h3, h4⟩
      · have e := primeCnt_add.split a a b (by omega) (by omega)
        have hle := primeCnt_single_le a
        by_cases hp : a.Prime
        · exact ⟨a, hp, le_refl _, by omega, by omega⟩
        · have z : primeCnt a a = 0 := primeCnt_eq_zero (fun q hq h1 h2 => hp ((show q = a by omega) ▸ hq))
          omega

theorem exists_kth_down (b k : ℕ) (hk : 1 ≤ k) (h : k ≤ primeCnt 0 b) : ∃ q, q.Prime ∧ q ≤ b ∧ primeCnt q b = k := by
  have := exists_kth_down_aux b k hk (b + 1) (by rw [show b + 1 - (b + 1) = 0 by omega]; exact h)
  obtain ⟨q, h1, _, h3, h4⟩ := this
  exact ⟨q, h1, h3, h4⟩

/-- `nthPrimePos` is total and exact: it returns THE `n`-th prime above `start0` when that exists below 2^64 and throws the
    iterator's `primesieve_error` otherwise -/
theorem nthPrimePos_total (e : Env) (he : GenSpec e) (nf : NthFloats) (hna : ∀ x, nf.nthApprox x ≤ umax)
    (n0 start0 : ℕ) (hs : start0 ≤ umax) (hn : (if n0 = 0 then 1 else n0) ≤ maxN) :
    (∃ p, p.Prime ∧ start0 < p ∧ p ≤ umax ∧ primeCnt (start0 + 1) p = (if n0 = 0 then 1 else n0) ∧
      nthPrimePos e nf primeCnt n0 start0 = .ok p) ∨
    ((∀ p, p.Prime → start0 < p → p ≤ umax → primeCnt (start0 + 1) p ≠ (if n0 = 0 then 1 else n0)) ∧
      nthPrimePos e nf primeCnt n0 start0 = .error (.iter .ps)) := by
  have h := nthPrimePos_correct e he nf hna n0 start0 hs hn
  have hn1 : 1 ≤ (if n0 = 0 then 1 else n0) := by split <;> omega
  generalize (if n0 = 0 then 1 else n0) = n at *
  by_cases hc : n ≤ primeCnt (start0 + 1) umax
  · obtain ⟨p, h1, h2, h3, h4⟩ := exists_kth_up (start0 + 1) n hn1 umax hc
    exact Or.inl ⟨p, h1, by omega, h3, h4, h.1 p h1 (by omega) h3 h4⟩
  · refine Or.inr ⟨fun p _ _ h3 h4 => ?_, h.2 (by omega)⟩
    have := primeCnt_mono_right (a := start0 + 1) h3
    omega

/-- `nthPrimeNeg` is total and exact -/
theorem nthPrimeNeg_total (e : Env) (he : GenSpec e) (nf : NthFloats) (m start0 : ℕ) (hs : start0 ≤ umax)
    (hm1 : 1 ≤ m) (hm : m < start0) (hmN : m ≤ maxN) :
    (∃ q, q.Prime ∧ q < start0 ∧ primeCnt q (start0 - 1) = m ∧ nthPrimeNeg e nf primeCnt m start0 = .ok q) ∨
    ((∀ q, q.Prime → q < start0 → primeCnt q (start0 - 1) ≠ m) ∧ nthPrimeNeg e nf primeCnt m start0 = .error .below2) := by
  have h := nthPrimeNeg_correct e he nf m start0 hs hm1 hm hmN
  by_cases hc : m ≤ primeCnt 0 (start0 - 1)
  · obtain ⟨q, h1, h2, h3⟩ := exists_kth_down (start0 - 1) m hm1 hc
    exact Or.inl ⟨q, h1, by omega, h3, h.1 q h1 (by omega) h3⟩
  · refine Or.inr ⟨fun q _ _ h4 => ?_, h.2 (by omega)⟩
    have := primeCnt_mono_left (b := start0 - 1) (Nat.zero_le q)
    omega

/-! ### `PrimeSieve::nthPrime(int64_t n, uint64_t start)` -/

theorem nthPrime_correct (e : Env) (he : GenSpec e) (nf : NthFloats) (hna : ∀ x, nf.nthApprox x ≤ umax)
    (n : ℤ) (start : ℕ) (hs : start ≤ umax) :
    (0 ≤ n → (if n.toNat = 0 then 1 else n.toNat) > maxN → nthPrime e nf primeCnt n start = .error .tooLarge) ∧
    (0 ≤ n → (if n.toNat = 0 then 1 else n.toNat) ≤ maxN →
      (∀ p, p.Prime → start < p → p ≤ umax → primeCnt (start + 1) p = (if n.toNat = 0 then 1 else n.toNat) →
        nthPrime e nf primeCnt n start = .ok p) ∧
      (primeCnt (start + 1) umax < (if n.toNat = 0 then 1 else n.toNat) →
        nthPrime e nf primeCnt n start = .error (.iter .ps))) ∧
    (n < 0 → (n.natAbs ≥ start ∨ n.natAbs > maxN) → nthPrime e nf primeCnt n start = .error .absTooLarge) ∧
    (n < 0 → n.natAbs < start → n.natAbs ≤ maxN →
      (∀ q, q.Prime → q < start → primeCnt q (start - 1) = n.natAbs → nthPrime e nf primeCnt n start = .ok q) ∧
      (primeCnt 0 (start - 1) < n.natAbs → nthPrime e nf primeCnt n start = .error .below2)) := by
  refine ⟨fun h0 hN => ?_, fun h0 hN => ?_, fun h0 hN => ?_, fun h0 h1 h2 => ?_⟩
  · unfold nthPrime; rw [if_neg (show ¬ n < 0 by omega)]
    exact nthPrimePos_tooLarge e nf primeCnt _ start hN
  · unfold nthPrime; rw [if_neg (show ¬ n < 0 by omega)]
    exact nthPrimePos_correct e he nf hna _ start hs hN
  · unfold nthPrime; rw [if_pos h0]
    exact nthPrimeNeg_tooLarge e nf primeCnt _ start hN
  · unfold nthPrime; rw [if_pos h0]
    exact nthPrimeNeg_correct e he nf _ start hs (by omega) h1 h2

end Pc.It
