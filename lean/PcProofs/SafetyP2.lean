/-
C16 / C12 (WP safety): the width-checked mirrors of `PcModel/SafetyLoops.lean` never report an overflow on the functions'
domains and return what the unchecked mirrors return.

Method: the accumulators `pi_xp` and `sum` are MONOTONE (only non-negative terms are added), so every intermediate value is
bounded by the final one; the final values are the combinatorial quantities of `PcProofs/P2Loop*.lean`
(`π(x / prime)`, the chunk sum, `Spec.B x y`), which are bounded in `PcProofs/SafetyBoundsNT.lean`.
-/
import PcModel.SafetyLoops
import PcProofs.P2Loop2

namespace Pc.Safety
open Pc.P2L Pc.LB Finset
open scoped Nat.Prime

/-- `π n ≤ n` -/
theorem pi_le_self' (n : ℕ) : π n ≤ n := by
  induction n with
  | zero => simp
  | succ n ih =>
    have : π (n + 1) ≤ π n + 1 := by
      unfold Nat.primeCounting Nat.primeCounting'
      rw [Nat.count_succ]
      split <;> omega
    omega

/-! ### the inner loops: monotone accumulators -/

theorem loop1_mono (it : Iter) (xp : ℕ) : ∀ fuel s c s' c', loop1 it xp fuel s c = .ok (s', c') → c ≤ c' := by
  intro fuel
  induction fuel with
  | zero => intro s c s' c' h; simp [loop1] at h
  | succ fuel ih =>
    intro s c s' c' h
    rw [loop1] at h
    split at h
    · cases h
    · split at h
      · have := ih _ _ _ _ h; omega
      · cases h; exact Nat.le_refl _

theorem loop1C_eq (it : Iter) (xp : ℕ) : ∀ fuel s c s' c', loop1 it xp fuel s c = .ok (s', c') → c' < two63 →
    loop1C it xp fuel s c = .ok (s', c') := by
  intro fuel
  induction fuel with
  | zero => intro s c s' c' h; simp [loop1] at h
  | succ fuel ih =>
    intro s c s' c' h hb
    rw [loop1] at h
    rw [loop1C]
    split at h
    · cases h
    · rename_i last hl
      simp only [hl]
      split at h
      · rename_i hle
        have hm := loop1_mono it xp _ _ _ _ _ h
        rw [if_pos hle, if_neg (by omega)]
        exact ih _ _ _ _ h hb
      · rename_i hle
        rw [if_neg hle]
        cases h; rfl

theorem loop2_mono (xp : ℕ) : ∀ fuel s c s' c', loop2 xp fuel s c = .ok (s', c') → c ≤ c' := by
  intro fuel
  induction fuel with
  | zero => intro s c s' c' h; simp [loop2] at h
  | succ fuel ih =>
    intro s c s' c' h
    rw [loop2] at h
    split at h
    · cases h
    · split at h
      · have := ih _ _ _ _ h; omega
      · cases h; exact Nat.le_refl _

theorem loop2C_eq (xp : ℕ) : ∀ fuel s c s' c', loop2 xp fuel s c = .ok (s', c') → c' < two63 →
    loop2C xp fuel s c = .ok (s', c') := by
  intro fuel
  induction fuel with
  | zero => intro s c s' c' h; simp [loop2] at h
  | succ fuel ih =>
    intro s c s' c' h hb
    rw [loop2] at h
    rw [loop2C]
    split at h
    · cases h
    · rename_i q hq
      simp only [hq]
      split at h
      · rename_i hle
        have hm := loop2_mono xp _ _ _ _ _ h
        rw [if_pos hle, if_neg (by omega)]
        exact ih _ _ _ _ h hb
      · rename_i hle
        rw [if_neg hle]
        cases h; rfl

/-! ### the outer loop -/

/-- P2.cpp:69-79, checked: under the hypotheses of `outer_spec`, if every quotient `x / prime` the loop can form is
    below `2^63` (`x / (start + 1) < 2^63`) and the FINAL value of `sum` fits `T`, no intermediate value of `pi_xp`
    or `sum` leaves its type, and the result is the one of the unchecked loop -/
theorem outerC_spec {it : Iter} {N : ℕ} (hit : IterSpecTo it N) (tMax x start : ℕ) (hN : x / (start + 1) + 1 ≤ N)
    (hq : x / (start + 1) < two63) :
    ∀ fuel prime s m sum, (prime ≠ 0 → prime.Prime) → prime ≤ N + 1 → FwdInv s m → (start < prime → m ≤ x / prime) →
      prime < fuel + start → 0 < fuel →
      sum + ∑ q ∈ (Ioc start prime).filter Nat.Prime, π (x / q) ≤ tMax →
      outerC tMax it x start fuel prime s (π m) sum =
        .ok (sum + ∑ q ∈ (Ioc start prime).filter Nat.Prime, π (x / q)) := by
  intro fuel
  induction fuel with
  | zero => intro _ _ _ _ _ _ _ _ _ h; omega
  | succ fuel ih =>
    intro prime s m sum hp hpN hinv hm hf _ hT
    by_cases hlt : start < prime
    · have hP : prime.Prime := hp (by omega)
      have hxle : x / prime ≤ x / (start + 1) := Nat.div_le_div_left (by omega) (by omega)
      have hxpN : x / prime + 1 ≤ N := by omega
      obtain ⟨s1, c1, s2, e1, e2, hinv2⟩ := advance_spec hit hxpN hinv (hm hlt)
      obtain ⟨hset, hnot⟩ := filter_Ioc_prev hit hP hlt (Nat.le_refl _) hpN (fun q _ h => h)
      have hle := hit.prev_le (prime - 1) (by omega)
      have hpos := hP.pos
      have hpi : π (x / prime) < two63 := lt_of_le_of_lt (pi_le_self' _) (by omega)
      have hc1 : c1 ≤ π (x / prime) := loop2_mono _ _ _ _ _ _ e2
      have e1' := loop1C_eq it (x / prime) _ _ _ _ _ e1 (by omega)
      have e2' := loop2C_eq (x / prime) _ _ _ _ _ e2 hpi
      rw [hset, Finset.sum_insert hnot] at hT
      have hrec := ih (it.prev (prime - 1)) s2 (x / prime) (sum + π (x / prime)) (hit.prev_prime _ (by omega)) (by omega)
        hinv2 (fun h => Nat.div_le_div_left (by omega) (by omega)) (by omega) (by omega) (by omega)
      rw [outerC]
      simp only [if_pos hlt, e1', e2']
      rw [if_neg (by omega), hrec, hset, Finset.sum_insert hnot, Nat.add_assoc]
    · rw [outerC]
      simp only [if_neg hlt]
      rw [Finset.Ioc_eq_empty (by omega)]
      simp

/-- `P2_thread<T>` / `B_thread<T>`, checked: for `0 < low < high ≤ 2^63` (what `LoadBalancerP2` hands out: `high ≤ x / max(y, 1)`,
    an `int64_t`) and a chunk value that fits `T`, no stored value overflows, and the value is the chunk sum -/
theorem p2ThreadC_eq_to {it : Iter} {N : ℕ} (hit : IterSpecTo it N) {pi : ℕ → ℕ} {x : ℕ}
    (hpi : ∀ n, n ≤ N → n < x → pi n = π n)
    (tMax y : ℕ) {low high : ℕ} (hlow : 0 < low) (hlh : low < high) (hhigh : high ≤ two63)
    (hN1 : thrStop x low ≤ N) (hN2 : x / (thrStart x y high + 1) + 1 ≤ N)
    (hT : ∑ q ∈ (Ioc (thrStart x y high) (thrStop x low)).filter Nat.Prime, π (x / q) ≤ tMax) :
    p2ThreadC tMax it pi x y low high =
      .ok (∑ q ∈ (Ioc (thrStart x y high) (thrStop x low)).filter Nat.Prime, π (x / q)) := by
  unfold p2ThreadC
  rw [if_neg (by omega), if_neg (by omega)]
  simp only
  set start := thrStart x y high with hstart
  set stop := thrStop x low
  by_cases hle : it.prev stop ≤ start
  · rw [if_pos hle]
    have : (Ioc start stop).filter Nat.Prime = ∅ := by
      rw [Finset.filter_eq_empty_iff]
      intro q hq hqp
      rw [mem_Ioc] at hq
      have := hit.prev_max stop hN1 q hqp hq.2
      omega
    rw [this]; simp
  · rw [if_neg hle]
    have hlt : start < it.prev stop := by omega
    have hP : (it.prev stop).Prime := hit.prev_prime stop hN1 (by omega)
    have hle' := hit.prev_le stop hN1
    obtain ⟨hset, hnot⟩ := filter_Ioc_prev hit hP hlt hle' (by omega) (fun q hq h => hit.prev_max stop hN1 q hq h)
    have hx : 0 < x := by
      by_contra hx
      have hx0 : x = 0 := by omega
      have : stop = 0 := by
        show thrStop x low = 0
        unfold thrStop; rw [hx0]; simp
      omega
    have hxp : x / it.prev stop < x := Nat.div_lt_self hx hP.one_lt
    have hxle : x / it.prev stop ≤ x / (start + 1) := Nat.div_le_div_left (by omega) (by omega)
    have hxpN : x / it.prev stop + 1 ≤ N := by omega
    -- every quotient of the chunk is below `high`
    have hqb : x / (start + 1) < two63 :=
      lt_of_lt_of_le (visited_div_lt_high (y := y) hlow hlh (Nat.succ_pos start) (Nat.lt_succ_self _) (by omega)) hhigh
    rw [hpi _ (by omega) hxp]
    have hpib : π (x / it.prev stop) < two63 := lt_of_le_of_lt (pi_le_self' _) (by omega)
    rw [hset, Finset.sum_insert hnot] at hT
    rw [if_neg (by omega), if_neg (by omega)]
    have hinv0 : FwdInv ⟨it.next (x / it.prev stop + 1), 0⟩ (x / it.prev stop) := by
      refine ⟨List.length_pos_of_ne_nil (hit.next_ne _ hxpN), by simpa using hit.next_sorted _ hxpN, ?_⟩
      intro L' hL' q
      simp only [List.drop_zero]
      rw [hit.next_mem _ hxpN L' hL' q]
      constructor
      · rintro ⟨h1, h2, h3⟩; exact ⟨h1, by omega, h3⟩
      · rintro ⟨h1, h2, h3⟩; exact ⟨h1, by omega, h3⟩
    have hle2 := hit.prev_le (it.prev stop - 1) (by omega)
    have hpos := hP.pos
    rw [outerC_spec hit tMax x start hN2 hqb (stop + 1) (it.prev (it.prev stop - 1)) _ (x / it.prev stop) _
      (hit.prev_prime _ (by omega)) (by omega) hinv0
      (fun h => Nat.div_le_div_left (by omega) (by omega)) (by omega) (by omega) hT]
    rw [hset, Finset.sum_insert hnot]

/-- the same for an iterator that meets the contract everywhere, in terms of the chunk function -/
theorem p2ThreadC_eq_chunk {it : Iter} (hit : IterSpec it) {pi : ℕ → ℕ} {x : ℕ} (hpi : ∀ n, n < x → pi n = π n)
    (tMax y : ℕ) {low high : ℕ} (hlow : 0 < low) (hlh : low < high) (hhigh : high ≤ two63)
    (hT : chunkN x y (low, high) ≤ tMax) :
    p2ThreadC tMax it pi x y low high = .ok (chunkN x y (low, high)) := by
  have hT' : ∑ q ∈ (Ioc (thrStart x y high) (thrStop x low)).filter Nat.Prime, π (x / q) ≤ tMax := by
    rw [chunkSet_eq hlow hlh]; exact hT
  rw [p2ThreadC_eq_to (hit.to (thrStop x low + (x / (thrStart x y high + 1) + 1))) (fun n _ h => hpi n h) tMax y hlow hlh
    hhigh (Nat.le_add_right _ _) (Nat.le_add_left _ _) hT', chunkSet_eq hlow hlh]
  rfl

/-! ### thread-private sums and the reduction -/

/-- the thread-private `sum` in program order: every prefix is bounded by the total of the thread -/
theorem privC_ok {f : ℕ → ℕ → Except CErr ℕ} {g : Chunk → ℕ} (tMax w : ℕ) :
    ∀ (es : List P2.Ev) (acc : ℕ), (∀ e ∈ es, e.work = true → f e.low e.high = .ok (g (e.low, e.high))) →
      acc + privN g w es ≤ tMax → privC tMax f w es acc = .ok (acc + privN g w es) := by
  intro es
  induction es with
  | nil => intro acc _ _; simp [privC, privN]
  | cons e es ih =>
    intro acc h hb
    have h' : ∀ d ∈ es, d.work = true → f d.low d.high = .ok (g (d.low, d.high)) :=
      fun d hd => h d (List.mem_cons_of_mem _ hd)
    simp only [privN] at hb ⊢
    rw [privC]
    by_cases hc : (e.work && e.w == w) = true
    · have hw : e.work = true := by
        simp only [Bool.and_eq_true] at hc; exact hc.1
      rw [if_pos hc] at hb ⊢
      rw [if_pos hc, h e List.mem_cons_self hw]
      simp only []
      rw [if_neg (by omega), ih _ h' (by omega)]
      congr 1; omega
    · rw [if_neg hc] at hb ⊢
      rw [if_neg hc, ih _ h' (by omega)]
      congr 1; omega

/-- partial sums of a list of naturals are bounded by the total -/
theorem reduceC_ok {f : ℕ → ℕ → Except CErr ℕ} {g : Chunk → ℕ} (tMin : ℤ) (tMax : ℕ) (es : List P2.Ev)
    (h : ∀ e ∈ es, e.work = true → f e.low e.high = .ok (g (e.low, e.high))) :
    ∀ (ws : List ℕ) (init : ℤ), tMin ≤ init → init + ((ws.map (fun w => privN g w es)).sum : ℕ) ≤ (tMax : ℤ) →
      ((ws.map (fun w => privN g w es)).sum : ℕ) ≤ tMax →
      reduceC tMin tMax f es init ws = .ok (init + ((ws.map (fun w => privN g w es)).sum : ℕ)) := by
  intro ws
  induction ws with
  | nil => intro init _ _ _; simp [reduceC]
  | cons w ws ih =>
    intro init h1 h2 h3
    simp only [List.map_cons, List.sum_cons, Nat.cast_add] at h2 h3 ⊢
    rw [reduceC, privC_ok tMax w es 0 h (by omega)]
    simp only [Nat.zero_add]
    have hnn : (0 : ℤ) ≤ ((List.map (fun w => privN g w es) ws).sum : ℕ) := Int.natCast_nonneg _
    have hr : inRange tMin tMax (init + (privN g w es : ℤ)) = true := by
      simp only [inRange, Bool.and_eq_true, decide_eq_true_eq]
      constructor <;> omega
    rw [if_pos hr, ih _ (by omega) (by omega) (by omega)]
    congr 1
    omega

end Pc.Safety
