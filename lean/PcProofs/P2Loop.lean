/-
WP p2b — the loop structure of `P2_thread` / `B_thread` (PcModel/P2Loop.lean) computes the defining sum.

* `IterSpec`      : the contract of `primesieve::iterator` that P2.cpp / B.cpp rely on (this is C18's
                    `buffer_contract`, stated here as a hypothesis structure): `prev_prime()` returns the largest prime
                    not yet passed (0 when there is none), `generate_next_primes()` leaves a NON-EMPTY, strictly
                    increasing buffer holding exactly the primes from the current position up to its last entry.
                    Batch sizes are arbitrary.
* `FwdInv`        : invariant of the forward iterator `it2` between two primes of the outer loop.
* `loop1_spec`, `loop2_spec`, `advance_spec` : the two inner loops bring `pi_xp` from `π m` to `π xp`, never read
                    outside `primes_[0 .. size_)`, and terminate.
* `outer_spec`, `p2Thread_eq` : `P2_thread(x, y, low, high) = Σ_{q prime, start < q ≤ stop} π(x / q)`.
-/
import PcModel.P2Loop
import PcProofs.FormulasBase
import PcProofs.Spec.All

namespace Pc.P2L
open Nat Finset
open scoped Nat.Prime

/-- what P2.cpp / B.cpp assume about `primesieve::iterator` -/
structure IterSpec (it : Iter) : Prop where
  prev_le : ∀ n, it.prev n ≤ n
  prev_prime : ∀ n, it.prev n ≠ 0 → (it.prev n).Prime
  prev_max : ∀ n q, q.Prime → q ≤ n → q ≤ it.prev n
  next_ne : ∀ n, it.next n ≠ []
  next_sorted : ∀ n, (it.next n).Pairwise (· < ·)
  next_mem : ∀ n L, (it.next n).getLast? = some L → ∀ q, q ∈ it.next n ↔ q.Prime ∧ n ≤ q ∧ q ≤ L

/-- the same contract for positions `≤ N` only (what an iterator over a finite prime table can promise) -/
structure IterSpecTo (it : Iter) (N : ℕ) : Prop where
  prev_le : ∀ n, n ≤ N → it.prev n ≤ n
  prev_prime : ∀ n, n ≤ N → it.prev n ≠ 0 → (it.prev n).Prime
  prev_max : ∀ n, n ≤ N → ∀ q, q.Prime → q ≤ n → q ≤ it.prev n
  next_ne : ∀ n, n ≤ N → it.next n ≠ []
  next_sorted : ∀ n, n ≤ N → (it.next n).Pairwise (· < ·)
  next_mem : ∀ n, n ≤ N → ∀ L, (it.next n).getLast? = some L → ∀ q, q ∈ it.next n ↔ q.Prime ∧ n ≤ q ∧ q ≤ L

theorem IterSpec.to {it : Iter} (h : IterSpec it) (N : ℕ) : IterSpecTo it N :=
  ⟨fun n _ => h.prev_le n, fun n _ => h.prev_prime n, fun n _ => h.prev_max n, fun n _ => h.next_ne n,
   fun n _ => h.next_sorted n, fun n _ => h.next_mem n⟩

/-- state of `it2` when every prime `≤ m` has been counted: the unread part `primes_[i_ .. size_)` is not empty
    and lists exactly the primes in `(m, primes_[size_-1]]`, increasing -/
structure FwdInv (s : Fwd) (m : ℕ) : Prop where
  lt : s.i < s.buf.length
  sorted : (s.buf.drop s.i).Pairwise (· < ·)
  mem : ∀ L, s.buf.getLast? = some L → ∀ q, q ∈ s.buf.drop s.i ↔ q.Prime ∧ m < q ∧ q ≤ L

/-- a strictly increasing list that holds exactly the primes of `(m, L]` has `π L - π m` entries -/
theorem pi_add_length {l : List ℕ} {m L : ℕ} (hs : l.Pairwise (· < ·))
    (hm : ∀ q, q ∈ l ↔ q.Prime ∧ m < q ∧ q ≤ L) (hmL : m ≤ L) : π L = π m + l.length := by
  have hnd : l.Nodup := hs.imp (fun h => Nat.ne_of_lt h)
  have hset : l.toFinset = (Ioc m L).filter Nat.Prime := by
    ext q
    rw [List.mem_toFinset, hm q, mem_filter, mem_Ioc]
    tauto
  have hc := List.toFinset_card_of_nodup hnd
  rw [hset, Spec.filter_prime_Ioc_eq, Spec.card_primesGt] at hc
  have := Spec.pi_mono hmL
  omega

theorem FwdInv.last_exists {s : Fwd} {m : ℕ} (h : FwdInv s m) : ∃ L, s.buf.getLast? = some L := by
  have hne : s.buf ≠ [] := by
    intro he; have := h.lt; rw [he] at this; simp at this
  exact ⟨s.buf.getLast hne, List.getLast?_eq_some_getLast hne⟩

theorem FwdInv.cur {s : Fwd} {m : ℕ} (h : FwdInv s m) :
    s.buf.drop s.i = s.buf[s.i]'h.lt :: s.buf.drop (s.i + 1) := List.drop_eq_getElem_cons h.lt

theorem FwdInv.lt_last {s : Fwd} {m L : ℕ} (h : FwdInv s m) (hL : s.buf.getLast? = some L) : m < L := by
  have hmem : s.buf[s.i]'h.lt ∈ s.buf.drop s.i := by rw [h.cur]; exact List.mem_cons_self
  have := (h.mem L hL _).1 hmem
  omega

/-- P2.cpp:73-74 -/
theorem loop1_spec {it : Iter} {N : ℕ} (hit : IterSpecTo it N) (xp : ℕ) (hN : xp + 1 ≤ N) :
    ∀ fuel s m, FwdInv s m → m ≤ xp → xp + 2 ≤ fuel + m →
      ∃ s' m', loop1 it xp fuel s (π m) = .ok (s', π m') ∧ FwdInv s' m' ∧ m ≤ m' ∧ m' ≤ xp ∧
        ∀ L, s'.buf.getLast? = some L → xp < L := by
  intro fuel
  induction fuel with
  | zero => intro s m _ h1 h2; omega
  | succ fuel ih =>
    intro s m hinv hm hf
    obtain ⟨L, hL⟩ := hinv.last_exists
    have hmL := hinv.lt_last hL
    by_cases hle : L ≤ xp
    · -- the whole rest of the buffer is counted, a new batch is generated
      have hcount : π m + (s.buf.length - s.i) = π L := by
        have := pi_add_length hinv.sorted (hinv.mem L hL) (Nat.le_of_lt hmL)
        rw [List.length_drop] at this
        omega
      have hinv' : FwdInv ⟨it.next (L + 1), 0⟩ L := by
        refine ⟨?_, ?_, ?_⟩
        · exact List.length_pos_of_ne_nil (hit.next_ne _ (by omega))
        · simpa using hit.next_sorted (L + 1) (by omega)
        · intro L' hL' q
          simp only [List.drop_zero]
          rw [hit.next_mem (L + 1) (by omega) L' hL' q]
          constructor
          · rintro ⟨h1, h2, h3⟩; exact ⟨h1, by omega, h3⟩
          · rintro ⟨h1, h2, h3⟩; exact ⟨h1, by omega, h3⟩
      obtain ⟨s', m', h1, h2, h3, h4, h5⟩ := ih ⟨it.next (L + 1), 0⟩ L hinv' hle (by omega)
      refine ⟨s', m', ?_, h2, by omega, h4, h5⟩
      rw [loop1, hL]
      simp only [if_pos hle]
      rw [hcount]; exact h1
    · refine ⟨s, m, ?_, hinv, Nat.le_refl _, hm, ?_⟩
      · rw [loop1, hL]; simp only [if_neg hle]
      · intro L' hL'; have := Option.some.inj (hL.symm.trans hL'); omega

/-- P2.cpp:75-76 -/
theorem loop2_spec (xp : ℕ) :
    ∀ fuel s m, FwdInv s m → m ≤ xp → (∀ L, s.buf.getLast? = some L → xp < L) → s.buf.length + 1 ≤ fuel + s.i →
      ∃ s' m', loop2 xp fuel s (π m) = .ok (s', π m') ∧ FwdInv s' m' ∧ m ≤ m' ∧ m' ≤ xp ∧ s'.buf = s.buf ∧
        ∀ q, s'.buf[s'.i]? = some q → xp < q := by
  intro fuel
  induction fuel with
  | zero => intro s m hinv _ _ hf; have := hinv.lt; omega
  | succ fuel ih =>
    intro s m hinv hm hlast hf
    obtain ⟨L, hL⟩ := hinv.last_exists
    have hxL := hlast L hL
    have hget : s.buf[s.i]? = some (s.buf[s.i]'hinv.lt) := List.getElem?_eq_getElem hinv.lt
    set q := s.buf[s.i]'hinv.lt with hq
    have hcur := hinv.cur
    have hsorted := hinv.sorted
    rw [hcur, List.pairwise_cons] at hsorted
    have hqmem : q ∈ s.buf.drop s.i := by rw [hcur]; exact List.mem_cons_self
    have hqp := (hinv.mem L hL q).1 hqmem
    by_cases hle : q ≤ xp
    · -- one more prime `≤ xp`
      have hi1 : s.i + 1 < s.buf.length := by
        by_contra hcon
        have hlen : s.buf.length - 1 = s.i := by have := hinv.lt; omega
        have : s.buf.getLast? = some q := by
          rw [List.getLast?_eq_getElem?, hlen, hget]
        have := Option.some.inj (hL.symm.trans this); omega
      have hcount : π q = π m + 1 := by
        have := pi_add_length (l := [q]) (m := m) (L := q) (List.pairwise_singleton _ _) ?_ (by omega)
        · simpa using this
        · intro q'
          constructor
          · intro h; rw [List.mem_singleton] at h; subst h; exact ⟨hqp.1, hqp.2.1, Nat.le_refl _⟩
          · rintro ⟨h1, h2, h3⟩
            have hm' : q' ∈ s.buf.drop s.i := (hinv.mem L hL q').2 ⟨h1, h2, by omega⟩
            rw [hcur, List.mem_cons] at hm'
            rcases hm' with h | h
            · rw [h]; exact List.mem_singleton_self _
            · have := hsorted.1 q' h; omega
      have hinv' : FwdInv ⟨s.buf, s.i + 1⟩ q := by
        refine ⟨hi1, hsorted.2, ?_⟩
        intro L' hL' q'
        have hLL : L' = L := by
          have h1 : s.buf.getLast? = some L' := hL'
          exact (Option.some.inj (hL.symm.trans h1)).symm
        subst hLL
        show q' ∈ s.buf.drop (s.i + 1) ↔ _
        constructor
        · intro h
          have h1 : q' ∈ s.buf.drop s.i := by rw [hcur]; exact List.mem_cons_of_mem _ h
          have h2 := (hinv.mem L' hL q').1 h1
          exact ⟨h2.1, hsorted.1 q' h, h2.2.2⟩
        · rintro ⟨h1, h2, h3⟩
          have hm' : q' ∈ s.buf.drop s.i := (hinv.mem L' hL q').2 ⟨h1, by omega, h3⟩
          rw [hcur, List.mem_cons] at hm'
          rcases hm' with h | h
          · omega
          · exact h
      obtain ⟨s', m', h1, h2, h3, h4, h5, h6⟩ := ih ⟨s.buf, s.i + 1⟩ q hinv' hle hlast (by simp only; omega)
      refine ⟨s', m', ?_, h2, by omega, h4, h5, h6⟩
      rw [loop2, hget]
      simp only [if_pos hle]
      rw [← hcount]; exact h1
    · refine ⟨s, m, ?_, hinv, Nat.le_refl _, hm, rfl, ?_⟩
      · rw [loop2, hget]; simp only [if_neg hle]
      · intro q' hq'; have := Option.some.inj (hget.symm.trans hq'); omega

/-- both inner loops: from "every prime `≤ m` counted" to "every prime `≤ xp` counted" -/
theorem advance_spec {it : Iter} {N : ℕ} (hit : IterSpecTo it N) {s : Fwd} {m xp : ℕ} (hN : xp + 1 ≤ N)
    (hinv : FwdInv s m) (hm : m ≤ xp) :
    ∃ s1 c1 s2, loop1 it xp (xp + 2) s (π m) = .ok (s1, c1) ∧
      loop2 xp (s1.buf.length + 1) s1 c1 = .ok (s2, π xp) ∧ FwdInv s2 xp := by
  obtain ⟨s1, m1, h1, hinv1, hm1, hm1', hlast1⟩ := loop1_spec hit xp hN (xp + 2) s m hinv hm (by omega)
  obtain ⟨s2, m2, h2, hinv2, hm2, hm2', hbuf, hhead⟩ :=
    loop2_spec xp (s1.buf.length + 1) s1 m1 hinv1 hm1' hlast1 (by omega)
  obtain ⟨L, hL⟩ := hinv2.last_exists
  have hxL : xp < L := hlast1 L (by rw [← hbuf]; exact hL)
  have hget : s2.buf[s2.i]? = some (s2.buf[s2.i]'hinv2.lt) := List.getElem?_eq_getElem hinv2.lt
  have hq := hhead _ hget
  have hcur := hinv2.cur
  have hsorted := hinv2.sorted
  rw [hcur, List.pairwise_cons] at hsorted
  -- no prime in `(m2, xp]`
  have hnone : ∀ q', q'.Prime → m2 < q' → xp < q' := by
    intro q' h1 h2
    by_contra hcon
    have hm' : q' ∈ s2.buf.drop s2.i := (hinv2.mem L hL q').2 ⟨h1, h2, by omega⟩
    rw [hcur, List.mem_cons] at hm'
    rcases hm' with h | h
    · omega
    · have := hsorted.1 q' h; omega
  have hpi : π xp = π m2 := by
    have := pi_add_length (l := []) (m := m2) (L := xp) List.Pairwise.nil ?_ hm2'
    · simpa using this
    · intro q'
      constructor
      · intro h; simp at h
      · rintro ⟨h1, h2, h3⟩; have := hnone q' h1 h2; omega
  refine ⟨s1, π m1, s2, h1, ?_, ?_⟩
  · rw [hpi]; exact h2
  · refine ⟨hinv2.lt, hinv2.sorted, ?_⟩
    intro L' hL' q'
    rw [hinv2.mem L' hL' q']
    constructor
    · rintro ⟨h1, h2, h3⟩; exact ⟨h1, hnone q' h1 h2, h3⟩
    · rintro ⟨h1, h2, h3⟩; exact ⟨h1, by omega, h3⟩

/-- one step of the backward iterator: the primes of `(start, n]` are `P` (the largest) and those of
    `(start, prev (P - 1)]` -/
theorem filter_Ioc_prev {it : Iter} {N : ℕ} (hit : IterSpecTo it N) {start n P : ℕ} (hP : P.Prime) (h1 : start < P)
    (h2 : P ≤ n) (hPN : P ≤ N + 1) (hmax : ∀ q, q.Prime → q ≤ n → q ≤ P) :
    (Ioc start n).filter Nat.Prime = insert P ((Ioc start (it.prev (P - 1))).filter Nat.Prime) ∧
      P ∉ (Ioc start (it.prev (P - 1))).filter Nat.Prime := by
  have hle := hit.prev_le (P - 1) (by omega)
  have hpos := hP.pos
  constructor
  · ext q
    simp only [mem_filter, mem_Ioc, mem_insert]
    constructor
    · rintro ⟨⟨ha, hb⟩, hq⟩
      by_cases hqP : q = P
      · exact Or.inl hqP
      · right
        have := hmax q hq hb
        exact ⟨⟨ha, hit.prev_max (P - 1) (by omega) q hq (by omega)⟩, hq⟩
    · rintro (rfl | ⟨⟨ha, hb⟩, hq⟩)
      · exact ⟨⟨h1, h2⟩, hP⟩
      · exact ⟨⟨ha, by omega⟩, hq⟩
  · simp only [mem_filter, mem_Ioc, not_and]
    intro h; omega

/-- P2.cpp:69-79 -/
theorem outer_spec {it : Iter} {N : ℕ} (hit : IterSpecTo it N) (x start : ℕ) (hN : x / (start + 1) + 1 ≤ N) :
    ∀ fuel prime s m sum, (prime ≠ 0 → prime.Prime) → prime ≤ N + 1 → FwdInv s m → (start < prime → m ≤ x / prime) →
      prime < fuel + start → 0 < fuel →
      outer it x start fuel prime s (π m) sum =
        .ok (sum + ∑ q ∈ (Ioc start prime).filter Nat.Prime, π (x / q)) := by
  intro fuel
  induction fuel with
  | zero => intro _ _ _ _ _ _ _ _ _ h; omega
  | succ fuel ih =>
    intro prime s m sum hp hpN hinv hm hf _
    by_cases hlt : start < prime
    · have hP : prime.Prime := hp (by omega)
      have hxpN : x / prime + 1 ≤ N := by
        have : x / prime ≤ x / (start + 1) := Nat.div_le_div_left (by omega) (by omega)
        omega
      obtain ⟨s1, c1, s2, e1, e2, hinv2⟩ := advance_spec hit hxpN hinv (hm hlt)
      obtain ⟨hset, hnot⟩ := filter_Ioc_prev hit hP hlt (Nat.le_refl _) hpN (fun q _ h => h)
      have hle := hit.prev_le (prime - 1) (by omega)
      have hpos := hP.pos
      have hrec := ih (it.prev (prime - 1)) s2 (x / prime) (sum + π (x / prime)) (hit.prev_prime _ (by omega)) (by omega)
        hinv2 (fun h => Nat.div_le_div_left (by omega) (by omega)) (by omega) (by omega)
      rw [outer]
      simp only [if_pos hlt, e1, e2]
      rw [hrec, hset, Finset.sum_insert hnot, Nat.add_assoc]
    · rw [outer]
      simp only [if_neg hlt]
      rw [Finset.Ioc_eq_empty (by omega)]
      simp

/-- `P2_thread` over an iterator that meets the contract up to `N` and a `pi_noprint` that is right up to `N`,
    when `N` covers `stop` and `⌊x / (start + 1)⌋ + 1` (the largest position the forward iterator is asked for) -/
theorem p2Thread_eq_to {it : Iter} {N : ℕ} (hit : IterSpecTo it N) {pi : ℕ → ℕ} {x : ℕ}
    (hpi : ∀ n, n ≤ N → n < x → pi n = π n)
    (y : ℕ) {low high : ℕ} (hlow : 0 < low) (hlh : low < high)
    (hN1 : thrStop x low ≤ N) (hN2 : x / (thrStart x y high + 1) + 1 ≤ N) :
    p2Thread it pi x y low high =
      .ok (∑ q ∈ (Ioc (thrStart x y high) (thrStop x low)).filter Nat.Prime, π (x / q)) := by
  unfold p2Thread
  rw [if_neg (by omega), if_neg (by omega)]
  simp only
  set start := thrStart x y high
  set stop := thrStop x low
  by_cases hle : it.prev stop ≤ start
  · rw [if_pos hle]
    have : (Ioc start stop).filter Nat.Prime = ∅ := by
      rw [Finset.filter_eq_empty_iff]
      intro q hq hqp
      rw [mem_Ioc] at hq
      have := hit.prev_max stop hN1 q hqp hq.2
      omega
    rw [this]; simp
  · rw [if_neg hle]
    have hlt : start < it.prev stop := by omega
    have hP : (it.prev stop).Prime := hit.prev_prime stop hN1 (by omega)
    have hle' := hit.prev_le stop hN1
    obtain ⟨hset, hnot⟩ := filter_Ioc_prev hit hP hlt hle' (by omega) (fun q hq h => hit.prev_max stop hN1 q hq h)
    have hx : 0 < x := by
      by_contra hx
      have hx0 : x = 0 := by omega
      have : stop = 0 := by
        show thrStop x low = 0
        unfold thrStop; rw [hx0]; simp
      omega
    have hxp : x / it.prev stop < x := Nat.div_lt_self hx hP.one_lt
    have hxpN : x / it.prev stop + 1 ≤ N := by
      have : x / it.prev stop ≤ x / (start + 1) := Nat.div_le_div_left (by omega) (by omega)
      omega
    rw [hpi _ (by omega) hxp]
    have hinv0 : FwdInv ⟨it.next (x / it.prev stop + 1), 0⟩ (x / it.prev stop) := by
      refine ⟨List.length_pos_of_ne_nil (hit.next_ne _ hxpN), by simpa using hit.next_sorted _ hxpN, ?_⟩
      intro L' hL' q
      simp only [List.drop_zero]
      rw [hit.next_mem _ hxpN L' hL' q]
      constructor
      · rintro ⟨h1, h2, h3⟩; exact ⟨h1, by omega, h3⟩
      · rintro ⟨h1, h2, h3⟩; exact ⟨h1, by omega, h3⟩
    have hle2 := hit.prev_le (it.prev stop - 1) (by omega)
    have hpos := hP.pos
    rw [outer_spec hit x start hN2 (stop + 1) (it.prev (it.prev stop - 1)) _ (x / it.prev stop) _
      (hit.prev_prime _ (by omega)) (by omega) hinv0
      (fun h => Nat.div_le_div_left (by omega) (by omega)) (by omega) (by omega)]
    rw [hset, Finset.sum_insert hnot]

/-- **`P2_thread(x, y, low, high)` is the sum of `π(x / q)` over the primes `start < q ≤ stop`** — for every
    iterator that meets the contract (any batch sizes), with `pi_noprint` only trusted below `x` -/
theorem p2Thread_eq {it : Iter} (hit : IterSpec it) {pi : ℕ → ℕ} {x : ℕ} (hpi : ∀ n, n < x → pi n = π n)
    (y : ℕ) {low high : ℕ} (hlow : 0 < low) (hlh : low < high) :
    p2Thread it pi x y low high =
      .ok (∑ q ∈ (Ioc (thrStart x y high) (thrStop x low)).filter Nat.Prime, π (x / q)) :=
  p2Thread_eq_to (hit.to (thrStop x low + (x / (thrStart x y high + 1) + 1))) (fun n _ h => hpi n h) y hlow hlh
    (Nat.le_add_right _ _) (Nat.le_add_left _ _)

end Pc.P2L
