/-
WP top: `pi_gourdon_64/128` (model `Pc.Top.piGourdon`) returns π(x) — composition of `gourdon64_accept` / `gourdon128_accept`
(C12), `sigma_eq`, `phi0OpenMP_eq`, `bOpenMP_eq`, `dOpenMP_ok_or_badRun` + `dThread_eq` + `WSD_total_eq_D` (D by the real control
flow of the region) and `Spec.GParams.pi_gourdon`; the AC term enters through the named hook `AcLoopEqDef` (WP ac2:
`ac_loop_eq_def`).
-/
import PcProofs.TopAlgsDR
import PcProofs.TopAlgsB
import PcProofs.ParamsL2Main
import PcProofs.LeafSigma
import PcProofs.HardDSpec
import PcProofs.HardDDefs
import PcProofs.Spec.GourdonMain

namespace Pc.Top
open Nat Finset Pc.LB Pc.Hard
open scoped Nat.Prime

/-- **THE AC HOOK** (to be discharged by WP ac2's `ac_loop_eq_def`): the model of the real control flow of `AC` (AC_libdivide.cpp:
    `A`, `C1`, `C2` over the segments LoadBalancerAC handed out) returns Gourdon's `A + C` (the classes of `gourdon_decomp`).
    Today: `ac_A_chain_total_partial`, `ac_C2_chain_total_partial` (PcProps/C08EasyAC.lean) + correspondence streams. -/
def AcLoopEqDef (t : NT) (w : ITy) (x y z k : ℕ) (c1sched : List (List ℕ)) (segs : List (ℕ × ℕ)) : Prop :=
  Easy.acEntry .libdivide t w x y z k c1sched segs
    = .ok (Spec.A x y (xStar x y) (irootN 3 x) + Spec.C x y z k (xStar x y))

/-- what a recorded execution of `pi_gourdon_*` must satisfy to be an execution (the LoadBalancerS2 history of `D` needs
    no hypothesis: a history that is not a run is answered with `badRun`) -/
structure GAdmissible {σ : Type} (T : Tables σ) (wide : Bool) (x : ℕ) (r : GRun) : Prop where
  env : ∃ ay az : ℚ, GourdonEnv x ay az r.fo
  phi0 : IsSchedule (getK x + 1) (π (gY x r.fo.v).toNat) r.phi0
  b : 4 ≤ x → r.b.valid T.lc x (x / max (gY x r.fo.v).toNat 1) = true
  /-- the AC hook at the parameters of this run -/
  ac : AcLoopEqDef T.t (widthTy wide) x (gY x r.fo.v).toNat (gZ x (gY x r.fo.v) (r.fo.w (gY x r.fo.v))).toNat (getK x)
    r.acC1 r.acSegs

/-- the table `t` reaches what `Sigma` / `Phi0` / `AC` allocate for `(x, y)` -/
structure GReach (t : NT) (x y : ℕ) : Prop where
  hy : y ≤ t.bound
  hs : Nat.sqrt x ≤ t.bound
  hm4 : x / (xStar x y * y) ≤ t.bound
  h63 : t.bound ≤ ITy.i64.maxVal

theorem four_le_getK {x : ℕ} (hx : 2401 ≤ x) : 4 ≤ getK x := by
  unfold getK
  have h7 : 7 ≤ irootN 4 x := by
    by_contra h
    push Not at h
    have h2 := (irootN_spec 4 x (by norm_num)).2
    have : (irootN 4 x + 1) ^ 4 ≤ 7 ^ 4 := Nat.pow_le_pow_left (by omega) 4
    omega
  calc 4 = getC 7 := by decide
    _ ≤ getC (irootN 4 x) := getC_mono h7

theorem widthTy_false_max : (widthTy false).maxVal = 2 ^ 63 - 1 := by decide
theorem widthTy_true_max : (widthTy true).maxVal = 2 ^ 127 - 1 := by decide

theorem le_widthTy_max {wide : Bool} {a x : ℕ} (ha : a ≤ x) (hx127 : x < 2 ^ 127) (hwx : wide = false → x < 2 ^ 63) :
    a ≤ (widthTy wide).maxVal := by
  cases wide
  · rw [widthTy_false_max]; exact Nat.le_sub_one_of_lt (lt_of_le_of_lt ha (hwx rfl))
  · rw [widthTy_true_max]; exact Nat.le_sub_one_of_lt (lt_of_le_of_lt ha hx127)

theorem getK_le_pi (x : ℕ) : getK x ≤ π (irootN 4 x) := getC_le_pi _

/-- the core: parameters given, every term by its loop model -/
theorem piGourdon_core {σ : Type} (T : Tables σ) {B : ℕ} (hT : TablesOK T B) (pi : ℕ → ℕ) (wide : Bool) (x : ℕ)
    (threads : ℤ) (isPrint : Bool) (r : GRun) (hx : 2401 ≤ x) (hx127 : x < 2 ^ 127)
    (hwx : wide = false → x < 2 ^ 63)
    (hpi : ∀ n, n ≤ x / ((gY x r.fo.v).toNat + 1) → n < x → pi n = π n)
    (hpar : gourdonL2 wide x threads r.fo = .ok (gOutPure wide x threads r.fo))
    (hrange : GourdonRange x threads (gOutPure wide x threads r.fo))
    (hyB : (gY x r.fo.v).toNat ≤ B) (hreach : GReach T.t x (gY x r.fo.v).toNat)
    (hadm : GAdmissible T wide x r) :
    piGourdon T pi wide (x : ℤ) threads isPrint r = .ok (π x : ℤ) ∨
      piGourdon T pi wide (x : ℤ) threads isPrint r = .error (.hard .badRun) := by
  obtain ⟨g1, g2, g3, g4, g5, g6, _, _, _, _, _, g12, g13, g14, g15, g16, _, _, _, _, _, _, _, _, _, _, _, _, g29⟩ := hrange
  obtain ⟨n1, n2, n3, n4, n5, n6, n7⟩ := g29 (by omega)
  simp only [gOutPure] at g1 g2 g3 g4 g5 g6 g12 g13 g14 g15 g16 n1 n2 n3 n4 n5 n6 n7
  set yi := gY x r.fo.v with hyi
  clear_value yi
  set zi := gZ x yi (r.fo.w yi) with hzi
  clear_value zi
  set y := yi.toNat with hy
  clear_value y
  set z := zi.toNat with hz
  clear_value z
  have hyv : (y : ℤ) = yi := by rw [hy]; exact Int.toNat_of_nonneg (by omega)
  have hzv : (z : ℤ) = zi := by rw [hz]; exact Int.toNat_of_nonneg (by omega)
  have hy1 : 1 ≤ y := by omega
  have hxs : xStar x y = Spec.xstar x y (irootN 4 x) := xStar_eq hy1
  set xs := xStar x y with hxsd
  clear_value xs
  rw [← hxs] at g1 g2 n4 n5 n6 n7
  have hsq := Nat.sqrt_le x
  have hsq' := isqrtN_eq x
  have hx13y : irootN 3 x < y := by omega
  have hys : y < Nat.sqrt x := by rw [← hsq']; omega
  have hzs : z < Nat.sqrt x := by rw [← hsq']; omega
  have hyz : y ≤ z := by omega
  have hyy : y * y ≤ x := le_trans (Nat.mul_le_mul hys.le hys.le) hsq
  have hzz : z * z ≤ x := le_trans (Nat.mul_le_mul hzs.le hzs.le) hsq
  have hzy : z * y ≤ x := le_trans (Nat.mul_le_mul hzs.le hys.le) hsq
  have h3 := irootN_spec 3 x (by norm_num)
  have hk4 : 4 ≤ getK x := four_le_getK hx
  have gp : Spec.GParams x y z (getK x) xs (irootN 3 x) := by
    refine ⟨lt_of_lt_of_le h3.2 (Nat.pow_le_pow_left hx13y 3), hyy, hyz, hzz, h3.1, h3.2, ?_, ?_, ?_, ?_⟩
    · exact_mod_cast n6
    · have : (x : ℤ) < ((xs + 1) * (y * y) : ℕ) := by push_cast; rw [hyv]; exact n7
      exact_mod_cast this
    · have : (xs : ℤ) ≤ (isqrtN (x / y) : ℕ) := n5
      rw [isqrtN_eq] at this
      exact_mod_cast this
    · exact le_trans (getK_le_pi x) (Spec.pi_mono (by exact_mod_cast n4))
  have hw : z * y ≤ (widthTy wide).maxVal := le_widthTy_max hzy hx127 hwx
  have hwy : y * y ≤ (widthTy wide).maxVal := le_trans (Nat.mul_le_mul_right y hyz) hw
  have hsc : Nat.sqrt (x / y) ≤ irootN 3 x := by
    have hlt : x / y < (irootN 3 x + 1) * (irootN 3 x + 1) := by
      rw [Nat.div_lt_iff_lt_mul (by omega)]
      calc x < (irootN 3 x + 1) ^ 3 := h3.2
        _ = (irootN 3 x + 1) * (irootN 3 x + 1) * (irootN 3 x + 1) := by ring
        _ ≤ (irootN 3 x + 1) * (irootN 3 x + 1) * y := Nat.mul_le_mul_left _ hx13y
    exact Nat.lt_succ_iff.1 (Nat.sqrt_lt.2 hlt)
  have hxy63 : x / max y 1 < two63 := by
    rw [max_eq_left hy1]
    have : ((x / y : ℕ) : ℤ) ≤ i64Max := by
      have e : ((x / y : ℕ) : ℤ) = (x : ℤ) / yi := by rw [← hyv]; exact Int.natCast_ediv x y
      rw [e]; exact g14
    unfold i64Max at this
    unfold two63
    omega
  -- the run
  unfold piGourdon
  rw [if_neg (by omega)]
  simp only [Int.toNat_natCast]
  rw [liftP_ok hpar, TM_bind_ok]
  simp only [gOutPure]
  rw [← hyi, ← hzi, ← hy, ← hz]
  have hsig := sigma_eq hT.valid (w := widthTy wide) (x := x) hy1 hx13y.le hsc hreach.hy hreach.hs hreach.hm4 hwy hreach.h63
  rw [← hxsd] at hsig
  rw [liftL_ok hsig, TM_bind_ok]
  have hphi0 := phi0OpenMP_eq hT.valid (w := widthTy wide) (x := x) (z := z) hy1 hreach.hy g5 hyz hw
    (by have := hadm.phi0; rwa [← hyi, ← hy] at this)
  rw [liftL_ok hphi0, TM_bind_ok]
  have hac : Easy.acEntry .libdivide T.t (widthTy wide) x y z (getK x) r.acC1 r.acSegs
      = .ok (Spec.A x y xs (irootN 3 x) + Spec.C x y z (getK x) xs) := by
    have := hadm.ac
    unfold AcLoopEqDef at this
    rwa [← hyi, ← hzi, ← hy, ← hz, ← hxsd] at this
  rw [liftE_ok hac, TM_bind_ok]
  have hb := P2L.bOpenMP_eq_sharp hT.iter y hpi T.lc hT.consts hxy63 r.b
    (fun a => by have := hadm.b a; rwa [← hyi, ← hy] at this)
  rw [liftP2_ok hb, TM_bind_ok]
  obtain ⟨tmax, hF⟩ := hT.dFactor y z hyB
  obtain ⟨d1, d2, d3⟩ := gparams_dThread_hyps gp
  have hz0 : z ≠ 0 := by omega
  have hd := dOpenMP_ok_or_badRun T.S (T.dEnv y z) T.lc hT.consts x y z (getK x)
    (idealNumThreads ((x : ℤ) / zi) (min threads (r.fo.mt ((x : ℤ) / zi))) (2 ^ 20)).toNat isPrint hz0
    (dF x y z (getK x) xs) (dF_additive x y z (getK x) xs) ?_ r.d
  · rcases hd with hh | hh
    · left
      rw [liftH_ok hh, TM_bind_ok]
      have hD : dF x y z (getK x) xs (0, x / z) = Spec.D x y z (getK x) xs := WSD_total_eq_D gp
      have := gp.pi_gourdon
      show (Except.ok _ : TM ℤ) = _
      congr 1
      rw [this, hD]
      ring
    · right
      rw [liftH_err hh]
      rfl
  · intro low segs size hg hlow
    rw [← hxsd]
    have h := dThread_eq (S := T.S) (x := x) (xs := xs) (k := getK x) (low := low) (segments := segs) (segSize := size)
      (fun K hK => by
        obtain ⟨H, hH⟩ := hT.sieve K (le_trans hK (Spec.pi_mono hyB))
        exact ⟨H, hH low size hg.low_al hg.size_al hg.size_pos⟩)
      (hT.dEnv y z hyB) hF d1 d2 d3 hk4 (Dvd.dvd.trans (by norm_num) hg.low_al) hg.size_pos hg.segs_pos hlow
    exact h

end Pc.Top
