/-
WP close, item 2b, second half: the region theorems of WP p2b (`p2OpenMP_eq`, `bOpenMP_eq`, `piMeissel_eq`, PcProofs/P2Loop2.lean)
assume `IterSpec it` — the contract at ALL positions — which is false of the real iterator (it throws beyond the last 64-bit
prime). They are transferred here to every iterator that meets the contract up to `N ≥ 2^63` (`IterSpecTo it N`):

* `patch it N`        : `it` at the positions `≤ N`, the reference iterator above; `IterSpecTo it N → IterSpec (patch it N)`.
* `p2Thread_patch`    : `P2_thread` never asks for a position above `max(√x, ⌊x/(y+1)⌋ + 1)` — so under these bounds the thread
                        function over `it` IS the thread function over `patch it N` (both equal the defining sum by
                        `p2Thread_eq_to`; the error paths do not touch the iterator).
* `p2OpenMP_to`, `bOpenMP_to`, `piMeissel_to` : the region theorems under `IterSpecTo it N`, `2^63 ≤ N`; every position is below
                        `2^63` because `⌊x / max(y,1)⌋ < 2^63` is already required (the `int64_t` narrowing of P2.cpp:111).
-/
import PcProofs.CloseIter2
import PcProofs.P2Loop2
import PcProofs.P2LoopEx

namespace Pc.P2L
open Nat Pc.LB
open scoped Nat.Prime

/-- `it` at the positions `≤ N`, the reference iterator `refIter` above -/
def patch (it : Iter) (N : ℕ) : Iter where
  prev n := if n ≤ N then it.prev n else refIter.prev n
  next n := if n ≤ N then it.next n else refIter.next n

theorem patch_prev_le (it : Iter) {N n : ℕ} (h : n ≤ N) : (patch it N).prev n = it.prev n := by
  show (if n ≤ N then _ else _) = _; rw [if_pos h]
theorem patch_next_le (it : Iter) {N n : ℕ} (h : n ≤ N) : (patch it N).next n = it.next n := by
  show (if n ≤ N then _ else _) = _; rw [if_pos h]
theorem patch_prev_gt (it : Iter) {N n : ℕ} (h : ¬ n ≤ N) : (patch it N).prev n = refIter.prev n := by
  show (if n ≤ N then _ else _) = _; rw [if_neg h]
theorem patch_next_gt (it : Iter) {N n : ℕ} (h : ¬ n ≤ N) : (patch it N).next n = refIter.next n := by
  show (if n ≤ N then _ else _) = _; rw [if_neg h]

theorem patch_spec {it : Iter} {N : ℕ} (h : IterSpecTo it N) : IterSpec (patch it N) := by
  refine ⟨fun n => ?_, fun n => ?_, fun n => ?_, fun n => ?_, fun n => ?_, fun n => ?_⟩ <;> by_cases hn : n ≤ N
  · rw [patch_prev_le it hn]; exact h.prev_le n hn
  · rw [patch_prev_gt it hn]; exact refIter_spec.prev_le n
  · rw [patch_prev_le it hn]; exact h.prev_prime n hn
  · rw [patch_prev_gt it hn]; exact refIter_spec.prev_prime n
  · rw [patch_prev_le it hn]; exact h.prev_max n hn
  · rw [patch_prev_gt it hn]; exact refIter_spec.prev_max n
  · rw [patch_next_le it hn]; exact h.next_ne n hn
  · rw [patch_next_gt it hn]; exact refIter_spec.next_ne n
  · rw [patch_next_le it hn]; exact h.next_sorted n hn
  · rw [patch_next_gt it hn]; exact refIter_spec.next_sorted n
  · rw [patch_next_le it hn]; exact h.next_mem n hn
  · rw [patch_next_gt it hn]; exact refIter_spec.next_mem n

theorem patch_specTo {it : Iter} {N : ℕ} (h : IterSpecTo it N) : IterSpecTo (patch it N) N := (patch_spec h).to N

/-- `P2_thread(x, y, ·, ·)` over an iterator meeting the contract up to `N` is the same function as over the patched iterator,
    when `N` covers `√x` and `⌊x / (y + 1)⌋ + 1` -/
theorem p2Thread_patch {it : Iter} {N : ℕ} (hit : IterSpecTo it N) {pi : ℕ → ℕ} {x : ℕ} (hpi : ∀ n, n < x → pi n = π n)
    (y : ℕ) (hN1 : isqrtN x ≤ N) (hN2 : x / (y + 1) + 1 ≤ N) :
    p2Thread it pi x y = p2Thread (patch it N) pi x y := by
  funext low high
  by_cases hlow : low = 0
  · unfold p2Thread; rw [if_pos hlow, if_pos hlow]
  by_cases hlh : low < high
  · have h1 : thrStop x low ≤ N := le_trans (Nat.min_le_right _ _) hN1
    have h2 : x / (thrStart x y high + 1) + 1 ≤ N := by
      have : y ≤ thrStart x y high := Nat.le_max_left _ _
      have : x / (thrStart x y high + 1) ≤ x / (y + 1) := Nat.div_le_div_left (by omega) (by omega)
      omega
    rw [p2Thread_eq_to hit (fun n _ h => hpi n h) y (by omega) hlh h1 h2,
      p2Thread_eq_to (patch_specTo hit) (fun n _ h => hpi n h) y (by omega) hlh h1 h2]
  · unfold p2Thread; rw [if_neg hlow, if_neg hlow, if_pos hlh, if_pos hlh]

/-- the two position bounds from `⌊x / max(y,1)⌋ < 2^63` -/
theorem pos_bounds {x y N : ℕ} (hN : two63 ≤ N) (hxy : x / max y 1 < two63) (hsq : isqrtN x ≤ y → y < two63) :
    isqrtN x ≤ N ∧ x / (y + 1) + 1 ≤ N := by
  have hm : 0 < max y 1 := by omega
  constructor
  · by_cases hys : isqrtN x ≤ y
    · have := hsq hys; omega
    · rw [isqrtN_eq] at hys ⊢
      have hle : Nat.sqrt x ≤ x / max y 1 := by
        rw [Nat.le_div_iff_mul_le hm]
        calc Nat.sqrt x * max y 1 ≤ Nat.sqrt x * Nat.sqrt x := Nat.mul_le_mul_left _ (by omega)
          _ ≤ x := Nat.sqrt_le x
      omega
  · have : x / (y + 1) ≤ x / max y 1 := Nat.div_le_div_left (by omega) hm
    omega

theorem p2OpenMP_patch {it : Iter} {N : ℕ} (hit : IterSpecTo it N) (hN : two63 ≤ N) {pi : ℕ → ℕ} {x y a : ℕ}
    (hpi : ∀ n, n < x → pi n = π n) (c : Consts) (hxy : x / max y 1 < two63) (r : Run) :
    p2OpenMP c it pi x y a r = p2OpenMP c (patch it N) pi x y a r := by
  by_cases hcond : isqrtN x ≤ y
  · simp only [p2OpenMP, if_pos hcond]
  · obtain ⟨h1, h2⟩ := pos_bounds (N := N) hN hxy (fun h => absurd h hcond)
    simp only [p2OpenMP, p2Thread_patch hit hpi y h1 h2]

/-- **`P2_OpenMP = P2(x, a)`** over every iterator meeting the contract up to `N ≥ 2^63` (other hypotheses: those of `p2OpenMP_eq`) -/
theorem p2OpenMP_to {it : Iter} {N : ℕ} (hit : IterSpecTo it N) (hN : two63 ≤ N) {pi : ℕ → ℕ} {x y a : ℕ}
    (hpi : ∀ n, n < x → pi n = π n) (ha : a = π y) (hya : pi y = a) (c : Consts) (hc : c.WF) (hxy : x / max y 1 < two63)
    (r : Run) (hv : 4 ≤ x → y < Nat.sqrt x → r.valid c x (x / max y 1) = true) :
    p2OpenMP c it pi x y a r = .ok (Spec.P2 x a : ℤ) := by
  rw [p2OpenMP_patch hit hN hpi c hxy r]
  exact p2OpenMP_eq (patch_spec hit) hpi ha hya c hc hxy r hv

/-- **`B_OpenMP = B(x, y)`** over every iterator meeting the contract up to `N ≥ 2^63`; `y < 2^63` is the range of `y`'s C++ type
    (`int64_t`; only used when `y ≥ √x`, where `B_OpenMP` has no early exit) -/
theorem bOpenMP_to {it : Iter} {N : ℕ} (hit : IterSpecTo it N) (hN : two63 ≤ N) {pi : ℕ → ℕ} {x : ℕ}
    (hpi : ∀ n, n < x → pi n = π n) (y : ℕ) (hy : y < two63) (c : Consts) (hc : c.WF) (hxy : x / max y 1 < two63) (r : Run)
    (hv : 4 ≤ x → r.valid c x (x / max y 1) = true) :
    bOpenMP c it pi x y r = .ok (Spec.B x y) := by
  obtain ⟨h1, h2⟩ := pos_bounds (N := N) hN hxy (fun _ => hy)
  have : bOpenMP c it pi x y r = bOpenMP c (patch it N) pi x y r := by
    have hb : ∀ it' : Iter, bThread it' pi x y = p2Thread it' pi x y := fun _ => rfl
    simp only [bOpenMP, hb, p2Thread_patch hit hpi y h1 h2]
  rw [this]
  exact bOpenMP_eq (patch_spec hit) hpi y c hc hxy r hv

/-- `pi_meissel(x) = π(x)` over every iterator meeting the contract up to `N ≥ 2^63` -/
theorem piMeissel_to {it : Iter} {N : ℕ} (hit : IterSpecTo it N) (hN : two63 ≤ N) {phi : ℕ → ℕ → ℕ} {pi : ℕ → ℕ} {x : ℕ}
    (hpi : ∀ n, n < x → pi n = π n)
    (hphi : phi x (π (irootN 3 x)) = Spec.phi x (π (irootN 3 x)))
    (c : Consts) (hc : c.WF) (hxy : x / max (irootN 3 x) 1 < two63) (r : Run)
    (hv : 4 ≤ x → irootN 3 x < Nat.sqrt x → r.valid c x (x / max (irootN 3 x) 1) = true) :
    piMeissel c it phi pi x r = .ok (π x : ℤ) := by
  have : piMeissel c it phi pi x r = piMeissel c (patch it N) phi pi x r := by
    simp only [piMeissel, p2OpenMP_patch hit hN hpi c hxy r]
  rw [this]
  exact piMeissel_eq (patch_spec hit) hpi hphi c hc hxy r hv

end Pc.P2L

namespace Pc.It
open Pc.P2L

/-- **the real iterator meets the P2 / B contract at every position `≤ 2^63`** — unconditionally in `N` (Bertrand gives a prime in
    `(2^63, 2^64)`), under `GenSpec e` -/
theorem realIter_specTo_two63 (e : Env) (he : GenSpec e) (hp hn : ℕ → ℕ) (hhn : ∀ n, hn n ≤ umax) :
    IterSpecTo (realIter e hp hn) Pc.LB.two63 :=
  realIter_specTo e he hp hn hhn Pc.LB.two63 (by unfold Pc.LB.two63 umax; omega)
    (by obtain ⟨p, h1, h2, h3⟩ := exists_prime_ge_two63; exact ⟨p, h1, by unfold Pc.LB.two63; omega, h3⟩)

/-- **the P2 abstraction is sound for the stateful object.** `realIter` answers a query at position `n` with a FRESH object; the
    real loops use ONE running object. Forward: whenever the running object `s` is ready at `n` (`FwdReady s n`: what
    `generate_next_primes()` leaves at `last + 1`, by `generate_next_primes_correct`), its next buffer satisfies the SAME three
    contract fields at `n` as `(realIter …).next n` (the buffers may differ in length — batching / window sizes depend on the history —
    the P2 theorems hold for every iterator meeting the contract) and it is ready again at its `last + 1`. Backward: whenever the
    running object has just returned `p` (`BwdAt s p`), its next `prev_prime()` returns EXACTLY `(realIter …).prev (p - 1)`. -/
theorem running_meets_spec (e : Env) (he : GenSpec e) (hp hn : ℕ → ℕ) (hhn : ∀ n, hn n ≤ umax) :
    (∀ (s : St) (n : ℕ), FwdReady s n → n ≤ umax → s.hint ≤ umax → s.start ≤ umax → (∃ p, p.Prime ∧ n ≤ p ∧ p ≤ umax) →
      (∃ s', genNext e bigFuel s = .ok s' ∧ s'.buf ≠ [] ∧ s'.buf.Pairwise (· < ·) ∧ s'.i = 0 ∧
        (∀ L, s'.buf.getLast? = some L → ∀ q, q ∈ s'.buf ↔ q.Prime ∧ n ≤ q ∧ q ≤ L) ∧
        (∀ L, s'.buf.getLast? = some L → FwdReady s' (L + 1) ∧ L + 1 ≤ umax ∧ s'.hint ≤ umax ∧ s'.start ≤ umax)) ∧
      ((realIter e hp hn).next n ≠ [] ∧ ((realIter e hp hn).next n).Pairwise (· < ·) ∧
        (∀ L, ((realIter e hp hn).next n).getLast? = some L → ∀ q, q ∈ (realIter e hp hn).next n ↔ q.Prime ∧ n ≤ q ∧ q ≤ L))) ∧
    (∀ (s : St) (p : ℕ), BwdAt s p → p ≤ umax + 1 →
      ∃ s', prevPrime e s = .ok ((realIter e hp hn).prev (p - 1), s') ∧ BwdAt s' ((realIter e hp hn).prev (p - 1)) ∧
        (realIter e hp hn).prev (p - 1) ≤ umax + 1) := by
  refine ⟨fun s n hr hnu hh hst hprime => ⟨?_, ?_⟩, fun s p h hpu => ?_⟩
  · obtain ⟨s', h1, hd⟩ := (genNext_spec e he bigFuel s n hr hnu hh hst (fwdFuel_le_big s n)).1 hprime
    obtain ⟨L, hL⟩ : ∃ L, s'.buf.getLast? = some L := ⟨s'.buf.getLast hd.ne, List.getLast?_eq_some_getLast hd.ne⟩
    refine ⟨s', h1, hd.ne, ((hd.covers L hL).1).1, hd.i0, fun L' hL' => ((hd.covers L' hL').1).2, fun L' hL' => ?_⟩
    obtain ⟨hP, hle, hg⟩ := hd.covers L' hL'
    have hLp := ((hP.2 L').1 (List.mem_of_getLast? hL')).1
    have hLu : L' + 1 ≤ umax := by
      have := hd.stop_le
      have : L' ≠ umax := fun h => umax_not_prime (h ▸ hLp)
      omega
    exact ⟨⟨hd.stop_le, Or.inr ⟨_, hg, rfl, rfl, hd.incl, by show L' + 1 ≤ s'.mem.stop + 1; omega⟩⟩, hLu,
      by rw [hd.hint]; exact hh, hd.start_le⟩
  · obtain ⟨h1, h2⟩ := realIter_next e he hp hn hhn n hnu hprime
    have hL : ((realIter e hp hn).next n).getLast? = some (((realIter e hp hn).next n).getLast h1) :=
      List.getLast?_eq_some_getLast h1
    exact ⟨h1, (h2 _ hL).1, fun L hL' => (h2 L hL').2⟩
  · rw [realIter_prev e he hp hn (p - 1) (by omega)]
    obtain ⟨s', h1, h2⟩ := prevPrime_stepAt e he s p h
    have := Nat.findGreatest_le (P := Nat.Prime) (p - 1)
    exact ⟨s', h1, h2, by omega⟩

/-- the values, without reference to the model: `k` queries of the iterator "largest prime `≤ n`" -/
theorem iterPrevs_real (e : Env) (he : GenSpec e) (hp hn : ℕ → ℕ) :
    ∀ k n, n ≤ umax → iterPrevs (realIter e hp hn) k n = iterPrevs ⟨Nat.findGreatest Nat.Prime, fun _ => []⟩ k n := by
  intro k
  induction k with
  | zero => intro n _; rfl
  | succ k ih =>
    intro n hnu
    have := Nat.findGreatest_le (P := Nat.Prime) n
    rw [iterPrevs, iterPrevs, realIter_prev e he hp hn n hnu, ih _ (by omega)]

end Pc.It
