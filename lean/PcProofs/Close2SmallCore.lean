/-
WP close2, item 4 (first half): `pi_gourdon_64/128` (model `Pc.Top.piGourdon`) for the `x` below 2401 (`get_k(x) < 4`).

* `GOrder` / `gOrder_of_sixteen`   the ordering clause of `GourdonRange` (`x^(1/3) < y < √x`, `y ≤ z < √x`, the `x⋆` facts), which
                                   C12's `gourdon64_accept` only states for `x ≥ 64`, holds for every `x ≥ 16` (the clamps of
                                   `pi_gourdon_*` are non-degenerate as soon as `x^(1/3) + 2 ≤ √x`: `root_gap16`), whatever the floats.
* `piGourdon_core_noleaf`          `piGourdon_core` with `2401 ≤ x` replaced by `GOrder` + "no level above `k` has a D leaf";
                                   D by its real control flow through `dThread_eq_noleaf` (no `4 ≤ k`).
* `acHook_of_order`                WP close's `acHook_of_range` with `64 ≤ x` replaced by `GOrder`.
* `piGourdon_core_small`           `16 ≤ x < 160000` (contains `16 ≤ x < 2401`).

NOT covered: `2 ≤ x ≤ 15`.  There `√x − 1 ≤ x^(1/3)`, the clamps of pi_gourdon.cpp degenerate to `y = z = max(√x − 1, 1) ≤ x^(1/3)`,
`Spec.GParams` (Gourdon's identity needs `x^(1/3) < y`) is false and the hypotheses of `sigma_eq` / `acEntry_eq` fail.
-/
import PcProofs.Close2SmallD
import PcProofs.CloseAC

namespace Pc.Top
open Nat Finset Pc.LB Pc.Hard PcGen.ApiConst
open scoped Nat.Prime

/-- the ordering clause of `GourdonRange` (its last conjunct, there under `64 ≤ x`) -/
def GOrder (x : ℕ) (o : GOut) : Prop :=
  o.x13 < o.y ∧ o.y < o.sqrtx ∧ o.z < o.sqrtx ∧ (irootN 4 x : ℤ) ≤ o.xStar ∧ o.xStar ≤ o.sqrtxy ∧
    (x : ℤ) < (o.xStar + 1) ^ 4 ∧ (x : ℤ) < (o.xStar + 1) * (o.y * o.y)

theorem gOrder_of_range {x : ℕ} {threads : ℤ} {o : GOut} (hx : 64 ≤ x) (h : GourdonRange x threads o) : GOrder x o := by
  obtain ⟨_, _, _, _, _, _, _, _, _, _, _, _, _, _, _, _, _, _, _, _, _, _, _, _, _, _, _, _, g29⟩ := h
  exact g29 hx

/-- `x^(1/3) + 2 ≤ √x` from 16 on (`root_gap` has it from 64 on) -/
theorem root_gap16 (x : ℕ) (hx : 16 ≤ x) : irootN 3 x + 2 ≤ isqrtN x := by
  by_cases h64 : 64 ≤ x
  · exact root_gap x h64
  · rw [isqrtN_eq]
    have h3 := (irootN_spec 3 x (by norm_num)).1
    by_cases h27 : 27 ≤ x
    · have h1 : irootN 3 x ≤ 3 := by
        by_contra h
        push Not at h
        have : 4 ^ 3 ≤ irootN 3 x ^ 3 := Nat.pow_le_pow_left h 3
        omega
      have h2 : 5 ≤ Nat.sqrt x := Nat.le_sqrt.2 (by omega)
      omega
    · have h1 : irootN 3 x ≤ 2 := by
        by_contra h
        push Not at h
        have : 3 ^ 3 ≤ irootN 3 x ^ 3 := Nat.pow_le_pow_left h 3
        omega
      have h2 : 4 ≤ Nat.sqrt x := Nat.le_sqrt.2 (by omega)
      omega

/-- the parameters `pi_gourdon_64/128` derive are ordered for every `x ≥ 16`, whatever the float products were -/
theorem gOrder_of_sixteen (wide : Bool) (x : ℕ) (threads : ℤ) (fo : GFloats) (hx : 16 ≤ x) :
    GOrder x (gOutPure wide x threads fo) := by
  have hgap : ((irootN 3 x : ℕ) : ℤ) + 2 ≤ ((isqrtN x : ℕ) : ℤ) := by exact_mod_cast root_gap16 x hx
  have hc := clamp_y_z (irootN 3 x) (isqrtN x) fo.v (fo.w (gY x fo.v)) hgap (by positivity)
  simp only at hc
  obtain ⟨o1, o2, _, o3, o4⟩ := hc
  unfold GOrder gOutPure
  simp only []
  change (irootN 3 x : ℤ) < gY x fo.v at o1
  change gY x fo.v < (isqrtN x : ℤ) at o2
  change gZ x (gY x fo.v) (fo.w (gY x fo.v)) < (isqrtN x : ℤ) at o3
  change 1 ≤ gY x fo.v at o4
  obtain ⟨n, hn⟩ := Int.eq_ofNat_of_zero_le (le_trans zero_le_one o4)
  have hytn : (gY x fo.v).toNat = n := by rw [hn]; exact Int.toNat_natCast n
  rw [hytn]
  rw [hn] at o1 o2 o3 ⊢
  have hn3 : x < n ^ 3 := by
    have h2 : irootN 3 x + 1 ≤ n := by omega
    calc x < (irootN 3 x + 1) ^ 3 := lt_c_succ_cube x
      _ ≤ n ^ 3 := Nat.pow_le_pow_left h2 3
  have hns : n ≤ isqrtN x := by omega
  have hn2 : n * n ≤ x := le_trans (Nat.mul_le_mul hns hns) (s_sq_le x)
  have hr41 : 1 ≤ irootN 4 x := one_le_iroot x 4 (by norm_num) (by omega)
  obtain ⟨q1, q2, q3⟩ := Spec.xstar_spec hn3 hn2 hr41 (lt_r4_succ_pow x)
  have q4 := Spec.r4_le_xstar hn3 hn2 (r4_pow_le x)
  refine ⟨o1, o2, o3, by exact_mod_cast q4, ?_, by exact_mod_cast q1, by exact_mod_cast q2⟩
  rw [isqrtN_eq]; exact_mod_cast q3

/-- **the core without `2401 ≤ x`**: parameters given and ordered (`GOrder`), no D leaf above `k` (`hnl`); every term by its loop
    model, D by `dThread_eq_noleaf` (the real control flow of `D_thread` for ANY `k`, no Sieve / FactorTableD contract used) -/
theorem piGourdon_core_noleaf {σ : Type} (T : Tables σ) {B : ℕ} (hT : TablesOK T B) (pi : ℕ → ℕ) (wide : Bool) (x : ℕ)
    (threads : ℤ) (isPrint : Bool) (r : GRun) (hx2 : 2 ≤ x) (hx127 : x < 2 ^ 127)
    (hwx : wide = false → x < 2 ^ 63)
    (hnl : ∀ b, getK x < b → x / (Spec.p b * Spec.p b * Spec.p b) < Spec.p b)
    (hpi : ∀ n, n ≤ x / ((gY x r.fo.v).toNat + 1) → n < x → pi n = π n)
    (hpar : gourdonL2 wide x threads r.fo = .ok (gOutPure wide x threads r.fo))
    (hrange : GourdonRange x threads (gOutPure wide x threads r.fo))
    (hord : GOrder x (gOutPure wide x threads r.fo))
    (hyB : (gY x r.fo.v).toNat ≤ B) (hreach : GReach T.t x (gY x r.fo.v).toNat)
    (hadm : GAdmissible T wide x r) :
    piGourdon T pi wide (x : ℤ) threads isPrint r = .ok (π x : ℤ) ∨
      piGourdon T pi wide (x : ℤ) threads isPrint r = .error (.hard .badRun) := by
  obtain ⟨g1, g2, g3, g4, g5, g6, _, _, _, _, _, g12, g13, g14, g15, g16, _, _, _, _, _, _, _, _, _, _, _, _, _⟩ := hrange
  obtain ⟨n1, n2, n3, n4, n5, n6, n7⟩ := hord
  simp only [gOutPure] at g1 g2 g3 g4 g5 g6 g12 g13 g14 g15 g16 n1 n2 n3 n4 n5 n6 n7
  set yi := gY x r.fo.v with hyi
  clear_value yi
  set zi := gZ x yi (r.fo.w yi) with hzi
  clear_value zi
  set y := yi.toNat with hy
  clear_value y
  set z := zi.toNat with hz
  clear_value z
  have hyv : (y : ℤ) = yi := by rw [hy]; exact Int.toNat_of_nonneg (by omega)
  have hzv : (z : ℤ) = zi := by rw [hz]; exact Int.toNat_of_nonneg (by omega)
  have hy1 : 1 ≤ y := by omega
  have hxs : xStar x y = Spec.xstar x y (irootN 4 x) := xStar_eq hy1
  set xs := xStar x y with hxsd
  clear_value xs
  rw [← hxs] at g1 g2 n4 n5 n6 n7
  have hsq := Nat.sqrt_le x
  have hsq' := isqrtN_eq x
  have hx13y : irootN 3 x < y := by omega
  have hys : y < Nat.sqrt x := by rw [← hsq']; omega
  have hzs : z < Nat.sqrt x := by rw [← hsq']; omega
  have hyz : y ≤ z := by omega
  have hyy : y * y ≤ x := le_trans (Nat.mul_le_mul hys.le hys.le) hsq
  have hzz : z * z ≤ x := le_trans (Nat.mul_le_mul hzs.le hzs.le) hsq
  have hzy : z * y ≤ x := le_trans (Nat.mul_le_mul hzs.le hys.le) hsq
  have h3 := irootN_spec 3 x (by norm_num)
  have gp : Spec.GParams x y z (getK x) xs (irootN 3 x) := by
    refine ⟨lt_of_lt_of_le h3.2 (Nat.pow_le_pow_left hx13y 3), hyy, hyz, hzz, h3.1, h3.2, ?_, ?_, ?_, ?_⟩
    · exact_mod_cast n6
    · have : (x : ℤ) < ((xs + 1) * (y * y) : ℕ) := by push_cast; rw [hyv]; exact n7
      exact_mod_cast this
    · have : (xs : ℤ) ≤ (isqrtN (x / y) : ℕ) := n5
      rw [isqrtN_eq] at this
      exact_mod_cast this
    · exact le_trans (getK_le_pi x) (Spec.pi_mono (by exact_mod_cast n4))
  have hw : z * y ≤ (widthTy wide).maxVal := le_widthTy_max hzy hx127 hwx
  have hwy : y * y ≤ (widthTy wide).maxVal := le_trans (Nat.mul_le_mul_right y hyz) hw
  have hsc : Nat.sqrt (x / y) ≤ irootN 3 x := by
    have hlt : x / y < (irootN 3 x + 1) * (irootN 3 x + 1) := by
      rw [Nat.div_lt_iff_lt_mul (by omega)]
      calc x < (irootN 3 x + 1) ^ 3 := h3.2
        _ = (irootN 3 x + 1) * (irootN 3 x + 1) * (irootN 3 x + 1) := by ring
        _ ≤ (irootN 3 x + 1) * (irootN 3 x + 1) * y := Nat.mul_le_mul_left _ hx13y
    exact Nat.lt_succ_iff.1 (Nat.sqrt_lt.2 hlt)
  have hxy63 : x / max y 1 < two63 := by
    rw [max_eq_left hy1]
    have : ((x / y : ℕ) : ℤ) ≤ i64Max := by
      have e : ((x / y : ℕ) : ℤ) = (x : ℤ) / yi := by rw [← hyv]; exact Int.natCast_ediv x y
      rw [e]; exact g14
    unfold i64Max at this
    unfold two63
    omega
  -- the run
  unfold piGourdon
  rw [if_neg (by omega)]
  simp only [Int.toNat_natCast]
  rw [liftP_ok hpar, TM_bind_ok]
  simp only [gOutPure]
  rw [← hyi, ← hzi, ← hy, ← hz]
  have hsig := sigma_eq hT.valid (w := widthTy wide) (x := x) hy1 hx13y.le hsc hreach.hy hreach.hs hreach.hm4 hwy hreach.h63
  rw [← hxsd] at hsig
  rw [liftL_ok hsig, TM_bind_ok]
  have hphi0 := phi0OpenMP_eq hT.valid (w := widthTy wide) (x := x) (z := z) hy1 hreach.hy g5 hyz hw
    (by have := hadm.phi0; rwa [← hyi, ← hy] at this)
  rw [liftL_ok hphi0, TM_bind_ok]
  have hac : Easy.acEntry .libdivide T.t (widthTy wide) x y z (getK x) r.acC1 r.acSegs
      = .ok (Spec.A x y xs (irootN 3 x) + Spec.C x y z (getK x) xs) := by
    have := hadm.ac
    unfold AcLoopEqDef at this
    rwa [← hyi, ← hzi, ← hy, ← hz, ← hxsd] at this
  rw [liftE_ok hac, TM_bind_ok]
  have hb := P2L.bOpenMP_eq_sharp hT.iter y hpi T.lc hT.consts hxy63 r.b
    (fun a => by have := hadm.b a; rwa [← hyi, ← hy] at this)
  rw [liftP2_ok hb, TM_bind_ok]
  obtain ⟨d1, d2, d3⟩ := gparams_dThread_hyps gp
  have hz0 : z ≠ 0 := by omega
  have hd := dOpenMP_ok_or_badRun T.S (T.dEnv y z) T.lc hT.consts x y z (getK x)
    (idealNumThreads ((x : ℤ) / zi) (min threads (r.fo.mt ((x : ℤ) / zi))) (2 ^ 20)).toNat isPrint hz0
    (dF x y z (getK x) xs) (dF_additive x y z (getK x) xs) ?_ r.d
  · rcases hd with hh | hh
    · left
      rw [liftH_ok hh, TM_bind_ok]
      have hD : dF x y z (getK x) xs (0, x / z) = Spec.D x y z (getK x) xs := WSD_total_eq_D gp
      have := gp.pi_gourdon
      show (Except.ok _ : TM ℤ) = _
      congr 1
      rw [this, hD]
      ring
    · right
      rw [liftH_err hh]
      rfl
  · intro low segs size hg hlow
    rw [← hxsd]
    have h := dThread_eq_noleaf (S := T.S) (x := x) (xs := xs) (xz := x / z) (k := getK x) (low := low) (segments := segs)
      (segSize := size) (hT.dEnv y z hyB) d1 d2 d3 hnl hg.size_pos hg.segs_pos hlow
    exact h

/-- **the AC hook is a theorem** wherever the parameters are ordered (WP close's `acHook_of_range` with `64 ≤ x` replaced by `GOrder`) -/
theorem acHook_of_order {σ : Type} (T : Tables σ) (hv : T.t.Valid) (wide : Bool) (x : ℕ) (threads : ℤ) (r : GRun)
    (hx127 : x < 2 ^ 127) (hwx : wide = false → x < 2 ^ 63)
    (hrange : GourdonRange x threads (gOutPure wide x threads r.fo))
    (hord : GOrder x (gOutPure wide x threads r.fo))
    (hreach : GReach T.t x (gY x r.fo.v).toNat)
    (hac : AcRunOK T.t x (gZ x (gY x r.fo.v) (r.fo.w (gY x r.fo.v))).toNat (getK x) r.acC1 r.acSegs) :
    AcLoopEqDef T.t (widthTy wide) x (gY x r.fo.v).toNat (gZ x (gY x r.fo.v) (r.fo.w (gY x r.fo.v))).toNat (getK x)
      r.acC1 r.acSegs := by
  obtain ⟨g1, g2, g3, g4, g5, g6, _, _, _, _, _, g12, g13, g14, g15, g16, _, _, _, _, _, _, _, _, _, _, _, _, _⟩ := hrange
  obtain ⟨n1, n2, n3, n4, n5, n6, n7⟩ := hord
  simp only [gOutPure] at g1 g2 g3 g4 g5 g6 g12 g13 g14 g15 g16 n1 n2 n3 n4 n5 n6 n7
  unfold AcLoopEqDef
  set yi := gY x r.fo.v with hyi
  clear_value yi
  set zi := gZ x yi (r.fo.w yi) with hzi
  clear_value zi
  set y := yi.toNat with hy
  clear_value y
  set z := zi.toNat with hz
  clear_value z
  have hyv : (y : ℤ) = yi := by rw [hy]; exact Int.toNat_of_nonneg (by omega)
  have hzv : (z : ℤ) = zi := by rw [hz]; exact Int.toNat_of_nonneg (by omega)
  have hy1 : 1 ≤ y := by omega
  have hsq := Nat.sqrt_le x
  have hsq' := isqrtN_eq x
  have hx13y : irootN 3 x < y := by omega
  have hys : y < Nat.sqrt x := by rw [← hsq']; omega
  have hzs : z < Nat.sqrt x := by rw [← hsq']; omega
  have hyz : y ≤ z := by omega
  have hyy : y * y ≤ x := le_trans (Nat.mul_le_mul hys.le hys.le) hsq
  have hzz : z * z ≤ x := le_trans (Nat.mul_le_mul hzs.le hzs.le) hsq
  have hxw : x ≤ (widthTy wide).maxVal := le_widthTy_max le_rfl hx127 hwx
  have hxy63 : x / y ≤ ITy.i64.maxVal := by
    have : ((x / y : ℕ) : ℤ) ≤ i64Max := by
      have e : ((x / y : ℕ) : ℤ) = (x : ℤ) / yi := by rw [← hyv]; exact Int.natCast_ediv x y
      rw [e]; exact g14
    have hm : ITy.i64.maxVal = 2 ^ 63 - 1 := by decide
    unfold i64Max at this
    rw [hm]
    omega
  have hzb : z ≤ T.t.bound := le_trans hzs.le hreach.hs
  have g := Easy.gparams_xStar hx13y hyy hyz hzz (getK_le_pi x)
  have hsched := hac.sched
  rw [Easy.c1Lo_eq hv g hzb, Easy.c1Hi_eq hv hzb] at hsched
  obtain ⟨l, hl, hlast, hsegs⟩ := hac.chain
  exact Easy.acEntry_eq .libdivide g (Easy.acBounds_of hv hx127 hxw hxy63 hreach.hs hzb hreach.h63) hsched l hl hlast hsegs

/-- **`piGourdon_core` for the small `x`**: `16 ≤ x < 20^4` (so all of `16 ≤ x < 2401`, where `get_k(x) < 4`) -/
theorem piGourdon_core_small {σ : Type} (T : Tables σ) {B : ℕ} (hT : TablesOK T B) (pi : ℕ → ℕ) (wide : Bool) (x : ℕ)
    (threads : ℤ) (isPrint : Bool) (r : GRun) (hx16 : 16 ≤ x) (hx : x < 160000)
    (hpi : ∀ n, n ≤ x / ((gY x r.fo.v).toNat + 1) → n < x → pi n = π n)
    (hpar : gourdonL2 wide x threads r.fo = .ok (gOutPure wide x threads r.fo))
    (hrange : GourdonRange x threads (gOutPure wide x threads r.fo))
    (hyB : (gY x r.fo.v).toNat ≤ B) (hreach : GReach T.t x (gY x r.fo.v).toNat)
    (hadm : GAdmissible T wide x r) :
    piGourdon T pi wide (x : ℤ) threads isPrint r = .ok (π x : ℤ) ∨
      piGourdon T pi wide (x : ℤ) threads isPrint r = .error (.hard .badRun) :=
  piGourdon_core_noleaf T hT pi wide x threads isPrint r (by omega) (lt_trans hx (by norm_num))
    (fun _ => lt_trans hx (by norm_num)) (noleaf_of_r4 (getK_eq_pi_r4 hx)) hpi hpar hrange
    (gOrder_of_sixteen wide x threads r.fo hx16) hyB hreach hadm

end Pc.Top

#print axioms Pc.Top.gOrder_of_sixteen
#print axioms Pc.Top.piGourdon_core_noleaf
#print axioms Pc.Top.acHook_of_order
#print axioms Pc.Top.piGourdon_core_small
