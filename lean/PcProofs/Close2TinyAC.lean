/-
WP close2, item 4 (follow-up): the AC model on the degenerate parameters `(y, z, k, x⋆) = (1, 1, 0, 1)`, `x^(1/3) = 1`:
every segment has `max_c2 = max_a = π(min(·, 1)) = 0 < min_c2, min_a`, both loops are empty.
-/
import PcProofs.Close2Tiny

namespace Pc.Easy
open Nat Finset Pc.LB

theorem sumRange_empty (f : ℕ → EM ℤ) (lo : ℕ) : sumRange f (lo + 1) 0 = .ok 0 := by
  unfold sumRange
  have : 0 + 1 - (lo + 1) = 0 := by omega
  rw [this]
  rfl

/-- one segment of AC on the degenerate parameters: `(Σ C2, Σ A) = (0, 0)` -/
theorem acSegment_tiny (f : ACFile) {t : NT} (hp : ∀ n, n ≤ 1 → t.piOf n = 0) (w : ITy) (p : ACPre) (hpx : p.x13 = 1)
    {x low high : ℕ} (hh : high ≠ 0) (h1 : isqrtN low ≤ p.maxPi) (hm : 1 ≤ p.maxPi) :
    acSegment f t w p x 1 0 1 low high = .ok (0, 0) := by
  have hl : max low 1 ≠ 0 := by omega
  unfold acSegment
  rw [divE_ok hl, EM_bind_ok, divE_ok hh, EM_bind_ok]
  unfold piGet
  rw [if_pos h1, EM_bind_ok, divE_ok one_ne_zero, EM_bind_ok, if_pos (le_trans (min_le_right _ _) hm), EM_bind_ok,
    divE_ok hh, EM_bind_ok, hpx]
  have e1 : ∀ a : ℕ, max 1 (min a 1) = 1 := fun a => by omega
  rw [e1, if_pos hm, EM_bind_ok]
  simp only []
  rw [if_pos (le_trans (min_le_right _ _) hm), EM_bind_ok, EM_bind_ok, hp (min (isqrtN (x / max low 1)) 1) (min_le_right _ _), sumRange_empty, EM_bind_ok,
    sumRange_empty, EM_bind_ok]
  rfl

/-- `AC_OpenMP`'s preamble on the degenerate parameters -/
theorem acPre_tiny {t : NT} (hv : t.Valid) (hb : 2 ≤ t.bound) {x : ℕ} (h1 : 1 ≤ x) (h8 : x < 8) :
    acPre t x 1 1 (isqrtN x) = .ok (acPreVal x 1 1 (isqrtN x)) := by
  have h63 : ITy.i64.maxVal = 2 ^ 63 - 1 := by decide
  have hs : isqrtN x ≤ 2 := by
    rw [isqrtN_eq]
    exact Nat.le_of_lt_succ (Nat.sqrt_lt.2 (by omega))
  have hx63 : x / 1 ≤ ITy.i64.maxVal := by rw [h63, Nat.div_one]; omega
  have hsize : max (isqrtN x) 1 ≤ t.bound := by omega
  have hM : (1 : ℕ) ≤ max 1 (isqrtN x) := le_max_left _ _
  have r1 : Nat.sqrt 1 ≤ max 1 (isqrtN x) := by rw [Nat.sqrt_one]; exact hM
  have r2 : irootN 3 (x / 1) ≤ max 1 (isqrtN x) := by rw [Nat.div_one, Pc.Top.iroot3_tiny h1 h8]; exact hM
  have hMb : max 1 (isqrtN x) ≤ t.bound := by omega
  unfold acPre
  rw [divE_ok (by omega), EM_bind_ok, narrowE_ok hx63, EM_bind_ok, EM_bind_ok, narrowE_ok hx63, EM_bind_ok]
  simp only []
  rw [hv.piOf_eq _ hsize, piGet_ok hv hM (le_trans hM hMb), EM_bind_ok, isqrtN_eq 1,
    piGet_ok hv r1 (le_trans r1 hMb), EM_bind_ok, piGet_ok hv r2 (le_trans r2 hMb), EM_bind_ok,
    EM_bind_ok]
  unfold acPreVal
  rfl

/-- **the AC model on the degenerate parameters returns 0**: `2 ≤ x < 8`, `(y, z, k) = (1, 1, 0)`, every distribution of the (empty) C1
    loop, every chain of segments in any order -/
theorem acEntry_tiny (f : ACFile) {t : NT} (hv : t.Valid) (hb : 2 ≤ t.bound) (w : ITy) {x : ℕ} (h2 : 2 ≤ x) (h8 : x < 8)
    {c1sched : List (List ℕ)} (hs : IsSchedule (c1Lo t x 1 0) (c1Hi t 1) c1sched)
    (l : List ℕ) (hl : (0 :: l).Pairwise (· < ·)) (hlast : (0 :: l).getLast (List.cons_ne_nil _ _) = Nat.sqrt x)
    {segs : List (ℕ × ℕ)} (hsegs : segs.Perm (chainPairs (0 :: l))) :
    acEntry f t w x 1 1 0 c1sched segs = .ok 0 := by
  have h63 : ITy.i64.maxVal = 2 ^ 63 - 1 := by decide
  have hp1 : t.piOf 1 = 0 := by rw [hv.piOf_eq 1 (by omega), Pc.Top.pi_one]
  have hp : ∀ n, n ≤ 1 → t.piOf n = 0 := by
    intro n hn
    rw [hv.piOf_eq n (by omega)]
    interval_cases n <;> decide
  have hsq : isqrtN x ≤ 2 := by
    rw [isqrtN_eq]
    exact Nat.le_of_lt_succ (Nat.sqrt_lt.2 (by omega))
  have hs' : IsSchedule (0 + 1) 0 c1sched := by
    have e1 : c1Lo t x 1 0 = 0 + 1 := by
      unfold c1Lo
      rw [Nat.div_one, Pc.Top.iroot3_tiny (by omega) h8, hp1]
      rfl
    have e2 : c1Hi t 1 = 0 := by
      unfold c1Hi
      rw [isqrtN_eq, Nat.sqrt_one, hp1]
    rwa [e1, e2] at hs
  unfold acEntry
  simp only []
  rw [Pc.Top.xStar_one, divE_ok one_ne_zero, EM_bind_ok, Nat.div_one, narrowE_ok (by rw [h63]; omega), EM_bind_ok]
  unfold acOpenMP
  rw [acPre_tiny hv hb (by omega) h8, EM_bind_ok]
  simp only [acPreVal]
  rw [reduceE_perm hs' 0 (v := fun _ => 0) (fun b h1 h2 s => by omega), EM_bind_ok]
  have hmem : ∀ lh ∈ segs, lh.1 < lh.2 ∧ lh.2 ≤ Nat.sqrt x := by
    intro lh hlh
    obtain ⟨h1, h2⟩ := mem_chainPairs _ hl lh (hsegs.mem_iff.1 hlh)
    have h3 := le_getLast_of_mem hl (List.cons_ne_nil _ _) h2
    rw [hlast] at h3
    exact ⟨h1, h3⟩
  refine (foldlM_segs_eq (vv := fun _ => ((0 : ℤ), (0 : ℤ))) segs _ (fun lh hlh => ?_)).trans ?_
  · obtain ⟨m1, m2⟩ := hmem lh hlh
    refine acSegment_tiny f hp w _ (Pc.Top.iroot3_tiny (by omega) h8) (by omega) ?_ (le_max_left _ _)
    show isqrtN lh.1 ≤ max 1 (isqrtN x)
    rw [isqrtN_eq, isqrtN_eq]
    exact le_trans (Nat.sqrt_le_sqrt (le_trans m1.le (le_trans m2 (Nat.sqrt_le_self x)))) (le_max_right _ _)
  · simp

end Pc.Easy

#print axioms Pc.Easy.acSegment_tiny
#print axioms Pc.Easy.acEntry_tiny
