/-
WP close2, item 4 (follow-up): the AC model on the degenerate parameters `(y, z, k, x⋆) = (1, 1, 0, 1)`, `x^(1/3) = 1`:
every segment has `max_c2 = max_a = π(min(·, 1)) = 0 < min_c2, min_a`, both loops are empty.
-/
import PcProofs.Close2Tiny

namespace Pc.Easy
open Nat Finset Pc.LB

theorem sumRange_empty (f : ℕ → EM ℤ) (lo : ℕ) : sumRange f (lo + 1) 0 = .ok 0 := by
  unfold sumRange
  have : 0 + 1 - (lo + 1) = 0 := by omega
  rw [this]
  rfl

/-- one segment of AC on the degenerate parameters: `(Σ C2, Σ A) = (0, 0)` -/
theorem acSegment_tiny (f : ACFile) {t : NT} (hp : ∀ n, n ≤ 1 → t.piOf n = 0) (w : ITy) (p : ACPre) (hpx : p.x13 = 1)
    {x low high : ℕ} (hh : high ≠ 0) (h1 : isqrtN low ≤ p.maxPi) (hm : 1 ≤ p.maxPi) :
    acSegment f t w p x 1 0 1 low high = .ok (0, 0) := by
  have hl : max low 1 ≠ 0 := by omega
  unfold acSegment
  rw [divE_ok hl, EM_bind_ok, divE_ok hh, EM_bind_ok]
  unfold piGet
  rw [if_pos h1, EM_bind_ok, divE_ok one_ne_zero, EM_bind_ok, if_pos (le_trans (min_le_right _ _) hm), EM_bind_ok,
    divE_ok hh, EM_bind_ok, hpx]
  have e1 : ∀ a : ℕ, max 1 (min a 1) = 1 := fun a => by omega
  rw [e1, if_pos hm, EM_bind_ok]
  simp only []
  rw [if_pos (le_trans (min_le_right _ _) hm), EM_bind_ok, EM_bind_ok, hp (min (isqrtN (x / max low 1)) 1) (min_le_right _ _), sumRange_empty, EM_bind_ok,
    sumRange_empty, EM_bind_ok]
  rfl

end Pc.Easy

#print axioms Pc.Easy.acSegment_tiny
