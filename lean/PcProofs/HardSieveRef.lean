/-
WP hard: the reference `Array Bool` sieve `refSieve` (PcModel/HardLoops.lean) satisfies the counting contract `SieveSpec`
(every `(low, segment_size)` is admissible).  It is the instance the fast correspondence streams run the engines with.

STATEMENT of `SieveSpec` (PcProofs/HardSieve.lean): unchanged.
-/
import PcProofs.HardSieve

namespace Pc.Hard
open Pc.SimpleAlgs

/-! ### counting a Boolean predicate that describes the unsieved numbers -/

theorem filter_range_succ (P : ℕ → Bool) (b : ℕ) :
    ((List.range (b + 1)).filter P).length = ((List.range b).filter P).length + if P b then 1 else 0 := by
  rw [List.range_succ, List.filter_append, List.length_append]
  congr 1
  cases h : P b <;> simp [h]

/-- the number of `t ≤ stop` whose flag is set is the `φ`-difference `cnt` -/
theorem filter_eq_cnt (P : ℕ → Bool) (L lvl : ℕ) : ∀ stop,
    (∀ t, t ≤ stop → (P t = true ↔ Unsieved lvl (L + t) ∧ L + t ≠ 0)) →
    ((List.range (stop + 1)).filter P).length = cnt L lvl stop := by
  intro stop
  induction stop with
  | zero =>
    intro hP
    have h0 := hP 0 le_rfl
    rw [Nat.add_zero] at h0
    rw [filter_range_succ]
    unfold cnt
    rw [Nat.add_zero]
    show 0 + _ = _
    rw [Nat.zero_add]
    rcases Nat.eq_zero_or_pos L with hL | hL
    · subst hL
      rw [if_neg (fun hh => (h0.mp hh).2 rfl), Spec.phi_zero_left]
    · have e : L = (L - 1) + 1 := by omega
      conv_rhs => rw [e, phi_succ, Nat.add_sub_cancel]
      rw [Nat.add_sub_cancel_left, ← e]
      by_cases hu : Unsieved lvl L
      · rw [if_pos hu, if_pos (h0.mpr ⟨hu, by omega⟩)]
      · rw [if_neg hu, if_neg (fun hh => hu (h0.mp hh).1)]
  | succ b ih =>
    intro hP
    rw [filter_range_succ, ih (fun t ht => hP t (by omega))]
    have h1 := hP (b + 1) le_rfl
    unfold cnt
    have hmono : Spec.phi (L - 1) lvl ≤ Spec.phi (L + b) lvl := Spec.phi_mono_left lvl (by omega)
    rw [← Nat.add_assoc, phi_succ]
    rw [← Nat.add_assoc] at h1
    by_cases hu : Unsieved lvl (L + b + 1)
    · rw [if_pos hu, if_pos (h1.mpr ⟨hu, by omega⟩)]
      omega
    · rw [if_neg hu, if_neg (fun hh => hu (h1.mp hh).1)]
      omega

/-! ### `refCross` clears exactly the multiples -/

theorem refCross_go_spec (low p : ℕ) (hp : 0 < p) : ∀ (fuel k : ℕ) (a : Array Bool), p ∣ k → low ≤ k →
    a.size < k - low + fuel →
    (refCross.go low p fuel k a).size = a.size ∧
    ∀ i, i < a.size → (refCross.go low p fuel k a).getD i false =
      (a.getD i false && !decide (k ≤ low + i ∧ p ∣ low + i)) := by
  intro fuel
  induction fuel with
  | zero =>
    intro k a _ _ hf
    refine ⟨rfl, fun i hi => ?_⟩
    show a.getD i false = _
    have : ¬ (k ≤ low + i ∧ p ∣ low + i) := by omega
    simp [this]
  | succ fuel ih =>
    intro k a hk hlow hf
    unfold refCross.go
    by_cases hlt : k - low < a.size
    · rw [if_pos hlt]
      obtain ⟨i1, i2⟩ := ih (k + p) (a.setIfInBounds (k - low) false) (Dvd.dvd.add hk (dvd_refl p)) (by omega)
        (by rw [Array.size_setIfInBounds]; omega)
      rw [Array.size_setIfInBounds] at i1 i2
      refine ⟨i1, fun i hi => ?_⟩
      rw [i2 i hi, getD_setIfInBounds_false]
      have key : (k ≤ low + i ∧ p ∣ low + i) ↔ (k - low = i ∨ (k + p ≤ low + i ∧ p ∣ low + i)) := by
        constructor
        · rintro ⟨h1, h2⟩
          rcases Nat.eq_or_lt_of_le h1 with h | h
          · left; omega
          · right
            refine ⟨?_, h2⟩
            have hd : p ∣ low + i - k := Nat.dvd_sub h2 hk
            have := Nat.le_of_dvd (by omega) hd
            omega
        · rintro (h | ⟨h1, h2⟩)
          · have e : low + i = k := by omega
            exact ⟨by omega, by rw [e]; exact hk⟩
          · exact ⟨by omega, h2⟩
      rw [show decide (k ≤ low + i ∧ p ∣ low + i) = decide (k - low = i ∨ (k + p ≤ low + i ∧ p ∣ low + i)) from
        decide_eq_decide.mpr key]
      simp only [Bool.decide_or, Bool.not_or, Bool.and_assoc]
    · rw [if_neg hlt]
      refine ⟨rfl, fun i hi => ?_⟩
      have : ¬ (k ≤ low + i ∧ p ∣ low + i) := by omega
      simp [this]

theorem refCross_spec (low : ℕ) (bits : Array Bool) (p : ℕ) (hp : 0 < p) :
    (refCross low bits p).size = bits.size ∧
    ∀ i, i < bits.size → (refCross low bits p).getD i false = (bits.getD i false && !decide (p ∣ low + i)) := by
  unfold refCross
  rw [if_neg (by omega)]
  simp only []
  have hd : p ∣ (low + p - 1) / p * p := Dvd.intro_left _ rfl
  have hm := Nat.div_add_mod (low + p - 1) p
  have hr := Nat.mod_lt (low + p - 1) hp
  rw [Nat.mul_comm] at hm
  have hlo : low ≤ (low + p - 1) / p * p := by omega
  have hhi : (low + p - 1) / p * p < low + p := by omega
  obtain ⟨g1, g2⟩ := refCross_go_spec low p hp (bits.size + 1) ((low + p - 1) / p * p) bits hd hlo (by omega)
  refine ⟨g1, fun i hi => ?_⟩
  rw [g2 i hi]
  have : ((low + p - 1) / p * p ≤ low + i ∧ p ∣ low + i) ↔ p ∣ low + i := by
    constructor
    · exact fun h => h.2
    · intro h
      refine ⟨?_, h⟩
      by_contra hc
      have hd' : p ∣ (low + p - 1) / p * p - (low + i) := Nat.dvd_sub hd h
      have := Nat.le_of_dvd (by omega) hd'
      omega
  rw [decide_eq_decide.mpr this]

/-! ### the invariant -/

/-- the flags of `[L, L + n)` at level `lvl` -/
def RefSeg (Kmax : ℕ) (s : RefSieve) (L n lvl K : ℕ) : Prop :=
  s.low = L ∧ s.bits.size = n ∧ 1 ≤ n ∧ lvl ≤ K ∧ K ≤ Kmax ∧
  ∀ i, i < n → (s.bits.getD i false = true ↔ Unsieved lvl (L + i) ∧ L + i ≠ 0)

/-- the array `pre` builds -/
def refPreBits (primes : ℕ → ℕ) (L n c : ℕ) : Array Bool :=
  (List.range c).foldl (fun a j => refCross L a (primes (j + 1)))
    ((Array.replicate n true).setIfInBounds 0 (decide (L ≠ 0)))

theorem refPre_spec (primes : ℕ → ℕ) (Kmax : ℕ) (hp : ∀ i, 1 ≤ i → i ≤ Kmax → primes i = Spec.p i)
    (L n : ℕ) : ∀ c, c ≤ Kmax →
    (refPreBits primes L n c).size = n ∧
    ∀ i, i < n → ((refPreBits primes L n c).getD i false = true ↔ Unsieved c (L + i) ∧ L + i ≠ 0) := by
  intro c
  induction c with
  | zero =>
    intro _
    unfold refPreBits
    simp only [List.range_zero, List.foldl_nil]
    refine ⟨by rw [Array.size_setIfInBounds, Array.size_replicate], fun i hi => ?_⟩
    rw [Array.getD_eq_getD_getElem?, Array.getElem?_setIfInBounds]
    have hu : ∀ m, Unsieved 0 m := unsieved_zero
    by_cases h0 : 0 = i
    · subst h0
      simp [hi, hu]
    · have h0' : ¬ i = 0 := fun h => h0 h.symm
      simp [h0, h0', hi, hu]
  | succ c ih =>
    intro hc
    obtain ⟨i1, i2⟩ := ih (by omega)
    have hpc : primes (c + 1) = Spec.p (c + 1) := hp (c + 1) (by omega) hc
    have hstep : refPreBits primes L n (c + 1) = refCross L (refPreBits primes L n c) (primes (c + 1)) := by
      unfold refPreBits
      rw [List.range_succ, List.foldl_append, List.foldl_cons, List.foldl_nil]
    obtain ⟨r1, r2⟩ := refCross_spec L (refPreBits primes L n c) (primes (c + 1)) (by rw [hpc]; exact Spec.p_pos _)
    rw [i1] at r1 r2
    rw [hstep]
    refine ⟨r1, fun i hi => ?_⟩
    rw [r2 i hi, Bool.and_eq_true, i2 i hi, unsieved_succ, hpc]
    simp only [Bool.not_eq_eq_eq_not, Bool.not_true, decide_eq_false_iff_not]
    tauto

/-- **The reference sieve satisfies the counting contract.** -/
noncomputable def refSieve_spec (primes : ℕ → ℕ) (Kmax : ℕ) (hp : ∀ i, 1 ≤ i → i ≤ Kmax → primes i = Spec.p i) :
    SieveSpec (refSieve primes) Kmax where
  segOK := fun _ _ => True
  Ready := fun _ _ K _ => K ≤ Kmax
  Seg := fun s L n lvl K _ _ => RefSeg Kmax s L n lvl K
  create_ready := fun _ _ _ _ => le_rfl
  pre_seg := fun s L K seg c n hr _ hcK h1 _ => by
    obtain ⟨a1, a2⟩ := refPre_spec primes Kmax hp L n c (le_trans hcK hr)
    refine ⟨rfl, ?_, h1, hcK, hr, ?_⟩
    · show (refPreBits primes L (L + n - L) c).size = n
      rw [Nat.add_sub_cancel_left]; exact a1
    · show ∀ i, i < n → ((refPreBits primes L (L + n - L) c).getD i false = true ↔ _)
      rw [Nat.add_sub_cancel_left]; exact a2
  count_val := fun s L n lvl K prev seg stop h _ h2 => by
    obtain ⟨_, _, _, _, _, h6⟩ := h
    exact filter_eq_cnt _ L lvl stop (fun t ht => h6 t (by omega))
  count_seg := fun s L n lvl K prev seg stop h _ _ => h
  total_val := fun s L n lvl K prev seg h => by
    obtain ⟨_, h2, h3, _, _, h6⟩ := h
    show ((List.range s.bits.size).filter _).length = _
    have e : s.bits.size = (n - 1) + 1 := by omega
    rw [e]
    exact filter_eq_cnt _ L lvl (n - 1) (fun t ht => h6 t (by omega))
  cross_seg := fun s L n lvl K prev seg h hl => by
    obtain ⟨h1, h2, h3, h4, h5, h6⟩ := h
    obtain ⟨r1, r2⟩ := refCross_spec s.low s.bits (Spec.p (lvl + 1)) (Spec.p_pos _)
    refine ⟨h1, by show (refCross _ _ _).size = n; rw [r1, h2], h3, hl, h5, fun i hi => ?_⟩
    show (refCross _ _ _).getD i false = true ↔ _
    rw [r2 i (by omega), Bool.and_eq_true, h6 i hi, unsieved_succ, h1]
    simp only [Bool.not_eq_eq_eq_not, Bool.not_true, decide_eq_false_iff_not]
    tauto
  next_ready := fun s L lvl K prev seg h => le_trans h.2.2.2.1 h.2.2.2.2.1

/-- the hypothesis is satisfiable: `primes i = Spec.p i` itself -/
noncomputable example (Kmax : ℕ) : SieveSpec (refSieve Spec.p) Kmax := refSieve_spec Spec.p Kmax (fun _ _ _ => rfl)

end Pc.Hard

#print axioms Pc.Hard.refSieve_spec
