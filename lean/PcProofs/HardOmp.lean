/-
WP hard (C03 / C08): the parallel regions `S2_hard_OpenMP` / `D_OpenMP` (PcModel/HardLoops.lean: `replay`,
`s2HardOpenMP`, `dOpenMP`) over the LoadBalancerS2 model (PcModel/Dispenser.lean, theory in PcProofs/Dispenser*.lean).

Generic in the thread function `thr low segments segment_size`:

* `replay_ok_iff`   : `replay thr cfg s es = .ok s'` iff `es` is an accepted history of the dispenser from `s`, every
                      `thread.sum` passed in is the value of `thr` on the ThreadData the worker holds (`Reported`),
                      and `s'` is the dispenser state after `es`.
* `GoodItem`        : what every work item handed out satisfies (alignment, `segments ≥ 1`, no int64 overflow of
                      `low + segment_size * segments`); `RInv` is the invariant that carries it.
* `replay_total`    : if `thr` computes an additive chunk function `F` on every good item that starts below the limit,
                      every complete replayed history accumulates `F [0, limit)`.
* `s2HardOpenMP_total`, `dOpenMP_total`, `…_independent_of_run` : the two models.
* `replay_of_honest`: conversely every accepted history of honest workers is replayed successfully (non-vacuity of the
                      replay formulation), with a concrete recorded history of two workers.

Core Lean only.
-/
import PcModel.HardLoops
import PcProofs.Dispenser2

namespace Pc.Hard
open Pc.LB

/-! ### what a work item handed out by LoadBalancerS2 looks like -/

/-- the geometry of every `ThreadData (low, segments, segment_size)` that `get_work` returns with `true`:
    `low` and `segment_size` are multiples of 240 (`Sieve::align_segment_size`), `segment_size ≥ 240`,
    `segments ≥ 1`, and `low + segment_size * segments` (the `low_ += …` the balancer computed) fits in `int64_t`. -/
structure GoodItem (low segs size : Nat) : Prop where
  low_al : 240 ∣ low
  size_al : 240 ∣ size
  size_ge : 240 ≤ size
  segs_pos : 1 ≤ segs
  no_ovf : low + size * segs < LB.two63

theorem GoodItem.size_pos {low segs size : Nat} (h : GoodItem low segs size) : 0 < size := by
  have := h.size_ge; omega

/-- the conjunction form asked for by clients -/
theorem GoodItem.basic {low segs size : Nat} (h : GoodItem low segs size) :
    240 ∣ low ∧ 240 ∣ size ∧ 0 < size ∧ 1 ≤ segs := ⟨h.low_al, h.size_al, h.size_pos, h.segs_pos⟩

/-- the chunk `[low, min(low + size * segs, limit))` of a good item that starts below the limit is non-empty -/
theorem GoodItem.chunk_nonempty {low segs size limit : Nat} (h : GoodItem low segs size) (hl : low < limit) :
    low < min (low + size * segs) limit := by
  have := Nat.mul_pos h.size_pos h.segs_pos
  omega

/-! ### generic facts about the hand table -/

theorem getHand_all (P : Hand → Prop) (h0 : P ⟨0, 0, 0, false⟩) (w : Nat) (hs : List (Nat × Hand))
    (h : ∀ p ∈ hs, P p.2) : P (getHand w hs) := by
  induction hs with
  | nil => exact h0
  | cons p hs ih =>
    obtain ⟨v, g⟩ := p
    simp only [getHand]
    by_cases hv : v = w
    · simp only [hv, if_true]; exact h (v, g) (by simp)
    · simp only [hv, if_false]; exact ih (fun p hp => h p (List.mem_cons_of_mem _ hp))

theorem setHand_all (P : Hand → Prop) (w : Nat) (g : Hand) (hs : List (Nat × Hand)) (h : ∀ p ∈ hs, P p.2)
    (hg : P g) : ∀ p ∈ setHand w g hs, P p.2 := by
  induction hs with
  | nil => intro p hp; simp only [setHand, List.mem_singleton] at hp; subst hp; exact hg
  | cons q hs ih =>
    obtain ⟨v, k⟩ := q
    simp only [setHand]
    by_cases hv : v = w
    · simp only [hv, if_true]
      intro p hp
      rcases List.mem_cons.1 hp with rfl | hp
      · exact hg
      · exact h p (List.mem_cons_of_mem _ hp)
    · simp only [hv, if_false]
      intro p hp
      rcases List.mem_cons.1 hp with rfl | hp
      · exact h (v, k) (by simp)
      · exact ih (fun p hp => h p (List.mem_cons_of_mem _ hp)) p hp

/-! ### the invariant -/

/-- a ThreadData that stands for work is a good item that starts below the limit -/
def HandGood (cfg : S2.Config) (h : Hand) : Prop :=
  h.work = true → GoodItem h.low h.segs h.size ∧ h.low < cfg.limit

/-- invariant of the replay: the dispenser invariant + every ThreadData handed out with `true` is a `GoodItem` -/
def RInv (cfg : S2.Config) (s : S2.State) : Prop :=
  S2.Inv s ∧ ∀ p ∈ s.hands, HandGood cfg p.2

theorem rinv_step (cfg : S2.Config) (hal : cfg.al = 240) (s : S2.State) (e : S2.Ev) (hi : RInv cfg s)
    (hok : S2.ok cfg s e = true) : RInv cfg (S2.next cfg s e) := by
  have hinv : S2.Inv (S2.next cfg s e) := ((S2.law cfg hal).step s e hi.1 hok).1
  refine ⟨hinv, ?_⟩
  rw [S2.next_hands]
  refine setHand_all _ _ _ _ hi.2 ?_
  intro hw
  simp only [decide_eq_true_eq] at hw
  obtain ⟨g1, g2, g3⟩ := S2.step_geometry cfg hal s e hi.1 hok
  obtain ⟨_, _, _, hno⟩ := S2.ok_parts hok
  simp only [S2.noOvf, Bool.and_eq_true, decide_eq_true_eq] at hno
  have hpk : s.low + (S2.next cfg s e).size * (S2.next cfg s e).segs ≤ S2.peak cfg s e := by
    unfold S2.peak
    exact Nat.le_max_left _ _
  exact ⟨⟨hi.1.2.2.2.1, g2, g3, g1, Nat.lt_of_le_of_lt hpk hno.1⟩, hw⟩

theorem rinv_init (c : Consts) (hc : c.WF) (x limit threads : Nat) (print : Bool) :
    RInv (S2.mkConfig c limit threads print) (S2.init c x limit threads print) := by
  refine ⟨S2.init_inv c hc x limit threads print, ?_⟩
  have h2 : (S2.init c x limit threads print).hands = [] := by simp only [S2.init]; split <;> rfl
  rw [h2]; intro p hp; simp at hp

theorem rinv_final (cfg : S2.Config) (hal : cfg.al = 240) : ∀ (es : List S2.Ev) (s : S2.State), RInv cfg s →
    (S2.sys cfg).accepts s es = true → RInv cfg ((S2.sys cfg).final s es) := by
  intro es
  induction es with
  | nil => intro s hi _; exact hi
  | cons e es ih =>
    intro s hi hacc
    simp only [Sys.accepts, Bool.and_eq_true] at hacc
    exact ih _ (rinv_step cfg hal s e hi hacc.1) hacc.2

/-! ### `replay` = accepted history + reported values -/

/-- every `thread.sum` passed to `get_work` is the value of the thread function on the ThreadData the worker holds
    (0 for a fresh ThreadData and after a `false` answer) -/
def Reported (thr : Nat → Nat → Nat → Except Err Int) (cfg : S2.Config) : S2.State → List S2.Ev → Prop
  | _, [] => True
  | s, e :: es => handValue thr (getHand e.w s.hands) = .ok e.tsum ∧ Reported thr cfg (S2.next cfg s e) es

theorem replay_ok_iff (thr : Nat → Nat → Nat → Except Err Int) (cfg : S2.Config) :
    ∀ (es : List S2.Ev) (s s' : S2.State), replay thr cfg s es = .ok s' ↔
      ((S2.sys cfg).accepts s es = true ∧ Reported thr cfg s es ∧ s' = (S2.sys cfg).final s es) := by
  intro es
  induction es with
  | nil =>
    intro s s'
    simp only [replay, Sys.accepts, Sys.final, Reported, Except.ok.injEq, true_and]
    exact eq_comm
  | cons e es ih =>
    intro s s'
    have hacc : (S2.sys cfg).accepts s (e :: es) = (S2.ok cfg s e && (S2.sys cfg).accepts (S2.next cfg s e) es) := rfl
    have hfin : (S2.sys cfg).final s (e :: es) = (S2.sys cfg).final (S2.next cfg s e) es := rfl
    rw [hacc, hfin]
    simp only [replay, Reported]
    by_cases hok : S2.ok cfg s e = true
    · simp only [hok, not_true_eq_false, if_false, Bool.true_and]
      cases hv : handValue thr (getHand e.w s.hands) with
      | error er => simp
      | ok v =>
        simp only [Except.ok.injEq]
        by_cases hve : v = e.tsum
        · simp only [hve, ne_eq, not_true_eq_false, if_false, true_and]
          exact ih _ _
        · simp [hve]
    · simp [hok]

/-- soundness direction: a successful replay is an accepted history ending in the returned state -/
theorem replay_sound (thr : Nat → Nat → Nat → Except Err Int) (cfg : S2.Config) (es : List S2.Ev) (s s' : S2.State)
    (h : replay thr cfg s es = .ok s') :
    (S2.sys cfg).accepts s es = true ∧ Reported thr cfg s es ∧ s' = (S2.sys cfg).final s es :=
  (replay_ok_iff thr cfg es s s').1 h

/-- converse: every accepted history whose reported `thread.sum`s are the values of `thr` replays successfully -/
theorem replay_complete (thr : Nat → Nat → Nat → Except Err Int) (cfg : S2.Config) (es : List S2.Ev) (s : S2.State)
    (hacc : (S2.sys cfg).accepts s es = true) (hrep : Reported thr cfg s es) :
    replay thr cfg s es = .ok ((S2.sys cfg).final s es) :=
  (replay_ok_iff thr cfg es s _).2 ⟨hacc, hrep, rfl⟩

theorem completeB_iff (cfg : S2.Config) (s : S2.State) : completeB cfg s = true ↔ S2.Complete cfg s := by
  simp only [completeB, S2.Complete, Bool.and_eq_true, decide_eq_true_eq, List.all_eq_true, Bool.not_eq_true']

/-! ### reported values of a thread function that computes `F` = honest workers -/

/-- on a ThreadData satisfying the invariant, the value of `thr` is `F` of the chunk it stands for -/
theorem handValue_eq (thr : Nat → Nat → Nat → Except Err Int) (F : Chunk → Int) (cfg : S2.Config)
    (hthr : ∀ low segs size, GoodItem low segs size → low < cfg.limit →
      thr low segs size = .ok (F (low, min (low + size * segs) cfg.limit)))
    (h : Hand) (hg : HandGood cfg h) : handValue thr h = .ok (optVal F (S2.handChunk cfg h)) := by
  unfold handValue S2.handChunk
  by_cases hw : h.work = true
  · obtain ⟨g, hl⟩ := hg hw
    simp only [hw, if_true, optVal]
    exact hthr _ _ _ g hl
  · simp only [hw, optVal]; rfl

theorem honest_iff_reported (thr : Nat → Nat → Nat → Except Err Int) (F : Chunk → Int) (cfg : S2.Config)
    (hal : cfg.al = 240)
    (hthr : ∀ low segs size, GoodItem low segs size → low < cfg.limit →
      thr low segs size = .ok (F (low, min (low + size * segs) cfg.limit))) :
    ∀ (es : List S2.Ev) (s : S2.State), RInv cfg s → (S2.sys cfg).accepts s es = true →
      (Reported thr cfg s es ↔ S2.Honest F cfg s es) := by
  intro es
  induction es with
  | nil => intro s _ _; simp only [Reported, S2.Honest]
  | cons e es ih =>
    intro s hi hacc
    simp only [Sys.accepts, Bool.and_eq_true] at hacc
    have hg : HandGood cfg (getHand e.w s.hands) :=
      getHand_all (HandGood cfg) (fun h => absurd h (by simp)) e.w s.hands hi.2
    have hv := handValue_eq thr F cfg hthr _ hg
    have ih' := ih (S2.next cfg s e) (rinv_step cfg hal s e hi hacc.1) hacc.2
    simp only [Reported, S2.Honest, hv, Except.ok.injEq, ih']
    constructor
    · rintro ⟨h1, h2⟩; exact ⟨h1.symm, h2⟩
    · rintro ⟨h1, h2⟩; exact ⟨h1.symm, h2⟩

/-! ### the total -/

/-- THE PARALLEL REGION, generically: if the thread function returns `F` of its chunk on every good work item that
    starts below the limit (`F` additive over adjacent intervals), then every recorded history that `replay` accepts
    and that is complete (range exhausted, every worker's last answer was `false`) leaves `F [0, limit)` in `sum_`:
    whatever the team size, the order in which workers come back, the clock values and the float-derived choices. -/
theorem replay_total (thr : Nat → Nat → Nat → Except Err Int) (F : Chunk → Int) (hF : Additive F)
    (c : Consts) (hc : c.WF) (x limit threads : Nat) (print : Bool)
    (hthr : ∀ low segs size, GoodItem low segs size → low < limit →
      thr low segs size = .ok (F (low, min (low + size * segs) limit)))
    (es : List S2.Ev) (s : S2.State)
    (h : replay thr (S2.mkConfig c limit threads print) (S2.init c x limit threads print) es = .ok s)
    (hcomp : completeB (S2.mkConfig c limit threads print) s = true) : s.sum = F (0, limit) := by
  have hal := S2.mkConfig_al c hc limit threads print
  obtain ⟨hacc, hrep, hs⟩ := replay_sound thr _ es _ s h
  have hri := rinv_init c hc x limit threads print
  have hh : S2.Honest F (S2.mkConfig c limit threads print) (S2.init c x limit threads print) es :=
    (honest_iff_reported thr F _ hal hthr es _ hri hacc).1 hrep
  have hcomp' := (completeB_iff _ _).1 hcomp
  rw [hs] at hcomp' ⊢
  -- from here on: C03.dispenser_total
  have L := S2.law (S2.mkConfig c limit threads print) hal
  have hi := S2.init_inv c hc x limit threads print
  have h0 : (S2.init c x limit threads print).low = 0 := by simp only [S2.init]; split <;> rfl
  have h1 : (S2.init c x limit threads print).sum = 0 := by simp only [S2.init]; split <;> rfl
  have h2 : (S2.init c x limit threads print).hands = [] := by simp only [S2.init]; split <;> rfl
  have hsum := S2.sum_once F _ es _ hacc hh
  rw [h1, h2, S2.pendHands_complete F _ _ hcomp'.2] at hsum
  have hch := Sys.covers L _ es hi hacc
    (by show (S2.init c x limit threads print).low ≤ _; rw [h0]; exact Nat.zero_le _) hcomp'.1
  have hp : (S2.sys (S2.mkConfig c limit threads print)).pos (S2.init c x limit threads print) = 0 := h0
  rw [hp] at hch
  have hadd := Chain.sum_additive hF hch
  have he := hF.empty limit
  have hl : (S2.sys (S2.mkConfig c limit threads print)).limit = limit := rfl
  rw [hl] at hadd
  simp only [S2.pendHands] at hsum
  omega

/-- two complete replayed histories of the same range — different team sizes, print modes, `x`, orders, timings —
    accumulate the same sum -/
theorem replay_independent_of_run (thr : Nat → Nat → Nat → Except Err Int) (F : Chunk → Int) (hF : Additive F)
    (c : Consts) (hc : c.WF) (limit : Nat)
    (hthr : ∀ low segs size, GoodItem low segs size → low < limit →
      thr low segs size = .ok (F (low, min (low + size * segs) limit)))
    (x1 threads1 : Nat) (print1 : Bool) (es1 : List S2.Ev) (s1 : S2.State)
    (x2 threads2 : Nat) (print2 : Bool) (es2 : List S2.Ev) (s2 : S2.State)
    (h1 : replay thr (S2.mkConfig c limit threads1 print1) (S2.init c x1 limit threads1 print1) es1 = .ok s1)
    (hc1 : completeB (S2.mkConfig c limit threads1 print1) s1 = true)
    (h2 : replay thr (S2.mkConfig c limit threads2 print2) (S2.init c x2 limit threads2 print2) es2 = .ok s2)
    (hc2 : completeB (S2.mkConfig c limit threads2 print2) s2 = true) : s1.sum = s2.sum := by
  rw [replay_total thr F hF c hc x1 limit threads1 print1 hthr es1 s1 h1 hc1,
      replay_total thr F hF c hc x2 limit threads2 print2 hthr es2 s2 h2 hc2]

/-- non-vacuity direction: every accepted history of honest workers (C03's `S2.Honest`) from the constructor state
    is replayed successfully, and ends in the dispenser's final state -/
theorem replay_of_honest (thr : Nat → Nat → Nat → Except Err Int) (F : Chunk → Int)
    (c : Consts) (hc : c.WF) (x limit threads : Nat) (print : Bool)
    (hthr : ∀ low segs size, GoodItem low segs size → low < limit →
      thr low segs size = .ok (F (low, min (low + size * segs) limit)))
    (es : List S2.Ev)
    (hacc : (S2.sys (S2.mkConfig c limit threads print)).accepts (S2.init c x limit threads print) es = true)
    (hh : S2.Honest F (S2.mkConfig c limit threads print) (S2.init c x limit threads print) es) :
    replay thr (S2.mkConfig c limit threads print) (S2.init c x limit threads print) es =
      .ok ((S2.sys (S2.mkConfig c limit threads print)).final (S2.init c x limit threads print) es) :=
  replay_complete thr _ es _ hacc
    ((honest_iff_reported thr F _ (S2.mkConfig_al c hc limit threads print) hthr es _
      (rinv_init c hc x limit threads print) hacc).2 hh)

/-- the work items `replay` passes to the thread function are exactly the ThreadData with `work = true` in the hand
    table of a reachable state; each of them is a `GoodItem` that starts below the limit (so `hthr` is asked about
    nothing but items of this shape) -/
theorem replay_hands_good (thr : Nat → Nat → Nat → Except Err Int) (c : Consts) (hc : c.WF)
    (x limit threads : Nat) (print : Bool) (es : List S2.Ev) (s : S2.State)
    (h : replay thr (S2.mkConfig c limit threads print) (S2.init c x limit threads print) es = .ok s) :
    ∀ p ∈ s.hands, p.2.work = true → GoodItem p.2.low p.2.segs p.2.size ∧ p.2.low < limit := by
  obtain ⟨hacc, _, hs⟩ := replay_sound thr _ es _ s h
  rw [hs]
  exact (rinv_final _ (S2.mkConfig_al c hc limit threads print) es _ (rinv_init c hc x limit threads print) hacc).2

/-- under the per-chunk hypothesis the thread function never fails on anything `replay` passes to it: the only error a
    replay from an invariant state can produce is `badRun` (the recorded history is not a run / a reported sum is
    not the thread function's value) -/
theorem replay_ok_or_badRun (thr : Nat → Nat → Nat → Except Err Int) (F : Chunk → Int) (cfg : S2.Config)
    (hal : cfg.al = 240)
    (hthr : ∀ low segs size, GoodItem low segs size → low < cfg.limit →
      thr low segs size = .ok (F (low, min (low + size * segs) cfg.limit))) :
    ∀ (es : List S2.Ev) (s : S2.State), RInv cfg s →
      (∃ s', replay thr cfg s es = .ok s') ∨ replay thr cfg s es = .error .badRun := by
  intro es
  induction es with
  | nil => intro s _; exact Or.inl ⟨s, rfl⟩
  | cons e es ih =>
    intro s hi
    have hg : HandGood cfg (getHand e.w s.hands) :=
      getHand_all (HandGood cfg) (fun h => absurd h (by simp)) e.w s.hands hi.2
    have hv := handValue_eq thr F cfg hthr _ hg
    simp only [replay, hv]
    by_cases hok : S2.ok cfg s e = true
    · simp only [hok, not_true_eq_false, if_false]
      by_cases hve : optVal F (S2.handChunk cfg (getHand e.w s.hands)) = e.tsum
      · simp only [hve, ne_eq, not_true_eq_false, if_false]
        exact ih _ (rinv_step cfg hal s e hi hok)
      · simp [hve]
    · simp [hok]

/-! ### the two models -/

/-- `S2_hard_OpenMP`: given the per-chunk theorem (`S2_hard_thread` on a good work item returns `F` of its chunk, `F`
    additive), every run of the parallel region that the model accepts returns `F [0, z)` -/
theorem s2HardOpenMP_total {σ : Type} (S : SieveOps σ) (e : Env) (c : Consts) (hc : c.WF) (x y z cc threads : Nat)
    (print : Bool) (F : Chunk → Int) (hF : Additive F)
    (hthr : ∀ low segs size, GoodItem low segs size → low < z →
      s2HardThread S e x y z cc low segs size = .ok (F (low, min (low + size * segs) z)))
    (es : List S2.Ev) (v : Int) (h : s2HardOpenMP S e c x y z cc threads print es = .ok v) : v = F (0, z) := by
  unfold s2HardOpenMP at h
  simp only at h
  split at h
  · exact absurd h (by simp)
  · rename_i s hs
    split at h
    · rename_i hcomp
      simp only [Except.ok.injEq] at h
      rw [← h]
      exact replay_total _ F hF c hc x z threads print hthr es s hs hcomp
    · exact absurd h (by simp)

/-- `D_OpenMP` (limit `x / z`) -/
theorem dOpenMP_total {σ : Type} (S : SieveOps σ) (e : Env) (c : Consts) (hc : c.WF) (x y z k threads : Nat)
    (print : Bool) (F : Chunk → Int) (hF : Additive F)
    (hthr : ∀ low segs size, GoodItem low segs size → low < x / z →
      dThread S e x (xStar x y) (x / z) y z k low segs size = .ok (F (low, min (low + size * segs) (x / z))))
    (es : List S2.Ev) (v : Int) (h : dOpenMP S e c x y z k threads print es = .ok v) : v = F (0, x / z) := by
  unfold dOpenMP at h
  split at h
  · exact absurd h (by simp)
  · simp only at h
    split at h
    · exact absurd h (by simp)
    · rename_i s hs
      split at h
      · rename_i hcomp
        simp only [Except.ok.injEq] at h
        rw [← h]
        exact replay_total _ F hF c hc x (x / z) threads print hthr es s hs hcomp
      · exact absurd h (by simp)

/-- given the per-chunk theorem, `S2_hard_OpenMP` on ANY recorded history either returns `F [0, z)` or reports that the
    history is not a complete run of the dispenser by workers reporting their values (`badRun`); no table is read
    out of bounds, nothing divides by zero, no segment loop hangs -/
theorem s2HardOpenMP_ok_or_badRun {σ : Type} (S : SieveOps σ) (e : Env) (c : Consts) (hc : c.WF)
    (x y z cc threads : Nat) (print : Bool) (F : Chunk → Int) (hF : Additive F)
    (hthr : ∀ low segs size, GoodItem low segs size → low < z →
      s2HardThread S e x y z cc low segs size = .ok (F (low, min (low + size * segs) z)))
    (es : List S2.Ev) :
    s2HardOpenMP S e c x y z cc threads print es = .ok (F (0, z)) ∨
      s2HardOpenMP S e c x y z cc threads print es = .error .badRun := by
  cases hr : s2HardOpenMP S e c x y z cc threads print es with
  | ok v => left; rw [s2HardOpenMP_total S e c hc x y z cc threads print F hF hthr es v hr]
  | error er =>
    right
    unfold s2HardOpenMP at hr
    simp only at hr
    rcases replay_ok_or_badRun _ F (S2.mkConfig c z threads print) (S2.mkConfig_al c hc z threads print) hthr es _
      (rinv_init c hc x z threads print) with ⟨s', h⟩ | h
    · rw [h] at hr
      simp only at hr
      split at hr
      · exact absurd hr (by simp)
      · simp only [Except.error.injEq] at hr; rw [hr]
    · rw [h] at hr
      simp only [Except.error.injEq] at hr; rw [hr]

/-- the same for `D_OpenMP`; `z = 0` is the C++ division by zero in `xz = x / z` -/
theorem dOpenMP_ok_or_badRun {σ : Type} (S : SieveOps σ) (e : Env) (c : Consts) (hc : c.WF)
    (x y z k threads : Nat) (print : Bool) (hz : z ≠ 0) (F : Chunk → Int) (hF : Additive F)
    (hthr : ∀ low segs size, GoodItem low segs size → low < x / z →
      dThread S e x (xStar x y) (x / z) y z k low segs size = .ok (F (low, min (low + size * segs) (x / z))))
    (es : List S2.Ev) :
    dOpenMP S e c x y z k threads print es = .ok (F (0, x / z)) ∨
      dOpenMP S e c x y z k threads print es = .error .badRun := by
  cases hr : dOpenMP S e c x y z k threads print es with
  | ok v => left; rw [dOpenMP_total S e c hc x y z k threads print F hF hthr es v hr]
  | error er =>
    right
    unfold dOpenMP at hr
    simp only [hz, if_false] at hr
    rcases replay_ok_or_badRun _ F (S2.mkConfig c (x / z) threads print)
      (S2.mkConfig_al c hc (x / z) threads print) hthr es _ (rinv_init c hc x (x / z) threads print) with ⟨s', h⟩ | h
    · rw [h] at hr
      simp only at hr
      split at hr
      · exact absurd hr (by simp)
      · simp only [Except.error.injEq] at hr; rw [hr]
    · rw [h] at hr
      simp only [Except.error.injEq] at hr; rw [hr]

/-- the result of `S2_hard_OpenMP` does not depend on the run: two recorded histories (different team sizes, print
    modes, return orders, timings) on which the model returns a value return the same value -/
theorem s2HardOpenMP_independent_of_run {σ : Type} (S : SieveOps σ) (e : Env) (c : Consts) (hc : c.WF)
    (x y z cc : Nat) (F : Chunk → Int) (hF : Additive F)
    (hthr : ∀ low segs size, GoodItem low segs size → low < z →
      s2HardThread S e x y z cc low segs size = .ok (F (low, min (low + size * segs) z)))
    (threads1 : Nat) (print1 : Bool) (es1 : List S2.Ev) (v1 : Int)
    (threads2 : Nat) (print2 : Bool) (es2 : List S2.Ev) (v2 : Int)
    (h1 : s2HardOpenMP S e c x y z cc threads1 print1 es1 = .ok v1)
    (h2 : s2HardOpenMP S e c x y z cc threads2 print2 es2 = .ok v2) : v1 = v2 := by
  rw [s2HardOpenMP_total S e c hc x y z cc threads1 print1 F hF hthr es1 v1 h1,
      s2HardOpenMP_total S e c hc x y z cc threads2 print2 F hF hthr es2 v2 h2]

theorem dOpenMP_independent_of_run {σ : Type} (S : SieveOps σ) (e : Env) (c : Consts) (hc : c.WF)
    (x y z k : Nat) (F : Chunk → Int) (hF : Additive F)
    (hthr : ∀ low segs size, GoodItem low segs size → low < x / z →
      dThread S e x (xStar x y) (x / z) y z k low segs size = .ok (F (low, min (low + size * segs) (x / z))))
    (threads1 : Nat) (print1 : Bool) (es1 : List S2.Ev) (v1 : Int)
    (threads2 : Nat) (print2 : Bool) (es2 : List S2.Ev) (v2 : Int)
    (h1 : dOpenMP S e c x y z k threads1 print1 es1 = .ok v1)
    (h2 : dOpenMP S e c x y z k threads2 print2 es2 = .ok v2) : v1 = v2 := by
  rw [dOpenMP_total S e c hc x y z k threads1 print1 F hF hthr es1 v1 h1,
      dOpenMP_total S e c hc x y z k threads2 print2 F hF hthr es2 v2 h2]

/-! ### non-vacuity (tests, labelled as such): a concrete recorded run of two workers -/
namespace Ex

/-- an additive chunk function: interval length -/
def lenF (c : Chunk) : Int := (c.2 : Int) - c.1

/-- a thread function that computes it: `min(low + size * segs, limit) - low` -/
def lenThr (limit low segs size : Nat) : Except Err Int := .ok (lenF (low, min (low + size * segs) limit))

theorem lenF_additive : Additive lenF := by
  intro a b c _ _; simp only [lenF]; omega

/-- the per-chunk hypothesis `hthr` of `replay_total` is satisfiable -/
theorem lenThr_spec (limit : Nat) : ∀ low segs size, GoodItem low segs size → low < limit →
    lenThr limit low segs size = .ok (lenF (low, min (low + size * segs) limit)) := fun _ _ _ _ _ => rfl

/-- `GoodItem` is inhabited by what the dispenser really hands out first (`low = 0`, 1 segment of 720) -/
example : GoodItem 0 1 720 := ⟨by decide, by decide, by decide, by decide, by decide⟩

/-- result of a replay as a Boolean check: it succeeded, is complete, and `get_sum()` is `v` -/
def check (cfg : S2.Config) (r : Except Err S2.State) (v : Int) : Bool :=
  match r with
  | .ok s => completeB cfg s && s.sum == v
  | .error _ => false

theorem check_sound (cfg : S2.Config) (r : Except Err S2.State) (v : Int) (h : check cfg r v = true) :
    ∃ s, r = .ok s ∧ completeB cfg s = true ∧ s.sum = v := by
  unfold check at h
  split at h
  · rename_i s
    simp only [Bool.and_eq_true, beq_iff_eq] at h
    exact ⟨s, rfl, h.1, h.2⟩
  · exact absurd h (by simp)

/-- `LoadBalancerS2(x = 10^6, z = 3000, threads = 2, is_print = false)`: workers 0, 1 draw alternately; the chunks are
    `[0,720) [720,1440) [1440,2160) [2160,3000)`, then both get `false`.  Fields:
    `w tlow tsegs tsize tsum secs init | work olow osegs osize sumAfter`. -/
def runA : List S2.Ev :=
  [⟨0, 0, 0, 0, 0, 0, 0, true, 0, 1, 720, 0⟩,
   ⟨1, 0, 0, 0, 0, 0, 0, true, 720, 1, 720, 0⟩,
   ⟨0, 0, 1, 720, 720, 17, 4, true, 1440, 1, 720, 720⟩,
   ⟨1, 720, 1, 720, 720, 23, 4, true, 2160, 1, 960, 1440⟩,
   ⟨0, 1440, 1, 720, 720, 5, 4, false, 3120, 1, 1200, 2160⟩,
   ⟨1, 2160, 1, 960, 840, 9, 4, false, 4320, 1, 1440, 3000⟩]

/-- the same range, the workers come back in another order: chunks `[0,720) [720,1440) [1440,2400) [2400,3000)` -/
def runB : List S2.Ev :=
  [⟨0, 0, 0, 0, 0, 0, 0, true, 0, 1, 720, 0⟩,
   ⟨1, 0, 0, 0, 0, 0, 0, true, 720, 1, 720, 0⟩,
   ⟨1, 720, 1, 720, 720, 0, 0, true, 1440, 1, 960, 720⟩,
   ⟨0, 0, 1, 720, 720, 0, 0, true, 2400, 1, 960, 1440⟩,
   ⟨1, 1440, 1, 960, 960, 0, 0, false, 3360, 1, 1200, 2400⟩,
   ⟨0, 2400, 1, 960, 600, 0, 0, false, 4560, 1, 1440, 3000⟩]

/-- `replay` returns `.ok`, `completeB` is true and the sum is `3000 = lenF (0, 3000)` on both runs -/
theorem runA_ok : check (S2.mkConfig genConsts 3000 2 false)
    (replay (lenThr 3000) (S2.mkConfig genConsts 3000 2 false) (S2.init genConsts 1000000 3000 2 false) runA) 3000 = true := by
  decide

theorem runB_ok : check (S2.mkConfig genConsts 3000 2 false)
    (replay (lenThr 3000) (S2.mkConfig genConsts 3000 2 false) (S2.init genConsts 1000000 3000 2 false) runB) 3000 = true := by
  decide

/-- the single-thread constructor branch (`threads = 1`, no status: 100 segments of `align(min(L1, z))`): one worker,
    one chunk `[0, 3000)`, then `false` -/
def runC : List S2.Ev :=
  [⟨0, 0, 0, 0, 0, 0, 0, true, 0, 100, 3120, 0⟩,
   ⟨0, 0, 100, 3120, 3000, 7, 1, false, 312000, 100, 3120, 3000⟩]

theorem runC_ok : check (S2.mkConfig genConsts 3000 1 false)
    (replay (lenThr 3000) (S2.mkConfig genConsts 3000 1 false) (S2.init genConsts 1000000 3000 1 false) runC) 3000 = true := by
  decide

/-- `replay_independent_of_run` instantiated: team of 2 (run A) against a single thread (run C) -/
example : ∃ s1 s2,
    replay (lenThr 3000) (S2.mkConfig genConsts 3000 2 false) (S2.init genConsts 1000000 3000 2 false) runA = .ok s1 ∧
    replay (lenThr 3000) (S2.mkConfig genConsts 3000 1 false) (S2.init genConsts 1000000 3000 1 false) runC = .ok s2 ∧
    s1.sum = s2.sum := by
  obtain ⟨s1, h1, c1, _⟩ := check_sound _ _ _ runA_ok
  obtain ⟨s2, h2, c2, _⟩ := check_sound _ _ _ runC_ok
  exact ⟨s1, s2, h1, h2, replay_independent_of_run (lenThr 3000) lenF lenF_additive genConsts genConsts_wf 3000
    (lenThr_spec 3000) _ _ _ _ s1 _ _ _ _ s2 h1 c1 h2 c2⟩

/-- the hypotheses of `replay_total` hold of a concrete run (and its conclusion is the computed 3000) -/
example : ∃ s, replay (lenThr 3000) (S2.mkConfig genConsts 3000 2 false) (S2.init genConsts 1000000 3000 2 false) runA = .ok s ∧
    completeB (S2.mkConfig genConsts 3000 2 false) s = true ∧ s.sum = lenF (0, 3000) := by
  obtain ⟨s, h1, h2, _⟩ := check_sound _ _ _ runA_ok
  exact ⟨s, h1, h2, replay_total (lenThr 3000) lenF lenF_additive genConsts genConsts_wf 1000000 3000 2 false
    (lenThr_spec 3000) runA s h1 h2⟩

/-- a worker that reports a wrong `thread.sum` (721 instead of 720) is rejected by `replay` -/
example : check (S2.mkConfig genConsts 3000 2 false)
    (replay (lenThr 3000) (S2.mkConfig genConsts 3000 2 false) (S2.init genConsts 1000000 3000 2 false)
      [⟨0, 0, 0, 0, 0, 0, 0, true, 0, 1, 720, 0⟩, ⟨0, 0, 1, 720, 721, 0, 0, true, 720, 1, 720, 721⟩]) 721 = false := by
  decide

/-- an incomplete run (worker 1 never comes back with its last chunk) is not `completeB` -/
example : check (S2.mkConfig genConsts 3000 2 false)
    (replay (lenThr 3000) (S2.mkConfig genConsts 3000 2 false) (S2.init genConsts 1000000 3000 2 false)
      (runA.take 5)) 2160 = false := by
  decide

end Ex

end Pc.Hard

#print axioms Pc.Hard.replay_ok_iff
#print axioms Pc.Hard.replay_total
#print axioms Pc.Hard.replay_independent_of_run
#print axioms Pc.Hard.replay_of_honest
#print axioms Pc.Hard.replay_hands_good
#print axioms Pc.Hard.replay_ok_or_badRun
#print axioms Pc.Hard.s2HardOpenMP_total
#print axioms Pc.Hard.s2HardOpenMP_ok_or_badRun
#print axioms Pc.Hard.dOpenMP_ok_or_badRun
#print axioms Pc.Hard.dOpenMP_total
#print axioms Pc.Hard.s2HardOpenMP_independent_of_run
#print axioms Pc.Hard.dOpenMP_independent_of_run
