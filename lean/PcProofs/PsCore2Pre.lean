/-
C18 core, PreSieve part 3: `PreSieve::preSieve` over the 16 generated buffers leaves exactly the bits of the numbers that no
prime 7 … 163 divides properly (`PreOk`), independent of the old content of the sieve array.
-/
import PcProofs.PsCore2PreByte
import PcProofs.PsCore2PreLoop
import PcProofs.PsCore2PrePrimes
import PcGen.PsWheelObl
import Mathlib.Tactic.IntervalCases

namespace Pc.PsCore
open Pc.PsWheelSpec
open Pc.Sieve (Bytes bitAt)

/-! ### the decoded buffers -/

/-- entry `k` of `psPreTabs`: the number is the periodic buffer of its primes, whose product is the length -/
def PreTabOk (t : ℕ × ℕ × List ℕ) : Prop :=
  t.1 = preBufPeriodic t.2.2 t.2.1 ∧ 0 < t.2.1 ∧ ∀ p ∈ t.2.2, 0 < p ∧ p ∣ t.2.1

theorem preTabs_ok (k : ℕ) (hk : k < 16) : PreTabOk ((Gen.psPreTabs ()).getD k (0, 0, [])) := by
  interval_cases k
  · show PreTabOk (Gen.psPreTab0 (), 5957, [7, 23, 37])
    exact ⟨Gen.psPreTab0_ok.1, by decide, by decide⟩
  · show PreTabOk (Gen.psPreTab1 (), 6479, [11, 19, 31])
    exact ⟨Gen.psPreTab1_ok.1, by decide, by decide⟩
  · show PreTabOk (Gen.psPreTab2 (), 6409, [13, 17, 29])
    exact ⟨Gen.psPreTab2_ok.1, by decide, by decide⟩
  · show PreTabOk (Gen.psPreTab3 (), 6683, [41, 163])
    exact ⟨Gen.psPreTab3_ok.1, by decide, by decide⟩
  · show PreTabOk (Gen.psPreTab4 (), 6751, [43, 157])
    exact ⟨Gen.psPreTab4_ok.1, by decide, by decide⟩
  · show PreTabOk (Gen.psPreTab5 (), 7097, [47, 151])
    exact ⟨Gen.psPreTab5_ok.1, by decide, by decide⟩
  · show PreTabOk (Gen.psPreTab6 (), 7897, [53, 149])
    exact ⟨Gen.psPreTab6_ok.1, by decide, by decide⟩
  · show PreTabOk (Gen.psPreTab7 (), 8201, [59, 139])
    exact ⟨Gen.psPreTab7_ok.1, by decide, by decide⟩
  · show PreTabOk (Gen.psPreTab8 (), 8357, [61, 137])
    exact ⟨Gen.psPreTab8_ok.1, by decide, by decide⟩
  · show PreTabOk (Gen.psPreTab9 (), 8777, [67, 131])
    exact ⟨Gen.psPreTab9_ok.1, by decide, by decide⟩
  · show PreTabOk (Gen.psPreTab10 (), 9017, [71, 127])
    exact ⟨Gen.psPreTab10_ok.1, by decide, by decide⟩
  · show PreTabOk (Gen.psPreTab11 (), 8249, [73, 113])
    exact ⟨Gen.psPreTab11_ok.1, by decide, by decide⟩
  · show PreTabOk (Gen.psPreTab12 (), 8611, [79, 109])
    exact ⟨Gen.psPreTab12_ok.1, by decide, by decide⟩
  · show PreTabOk (Gen.psPreTab13 (), 8881, [83, 107])
    exact ⟨Gen.psPreTab13_ok.1, by decide, by decide⟩
  · show PreTabOk (Gen.psPreTab14 (), 9167, [89, 103])
    exact ⟨Gen.psPreTab14_ok.1, by decide, by decide⟩
  · show PreTabOk (Gen.psPreTab15 (), 9797, [97, 101])
    exact ⟨Gen.psPreTab15_ok.1, by decide, by decide⟩

theorem preLen_pos (k : ℕ) (hk : k < 16) : 0 < preLen k := (preTabs_ok k hk).2.1

theorem prePrimes_dvd (k : ℕ) (hk : k < 16) : ∀ p ∈ prePrimes k, p ∣ preLen k :=
  fun p hp => ((preTabs_ok k hk).2.2 p hp).2

theorem getD_map_range {α : Type} (f : ℕ → α) (d : α) (n j : ℕ) (h : j < n) :
    ((Array.range n).map f).getD j d = f j := by
  rw [Array.getD_eq_getD_getElem?, Array.getElem?_map, Array.getElem?_range, if_pos h]
  rfl

theorem preTabsDecoded_size : (preTabsDecoded ()).size = 16 := by
  unfold preTabsDecoded
  rw [Array.size_map, Array.size_range, psPreTabs_length]

theorem preTabsDecoded_getD (k : ℕ) (hk : k < 16) : (preTabsDecoded ()).getD k #[] = preTabBytes () k := by
  unfold preTabsDecoded
  rw [psPreTabs_length, getD_map_range _ _ _ _ hk]

theorem preTabBytes_size (k : ℕ) : (preTabBytes () k).size = preLen k := by
  unfold preTabBytes preLen
  simp only [Array.size_map, Array.size_range]

theorem preTabBytes_getD (k j : ℕ) (hk : k < 16) (hj : j < preLen k) :
    (preTabBytes () k).getD j 0 = preByte (prePrimes k) j := by
  have hok := preTabs_ok k hk
  unfold preLen at hj
  unfold preTabBytes prePrimes
  simp only []
  rw [getD_map_range _ _ _ _ hj, hok.1]
  exact preBufPeriodic_byte _ _ _ hok.2.2 hj

/-- the periodic byte of buffer `k` at absolute position `c + x` -/
theorem perByte_tab (k c x : ℕ) (hk : k < 16) :
    perByte ((preTabsDecoded ()).getD k #[]) c x = preByte (prePrimes k) (c + x) := by
  unfold perByte
  rw [preTabsDecoded_getD k hk, preTabBytes_size,
    preTabBytes_getD k _ hk (Nat.mod_lt _ (preLen_pos k hk)),
    preByte_mod _ _ _ (prePrimes_dvd k hk)]

theorem tab_size_pos (k : ℕ) (hk : k < 16) : 0 < ((preTabsDecoded ()).getD k #[]).size := by
  rw [preTabsDecoded_getD k hk, preTabBytes_size]; exact preLen_pos k hk

/-! ### the four groups -/

/-- buffer `k` -/
def preT (k : ℕ) : Bytes := (preTabsDecoded ()).getD k #[]

/-- the AND of the 16 buffers at sieve byte `x` (`c = segmentLow / 30`) -/
def allVal (c x : ℕ) : ℕ :=
  grpVal (preT 12) (preT 13) (preT 14) (preT 15) c c c c x &&&
    (grpVal (preT 8) (preT 9) (preT 10) (preT 11) c c c c x &&&
      (grpVal (preT 4) (preT 5) (preT 6) (preT 7) c c c c x &&&
        grpVal (preT 0) (preT 1) (preT 2) (preT 3) c c c c x))

/-- the four `preGroup` calls of `preSieve` -/
def pre4T (tabs : Array Bytes) (s : Bytes) (L : ℕ) : Bytes :=
  preGroup tabs true 12 L (preGroup tabs true 8 L (preGroup tabs true 4 L (preGroup tabs false 0 L s)))

theorem preSieve_unfoldT (tabs : Array Bytes) (h : tabs.size = 16) (s : Bytes) (L : ℕ) :
    preSieve tabs s L = if L ≤ 163 then restorePrimeBits (L / 30) (pre4T tabs s L) else pre4T tabs s L := by
  unfold preSieve pre4T
  simp only [h, Gen.psPreSieveMaxPrime, Nat.reduceSub, Nat.reduceAdd, Nat.reduceDiv]
  rw [show List.range 3 = [0, 1, 2] from rfl]
  simp only [List.foldl, Nat.reduceMul, Nat.reduceAdd]

/-- the four `preGroup` calls of `preSieve` over the generated buffers -/
def pre4 (s : Bytes) (L : ℕ) : Bytes := pre4T (preTabsDecoded ()) s L

theorem preSieve_unfold (s : Bytes) (L : ℕ) :
    preSieve (preTabsDecoded ()) s L = if L ≤ 163 then restorePrimeBits (L / 30) (pre4 s L) else pre4 s L :=
  preSieve_unfoldT (preTabsDecoded ()) preTabsDecoded_size s L

theorem preGroup_tab (andOld : Bool) (i L : ℕ) (s : Bytes) (hi : i + 3 < 16) :
    (preGroup (preTabsDecoded ()) andOld i L s).size = s.size ∧
    ∀ x, x < s.size → (preGroup (preTabsDecoded ()) andOld i L s).getD x 0 =
      grpTgt andOld (preT (i + 0)) (preT (i + 1)) (preT (i + 2)) (preT (i + 3)) (L / 30) (L / 30) (L / 30) (L / 30) s x :=
  preGroup_spec (preTabsDecoded ()) andOld i L s (tab_size_pos _ (by omega)) (tab_size_pos _ (by omega))
    (tab_size_pos _ (by omega)) (tab_size_pos _ (by omega))

theorem pre4_spec (s : Bytes) (L : ℕ) :
    (pre4 s L).size = s.size ∧ ∀ x, x < s.size → (pre4 s L).getD x 0 = allVal (L / 30) x := by
  unfold pre4 pre4T
  have g0 := preGroup_tab false 0 L s (by decide)
  have g1 := preGroup_tab true 4 L (preGroup (preTabsDecoded ()) false 0 L s) (by decide)
  have g2 := preGroup_tab true 8 L (preGroup (preTabsDecoded ()) true 4 L (preGroup (preTabsDecoded ()) false 0 L s))
    (by decide)
  have g3 := preGroup_tab true 12 L (preGroup (preTabsDecoded ()) true 8 L
    (preGroup (preTabsDecoded ()) true 4 L (preGroup (preTabsDecoded ()) false 0 L s))) (by decide)
  refine ⟨by rw [g3.1, g2.1, g1.1, g0.1], fun x hx => ?_⟩
  rw [g3.2 x (by rw [g2.1, g1.1, g0.1]; exact hx), grpTgt, if_pos rfl,
    g2.2 x (by rw [g1.1, g0.1]; exact hx), grpTgt, if_pos rfl,
    g1.2 x (by rw [g0.1]; exact hx), grpTgt, if_pos rfl,
    g0.2 x hx, grpTgt, if_neg (by decide)]
  rfl

/-! ### bits of the AND -/

/-- bit `i` of buffer `k` at absolute byte `y`: no prime of the buffer divides `30 y + B_i` -/
def bitK (k y i : ℕ) : Bool := (prePrimes k).all fun p => (30 * y + bitVals.getD i 0) % p != 0

theorem perByte_tab_bit (k c x i : ℕ) (hk : k < 16) (hi : i < 8) :
    (perByte (preT k) c x).testBit i = bitK k (c + x) i := by
  unfold preT bitK
  rw [perByte_tab k c x hk, preByte_testBit]
  simp [hi]

theorem bitK_iff (k y i : ℕ) : bitK k y i = true ↔ ∀ p ∈ prePrimes k, (30 * y + bitVals.getD i 0) % p ≠ 0 := by
  unfold bitK
  simp only [List.all_eq_true, bne_iff_ne]

theorem allVal_testBit (c x i : ℕ) (hi : i < 8) :
    (allVal c x).testBit i = true ↔ Clean (30 * (c + x) + bitVals.getD i 0) := by
  unfold allVal grpVal Clean
  simp only [Nat.testBit_and]
  rw [perByte_tab_bit 0 c x i (by decide) hi, perByte_tab_bit 1 c x i (by decide) hi, perByte_tab_bit 2 c x i (by decide) hi, perByte_tab_bit 3 c x i (by decide) hi, perByte_tab_bit 4 c x i (by decide) hi, perByte_tab_bit 5 c x i (by decide) hi, perByte_tab_bit 6 c x i (by decide) hi, perByte_tab_bit 7 c x i (by decide) hi, perByte_tab_bit 8 c x i (by decide) hi, perByte_tab_bit 9 c x i (by decide) hi, perByte_tab_bit 10 c x i (by decide) hi, perByte_tab_bit 11 c x i (by decide) hi, perByte_tab_bit 12 c x i (by decide) hi, perByte_tab_bit 13 c x i (by decide) hi, perByte_tab_bit 14 c x i (by decide) hi, perByte_tab_bit 15 c x i (by decide) hi]
  simp only [Bool.and_eq_true]
  constructor
  · intro h k hk
    rw [← bitK_iff]
    interval_cases k <;> simp only [h]
  · intro h
    have h' : ∀ k, k < 16 → bitK k (c + x) i = true := fun k hk => (bitK_iff k (c + x) i).2 (h k hk)
    simp only [h' 0 (by decide), h' 1 (by decide), h' 2 (by decide), h' 3 (by decide), h' 4 (by decide), h' 5 (by decide), h' 6 (by decide), h' 7 (by decide), h' 8 (by decide), h' 9 (by decide), h' 10 (by decide), h' 11 (by decide), h' 12 (by decide), h' 13 (by decide), h' 14 (by decide), h' 15 (by decide), and_self]

theorem allVal_lt (c x : ℕ) : allVal c x < 256 := by
  unfold allVal grpVal
  refine lt_of_le_of_lt (le_trans Nat.and_le_left (le_trans Nat.and_le_left (le_trans Nat.and_le_left Nat.and_le_left))) ?_
  unfold preT
  rw [perByte_tab 12 c x (by decide)]
  exact preByte_lt _ _

/-! ### `restorePrimeBits` -/

theorem foldl_set_spec (f : ℕ → ℕ) : ∀ (n : ℕ) (s : Bytes),
    ((List.range n).foldl (fun s j => s.setIfInBounds j (f j)) s).size = s.size ∧
    ∀ x, ((List.range n).foldl (fun s j => s.setIfInBounds j (f j)) s).getD x 0 =
      if x < n ∧ x < s.size then f x else s.getD x 0
  | 0, s => by
    refine ⟨rfl, fun x => ?_⟩
    rw [if_neg (by omega)]; rfl
  | n + 1, s => by
    have ih := foldl_set_spec f n s
    rw [List.range_succ, List.foldl_append]
    simp only [List.foldl]
    refine ⟨by rw [Array.size_setIfInBounds, ih.1], fun x => ?_⟩
    rw [getD_setIfInBounds', ih.1, ih.2 x]
    by_cases h1 : n = x ∧ n < s.size
    · rw [if_pos h1, if_pos (by omega), h1.1]
    · rw [if_neg h1]
      by_cases h2 : x < n ∧ x < s.size
      · rw [if_pos h2, if_pos (by omega)]
      · rw [if_neg h2, if_neg (by omega)]

theorem restorePrimeBits_spec (c : ℕ) (s : Bytes) :
    (restorePrimeBits c s).size = s.size ∧
    ∀ x, (restorePrimeBits c s).getD x 0 =
      if x < 8 - c ∧ x < s.size then Gen.psPrimeBits.getD (c + x) 0 else s.getD x 0 := by
  unfold restorePrimeBits
  exact foldl_set_spec (fun j => Gen.psPrimeBits.getD (c + j) 0) (8 - c) s

theorem primeBits_getD (k : ℕ) (hk : k < 8) :
    Gen.psPrimeBits.getD k 0 = maskOf fun v => isPrimeTD (30 * k + v) := by
  rw [Gen.psPrimeBits_ok]
  unfold expectedPrimeBits
  rw [List.getD_eq_getElem?_getD, List.getElem?_map, List.getElem?_range hk, Option.map_some, Option.getD_some]

theorem bitVals_coprime235 : ∀ i < 8, bitVals.getD i 0 % 2 = 1 ∧ bitVals.getD i 0 % 3 ≠ 0 ∧ bitVals.getD i 0 % 5 ≠ 0 := by
  decide

/-- bit `i` of `primeBits[k]`: `30 k + B_i` is prime, equivalently `PreOk` -/
theorem primeBits_testBit (k i : ℕ) (hk : k < 8) (hi : i < 8) :
    (Gen.psPrimeBits.getD k 0).testBit i = true ↔ PreOk (30 * k + bitVals.getD i 0) := by
  have hr := bitVals_range i hi
  have hc := bitVals_coprime235 i hi
  rw [primeBits_getD k hk, maskOf_testBit]
  simp only [hi, decide_true, Bool.true_and]
  rw [isPrimeTD_eq_prime _ (by omega), preOk_iff_prime _ (by omega) (by omega) (by omega) (by omega) (by omega)]

/-! ### the main theorem -/

/-- byte `x` of the result -/
def preByteOf (L x : ℕ) : ℕ :=
  if L ≤ 163 ∧ x < 8 - L / 30 then Gen.psPrimeBits.getD (L / 30 + x) 0 else allVal (L / 30) x

theorem preSieve_bytes (L : ℕ) (s : Bytes) :
    (preSieve (preTabsDecoded ()) s L).size = s.size ∧
    ∀ x, x < s.size → (preSieve (preTabsDecoded ()) s L).getD x 0 = preByteOf L x := by
  rw [preSieve_unfold]
  have h4 := pre4_spec s L
  unfold preByteOf
  by_cases hL : L ≤ 163
  · rw [if_pos hL]
    have hr := restorePrimeBits_spec (L / 30) (pre4 s L)
    refine ⟨by rw [hr.1, h4.1], fun x hx => ?_⟩
    rw [hr.2 x, h4.1]
    by_cases hx8 : x < 8 - L / 30
    · rw [if_pos ⟨hx8, hx⟩, if_pos ⟨hL, hx8⟩]
    · rw [if_neg (fun h => hx8 h.1), if_neg (fun h => hx8 h.2), h4.2 x hx]
  · rw [if_neg hL]
    refine ⟨h4.1, fun x hx => ?_⟩
    rw [if_neg (fun h => hL h.1), h4.2 x hx]

theorem primeBits_lt : ∀ k < 8, Gen.psPrimeBits.getD k 0 < 256 := by decide

theorem preByteOf_lt (L x : ℕ) : preByteOf L x < 256 := by
  unfold preByteOf
  split
  · exact primeBits_lt _ (by omega)
  · exact allVal_lt _ _

theorem preByteOf_testBit (L x i : ℕ) (hL : 30 ∣ L) (hi : i < 8) :
    (preByteOf L x).testBit i = true ↔ PreOk (L + 30 * x + bitVals.getD i 0) := by
  obtain ⟨c, rfl⟩ := hL
  have hr := bitVals_range i hi
  unfold preByteOf
  rw [Nat.mul_div_cancel_left c (by decide : 0 < 30)]
  by_cases h : 30 * c ≤ 163 ∧ x < 8 - c
  · rw [if_pos h, primeBits_testBit _ _ (by omega) hi, show 30 * (c + x) = 30 * c + 30 * x by ring]
  · rw [if_neg h, allVal_testBit _ _ _ hi, show 30 * (c + x) = 30 * c + 30 * x by ring]
    exact clean_iff_preOk _ (by omega)

/-- **`PreSieve::preSieve`**: whatever the old content, the bits left are exactly those of the numbers that no prime
    `7 … 163` divides properly -/
theorem preSieve_spec (L : ℕ) (hL : 30 ∣ L) (s : Bytes) :
    (preSieve (preTabsDecoded ()) s L).size = s.size ∧
    (∀ i, (preSieve (preTabsDecoded ()) s L).getD i 0 < 256) ∧
    (∀ p, bitAt (preSieve (preTabsDecoded ()) s L) p = true ↔ (p < 8 * s.size ∧ PreOk (numOf L p))) := by
  have hb := preSieve_bytes L s
  refine ⟨hb.1, fun i => ?_, fun p => ?_⟩
  · by_cases hi : i < s.size
    · rw [hb.2 i hi]; exact preByteOf_lt L i
    · rw [getD_ge_size _ _ (by rw [hb.1]; omega)]; decide
  · unfold bitAt numOf
    by_cases hp : p < 8 * s.size
    · rw [hb.2 (p / 8) (by omega), preByteOf_testBit L (p / 8) (p % 8) hL (Nat.mod_lt _ (by decide))]
      exact ⟨fun h => ⟨hp, h⟩, fun h => h.2⟩
    · rw [getD_ge_size _ _ (by rw [hb.1]; omega)]
      simp [hp]

end Pc.PsCore
