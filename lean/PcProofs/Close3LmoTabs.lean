/-
WP close3 (item 3, part 1) — the tables of `pi_lmo5` / `pi_lmo_parallel` built by the C17 constructor MODELS, and their contract `LmoOK`.

src/lmo/pi_lmo5.cpp:174-176 and src/lmo/pi_lmo_parallel.cpp:245-247 (both top-level functions):
    auto primes = generate_primes<int32_t / uint32_t>(y);   -> `genPrimes gen y`            (`{0} ++ primes ≤ y` over the generator `gen`)
    auto lpf    = generate_lpf(y);                           -> `generateLpf y`              (C17 model, PcModel/PiTable.lean:351)
    auto mu     = generate_moebius(y);                       -> `generateMoebius y`          (C17 model, PcModel/PiTable.lean:365)
inside the file-local `S2`:
    pi_lmo5.cpp:66          auto pi = generate_pi(y);        -> `generatePi y`               (C17 model, PcModel/PiTable.lean:334)     [`par = false`]
    pi_lmo_parallel.cpp:192 PiTable pi(y, threads);          -> `piTableGet gen y threads`   (C17 model `PiTable.new`)                [`par = true`]
    pi_lmo_parallel.cpp:73  phi_vector(low, max_b, primes, pi) -> `PhiVec.phiVector` over these very tables (the `phiVec` field of `mkEnv`;
                            pi_lmo5.cpp:67-68 has `Vector<int64_t> phi(primes.size())` all zero instead: `s2Lmo5` does not read the field)
`mu.size()` (= `lpf.size()`) is the size of the array the model of `generate_moebius(y)` returns (`generateMoebius_size`: `y + 1`).
There is no FactorTable in the LMO files: the `factor_` array of the `Env` is empty.

`realLmoEnv_ok` : `LmoOK (realLmoEnv gen threads phiNeg par y) y` for EVERY `y`, thread count, both variants, from `PrimeGenSpec gen` (C18) and
`PhiNegSpec phiNeg (π y)` (C07 / WP close2: the bit-level `PhiCache::phi<-1>`).
-/
import PcProofs.CloseTablesEnv
import PcProofs.GenerateMoebius
import PcProofs.TopLmoLeaves

namespace Pc.Close
open Nat Pc.Hard Pc.Drv Pc.PhiVec Pc.TopLmo
open scoped Nat.Prime ArithmeticFunction.Moebius

/-! ### `generate_moebius(y).size() = y + 1` -/

theorem generateMoebius_size (mx : ℕ) : (generateMoebius mx).size = mx + 1 := by
  rcases Nat.eq_zero_or_pos mx with rfl | hpos
  · rfl
  have hinv0 : MuInv (mx + 1) 2 (Array.replicate (mx + 1) 1) := by
    refine ⟨by simp, fun j _ hj => ?_⟩
    rw [Array.getElem?_replicate, if_pos hj, muVal_two]
  have hsq : Nat.sqrt mx + 1 - 2 + 2 ≤ mx + 1 := by
    have := Nat.sqrt_le_self mx; omega
  obtain ⟨hsz, _⟩ := muSieve_fold_inv (mx + 1) (Nat.sqrt mx + 1 - 2) _ hsq hinv0
  -- reads at `mx + 1` fail, reads at `mx` succeed
  have hnone : (generateMoebius mx)[mx + 1]? = none := by
    rw [generateMoebius_eq, muFinal_fold, if_neg (by omega)]
    exact Array.getElem?_eq_none (by omega)
  have hsome : ((generateMoebius mx)[mx]?).isSome = true := by
    rw [generateMoebius_eq, muFinal_fold]
    have h0 : ∃ v, ((List.range (Nat.sqrt mx + 1 - 2)).foldl (muSieveStep (mx + 1)) (Array.replicate (mx + 1) 1))[mx]? = some v :=
      ⟨_, Array.getElem?_eq_getElem (by omega)⟩
    obtain ⟨v, hv⟩ := h0
    rw [hv]
    split_ifs <;> rfl
  have h1 : (generateMoebius mx).size ≤ mx + 1 := Array.getElem?_eq_none_iff.1 hnone
  have h2 : mx < (generateMoebius mx).size := by
    by_contra hcon
    rw [Array.getElem?_eq_none (by omega)] at hsome
    exact absurd hsome (by simp)
  omega

/-! ### the tables -/

/-- the tables both LMO top-level functions and their file-local `S2` build for `y`
    (`par = false`: pi_lmo5.cpp, `pi = generate_pi(y)`; `par = true`: pi_lmo_parallel.cpp, `PiTable pi(y, threads)`) -/
def realLmoEnv (gen : PrimeGen) (threads : ℤ) (phiNeg : ℕ → ℕ → ℤ) (par : Bool) (y : ℕ) : LmoEnv :=
  let primes := genPrimes gen y
  let mu := generateMoebius y
  let lpf := generateLpf y
  let pi := generatePi y
  { e := mkEnv (fun i => primes.getD i 0) primes.length
      (if par then piTableGet gen y threads else fun n => pi.getD n 0) phiNeg y #[]
    mu := fun m => mu.getD m 0
    lpf := fun m => lpf.getD m 0
    vecSize := mu.size }

/-- `generate_primes(P)` and `generate_pi(P)` are right up to `P` -/
theorem ctorTabPi_ok (gen : PrimeGen) (hg : PrimeGenSpec gen) (P : ℕ) :
    TabOK (fun i => (genPrimes gen P).getD i 0) (genPrimes gen P).length (fun n => (generatePi P).getD n 0) P P where
  le := le_refl _
  zero := rfl
  size := (ctorTab_ok gen hg P 0).size
  prime := (ctorTab_ok gen hg P 0).prime
  out := (ctorTab_ok gen hg P 0).out
  pi := fun n hn => by
    show (generatePi P).getD n 0 = π n
    rw [Array.getD_eq_getD_getElem?, generatePi_correct P n hn]
    rfl

/-- **`LmoOK` for the tables the LMO files build**, every `y`, every thread count, both variants -/
theorem realLmoEnv_ok (gen : PrimeGen) (hg : PrimeGenSpec gen) (threads : ℤ) (phiNeg : ℕ → ℕ → ℤ) (par : Bool) (y : ℕ)
    (hphi : PhiNegSpec phiNeg (π y)) : LmoOK (realLmoEnv gen threads phiNeg par y) y where
  env := by
    cases par
    · exact mkEnv_ok (ctorTabPi_ok gen hg y) hphi _
    · exact mkEnv_ok (ctorTab_ok gen hg y threads) hphi _
  vecSize := generateMoebius_size y
  mu_eq := fun m h1 hm => by
    show (generateMoebius y).getD m 0 = μ m
    rw [Array.getD_eq_getD_getElem?, generateMoebius_correct y m h1 hm]
    rfl
  lpf_eq := fun m h2 hm => by
    show (generateLpf y).getD m 0 = m.minFac
    rw [Array.getD_eq_getD_getElem?, generateLpf_correct y m hm, if_neg (by omega), if_neg (by omega)]
    rfl

/-- `pi_y = primes.size() - 1` of both top-level functions is `π(y)` -/
theorem realLmoEnv_primesSize (gen : PrimeGen) (hg : PrimeGenSpec gen) (threads : ℤ) (phiNeg : ℕ → ℕ → ℤ) (par : Bool) (y : ℕ) :
    (realLmoEnv gen threads phiNeg par y).e.primesSize - 1 = π y := by
  show (genPrimes gen y).length - 1 = π y
  rw [genPrimes_length gen hg]
  omega

end Pc.Close
