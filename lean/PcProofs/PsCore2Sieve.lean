/-
C18 core, second half: `Erat::init` establishes the object invariant, and one `Erat::sieveSegment()` (pre-sieve, `unsetSmaller`,
cross-off by the three algorithms, `unsetLarger` in the last segment) leaves exactly the primes of `[start, stop]` in the array and
re-establishes the invariant for the next segment — `segment_sieve_correct`.
-/
import PcProofs.PsCore2CrossAll
import PcProofs.PsCore2Init
import PcProofs.PsCore2Pre
import PcProofs.PsCore2PreMasks

namespace Pc.PsCore
open Pc.PsWheelSpec
open Pc.Sieve (Bytes bitAt)

/-- **`Erat::init`** establishes the invariant (no sieving prime added yet) -/
theorem einv_init (l1raw start stop kib : ℕ) (h7 : 7 ≤ start) (hss : start ≤ stop) (hstop : stop < 2 ^ 64)
    (hsu : start < 2 ^ 64 - 1) (hk : 16 ≤ kib) (hk2 : kib ≤ 8192)
    (hmed : (eratInit l1raw start stop kib).maxEratMedium < 2 ^ 25) :
    EInv (eratInit l1raw start stop kib) (fun _ => False) := by
  have f := eratInit_facts l1raw start stop kib h7 hss hstop hsu hk hk2
  generalize eratInit l1raw start stop kib = e at f hmed
  obtain ⟨es, em, eb⟩ := f.empty
  have hr7 := byteRemainder_ge start
  have hr36 := byteRemainder_le start
  have hrs := byteRemainder_le_self h7
  have hlow := f.low_eq
  have hub : e.segmentHigh ≤ e.segmentLow + 30 * e.sieve.size + 6 := by
    by_cases hnl : e.segmentHigh < stop
    · have := f.high_not_last hnl; omega
    · have h1 := f.last_fits (by omega)
      have h2 := f.high_le
      obtain ⟨c, hc⟩ := f.low_dvd
      unfold byteRemainder at h1
      omega
  refine
    { low_dvd := f.low_dvd
      start_ge := by rw [f.start_eq]; exact h7
      start_le := by rw [f.start_eq, f.stop_eq]; exact hss
      stop_lt := by rw [f.stop_eq]; exact hstop
      first := fun _ => by rw [f.start_eq]; exact f.start_rem
      low_lt := by rw [f.stop_eq]; omega
      size_pos := by have := f.size_pos; omega
      size_le := f.size_le
      size_mod8 := f.size_mod
      high_le := by rw [f.stop_eq]; exact f.high_le
      high_nl := by rw [f.stop_eq]; exact f.high_not_last
      high_ub := hub
      last_fits := by rw [f.stop_eq]; exact f.last_fits
      l1_pos := f.l1_pos
      medium_lt := hmed
      smallInit := fun h => by rw [f.smallInit_eq]; rw [f.stop_eq] at h; simpa using h
      mediumInit := fun h => by rw [f.mediumInit_eq]; rw [f.stop_eq] at h; simpa using h
      bigInit := fun h => by rw [f.bigInit_eq]; rw [f.stop_eq] at h; simpa using h
      big_pow2 := f.big_pow2
      big_empty := fun _ => eb
      log2_le := f.log2_le
      big_ok := by rw [eb]; exact bigOk_empty _ _
      big_sound := fun q u hh => by rw [eb] at hh; exact absurd hh (not_bigHas_empty _ _ _ _)
      lists := ⟨[], [], ⟨by rw [es]; exact List.Forall₂.nil, fun g hg => by cases hg⟩,
        ⟨by rw [em]; exact List.Forall₂.nil, fun g hg => by cases hg⟩, fun q hq => False.elim hq⟩ }

/-- `Erat::preSieve()`: the pre-sieve buffers and, in the first segment, `unsetSmaller[byteRemainder(start)]` on byte 0 -/
theorem erat_preSieve_spec (e : Erat) (hL : 30 ∣ e.segmentLow)
    (hfirst : e.segmentLow ≤ e.start → e.start = e.segmentLow + byteRemainder e.start) :
    (e.preSieve (preTabsDecoded ())).sieve.size = e.sieve.size ∧
    (∀ k, (e.preSieve (preTabsDecoded ())).sieve.getD k 0 < 256) ∧
    (∀ p, bitAt (e.preSieve (preTabsDecoded ())).sieve p = true ↔
      (p < 8 * e.sieve.size ∧ PreOk (numOf e.segmentLow p) ∧ e.start ≤ numOf e.segmentLow p)) := by
  obtain ⟨p1, p2, p3⟩ := preSieve_spec e.segmentLow hL e.sieve
  unfold Erat.preSieve
  by_cases hf : e.segmentLow ≤ e.start
  · simp only [hf, if_true]
    have hst := hfirst hf
    have hr7 := byteRemainder_ge e.start
    have hr36 := byteRemainder_le e.start
    refine ⟨by rw [Array.size_modify, p1], ?_, ?_⟩
    · intro k
      rw [Pc.Sieve.getD_modify _ 0 k (fun x => x &&& Gen.psUnsetSmaller.getD (byteRemainder e.start) 0) (Nat.zero_and _)]
      split
      · exact lt_of_le_of_lt Nat.and_le_left (p2 k)
      · exact p2 k
    · intro p
      rw [bitAt_unsetSmaller _ 0 _ p hr7 hr36, Bool.and_eq_true, p3 p]
      have hb := bitVals_range (p % 8) (Nat.mod_lt _ (by decide))
      have hnum : numOf e.segmentLow p = e.segmentLow + 30 * (p / 8) + bitVals.getD (p % 8) 0 := rfl
      simp only [Bool.or_eq_true, decide_eq_true_eq]
      constructor
      · rintro ⟨⟨h1, h2⟩, h3⟩
        exact ⟨h1, h2, by omega⟩
      · rintro ⟨h1, h2, h3⟩
        exact ⟨⟨h1, h2⟩, by omega⟩
  · simp only [hf, if_false]
    refine ⟨p1, p2, ?_⟩
    intro p
    rw [p3 p]
    have := numOf_bounds e.segmentLow p
    constructor
    · rintro ⟨h1, h2⟩; exact ⟨h1, h2, by omega⟩
    · rintro ⟨h1, h2, _⟩; exact ⟨h1, h2⟩

end Pc.PsCore
