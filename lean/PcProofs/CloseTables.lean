/-
WP close, item 4 (part 1): the factor-table contracts `FactorOK` (PcProofs/HardS2.lean) / `FactorDOK` (PcProofs/HardD.lean) of the
hard-leaf loop theorems, discharged by C17's constructor theorems `factorTable_correct` / `factorTableD_correct`.

* `toNat_max13`          the cast lemma `(max (13:ℤ) (y+1)).toNat = max 13 (y+1)` (the gap recorded in notes/wp-hard.md)
* `realTmax wide n`      the entry-type maximum `T_MAX` of the factor table `S2_hard_default` / `D_default` allocate for the table bound `n`
                         (S2_hard.cpp:253, 309-320, D.cpp:256, 311-320): `uint16_t` when `n ≤ FactorTable<uint16_t>::max()`, `uint32_t`
                         in the 128-bit instantiation above that; OUTSIDE the domain where the real constructor succeeds (it throws
                         `primecount_error` there) an entry type that is wide enough (`2·⌊√n⌋ + 5`), so that the contracts hold for ALL `n`.
* `factorOK_of_ctor`, `factorDOK_of_ctor`   every `Env` whose `factor` / `factorSize` read the array the constructor model returns meets
                         the contract — remaining hypothesis: `PrimeGenSpec gen` (the primesieve generator, C18).
-/
import PcProofs.HardD
import PcProofs.FactorTableD
import PcModel.Drv.HardLoops

namespace Pc.Close
open Nat Pc.Hard Pc.Drv

/-! ### adapter lemmas -/

/-- **the cast lemma** between `FactorDOK.val` (`max 13 (y + 1) : ℕ`) and `factorTableD_correct` (`(max (13:ℤ) (y + 1)).toNat`) -/
theorem toNat_max13 (y : ℕ) : (max (13 : ℤ) ((y : ℤ) + 1)).toNat = max 13 (y + 1) := by omega

theorem toNat_max1 (y : ℕ) : (max (1 : ℤ) (y : ℤ)).toNat = max 1 y := by omega

/-- reading a written entry of the constructor's array through the driver's accessor -/
theorem hlFactorOf_written {arr : FtArr} {i v : ℕ} (h : arr[i]? = some (some v)) : hlFactorOf arr i = v := by
  unfold hlFactorOf; rw [h]

/-- `Y ≤ FactorTable<T>::max() = (T_MAX − 1)² − 1` gives the `big` field of the contracts -/
theorem sqrt_lt_of_le_ftMax {tmax Y : ℕ} (h3 : 3 ≤ tmax) (h : Y ≤ ftMax tmax) : Nat.sqrt Y + 1 < tmax := by
  unfold ftMax at h
  have h4 : 2 * 2 ≤ (tmax - 1) * (tmax - 1) := Nat.mul_le_mul (by omega) (by omega)
  have : Nat.sqrt Y < tmax - 1 := Nat.sqrt_lt.2 (by omega)
  omega

/-! ### the entry type the callers choose -/

/-- `T_MAX` of the `FactorTable<T>` / `FactorTableD<T>` that `S2_hard_default` / `D_default` allocate for the bound `n` (`y` resp. `z`):
    `uint16_t` if `n ≤ FactorTable<uint16_t>::max()` (always in the 64-bit instantiation), `uint32_t` above that in the 128-bit
    instantiation.  Where the real constructor throws (`n` above the `max()` of the widest type offered) the model continues with an
    entry type that is wide enough; the top-level models never get there (their `y`, `z` are `< 2^63 < FactorTable<uint32_t>::max()`). -/
def realTmax (wide : Bool) (n : ℕ) : ℕ :=
  if n ≤ ftMax 65535 then 65535
  else if wide = true ∧ n ≤ ftMax 4294967295 then 4294967295
  else 2 * Nat.sqrt n + 5

/-- the domain on which the real constructor succeeds -/
def InFtDomain (wide : Bool) (n : ℕ) : Prop := n ≤ ftMax 65535 ∨ (wide = true ∧ n ≤ ftMax 4294967295)

instance (wide : Bool) (n : ℕ) : Decidable (InFtDomain wide n) := by unfold InFtDomain; exact inferInstance

/-- on that domain `realTmax` is literally the choice of S2_hard.cpp:309 / D.cpp:311 (and of the driver's `hlEnv`) -/
theorem realTmax_eq_code {wide : Bool} {n : ℕ} (h : InFtDomain wide n) :
    realTmax wide n = if wide = true ∧ decide (n > ftMax 65535) = true then 4294967295 else 65535 := by
  unfold realTmax
  by_cases h1 : n ≤ ftMax 65535
  · rw [if_pos h1, if_neg (by simp only [decide_eq_true_eq]; omega)]
  · rcases h with h | ⟨hw, h2⟩
    · exact absurd h h1
    · rw [if_neg h1, if_pos ⟨hw, h2⟩, if_pos ⟨hw, by simp only [decide_eq_true_eq]; omega⟩]

theorem realTmax_ge (wide : Bool) (n : ℕ) : 3 ≤ realTmax wide n := by
  unfold realTmax; split_ifs <;> omega

theorem realTmax_odd (wide : Bool) (n : ℕ) : realTmax wide n % 2 = 1 := by
  unfold realTmax; split_ifs <;> omega

/-- the bound fits the chosen entry type, for EVERY `n` -/
theorem le_ftMax_realTmax (wide : Bool) (n : ℕ) : n ≤ ftMax (realTmax wide n) := by
  unfold realTmax
  split_ifs with h1 h2
  · exact h1
  · exact h2.2
  · unfold ftMax
    have h : n < (Nat.sqrt n + 1) * (Nat.sqrt n + 1) := Nat.lt_succ_sqrt n
    have e : (2 * Nat.sqrt n + 5 - 1) = 2 * Nat.sqrt n + 4 := by omega
    rw [e]
    have h2 : (Nat.sqrt n + 1) * (Nat.sqrt n + 1) + 1 ≤ (2 * Nat.sqrt n + 4) * (2 * Nat.sqrt n + 4) := by nlinarith
    omega

/-! ### `FactorOK` / `FactorDOK` from the constructor theorems -/

/-- **FactorTable(y)**: for every `y` within the entry type, every thread count and every environment whose `factor_[]` is the array
    the constructor model `factorTableNew` builds, the contract `FactorOK` of `s2HardThread_eq` holds. -/
theorem factorOK_of_ctor (gen : PrimeGen) (hg : PrimeGenSpec gen) (tmax : ℕ) (htm : 3 ≤ tmax) (hodd : tmax % 2 = 1)
    (y : ℕ) (threads : ℤ) (hy : y ≤ ftMax tmax) :
    ∃ arr, factorTableNew gen tmax (y : ℤ) threads = some arr ∧
      ∀ e : Env, e.factor = hlFactorOf arr → e.factorSize = arr.size → FactorOK e tmax y := by
  obtain ⟨arr, h1, h2, h3⟩ := factorTable_correct gen hg tmax htm hodd (y : ℤ) threads (by exact_mod_cast hy)
  rw [toNat_max1] at h2 h3
  refine ⟨arr, h1, fun e he hs => ⟨?_, ?_, hodd, sqrt_lt_of_le_ftMax htm hy⟩⟩
  · rw [hs, h2]; rfl
  · intro n hn hny
    rw [he]
    exact hlFactorOf_written (h3 n hn (le_trans hny (le_max_right _ _)))

/-- **FactorTableD(y, z)**: the same for `factorTableDNew` and the contract `FactorDOK` of `dThread_eq` -/
theorem factorDOK_of_ctor (gen : PrimeGen) (hg : PrimeGenSpec gen) (tmax : ℕ) (htm : 3 ≤ tmax) (hodd : tmax % 2 = 1)
    (y z : ℕ) (threads : ℤ) (hz : z ≤ ftMax tmax) :
    ∃ arr, factorTableDNew gen tmax (y : ℤ) (z : ℤ) threads = some arr ∧
      ∀ e : Env, e.factor = hlFactorOf arr → e.factorSize = arr.size → FactorDOK e tmax y z := by
  obtain ⟨arr, h1, h2, h3⟩ := factorTableD_correct gen hg tmax htm hodd (y : ℤ) (z : ℤ) threads (by exact_mod_cast hz)
  rw [toNat_max1] at h2 h3
  rw [toNat_max13] at h3
  refine ⟨arr, h1, fun e he hs => ⟨?_, ?_, hodd, sqrt_lt_of_le_ftMax htm hz⟩⟩
  · rw [hs, h2]; rfl
  · intro n hn hnz
    rw [he]
    exact hlFactorOf_written (h3 n hn (le_trans hnz (le_max_right _ _)))

end Pc.Close
