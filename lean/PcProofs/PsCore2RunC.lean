/-
C18 core, second half: the cached small primes (`smallPrimes`, `primePi`) and the count of one segment as the length of
the list read from it.
-/
import PcProofs.PsCore2RunB
import PcProofs.PsCoreCount
import PcGen.PsWheelObl
import Mathlib.Tactic.Linarith

namespace Pc.PsCore
open Pc.PsWheelSpec
open Pc.Sieve (Bytes bitAt cnt)

/-! ### trial division by `2 … 27` decides primality below `28²` -/

theorem isPrimeTD_iff_prime784 (n : ℕ) (hn : n < 784) : isPrimeTD n = true ↔ Nat.Prime n := by
  unfold isPrimeTD
  simp only [Bool.and_eq_true, decide_eq_true_eq, List.all_eq_true, List.mem_range, Bool.or_eq_true, bne_iff_ne, ne_eq]
  constructor
  · rintro ⟨h2, hall⟩
    by_contra hnp
    have hlt : n.minFac < n := (Nat.not_prime_iff_minFac_lt h2).mp hnp
    have hsq : n.minFac ^ 2 ≤ n := Nat.minFac_sq_le_self (by omega) hnp
    have h27 : n.minFac ≤ 27 := by
      by_contra hge
      have : 28 * 28 ≤ n.minFac * n.minFac := Nat.mul_le_mul (by omega) (by omega)
      rw [sq] at hsq; omega
    have h2' := (Nat.minFac_prime (show n ≠ 1 by omega)).two_le
    rcases hall (n.minFac - 2) (by omega) with h | h
    · omega
    · apply h
      rw [show n.minFac - 2 + 2 = n.minFac by omega]
      exact Nat.mod_eq_zero_of_dvd (Nat.minFac_dvd n)
  · intro hp
    refine ⟨hp.two_le, fun d _ => ?_⟩
    by_cases h : n ≤ d + 2
    · left; exact h
    · right
      intro hmod
      have := (Nat.dvd_prime hp).mp (Nat.dvd_of_mod_eq_zero hmod)
      omega

/-! ### `primePi` -/

/-- number of `isPrimeTD` numbers below `m` -/
def cntTD (m : ℕ) : ℕ := ((List.range m).filter isPrimeTD).length

theorem piScan_getD (l : List ℕ) : ∀ (acc i : ℕ), i < l.length →
    (piScan l acc).getD i 0 = acc + ((l.take (i + 1)).filter isPrimeTD).length := by
  induction l with
  | nil => intro acc i h; simp at h
  | cons n ns ih =>
    intro acc i h
    unfold piScan
    cases i with
    | zero =>
      by_cases hp : isPrimeTD n = true <;> simp [hp]
    | succ i =>
      have hi : i < ns.length := by simpa using h
      rw [List.getD_cons_succ, ih _ i hi]
      by_cases hp : isPrimeTD n = true <;> simp [hp] <;> omega

theorem primePi_getD (i : ℕ) (hi : i < 720) : Gen.psPrimePi.getD i 0 = cntTD (i + 1) := by
  rw [Gen.psPrimePi_ok]
  unfold expectedPrimePi cntTD
  rw [piScan_getD _ 0 i (by simpa using hi), List.take_range, Nat.zero_add, Nat.min_eq_left (by omega)]

theorem range_split (a b : ℕ) : List.range (a + b) = List.range a ++ List.range' a b := by
  rw [List.range_eq_range', List.range_eq_range', ← List.range'_append_1, Nat.zero_add]

theorem cntTD_mono {a b : ℕ} (h : a ≤ b) : cntTD a ≤ cntTD b := by
  obtain ⟨c, rfl⟩ := Nat.exists_eq_add_of_le h
  unfold cntTD
  rw [range_split, List.filter_append, List.length_append]; omega

/-- the slice of the filtered range between two running counts -/
theorem filter_slice (N a m : ℕ) (ham : a ≤ m) (hmN : m ≤ N) :
    (((List.range N).filter isPrimeTD).drop (cntTD a)).take (cntTD m - cntTD a) = (List.range' a (m - a)).filter isPrimeTD := by
  obtain ⟨c, rfl⟩ := Nat.exists_eq_add_of_le ham
  obtain ⟨d, rfl⟩ := Nat.exists_eq_add_of_le hmN
  rw [range_split (a + c) d, range_split a c, List.filter_append, List.filter_append, List.append_assoc]
  rw [List.drop_left' (by rfl)]
  have e : cntTD (a + c) - cntTD a = ((List.range' a c).filter isPrimeTD).length := by
    unfold cntTD
    rw [range_split, List.filter_append, List.length_append]; omega
  rw [e, List.take_left' rfl, show a + c - a = c by omega]

theorem smallPrimes_slice (a m : ℕ) (hm : m ≤ 720) :
    IsList ((Gen.psSmallPrimes.drop (cntTD a)).take (cntTD m - cntTD a)) (fun p => Nat.Prime p ∧ a ≤ p ∧ p < m) := by
  rw [Gen.psSmallPrimes_ok]
  unfold expectedSmallPrimes
  by_cases ham : a ≤ m
  · rw [filter_slice 720 a m ham hm]
    refine ⟨List.Pairwise.filter _ (List.pairwise_lt_range'), ?_⟩
    intro p
    rw [List.mem_filter, List.mem_range'_1]
    constructor
    · rintro ⟨⟨h1, h2⟩, h3⟩
      exact ⟨(isPrimeTD_iff_prime784 p (by omega)).mp h3, h1, by omega⟩
    · rintro ⟨h1, h2, h3⟩
      exact ⟨⟨h2, by omega⟩, (isPrimeTD_iff_prime784 p (by omega)).mpr h1⟩
  · have : cntTD m - cntTD a = 0 := by have := cntTD_mono (show m ≤ a by omega); omega
    rw [this, List.take_zero]
    exact isList_nil (fun n ⟨_, h2, h3⟩ => by omega)

theorem smallPrimes_last : Gen.psSmallPrimes.getLastD 0 = 719 := by decide +kernel
theorem smallPrimes_length : Gen.psSmallPrimes.length = 128 := by decide +kernel

theorem cntTD_zero : cntTD 0 = 0 := rfl
theorem cntTD_one : cntTD 1 = 0 := by decide

theorem cntTD_720 : cntTD 720 = 128 := by
  unfold cntTD
  have := Gen.psSmallPrimes_ok
  unfold expectedSmallPrimes at this
  rw [← this]; exact smallPrimes_length

/-- **the `smallPrimes` prefix of `PrimeGenerator`** -/
theorem smallPrefix_isList (start stop : ℕ) (hs : start ≤ 719) :
    IsList ((Gen.psSmallPrimes.drop (if start > 1 then Gen.psPrimePi.getD (start - 1) 0 else 0)).take
        ((if stop < 719 then Gen.psPrimePi.getD stop 0 else Gen.psSmallPrimes.length) -
          (if start > 1 then Gen.psPrimePi.getD (start - 1) 0 else 0)))
      (fun p => Nat.Prime p ∧ start ≤ p ∧ p ≤ stop ∧ p < 720) := by
  have ha : (if start > 1 then Gen.psPrimePi.getD (start - 1) 0 else 0) = cntTD start := by
    split
    · rw [primePi_getD _ (by omega), show start - 1 + 1 = start by omega]
    · have : start = 0 ∨ start = 1 := by omega
      rcases this with h | h <;> rw [h]
      · exact cntTD_zero.symm
      · exact cntTD_one.symm
  have hb : (if stop < 719 then Gen.psPrimePi.getD stop 0 else Gen.psSmallPrimes.length) = cntTD (min (stop + 1) 720) := by
    split
    · rw [primePi_getD _ (by omega), Nat.min_eq_left (by omega)]
    · rw [Nat.min_eq_right (by omega), cntTD_720, smallPrimes_length]
  rw [ha, hb]
  refine (smallPrimes_slice start (min (stop + 1) 720) (Nat.min_le_right _ _)).congr ?_
  intro p
  constructor
  · rintro ⟨h1, h2, h3⟩; exact ⟨h1, h2, by omega, by omega⟩
  · rintro ⟨h1, h2, h3, h4⟩; exact ⟨h1, h2, by omega⟩

/-! ### the count of a segment = the length of the list read from it -/

theorem length_filter_range_cnt (P : ℕ → Bool) (a : ℕ) : ∀ n : ℕ,
    ((List.range n).filter (fun t => P (a + t))).length = cnt P a n := by
  intro n
  induction n with
  | zero => rfl
  | succ n ih =>
    rw [List.range_succ, List.filter_append, List.length_append, ih, Pc.Sieve.cnt_add]
    congr 1
    by_cases h : P (a + n) = true
    · simp [List.filter, h, cnt, Pc.Sieve.sumFrom]
    · simp only [Bool.not_eq_true] at h
      simp [List.filter, h, cnt, Pc.Sieve.sumFrom]

theorem sievePrimes_length (s : Bytes) (hs : ∀ i, s.getD i 0 < 256) (L : ℕ) :
    ∀ (fuel w0 : ℕ), (s.size + 7) / 8 - w0 ≤ fuel →
      (sievePrimes s fuel (8 * w0) (L + 240 * w0)).length = cnt (fun p => bitAt s p) (64 * w0) (64 * ((s.size + 7) / 8 - w0)) := by
  intro fuel
  induction fuel with
  | zero =>
    intro w0 h
    rw [show (s.size + 7) / 8 - w0 = 0 by omega]
    rfl
  | succ fuel ih =>
    intro w0 h
    unfold sievePrimes
    by_cases hlt : 8 * w0 < s.size
    · simp only [hlt, if_true]
      have e1 : 8 * w0 / 8 = w0 := by omega
      have e2 : 8 * w0 + 8 = 8 * (w0 + 1) := by ring
      have e3 : L + 240 * w0 + 240 = L + 240 * (w0 + 1) := by ring
      rw [e1, e2, e3, List.length_append, ih (w0 + 1) (by omega), wordPrimes_spec s hs L w0, List.length_map,
        length_filter_range_cnt (fun p => bitAt s p) (64 * w0) 64]
      rw [show 64 * ((s.size + 7) / 8 - w0) = 64 + 64 * ((s.size + 7) / 8 - (w0 + 1)) by omega, Pc.Sieve.cnt_add,
        show 64 * w0 + 64 = 64 * (w0 + 1) by ring]
    · simp only [hlt, if_false]
      rw [show (s.size + 7) / 8 - w0 = 0 by omega]
      rfl

theorem sieveCount_eq_length (s : Bytes) (hs : ∀ i, s.getD i 0 < 256) (L : ℕ) :
    sieveCount s = (sievePrimes s (s.size / 8 + 1) 0 L).length := by
  have := sievePrimes_length s hs L (s.size / 8 + 1) 0 (by omega)
  simp only [Nat.mul_zero, Nat.add_zero, Nat.sub_zero] at this
  rw [this, sieveCount_spec s hs]

theorem foldl_count_eq (segs : List (ℕ × Bytes)) (hb : ∀ x ∈ segs, ∀ i, x.2.getD i 0 < 256) : ∀ acc : ℕ,
    (segs.map fun x => sieveCount x.2).foldl (· + ·) acc = acc + (runPrimes segs).length := by
  induction segs with
  | nil => intro acc; rfl
  | cons x l ih =>
    intro acc
    rw [List.map_cons, List.foldl_cons, ih (fun y hy => hb y (List.mem_cons_of_mem _ hy)), runPrimes_cons, List.length_append,
      sieveCount_eq_length x.2 (hb x (List.mem_cons_self)) x.1]
    omega

end Pc.PsCore
