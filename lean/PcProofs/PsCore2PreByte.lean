/-
C18 core, PreSieve part 1: the byte lemma.  Byte `j` of the big-number buffer `preBufPeriodic ps len` (the AND over `p ∈ ps`
of the `p`-periodic single-prime buffers, PcModel/PsWheelSpec.lean) is `preByte ps j`: bit `i` set iff no `p ∈ ps` divides
`30 j + B_i`.  Needs only `0 < p` and `p ∣ len` for the `p ∈ ps`.
-/
import PcProofs.PsCore2Defs

namespace Pc.PsCore
open Pc.PsWheelSpec

/-! ### bytes of a number, bitwise -/

theorem byteOfNat_lt (N j : ℕ) : byteOfNat N j < 256 := Nat.mod_lt _ (by decide)

theorem byteOfNat_testBit (N j i : ℕ) :
    (byteOfNat N j).testBit i = (decide (i < 8) && N.testBit (8 * j + i)) := by
  unfold byteOfNat
  rw [show (256 : ℕ) = 2 ^ 8 by norm_num, Nat.testBit_mod_two_pow, Nat.testBit_shiftRight]

theorem testBit_false_of_lt256 {a : ℕ} (ha : a < 256) {i : ℕ} (hi : 8 ≤ i) : a.testBit i = false := by
  apply Nat.testBit_lt_two_pow
  calc a < 2 ^ 8 := by norm_num; exact ha
    _ ≤ 2 ^ i := Nat.pow_le_pow_right (by decide) hi

theorem byte_ext {a b : ℕ} (ha : a < 256) (hb : b < 256) (h : ∀ i < 8, a.testBit i = b.testBit i) : a = b := by
  apply Nat.eq_of_testBit_eq
  intro i
  by_cases hi : i < 8
  · exact h i hi
  · rw [testBit_false_of_lt256 ha (by omega), testBit_false_of_lt256 hb (by omega)]

theorem byteOfNat_and (a b j : ℕ) : byteOfNat (a &&& b) j = byteOfNat a j &&& byteOfNat b j := by
  apply byte_ext (byteOfNat_lt _ _) (lt_of_le_of_lt Nat.and_le_left (byteOfNat_lt _ _))
  intro i hi
  simp only [byteOfNat_testBit, Nat.testBit_and, hi, decide_true, Bool.true_and]

/-- bytes of `a · 256^p + b` for `b < 256^p` -/
theorem byteOfNat_concat (a b p j : ℕ) (hb : b < 2 ^ (8 * p)) :
    byteOfNat (2 ^ (8 * p) * a + b) j = if j < p then byteOfNat b j else byteOfNat a (j - p) := by
  apply byte_ext (byteOfNat_lt _ _) (by split <;> exact byteOfNat_lt _ _)
  intro i hi
  rw [byteOfNat_testBit, Nat.testBit_two_pow_mul_add a hb]
  by_cases hj : j < p
  · rw [if_pos hj, if_pos (by omega), byteOfNat_testBit]
  · rw [if_neg hj, if_neg (by omega), byteOfNat_testBit, show 8 * j + i - 8 * p = 8 * (j - p) + i by omega]

theorem byteOfNat_zero_of_lt (b : ℕ) (hb : b < 256) : byteOfNat b 0 = b := by
  unfold byteOfNat
  simp only [Nat.mul_zero, Nat.shiftRight_zero]
  exact Nat.mod_eq_of_lt hb

theorem byteOfNat_cons (a b j : ℕ) (hb : b < 256) :
    byteOfNat (a * 256 + b) j = if j = 0 then b else byteOfNat a (j - 1) := by
  have h := byteOfNat_concat a b 1 j (by norm_num; exact hb)
  rw [show 2 ^ (8 * 1) * a + b = a * 256 + b by ring] at h
  rw [h]
  by_cases hj : j = 0
  · subst hj
    rw [if_pos (by omega), if_pos rfl, byteOfNat_zero_of_lt b hb]
  · rw [if_neg (by omega), if_neg hj]

theorem pow256 (p : ℕ) : (256 : ℕ) ^ p = 2 ^ (8 * p) := by
  rw [Nat.pow_mul]

theorem byteOfNat_ones (len j : ℕ) (hj : j < len) : byteOfNat (256 ^ len - 1) j = 255 := by
  apply byte_ext (byteOfNat_lt _ _) (by decide)
  intro i hi
  rw [byteOfNat_testBit, pow256, Nat.testBit_two_pow_sub_one, show (255 : ℕ) = 2 ^ 8 - 1 by norm_num,
    Nat.testBit_two_pow_sub_one]
  have : 8 * j + i < 8 * len := by omega
  simp [hi, this]

/-! ### `encodeLE` -/

theorem encodeLE_byte (f : ℕ → ℕ) (hf : ∀ j, f j < 256) :
    ∀ n acc j, byteOfNat (encodeLE f n acc) j = if j < n then f j else byteOfNat acc (j - n)
  | 0, acc, j => by simp [encodeLE]
  | n + 1, acc, j => by
    rw [encodeLE, encodeLE_byte f hf n]
    by_cases h : j < n
    · rw [if_pos h, if_pos (by omega)]
    · rw [if_neg h, byteOfNat_cons _ _ _ (hf n)]
      by_cases h2 : j = n
      · subst h2
        rw [if_pos (by omega), if_pos (by omega)]
      · rw [if_neg (by omega), if_neg (by omega), show j - n - 1 = j - (n + 1) by omega]

theorem encodeLE_lt (f : ℕ → ℕ) (hf : ∀ j, f j < 256) :
    ∀ n acc, encodeLE f n acc < (acc + 1) * 256 ^ n
  | 0, acc => by simp [encodeLE]
  | n + 1, acc => by
    rw [encodeLE]
    have h := encodeLE_lt f hf n (acc * 256 + f n)
    have h2 : (acc * 256 + f n + 1) * 256 ^ n ≤ (acc * 256 + 256) * 256 ^ n :=
      Nat.mul_le_mul_right _ (by have := hf n; omega)
    have h3 : (acc * 256 + 256) * 256 ^ n = (acc + 1) * 256 ^ (n + 1) := by ring
    omega

/-! ### `maskOf` -/

/-- `Σ_{i<n, c i} 2^i` -/
def bitsSum (c : ℕ → Bool) (n : ℕ) : ℕ :=
  (List.range n).foldl (fun acc i => if c i then acc + 2 ^ i else acc) 0

theorem bitsSum_succ (c : ℕ → Bool) (n : ℕ) :
    bitsSum c (n + 1) = 2 ^ n * (if c n then 1 else 0) + bitsSum c n := by
  unfold bitsSum
  rw [List.range_succ, List.foldl_append]
  simp only [List.foldl]
  split <;> simp [Nat.add_comm]

theorem bitsSum_lt (c : ℕ → Bool) : ∀ n, bitsSum c n < 2 ^ n
  | 0 => by simp [bitsSum]
  | n + 1 => by
    rw [bitsSum_succ, Nat.pow_succ]
    have := bitsSum_lt c n
    split <;> omega

theorem bitsSum_testBit (c : ℕ → Bool) : ∀ n i, (bitsSum c n).testBit i = (decide (i < n) && c i)
  | 0, i => by simp [bitsSum]
  | n + 1, i => by
    rw [bitsSum_succ, Nat.testBit_two_pow_mul_add _ (bitsSum_lt c n)]
    by_cases h : i < n
    · rw [if_pos h, bitsSum_testBit c n]
      simp [h, Nat.lt_succ_of_lt h]
    · rw [if_neg h]
      by_cases h2 : i = n
      · subst h2
        cases c i <;> simp
      · have h3 : ¬ i < n + 1 := by omega
        obtain ⟨k, hk⟩ : ∃ k, i - n = k + 1 := ⟨i - n - 1, by omega⟩
        rw [hk]
        cases c n <;> simp [h3, Nat.testBit_succ]

theorem maskOf_eq (keep : ℕ → Bool) : maskOf keep = bitsSum (fun i => keep (bitVals.getD i 0)) 8 := rfl

theorem maskOf_lt (keep : ℕ → Bool) : maskOf keep < 256 := by
  rw [maskOf_eq]; exact bitsSum_lt _ 8

theorem maskOf_testBit (keep : ℕ → Bool) (i : ℕ) :
    (maskOf keep).testBit i = (decide (i < 8) && keep (bitVals.getD i 0)) := by
  rw [maskOf_eq, bitsSum_testBit]

theorem preByte_lt (ps : List ℕ) (j : ℕ) : preByte ps j < 256 := maskOf_lt _

theorem preByte_testBit (ps : List ℕ) (j i : ℕ) :
    (preByte ps j).testBit i = (decide (i < 8) && ps.all fun p => (30 * j + bitVals.getD i 0) % p != 0) := by
  unfold preByte
  rw [maskOf_testBit]

/-! ### periodicity -/

theorem mod_period (j v p len : ℕ) (h : p ∣ len) : (30 * (j % len) + v) % p = (30 * j + v) % p := by
  rw [Nat.add_mod, Nat.mul_mod, Nat.mod_mod_of_dvd _ h, ← Nat.mul_mod, ← Nat.add_mod]

/-- `preByte ps` has every common multiple of `ps` as a period -/
theorem preByte_mod (ps : List ℕ) (len j : ℕ) (h : ∀ p ∈ ps, p ∣ len) : preByte ps (j % len) = preByte ps j := by
  apply byte_ext (preByte_lt _ _) (preByte_lt _ _)
  intro i hi
  rw [preByte_testBit, preByte_testBit]
  congr 1
  rw [Bool.eq_iff_iff, List.all_eq_true, List.all_eq_true]
  constructor
  · intro hh p hp; rw [← mod_period j _ p len (h p hp)]; exact hh p hp
  · intro hh p hp; rw [mod_period j _ p len (h p hp)]; exact hh p hp

/-! ### the geometric series `repNat` -/

/-- `Σ_{i<m} X^i` -/
def geo (X : ℕ) : ℕ → ℕ
  | 0 => 0
  | m + 1 => X * geo X m + 1

theorem geo_spec (Y : ℕ) : ∀ m, Y * geo (Y + 1) m + 1 = (Y + 1) ^ m
  | 0 => by simp [geo]
  | m + 1 => by
    have ih := geo_spec Y m
    rw [geo, pow_succ, ← ih]
    ring

theorem repNat_eq (R p m : ℕ) (hp : 0 < p) : repNat R p (p * m) = R * geo (2 ^ (8 * p)) m := by
  unfold repNat
  rw [pow256, pow256]
  have hX : 1 ≤ 2 ^ (8 * p) := Nat.one_le_two_pow
  have hX2 : 2 ≤ 2 ^ (8 * p) := by
    calc 2 = 2 ^ 1 := by norm_num
      _ ≤ 2 ^ (8 * p) := Nat.pow_le_pow_right (by decide) (by omega)
  obtain ⟨Y, hY⟩ : ∃ Y, 2 ^ (8 * p) = Y + 1 := ⟨2 ^ (8 * p) - 1, by omega⟩
  have hYpos : 0 < Y := by omega
  rw [show 8 * (p * m) = 8 * p * m by ring, Nat.pow_mul, hY, Nat.add_sub_cancel, ← geo_spec Y m, Nat.add_sub_cancel,
    Nat.mul_div_cancel_left _ hYpos]

theorem rep_byte (R p : ℕ) (hp : 0 < p) (hR : R < 2 ^ (8 * p)) :
    ∀ m j, j < p * m → byteOfNat (R * geo (2 ^ (8 * p)) m) j = byteOfNat R (j % p)
  | 0, j, h => by omega
  | m + 1, j, h => by
    rw [geo, show R * (2 ^ (8 * p) * geo (2 ^ (8 * p)) m + 1) = 2 ^ (8 * p) * (R * geo (2 ^ (8 * p)) m) + R by ring,
      byteOfNat_concat _ _ _ _ hR]
    by_cases hj : j < p
    · rw [if_pos hj, Nat.mod_eq_of_lt hj]
    · rw [if_neg hj, rep_byte R p hp hR m (j - p) (by rw [Nat.mul_succ] at h; omega)]
      congr 1
      conv_rhs => rw [show j = (j - p) + p by omega, Nat.add_mod_right]

theorem preBufNat_byte (ps : List ℕ) (len j : ℕ) (hj : j < len) : byteOfNat (preBufNat ps len) j = preByte ps j := by
  unfold preBufNat
  rw [encodeLE_byte _ (preByte_lt ps), if_pos hj]

theorem preBufNat_lt (ps : List ℕ) (len : ℕ) : preBufNat ps len < 2 ^ (8 * len) := by
  have := encodeLE_lt _ (preByte_lt ps) len 0
  rw [← pow256]
  unfold preBufNat
  omega

/-- byte `j` of the `p`-periodic single-prime buffer -/
theorem repNat_pre_byte (p len j : ℕ) (hp : 0 < p) (hd : p ∣ len) (hj : j < len) :
    byteOfNat (repNat (preBufNat [p] p) p len) j = preByte [p] j := by
  obtain ⟨m, rfl⟩ := hd
  rw [repNat_eq _ _ _ hp, rep_byte _ _ hp (preBufNat_lt [p] p) m j hj,
    preBufNat_byte [p] p _ (Nat.mod_lt _ hp)]
  exact preByte_mod [p] p j (by simp)

/-! ### the AND over the primes -/

theorem foldl_and_byte (F : ℕ → ℕ) (j : ℕ) : ∀ (ps : List ℕ) (A : ℕ),
    byteOfNat (ps.foldl (fun acc p => acc &&& F p) A) j = ps.foldl (fun acc p => acc &&& byteOfNat (F p) j) (byteOfNat A j)
  | [], A => rfl
  | p :: ps, A => by
    simp only [List.foldl]
    rw [foldl_and_byte F j ps, byteOfNat_and]

theorem foldl_and_congr (f g : ℕ → ℕ) : ∀ (ps : List ℕ) (A : ℕ), (∀ p ∈ ps, f p = g p) →
    ps.foldl (fun acc p => acc &&& f p) A = ps.foldl (fun acc p => acc &&& g p) A
  | [], A, _ => rfl
  | p :: ps, A, h => by
    simp only [List.foldl]
    rw [h p (by simp)]
    exact foldl_and_congr f g ps _ (fun q hq => h q (by simp [hq]))

theorem foldl_and_testBit (f : ℕ → ℕ) (i : ℕ) : ∀ (ps : List ℕ) (A : ℕ),
    (ps.foldl (fun acc p => acc &&& f p) A).testBit i = (A.testBit i && ps.all fun p => (f p).testBit i)
  | [], A => by simp
  | p :: ps, A => by
    simp only [List.foldl, List.all_cons]
    rw [foldl_and_testBit f i ps, Nat.testBit_and, Bool.and_assoc]

theorem foldl_and_le (f : ℕ → ℕ) : ∀ (ps : List ℕ) (A : ℕ), ps.foldl (fun acc p => acc &&& f p) A ≤ A
  | [], A => le_refl _
  | p :: ps, A => by
    simp only [List.foldl]
    exact le_trans (foldl_and_le f ps _) Nat.and_le_left

/-- **the byte lemma** -/
theorem preBufPeriodic_byte (ps : List ℕ) (len j : ℕ) (hps : ∀ p ∈ ps, 0 < p ∧ p ∣ len) (hj : j < len) :
    byteOfNat (preBufPeriodic ps len) j = preByte ps j := by
  unfold preBufPeriodic
  rw [foldl_and_byte, byteOfNat_ones len j hj,
    foldl_and_congr _ (fun p => preByte [p] j) ps 255
      (fun p hp => repNat_pre_byte p len j (hps p hp).1 (hps p hp).2 hj)]
  apply byte_ext (lt_of_le_of_lt (foldl_and_le _ _ _) (by decide)) (preByte_lt _ _)
  intro i hi
  rw [foldl_and_testBit, preByte_testBit]
  have h255 : (255 : ℕ).testBit i = true := by
    rw [show (255 : ℕ) = 2 ^ 8 - 1 by norm_num, Nat.testBit_two_pow_sub_one]; simp [hi]
  rw [h255]
  simp only [hi, decide_true, Bool.true_and]
  congr 1
  funext p
  rw [preByte_testBit]
  simp [hi]

end Pc.PsCore
