/-
WP safety4 (C16 / C12): magnitude of Gourdon's `C` on ALL levels (kernels `C1` and `C2` of src/gourdon/AC.cpp), signed terms included.
Every leaf `(p_i, m)` of `Cterm` contributes `μ(m)·(π(x/(m p_i)) − i + 2)`, of absolute value `≤ x/(p_i m)`, and `(i, m) ↦ p_i·m` is
injective (`p_i < lpf m`): every sum over any set of levels — hence every partial sum the `C1` / `C2` loops can form level by level —
lies in `[−x·k, x·k]` for `z² < 2^k`.  With `0 ≤ A ≤ 12x` (wp-safety3): `−x·k ≤ A + C ≤ 12x + x·k`.
`T` is UNSIGNED in AC.cpp (`AC_OpenMP((uint64_t) x, …)`, arithmetic mod 2^N), so the result converted back to the signed return type
is correct iff the TRUE value of `A + C` lies in `[−2^(N−1), 2^(N−1))` — this is what the bound delivers (N = 128: every `x ≤ 10^31`).
-/
import PcProofs.SafetyACBound
import PcProofs.SafetyHardBound

namespace Pc.Safety
open Pc.Spec Pc.Hard Finset Classical
open scoped Nat.Prime ArithmeticFunction.Moebius

/-- the leaves `m` of level `i` of `Cterm` -/
noncomputable def cSet (x y z i : ℕ) : Finset ℕ :=
  (Ioc (z / p i) z).filter (fun m =>
      (∀ q, q.Prime → q ∣ m → i < π q ∧ π q ≤ π y) ∧ m ≤ x / (p i * p i) ∧ x / (p i * p i * p i) < m)

theorem Cterm_abs_le (x y z i : ℕ) (hi : 1 ≤ i) :
    |Spec.Cterm x y z i| ≤ ((∑ m ∈ cSet x y z i, x / (p i * m) : ℕ) : ℤ) := by
  unfold Spec.Cterm
  rw [Nat.cast_sum]
  refine le_trans (Finset.abs_sum_le_sum_abs _ _) (Finset.sum_le_sum (fun m hm => ?_))
  rw [mem_filter, mem_Ioc] at hm
  obtain ⟨_, _, h2, h3⟩ := hm
  have hq := Spec.p_pos i
  have hm0 : 0 < m := lt_of_le_of_lt (Nat.zero_le _) h3
  have hmq : 0 < m * p i := Nat.mul_pos hm0 hq
  have e1 : p i ≤ x / (m * p i) := by
    rw [Nat.le_div_iff_mul_le hmq]
    have := (Nat.le_div_iff_mul_le (Nat.mul_pos hq hq)).1 h2
    calc p i * (m * p i) = m * (p i * p i) := by ring
      _ ≤ x := this
  have e2 : i ≤ π (x / (m * p i)) := (Spec.p_le_iff hi).1 e1
  have e3 := pi_le_half (x / (m * p i))
  have e4 := Spec.two_le_p i
  rw [abs_mul, Nat.mul_comm (p i) m]
  have hmu : |μ m| ≤ 1 := ArithmeticFunction.abs_moebius_le_one
  have hv0 : (0 : ℤ) ≤ (π (x / (m * p i)) : ℤ) - i + 2 := by omega
  have hv1 : (π (x / (m * p i)) : ℤ) - i + 2 ≤ ((x / (m * p i) : ℕ) : ℤ) := by omega
  rw [abs_of_nonneg hv0]
  nlinarith [abs_nonneg (μ m)]

/-- **every sum of `Cterm` over a set of levels `i ≥ 1` with `p_i ≤ z` is within `±x·k`** (`z² < 2^k`) -/
theorem C_levels_abs_le (x y z k : ℕ) (S : Finset ℕ) (hS : ∀ i ∈ S, 1 ≤ i ∧ p i ≤ z) (hk : z * z < 2 ^ k) :
    |∑ i ∈ S, Spec.Cterm x y z i| ≤ ((x * k : ℕ) : ℤ) := by
  refine le_trans (Finset.abs_sum_le_sum_abs _ _) ?_
  refine le_trans (Finset.sum_le_sum (fun i hi => Cterm_abs_le x y z i (hS i hi).1)) ?_
  rw [← Nat.cast_sum, Int.ofNat_le]
  refine le_trans (leaf_pairs_le_harm x (z * z) S (cSet x y z) (fun _ => id) (fun i hi => (hS i hi).1)
    (fun _ _ => Set.injOn_id _) ?_ ?_) (harm_le hk)
  · intro i hi m hm
    unfold cSet at hm
    rw [mem_filter, mem_Ioc] at hm
    obtain ⟨⟨h0, _⟩, h1, _, _⟩ := hm
    have hpz := (hS i hi).2
    have hzp : 1 ≤ z / p i := (Nat.le_div_iff_mul_le (Spec.p_pos i)).2 (by omega)
    have hm2 : m ≠ 1 := by omega
    have hpr := Nat.minFac_prime hm2
    have := (h1 _ hpr (Nat.minFac_dvd m)).1
    have h3 := Spec.p_lt_p (hS i hi).1 this
    rw [Spec.p_pi_of_prime hpr] at h3
    exact h3
  · intro i hi m hm
    unfold cSet at hm
    rw [mem_filter, mem_Ioc] at hm
    exact Nat.mul_le_mul (hS i hi).2 hm.1.2

/-- `|C(x, y, z, k₀)| ≤ x·k` for the levels `(k₀, π w]`, `w ≤ z`, `z² < 2^k` -/
theorem C_abs_le (x y z k0 w k : ℕ) (hw : w ≤ z) (hk : z * z < 2 ^ k) : |Spec.C x y z k0 w| ≤ ((x * k : ℕ) : ℤ) := by
  unfold Spec.C
  rw [abs_neg]
  apply C_levels_abs_le x y z k _ _ hk
  intro i hi
  rw [mem_Ioc] at hi
  exact ⟨by omega, le_trans ((Spec.p_le_iff (by omega)).2 hi.2) hw⟩

/-- **`A + C`** (what `AC_OpenMP` returns): `−x·k ≤ A + C ≤ 12x + x·k` -/
theorem AC_value_bounds (x y z k0 w c3 k : ℕ) (hw : w ≤ z) (hk : z * z < 2 ^ k) :
    -((x * k : ℕ) : ℤ) ≤ Spec.A x y w c3 + Spec.C x y z k0 w ∧
      Spec.A x y w c3 + Spec.C x y z k0 w ≤ 12 * (x : ℤ) + ((x * k : ℕ) : ℤ) := by
  have h1 := abs_le.1 (C_abs_le x y z k0 w k hw hk)
  have h2 := A_nonneg x y w c3
  have h3 := A_le x y w c3
  constructor <;> omega

end Pc.Safety

#print axioms Pc.Safety.C_levels_abs_le
#print axioms Pc.Safety.AC_value_bounds
