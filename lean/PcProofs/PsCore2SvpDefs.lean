/-
C18 core, second half: what `SievingPrimes::next()` has to deliver — the primes in `(163, √stop]` in increasing order, then the
sentinel `~0ull`.
-/
import PcProofs.PsCore2Inv

namespace Pc.PsCore

/-- the primes `p` with `163 < p ≤ n`, increasing -/
noncomputable def svPrimes (n : ℕ) : List ℕ := (List.range (n + 1)).filter (fun p => decide (163 < p) && decide (Nat.Prime p))

end Pc.PsCore
