/-
WP top (item 3): the region of pi_lmo_parallel.cpp on ARBITRARY recorded histories (`ok` or `badRun`, nothing else), chains of
work items, and the corresponding statement for the whole function.
-/
import PcProofs.TopLmoPi

namespace Pc.TopLmo
open Nat Finset
open Pc.Hard Pc.LB
open scoped Nat.Prime

/-- every work item the dispenser can hand out is evaluated to the leaves of its window -/
theorem lmoPar_item {σ : Type} (S : SieveOps σ) {L : LmoEnv} {x y c : ℕ}
    (hS : ∀ K, K ≤ π y → ∃ H : SieveSpec S K, ∀ low seg, 240 ∣ low → 240 ∣ seg → 0 < seg → H.segOK low seg)
    (hL : LmoOK L y) (hy : 1 ≤ y) (hyx : y * y ≤ x) (hc : 3 ≤ c ∨ π y ≤ c) :
    ∀ low segs size, GoodItem low segs size → low < x / y →
      lmoParThread S L x y (x / y) c low segs size = .ok (lmoF x y c (low, min (low + size * segs) (x / y))) := by
  intro low segs size hg hlow
  obtain ⟨hK⟩ : Nonempty (∀ K, K ≤ π y → ∃ H : SieveSpec S K, H.segOK low size) :=
    ⟨fun K hK => by
      obtain ⟨H, hH⟩ := hS K hK
      exact ⟨H, hH low size hg.low_al hg.size_al hg.size_pos⟩⟩
  rw [lmoParThread_eq hK hL hy hyx hc (Dvd.dvd.trans (by norm_num) hg.low_al) hg.size_pos hg.segs_pos hlow.le]
  unfold lmoLimit
  rw [lmoF_clip hy hyx]

/-- the region on ANY recorded history either returns `Spec.S2 x y c` or reports that the history is not a complete run of the
    dispenser by workers reporting their values (`badRun`): no table is read out of bounds, nothing divides by zero, no
    segment loop hangs -/
theorem lmoParOpenMP_ok_or_badRun {σ : Type} (S : SieveOps σ) {L : LmoEnv} {x y c : ℕ}
    (hS : ∀ K, K ≤ π y → ∃ H : SieveSpec S K, ∀ low seg, 240 ∣ low → 240 ∣ seg → 0 < seg → H.segOK low seg)
    (lc : Consts) (hlc : lc.WF) (threads : ℕ) (print : Bool)
    (hL : LmoOK L y) (hy : 1 ≤ y) (hyx : y * y ≤ x) (hc : 3 ≤ c ∨ π y ≤ c) (es : List S2.Ev) :
    lmoParOpenMP S L lc x y (x / y) c threads print es = .ok (Spec.S2 x y c) ∨
      lmoParOpenMP S L lc x y (x / y) c threads print es = .error .badRun := by
  cases hr : lmoParOpenMP S L lc x y (x / y) c threads print es with
  | ok v => left; rw [lmoParOpenMP_eq S hS lc hlc threads print hL hy hyx hc es v hr]
  | error er =>
    right
    unfold lmoParOpenMP at hr
    simp only at hr
    rcases replay_ok_or_badRun _ (lmoF x y c) (S2.mkConfig lc (x / y) threads print)
      (S2.mkConfig_al lc hlc (x / y) threads print) (lmoPar_item S hS hL hy hyx hc) es _
      (rinv_init lc hlc x (x / y) threads print) with ⟨s', h⟩ | h
    · rw [h] at hr
      simp only at hr
      split at hr
      · exact absurd hr (by simp)
      · simp only [Except.error.injEq] at hr; rw [hr]
    · rw [h] at hr
      simp only [Except.error.injEq] at hr; rw [hr]

/-- **chunk chains**: the values of any chain of windows from `0` to `x / y` add up to `Spec.S2 x y c` -/
theorem lmo_chunks_total {x y c : ℕ} (hy : 1 ≤ y) (hyx : y * y ≤ x) {cs : List Chunk}
    (hch : Chain 0 (x / y) cs) : sumF (lmoF x y c) cs = Spec.S2 x y c := by
  have h := Chain.sum_additive (lmoF_additive x y c) hch
  have he := (lmoF_additive x y c).empty (x / y)
  rw [h, he, sub_zero, lmoF_full hy hyx]

end Pc.TopLmo
