/-
WP close2, item 4 (first half): the domain restriction `x < 2 ∨ 2401 ≤ x` of the Gourdon theorems reduced to `x < 2 ∨ 16 ≤ x`,
through the whole chain of WP top / WP close (each `…_ge16` is the old theorem with `hsmall` weakened; proof = case split
`x < 2 ∨ 2401 ≤ x` → old theorem, `16 ≤ x < 2401` → `piGourdon_small_closed`).

  piGourdon_total            → piGourdon_total_ge16            (GExec: with the AC hook as hypothesis, WP top)
  piGourdon_total_closed     → piGourdon_total_closed_ge16     (GExecC: no hook)
  piGourdon64_closed         → piGourdon64_closed_ge16
  piGourdon_total_to         → piGourdon_total_to_ge16         (iterator contract up to N only)
  piGourdon64_world          → piGourdon64_world_ge16
  World.pi_gourdon_s         → World.pi_gourdon_s_ge16

NOT covered: `2 ≤ x ≤ 15` (see PcProofs/Close2SmallCore.lean: the clamps degenerate, `y ≤ x^(1/3)`).
-/
import PcProofs.Close2SmallCore
import PcProofs.CloseWorld3

namespace Pc.Top
open Nat Finset Pc.LB Pc.Hard PcGen.ApiConst
open scoped Nat.Prime

/-- `pi_gourdon_64/128(x)` for `16 ≤ x < 20^4` with the AC hook as a hypothesis (`GExec`, WP top's structure) -/
theorem piGourdon_small {σ : Type} (T : Tables σ) {B : ℕ} (hT : TablesOK T B) (pi : ℕ → ℕ) (wide : Bool) (n : ℕ)
    (hx : InType wide (n : ℤ)) (h16 : 16 ≤ n) (hlt : n < 160000) (threads : ℤ) (isPrint : Bool) (r : GRun)
    (hpi : ∀ m : ℕ, m < n → pi m = π m) (hex : GExec T B wide n r) :
    piGourdon T pi wide (n : ℤ) threads isPrint r = .ok (π n : ℤ) ∨
      piGourdon T pi wide (n : ℤ) threads isPrint r = .error (.hard .badRun) := by
  obtain ⟨ay, az, ha⟩ := hex.adm.env
  have hx63 : n < 2 ^ 63 := lt_trans hlt (by norm_num)
  cases wide
  · obtain ⟨p1, p2⟩ := gourdon64_accept n threads ay az r.fo (by omega) hx63 ha
    exact piGourdon_core_small T hT pi false n threads isPrint r h16 hlt (fun m _ hm => hpi m hm) p1 p2 hex.yB hex.reach hex.adm
  · obtain ⟨p1, p2⟩ := gourdon128_accept n threads ay az r.fo (by omega) (lt_trans hlt (by norm_num)) ha (hex.accept rfl)
    exact piGourdon_core_small T hT pi true n threads isPrint r h16 hlt (fun m _ hm => hpi m hm) p1 p2 hex.yB hex.reach hex.adm

/-- the AC hook from the recorded run (`GExecC` ⟹ `GExec`) for every `x ≥ 16` of the argument type -/
theorem GExecC.toGExec_of_sixteen {σ : Type} {T : Tables σ} {B : ℕ} (hT : TablesOK T B) {wide : Bool} {n : ℕ} {r : GRun}
    (hx : InType wide (n : ℤ)) (h16 : 16 ≤ n) (threads : ℤ) (hex : GExecC T B wide n r) : GExec T B wide n r := by
  obtain ⟨ay, az, ha⟩ := hex.adm.env
  have hook : AcLoopEqDef T.t (widthTy wide) n (gY n r.fo.v).toNat
      (gZ n (gY n r.fo.v) (r.fo.w (gY n r.fo.v))).toNat (getK n) r.acC1 r.acSegs := by
    cases wide
    · have hx63 : n < 2 ^ 63 := by unfold InType at hx; simp at hx; exact_mod_cast hx
      obtain ⟨_, p2⟩ := gourdon64_accept n threads ay az r.fo (by omega) hx63 ha
      exact acHook_of_order T hT.valid false n threads r (lt_trans hx63 (by norm_num)) (fun _ => hx63) p2
        (gOrder_of_sixteen false n threads r.fo h16) hex.reach hex.adm.ac
    · have hx127 : n < 2 ^ 127 := by unfold InType at hx; simp at hx; exact_mod_cast hx
      obtain ⟨_, p2⟩ := gourdon128_accept n threads ay az r.fo (by omega) hx127 ha (hex.accept rfl)
      exact acHook_of_order T hT.valid true n threads r hx127 (fun h => absurd h (by simp)) p2
        (gOrder_of_sixteen true n threads r.fo h16) hex.reach hex.adm.ac
  exact ⟨⟨hex.adm.env, hex.adm.phi0, hex.adm.b, hook⟩, hex.accept, hex.yB, hex.reach⟩

/-- `pi_gourdon_64/128(x)` for `16 ≤ x < 20^4`, no hook (`GExecC`) -/
theorem piGourdon_small_closed {σ : Type} (T : Tables σ) {B : ℕ} (hT : TablesOK T B) (pi : ℕ → ℕ) (wide : Bool) (n : ℕ)
    (hx : InType wide (n : ℤ)) (h16 : 16 ≤ n) (hlt : n < 160000) (threads : ℤ) (isPrint : Bool) (r : GRun)
    (hpi : ∀ m : ℕ, m < n → pi m = π m) (hex : GExecC T B wide n r) :
    piGourdon T pi wide (n : ℤ) threads isPrint r = .ok (π n : ℤ) ∨
      piGourdon T pi wide (n : ℤ) threads isPrint r = .error (.hard .badRun) :=
  piGourdon_small T hT pi wide n hx h16 hlt threads isPrint r hpi (hex.toGExec_of_sixteen hT hx h16 threads)

/-- **`piGourdon_total` with `x < 2 ∨ 16 ≤ x`** (WP top's structure `GExec`, hook as hypothesis) -/
theorem piGourdon_total_ge16 {σ : Type} (T : Tables σ) {B : ℕ} (hT : TablesOK T B) (pi : ℕ → ℕ) (wide : Bool) (x : ℤ)
    (hx : InType wide x) (hsmall : x < 2 ∨ 16 ≤ x) (threads : ℤ) (isPrint : Bool) (r : GRun)
    (hpi : ∀ n : ℕ, (n : ℤ) < x → n < 2 ^ 63 → pi n = π n) (hex : 2 ≤ x → GExec T B wide x.toNat r) :
    piGourdon T pi wide x threads isPrint r = .ok (π x.toNat : ℤ) ∨
      piGourdon T pi wide x threads isPrint r = .error (.hard .badRun) := by
  by_cases hold : x < 2 ∨ 2401 ≤ x
  · exact piGourdon_total T hT pi wide x hx hold threads isPrint r hpi hex
  · obtain ⟨n, rfl⟩ := Int.eq_ofNat_of_zero_le (show 0 ≤ x by omega)
    have hex' := hex (by omega)
    rw [Int.toNat_natCast] at hex' ⊢
    exact piGourdon_small T hT pi wide n hx (by omega) (by omega) threads isPrint r
      (fun m hm => hpi m (by exact_mod_cast hm) (by omega)) hex'

/-- **`piGourdon_total_closed` with `x < 2 ∨ 16 ≤ x`** (no hook) -/
theorem piGourdon_total_closed_ge16 {σ : Type} (T : Tables σ) {B : ℕ} (hT : TablesOK T B) (pi : ℕ → ℕ) (wide : Bool) (x : ℤ)
    (hx : InType wide x) (hsmall : x < 2 ∨ 16 ≤ x) (threads : ℤ) (isPrint : Bool) (r : GRun)
    (hpi : ∀ n : ℕ, (n : ℤ) < x → n < 2 ^ 63 → pi n = π n) (hex : 2 ≤ x → GExecC T B wide x.toNat r) :
    piGourdon T pi wide x threads isPrint r = .ok (π x.toNat : ℤ) ∨
      piGourdon T pi wide x threads isPrint r = .error (.hard .badRun) := by
  by_cases hold : x < 2 ∨ 2401 ≤ x
  · exact piGourdon_total_closed T hT pi wide x hx hold threads isPrint r hpi hex
  · obtain ⟨n, rfl⟩ := Int.eq_ofNat_of_zero_le (show 0 ≤ x by omega)
    have hex' := hex (by omega)
    rw [Int.toNat_natCast] at hex' ⊢
    exact piGourdon_small_closed T hT pi wide n hx (by omega) (by omega) threads isPrint r
      (fun m hm => hpi m (by exact_mod_cast hm) (by omega)) hex'

/-- `piGourdon64_closed` (PcProofs/CloseTop.lean) with `x < 2 ∨ 16 ≤ x`: nested `pi_noprint` calls by the dispatcher -/
theorem piGourdon64_closed_ge16 {σ : Type} (T : Tables σ) {B : ℕ} (hT : TablesOK T B) (pi : ℕ → ℕ) (x : ℤ)
    (hx : x < 2 ^ 63) (hsmall : x < 2 ∨ 16 ≤ x) (threads : ℤ) (isPrint : Bool) (r : GRun)
    (hpi : ∀ n : ℕ, (n : ℤ) < x → n < 2 ^ 63 → pi n = π n) (hex : 2 ≤ x → GExecC T B false x.toNat r) :
    piGourdon T pi false x threads isPrint r = .ok (π x.toNat : ℤ) ∨
      piGourdon T pi false x threads isPrint r = .error (.hard .badRun) :=
  piGourdon_total_closed_ge16 T hT pi false x (by unfold InType; simpa using hx) hsmall threads isPrint r hpi hex

end Pc.Top

namespace Pc.Top
open Nat Finset Pc.LB Pc.Hard PcGen.ApiConst Pc.PhiAlgProofs Pc.ClosePhi
open scoped Nat.Prime

/-- **`piGourdon_total_to` with `x < 2 ∨ 16 ≤ x`** (iterator contract up to `N` only) -/
theorem piGourdon_total_to_ge16 {σ : Type} (T : Tables σ) {B N : ℕ} (hT : TablesOK (T.withIt (P2L.patch T.it N)) B)
    (hit : P2L.IterSpecTo T.it N) (hN : 2 ^ 64 - 2 ^ 32 ≤ N) (pi : ℕ → ℕ) (wide : Bool) (x : ℤ)
    (hx : InType wide x) (hsmall : x < 2 ∨ 16 ≤ x) (threads : ℤ) (isPrint : Bool) (r : GRun)
    (hpi : ∀ n : ℕ, (n : ℤ) < x → n < 2 ^ 63 → pi n = π n) (hex : 2 ≤ x → GExecC T B wide x.toNat r) :
    piGourdon T pi wide x threads isPrint r = .ok (π x.toNat : ℤ) ∨
      piGourdon T pi wide x threads isPrint r = .error (.hard .badRun) := by
  have hx127 : x.toNat < 2 ^ 127 := by
    have : x < 2 ^ 127 := by
      unfold InType at hx
      cases wide
      · simp at hx; omega
      · simpa using hx
    omega
  have hb : ∀ y, P2L.bOpenMP T.lc T.it pi x.toNat y r.b = P2L.bOpenMP T.lc (P2L.patch T.it N) pi x.toNat y r.b :=
    fun y => P2L.bOpenMP_patch_all hit (two63_le_of hN) (isqrtN_le_of_lt hx127 hN)
      (fun n h1 h2 => hpi n (by omega) (by unfold two63 at h1; exact h1)) T.lc y r.b
  rw [piGourdon_withIt T (P2L.patch T.it N) pi wide x threads isPrint r hb]
  exact piGourdon_total_closed_ge16 (T.withIt (P2L.patch T.it N)) hT pi wide x hx hsmall threads isPrint r hpi
    (fun h => (hex h).withIt _)

/-- **`piGourdon64_world` with `x < 2 ∨ 16 ≤ x`** -/
theorem piGourdon64_world_ge16 {σ : Type} (T : Tables σ) {B N : ℕ} (hT : TablesOK (T.withIt (P2L.patch T.it N)) B)
    (hit : P2L.IterSpecTo T.it N) (hN : 2 ^ 64 - 2 ^ 32 ≤ N)
    (P : ℕ → ℕ → PhiTop) (order : ℕ → ℕ → List ℕ) (sched : ℕ → ℕ → ℕ → PhiCacheL1 × ℕ) (pi : ℕ → ℕ) (x : ℤ)
    (hx : x < 2 ^ 63) (hsmall : x < 2 ∨ 16 ≤ x) (threads : ℤ) (isPrint : Bool) (r : GRun)
    (hphi : ∀ n : ℕ, (n : ℤ) < x → n < 2 ^ 63 → PhiExec P order sched n)
    (hrec : NestedByDispatcherW T B P order sched pi x)
    (hex : 2 ≤ x → GExecC T B false x.toNat r) :
    piGourdon T pi false x threads isPrint r = .ok (π x.toNat : ℤ) ∨
      piGourdon T pi false x threads isPrint r = .error (.hard .badRun) :=
  piGourdon_total_to_ge16 T hT hit hN pi false x (by unfold InType; simpa using hx) hsmall threads isPrint r
    (nested_pi_eq_world T hT hit hN P order sched pi x hphi hrec) hex

end Pc.Top

namespace Pc.Close
open Nat Pc.Hard Pc.PhiVec Pc.Top Pc.PsCore Pc.LB PcGen.ApiConst Pc.PhiAlgProofs Pc.ClosePhi
open scoped Nat.Prime

namespace World

/-- **`World.pi_gourdon_s` with `x < 2 ∨ 16 ≤ x`**: `pi_gourdon_64(x)` / `pi_gourdon_128(x)` over the world's real tables -/
theorem pi_gourdon_s_ge16 (W : World) {B : ℕ} (h : W.OK B) (hB : B < 2 ^ 32) (c : Sieve.Cfg) (f : Sieve.StopFn) (pi : ℕ → ℕ)
    (wide : Bool) (x : ℤ) (hx : InType wide x) (hsmall : x < 2 ∨ 16 ≤ x) (threads : ℤ) (isPrint : Bool) (r : GRun)
    (hphi : ∀ n : ℕ, (n : ℤ) < x → maxCached < n → n ≤ meisselMax → W.PhiRunOK n)
    (hrec : W.NestedS c f B pi x)
    (hex : 2 ≤ x → GExecC (W.tablesS c f wide) B wide x.toNat r) :
    piGourdon (W.tablesS c f wide) pi wide x threads isPrint r = .ok (π x.toNat : ℤ) ∨
      piGourdon (W.tablesS c f wide) pi wide x threads isPrint r = .error (.hard .badRun) :=
  piGourdon_total_to_ge16 (W.tablesS c f wide) (W.tablesS_ok h hB c f wide) (W.it_specTo h) maxPrime64_ge pi wide x hx hsmall threads
    isPrint r (W.nested_s h hB c f pi x hphi hrec) hex

end World
end Pc.Close

#print axioms Pc.Top.piGourdon_small
#print axioms Pc.Top.piGourdon_small_closed
#print axioms Pc.Top.piGourdon_total_ge16
#print axioms Pc.Top.piGourdon_total_closed_ge16
#print axioms Pc.Top.piGourdon64_closed_ge16
#print axioms Pc.Top.piGourdon_total_to_ge16
#print axioms Pc.Top.piGourdon64_world_ge16
#print axioms Pc.Close.World.pi_gourdon_s_ge16
