/-
WP close, step 5: THE WORLD — every object the composed functions use is the model of the real constructor / object:

  * primes of every table: `genTo l1raw kib bnd` = `Pc.PsCore.generatePrimes` (the C18 model of the bundled primesieve) on every range
    `[lo, hi)` with `hi ≤ bnd ≤ 2^64` (the C++ type of `stop` is `uint64_t`; beyond, the defining filter only makes the function total);
  * `T.t`, `T.hardEnv`, `T.dEnv`: `realNT` / `realHardEnv` / `realDEnv` = generate_primes, PiTable, FactorTable, FactorTableD, phi_vector by the
    C17 constructor models over that generator (step 4);
  * `T.it`: `It.realIter (It.coreEnvTo … bnd)` = `primesieve::iterator` (model of WP iter) over the same sieving core (step 2);
  * `T.lc`: the generated load-balancer constants; `T.S`: the reference sieve reading the constructor-built prime table (the bit-exact
    `class Sieve` meets `SieveSpec` only for segments with `seg/30*8 < 2^32`, `TablesOK.sieve` asks every segment — see notes);
  * `phi`: `phiReal` over `realTop` = phi.cpp with the real PhiTiny tables, the real PiTable constructor, the real `pix_upper` table branch.

`World.tables_ok` proves `TablesOK` for this bundle (with the iterator patched above the last 64-bit prime, where no function asks), and
the three theorems at the end are the entry points over it.
-/
import PcProofs.CloseWorldStep
import PcProofs.CloseIterPrime
import PcProofs.CloseTablesGen
import PcProofs.CloseStore3

namespace Pc.Close
open Nat Pc.Hard Pc.PhiVec Pc.Top Pc.PsCore Pc.LB PcGen.ApiConst Pc.PhiAlgProofs Pc.ClosePhi
open scoped Nat.Prime

/-- the primesieve generator model of C18 on every range `[lo, hi)` with `hi ≤ bnd`; the defining filter beyond (only to make the function
    total: `PrimeGenSpec` quantifies ranges of any size).  `bnd = 2^64` is the whole domain of the real function (`stop` is a `uint64_t`). -/
def genTo (l1raw kib bnd : ℕ) : PrimeGen := fun lo hi =>
  if hi = 0 then [] else
  if hi ≤ bnd then generatePrimes (preTabsDecoded ()) l1raw lo (hi - 1) kib
  else (List.range' lo (hi - lo)).filter (fun q => decide q.Prime)

/-- `PrimeGenSpec` (hypothesis of every C17 constructor theorem) for the real generator model, under the ONE float assumption of C18 for
    the windows below `bnd` (a theorem for `bnd ≤ 2^50`) -/
theorem genTo_spec (l1raw kib bnd : ℕ) (hb : bnd ≤ 2 ^ 64) (hfl : ∀ a b, b < bnd → FloatOk l1raw (max 721 a) b kib)
    (hk : 16 ≤ kib) (hk2 : kib ≤ 8192) : PrimeGenSpec (genTo l1raw kib bnd) := by
  intro lo hi
  unfold genTo
  by_cases h0 : hi = 0
  · rw [if_pos h0]
    exact ⟨List.Pairwise.nil, fun q => by simp only [List.not_mem_nil, false_iff]; omega⟩
  rw [if_neg h0]
  by_cases h64 : hi ≤ bnd
  · rw [if_pos h64, generator_contract l1raw lo (hi - 1) kib (by omega) hk hk2 (hfl lo (hi - 1) (by omega))]
    refine ⟨List.Pairwise.filter _ List.pairwise_lt_range, fun q => ?_⟩
    simp only [List.mem_filter, List.mem_range, Bool.and_eq_true, decide_eq_true_eq]
    constructor
    · rintro ⟨h1, h2, h3⟩; exact ⟨h2, by omega, h3⟩
    · rintro ⟨h1, h2, h3⟩; exact ⟨by omega, h1, h3⟩
  · rw [if_neg h64]
    refine ⟨List.Pairwise.filter _ List.pairwise_lt_range', fun q => ?_⟩
    simp only [List.mem_filter, List.mem_range'_1, decide_eq_true_eq]
    constructor
    · rintro ⟨⟨h1, h2⟩, h3⟩; exact ⟨h1, by omega, h3⟩
    · rintro ⟨h1, h2, h3⟩; exact ⟨⟨h1, by omega⟩, h3⟩

/-- everything a run of the library fixes besides the recorded parallel regions and the floats of the parameter derivation -/
structure World where
  /-- primesieve configuration: L1 cache size as detected, sieve size in KiB -/
  l1raw : ℕ
  kib : ℕ
  /-- the sieving-core model is used for every window below `bnd` (`2^64`: the whole domain, under the float assumption `OK.float`;
      `2^50`: no assumption left) -/
  bnd : ℕ
  /-- `double` outcomes of IteratorHelper (any), batch sizes of `fillNextPrimes` (any), stop hints of the iterators (any `≤ 2^64-1`) -/
  fl : It.Floats
  batch : ℕ → ℕ
  hp : ℕ → ℕ
  hn : ℕ → ℕ
  /-- thread count handed to the table constructors -/
  tthreads : ℤ
  /-- `PhiCache::phi<-1>` as `phi_vector` calls it (C07: `phiNegSpec_of_phiRecAlg`) -/
  phiNeg : ℕ → ℕ → ℤ
  /-- size of the shared prime / π table of the model (`T.t`; the real functions allocate exactly what they need) -/
  N : ℕ
  /-- phi.cpp: thread counts of the PiTable constructor, the `pix_upper` double formula, `pi_noprint` (never consulted at the two call
      sites), the stop hint `(uint64_t)(n * (log n + log log n))` of `generate_n_primes(a)` (a float; any value) — per call `(x, a)` -/
  pthreads : ℕ → ℕ → ℤ
  f : ℕ → ℕ
  piFn : ℕ → ℕ → ℕ → ℕ
  nthHint : ℕ → ℕ → ℕ
  /-- phi.cpp: reduction order and cache objects per call -/
  order : ℕ → ℕ → List ℕ
  sched : ℕ → ℕ → ℕ → PhiCacheL1 × ℕ

namespace World

def gen (W : World) : PrimeGen := genTo W.l1raw W.kib W.bnd
def env (W : World) : It.Env := It.coreEnvTo W.fl W.batch W.l1raw W.kib W.bnd
/-- `primesieve::iterator` over the real sieving core -/
def it (W : World) : P2L.Iter := It.realIter W.env W.hp W.hn
/-- the tables of one run (`wide` = entry type of FactorTable / FactorTableD: the 64-bit resp. 128-bit instantiation) -/
def tables (W : World) (wide : Bool) : Tables RefSieve :=
  realTables (refSieve (realNT W.gen W.tthreads W.N).p) W.gen W.tthreads W.phiNeg wide W.N W.it
/-- phi.cpp:378 `generate_n_primes<int32_t>(a)` = StorePrimes.hpp `store_n_primes` over the iterator model over the same sieving core
    (`It.pcGenerateNPrimes`; proved: `It.genNPrimesFn_spec`) -/
def prime (W : World) (x a : ℕ) : ℕ → ℕ := It.genNPrimesFn W.env (2 ^ 31 - 1) a (W.nthHint x a)
/-- phi.cpp's tables per call -/
def P (W : World) : ℕ → ℕ → PhiTop :=
  fun x a => realTop W.gen (W.pthreads x a) W.f (W.piFn x a) (W.prime x a) (Nat.sqrt x)
/-- `phi(x, a, threads)` of phi.cpp -/
def phi (W : World) : ℕ → ℕ → ℕ := phiReal W.P W.order W.sched

/-- the hypotheses about the world that are NOT about a particular run: the configuration range of primesieve, the one float
    assumption of the sieving core for the windows below `bnd` (a theorem for `bnd ≤ 2^50`: `ok_of_bnd50`), hints inside `uint64_t`, and the C07 conclusion for `phi_vector`'s calls -/
structure OK (W : World) (B : ℕ) : Prop where
  kib_lo : 16 ≤ W.kib
  kib_hi : W.kib ≤ 8192
  bnd_le : W.bnd ≤ 2 ^ 64
  float : ∀ a b, b < W.bnd → FloatOk W.l1raw (max 721 a) b W.kib
  hints : ∀ n, W.hn n ≤ It.umax
  size : B ≤ W.N
  phiVec : PhiNegSpec W.phiNeg (π B)

theorem gen_spec (W : World) {B : ℕ} (h : W.OK B) : PrimeGenSpec W.gen :=
  genTo_spec _ _ _ h.bnd_le h.float h.kib_lo h.kib_hi

theorem it_specTo (W : World) {B : ℕ} (h : W.OK B) : P2L.IterSpecTo W.it It.maxPrime64 :=
  It.realIter_specTo_maxPrime64 W.env (It.coreEnvTo_genSpec _ _ _ _ _ h.bnd_le h.float h.kib_lo h.kib_hi) W.hp W.hn h.hints

theorem maxPrime64_ge : 2 ^ 64 - 2 ^ 32 ≤ It.maxPrime64 := by unfold It.maxPrime64; norm_num

/-- **`TablesOK` for the world** (iterator patched above the last 64-bit prime — the composed functions never ask there,
    `piGourdon_withIt` / `piDeleglieRivat_withIt`) -/
theorem tables_ok (W : World) {B : ℕ} (h : W.OK B) (wide : Bool) :
    TablesOK ((W.tables wide).withIt (P2L.patch (W.tables wide).it It.maxPrime64)) B :=
  realTablesRef_ok W.gen W.tthreads W.phiNeg wide W.N (P2L.patch W.it It.maxPrime64) B h.size (W.gen_spec h) h.phiVec
    (P2L.patch_spec (W.it_specTo h))

/-- what one level `pi(n)` of the dispatcher needs about its `phi` call (only for `30719 < n ≤ 10^8`):
    `lit` LITERATURE / crude bound on the double formula of `pix_upper`; `order` OpenMP reduction; `cache` contents of the PhiCache objects
    (`init_cache` not modelled).  The prime vector `generate_n_primes(a)` is NOT a hypothesis: `It.genNPrimesFn_spec`. -/
structure PhiRunOK (W : World) (n : ℕ) : Prop where
  lit : ∀ a, a ≤ π (Nat.sqrt n) → π n ≤ W.f n ∨ a < W.f n
  order : ∀ a, (W.order n a).Perm (List.range' 9 (a - 8))
  cache : ∀ a i, 9 ≤ i → i ≤ a → CacheOK (W.sched n a i)

theorem env_spec (W : World) {B : ℕ} (h : W.OK B) : It.GenSpec W.env :=
  It.coreEnvTo_genSpec _ _ _ _ _ h.bnd_le h.float h.kib_lo h.kib_hi

theorem phiExec (W : World) {B : ℕ} (h : W.OK B) (n : ℕ) (hn : maxCached < n → n ≤ meisselMax → W.PhiRunOK n) :
    PhiExec W.P W.order W.sched n := by
  have l1 : legendreMax = 100000 := rfl
  have l2 : meisselMax = 100000000 := rfl
  have l0 : maxCached = 30719 := rfl
  by_cases hr : maxCached < n ∧ n ≤ meisselMax
  · have hh := hn hr.1 hr.2
    have hs : Nat.sqrt n ≤ 30719 := sqrt_le_maxCached (by omega)
    have key : ∀ a, a ≤ π (Nat.sqrt n) →
        CallRunOK (W.P n a) (W.order n a) (W.sched n a) n a := by
      intro a ha
      obtain ⟨_, g0, g1⟩ := It.genNPrimesFn_spec W.env (W.env_spec h) (2 ^ 31 - 1) a (W.nthHint n a) (Nat.sqrt n) ha
        (by unfold It.umax; omega) (by omega)
      exact { top := callOK_realTop W.gen (W.gen_spec h) _ W.f _ _ n a ha (fun _ => hh.lit a ha) (fun h' => by omega) g0 g1
              order := hh.order a, cache := hh.cache a }
    exact { legendre := fun _ _ => key _ le_rfl, meissel := fun _ _ => key _ (pi_iroot3_le_pi_sqrt n) }
  · exact ⟨fun h1 h2 => absurd ⟨h1, by omega⟩ hr, fun h1 h2 => absurd ⟨by omega, h2⟩ hr⟩

/-- the nested `pi_noprint(n)` calls are computed by the dispatcher over the same world -/
def Nested (W : World) (B : ℕ) (pi : ℕ → ℕ) (x : ℤ) : Prop :=
  NestedByDispatcherW (W.tables false) B W.P W.order W.sched pi x

/-! ### the entry points over the world -/

theorem pi_api (W : World) {B : ℕ} (h : W.OK B) (pi : ℕ → ℕ) (x : ℤ) (hx : x < 2 ^ 127) (threads : ℤ) (isPrint : Bool)
    (r : ApiRun)
    (hphi : ∀ n : ℕ, (n : ℤ) ≤ x → maxCached < n → n ≤ meisselMax → W.PhiRunOK n)
    (hrec : W.Nested B pi x)
    (hex : (maxCached : ℤ) < x → ApiExecC (W.tables false) B (decide ((PiApi.int64Max : ℤ) < x)) x.toNat r) :
    piApi128 (W.tables false) W.phi pi x threads isPrint r = .ok (π x.toNat : ℤ) ∨
      piApi128 (W.tables false) W.phi pi x threads isPrint r = .error (.hard .badRun) :=
  piApi128_world (W.tables false) (W.tables_ok h false) (W.it_specTo h) maxPrime64_ge W.P W.order W.sched pi x hx threads isPrint r
    (fun n hn _ => W.phiExec h n (hphi n hn)) hrec hex

theorem pi_gourdon_64 (W : World) {B : ℕ} (h : W.OK B) (pi : ℕ → ℕ) (x : ℤ) (hx : x < 2 ^ 63) (hsmall : x < 2 ∨ 2401 ≤ x)
    (threads : ℤ) (isPrint : Bool) (r : GRun)
    (hphi : ∀ n : ℕ, (n : ℤ) < x → maxCached < n → n ≤ meisselMax → W.PhiRunOK n)
    (hrec : W.Nested B pi x)
    (hex : 2 ≤ x → GExecC (W.tables false) B false x.toNat r) :
    piGourdon (W.tables false) pi false x threads isPrint r = .ok (π x.toNat : ℤ) ∨
      piGourdon (W.tables false) pi false x threads isPrint r = .error (.hard .badRun) :=
  piGourdon64_world (W.tables false) (W.tables_ok h false) (W.it_specTo h) maxPrime64_ge W.P W.order W.sched pi x hx hsmall threads
    isPrint r (fun n hn _ => W.phiExec h n (hphi n hn)) hrec hex

theorem pi_deleglise_rivat_64 (W : World) {B : ℕ} (h : W.OK B) (pi : ℕ → ℕ) (x : ℤ) (hx : x < 2 ^ 63)
    (threads : ℤ) (isPrint : Bool) (r : DrRun)
    (hphi : ∀ n : ℕ, (n : ℤ) < x → maxCached < n → n ≤ meisselMax → W.PhiRunOK n)
    (hrec : W.Nested B pi x)
    (hex : 2 ≤ x → DrExec (W.tables false) B false x.toNat r) :
    piDeleglieRivat (W.tables false) pi false x threads isPrint r = .ok (π x.toNat : ℤ) ∨
      piDeleglieRivat (W.tables false) pi false x threads isPrint r = .error (.hard .badRun) :=
  piDeleglieRivat64_world (W.tables false) (W.tables_ok h false) (W.it_specTo h) maxPrime64_ge W.P W.order W.sched pi x hx threads
    isPrint r (fun n hn _ => W.phiExec h n (hphi n hn)) hrec hex

end World
end Pc.Close
