/-
WP safety4 (C16 / C12): the VALUE bound behind `thread.sum = (T) sum`, `sum_ += thread.sum` and the return conversion of
`S2_hard_OpenMP` / `D_OpenMP`.

Every hard leaf `(p_b, m)` (`p_b < lpf m`) contributes `± φ(x/(p_b m), b − 1)`, of absolute value `≤ x/(p_b m)`; the map
`(b, m) ↦ p_b·m` is INJECTIVE (`p_b` is the least prime factor of the product), so the absolute sum of ALL hard leaves — a
majorant of every chunk value and of every partial sum of chunk values, in any order — is at most
`Σ_{n ≤ N} ⌊x/n⌋ ≤ x·k` for `N < 2^k` (dyadic blocks; `N` = the largest product `p_b·m`).
This is the honest elementary bound (`≈ x·log₂ N`; the true size is `O(x)` but that needs a Mertens-type estimate).
-/
import PcProofs.HardS2Total
import PcProofs.HardDDefs

namespace Pc.Hard
open Nat Finset
open scoped Nat.Prime ArithmeticFunction.Moebius

local notation "p" => Spec.p
local notation "φ" => Spec.phi

/-! ### the harmonic sum in dyadic blocks -/

theorem harm_pow (x : ℕ) : ∀ k, ∑ n ∈ Ioc 0 (2 ^ k - 1), x / n ≤ x * k := by
  intro k
  induction k with
  | zero => simp
  | succ k ih =>
    have h2 : 2 ^ (k + 1) = 2 ^ k + 2 ^ k := by rw [pow_succ]; omega
    have hpos : 0 < 2 ^ k := Nat.pos_of_ne_zero (by positivity)
    rw [← Finset.sum_Ioc_consecutive (fun n => x / n) (Nat.zero_le (2 ^ k - 1)) (by omega : 2 ^ k - 1 ≤ 2 ^ (k + 1) - 1)]
    have hblock : ∑ n ∈ Ioc (2 ^ k - 1) (2 ^ (k + 1) - 1), x / n ≤ x := by
      have h1 : ∀ n ∈ Ioc (2 ^ k - 1) (2 ^ (k + 1) - 1), x / n ≤ x / 2 ^ k := by
        intro n hn
        rw [mem_Ioc] at hn
        exact Nat.div_le_div_left (by omega) hpos
      have h3 := Finset.sum_le_card_nsmul _ _ _ h1
      rw [Nat.card_Ioc, smul_eq_mul] at h3
      have h4 : 2 ^ (k + 1) - 1 - (2 ^ k - 1) = 2 ^ k := by omega
      rw [h4] at h3
      exact le_trans h3 (Nat.mul_div_le x (2 ^ k))
    rw [Nat.mul_succ]
    omega

/-- `Σ_{n ≤ N} ⌊x/n⌋ ≤ x·k` for `N < 2^k` -/
theorem harm_le {x N k : ℕ} (h : N < 2 ^ k) : ∑ n ∈ Ioc 0 N, x / n ≤ x * k := by
  refine le_trans (Finset.sum_le_sum_of_subset ?_) (harm_pow x k)
  intro n hn
  rw [mem_Ioc] at hn ⊢
  omega

/-! ### `(b, m) ↦ p_b·m` is injective on leaves -/

theorem minFac_mul_of_lt {q m : ℕ} (hq : q.Prime) (h : q < m.minFac) : (q * m).minFac = q := by
  have hm0 : m ≠ 0 := by
    rintro rfl
    rw [Nat.minFac_zero] at h
    have := hq.two_le; omega
  have hne : q * m ≠ 1 := by
    have := hq.two_le
    have : 2 * 1 ≤ q * m := Nat.mul_le_mul this (Nat.pos_of_ne_zero hm0)
    omega
  have hp := Nat.minFac_prime hne
  have h1 : (q * m).minFac ≤ q := Nat.minFac_le_of_dvd hq.two_le (dvd_mul_right q m)
  rcases (Nat.Prime.dvd_mul hp).1 (Nat.minFac_dvd (q * m)) with hd | hd
  · exact (Nat.prime_dvd_prime_iff_eq hp hq).1 hd
  · have := Nat.minFac_le_of_dvd hp.two_le hd
    omega

/-- the absolute-value majorant of any family of leaves `(b, g b i)`, `i ∈ I b`, with `p_b < lpf (g b i)`, `g b` injective and
    `p_b · g b i ≤ N`: at most the harmonic sum -/
theorem leaf_pairs_le_harm (x N : ℕ) (B : Finset ℕ) (I : ℕ → Finset ℕ) (g : ℕ → ℕ → ℕ)
    (hB : ∀ b ∈ B, 1 ≤ b) (hg : ∀ b ∈ B, Set.InjOn (g b) (I b))
    (hlpf : ∀ b ∈ B, ∀ i ∈ I b, p b < (g b i).minFac)
    (hN : ∀ b ∈ B, ∀ i ∈ I b, p b * g b i ≤ N) :
    ∑ b ∈ B, ∑ i ∈ I b, x / (p b * g b i) ≤ ∑ n ∈ Ioc 0 N, x / n := by
  rw [← Finset.sum_sigma B I (fun t => x / (p t.1 * g t.1 t.2))]
  have hinj : Set.InjOn (fun t : (_ : ℕ) × ℕ => p t.1 * g t.1 t.2) (B.sigma I : Set ((_ : ℕ) × ℕ)) := by
    rintro ⟨b, i⟩ ht ⟨b', i'⟩ ht' heq
    simp only [Finset.coe_sigma, Set.mem_sigma_iff, Finset.mem_coe] at ht ht'
    simp only at heq
    have e1 := minFac_mul_of_lt (Spec.p_prime (hB b ht.1)) (hlpf b ht.1 i ht.2)
    have e2 := minFac_mul_of_lt (Spec.p_prime (hB b' ht'.1)) (hlpf b' ht'.1 i' ht'.2)
    rw [heq, e2] at e1
    have hb1 := hB b ht.1
    have hb1' := hB b' ht'.1
    have hbb : b = b' := by
      rcases Nat.lt_trichotomy b b' with h | h | h
      · have := Spec.p_lt_p hb1 h; omega
      · exact h
      · have := Spec.p_lt_p hb1' h; omega
    subst hbb
    have hgi : g b i = g b i' := Nat.eq_of_mul_eq_mul_left (by have := Spec.two_le_p b; omega) heq
    rw [hg b ht.1 ht.2 ht'.2 hgi]
  rw [← Finset.sum_image (f := fun n => x / n) hinj]
  apply Finset.sum_le_sum_of_subset
  intro n hn
  rw [mem_image] at hn
  obtain ⟨⟨b, i⟩, ht, rfl⟩ := hn
  rw [mem_sigma] at ht
  rw [mem_Ioc]
  refine ⟨?_, hN b ht.1 i ht.2⟩
  have h1 := hlpf b ht.1 i ht.2
  have hgi : g b i ≠ 0 := by
    intro h0
    rw [h0, Nat.minFac_zero] at h1
    have := Spec.two_le_p b; omega
  have hpb : 0 < p b := by have := Spec.two_le_p b; omega
  exact Nat.mul_pos hpb (Nat.pos_of_ne_zero hgi)

/-! ### the windowed absolute leaf sum of one level -/

/-- leaves `q·g i`, `i ∈ I`, with position in `[lo, hi)`: the sum of their `φ(x/(q·g i), a)` -/
noncomputable def absL (x q a : ℕ) (I : Finset ℕ) (g : ℕ → ℕ) (lo hi : ℕ) : ℕ :=
  ∑ i ∈ I, if lo ≤ x / (q * g i) ∧ x / (q * g i) < hi then φ (x / (q * g i)) a else 0

theorem absL_add (x q a : ℕ) (I : Finset ℕ) (g : ℕ → ℕ) {lo mid hi : ℕ} (h1 : lo ≤ mid) (h2 : mid ≤ hi) :
    absL x q a I g lo mid + absL x q a I g mid hi = absL x q a I g lo hi := by
  unfold absL
  rw [← Finset.sum_add_distrib]
  refine Finset.sum_congr rfl (fun i _ => ?_)
  by_cases ha : lo ≤ x / (q * g i) ∧ x / (q * g i) < mid
  · rw [if_pos ha, if_neg (by omega), if_pos ⟨ha.1, by omega⟩, add_zero]
  · by_cases hb : mid ≤ x / (q * g i) ∧ x / (q * g i) < hi
    · rw [if_neg ha, if_pos hb, if_pos ⟨by omega, hb.2⟩, zero_add]
    · rw [if_neg ha, if_neg hb, if_neg (by omega)]

theorem absL_le (x q a : ℕ) (I : Finset ℕ) (g : ℕ → ℕ) (lo hi : ℕ) :
    absL x q a I g lo hi ≤ ∑ i ∈ I, x / (q * g i) := by
  unfold absL
  refine Finset.sum_le_sum (fun i _ => ?_)
  split_ifs
  · exact Spec.phi_le _ _
  · exact Nat.zero_le _

/-- a signed windowed level sum is bounded by the absolute one -/
theorem abs_signed_le_absL (x q a : ℕ) (I : Finset ℕ) (g : ℕ → ℕ) (w : ℕ → ℤ) (hw : ∀ i, |w i| ≤ 1) (lo hi : ℕ) :
    |∑ i ∈ I, if lo ≤ x / (q * g i) ∧ x / (q * g i) < hi then w i * (φ (x / (q * g i)) a : ℤ) else 0|
      ≤ (absL x q a I g lo hi : ℤ) := by
  unfold absL
  rw [Nat.cast_sum]
  refine le_trans (Finset.abs_sum_le_sum_abs _ _) (Finset.sum_le_sum (fun i _ => ?_))
  split_ifs
  · rw [abs_mul, Nat.abs_cast]
    have := hw i
    have h0 : (0 : ℤ) ≤ (φ (x / (q * g i)) a : ℤ) := Int.natCast_nonneg _
    nlinarith [abs_nonneg (w i)]
  · simp

end Pc.Hard

#print axioms Pc.Hard.harm_le
#print axioms Pc.Hard.leaf_pairs_le_harm
#print axioms Pc.Hard.abs_signed_le_absL
