/-
C12 (magnitude half), part 5: Deleglise-Rivat and LMO — under the float envelope `DrEnv` every check of `drL2` /
`lmoL2` passes and the result satisfies `DrRange`.
-/
import PcProofs.ParamsL2Main

namespace Pc

/-- the record `drL2` returns when no check fails -/
def dOutPure (wide : Bool) (x : ℕ) (threads : ℤ) (fo : DFloats) : DOut :=
  let z := Int.tdiv x fo.v
  let mt := fo.mt z
  { x13 := irootN 3 x, y := fo.v, z := z, c := getCI fo.v, sqrtz := isqrtN z.toNat,
    ft16 := if wide then decide (fo.v ≤ (factorTableMax 16 : ℤ)) else true,
    maxThreads := mt, thr := idealNumThreads z (min threads mt) (2 ^ 20) }

theorem drL2_ok (wide : Bool) (x : ℕ) (threads : ℤ) (fo : DFloats)
    (hlim : wide = true → i128Min ≤ fo.maxX ∧ fo.maxX ≤ i128Max ∧ (x : ℤ) ≤ fo.maxX)
    (hc : ((irootN 3 x : ℕ) : ℤ) ≤ i64Max)
    (hv : i64Min ≤ fo.v ∧ fo.v ≤ i64Max) (hv0 : fo.v ≠ 0)
    (hz : i64Min ≤ Int.tdiv x fo.v ∧ Int.tdiv x fo.v ≤ i64Max)
    (hft16 : wide = false → fo.v ≤ (factorTableMax 16 : ℤ))
    (hft32 : fo.v ≤ (factorTableMax 32 : ℤ))
    (hmt : intMin ≤ fo.mt (Int.tdiv x fo.v) ∧ fo.mt (Int.tdiv x fo.v) ≤ intMax) :
    drL2 wide x threads fo = .ok (dOutPure wide x threads fo) := by
  have h0 : ∀ n : ℕ, i64Min ≤ (n : ℤ) := fun n => le_trans i64Min_neg (by positivity)
  unfold dOutPure drL2
  cases wide
  · have hy := hft16 rfl
    simp only [Bool.false_eq_true, if_false, narrowI64_ok (h0 _) hc, castI64_ok hv.1 hv.2, narrowI64_ok hz.1 hz.2,
      castInt_ok hmt.1 hmt.2, bind, Except.bind, pure, Except.pure]
    rw [if_neg hv0]
    rw [if_neg (by intro h; exact absurd hy (not_le.2 h.2)), if_neg (not_lt.2 hft32)]
  · obtain ⟨l1, l2, l3⟩ := hlim rfl
    simp only [if_true, castI128_ok l1 l2, narrowI64_ok (h0 _) hc, castI64_ok hv.1 hv.2, narrowI64_ok hz.1 hz.2,
      castInt_ok hmt.1 hmt.2, bind, Except.bind, pure, Except.pure]
    rw [if_neg (not_lt.2 l3)]
    rw [if_neg hv0]
    simp only [Bool.not_true, Bool.false_eq_true, not_true_eq_false, false_and, if_false]
    rw [if_neg (not_lt.2 hft32)]

/-- common core of both widths -/
theorem dr_core (wide : Bool) (x : ℕ) (threads : ℤ) (a : ℚ) (fo : DFloats)
    (hx2 : 2 ≤ x) (hx125 : x < 2 ^ 125) (henv : DrEnv x a fo)
    (hlim : wide = true → i128Min ≤ fo.maxX ∧ fo.maxX ≤ i128Max ∧ (x : ℤ) ≤ fo.maxX)
    (hzB : (x : ℤ) / fo.v ≤ i64Max)
    (hft16 : wide = false → fo.v ≤ (factorTableMax 16 : ℤ)) :
    drL2 wide x threads fo = .ok (dOutPure wide x threads fo) ∧ DrRange x threads (dOutPure wide x threads fo) := by
  obtain ⟨ha1, ha, hvN, hcv, hvex, _, hmtN⟩ := henv
  have hs : isqrtN x < 3 * 2 ^ 61 := isqrt_lt_of_lt (lt_trans hx125 (by norm_num))
  have hc42 : irootN 3 x < 2 ^ 42 := iroot_lt_of_lt (by norm_num) (lt_trans hx125 (by norm_num))
  have hs1 : 1 ≤ isqrtN x := one_le_isqrt x (by omega)
  have hc1 : 1 ≤ irootN 3 x := one_le_iroot x 3 (by norm_num) (by omega)
  obtain ⟨_, hvq⟩ := v_bounds ha1 ha hvN
  have hv63 : fo.v ≤ i64Max := by
    apply below_i64 hs
    calc (fo.v : ℚ) ≤ (isqrtN x : ℚ) * (1 + relEps) := hvq
      _ ≤ ((isqrtN x : ℚ) + 2 ^ 21) * (1 + relEps) ^ 3 := by
        have he := one_add_relEps_pos
        have h1 : (1 + relEps) ≤ (1 + relEps) ^ 3 := by
          have := one_le_e
          nlinarith [mul_pos he he]
        have h2 : (0 : ℚ) ≤ (isqrtN x : ℚ) := by positivity
        have h3 : (0 : ℚ) ≤ (2 : ℚ) ^ 21 := by positivity
        nlinarith [mul_le_mul_of_nonneg_left h1 h2, mul_nonneg h3 (le_trans he.le h1)]
  have hv1 : 1 ≤ fo.v := by
    have : (1 : ℤ) ≤ ((irootN 3 x : ℕ) : ℤ) := by exact_mod_cast hc1
    omega
  have htd : Int.tdiv x fo.v = (x : ℤ) / fo.v := Int.tdiv_eq_ediv_of_nonneg (by positivity)
  -- v ≤ x, hence 1 ≤ z
  have hvx : fo.v ≤ (x : ℤ) := by
    have hsx : isqrtN x * isqrtN x ≤ x := s_sq_le x
    by_cases h2 : 2 ≤ isqrtN x
    · have h3 : (fo.v : ℚ) ≤ ((isqrtN x * isqrtN x : ℕ) : ℚ) := by
        have hsq : (2 : ℚ) ≤ (isqrtN x : ℚ) := by exact_mod_cast h2
        calc (fo.v : ℚ) ≤ (isqrtN x : ℚ) * (1 + relEps) := hvq
          _ ≤ (isqrtN x : ℚ) * 2 := mul_le_mul_of_nonneg_left one_add_relEps_le_two (by positivity)
          _ ≤ (isqrtN x : ℚ) * (isqrtN x : ℚ) := mul_le_mul_of_nonneg_left hsq (by positivity)
          _ = ((isqrtN x * isqrtN x : ℕ) : ℚ) := by push_cast; ring
      have h4 : fo.v ≤ ((isqrtN x * isqrtN x : ℕ) : ℤ) := by exact_mod_cast h3
      have h5 : ((isqrtN x * isqrtN x : ℕ) : ℤ) ≤ (x : ℤ) := by exact_mod_cast hsx
      omega
    · have hs1' : isqrtN x = 1 := by omega
      have h3 : (fo.v : ℚ) ≤ 1 * (1 + relEps) := by rw [hs1'] at hvq; simpa using hvq
      have : fo.v ≤ 1 := by
        apply int_le_of_rat_lt h3
        rw [relEps_eq]; norm_num
      have : (2 : ℤ) ≤ (x : ℤ) := by exact_mod_cast hx2
      omega
  have hz1 : 1 ≤ (x : ℤ) / fo.v := by
    rw [Int.le_ediv_iff_mul_le (by omega)]; omega
  have h0 : ∀ k : ℕ, i64Min ≤ (k : ℤ) := fun k => le_trans i64Min_neg (by positivity)
  have hcI : ((irootN 3 x : ℕ) : ℤ) ≤ i64Max := by
    have : ((irootN 3 x : ℕ) : ℤ) < 2 ^ 42 := by exact_mod_cast hc42
    unfold i64Max; omega
  have hft32 : fo.v ≤ (factorTableMax 32 : ℤ) := by
    have : (factorTableMax 32 : ℤ) = 18446744056529682435 := by unfold factorTableMax; norm_num
    rw [this]; unfold i64Max at hv63; omega
  have hmt := powThreads_cast (by rw [htd]; omega) (by rw [htd]; exact hzB) hmtN
  have heval := drL2_ok wide x threads fo hlim hcI ⟨le_trans i64Min_neg (by omega), hv63⟩ (by omega)
    ⟨by rw [htd]; exact le_trans i64Min_neg (by omega), by rw [htd]; exact hzB⟩ hft16 hft32 hmt
  refine ⟨heval, ?_⟩
  have hthr : ∀ l t : ℤ, 1 ≤ idealNumThreads l (min threads (fo.mt (Int.tdiv x fo.v))) t ∧
      idealNumThreads l (min threads (fo.mt (Int.tdiv x fo.v))) t ≤ max 1 threads := fun l t =>
    ⟨(idealNumThreads_range _ _ _).1, le_trans (idealNumThreads_range _ _ _).2 (max_le_max_left 1 (min_le_left _ _))⟩
  unfold DrRange dOutPure
  simp only []
  refine ⟨by exact_mod_cast hc1, hcv, hv63, by rw [htd]; exact hz1, by rw [htd]; exact hzB, htd, getCI_le _, hft32, ?_,
    hmtN.1, hmt.2, (hthr _ _).1, (hthr _ _).2, ?_⟩
  · intro h
    cases wide
    · exact hft16 rfl
    · simpa using h
  · intro hex
    have hvle := hvex hex
    have hcr := c_mul_r6_le_s x
    have hvs : fo.v ≤ ((isqrtN x : ℕ) : ℤ) := le_trans hvle (by exact_mod_cast hcr)
    have hsx : ((isqrtN x * isqrtN x : ℕ) : ℤ) ≤ (x : ℤ) := by exact_mod_cast s_sq_le x
    have hsq : fo.v * fo.v ≤ (x : ℤ) := by
      have : fo.v * fo.v ≤ ((isqrtN x : ℕ) : ℤ) * ((isqrtN x : ℕ) : ℤ) := mul_le_mul hvs hvs (by omega) (by positivity)
      push_cast at hsx
      omega
    refine ⟨hsq, ?_⟩
    rw [htd, Int.le_ediv_iff_mul_le (by omega)]
    exact hsq

/-- Claim B for `z = x / y`, `y = (int64_t)(x13 * alpha)` -/
theorem z_fits_of_range_check {x : ℕ} {a : ℚ} {fo : DFloats} (hx2 : 2 ≤ x)
    (ha1 : 1 ≤ a) (hvN : TruncNear ((irootN 3 x : ℚ) * a) fo.v) (hcv : (irootN 3 x : ℤ) ≤ fo.v)
    (hm : MaxXNear a fo.maxX) (hxm : (x : ℤ) ≤ fo.maxX) : (x : ℤ) / fo.v ≤ i64Max := by
  have hc1 : 1 ≤ irootN 3 x := one_le_iroot x 3 (by norm_num) (by omega)
  have hv1 : 1 ≤ fo.v := by
    have : (1 : ℤ) ≤ ((irootN 3 x : ℕ) : ℤ) := by exact_mod_cast hc1
    omega
  have hkey : (x : ℤ) < 2 ^ 63 * fo.v := by
    by_cases h63 : x < 2 ^ 63
    · have : (x : ℤ) < 2 ^ 63 := by exact_mod_cast h63
      nlinarith
    · push Not at h63
      by_cases h93 : x < 2 ^ 93
      · obtain ⟨n, hn⟩ := Int.eq_ofNat_of_zero_le (le_trans zero_le_one hv1)
        have hcn : irootN 3 x ≤ n := by omega
        have := lt_two63_mul_of_mid h63 h93 hcn
        rw [hn]; exact_mod_cast this
      · push Not at h93
        exact lt_two63_mul_of_env h93 hm hxm (by linarith) hvN.1
  have : (x : ℤ) / fo.v < 2 ^ 63 := Int.ediv_lt_of_lt_mul (by omega) hkey
  unfold i64Max; omega

theorem dr128_accept (x : ℕ) (threads : ℤ) (a : ℚ) (fo : DFloats)
    (hx2 : 2 ≤ x) (hx : x < 2 ^ 127) (henv : DrEnv x a fo) (hxm : (x : ℤ) ≤ fo.maxX) :
    drL2 true x threads fo = .ok (dOutPure true x threads fo) ∧ DrRange x threads (dOutPure true x threads fo) := by
  have henv' := henv
  obtain ⟨ha1, ha, hvN, hcv, _, hm, _⟩ := henv'
  have hx125 : x < 2 ^ 125 := x_lt_of_range_check (by linarith) ha hm hxm
  have hmlt := maxX_lt_of_env hx (by linarith) ha hm
  apply dr_core true x threads a fo hx2 hx125 henv
  · intro _
    exact ⟨le_trans (by unfold i128Min; norm_num) hm.1, by unfold i128Max; omega, hxm⟩
  · exact z_fits_of_range_check hx2 ha1 hvN hcv hm hxm
  · intro h; exact absurd h (by simp)

theorem dr128_reject (x : ℕ) (threads : ℤ) (fo : DFloats) (hx : x < 2 ^ 127) (hm0 : 0 ≤ fo.maxX)
    (hxm : fo.maxX < (x : ℤ)) : drL2 true x threads fo = .error .range := by
  have h2 : fo.maxX ≤ i128Max := by
    have : (x : ℤ) < 2 ^ 127 := by exact_mod_cast hx
    unfold i128Max; omega
  unfold drL2
  simp only [if_true, castI128_ok (le_trans (by unfold i128Min; norm_num) hm0) h2, bind, Except.bind]
  rw [if_pos hxm]
  rfl

theorem dr64_accept (x : ℕ) (threads : ℤ) (a : ℚ) (fo : DFloats)
    (hx2 : 2 ≤ x) (hx : x < 2 ^ 63) (henv : DrEnv x a fo) :
    drL2 false x threads fo = .ok (dOutPure false x threads fo) ∧ DrRange x threads (dOutPure false x threads fo) := by
  have henv' := henv
  obtain ⟨ha1, ha, hvN, hcv, _, _, _⟩ := henv'
  have hs : isqrtN x < 3037000500 := isqrt_lt_of_lt (lt_of_lt_of_le hx (by norm_num))
  have hc1 : 1 ≤ irootN 3 x := one_le_iroot x 3 (by norm_num) (by omega)
  have hv1 : 1 ≤ fo.v := by
    have : (1 : ℤ) ≤ ((irootN 3 x : ℕ) : ℤ) := by exact_mod_cast hc1
    omega
  apply dr_core false x threads a fo hx2 (lt_trans hx (by norm_num)) henv
  · intro h; exact absurd h (by simp)
  · have h1 : (x : ℤ) / fo.v ≤ (x : ℤ) := Int.ediv_le_self _ (by positivity)
    have h2 : (x : ℤ) < 2 ^ 63 := by exact_mod_cast hx
    unfold i64Max; omega
  · intro _
    have : (factorTableMax 16 : ℤ) = 4294705155 := by unfold factorTableMax; norm_num
    rw [this]
    obtain ⟨_, hvq⟩ := v_bounds ha1 ha hvN
    apply int_le_of_rat_lt hvq
    have hsq : (isqrtN x : ℚ) ≤ 3037000500 := by exact_mod_cast hs.le
    calc (isqrtN x : ℚ) * (1 + relEps) ≤ 3037000500 * (1 + relEps) :=
          mul_le_mul_of_nonneg_right hsq one_add_relEps_pos.le
      _ < ((4294705155 : ℤ) : ℚ) + 1 := by rw [relEps_eq]; norm_num

/-- `pi_lmo_parallel` / `pi_lmo5`: `x < 2^63`, `v ≥ x13 ≥ 1` and `v < 2^63` ⇒ no failure -/
theorem lmo_accept (x : ℕ) (a : ℚ) (v : ℤ) (hx2 : 2 ≤ x) (hx : x < 2 ^ 63)
    (ha1 : 1 ≤ a) (ha : a ≤ (irootN 6 x : ℚ)) (hvN : TruncNear ((irootN 3 x : ℚ) * a) v) (hcv : (irootN 3 x : ℤ) ≤ v) :
    lmoL2 x v = .ok { x13 := irootN 3 x, y := v, z := (x : ℤ) / v, c := getCI v } ∧
    1 ≤ v ∧ v ≤ i64Max ∧ 1 ≤ (irootN 3 x : ℤ) ∧ getCI v ≤ 8 := by
  have hs : isqrtN x < 3 * 2 ^ 61 := lt_trans (isqrt_lt_of_lt (lt_of_lt_of_le hx (by norm_num) : x < 3037000500 * 3037000500)) (by norm_num)
  have hc1 : 1 ≤ irootN 3 x := one_le_iroot x 3 (by norm_num) (by omega)
  have hv1 : 1 ≤ v := by
    have : (1 : ℤ) ≤ ((irootN 3 x : ℕ) : ℤ) := by exact_mod_cast hc1
    omega
  obtain ⟨_, hvq⟩ := v_bounds ha1 ha hvN
  have hv63 : v ≤ i64Max := by
    apply below_i64 hs
    calc (v : ℚ) ≤ (isqrtN x : ℚ) * (1 + relEps) := hvq
      _ ≤ ((isqrtN x : ℚ) + 2 ^ 21) * (1 + relEps) ^ 3 := by
        have he := one_add_relEps_pos
        have h1 : (1 + relEps) ≤ (1 + relEps) ^ 3 := by
          have := one_le_e
          nlinarith [mul_pos he he]
        have h2 : (0 : ℚ) ≤ (isqrtN x : ℚ) := by positivity
        have h3 : (0 : ℚ) ≤ (2 : ℚ) ^ 21 := by positivity
        nlinarith [mul_le_mul_of_nonneg_left h1 h2, mul_nonneg h3 (le_trans he.le h1)]
  have hc21 : irootN 3 x < 2 ^ 21 := iroot_lt_of_lt (by norm_num) (lt_of_lt_of_le hx (by norm_num))
  have hcI : ((irootN 3 x : ℕ) : ℤ) ≤ i64Max := by
    have : ((irootN 3 x : ℕ) : ℤ) < 2 ^ 21 := by exact_mod_cast hc21
    unfold i64Max; omega
  refine ⟨?_, hv1, hv63, by exact_mod_cast hc1, getCI_le _⟩
  unfold lmoL2
  simp only [narrowI64_ok (le_trans i64Min_neg (by positivity)) hcI, castI64_ok (le_trans i64Min_neg (by omega)) hv63,
    bind, Except.bind, pure, Except.pure]
  rw [if_neg (by omega), Int.tdiv_eq_ediv_of_nonneg (by positivity)]

end Pc

namespace Pc

/-! ### maxx_default -/

/-- every `x ≤ 10^31` passes `x ≤ get_max_x(alpha_y)` when `alpha_y ≥ 1`, `≥ 110` above `2^93 − 2^54`, and `pow` is
    within the envelope -/
theorem le_maxX_default {x : ℕ} {ay : ℚ} {m : ℤ} (hx : x ≤ 10 ^ 31) (hay1 : 1 ≤ ay) (hm : MaxXNear ay m)
    (h110 : DefaultAlphaYAtLeast110 x ay) : (x : ℤ) ≤ m := by
  obtain ⟨hm0, _, hm3⟩ := hm
  by_contra hlt
  push Not at hlt
  have hm1 : m + 1 ≤ (x : ℤ) := hlt
  have hmq : (m : ℚ) + 1 ≤ (x : ℚ) := by exact_mod_cast hm1
  have hm0q : (0 : ℚ) ≤ (m : ℚ) + 1 := by
    have : (0 : ℚ) ≤ (m : ℚ) := by exact_mod_cast hm0
    linarith
  have hsq : ((m : ℚ) + 1) ^ 2 ≤ (x : ℚ) ^ 2 := pow_le_pow_left₀ hm0q hmq 2
  by_cases hsmall : x ≤ 2 ^ 93 - 2 ^ 54
  · have hxq : (x : ℚ) ≤ 2 ^ 93 - 2 ^ 54 := by
      have : (x : ℚ) ≤ ((2 ^ 93 - 2 ^ 54 : ℕ) : ℚ) := by exact_mod_cast hsmall
      rw [Nat.cast_sub (by norm_num)] at this
      push_cast at this; exact this
    have h1 : (x : ℚ) ^ 2 ≤ (2 ^ 93 - 2 ^ 54) ^ 2 := pow_le_pow_left₀ (by positivity) hxq 2
    have h2 : ((2 : ℚ) ^ 62 * 1) ^ 3 ≤ (2 ^ 62 * ay) ^ 3 :=
      pow_le_pow_left₀ (by positivity) (mul_le_mul_of_nonneg_left hay1 (by positivity)) 3
    have h3 : ((2 : ℚ) ^ 62 * 1) ^ 3 * (1 - relEps) ≤ (2 ^ 62 * ay) ^ 3 * (1 - relEps) :=
      mul_le_mul_of_nonneg_right h2 one_sub_relEps_pos.le
    have h4 : ((2 : ℚ) ^ 93 - 2 ^ 54) ^ 2 < ((2 : ℚ) ^ 62 * 1) ^ 3 * (1 - relEps) := by
      rw [relEps_eq]; norm_num
    linarith
  · push Not at hsmall
    have ha := h110 hsmall
    have hxq : (x : ℚ) ≤ 10 ^ 31 := by exact_mod_cast hx
    have h1 : (x : ℚ) ^ 2 ≤ (10 ^ 31) ^ 2 := pow_le_pow_left₀ (by positivity) hxq 2
    have h2 : ((2 : ℚ) ^ 62 * 110) ^ 3 ≤ (2 ^ 62 * ay) ^ 3 :=
      pow_le_pow_left₀ (by positivity) (mul_le_mul_of_nonneg_left ha (by positivity)) 3
    have h3 : ((2 : ℚ) ^ 62 * 110) ^ 3 * (1 - relEps) ≤ (2 ^ 62 * ay) ^ 3 * (1 - relEps) :=
      mul_le_mul_of_nonneg_right h2 one_sub_relEps_pos.le
    have h4 : ((10 : ℚ) ^ 31) ^ 2 < ((2 : ℚ) ^ 62 * 110) ^ 3 * (1 - relEps) := by
      rw [relEps_eq]; norm_num
    linarith

end Pc

namespace Pc

/-! ### roots of 10^31 (used by the non-vacuity examples) -/
theorem iroot3_1e31 : irootN 3 (10 ^ 31) = 21544346900 := irootN_eq_of (by norm_num) (by norm_num) (by norm_num)
theorem iroot6_1e31 : irootN 6 (10 ^ 31) = 146779 := irootN_eq_of (by norm_num) (by norm_num) (by norm_num)
theorem isqrt_1e31 : isqrtN (10 ^ 31) = 3162277660168379 := by
  rw [isqrtN_eq]; symm; rw [Nat.eq_sqrt]; norm_num

end Pc
