/-
C07 — refinement proofs for the model of src/phi.cpp (PcModel/PhiAlg.lean): the recursive algorithm of
`PhiCache::phi<SIGN>` returns `SIGN · phi x a` for every cache content that agrees with the spec and every
cache state; the guards of `phi_OpenMP` are right; the OpenMP reduction is independent of the schedule.
-/
import Mathlib.Tactic
import Mathlib.NumberTheory.PrimeCounting
import PcModel.PhiAlg
import PcProofs.PhiFacts

namespace Pc.PhiAlgProofs
open Nat Pc.Spec Pc.PhiFacts
open scoped Nat.Prime

/-- what the data handed to a `PhiCache` must satisfy: the first `A` primes, a π table, exact
    `phi_tiny`, and sieve arrays that agree with the spec wherever they can be consulted -/
structure EnvOK (E : PhiEnv) (A : ℕ) : Prop where
  prime0 : E.prime 0 = 0
  prime : ∀ i, 1 ≤ i → i ≤ A → E.prime i = p i
  pi : ∀ v, v < E.piSize → E.piTab v = π v
  tiny : ∀ x a, a ≤ 8 → E.tiny x a = phi x a
  val : ∀ x a, x ≤ E.cache.maxX → 8 < a → a ≤ E.cache.maxA → E.cache.val x a = phi x a

/-- one step of the Legendre recurrence over ℤ -/
lemma phi_step (x : ℕ) {i : ℕ} (hi : 1 ≤ i) :
    (phi x i : ℤ) = (phi x (i - 1) : ℤ) - (phi (x / p i) (i - 1) : ℤ) := by
  have := phi_rec x i hi
  have h : (phi x i : ℤ) + (phi (x / p i) (i - 1) : ℤ) = (phi x (i - 1) : ℤ) := by exact_mod_cast this
  linarith

lemma sqrt_lt_mul {x q : ℕ} (h : Nat.sqrt x < q) : x < q * q := Nat.sqrt_lt.1 h

/-- the `prime > √x` exit: all remaining terms are 1 -/
lemma phi_tail (x : ℕ) : ∀ (n a i : ℕ), i + n = a + 1 → 1 ≤ i → Nat.sqrt x < p i → (n ≠ 0 → p a ≤ x) →
    (phi x a : ℤ) = (phi x (i - 1) : ℤ) - (n : ℤ) := by
  intro n
  induction n with
  | zero =>
    intro a i h _ _ _
    have : a = i - 1 := by omega
    subst this; simp
  | succ n ih =>
    intro a i h hi hsq hpa
    have ha : 1 ≤ a := by omega
    have hpax : p a ≤ x := hpa (by omega)
    have hia : p i ≤ p a := p_mono hi (by omega)
    have hlt : x < p a * p a := sqrt_lt_mul (lt_of_lt_of_le hsq hia)
    have hpos : 0 < p a := by have := two_le_p a; omega
    have hdiv : x / p a < p a := (Nat.div_lt_iff_lt_mul hpos).2 hlt
    have hge : 1 ≤ x / p a := (Nat.one_le_div_iff hpos).2 hpax
    have h1 : phi (x / p a) (a - 1) = 1 :=
      phi_eq_one hge (by rw [show a - 1 + 1 = a by omega]; exact hdiv)
    have h2 := ih (a - 1) i (by omega) hi hsq (by
      intro hn
      exact le_trans (p_mono (by omega) (by omega)) hpax)
    rw [phi_step x ha, h1, h2]
    push_cast; ring

/-- a term taken from the π table -/
lemma phi_term_pi {x i : ℕ} (hi : 1 ≤ i) (hsq : p i ≤ Nat.sqrt x) (hlt : x / p i < p i * p i) :
    (phi (x / p i) (i - 1) : ℤ) = (π (x / p i) : ℤ) - (i : ℤ) + 2 := by
  have hpos : 0 < p i := by have := two_le_p i; omega
  have hmul : p i * p i ≤ x := Nat.le_sqrt.1 hsq
  have hy : p i ≤ x / p i := (Nat.le_div_iff_mul_le hpos).2 hmul
  have h1 : 1 ≤ x / p i := by have := two_le_p i; omega
  have hle : i - 1 ≤ π (x / p i) := by
    rcases Nat.eq_zero_or_pos (i - 1) with h | h
    · omega
    · exact le_pi_of_p_le h (le_trans (p_mono h (by omega)) hy)
  have := phi_eq_pi' h1 hle (by rw [show i - 1 + 1 = i by omega, sq]; exact hlt)
  have hc : (phi (x / p i) (i - 1) : ℤ) + ((i - 1 : ℕ) : ℤ) = (π (x / p i) : ℤ) + 1 := by exact_mod_cast this
  rw [Nat.cast_sub hi] at hc
  push_cast at hc
  linarith

lemma finish_correct (sign : ℤ) {x a n i : ℕ} (hxa : p a ≤ x) (hin : i + n = a + 1) (hi : 1 ≤ i)
    (hsq : n ≠ 0 → Nat.sqrt x < p i) {sum : ℤ} (hsum : sum = sign * phi x (i - 1)) :
    phiFinish sign a i sum = sign * phi x a := by
  unfold phiFinish
  have hn : a + 1 - i = n := by omega
  rw [hn, hsum]
  rcases Nat.eq_zero_or_pos n with h0 | hpos
  · subst h0
    have : a = i - 1 := by omega
    subst this; simp
  · rw [phi_tail x n a i hin hi (hsq (by omega)) (fun _ => hxa)]
    ring

lemma isCached_iff (E : PhiEnv) (mac x a : ℕ) :
    E.isCached mac x a = true ↔ x ≤ E.cache.maxX ∧ a ≤ mac ∧ 8 < a := by
  simp only [PhiEnv.isCached, Bool.and_eq_true, decide_eq_true_eq, and_assoc]
  simp only [phiTinyMaxA]

lemma isPix_iff (E : PhiEnv) (x a : ℕ) :
    E.isPix x a = true ↔ x < E.piSize ∧ x < E.prime (a + 1) * E.prime (a + 1) := by
  simp [PhiEnv.isPix]

section loops
variable {E : PhiEnv} {A : ℕ} (hE : EnvOK E A)
include hE

lemma loop2_correct (sign : ℤ) {x a : ℕ} (ha : a ≤ A) (hxa : p a ≤ x) :
    ∀ n i sum, i + n = a + 1 → 1 ≤ i → sum = sign * phi x (i - 1) →
      (∀ j, i ≤ j → j ≤ a → p j ≤ Nat.sqrt x → x / p j < E.piSize ∧ x / p j < p j * p j) →
      phiLoop2 E sign x (Nat.sqrt x) a n i sum = sign * phi x a := by
  intro n
  induction n with
  | zero =>
    intro i sum hin hi hsum _
    simp only [phiLoop2]
    exact finish_correct sign hxa hin hi (by simp) hsum
  | succ n ih =>
    intro i sum hin hi hsum hpix
    have hpi : E.prime i = p i := hE.prime i hi (by omega)
    simp only [phiLoop2, hpi]
    split
    · rename_i hgt
      exact finish_correct sign hxa hin hi (fun _ => hgt) hsum
    · rename_i hgt
      have hle : p i ≤ Nat.sqrt x := by omega
      obtain ⟨h1, h2⟩ := hpix i le_rfl (by omega) hle
      apply ih (i + 1) _ (by omega) (by omega)
      · rw [hE.pi _ h1, hsum, Nat.add_sub_cancel, phi_step x hi, phi_term_pi hi hle h2]
        ring
      · intro j hj hja hjs
        exact hpix j (by omega) hja hjs

lemma loop1_correct (rec : ℤ → ℕ → ℕ → ℕ → ℤ × ℕ) (sign : ℤ) {x a : ℕ} (ha : a ≤ A) (hxa : p a ≤ x)
    (hrec : ∀ s y b mac, b < a → 1 ≤ y → mac ≤ E.cache.maxA →
      (rec s y b mac).1 = s * phi y b ∧ (rec s y b mac).2 ≤ E.cache.maxA) :
    ∀ n i sum mac, i + n = a + 1 → 1 ≤ i → sum = sign * phi x (i - 1) → mac ≤ E.cache.maxA →
      (phiLoop1 E rec sign x (Nat.sqrt x) a n i sum mac).1 = sign * phi x a ∧
      (phiLoop1 E rec sign x (Nat.sqrt x) a n i sum mac).2 ≤ E.cache.maxA := by
  intro n
  induction n with
  | zero =>
    intro i sum mac hin hi hsum hmac
    simp only [phiLoop1]
    exact ⟨finish_correct sign hxa hin hi (by simp) hsum, hmac⟩
  | succ n ih =>
    intro i sum mac hin hi hsum hmac
    have hpi : E.prime i = p i := hE.prime i hi (by omega)
    simp only [phiLoop1, hpi]
    split
    · rename_i hgt
      exact ⟨finish_correct sign hxa hin hi (fun _ => hgt) hsum, hmac⟩
    · rename_i hgt
      have hle : p i ≤ Nat.sqrt x := by omega
      have hpos : 0 < p i := by have := two_le_p i; omega
      have hmul : p i * p i ≤ x := Nat.le_sqrt.1 hle
      have hy : p i ≤ x / p i := (Nat.le_div_iff_mul_le hpos).2 hmul
      have hy1 : 1 ≤ x / p i := by have := two_le_p i; omega
      split
      · rename_i hpix
        rw [isPix_iff, show i - 1 + 1 = i by omega, hpi] at hpix
        refine ⟨?_, hmac⟩
        apply loop2_correct hE sign ha hxa n (i + 1) _ (by omega) (by omega)
        · rw [hE.pi _ hpix.1, hsum, Nat.add_sub_cancel, phi_step x hi, phi_term_pi hi hle hpix.2]
          ring
        · intro j hj hja _
          have hij : p i ≤ p j := p_mono hi (by omega)
          have hdiv : x / p j ≤ x / p i := Nat.div_le_div_left hij hpos
          refine ⟨by omega, ?_⟩
          calc x / p j ≤ x / p i := hdiv
            _ < p i * p i := hpix.2
            _ ≤ p j * p j := Nat.mul_le_mul hij hij
      · split
        · rename_i hc
          rw [isCached_iff] at hc
          apply ih (i + 1) _ mac (by omega) (by omega) _ hmac
          rw [hE.val _ _ hc.1 hc.2.2 (by omega), hsum, Nat.add_sub_cancel, phi_step x hi]
          ring
        · obtain ⟨h1, h2⟩ := hrec (-sign) (x / p i) (i - 1) mac (by omega) hy1 hmac
          apply ih (i + 1) _ _ (by omega) (by omega) _ h2
          rw [h1, hsum, Nat.add_sub_cancel, phi_step x hi]
          ring

/-- **the recursive algorithm is exact**, for every sign, every cache content consistent with the spec
    and every cache state; it also keeps `max_a_cached_ ≤ max_a_` -/
theorem phiRecAlg_correct : ∀ fuel (sign : ℤ) x a mac, a < fuel → a < A → 1 ≤ x → mac ≤ E.cache.maxA →
    (phiRecAlg E fuel sign x a mac).1 = sign * phi x a ∧
    (phiRecAlg E fuel sign x a mac).2 ≤ E.cache.maxA := by
  intro fuel
  induction fuel with
  | zero => intro _ _ a _ h; omega
  | succ fuel ih =>
    intro sign x a mac hfuel haA hx hmac
    rw [phiRecAlg]
    split
    · -- x ≤ primes_[a]
      rename_i h
      refine ⟨?_, hmac⟩
      rcases Nat.eq_zero_or_pos a with h0 | hpos
      · subst h0; rw [hE.prime0] at h; omega
      · rw [hE.prime a hpos (by omega)] at h
        rw [phi_eq_one_of_le hpos hx h]; simp
    · rename_i hgt
      split
      · -- phi_tiny
        rename_i h8
        simp only [phiTinyMaxA] at h8
        exact ⟨by rw [hE.tiny x a h8]; ring, hmac⟩
      · rename_i h8
        simp only [phiTinyMaxA] at h8
        have ha1 : 1 ≤ a := by omega
        have hpa : p a < x := by rw [← hE.prime a ha1 (by omega)]; omega
        split
        · -- is_pix
          rename_i hpix
          rw [isPix_iff, hE.prime (a + 1) (by omega) (by omega)] at hpix
          refine ⟨?_, hmac⟩
          have := phi_eq_pi' hx (le_pi_of_p_le ha1 hpa.le) (by rw [sq]; exact hpix.2)
          have hc : (phi x a : ℤ) + (a : ℤ) = (π x : ℤ) + 1 := by exact_mod_cast this
          rw [hE.pi _ hpix.1]
          linear_combination (-sign) * hc
        · -- cache
          dsimp only
          set want := min a E.cache.maxA with hwant
          set mac1 := if mac < want ∧ x ≤ E.cache.maxX then want else mac with hmac1
          have hmac1le : mac1 ≤ E.cache.maxA := by
            rw [hmac1]; split
            · exact Nat.min_le_right _ _
            · exact hmac
          split
          · rename_i hc
            rw [isCached_iff] at hc
            exact ⟨by rw [hE.val _ _ hc.1 hc.2.2 (by omega)]; ring, hmac1le⟩
          · set largerC := max phiTinyMaxA (min mac1 a) with hlc
            have hrec : ∀ s y b mac', b < a → 1 ≤ y → mac' ≤ E.cache.maxA →
                (phiRecAlg E fuel s y b mac').1 = s * phi y b ∧
                (phiRecAlg E fuel s y b mac').2 ≤ E.cache.maxA :=
              fun s y b mac' hb hy hm => ih s y b mac' (by omega) (by omega) hy hm
            by_cases hcl : E.isCached mac1 x largerC = true
            · simp only [hcl, if_true]
              rw [isCached_iff] at hcl
              have hlca : largerC ≤ a := by
                rw [hlc]; simp only [phiTinyMaxA]; omega
              apply loop1_correct hE _ sign (by omega) hpa.le hrec (a - largerC) (largerC + 1) _ mac1
                (by omega) (by omega) _ hmac1le
              rw [Nat.add_sub_cancel, hE.val _ _ hcl.1 hcl.2.2 (by omega)]
              ring
            · have hcl' : E.isCached mac1 x largerC = false := by simpa using hcl
              simp only [hcl', Bool.false_eq_true, if_false, phiTinyMaxA]
              apply loop1_correct hE _ sign (by omega) hpa.le hrec (a - 8) (8 + 1) _ mac1
                (by omega) (by omega) _ hmac1le
              rw [Nat.add_sub_cancel, hE.tiny x 8 le_rfl]
              ring

end loops

/-! ### phi_OpenMP -/

/-- the specification of `phi(x, a)` on all of `int64 × int64` (C07 statement): 0 for `x < 1`, `x` for
    `a < 1`, the Legendre sum otherwise -/
noncomputable def phiZ (x a : ℤ) : ℤ := if x < 1 then 0 else if a < 1 then x else (phi x.toNat a.toNat : ℤ)

/-- hypotheses about the parameters of `phi_OpenMP` at the argument `x`, with `A` primes available -/
structure TopOK (P : PhiTop) (x A : ℕ) : Prop where
  /-- the literature inequality behind `pix_upper` (a double formula above 30719): NAMED HYPOTHESIS -/
  pixUpperX : π x ≤ P.pixUpper x
  pixUpperSqrt : π (Nat.sqrt x) ≤ P.pixUpper (Nat.sqrt x)
  /-- `pi_noprint(x)` is π(x) (property C01) -/
  piFn : P.piFn x = π x
  prime0 : P.prime 0 = 0
  prime : ∀ i, 1 ≤ i → i ≤ A → P.prime i = p i
  piTab : ∀ v, v ≤ Nat.sqrt x → P.piTab v = π v
  tiny : ∀ y a, a ≤ 8 → P.tiny y a = phi y a

/-- a cache object whose arrays agree with the spec wherever they can be consulted, in a legal state -/
def CacheOK (c : PhiCacheL1 × ℕ) : Prop :=
  (∀ y b, y ≤ c.1.maxX → 8 < b → b ≤ c.1.maxA → c.1.val y b = phi y b) ∧ c.2 ≤ c.1.maxA

lemma phi_eq_one_of_pi_le {x a : ℕ} (hx : 1 ≤ x) (h : π x ≤ a) : phi x a = 1 := by
  apply phi_eq_one hx
  exact lt_of_lt_of_le (lt_p_pi_succ x) (p_mono (by omega) (by omega))

/-- value of `phi_pix` when `a` exceeds π(√x) -/
lemma phiPix_correct {x a : ℕ} (hx : 1 ≤ x) (h : π (Nat.sqrt x) < a) : phiPix (π x) a = phi x a := by
  unfold phiPix
  split
  · rename_i hle
    have hsq : Nat.sqrt x < p (a + 1) :=
      lt_of_lt_of_le (lt_p_pi_succ _) (p_mono (by omega) (by omega))
    have := phi_eq_pi' hx hle (by rw [sq]; exact Nat.sqrt_lt.1 hsq)
    omega
  · rename_i hgt
    rw [phi_eq_one_of_pi_le hx (by omega)]

/-- telescoped Legendre recurrence as a list sum -/
lemma phi_telescope (x c : ℕ) : ∀ k : ℕ, (phi x (c + k) : ℤ) =
    (phi x c : ℤ) + ((List.range' (c + 1) k).map (fun i => -(phi (x / p i) (i - 1) : ℤ))).sum := by
  intro k
  induction k with
  | zero => simp
  | succ k ih =>
    rw [List.range'_1_concat, List.map_append, List.sum_append, ← add_assoc (phi x c : ℤ), ← ih]
    have := phi_step x (i := c + k + 1) (by omega)
    simp only [List.map_cons, List.map_nil, List.sum_cons, List.sum_nil, add_zero]
    rw [show c + (k + 1) = c + k + 1 by ring, this, show c + 1 + k = c + k + 1 by ring, Nat.add_sub_cancel]
    ring

/-- **guards** of `phi_OpenMP`: every early return is the spec value -/
theorem phi_guards (P : PhiTop) (x a : ℤ) (hP : TopOK P x.toNat a.toNat) :
    (phiGuards P x a = .zero → phiZ x a = 0) ∧
    (phiGuards P x a = .x → phiZ x a = x) ∧
    (phiGuards P x a = .one → phiZ x a = 1) ∧
    (phiGuards P x a = .tiny → phiZ x a = P.tiny x.toNat a.toNat) ∧
    (phiGuards P x a = .pixUpper → phiZ x a = 1) ∧
    (phiGuards P x a = .phiPix1 → phiZ x a = phiPix (P.piFn x.toNat) a.toNat) ∧
    (phiGuards P x a = .phiPix2 → phiZ x a = phiPix (P.piFn x.toNat) a.toNat) ∧
    (phiGuards P x a = .main → 1 ≤ x ∧ 9 ≤ a ∧ a.toNat ≤ π (Nat.sqrt x.toNat)) := by
  unfold phiGuards phiZ
  by_cases h1 : x < 1
  · simp [h1]
  by_cases h2 : a < 1
  · simp [h1, h2]
  have hx : 1 ≤ x.toNat := by omega
  have ha : 1 ≤ a.toNat := by omega
  by_cases h3 : a > x / 2
  · simp only [h1, h2, h3, if_false, if_true]
    have : phi x.toNat a.toNat = 1 := phi_eq_one_of_half hx (by omega)
    simp [this]
  by_cases h4 : a.toNat ≤ phiTinyMaxA
  · simp only [h1, h2, h3, h4, if_false, if_true]
    simp only [phiTinyMaxA] at h4
    simp [hP.tiny _ _ h4]
  by_cases h5 : a.toNat ≥ P.pixUpper x.toNat
  · simp only [h1, h2, h3, h4, h5, if_false, if_true]
    have : phi x.toNat a.toNat = 1 := phi_eq_one_of_pi_le hx (le_trans hP.pixUpperX h5)
    simp [this]
  by_cases h6 : a.toNat > P.pixUpper (Nat.sqrt x.toNat)
  · simp only [h1, h2, h3, h4, h5, h6, if_false, if_true]
    have := phiPix_correct (a := a.toNat) hx (lt_of_le_of_lt hP.pixUpperSqrt h6)
    simp [hP.piFn, this]
  by_cases h7 : a.toNat > P.piTab (Nat.sqrt x.toNat)
  · simp only [h1, h2, h3, h4, h5, h6, h7, if_false, if_true]
    rw [hP.piTab _ le_rfl] at h7
    have := phiPix_correct (a := a.toNat) hx h7
    simp [hP.piFn, this]
  · simp only [h1, h2, h3, h4, h5, h6, h7, if_false]
    rw [hP.piTab _ le_rfl] at h7
    simp only [phiTinyMaxA] at h4
    simp
    refine ⟨by omega, by omega, by omega⟩

/-- **phi_OpenMP is exact and schedule independent**: for every order in which the reduction adds the loop
    indices, every assignment of cache objects / cache states to the indices, the result is the Legendre sum -/
theorem phiOpenMP_correct (P : PhiTop) (x a : ℤ) (hP : TopOK P x.toNat a.toNat)
    (order : List ℕ) (horder : order.Perm (List.range' 9 (a.toNat - 8)))
    (sched : ℕ → PhiCacheL1 × ℕ) (hsched : ∀ i, CacheOK (sched i)) :
    phiOpenMP P order sched x a = phiZ x a := by
  obtain ⟨g0, g1, g2, g3, g4, g5, g6, g7⟩ := phi_guards P x a hP
  unfold phiOpenMP
  cases hg : phiGuards P x a with
  | zero => simp only; exact (g0 hg).symm
  | x => simp only; exact (g1 hg).symm
  | one => simp only; exact (g2 hg).symm
  | tiny => simp only; exact (g3 hg).symm
  | pixUpper => simp only; exact (g4 hg).symm
  | phiPix1 => simp only; exact (g5 hg).symm
  | phiPix2 => simp only; exact (g6 hg).symm
  | main =>
    obtain ⟨hx, ha, hle⟩ := g7 hg
    simp only
    set xn := x.toNat with hxn
    set an := a.toNat with han
    have hxn1 : 1 ≤ xn := by omega
    have han9 : 9 ≤ an := by omega
    have hpa : p an ≤ Nat.sqrt xn := p_le_of_le_pi (by omega) hle
    have hphiZ : phiZ x a = (phi xn an : ℤ) := by
      unfold phiZ; rw [if_neg (by omega), if_neg (by omega)]
    rw [hphiZ, (horder.map _).sum_eq, hP.tiny _ _ (by norm_num [phiTinyMaxA])]
    have htel := phi_telescope xn 8 (an - 8)
    rw [show 8 + (an - 8) = an by omega] at htel
    rw [htel]
    simp only [phiTinyMaxA]
    congr 1
    congr 1
    apply List.map_congr_left
    intro i hi
    rw [List.mem_range'_1] at hi
    have hi1 : 1 ≤ i := by omega
    have hia : i ≤ an := by omega
    have hE : EnvOK { prime := P.prime, piSize := Nat.sqrt xn + 1, piTab := P.piTab, tiny := P.tiny,
                      cache := (sched i).1 } an :=
      { prime0 := hP.prime0
        prime := hP.prime
        pi := fun v hv => hP.piTab v (by have : v < Nat.sqrt xn + 1 := hv; omega)
        tiny := hP.tiny
        val := (hsched i).1 }
    have hpi : p i ≤ Nat.sqrt xn := le_trans (p_mono hi1 hia) hpa
    have hpx : p i ≤ xn := le_trans hpi (Nat.sqrt_le_self _)
    have hpos : 0 < p i := by have := two_le_p i; omega
    have hy : 1 ≤ xn / p i := (Nat.one_le_div_iff hpos).2 hpx
    have := (phiRecAlg_correct hE (i + 1) (-1) (xn / P.prime i) (i - 1) (sched i).2 (by omega) (by omega)
      (by rw [hP.prime i hi1 hia]; exact hy) (hsched i).2).1
    rw [this, hP.prime i hi1 hia]
    ring

lemma inBetween_bounds (t m : ℤ) : 1 ≤ inBetween 1 t m ∧ inBetween 1 t m ≤ max 1 t := by
  unfold inBetween
  split
  · exact ⟨le_rfl, le_max_left _ _⟩
  · rename_i h
    simp only [Bool.or_eq_true, decide_eq_true_eq, not_or, not_lt] at h
    split
    · rename_i h2
      exact ⟨h.2, le_trans (le_of_lt h2) (le_max_right _ _)⟩
    · exact ⟨h.1, le_max_right _ _⟩

/-- L2 safety of the thread count (repaired `ideal_num_threads`): for every int64 `x ≥ 0` no intermediate
    leaves int64 and the thread count is between 1 and `max 1 threads` -/
theorem phiThreads_safe (x a : ℕ) (threads : ℤ) (hx : (x : ℤ) < 2 ^ 63) :
    ∃ t, phiThreads x a threads = some t ∧ 1 ≤ t ∧ t ≤ max 1 threads := by
  unfold phiThreads
  have hr : ITy.i64.inRange ((x : ℤ) / 10000000000 + (if (x : ℤ) % 10000000000 > 0 then 1 else 0)) = true := by
    have hmax : ((ITy.i64.maxVal : ℕ) : ℤ) = 2 ^ 63 - 1 := by norm_num [ITy.maxVal, ITy.i64]
    have hmin : ITy.i64.minVal = -(2 ^ 63) := by norm_num [ITy.minVal, ITy.i64]
    simp only [ITy.inRange, hmax, hmin, Bool.and_eq_true, decide_eq_true_eq]
    split <;> omega
  simp only [hr, if_true]
  refine ⟨_, rfl, ?_⟩
  have := inBetween_bounds (min threads (Nat.sqrt a : ℤ))
    ((x : ℤ) / 10000000000 + (if (x : ℤ) % 10000000000 > 0 then 1 else 0))
  exact ⟨this.1, le_trans this.2 (max_le_max le_rfl (min_le_left _ _))⟩

/-- the pre-repair `ceil_div` overflowed above `2^63 - 10^10` (phi.cpp:387 / imath.hpp:38; fixed in 176f90f) -/
theorem phiThreadsOld_overflow (x a : ℕ) (threads : ℤ) (hx : 2 ^ 63 - 1 < (x : ℤ) + 10000000000 - 1) :
    phiThreadsOld x a threads = none := by
  have hmax : ((ITy.i64.maxVal : ℕ) : ℤ) = 2 ^ 63 - 1 := by norm_num [ITy.maxVal, ITy.i64]
  unfold phiThreadsOld
  simp only [hmax]
  rw [if_pos (by omega)]

/-- `phi<SIGN>` for the two template instances: the value is `SIGN` times the unsigned one -/
theorem phi_sign {E : PhiEnv} {A : ℕ} (hE : EnvOK E A) (fuel x a mac : ℕ) (hf : a < fuel) (ha : a < A)
    (hx : 1 ≤ x) (hm : mac ≤ E.cache.maxA) :
    (phiRecAlg E fuel (-1) x a mac).1 = -(phiRecAlg E fuel 1 x a mac).1 := by
  rw [(phiRecAlg_correct hE fuel (-1) x a mac hf ha hx hm).1, (phiRecAlg_correct hE fuel 1 x a mac hf ha hx hm).1]
  ring

end Pc.PhiAlgProofs
