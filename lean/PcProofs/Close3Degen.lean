/-
WP close3, item 2 (gourdon): the generic core for the DEGENERATE arguments `2 ≤ x < 16` of `pi_gourdon_64/128`, where the clamps of
pi_gourdon.cpp give `y = z ≤ x^(1/3)` and `k = 0`, so that Gourdon's identity (`Spec.GParams`) is not available.
`piGourdon_degen` = `piGourdon_tiny_partial` (Close2Tiny.lean) with the parameters `(y, z) = (y, y)` and the three case-specific facts
(the value `S` of the Sigma model, `AC = 0`, the numeric identity `0 − B + 0 + Φ0 + S = π(x)`) as hypotheses; the terms Phi0, B, D are
discharged here through the existing loop theorems (`phi0OpenMP_eq`, `bOpenMP_eq_sharp`, `dThread_eq_noleaf`).
Instantiated in Close3Eight.lean (`x = 8`, `y = 1`) and Close3YTwo.lean (`9 ≤ x ≤ 15`, `y = 2`).
-/
import PcProofs.Close2TinyTop

namespace Pc.Top
open Nat Finset Pc.LB Pc.Hard PcGen.ApiConst
open scoped Nat.Prime

/-- `dF = 0` when no level above `k` has a leaf -/
theorem dF_zero_of_noleaf {x y z k xs : ℕ} (hyz : y ≤ z) (hnl : ∀ b, k < b → x / (Spec.p b * Spec.p b * Spec.p b) < Spec.p b) (w : LB.Chunk) :
    dF x y z k xs w = 0 := by
  unfold dF
  apply Finset.sum_eq_zero
  intro b hb
  rw [mem_Ioc] at hb
  exact WSD_zero_of_noleaf hyz (by omega) (hnl b hb.1)

/-- **the degenerate core**: `2 ≤ x < 16`, the clamps give `y = z` (`hY`, `hZ`), `k = 0`; Phi0, B, D by their loop theorems, Sigma / AC /
    the numeric identity supplied by the caller for the concrete argument -/
theorem piGourdon_degen {σ : Type} (T : Tables σ) {B : ℕ} (hT : TablesOK T B) (pi : ℕ → ℕ) (wide : Bool) (x : ℕ)
    (threads : ℤ) (isPrint : Bool) (r : GRun) (hx2 : 2 ≤ x) (hx16 : x < 16)
    (hpi : ∀ n, n < x → pi n = π n)
    (henv : ∃ ay az : ℚ, GourdonEnv x ay az r.fo) (haccept : wide = true → (x : ℤ) ≤ r.fo.maxX)
    (y : ℕ) (hy1 : 1 ≤ y) (hy4 : y ≤ 4) (hY : gY x r.fo.v = (y : ℤ)) (hZ : gZ x (y : ℤ) (r.fo.w (y : ℤ)) = (y : ℤ))
    (hphi0 : IsSchedule (0 + 1) (π y) r.phi0)
    (hb : 4 ≤ x → r.b.valid T.lc x (x / max y 1) = true)
    (hyB : y ≤ B) (hyb : y ≤ T.t.bound)
    (S : ℤ) (hsig : sigma T.t (widthTy wide) x y = .ok S)
    (hac : Easy.acEntry .libdivide T.t (widthTy wide) x y y 0 r.acC1 r.acSegs = .ok 0)
    (hid : (0 : ℤ) - Spec.B x y + 0 + Spec.Phi0 x y y 0 + S = (π x : ℤ)) :
    piGourdon T pi wide (x : ℤ) threads isPrint r = .ok (π x : ℤ) ∨
      piGourdon T pi wide (x : ℤ) threads isPrint r = .error (.hard .badRun) := by
  obtain ⟨ay, az, ha⟩ := henv
  have hpar : gourdonL2 wide x threads r.fo = .ok (gOutPure wide x threads r.fo) := by
    cases wide
    · exact (gourdon64_accept x threads ay az r.fo hx2 (by omega) ha).1
    · exact (gourdon128_accept x threads ay az r.fo hx2 (by omega) ha (haccept rfl)).1
  have hK : getK x = 0 := getK_tiny (by omega) hx16
  have hyn : ((y : ℕ) : ℤ).toNat = y := Int.toNat_natCast y
  have hwy : y * y ≤ (widthTy wide).maxVal := by
    have : y * y ≤ 16 := Nat.mul_le_mul hy4 hy4
    cases wide
    · have : (widthTy false).maxVal = 2 ^ 63 - 1 := by decide
      omega
    · have : (widthTy true).maxVal = 2 ^ 127 - 1 := by decide
      omega
  have hnl := noleaf_of_r4 (getK_eq_pi_r4 (x := x) (by omega))
  rw [hK] at hnl
  unfold piGourdon
  rw [if_neg (by omega)]
  simp only [Int.toNat_natCast]
  rw [liftP_ok hpar, TM_bind_ok]
  simp only [gOutPure]
  rw [hY, hZ, hyn, hK]
  rw [liftL_ok hsig, TM_bind_ok]
  -- Phi0
  have hphi0' := phi0OpenMP_eq hT.valid (w := widthTy wide) (x := x) (y := y) (z := y) (k := 0) hy1 hyb (by omega) le_rfl hwy hphi0
  rw [liftL_ok hphi0', TM_bind_ok]
  -- AC
  rw [liftE_ok hac, TM_bind_ok]
  -- B
  have hbb := P2L.bOpenMP_eq_sharp hT.iter y (fun n _ hn => hpi n hn) T.lc hT.consts
    (by unfold two63; exact lt_of_le_of_lt (Nat.div_le_self _ _) (by omega)) r.b hb
  rw [liftP2_ok hbb, TM_bind_ok]
  -- D
  have hz0 : (y : ℕ) ≠ 0 := by omega
  have hd := dOpenMP_ok_or_badRun T.S (T.dEnv y y) T.lc hT.consts x y y 0
    (idealNumThreads ((x : ℤ) / (y : ℤ)) (min threads (r.fo.mt ((x : ℤ) / (y : ℤ)))) (2 ^ 20)).toNat isPrint hz0
    (dF x y y 0 (xStar x y)) (dF_additive x y y 0 (xStar x y)) ?_ r.d
  · rcases hd with hh | hh
    · left
      rw [liftH_ok hh, TM_bind_ok]
      show (Except.ok _ : TM ℤ) = _
      congr 1
      rw [dF_zero_of_noleaf le_rfl hnl]
      exact hid
    · right
      rw [liftH_err hh]
      rfl
  · intro low segs size hg hlow
    exact dThread_eq_noleaf (S := T.S) (x := x) (xs := xStar x y) (xz := x / y) (y := y) (z := y) (k := 0) (low := low)
      (segments := segs) (segSize := size) (hT.dEnv y y hyB) le_rfl (Nat.sqrt_le_self y) (xStar_le_y hy1)
      hnl hg.size_pos hg.segs_pos hlow

end Pc.Top

#print axioms Pc.Top.piGourdon_degen
