/-
C06 (WP nth): `nth_prime` over the real iterator model (PcModel/NthIt.lean) returns the n-th prime.
`nextLoop_eq` / `prevLoop_eq`: k calls of `next_prime()` / `prev_prime()` on a fresh `primesieve::iterator(start, hint)` return the
k-th prime `≥ start` / `≤ start` (PcProofs/NthIt.lean step lemmas + the counting facts of PcProofs/NthPrime.lean);
`walkIt_eq`: both branches of nth_prime.cpp:111-126 for EVERY approximation in `[0, 2^63)`;
`nthPrimeCpp_ok`: the whole function.
-/
import PcProofs.NthIt
import PcProofs.NthPrime
import PcModel.NthIt

namespace Pc.NthIt
open Nat Pc.It

local notation "π" => Nat.primeCounting
local notation "hInf" => Nat.infinite_setOfPred_prime

theorem toI64_small (u : ℕ) (h : u < 2 ^ 63) : toI64 u = (u : ℤ) := by
  unfold toI64; rw [if_pos (by omega)]

theorem toU64_natCast (x : ℕ) (h : x < 2 ^ 64) : toU64 (x : ℤ) = x := by
  unfold toU64
  rw [Int.emod_eq_of_lt (by omega) (by omega)]
  exact Int.toNat_natCast x

theorem toU64_le (x : ℤ) : toU64 x ≤ umax := by
  unfold toU64 umax
  have := Int.emod_lt_of_pos x (show (0 : ℤ) < 18446744073709551616 by norm_num)
  have := Int.emod_nonneg x (show (18446744073709551616 : ℤ) ≠ 0 by norm_num)
  omega

/-- the smallest prime `≥ m` is the prime of index `#{primes < m}` -/
theorem isNext_eq {m q : ℕ} (h : IsNextP m q) : q = Nat.nth Nat.Prime (Nat.count Nat.Prime m) :=
  nthp_next_eq_nth h.2.1 h.1 (fun x h1 h2 => h.2.2 x h1 h2)

/-- k+1 calls of `next_prime()` -/
theorem nextLoop_eq (e : It.Env) (he : GenSpec e) :
    ∀ (k : ℕ) (s : St) (m : ℕ) (init : ℤ), FwdInv s m → Nat.nth Nat.Prime (Nat.count Nat.Prime m + k) < 2 ^ 63 →
      nextLoop e (k + 1) s init = .ok ((Nat.nth Nat.Prime (Nat.count Nat.Prime m + k) : ℕ) : ℤ) := by
  intro k
  induction k with
  | zero =>
    intro s m init h hb
    simp only [Nat.add_zero] at hb ⊢
    have hm : m ≤ Nat.nth Nat.Prime (Nat.count Nat.Prime m) := Nat.le_nth_count hInf m
    obtain ⟨q, s', h1, h2, _⟩ := nextPrime_step e he s m h
      ⟨_, Nat.prime_nth_prime _, hm, by unfold umax; omega⟩
    rw [nextLoop, h1]
    simp only [nextLoop]
    rw [← isNext_eq h2] at hb ⊢
    rw [toI64_small q hb]
  | succ k ih =>
    intro s m init h hb
    have hm : m ≤ Nat.nth Nat.Prime (Nat.count Nat.Prime m) := Nat.le_nth_count hInf m
    have hmono : Nat.nth Nat.Prime (Nat.count Nat.Prime m) ≤ Nat.nth Nat.Prime (Nat.count Nat.Prime m + (k + 1)) :=
      Nat.nth_monotone hInf (by omega)
    obtain ⟨q, s', h1, h2, h3⟩ := nextPrime_step e he s m h
      ⟨_, Nat.prime_nth_prime _, hm, by unfold umax; omega⟩
    have hq := isNext_eq h2
    have hc : Nat.count Nat.Prime (q + 1) = Nat.count Nat.Prime m + 1 := by
      rw [hq]; exact Nat.count_nth_succ_of_infinite hInf _
    rw [nextLoop, h1]
    simp only []
    have := ih s' (q + 1) (toI64 q) h3 (by rw [hc]; rw [show Nat.count Nat.Prime m + 1 + k = Nat.count Nat.Prime m + (k + 1) by omega]; exact hb)
    rw [this, hc]
    congr 3
    omega

/-- the largest prime `≤ t` is the prime of index `π t - 1` -/
theorem isPrev_eq {t p : ℕ} (h : IsPrevP t p) : p = Nat.nth Nat.Prime (π t - 1) ∧ 1 ≤ π t ∧ π (p - 1) = π t - 1 := by
  obtain ⟨h1, h2⟩ := nthp_prev_eq_nth h.2.1 h.1 (fun x hx hxt hxp => by have := h.2.2 x hxp hxt; omega)
  refine ⟨h1, h2, ?_⟩
  rw [Nat.primeCounting_sub_one, h1]
  exact Nat.primeCounting'_nth_eq _

/-- k+1 calls of `prev_prime()` -/
theorem prevLoop_eq (e : It.Env) (he : GenSpec e) :
    ∀ (k : ℕ) (s : St) (t : ℕ) (init : ℤ), BwdInv s t → k + 1 ≤ π t → t < 2 ^ 63 →
      prevLoop e (k + 1) s init = .ok ((Nat.nth Nat.Prime (π t - (k + 1)) : ℕ) : ℤ) := by
  intro k
  induction k with
  | zero =>
    intro s t init h hk ht
    have h2t : 2 ≤ t := nthp_one_le_pi_iff.1 hk
    obtain ⟨p, s', h1, h2, _⟩ := prevPrime_step e he s t h ⟨2, Nat.prime_two, h2t⟩
    rw [prevLoop, h1]
    simp only [prevLoop]
    rw [← (isPrev_eq h2).1, toI64_small p (by have := h2.2.1; omega)]
  | succ k ih =>
    intro s t init h hk ht
    have h2t : 2 ≤ t := nthp_one_le_pi_iff.1 (by omega)
    obtain ⟨p, s', h1, h2, h3⟩ := prevPrime_step e he s t h ⟨2, Nat.prime_two, h2t⟩
    obtain ⟨_, _, hpi⟩ := isPrev_eq h2
    rw [prevLoop, h1]
    simp only []
    have := ih s' (p - 1) (toI64 p) h3 (by rw [hpi]; omega) (by have := h2.2.1; omega)
    rw [this, hpi]
    congr 3
    omega

/-- nth_prime.cpp:106-128: for EVERY approximation `a ∈ [0, 2^63)` (a prime, below 2, with `π a = n` exactly, far off in either
    direction), every `ilog` outcome (hence every stop hint), every float outcome / batching inside the iterator and every core
    meeting `GenSpec`: the walk ends on the n-th prime, provided `p n < 2^63` -/
theorem walkIt_eq (e : It.Env) (he : GenSpec e) (a n : ℕ) (lg : ℤ) (hn : 1 ≤ n) (ha : a < 2 ^ 63) (hp : Spec.p n < 2 ^ 63) :
    walkIt e (a : ℤ) (n : ℤ) ((π a : ℕ) : ℤ) lg = .ok ((Spec.p n : ℕ) : ℤ) := by
  unfold walkIt
  simp only []
  by_cases hc : π a < n
  · have hlt : a < Spec.p n := (nthp_pi_lt_iff hn).1 hc
    rw [if_pos (by omega), if_neg (by unfold i64Max; omega)]
    have hstart : toU64 ((a : ℤ) + 1) = a + 1 := by
      rw [show ((a : ℤ) + 1) = ((a + 1 : ℕ) : ℤ) by push_cast; ring]; exact toU64_natCast _ (by omega)
    obtain ⟨k, hk⟩ : ∃ k, ((n : ℤ) - ((π a : ℕ) : ℤ)).toNat = k + 1 := ⟨n - π a - 1, by omega⟩
    have hidx : Nat.count Nat.Prime (a + 1) + k = n - 1 := by rw [← nthp_pi_eq_count]; omega
    rw [hk, hstart, nextLoop_eq e he k _ (a + 1) (-1) (fwdInv_init _ _ (by unfold umax; omega) (by unfold fwdHint; exact toU64_le _))
      (by rw [hidx, ← nthp_p_eq_nth]; exact hp), hidx, ← nthp_p_eq_nth]
    rfl
  · rw [if_neg (by omega)]
    obtain ⟨k, hk⟩ : ∃ k, (((π a : ℕ) : ℤ) - (n : ℤ) + 1).toNat = k + 1 := ⟨π a - n, by omega⟩
    have hidx : π a - (k + 1) = n - 1 := by omega
    rw [hk, toU64_natCast a (by omega), prevLoop_eq e he k _ a (-1) (bwdInv_init _ _ (by unfold umax; omega))
      (by omega) ha, hidx, ← nthp_p_eq_nth]
    rfl

/-! ### the whole function -/

/-- what `nth_prime_cpp_correct` assumes about the callees, by name -/
structure Env.Contracts (env : NthIt.Env) : Prop where
  /-- WP iter / WP core: the sieving core behind `PrimeGenerator` delivers exactly the primes of a window
      (`GenSpec`, PcProofs/IterRefine.lean; C18Core) -/
  core : GenSpec env.ie
  /-- WP top: `primecount::pi(x) = π(x)` for int64 `x ≥ 0` (C01Top `piApi64_step` + `pi_noprint_is_pi`) -/
  pi : ∀ x : ℕ, x < 2 ^ 63 → env.pi (x : ℤ) = ((π x : ℕ) : ℤ)
  /-- C17: `PiTable::pi_cache(x) = π x` for `x ≤ max_cached()` -/
  piCache : ∀ m ≤ Gen.nthPrimeMaxCached, env.piCache m = π m
  /-- `RiemannR_inverse(n)` is a non-negative int64 (`RiemannR_inverse_overflow_check` clamps at INT64_MAX; nothing else is
      assumed about the value) -/
  approx_range : ∀ n : ℕ, 1 ≤ n → ∃ a : ℕ, a < 2 ^ 63 ∧ env.approx (n : ℤ) = (a : ℤ)

theorem nthPrimeCpp_ok (env : NthIt.Env) (henv : env.Contracts) (hlit : Spec.p Gen.nthPrimeMaxN < 2 ^ 63) (n : ℕ) (h1 : 1 ≤ n)
    (h2 : n ≤ Gen.nthPrimeMaxN) : nthPrimeCpp env (n : ℤ) = .ok ((Spec.p n : ℕ) : ℤ) := by
  have hfit : Spec.p n < 2 ^ 63 := by
    rcases Nat.eq_or_lt_of_le h2 with rfl | hlt
    · exact hlit
    · exact lt_trans (nthp_p_strictMono h1 hlt) hlit
  unfold nthPrimeCpp
  rw [if_neg (by omega), if_neg (by omega)]
  simp only [Int.toNat_natCast]
  split_ifs with ht hb
  · rw [nthTable_eq n h1 ht]
  · have h5 : 5 ≤ Gen.nthPrimeTableSize := by decide
    rw [henv.piCache _ le_rfl] at hb
    have hM : Spec.p n ≤ Gen.nthPrimeMaxCached := by
      rw [nthp_p_eq_nth]
      exact Nat.lt_succ_iff.1 (Nat.nth_lt_of_lt_count (by rw [← nthp_pi_eq_count]; omega))
    have h2n := nthp_two_mul_add_one_le_p (n := n) (by omega)
    rw [bsearch_eq _ _ n h1 henv.piCache (by omega) hM]
  · obtain ⟨a, ha, hae⟩ := henv.approx_range n h1
    rw [hae, henv.pi a ha, walkIt_eq env.ie henv.core a n _ h1 ha hfit]

theorem nthPrimeCpp_err (env : NthIt.Env) (n : ℤ) (h : n < 1 ∨ n > (Gen.nthPrimeMaxN : ℤ)) :
    nthPrimeCpp env n = .error (if n < 1 then .tooSmall else .tooLarge) := by
  unfold nthPrimeCpp
  by_cases h1 : n < 1
  · simp [h1]
  · have h2 : n > (Gen.nthPrimeMaxN : ℤ) := by omega
    simp [h1, h2]

end Pc.NthIt
