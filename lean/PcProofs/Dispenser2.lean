/-
C09 / C03 proofs, part 2: step laws of P2 and AC, sum accounting of S2, per-step overflow bounds,
atomic fetch-add counter. Core Lean only.
-/
import PcProofs.Dispenser
namespace Pc.LB

/-! ## more generic consequences of a step law -/
namespace Sys
variable {σ ε : Type} {S : Sys σ ε} {inv : σ → Prop}

/-- an exhausted dispenser stays exhausted -/
theorem pos_final_ge (L : S.Law inv) : ∀ (es : List ε) (s : σ), inv s → S.accepts s es = true →
    S.limit ≤ S.pos s → S.limit ≤ S.pos (S.final s es) := by
  intro es
  induction es with
  | nil => intro s _ _ h; exact h
  | cons e es ih =>
    intro s hi hacc h
    simp only [accepts, Bool.and_eq_true] at hacc
    obtain ⟨hi', d, _, hpos, _⟩ := L.step s e hi hacc.1
    exact ih (S.next s e) hi' hacc.2 (by omega)

/-- once the range is exhausted the chunks handed out cover it exactly -/
theorem covers (L : S.Law inv) (s : σ) (es : List ε) (hi : inv s) (hacc : S.accepts s es = true)
    (h0 : S.pos s ≤ S.limit) (hdone : S.limit ≤ S.pos (S.final s es)) :
    Chain (S.pos s) S.limit (S.chunks es) := by
  have := chain L s es hi hacc
  rwa [Nat.min_eq_left h0, Nat.min_eq_right hdone] at this

/-- a request that was answered `false` means the range is exhausted (then and for ever) -/
theorem none_exhausted (L : S.Law inv) (s : σ) (pre : List ε) (e : ε) (post : List ε) (hi : inv s)
    (hacc : S.accepts s (pre ++ e :: post) = true) (hn : S.chunk e = none) :
    S.limit ≤ S.pos (S.final s (pre ++ e :: post)) := by
  rw [accepts_append] at hacc
  simp only [Bool.and_eq_true] at hacc
  have hi1 := inv_final L s pre hi hacc.1
  have hacc2 := hacc.2
  have hok : S.ok (S.final s pre) e = true := by
    simp only [accepts, Bool.and_eq_true] at hacc2; exact hacc2.1
  obtain ⟨_, d, _, _, hch⟩ := L.step _ e hi1 hok
  have hex : S.limit ≤ S.pos (S.final s pre) := by
    rw [hn] at hch
    by_cases hw : S.pos (S.final s pre) < S.limit
    · simp [hw] at hch
    · omega
  rw [final_append]
  exact pos_final_ge L _ _ hi1 hacc2 hex

/-- after exhaustion every request is answered `false` -/
theorem stops_after (L : S.Law inv) (s : σ) (pre post : List ε) (hi : inv s)
    (hacc : S.accepts s (pre ++ post) = true) (h : S.limit ≤ S.pos (S.final s pre)) :
    S.chunks post = [] := by
  rw [accepts_append] at hacc
  simp only [Bool.and_eq_true] at hacc
  exact stops L _ post (inv_final L s pre hi hacc.1) hacc.2 h

/-- every granted request advances the position -/
theorem progress_at (L : S.Law inv) (s : σ) (pre : List ε) (e : ε) (post : List ε) (hi : inv s)
    (hacc : S.accepts s (pre ++ e :: post) = true) (h : S.pos (S.final s pre) < S.limit) :
    S.pos (S.final s pre) < S.pos (S.final s (pre ++ [e])) := by
  rw [accepts_append] at hacc
  simp only [Bool.and_eq_true, accepts] at hacc
  rw [final_append]
  exact progress L _ e (inv_final L s pre hi hacc.1) hacc.2.1 h

end Sys

/-! ## P2 -/
namespace P2

/-- `thread_dist_ ≥ 1` unless the single-thread/no-status rule recomputes it on every call -/
def Inv (cfg : Config) (s : State) : Prop :=
  1 ≤ s.minDist ∧ ((cfg.threads = 1 ∧ cfg.print = false) ∨ 1 ≤ s.dist)

theorem next_facts (cfg : Config) (s : State) (low23 : Nat) (hi : Inv cfg s) :
    Inv cfg (next cfg s low23) ∧
    (next cfg s low23).low = min (min s.low cfg.limit + (next cfg s low23).dist) cfg.limit ∧
    (s.low < cfg.limit → 0 < (next cfg s low23).dist) := by
  obtain ⟨h1, h2⟩ := hi
  unfold next
  by_cases ht : cfg.threads = 1
  · simp only [ht, if_true]
    by_cases hp : cfg.print = false
    · simp only [hp, if_true, Inv]
      refine ⟨⟨h1, Or.inl ⟨ht, trivial⟩⟩, trivial, ?_⟩
      intro h; omega
    · simp only [hp, Inv]
      have h3 : 1 ≤ s.dist := by
        rcases h2 with ⟨_, h⟩ | h
        · exact absurd h hp
        · exact h
      exact ⟨⟨h1, Or.inr h3⟩, trivial, fun _ => h3⟩
  · simp only [ht, if_false, Inv]
    refine ⟨⟨by omega, Or.inr ?_⟩, trivial, fun _ => ?_⟩ <;> (split <;> omega)

theorem ok_parts {cfg : Config} {s : State} {e : Ev} (h : ok cfg s e = true) :
    e.low = min s.low cfg.limit ∧ e.high = (next cfg s (choose cfg s e)).low ∧
      e.work = decide (min s.low cfg.limit < cfg.limit) := by
  simp only [ok, outOk, Bool.and_eq_true, beq_iff_eq] at h
  exact ⟨h.1.1.1, h.1.1.2, h.1.2⟩

theorem law (cfg : Config) : (sys cfg).Law (Inv cfg) := by
  constructor
  intro s e hi hok
  have hok' : ok cfg s e = true := hok
  obtain ⟨h1, h2, h3⟩ := ok_parts hok'
  obtain ⟨hinv, hlow, hpos⟩ := next_facts cfg s (choose cfg s e) hi
  refine ⟨hinv, (next cfg s (choose cfg s e)).dist, hpos, ?_, ?_⟩
  · show min (next cfg s (choose cfg s e)).low cfg.limit = min (s.low + _) cfg.limit
    rw [hlow]; omega
  · show chunkOf e = if s.low < cfg.limit then _ else none
    simp only [chunkOf, h1, h2, h3, sys]
    by_cases hw : s.low < cfg.limit
    · have : min s.low cfg.limit < cfg.limit := by omega
      have h4 : min s.low cfg.limit = s.low := by omega
      simp only [hw, decide_true, if_true, hlow, h4]
    · have : ¬ min s.low cfg.limit < cfg.limit := by omega
      simp [this, hw]

theorem init_inv (c : Consts) (hc : c.WF) (cfg : Config) (x limit team : Nat) : Inv cfg (init c x limit team) := by
  have := hc.p2MinDist
  simp only [init, Inv]
  exact ⟨this, Or.inr (by omega)⟩

/-- every chunk stays below the limit (P2 clips `high` itself) -/
theorem init_low_le (c : Consts) (x limit team : Nat) : (init c x limit team).low ≤ limit := by
  simp only [init]; omega

end P2

/-! ## AC -/
namespace AC

structure CfgWF (cfg : Config) : Prop where
  al : cfg.al = 240
  incr : 1 ≤ cfg.incr

def Inv (cfg : Config) (s : State) : Prop :=
  (s.low < cfg.sqrtx → 1 ≤ s.segs) ∧ 240 ∣ s.size ∧ 240 ≤ s.size ∧ (240 ∣ s.low ∨ cfg.sqrtx ≤ s.low)

theorem tuned_facts (cfg : Config) (hc : CfgWF cfg) (s : State) (e : Ev) (fire : Bool)
    (h1 : 1 ≤ s.segs) (h2 : 240 ∣ s.size) (h3 : 240 ≤ s.size) :
    (tuned cfg s e fire).low = s.low ∧ 1 ≤ (tuned cfg s e fire).segs ∧ 240 ∣ (tuned cfg s e fire).size ∧
      240 ≤ (tuned cfg s e fire).size := by
  unfold tuned
  split
  · unfold grow
    split
    · exact ⟨rfl, Nat.mul_pos h1 hc.incr, h2, h3⟩
    · have := alignTo_spec (min (s.size * cfg.incr) cfg.maxSize)
      simp only [hc.al]
      exact ⟨trivial, h1, this.1, this.2.1⟩
  · exact ⟨rfl, h1, h2, h3⟩

theorem law (cfg : Config) (hc : CfgWF cfg) : (sys cfg).Law (Inv cfg) := by
  constructor
  intro s e hi hok
  have hok' : ok cfg s e = true := hok
  simp only [ok, Bool.and_eq_true] at hok'
  have hout := hok'.1
  obtain ⟨hs, h2, h3, h4⟩ := hi
  by_cases hx : cfg.sqrtx ≤ s.low
  · -- exhausted: nothing changes, the answer is `false`
    have hn : next cfg s e (choose cfg s e) = s := by simp [next, hx]
    simp only [outOk, hx, if_true, Bool.and_eq_true, beq_iff_eq] at hout
    refine ⟨?_, 0, fun h => absurd h (by show ¬ s.low < cfg.sqrtx; omega), ?_, ?_⟩
    · show Inv cfg (next cfg s e (choose cfg s e)); rw [hn]; exact ⟨hs, h2, h3, h4⟩
    · show min (next cfg s e (choose cfg s e)).low cfg.sqrtx = min (s.low + 0) cfg.sqrtx; rw [hn]; rfl
    · show chunkOf cfg e = if s.low < cfg.sqrtx then _ else none
      have : ¬ s.low < cfg.sqrtx := by omega
      simp [chunkOf, hout.1.1.1, this]
  · have hlt : s.low < cfg.sqrtx := by omega
    obtain ⟨t1, t2, t3, t4⟩ := tuned_facts cfg hc s e (choose cfg s e) (hs hlt) h2 h3
    have hl : (next cfg s e (choose cfg s e)).low =
        min (s.low + (tuned cfg s e (choose cfg s e)).size * (tuned cfg s e (choose cfg s e)).segs) cfg.sqrtx := by
      simp [next, hx, t1]
    have hsg : (next cfg s e (choose cfg s e)).segs = (tuned cfg s e (choose cfg s e)).segs := by simp [next, hx]
    have hsz : (next cfg s e (choose cfg s e)).size = (tuned cfg s e (choose cfg s e)).size := by simp [next, hx]
    simp only [outOk, hx, if_false, Bool.and_eq_true, beq_iff_eq] at hout
    have hmul : 240 ∣ (tuned cfg s e (choose cfg s e)).size * (tuned cfg s e (choose cfg s e)).segs :=
      Nat.dvd_mul_right_of_dvd t3 _
    have hpos : 0 < (tuned cfg s e (choose cfg s e)).size * (tuned cfg s e (choose cfg s e)).segs :=
      Nat.mul_pos (by omega) t2
    have hlow : 240 ∣ s.low := by
      rcases h4 with h | h
      · exact h
      · omega
    refine ⟨?_, _, fun _ => hpos, ?_, ?_⟩
    · show Inv cfg (next cfg s e (choose cfg s e))
      refine ⟨fun _ => by rw [hsg]; exact t2, by rw [hsz]; exact t3, by rw [hsz]; exact t4, ?_⟩
      rw [hl]
      by_cases hc2 : s.low + (tuned cfg s e (choose cfg s e)).size * (tuned cfg s e (choose cfg s e)).segs ≤ cfg.sqrtx
      · left; rw [Nat.min_eq_left hc2]; exact (Nat.dvd_add_right hlow).2 hmul
      · right; omega
    · show min (next cfg s e (choose cfg s e)).low cfg.sqrtx = min (s.low + _) cfg.sqrtx
      rw [hl]; omega
    · show chunkOf cfg e = if s.low < cfg.sqrtx then _ else none
      simp [chunkOf, hout.1.1.1, hout.1.1.2, hout.1.2, hout.2, hlt]
      exact ⟨rfl, rfl⟩

theorem ceilDiv_pos (a m : Nat) (ha : 1 ≤ a) (hm : 1 ≤ m) : 1 ≤ ceilDiv a m := by
  unfold ceilDiv
  exact (Nat.le_div_iff_mul_le hm).2 (by omega)

theorem init_inv (c : Consts) (hc : c.WF) (sqrtx y threads : Nat) (print : Bool) :
    Inv (mkConfig c sqrtx y threads print) (init c sqrtx threads print) := by
  have hsz := alignTo_spec (max (c.acMinBytes * c.acNumbersPerByte)
    (if threads = 1 ∧ print = false then max (ctSqrt sqrtx) (c.l1Cache * c.acNumbersPerByte) else ctSqrt sqrtx))
  simp only [Inv, init, initSize, hc.piAlign, mkConfig]
  refine ⟨?_, hsz.1, hsz.2.1, Or.inl (by omega)⟩
  intro h
  split
  · exact ceilDiv_pos _ _ (by omega) (by have := hc.acL1; omega)
  · omega

theorem mkConfig_wf (c : Consts) (hc : c.WF) (sqrtx y threads : Nat) (print : Bool) :
    CfgWF (mkConfig c sqrtx y threads print) := ⟨hc.piAlign, hc.acIncrease⟩

end AC

/-! ## S2: sum accounting -/
namespace S2

def sumT : List Ev → Int
  | [] => 0
  | e :: es => e.tsum + sumT es

/-- `sum_` is exactly the sum of what the workers reported, each report once -/
theorem sum_exact (cfg : Config) (s : State) (es : List Ev) :
    ((sys cfg).final s es).sum = s.sum + sumT es := by
  induction es generalizing s with
  | nil => simp [Sys.final, sumT]
  | cons e es ih =>
    show ((sys cfg).final (next cfg s e) es).sum = _
    rw [ih]; simp only [sumT]
    show s.sum + e.tsum + sumT es = _
    omega

/-- the chunk a ThreadData stands for (clipped to the limit, as the per-thread functions do) -/
def handChunk (cfg : Config) (h : Hand) : Option Chunk :=
  if h.work then some (h.low, min (h.low + h.size * h.segs) cfg.limit) else none

/-- results of the chunks that are handed out but not yet reported -/
def pendHands (f : Chunk → Int) (cfg : Config) : List (Nat × Hand) → Int
  | [] => 0
  | (_, h) :: hs => optVal f (handChunk cfg h) + pendHands f cfg hs

/-- worker behaviour: what a worker reports in `thread.sum` is `f` of the chunk it was handed
    (nothing if its last answer was `false` or it is new) -/
def Honest (f : Chunk → Int) (cfg : Config) : State → List Ev → Prop
  | _, [] => True
  | s, e :: es => e.tsum = optVal f (handChunk cfg (getHand e.w s.hands)) ∧ Honest f cfg (next cfg s e) es

theorem pendHands_set (f : Chunk → Int) (cfg : Config) (w : Nat) (g : Hand) (hs : List (Nat × Hand)) :
    pendHands f cfg (setHand w g hs) + optVal f (handChunk cfg (getHand w hs)) =
      pendHands f cfg hs + optVal f (handChunk cfg g) := by
  induction hs with
  | nil => simp [setHand, getHand, pendHands, handChunk]
  | cons p hs ih =>
    obtain ⟨v, k⟩ := p
    by_cases hv : v = w
    · simp only [setHand, getHand, hv, if_true, pendHands]; omega
    · simp only [setHand, getHand, hv, if_false, pendHands]; omega

theorem sumF_chunks_cons {σ ε : Type} (S : Sys σ ε) (f : Chunk → Int) (e : ε) (es : List ε) :
    sumF f (S.chunks (e :: es)) = optVal f (S.chunk e) + sumF f (S.chunks es) := by
  simp only [Sys.chunks]
  cases S.chunk e <;> simp [sumF]

/-- `sum_ + Σ pending = Σ over all chunks handed out`, for every accepted history of honest workers -/
theorem sum_once (f : Chunk → Int) (cfg : Config) : ∀ (es : List Ev) (s : State),
    (sys cfg).accepts s es = true → Honest f cfg s es →
    ((sys cfg).final s es).sum + pendHands f cfg ((sys cfg).final s es).hands =
      s.sum + pendHands f cfg s.hands + sumF f ((sys cfg).chunks es) := by
  intro es
  induction es with
  | nil => intro s _ _; simp [Sys.final, Sys.chunks, sumF]
  | cons e es ih =>
    intro s hacc hh
    simp only [Sys.accepts, Bool.and_eq_true] at hacc
    obtain ⟨hok, hacc'⟩ := hacc
    have hok' : ok cfg s e = true := hok
    obtain ⟨_, _, hout, _⟩ := ok_parts hok'
    obtain ⟨ho1, ho2, ho3, ho4, _⟩ := outOk_parts hout
    obtain ⟨hrep, hh'⟩ := hh
    have h1 := ih (next cfg s e) hacc' hh'
    have h2 := pendHands_set f cfg e.w ⟨s.low, (next cfg s e).segs, (next cfg s e).size, decide (s.low < cfg.limit)⟩ s.hands
    have h3 : handChunk cfg ⟨s.low, (next cfg s e).segs, (next cfg s e).size, decide (s.low < cfg.limit)⟩ = chunkOf cfg e := by
      simp only [handChunk, chunkOf, ho1, ho2, ho3, ho4]
    have h4 : (next cfg s e).sum = s.sum + e.tsum := rfl
    rw [sumF_chunks_cons]
    show ((sys cfg).final (next cfg s e) es).sum + pendHands f cfg ((sys cfg).final (next cfg s e) es).hands = _
    rw [h1, next_hands, h4]
    show _ = s.sum + pendHands f cfg s.hands + (optVal f (chunkOf cfg e) + _)
    rw [h3] at h2
    omega

/-- a history after which nobody holds work any more and the range is exhausted -/
def Complete (cfg : Config) (s : State) : Prop :=
  cfg.limit ≤ s.low ∧ ∀ p ∈ s.hands, p.2.work = false

theorem pendHands_complete (f : Chunk → Int) (cfg : Config) (hs : List (Nat × Hand))
    (h : ∀ p ∈ hs, p.2.work = false) : pendHands f cfg hs = 0 := by
  induction hs with
  | nil => rfl
  | cons p hs ih =>
    obtain ⟨v, k⟩ := p
    have hk : k.work = false := h (v, k) (by simp)
    simp only [pendHands, handChunk, hk]
    rw [ih (fun p hp => h p (List.mem_cons_of_mem _ hp))]; simp

/-! ### per-step overflow bound (partial, see PcProps/C09.lean) -/

theorem mul3_le {a b c A B C : Nat} (h1 : a ≤ A) (h2 : b ≤ B) (h3 : c ≤ C) : a * b * c ≤ A * B * C :=
  Nat.mul_le_mul (Nat.mul_le_mul h1 h2) h3

theorem sqrtPeak_le (cfg : Config) (low segs size : Nat) :
    sqrtPeak cfg low segs size ≤ low + (size + size) * segs * cfg.threads := by
  have hd : size / cfg.g3 ≤ size := Nat.div_le_self _ _
  have h1 : size * segs * cfg.threads ≤ (size + size) * segs * cfg.threads :=
    mul3_le (by omega) (Nat.le_refl _) (Nat.le_refl _)
  have h2 : (size + size / cfg.g3) * segs * cfg.threads ≤ (size + size) * segs * cfg.threads :=
    mul3_le (by omega) (Nat.le_refl _) (Nat.le_refl _)
  unfold sqrtPeak
  split
  · simp only
    split <;> omega
  · omega

theorem peak_le (cfg : Config) (s : State) (e : Ev) :
    peak cfg s e ≤ max (s.low + (next cfg s e).size * (next cfg s e).segs)
      (max (s.size + s.size) (max e.osegs (s.low + (s.size + s.size) * e.osegs * cfg.threads))) := by
  have h1 : s.size / cfg.g1 ≤ s.size := Nat.div_le_self _ _
  have h2 : s.size / cfg.g2 ≤ s.size := Nat.div_le_self _ _
  have h3 := sqrtPeak_le cfg s.low e.osegs s.size
  have ha : s.low + (update cfg s (s.sum + e.tsum) e.tlow e.tsegs e.osegs).2.2 *
      (update cfg s (s.sum + e.tsum) e.tlow e.tsegs e.osegs).2.1 = s.low + (next cfg s e).size * (next cfg s e).segs := rfl
  unfold peak
  simp only [ha]
  split
  · split
    · omega
    · split <;> omega
  · omega

end S2

/-! ## P2: per-step overflow bound -/
namespace P2

theorem next_dist_le (cfg : Config) (s : State) (low23 B : Nat) (h1 : s.minDist ≤ B) (h2 : s.dist ≤ B)
    (h3 : low23 ≤ B) :
    min s.low cfg.limit + (next cfg s low23).dist ≤ max cfg.limit (min s.low cfg.limit + B) := by
  unfold next
  split
  · split <;> simp only <;> omega
  · simp only
    have : (cfg.limit - min s.low cfg.limit) / cfg.threads ≤ cfg.limit - min s.low cfg.limit := Nat.div_le_self _ _
    split <;> omega

end P2

/-! ## the step RELATIONS (float-derived decisions existentially quantified) and `ok ⟹ step` -/

/-- S2: `e` is a possible `get_work` from `s` leading to `s'`: the ThreadData is what the worker was handed,
    `segments_` after `update_number_of_segments` is `2 * segments_` or some value `≥ 1`, everything else is
    the integer code. -/
def S2.Step (cfg : S2.Config) (s : S2.State) (e : S2.Ev) (s' : S2.State) : Prop :=
  S2.handOk s e = true ∧
  (S2.usesChoice cfg s (s.sum + e.tsum) e.tlow = true → e.osegs = 2 * e.tsegs ∨ 1 ≤ e.osegs) ∧
  s' = S2.next cfg s e ∧ S2.outOk cfg s e = true

theorem S2.ok_step (cfg : S2.Config) (s : S2.State) (e : S2.Ev) (h : S2.ok cfg s e = true) :
    S2.Step cfg s e (S2.next cfg s e) := by
  obtain ⟨h1, h2, h3, _⟩ := S2.ok_parts h
  refine ⟨h1, fun hu => ?_, rfl, h3⟩
  simp only [S2.choiceOk, hu, Bool.not_true, Bool.false_or, Bool.or_eq_true, beq_iff_eq, decide_eq_true_eq] at h2
  exact h2

/-- P2: for SOME value `low23` of `(int64_t)(cbrt(low)^2)` the integer code produces the recorded answer -/
def P2.Step (cfg : P2.Config) (s : P2.State) (e : P2.Ev) (s' : P2.State) : Prop :=
  ∃ low23 : Nat, s' = P2.next cfg s low23 ∧ P2.outOk cfg s e low23 = true

theorem P2.ok_step (cfg : P2.Config) (s : P2.State) (e : P2.Ev) (h : P2.ok cfg s e = true) :
    P2.Step cfg s e ((P2.sys cfg).next s e) := by
  simp only [P2.ok, Bool.and_eq_true] at h
  exact ⟨P2.choose cfg s e, rfl, h.1⟩

/-- AC: for SOME outcome `fire` of `thread.secs < increase_threshold` the integer code produces the answer -/
def AC.Step (cfg : AC.Config) (s : AC.State) (e : AC.Ev) (s' : AC.State) : Prop :=
  ∃ fire : Bool, s' = AC.next cfg s e fire ∧ AC.outOk cfg s e fire = true

theorem AC.ok_step (cfg : AC.Config) (s : AC.State) (e : AC.Ev) (h : AC.ok cfg s e = true) :
    AC.Step cfg s e ((AC.sys cfg).next s e) := by
  simp only [AC.ok, Bool.and_eq_true] at h
  exact ⟨AC.choose cfg s e, rfl, h.1⟩

/-! ## atomic fetch-add loop -/

/-- the indices handed out are exactly `c, c+1, …` up to `hi`, one per draw, whatever worker draws -/
theorem fetchAdd_indices (hi : Nat) : ∀ (ws : List Nat) (c : Nat),
    (fetchAddRun hi c ws).2.map Prod.snd = List.range' c (min ws.length (hi + 1 - c)) := by
  intro ws
  induction ws with
  | nil => intro c; simp [fetchAddRun]
  | cons w ws ih =>
    intro c
    simp only [fetchAddRun, List.length_cons]
    by_cases h : c ≤ hi
    · simp only [h, if_true, List.map_cons, ih (c + 1)]
      have : min (ws.length + 1) (hi + 1 - c) = min ws.length (hi + 1 - (c + 1)) + 1 := by omega
      rw [this, List.range'_succ]
    · simp only [h, if_false, ih (c + 1)]
      have h1 : min ws.length (hi + 1 - (c + 1)) = 0 := by omega
      have h2 : min (ws.length + 1) (hi + 1 - c) = 0 := by omega
      rw [h1, h2]; rfl

theorem fetchAdd_counter (hi : Nat) : ∀ (ws : List Nat) (c : Nat), (fetchAddRun hi c ws).1 = c + ws.length := by
  intro ws
  induction ws with
  | nil => intro c; rfl
  | cons w ws ih => intro c; simp only [fetchAddRun, ih, List.length_cons]; omega

/-! ## reductions -/

def isum : List Int → Int
  | [] => 0
  | v :: vs => v + isum vs

theorem isum_append (a b : List Int) : isum (a ++ b) = isum a + isum b := by
  induction a with
  | nil => simp [isum]
  | cons v a ih => simp only [List.cons_append, isum, ih]; omega

theorem isum_perm {a b : List Int} (h : a.Perm b) : isum a = isum b := by
  induction h with
  | nil => rfl
  | cons x _ ih => simp only [isum, ih]
  | swap x y l => simp only [isum]; omega
  | trans _ _ ih1 ih2 => omega

theorem isum_flatten (parts : List (List Int)) : isum parts.flatten = isum (parts.map isum) := by
  induction parts with
  | nil => rfl
  | cons p ps ih => simp only [List.flatten_cons, isum_append, List.map_cons, isum, ih]

theorem sumF_eq_isum (f : Chunk → Int) (cs : List Chunk) : sumF f cs = isum (cs.map f) := by
  induction cs with
  | nil => rfl
  | cons c cs ih => simp only [sumF, List.map_cons, isum, ih]

end Pc.LB
