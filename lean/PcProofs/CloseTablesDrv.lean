/-
WP close, item 4 (part 5): the EXECUTABLE tables of the driver (`hlEnv`, PcModel/Drv/HardLoops.lean:141 — what `pcdrv` runs the engine
`s2HardThread` / `dThread` over in the streams `s2hard_*` / `d_*`) meet the contracts, so the driver's mirror executes a proved object.

`hlEnv i t` is `mkEnv t.p (t.piOf P + 1) t.piOf (−hlPhiOf t) P arr` with `arr` = `factorTableNew / factorTableDNew primesRange …`
(the C17 constructor models), `t = NT.build n` the oracle table, `hlPhiOf` the driver's Legendre recursion with the two cut-offs.

* `hlPhi_eq`, `hlPhiOf_eq`     `hlPhiOf t x a = φ(x, a)` for every `x` and `a ≤ π(bound)` (valid table that reads `0` beyond its primes)
* `buildTab_ok`                `NT.build n` meets `TabOK` for every `P ≤ n`
* `hlEnv_eq_mkEnv`             the shape of `hlEnv`
* `hlEnv_s2_closed`, `hlEnv_d_closed`   on the domain of the real constructor (`hlEnv` answers `none` = `primecount_error` outside),
      `hlEnv i (NT.build n)` is `some e` with `EnvOK e max_prime` and `FactorOK e tmax y` resp. `FactorDOK e tmax y z`.
  Remaining hypothesis: `PrimeGenSpec primesRange` — the driver's stand-in segmented byte sieve (PcModel/Drv/Tables.lean:31, an
  `Id.run do` loop over a `ByteArray`), which is NOT proved (it is compared with the real generator by the C17 streams).
-/
import PcProofs.CloseTablesEnv

namespace Pc.Close
open Nat Pc.Hard Pc.Drv Pc.PhiVec
open scoped Nat.Prime

local notation "p" => Spec.p
local notation "φ" => Spec.phi

/-! ### the driver's φ -/

theorem hlPhi_eq (t : NT) (hv : t.Valid) (hout : ∀ i, π t.bound < i → t.p i = 0) :
    ∀ (fuel x a : ℕ), a < fuel → a ≤ π t.bound → hlPhi t fuel x a = (φ x a : ℤ)
  | 0, _, _, h, _ => absurd h (Nat.not_lt_zero _)
  | fuel + 1, x, a, hf, ha => by
    unfold hlPhi
    by_cases h0 : a = 0
    · rw [if_pos h0, h0, Spec.phi_zero_right]
    rw [if_neg h0]
    by_cases hx : x = 0
    · rw [if_pos hx, hx, Spec.phi_zero_left]; rfl
    rw [if_neg hx]
    have hpa : t.p a = p a := hv.p_eq a (by omega) ha
    rw [hpa]
    by_cases h1 : p a ≥ x
    · rw [if_pos h1, Spec.phi_eq_one_of_pi_le (by omega)]
      · rfl
      · have := Nat.monotone_primeCounting h1
        rw [Spec.pi_p (by omega)] at this
        exact this
    rw [if_neg h1]
    by_cases h2 : x ≤ t.bound ∧ t.p (a + 1) ≠ 0 ∧ x < t.p (a + 1) * t.p (a + 1)
    · rw [if_pos h2]
      obtain ⟨hb, hne, hlt⟩ := h2
      have ha1 : a + 1 ≤ π t.bound := by
        by_contra hc
        exact hne (hout (a + 1) (by omega))
      rw [hv.p_eq (a + 1) (by omega) ha1] at hlt
      rw [hv.piOf_eq x hb, Spec.phi_eq_pi (by omega) (by omega) (by rw [pow_two]; exact hlt)]
      have : a ≤ π x := (Spec.p_le_iff (by omega)).1 (by omega)
      push_cast [Nat.cast_sub this]
      ring
    · rw [if_neg h2, hlPhi_eq t hv hout fuel x (a - 1) (by omega) (by omega),
        hlPhi_eq t hv hout fuel (x / p a) (a - 1) (by omega) (by omega)]
      have := Spec.phi_rec x a (by omega)
      rw [← this]
      push_cast
      ring

theorem hlPhiOf_eq (t : NT) (hv : t.Valid) (hout : ∀ i, π t.bound < i → t.p i = 0) (x a : ℕ) (ha : a ≤ π t.bound) :
    hlPhiOf t x a = (φ x a : ℤ) :=
  hlPhi_eq t hv hout (a + 1) x a (Nat.lt_succ_self _) ha

/-- the driver's inner φ meets the `PhiCache` contract of `phi_vector` (for every level of the table) -/
theorem hlPhiNeg_spec (t : NT) (hv : t.Valid) (hout : ∀ i, π t.bound < i → t.p i = 0) :
    PhiNegSpec (fun y b => - hlPhiOf t y b) (π t.bound) :=
  fun y b _ hb => by
    show - hlPhiOf t y b = _
    rw [hlPhiOf_eq t hv hout y b (by omega)]

/-! ### the oracle table -/

theorem build_primes_size (n : ℕ) : (NT.build n).primes.size = π n + 1 := by
  show (#[0] ++ (primesUpTo n).toArray).size = π n + 1
  rw [Array.size_append, List.size_toArray, List.size_toArray, primesUpTo_length]
  simp only [List.length_cons, List.length_nil]
  omega

theorem build_out (n i : ℕ) (hi : π n < i) : (NT.build n).p i = 0 := by
  unfold NT.p
  rw [Array.getD_eq_getD_getElem?, Array.getElem?_eq_none (by rw [build_primes_size]; omega)]
  rfl

theorem buildTab_ok (P n : ℕ) (hPn : P ≤ n) :
    TabOK (NT.build n).p ((NT.build n).piOf P + 1) (NT.build n).piOf P n where
  le := hPn
  zero := (NT.build_valid n).p_zero
  size := by rw [(NT.build_valid n).piOf_eq P hPn]
  prime := fun i h1 h2 => (NT.build_valid n).p_eq i h1 h2
  out := build_out n
  pi := fun m hm => (NT.build_valid n).piOf_eq m hm

/-! ### `hlEnv` -/

/-- the entry type `hlEnv` chooses -/
def hlTmax (i : HlIn) : ℕ :=
  if i.wide = true ∧ (if i.isD = true then decide (i.z > ftMax 65535) else decide (i.y > ftMax 65535)) = true
  then 4294967295 else 65535

theorem hlEnv_eq_mkEnv (i : HlIn) (t : NT) :
    hlEnv i t =
      (if i.isD = true then factorTableDNew primesRange (hlTmax i) i.y i.z 1 else factorTableNew primesRange (hlTmax i) i.y 1).map
        fun arr => mkEnv t.p (t.piOf i.maxPrime + 1) t.piOf (fun y b => - hlPhiOf t y b) i.maxPrime arr := rfl

theorem hlTmax_s2 (i : HlIn) (hD : i.isD = false) (hdom : InFtDomain i.wide i.y) : hlTmax i = realTmax i.wide i.y := by
  rw [realTmax_eq_code hdom]
  unfold hlTmax
  rw [hD]
  rfl

theorem hlTmax_d (i : HlIn) (hD : i.isD = true) (hdom : InFtDomain i.wide i.z) : hlTmax i = realTmax i.wide i.z := by
  rw [realTmax_eq_code hdom]
  unfold hlTmax
  rw [hD]
  rfl

/-- **the driver's S2_hard tables are a proved object**: on the domain of the real `FactorTable` constructor -/
theorem hlEnv_s2_closed (hg : PrimeGenSpec primesRange) (i : HlIn) (hD : i.isD = false) (hdom : InFtDomain i.wide i.y)
    (n : ℕ) (hn : min i.y (i.z / Nat.sqrt i.y) ≤ n) :
    ∃ e, hlEnv i (NT.build n) = some e ∧ EnvOK e (min i.y (i.z / Nat.sqrt i.y)) ∧ FactorOK e (realTmax i.wide i.y) i.y := by
  have hP : i.maxPrime = min i.y (i.z / Nat.sqrt i.y) := by
    unfold HlIn.maxPrime; rw [hD, isqrtN_eq]; rfl
  obtain ⟨arr, h1, h2⟩ := factorOK_of_ctor primesRange hg (realTmax i.wide i.y) (realTmax_ge _ _) (realTmax_odd _ _) i.y 1
    (le_ftMax_realTmax _ _)
  rw [hlEnv_eq_mkEnv, hD, hlTmax_s2 i hD hdom, hP]
  simp only [Bool.false_eq_true, if_false]
  rw [h1, Option.map_some]
  refine ⟨_, rfl, ?_, h2 _ rfl rfl⟩
  have hv := NT.build_valid n
  exact mkEnv_ok (buildTab_ok _ n hn)
    (fun y b hy hb => hlPhiNeg_spec (NT.build n) hv (build_out n) y b hy
      (le_trans hb (Nat.monotone_primeCounting (show _ ≤ (NT.build n).bound from hn)))) arr

/-- **the driver's D tables are a proved object**: on the domain of the real `FactorTableD` constructor -/
theorem hlEnv_d_closed (hg : PrimeGenSpec primesRange) (i : HlIn) (hD : i.isD = true) (hdom : InFtDomain i.wide i.z)
    (n : ℕ) (hn : i.y ≤ n) :
    ∃ e, hlEnv i (NT.build n) = some e ∧ EnvOK e i.y ∧ FactorDOK e (realTmax i.wide i.z) i.y i.z := by
  have hP : i.maxPrime = i.y := by unfold HlIn.maxPrime; rw [hD]; rfl
  obtain ⟨arr, h1, h2⟩ := factorDOK_of_ctor primesRange hg (realTmax i.wide i.z) (realTmax_ge _ _) (realTmax_odd _ _) i.y i.z 1
    (le_ftMax_realTmax _ _)
  rw [hlEnv_eq_mkEnv, hD, hlTmax_d i hD hdom, hP]
  simp only [if_true]
  rw [h1, Option.map_some]
  refine ⟨_, rfl, ?_, h2 _ rfl rfl⟩
  have hv := NT.build_valid n
  exact mkEnv_ok (buildTab_ok _ n hn)
    (fun y b hy hb => hlPhiNeg_spec (NT.build n) hv (build_out n) y b hy
      (le_trans hb (Nat.monotone_primeCounting (show _ ≤ (NT.build n).bound from hn)))) arr

end Pc.Close
