/-
C18 core, second half: `EratSmall::crossOff` — the fold over the L1-sized blocks, from the per-prime specification of the
`switch` with the unrolled loops (`PrimeOk Gen.psSmallTab true`, proved in PsCore2SmallD).
-/
import PcProofs.PsCore2SmallB

namespace Pc.PsCore
open Pc.PsWheelSpec
open Pc.Sieve (Bytes clearBit bitAt)

theorem smallCrossOff_blocks (hok : PrimeOk Gen.psSmallTab true) (L l1 : ℕ) (hL : 30 ∣ L) :
    ∀ (fuel i : ℕ) (ps : Array SPrime) (gs : List (ℕ × ℕ)) (s : Bytes), s.size ≤ i + l1 * fuel →
      List.Forall₂ (Stored (L + 30 * min i s.size)) ps.toList gs →
      ∃ gs' : List (ℕ × ℕ),
        Phase L s.size gs gs' s (smallCrossOff l1 fuel i ps s).2 ∧
        List.Forall₂ (Stored (L + 30 * s.size)) (smallCrossOff l1 fuel i ps s).1.toList gs' := by
  intro fuel
  induction fuel with
  | zero =>
    intro i ps gs s hf h
    have : min i s.size = s.size := by omega
    rw [this] at h
    exact ⟨gs, Phase.refl .., h⟩
  | succ fuel ih =>
    intro i ps gs s hf h
    rw [smallCrossOff_succ]
    by_cases hi : i < s.size
    · rw [if_pos hi]
      have e0 : min i s.size = i := by omega
      rw [e0] at h
      obtain ⟨gs1, hph, hst⟩ := crossBlock_spec hok L i (min l1 (s.size - i)) hL ps gs s h
      set r := crossBlock Gen.psSmallTab true i (min l1 (s.size - i)) ps s with hr
      have hsz : r.2.size = s.size := hph.2.2
      have e1 : L + 30 * i + 30 * min l1 (s.size - i) = L + 30 * min (i + l1) r.2.size := by
        rw [hsz]; omega
      rw [e1] at hst
      obtain ⟨gs', hph2, hst2⟩ := ih (i + l1) r.1 gs1 r.2
        (by rw [hsz]; have : l1 * (fuel + 1) = l1 * fuel + l1 := Nat.mul_succ l1 fuel; omega) hst
      rw [hsz] at hph2 hst2
      exact ⟨gs', hph.trans hph2 (by omega), hst2⟩
    · rw [if_neg hi]
      have : min i s.size = s.size := by omega
      rw [this] at h
      exact ⟨gs, Phase.refl .., h⟩

/-- `smallCrossOff_spec`, from the per-prime specification of EratSmall's `switch` -/
theorem smallCrossOff_spec_of (hok : PrimeOk Gen.psSmallTab true) (L l1 : ℕ) (hL : 30 ∣ L) (hl1 : 0 < l1) (ps : Array SPrime)
    (gs : List (ℕ × ℕ)) (s : Bytes) (h : List.Forall₂ (Stored L) ps.toList gs) :
    ∃ gs' : List (ℕ × ℕ),
      List.Forall₂ (fun g g' => g'.1 = g.1 ∧ Adv 30 g.1 L s.size g.2 g'.2) gs gs' ∧
      List.Forall₂ (Stored (L + 30 * s.size)) (smallCrossOff l1 (s.size / l1 + 1) 0 ps s).1.toList gs' ∧
      (∀ b, bitAt (smallCrossOff l1 (s.size / l1 + 1) 0 ps s).2 b = true ↔
        (bitAt s b = true ∧ ∀ i, i < gs.length → ¬ Hit 30 (gs.getD i (0, 0)).1 L (gs.getD i (0, 0)).2 (gs'.getD i (0, 0)).2 b)) ∧
      (smallCrossOff l1 (s.size / l1 + 1) 0 ps s).2.size = s.size := by
  have hf : s.size ≤ 0 + l1 * (s.size / l1 + 1) := by
    have := Nat.lt_mul_div_succ s.size hl1
    omega
  obtain ⟨gs', ⟨h1, h2, h3⟩, h4⟩ := smallCrossOff_blocks hok L l1 hL (s.size / l1 + 1) 0 ps gs s hf (by simpa using h)
  exact ⟨gs', h1, h4, h2, h3⟩

end Pc.PsCore
