/-
WP top: the headline statements in the form the property files quote them — `pi_deleglise_rivat_64/128`, `pi_gourdon_64/128` for
every argument of their C++ type, and the size dispatcher of api.cpp with every route discharged.
-/
import PcProofs.TopAlgsGourdon
import PcProofs.BitSieve240
import PcProofs.Api

namespace Pc.Top
open Nat Finset Pc.LB Pc.Hard PcGen.ApiConst
open scoped Nat.Prime

/-- `x` is a value of the argument type of the 64-bit (`wide = false`: int64) resp. 128-bit (int128) function -/
def InType (wide : Bool) (x : ℤ) : Prop := if wide then x < 2 ^ 127 else x < 2 ^ 63

theorem pi_small {n : ℕ} (h : n < 2) : π n = 0 := by interval_cases n <;> decide

/-! ### Deleglise-Rivat -/

/-- hypotheses about one execution of `pi_deleglise_rivat_*` on `x ≥ 2` -/
structure DrExec {σ : Type} (T : Tables σ) (B : ℕ) (wide : Bool) (x : ℕ) (r : DrRun) : Prop where
  adm : DrAdmissible T x r
  /-- the 128-bit function accepts `x` (`x ≤ get_max_x(alpha)`) -/
  accept : wide = true → (x : ℤ) ≤ r.fo.maxX
  /-- `iroot<3>(x) * alpha` is exactly representable: every `x < 2^106`, in particular the documented `x ≤ 10^31` -/
  h53 : irootN 3 x * irootN 6 x < 2 ^ 53
  yB : r.fo.v.toNat ≤ B
  yb : r.fo.v.toNat ≤ T.t.bound

theorem piDeleglieRivat_total {σ : Type} (T : Tables σ) {B : ℕ} (hT : TablesOK T B) (pi : ℕ → ℕ) (wide : Bool) (x : ℤ)
    (hx : InType wide x) (threads : ℤ) (isPrint : Bool) (r : DrRun)
    (hpi : ∀ n : ℕ, (n : ℤ) < x → pi n = π n) (hex : 2 ≤ x → DrExec T B wide x.toNat r) :
    piDeleglieRivat T pi wide x threads isPrint r = .ok (π x.toNat : ℤ) ∨
      piDeleglieRivat T pi wide x threads isPrint r = .error (.hard .badRun) := by
  by_cases h2 : x < 2
  · left
    unfold piDeleglieRivat
    rw [if_pos h2, pi_small (by omega)]
    rfl
  · obtain ⟨n, rfl⟩ := Int.eq_ofNat_of_zero_le (show 0 ≤ x by omega)
    have hn2 : 2 ≤ n := by omega
    have hex' := hex (by omega)
    rw [Int.toNat_natCast] at hex' ⊢
    obtain ⟨a, ha⟩ := hex'.adm.env
    have hpi' : ∀ m, m < n → pi m = π m := fun m hm => hpi m (by exact_mod_cast hm)
    cases wide
    · have hx63 : n < 2 ^ 63 := by unfold InType at hx; simp at hx; exact_mod_cast hx
      obtain ⟨p1, p2⟩ := dr64_accept n threads a r.fo hn2 hx63 ha
      exact piDeleglieRivat_core T hT pi false n threads isPrint r hn2 (lt_trans hx63 (by norm_num)) (fun _ => hx63) hpi'
        p1 p2 hex'.h53 hex'.yB hex'.yb hex'.adm
    · have hx127 : n < 2 ^ 127 := by unfold InType at hx; simp at hx; exact_mod_cast hx
      obtain ⟨p1, p2⟩ := dr128_accept n threads a r.fo hn2 hx127 ha (hex'.accept rfl)
      exact piDeleglieRivat_core T hT pi true n threads isPrint r hn2 hx127 (fun h => absurd h (by simp)) hpi'
        p1 p2 hex'.h53 hex'.yB hex'.yb hex'.adm

/-- what the real code rejects is an error of the model: `x > get_max_x(alpha)` throws `primecount_error` -/
theorem piDeleglieRivat_rejects {σ : Type} (T : Tables σ) (pi : ℕ → ℕ) (x : ℕ) (hx2 : 2 ≤ x) (hx : x < 2 ^ 127) (threads : ℤ)
    (isPrint : Bool) (r : DrRun) (a : ℚ) (henv : DrEnv x a r.fo) (h : r.fo.maxX < (x : ℤ)) :
    piDeleglieRivat T pi true (x : ℤ) threads isPrint r = .error (.params .range) := by
  unfold piDeleglieRivat
  rw [if_neg (by omega)]
  simp only [Int.toNat_natCast]
  rw [dr128_reject x threads r.fo hx henv.2.2.2.2.2.1.1 h]
  rfl

/-! ### Gourdon -/

structure GExec {σ : Type} (T : Tables σ) (B : ℕ) (wide : Bool) (x : ℕ) (r : GRun) : Prop where
  adm : GAdmissible T wide x r
  accept : wide = true → (x : ℤ) ≤ r.fo.maxX
  yB : (gY x r.fo.v).toNat ≤ B
  reach : GReach T.t x (gY x r.fo.v).toNat

theorem piGourdon_total {σ : Type} (T : Tables σ) {B : ℕ} (hT : TablesOK T B) (pi : ℕ → ℕ) (wide : Bool) (x : ℤ)
    (hx : InType wide x) (hsmall : x < 2 ∨ 2401 ≤ x) (threads : ℤ) (isPrint : Bool) (r : GRun)
    (hpi : ∀ n : ℕ, (n : ℤ) < x → n < 2 ^ 63 → pi n = π n) (hex : 2 ≤ x → GExec T B wide x.toNat r) :
    piGourdon T pi wide x threads isPrint r = .ok (π x.toNat : ℤ) ∨
      piGourdon T pi wide x threads isPrint r = .error (.hard .badRun) := by
  by_cases h2 : x < 2
  · left
    unfold piGourdon
    rw [if_pos h2, pi_small (by omega)]
    rfl
  · obtain ⟨n, rfl⟩ := Int.eq_ofNat_of_zero_le (show 0 ≤ x by omega)
    have hn : 2401 ≤ n := by omega
    have hex' := hex (by omega)
    rw [Int.toNat_natCast] at hex' ⊢
    obtain ⟨ay, az, ha⟩ := hex'.adm.env
    -- `B_thread` calls `pi_noprint` only at arguments `≤ x / (y + 1) ≤ x / y ≤ INT64_MAX`
    have hpiB : ∀ o : GOut, o = gOutPure wide n threads r.fo → GourdonRange n threads o →
        ∀ m, m ≤ n / ((gY n r.fo.v).toNat + 1) → m < n → pi m = π m := by
      intro o ho hr m hm hmn
      refine hpi m (by exact_mod_cast hmn) ?_
      obtain ⟨_, _, g3, _, _, _, _, _, _, _, _, _, _, g14, g15, _⟩ := hr
      rw [ho] at g3 g14 g15
      simp only [gOutPure] at g3 g14 g15
      have hy0 : 0 ≤ gY n r.fo.v := by omega
      have hyv : (((gY n r.fo.v).toNat : ℕ) : ℤ) = gY n r.fo.v := Int.toNat_of_nonneg hy0
      have h1 : n / ((gY n r.fo.v).toNat + 1) ≤ n / (gY n r.fo.v).toNat :=
        Nat.div_le_div_left (Nat.le_succ _) (by omega)
      have h2 : ((n / (gY n r.fo.v).toNat : ℕ) : ℤ) ≤ i64Max := by
        rw [Int.natCast_ediv, hyv]; exact g14
      unfold i64Max at h2
      omega
    cases wide
    · have hx63 : n < 2 ^ 63 := by unfold InType at hx; simp at hx; exact_mod_cast hx
      obtain ⟨p1, p2⟩ := gourdon64_accept n threads ay az r.fo (by omega) hx63 ha
      exact piGourdon_core T hT pi false n threads isPrint r hn (lt_trans hx63 (by norm_num)) (fun _ => hx63)
        (hpiB _ rfl p2) p1 p2 hex'.yB hex'.reach hex'.adm
    · have hx127 : n < 2 ^ 127 := by unfold InType at hx; simp at hx; exact_mod_cast hx
      obtain ⟨p1, p2⟩ := gourdon128_accept n threads ay az r.fo (by omega) hx127 ha (hex'.accept rfl)
      exact piGourdon_core T hT pi true n threads isPrint r hn hx127 (fun h => absurd h (by simp))
        (hpiB _ rfl p2) p1 p2 hex'.yB hex'.reach hex'.adm

theorem piGourdon_rejects {σ : Type} (T : Tables σ) (pi : ℕ → ℕ) (x : ℕ) (hx2 : 2 ≤ x) (hx : x < 2 ^ 127) (threads : ℤ)
    (isPrint : Bool) (r : GRun) (ay az : ℚ) (henv : GourdonEnv x ay az r.fo) (h : r.fo.maxX < (x : ℤ)) :
    piGourdon T pi true (x : ℤ) threads isPrint r = .error (.params .range) := by
  unfold piGourdon
  rw [if_neg (by omega)]
  simp only [Int.toNat_natCast]
  rw [gourdon128_reject x threads r.fo hx henv.2.2.2.2.2.2.1.1 h]
  rfl

/-! ### the dispatcher -/

/-- **named contract of `phi(x, a, threads)`** (C07: `phiOpenMP_correct` under `TopOK`) at the two calls of the dispatcher's
    routes: `pi_legendre` calls `phi(x, π(√x))`, `pi_meissel` calls `phi(x, π(x^(1/3)))` -/
def PhiContract (phi : ℕ → ℕ → ℕ) (x : ℕ) : Prop :=
  phi x (π (Nat.sqrt x)) = Spec.phi x (π (Nat.sqrt x)) ∧ phi x (π (irootN 3 x)) = Spec.phi x (π (irootN 3 x))

/-- hypotheses about one execution of `pi(x)` / `pi_noprint(x)` beyond the cache: only the route that is taken matters -/
structure ApiExec {σ : Type} (T : Tables σ) (B : ℕ) (wide : Bool) (x : ℕ) (r : ApiRun) : Prop where
  meissel : legendreMax < x → x ≤ meisselMax → 4 ≤ x → irootN 3 x < Nat.sqrt x →
    r.meissel.valid T.lc x (x / max (irootN 3 x) 1) = true
  gourdon : meisselMax < x → GExec T B wide x r.gourdon

theorem piCacheTop_eq (x : ℤ) (hx : x ≤ maxCached) : piCacheTop x = (π x.toNat : ℤ) := by
  unfold piCacheTop
  have c1 : (cacheZeroBelow : ℤ) = 2 := rfl
  have c2 : (maxCached : ℤ) = 30719 := rfl
  split_ifs with h
  · rw [pi_small (by omega)]; rfl
  · rw [piCache_correct x.toNat (by omega)]

/-- one level of the recursion: the dispatcher returns π(x) when the nested `pi_noprint` calls do (`pi = π` below `x`) -/
theorem piApi64_step {σ : Type} (T : Tables σ) {B : ℕ} (hT : TablesOK T B) (phi : ℕ → ℕ → ℕ) (pi : ℕ → ℕ) (x : ℤ)
    (hx : x < 2 ^ 63) (threads : ℤ) (isPrint : Bool) (r : ApiRun)
    (hphi : PhiContract phi x.toNat) (hpi : ∀ n : ℕ, (n : ℤ) < x → pi n = π n)
    (hex : (maxCached : ℤ) < x → ApiExec T B false x.toNat r) :
    piApi64 T phi pi x threads isPrint r = .ok (π x.toNat : ℤ) ∨
      piApi64 T phi pi x threads isPrint r = .error (.hard .badRun) := by
  have c1 : (maxCached : ℤ) = 30719 := rfl
  have c2 : (legendreMax : ℤ) = 100000 := rfl
  have c3 : (meisselMax : ℤ) = 100000000 := rfl
  unfold piApi64
  split_ifs with h1 h2 h3
  · left; rw [piCacheTop_eq x h1]
  · left
    have hpi' : ∀ m, m < x.toNat → pi m = π m := fun m hm => hpi m (by omega)
    rw [P2L.piLegendre_eq hpi' hphi.1]
  · left
    have hpi' : ∀ m, m < x.toNat → pi m = π m := fun m hm => hpi m (by omega)
    have hex' := hex (by omega)
    have l1 : legendreMax = 100000 := rfl
    have l2 : meisselMax = 100000000 := rfl
    have hxy : x.toNat / max (irootN 3 x.toNat) 1 < two63 := by
      have : x.toNat / max (irootN 3 x.toNat) 1 ≤ x.toNat := Nat.div_le_self _ _
      unfold two63; omega
    rw [P2L.piMeissel_eq hT.iter hpi' hphi.2 T.lc hT.consts hxy r.meissel
      (fun a b => hex'.meissel (by omega) (by omega) a b)]
    rfl
  · have hex' := hex (by omega)
    have l2 : meisselMax = 100000000 := rfl
    exact piGourdon_total T hT pi false x (by unfold InType; simpa using hx) (Or.inr (by omega)) threads isPrint r.gourdon
      (fun n hn _ => hpi n hn) (fun _ => hex'.gourdon (by omega))

theorem piApi128_step {σ : Type} (T : Tables σ) {B : ℕ} (hT : TablesOK T B) (phi : ℕ → ℕ → ℕ) (pi : ℕ → ℕ) (x : ℤ)
    (hx : x < 2 ^ 127) (threads : ℤ) (isPrint : Bool) (r : ApiRun)
    (hphi : PhiContract phi x.toNat) (hpi : ∀ n : ℕ, (n : ℤ) < x → n < 2 ^ 63 → pi n = π n)
    (hex : (maxCached : ℤ) < x → ApiExec T B (decide ((PiApi.int64Max : ℤ) < x)) x.toNat r) :
    piApi128 T phi pi x threads isPrint r = .ok (π x.toNat : ℤ) ∨
      piApi128 T phi pi x threads isPrint r = .error (.hard .badRun) := by
  have c0 : (PiApi.int64Max : ℤ) = 2 ^ 63 - 1 := by unfold PiApi.int64Max; norm_num
  have c1 : (maxCached : ℤ) = 30719 := rfl
  unfold piApi128
  split_ifs with h1 h2
  · left
    have : x.toNat = 0 := by omega
    rw [this]; rfl
  · have hd : decide ((PiApi.int64Max : ℤ) < x) = false := by simp; omega
    rw [hd] at hex
    exact piApi64_step T hT phi pi x (by omega) threads isPrint r hphi (fun n hn => hpi n hn (by omega)) hex
  · have hd : decide ((PiApi.int64Max : ℤ) < x) = true := by simp; omega
    rw [hd] at hex
    have hex' := hex (by omega)
    have l2 : meisselMax = 100000000 := rfl
    exact piGourdon_total T hT pi true x (by unfold InType; simpa using hx) (Or.inr (by omega)) threads isPrint r.gourdon hpi
      (fun _ => hex'.gourdon (by omega))

/-- **closing the recursion.** `pi` is ANY function that is consistent with being computed by `pi_noprint` — for every `n` below
    `x` there is an execution (`threads`, run `r n`, meeting `ApiExec`) of the dispatcher, whose nested calls are answered by `pi`
    again, that returns `pi n`.  Then `pi n = π n` for every `n < x`. -/
theorem pi_noprint_fixpoint {σ : Type} (T : Tables σ) {B : ℕ} (hT : TablesOK T B) (phi : ℕ → ℕ → ℕ) (pi : ℕ → ℕ) (x : ℕ)
    (hx : x ≤ 2 ^ 63)
    (hphi : ∀ n, n < x → PhiContract phi n)
    (hrec : ∀ n, n < x → ∃ (threads : ℤ) (r : ApiRun), (maxCached < n → ApiExec T B false n r) ∧
      piApi64 T phi pi (n : ℤ) threads false r = .ok (pi n : ℤ)) :
    ∀ n, n < x → pi n = π n := by
  intro n
  induction n using Nat.strong_induction_on with
  | _ n ih =>
    intro hn
    obtain ⟨threads, r, hex, hres⟩ := hrec n hn
    have hpi : ∀ m : ℕ, (m : ℤ) < (n : ℤ) → pi m = π m := fun m hm =>
      ih m (by exact_mod_cast hm) (lt_trans (by exact_mod_cast hm) hn)
    have hn63 : (n : ℤ) < 2 ^ 63 := by
      have h1 : (n : ℤ) < (x : ℤ) := by exact_mod_cast hn
      have h2 : (x : ℤ) ≤ 2 ^ 63 := by exact_mod_cast hx
      omega
    have hstep := piApi64_step T hT phi pi (n : ℤ) hn63 threads false r
      (by rw [Int.toNat_natCast]; exact hphi n hn) hpi
      (fun h => by rw [Int.toNat_natCast]; exact hex (by exact_mod_cast h))
    rw [Int.toNat_natCast] at hstep
    rcases hstep with h | h
    · rw [hres] at h
      have : (pi n : ℤ) = (π n : ℤ) := by injection h
      exact_mod_cast this
    · rw [hres] at h; cases h

end Pc.Top
