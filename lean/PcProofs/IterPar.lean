/-
C18 (WP iter): the interval splitting of `ParallelSieve::sieve()` (ParallelSieve.cpp:113-138, PcModel/Iter.lean `threadInterval`).
-/
import PcProofs.Iter

namespace Pc.It

theorem align_le (stop n : ℕ) (hn : n ≤ stop) : align stop n ≤ stop := by
  unfold align; simp only []
  by_cases h : checkedAdd n 32 ≥ stop
  · rw [if_pos h]
  · rw [if_neg h]; omega

/-- unclamped task boundaries sit on `2 (mod 30)`, between `n + 3` and `n + 32` -/
theorem align_mod (stop n : ℕ) (h : checkedAdd n 32 < stop) (hs : stop ≤ umax) :
    align stop n % 30 = 2 ∧ n + 3 ≤ align stop n ∧ align stop n ≤ n + 32 := by
  have hc : checkedAdd n 32 = n + 32 := by
    unfold checkedAdd at h ⊢
    by_cases h2 : n ≥ umax - 32
    · rw [if_pos h2] at h; omega
    · rw [if_neg h2]
  unfold align; simp only []
  rw [if_neg (by omega), hc]
  have := Nat.mod_lt n (by norm_num : 30 > 0)
  omega

/-- the first task starts at `start` -/
theorem threadInterval_first (a b td : ℕ) (ha : a ≤ umax) : (threadInterval a b td 0).1 = a := by
  unfold threadInterval
  simp only [Nat.mul_zero, Nat.add_zero]
  have : a % two64 = a := Nat.mod_eq_of_lt (by unfold two64; unfold umax at ha; omega)
  rw [this, if_neg (by omega)]

/-- consecutive tasks are contiguous: task `i+1` starts exactly one above the end of task `i` (for `stop < 2^64-1`; see the
    note on `align(start) + 1` for `stop = 2^64-1`) -/
theorem threadInterval_contiguous (a b td i : ℕ) (htd : 1 ≤ td) (hb : b < umax) (hi : a + td * (i + 1) ≤ b) :
    (threadInterval a b td (i + 1)).1 = (threadInterval a b td i).2 + 1 := by
  have h1 : (a + td * (i + 1)) % two64 = a + td * (i + 1) := Nat.mod_eq_of_lt (by unfold two64; unfold umax at hb; omega)
  have hmul : td * (i + 1) = td * i + td := by ring
  have h0 : (a + td * i) % two64 = a + td * i := Nat.mod_eq_of_lt (by unfold two64; unfold umax at hb; omega)
  have hpos : a + td * (i + 1) > a := by
    have : td * (i + 1) ≥ 1 := Nat.mul_pos htd (by omega)
    omega
  have hc : checkedAdd (a + td * i) td = a + td * (i + 1) := by
    rw [checkedAdd_exact _ _ (by omega)]; omega
  have hal : align b (a + td * (i + 1)) ≤ b := align_le _ _ hi
  unfold threadInterval
  simp only []
  rw [h1, h0, hc, if_pos hpos]
  exact Nat.mod_eq_of_lt (by unfold two64; unfold umax at hb; omega)

/-- the last task ends at `stop` -/
theorem threadInterval_last (a b td i : ℕ) (hb : b ≤ umax) (hab : a + td * i ≤ b) (hi : b ≤ a + td * (i + 1) + 32) :
    (threadInterval a b td i).2 = b := by
  have h0 : (a + td * i) % two64 = a + td * i := Nat.mod_eq_of_lt (by unfold two64; unfold umax at hb; omega)
  have hmul : td * (i + 1) = td * i + td := by ring
  unfold threadInterval align
  simp only []
  rw [h0, if_pos]
  unfold checkedAdd
  split <;> split <;> omega

end Pc.It
