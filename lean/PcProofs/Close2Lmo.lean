/-
WP close2 — `pi_lmo5` / `pi_lmo_parallel` (WP top-lmo) over an iterator that meets the contract only up to `N`.

`CtxOK.it : P2L.IterSpec C.it` (unbounded contract) is FALSE of the real `primesieve::iterator` (it throws past the last 64-bit prime
`2^64 - 59`: `C18Closed2.real_iterator_contract_bound_is_sharp`, WP close), so `piLmo5_eq_pi` / `piLmoParallel_eq_pi` as stated could
not be applied to the model of the real object.  Same repair as for Gourdon / Deleglise-Rivat in WP close: `P2_OpenMP` over `it` and over
`patch it N` is the same function (`p2OpenMP_patch_all`: for `x / y ≥ 2^63` both leave with `.narrow`, below the iterator is never
asked above `N`), hence so are `pi_lmo5` and `pi_lmo_parallel`; the theorems then hold under `CtxOKTo C x N` (`it : IterSpecTo C.it N`).
-/
import PcProofs.TopLmoRegion
import PcProofs.CloseWorldStep

namespace Pc.TopLmo
open Nat Finset
open Pc.Hard Pc.LB
open scoped Nat.Prime

/-- `CtxOK` with the iterator contract up to `N` only (what the real iterator meets for `N = 2^64 - 59`: `It.realIter_specTo_maxPrime64`) -/
structure CtxOKTo {σ : Type} (C : Ctx σ) (x N : ℕ) : Prop where
  tabs : ∀ y, LmoOK (C.tabs y) y
  nt : ∀ y, (C.nt y).Valid ∧ y ≤ (C.nt y).bound
  it : P2L.IterSpecTo C.it N
  piFn : ∀ n, n < x → C.piFn n = π n
  lc : C.lc.WF

/-- the context with the iterator patched above `N` -/
def Ctx.patchIt {σ : Type} (C : Ctx σ) (N : ℕ) : Ctx σ := { C with it := P2L.patch C.it N }

theorem CtxOKTo.patched {σ : Type} {C : Ctx σ} {x N : ℕ} (h : CtxOKTo C x N) : CtxOK (C.patchIt N) x :=
  { tabs := h.tabs, nt := h.nt, it := P2L.patch_spec h.it, piFn := h.piFn, lc := h.lc }

theorem lmoP2S1_patch {σ : Type} {C : Ctx σ} {x N : ℕ} (h : CtxOKTo C x N) (hN : 2 ^ 64 - 2 ^ 32 ≤ N) (hx : x < 2 ^ 127) :
    lmoP2S1 C x = lmoP2S1 (C.patchIt N) x := by
  funext y c run sched
  unfold lmoP2S1 Ctx.patchIt
  dsimp only
  rw [P2L.p2OpenMP_patch_all h.it (Pc.Top.two63_le_of hN) (Pc.Top.isqrtN_le_of_lt hx hN) (fun n _ h2 => h.piFn n h2) C.lc y _ run]

theorem piLmo5_patch {σ : Type} {C : Ctx σ} {x N : ℕ} (h : CtxOKTo C x N) (hN : 2 ^ 64 - 2 ^ 32 ≤ N) (hx : x < 2 ^ 127)
    (v : ℤ) (run : P2L.Run) (sched : List (List ℕ)) :
    piLmo5 C (x : ℤ) v run sched = piLmo5 (C.patchIt N) (x : ℤ) v run sched := by
  unfold piLmo5
  rw [Int.toNat_natCast, lmoP2S1_patch h hN hx]
  rfl

theorem piLmoParallel_patch {σ : Type} {C : Ctx σ} {x N : ℕ} (h : CtxOKTo C x N) (hN : 2 ^ 64 - 2 ^ 32 ≤ N) (hx : x < 2 ^ 127)
    (v : ℤ) (run : P2L.Run) (sched : List (List ℕ)) (team : ℕ) (print : Bool) (es : List S2.Ev) :
    piLmoParallel C (x : ℤ) v run sched team print es = piLmoParallel (C.patchIt N) (x : ℤ) v run sched team print es := by
  unfold piLmoParallel
  rw [Int.toNat_natCast, lmoP2S1_patch h hN hx]
  rfl

/-- `pi_lmo5(x) = π(x)` over every iterator meeting the contract up to `N ≥ 2^64 - 2^32` -/
theorem piLmo5_eq_to {σ : Type} {C : Ctx σ} {x N : ℕ} (a : ℚ) {v : ℤ} {run : P2L.Run} {sched : List (List ℕ)}
    (hx2 : 2 ≤ x) (hx : x < 2 ^ 63)
    (ha1 : 1 ≤ a) (ha : a ≤ (irootN 6 x : ℚ)) (hvN : TruncNear ((irootN 3 x : ℚ) * a) v) (hcv : (irootN 3 x : ℤ) ≤ v)
    (hvu : v ≤ ((irootN 3 x * irootN 6 x : ℕ) : ℤ))
    (hC : CtxOKTo C x N) (hN : 2 ^ 64 - 2 ^ 32 ≤ N)
    (hS : ∀ K, K ≤ π v.toNat → ∃ H : SieveSpec C.S K, ∀ seg, 240 ∣ seg → 0 < seg → H.segOK 0 seg)
    (hrun : 4 ≤ x → v.toNat < Nat.sqrt x → run.valid C.lc x (x / max v.toNat 1) = true)
    (hsched : IsSchedule (getCI v + 1) (π v.toNat) sched) :
    piLmo5 C (x : ℤ) v run sched = .ok (π x : ℤ) := by
  rw [piLmo5_patch hC hN (lt_trans hx (by norm_num))]
  exact piLmo5_eq a hx2 hx ha1 ha hvN hcv hvu hC.patched hS hrun hsched

/-- `pi_lmo_parallel(x, threads) = π(x)` for every accepted LoadBalancerS2 history, over every iterator meeting the contract up to `N` -/
theorem piLmoParallel_eq_to {σ : Type} {C : Ctx σ} {x N : ℕ} (a : ℚ) {v : ℤ} {run : P2L.Run} {sched : List (List ℕ)}
    {team : ℕ} {print : Bool} {es : List S2.Ev} {r : ℤ}
    (hx2 : 2 ≤ x) (hx : x < 2 ^ 63)
    (ha1 : 1 ≤ a) (ha : a ≤ (irootN 6 x : ℚ)) (hvN : TruncNear ((irootN 3 x : ℚ) * a) v) (hcv : (irootN 3 x : ℤ) ≤ v)
    (hvu : v ≤ ((irootN 3 x * irootN 6 x : ℕ) : ℤ))
    (hC : CtxOKTo C x N) (hN : 2 ^ 64 - 2 ^ 32 ≤ N)
    (hS : ∀ K, K ≤ π v.toNat → ∃ H : SieveSpec C.S K, ∀ low seg, 240 ∣ low → 240 ∣ seg → 0 < seg → H.segOK low seg)
    (hrun : 4 ≤ x → v.toNat < Nat.sqrt x → run.valid C.lc x (x / max v.toNat 1) = true)
    (hsched : IsSchedule (getCI v + 1) (π v.toNat) sched)
    (h : piLmoParallel C (x : ℤ) v run sched team print es = .ok r) : r = (π x : ℤ) := by
  rw [piLmoParallel_patch hC hN (lt_trans hx (by norm_num))] at h
  exact piLmoParallel_eq a hx2 hx ha1 ha hvN hcv hvu hC.patched hS hrun hsched h

end Pc.TopLmo
