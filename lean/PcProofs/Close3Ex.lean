/-
WP close3, item 2 (gourdon): non-vacuity of `piGourdon_tiny_lt16` on the new arguments — COMPLETE executions of `pi_gourdon_64(10)` and `pi_gourdon_64(8)`.
`x = 10`: `x^(1/3) = 2`, `√x = 3`, clamps ⇒ `y = z = 2`, `k = 0`, `x⋆ = 2`; Phi0 has the one iteration `b = 1`, C1 none, B's region is the chunk `[3, 5)`,
ONE AC segment `[0, 3)` — the segment in which the C2 loop runs `b = 1`.
`x = 8`: `x^(1/3) = 2`, `√x = 2`, clamps ⇒ `y = z = 1`; Phi0 and C1 have no iteration, B's region is `[2, 8)`, one AC segment `[0, 2)`.
-/
import PcProofs.Close3Top
import PcProofs.Close2TinyEx

namespace Pc.Top
open Nat Finset Pc.LB Pc.Hard PcGen.ApiConst
open scoped Nat.Prime

/-! ### x = 10 -/

def ex10GFloats : GFloats := { maxX := 9903520314283042199192993792, v := 2, w := fun y => y, mt := fun _ => 1 }

/-- a complete accepted history of `B_OpenMP(10, 2)`: one thread, chunk `[3, 5)` -/
def ex10BRun : P2L.Run := { team := 1, print := false, es := [⟨0, true, 3, 5⟩, ⟨0, false, 5, 5⟩], order := [0] }

def ex10GRun (t : NT) : GRun :=
  { fo := ex10GFloats, phi0 := staticSched1 1 1 2, acC1 := staticSched1 (Easy.c1Lo t 10 2 0) (Easy.c1Hi t 2) 3,
    acSegs := [(0, 3)], b := ex10BRun, d := [] }

theorem sqrt_10 : Nat.sqrt 10 = 3 := sqrt_three (by norm_num) (by norm_num)
theorem iroot6_10 : irootN 6 10 = 1 := irootN_eq_of (by norm_num) (by norm_num) (by norm_num)
theorem ex10GY : gY 10 ex10GFloats.v = 2 := gY_two (by norm_num) (by norm_num) _
theorem ex10GZ : gZ 10 2 (ex10GFloats.w 2) = 2 := gZ_two (by norm_num) (by norm_num) _
theorem ex10GK : getK 10 = 0 := getK_tiny (by norm_num) (by norm_num)

theorem ex10GEnv : GourdonEnv 10 1 1 ex10GFloats := by
  unfold GourdonEnv
  rw [ex10GY, ex10GZ]
  have ht : ((10 : ℕ) : ℤ) / 2 = 5 := by decide
  unfold TruncNear MaxXNear PowThreadsNear ex10GFloats relEps
  simp only []
  rw [iroot3_two (by norm_num) (by norm_num), iroot6_10, ht]
  norm_num

theorem ex10GExecC_of {σ : Type} (T : Tables σ) (hlc : T.lc = genConsts) (hb : 5 ≤ T.t.bound)
    (h63 : T.t.bound ≤ ITy.i64.maxVal) : GExecC T 100 false 10 (ex10GRun T.t) where
  adm :=
    { env := ⟨1, 1, ex10GEnv⟩
      phi0 := by
        show IsSchedule (getK 10 + 1) (π (gY 10 ex10GFloats.v).toNat) (staticSched1 1 1 2)
        rw [ex10GK, ex10GY]
        show IsSchedule 1 (π 2) _
        rw [pi_two]
        exact staticSched1_isSchedule 1 1 (by decide)
      b := fun _ => by
        show ex10BRun.valid T.lc 10 (10 / max (gY 10 ex10GFloats.v).toNat 1) = true
        rw [ex10GY, hlc]
        decide
      ac := by
        show AcRunOK _ 10 (gZ 10 (gY 10 ex10GFloats.v) (ex10GFloats.w (gY 10 ex10GFloats.v))).toNat (getK 10) _ _
        rw [ex10GY, ex10GZ, ex10GK]
        exact ⟨staticSched1_isSchedule _ _ (by decide),
          [3], by simp, by rw [sqrt_10]; rfl, List.Perm.refl _⟩ }
  accept := fun h => absurd h (by simp)
  yB := by
    show (gY 10 ex10GFloats.v).toNat ≤ 100
    rw [ex10GY]; decide
  reach := by
    show GReach T.t 10 (gY 10 ex10GFloats.v).toNat
    rw [ex10GY]
    have h1 : (2 : ℤ).toNat = 2 := by decide
    rw [h1]
    refine ⟨by omega, by rw [sqrt_10]; omega, ?_, h63⟩
    rw [xStar_two (by norm_num) (by norm_num)]
    omega

/-! ### x = 8 -/

def ex8GFloats : GFloats := { maxX := 9903520314283042199192993792, v := 2, w := fun y => y, mt := fun _ => 1 }

/-- a complete accepted history of `B_OpenMP(8, 1)`: one thread, chunk `[2, 8)` -/
def ex8BRun : P2L.Run := { team := 1, print := false, es := [⟨0, true, 2, 8⟩, ⟨0, false, 8, 8⟩], order := [0] }

def ex8GRun (t : NT) : GRun :=
  { fo := ex8GFloats, phi0 := staticSched1 1 0 2, acC1 := staticSched1 (Easy.c1Lo t 8 1 0) (Easy.c1Hi t 1) 3,
    acSegs := [(0, 2)], b := ex8BRun, d := [] }

theorem iroot6_8 : irootN 6 8 = 1 := irootN_eq_of (by norm_num) (by norm_num) (by norm_num)
theorem ex8GY : gY 8 ex8GFloats.v = 1 := gY_tiny (by norm_num) (by norm_num) _
theorem ex8GZ : gZ 8 1 (ex8GFloats.w 1) = 1 := gZ_tiny (by norm_num) (by norm_num) _
theorem ex8GK : getK 8 = 0 := getK_tiny (by norm_num) (by norm_num)

theorem ex8GEnv : GourdonEnv 8 1 1 ex8GFloats := by
  unfold GourdonEnv
  rw [ex8GY, ex8GZ]
  have ht : ((8 : ℕ) : ℤ) / 1 = 8 := by decide
  unfold TruncNear MaxXNear PowThreadsNear ex8GFloats relEps
  simp only []
  rw [iroot3_eight, iroot6_8, ht]
  norm_num

theorem ex8GExecC_of {σ : Type} (T : Tables σ) (hlc : T.lc = genConsts) (hb : 8 ≤ T.t.bound)
    (h63 : T.t.bound ≤ ITy.i64.maxVal) : GExecC T 100 false 8 (ex8GRun T.t) where
  adm :=
    { env := ⟨1, 1, ex8GEnv⟩
      phi0 := by
        show IsSchedule (getK 8 + 1) (π (gY 8 ex8GFloats.v).toNat) (staticSched1 1 0 2)
        rw [ex8GK, ex8GY]
        show IsSchedule 1 (π 1) _
        rw [pi_one]
        exact staticSched1_isSchedule 1 0 (by decide)
      b := fun _ => by
        show ex8BRun.valid T.lc 8 (8 / max (gY 8 ex8GFloats.v).toNat 1) = true
        rw [ex8GY, hlc]
        decide
      ac := by
        show AcRunOK _ 8 (gZ 8 (gY 8 ex8GFloats.v) (ex8GFloats.w (gY 8 ex8GFloats.v))).toNat (getK 8) _ _
        rw [ex8GY, ex8GZ, ex8GK]
        exact ⟨staticSched1_isSchedule _ _ (by decide),
          [2], by simp, by rw [sqrt_eight]; rfl, List.Perm.refl _⟩ }
  accept := fun h => absurd h (by simp)
  yB := by
    show (gY 8 ex8GFloats.v).toNat ≤ 100
    rw [ex8GY]; decide
  reach := by
    show GReach T.t 8 (gY 8 ex8GFloats.v).toNat
    rw [ex8GY]
    have h1 : (1 : ℤ).toNat = 1 := by decide
    rw [h1]
    refine ⟨by omega, by rw [sqrt_eight]; omega, ?_, h63⟩
    rw [xStar_one]
    omega

end Pc.Top
