/-
Bridge, part 4: the three Deleglise-Rivat leaf classes of PcModel/Formulas.lean (`S2trivial`, `S2easy`,
`S2hard`, called with `z = x / y`) equal the spec classes of PcProofs/Spec/DR.lean.
-/
import PcProofs.FormulasSqfree

namespace Pc
open Nat Finset Classical
open scoped Nat.Prime
variable {t : NT}

theorem pi_max (a b : ℕ) : π (max a b) = max (π a) (π b) :=
  Nat.monotone_primeCounting.map_max

/-- `π (t.p c) = c` for every `c` the table covers (`c = 0` included, `t.p 0 = 0`) -/
theorem NT.Valid.pi_p (hv : t.Valid) {c : ℕ} (hc : c ≤ π t.bound) : π (t.p c) = c := by
  rcases Nat.eq_zero_or_pos c with h | h
  · subst h; rw [hv.p_zero]; exact Nat.primeCounting_zero
  · rw [hv.p_eq c h hc, Spec.pi_p h]

/-- trivial leaves -/
theorem NT.S2trivial_eq (hv : t.Valid) {x y c : ℕ} (hy1 : 1 ≤ y) (hy : y ≤ t.bound)
    (hy2 : y * y ≤ x) (hc : c ≤ π y) :
    t.S2trivial x y (x / y) c = Spec.S2_trivial x y c := by
  have hcB : c ≤ π t.bound := le_trans hc (Spec.pi_mono hy)
  unfold NT.S2trivial Spec.S2_trivial
  rw [NT.sum_primesIn hv hy, isqrtN_eq, pi_max, hv.pi_p hcB]
  set s := max c (π (Nat.sqrt y)) with hs
  set s' := max c (π (Nat.sqrt (x / y))) with hs'
  have hss' : s ≤ s' := by
    apply max_le_max le_rfl
    apply Spec.pi_mono
    apply Nat.sqrt_le_sqrt
    exact (Nat.le_div_iff_mul_le hy1).2 hy2
  -- spec side: levels up to s' carry no trivial leaf
  have e1 : ∑ b ∈ Ioc s (π y), (((Ioc b (π y)).filter
        (fun j => x < Spec.p b * Spec.p b * Spec.p j)).card : ℤ)
      = ∑ b ∈ Ioc s (π y), (if s' < b then (((Ioc b (π y)).filter
        (fun j => x < Spec.p b * Spec.p b * Spec.p j)).card : ℤ) else 0) := by
    apply Finset.sum_congr rfl
    intro b hb
    rw [mem_Ioc] at hb
    split_ifs with h
    · rfl
    · have hcb : c < b := lt_of_le_of_lt (le_max_left _ _) hb.1
      have hb1 : 1 ≤ b := by omega
      have hbz : b ≤ π (Nat.sqrt (x / y)) := by
        rcases le_max_iff.1 (not_lt.1 h) with h' | h'
        · omega
        · exact h'
      have hq : Spec.p b * Spec.p b ≤ x / y := Nat.le_sqrt.1 ((Spec.p_le_iff hb1).2 hbz)
      rw [Finset.filter_false_of_mem, Finset.card_empty, Nat.cast_zero]
      intro j hj
      rw [mem_Ioc] at hj
      exact Spec.no_trivial_of_sq_le hy1 hq (by omega) hj.2
  rw [e1, sum_Ioc_ite_gt _ _ _ hss']
  apply Finset.sum_congr rfl
  intro b hb
  rw [mem_Ioc] at hb
  have hb1 : 1 ≤ b := by omega
  rw [Spec.trivial_count hb1]
  have hpl : π (max (Spec.p b) (x / (Spec.p b * Spec.p b))) = max b (π (x / (Spec.p b * Spec.p b))) := by
    rw [pi_max, Spec.pi_p hb1]
  simp only []
  split_ifs with h
  · rw [hv.piOf_eq _ hy, hv.piOf_eq _ (le_trans h.le hy), hpl, Nat.cast_sub]
    rw [← hpl]; exact Spec.pi_mono h.le
  · have : π y ≤ max b (π (x / (Spec.p b * Spec.p b))) := by
      rw [← hpl]; exact Spec.pi_mono (not_lt.1 h)
    rw [Nat.sub_eq_zero_of_le this]; rfl

/-- easy leaves; `⌊x^(1/3)⌋ ≤ y` holds whenever `x < (y+1)³` -/
theorem NT.S2easy_eq (hv : t.Valid) {x y c : ℕ} (hy1 : 1 ≤ y) (hy : y ≤ t.bound)
    (hc3 : irootN 3 x ≤ y) :
    t.S2easy x y (x / y) c = Spec.S2_easy x y c := by
  have hc3B : irootN 3 x ≤ t.bound := le_trans hc3 hy
  have hsy : Nat.sqrt y ≤ t.bound := le_trans (Nat.sqrt_le_self y) hy
  unfold NT.S2easy Spec.S2_easy
  simp only [isqrtN_eq]
  rw [hv.piOf_eq _ hsy, hv.piOf_eq _ hc3B]
  set b0 := max c (π (Nat.sqrt y)) with hb0
  rw [sumInt_map_range_sub b0 (π (irootN 3 x)) (fun b =>
    sumInt ((t.primesIn (min (max (t.p b) (x / y / t.p b)) y) (min (x / (t.p b * t.p b)) y)).map
      fun l => (t.piOf (x / (t.p b * l)) : ℤ) - b + 2))]
  have hzero : ∀ b ∈ Ioc b0 (π y), b ∉ Ioc b0 (π (irootN 3 x)) →
      ∑ j ∈ (Ioc b (π y)).filter (fun j => Spec.p b * Spec.p b * Spec.p j ≤ x ∧ x / y < Spec.p b * Spec.p j),
        ((π (x / (Spec.p b * Spec.p j)) : ℤ) - b + 2) = 0 := by
    intro b hb hnb
    rw [mem_Ioc] at hb hnb
    have hb1 : 1 ≤ b := by omega
    have hbc : π (irootN 3 x) < b := by omega
    have hq : irootN 3 x + 1 ≤ Spec.p b := (Spec.lt_p_iff hb1).2 hbc
    have hx : x < Spec.p b * Spec.p b * Spec.p b := by
      calc x < (irootN 3 x + 1) ^ 3 := (irootN_spec 3 x (by omega)).2
        _ ≤ Spec.p b ^ 3 := Nat.pow_le_pow_left hq 3
        _ = Spec.p b * Spec.p b * Spec.p b := by ring
    rw [Finset.filter_false_of_mem, Finset.sum_empty]
    intro j hj
    rw [mem_Ioc] at hj
    have := Spec.all_trivial_of_lt_cube hb1 hx hj.1
    omega
  have hsub : Ioc b0 (π (irootN 3 x)) ⊆ Ioc b0 (π y) := by
    intro b hb
    rw [mem_Ioc] at hb ⊢
    exact ⟨hb.1, le_trans hb.2 (Spec.pi_mono hc3)⟩
  rw [← Finset.sum_subset hsub hzero]
  apply Finset.sum_congr rfl
  intro b hb
  rw [mem_Ioc] at hb
  have hb1 : 1 ≤ b := by omega
  have hbB : b ≤ π t.bound := le_trans hb.2 (Spec.pi_mono hc3B)
  simp only [hv.p_eq b hb1 hbB]
  set q := Spec.p b with hq
  have hq0 : 0 < q := Spec.p_pos b
  rw [NT.sum_primesIn hv (le_trans (min_le_right _ _) hy)]
  apply Finset.sum_congr
  · ext j
    rw [mem_filter, mem_Ioc, mem_Ioc]
    constructor
    · rintro ⟨h1, h2⟩
      have hj1 : 1 ≤ j := by omega
      rw [← Spec.lt_p_iff hj1] at h1
      rw [← Spec.p_le_iff hj1, le_min_iff] at h2
      rw [min_lt_iff, max_lt_iff] at h1
      rcases h1 with h1 | h1
      · refine ⟨⟨(Spec.p_lt_p_iff hb1 hj1).1 h1.1, (Spec.p_le_iff hj1).1 h2.2⟩, ?_, ?_⟩
        · have := (Nat.le_div_iff_mul_le (Nat.mul_pos hq0 hq0)).1 h2.1
          rwa [mul_comm] at this
        · have := (Nat.div_lt_iff_lt_mul hq0).1 h1.2
          rwa [mul_comm] at this
      · omega
    · rintro ⟨⟨h1, h2⟩, h3, h4⟩
      have hj1 : 1 ≤ j := by omega
      have hr : q < Spec.p j := Spec.p_lt_p hb1 h1
      have hry : Spec.p j ≤ y := (Spec.p_le_iff hj1).2 h2
      constructor
      · rw [← Spec.lt_p_iff hj1]
        apply lt_of_le_of_lt (min_le_left _ _)
        rw [max_lt_iff]
        refine ⟨hr, ?_⟩
        rw [Nat.div_lt_iff_lt_mul hq0, mul_comm]; exact h4
      · rw [← Spec.p_le_iff hj1, le_min_iff]
        refine ⟨?_, hry⟩
        rw [Nat.le_div_iff_mul_le (Nat.mul_pos hq0 hq0), mul_comm]; exact h3
  · intro j hj
    rw [mem_filter, mem_Ioc] at hj
    have hlt : x / (q * Spec.p j) < y := by
      rw [Nat.div_lt_iff_lt_mul (Nat.mul_pos hq0 (Spec.p_pos j)), mul_comm]
      exact (Nat.div_lt_iff_lt_mul hy1).1 hj.2.2
    rw [hv.piOf_eq _ (le_trans hlt.le hy)]

/-- hard leaves: everything is indexed by prime indices / `μ`, the table only has to reach `y` -/
theorem NT.S2hard_eq (hv : t.Valid) {x y c : ℕ} (hy : y ≤ t.bound) :
    t.S2hard x y (x / y) c = Spec.S2_hard x y c := by
  have hsy : Nat.sqrt y ≤ t.bound := le_trans (Nat.sqrt_le_self y) hy
  unfold NT.S2hard Spec.S2_hard
  simp only [isqrtN_eq]
  rw [hv.piOf_eq _ hsy, hv.piOf_eq _ hy]
  set bs := π (Nat.sqrt y) with hbs
  have hbsy : bs ≤ π y := Spec.pi_mono (Nat.sqrt_le_self y)
  congr 1
  · -- composite-m levels
    refine (congrArg Neg.neg (sumInt_map_range_sub c bs (fun b =>
      sumInt ((sqfreeBetween (y / t.p b) y (t.p b) y).map
        fun (m, mu) => mu * (t.phiOf (x / (t.p b * m)) (b - 1) : ℤ))))).trans ?_
    congr 1
    have : Ioc c (max c bs) = Ioc c bs := by
      ext b; simp only [mem_Ioc, le_max_iff]; omega
    rw [this]
    apply Finset.sum_congr rfl
    intro b hb
    rw [mem_Ioc] at hb
    exact hv.specLevel_eq (by omega) (le_trans (le_trans hb.2 hbsy) (Spec.pi_mono hy)) _ (fun _ _ => rfl)
  · -- prime leaves beyond π√y
    refine (sumInt_map_range_sub (max c bs) (π y) (fun b =>
      sumInt ((t.primesIn (t.p b) (min y (x / y / t.p b))).map
        fun l => (t.phiOf (x / (t.p b * l)) (b - 1) : ℤ)))).trans ?_
    apply Finset.sum_congr rfl
    intro b hb
    rw [mem_Ioc] at hb
    have hb1 : 1 ≤ b := by omega
    have hbB : b ≤ π t.bound := le_trans hb.2 (Spec.pi_mono hy)
    simp only [hv.p_eq b hb1 hbB]
    set q := Spec.p b with hq
    have hq0 : 0 < q := Spec.p_pos b
    rw [NT.sum_primesIn hv (le_trans (min_le_left _ _) hy), hq, Spec.pi_p hb1, ← hq]
    apply Finset.sum_congr
    · ext j
      rw [mem_filter, mem_Ioc, mem_Ioc]
      constructor
      · rintro ⟨h1, h2⟩
        have hj1 : 1 ≤ j := by omega
        rw [← Spec.p_le_iff hj1, le_min_iff] at h2
        refine ⟨⟨h1, (Spec.p_le_iff hj1).1 h2.1⟩, ?_⟩
        have := (Nat.le_div_iff_mul_le hq0).1 h2.2
        rwa [mul_comm] at this
      · rintro ⟨⟨h1, h2⟩, h3⟩
        have hj1 : 1 ≤ j := by omega
        refine ⟨h1, ?_⟩
        rw [← Spec.p_le_iff hj1, le_min_iff]
        refine ⟨(Spec.p_le_iff hj1).2 h2, ?_⟩
        rw [Nat.le_div_iff_mul_le hq0, mul_comm]; exact h3
    · intro j _
      rw [NT.phiOf_eq hv (by omega)]

end Pc
