/-
WP close, item 2b: the last 64-bit prime. `18446744073709551557 = 2^64 - 59` (`maxPrime64bits` of StorePrimes.hpp, PcModel/Iter.lean
`maxPrime64`) is prime — by a Pratt certificate (Lucas test, Mathlib `lucas_primality`), modular powers by a verified square-and-multiply
(`powMod_eq`) that the kernel evaluates on GMP naturals (`decide +kernel`). With it `IterSpecTo (realIter …) 18446744073709551557` — the LARGEST `N` for which the contract is true of
the real iterator (beyond it `generate_next_primes()` throws).
-/
import PcProofs.CloseIter3
import Mathlib.NumberTheory.LucasPrimality
import Mathlib.Data.Nat.ModEq
import Mathlib.Tactic.NormNum.Prime

namespace Pc.It
open Nat

/-- Lucas test over ℕ with the prime factors of `p - 1` given as a list -/
theorem lucas_list (p a : ℕ) (l : List ℕ) (hp1 : 1 < p) (hprod : l.prod = p - 1) (hl : ∀ r ∈ l, r.Prime)
    (ha : a ^ (p - 1) % p = 1) (hd : ∀ r ∈ l, a ^ ((p - 1) / r) % p ≠ 1) : p.Prime := by
  have key : ∀ k, ((a : ZMod p) ^ k = 1 ↔ a ^ k % p = 1) := by
    intro k
    have h1 : ((a ^ k : ℕ) : ZMod p) = ((1 : ℕ) : ZMod p) ↔ a ^ k % p = 1 % p := by
      rw [ZMod.natCast_eq_natCast_iff']
    rw [Nat.mod_eq_of_lt hp1] at h1
    rw [← h1]; push_cast; rfl
  apply lucas_primality p (a : ZMod p) ((key _).2 ha)
  intro q hq hdvd
  rw [← hprod] at hdvd
  obtain ⟨r, hr, hqr⟩ := (Prime.dvd_prod_iff hq.prime).1 hdvd
  have : q = r := (Nat.prime_dvd_prime_iff_eq hq (hl r hr)).1 hqr
  subst this
  rw [Ne, key]
  exact hd q hr

/-- square-and-multiply, `f` = number of exponent bits -/
def powModAux (p : ℕ) : ℕ → ℕ → ℕ → ℕ → ℕ
  | 0, _, _, acc => acc
  | f + 1, a, k, acc => if k = 0 then acc else powModAux p f (a * a % p) (k / 2) (if k % 2 = 1 then acc * a % p else acc)

theorem powModAux_spec (p : ℕ) : ∀ f a k acc, k < 2 ^ f → powModAux p f a k acc ≡ acc * a ^ k [MOD p] := by
  intro f
  induction f with
  | zero =>
    intro a k acc hk
    have : k = 0 := by omega
    subst this; simp [powModAux]; rfl
  | succ f ih =>
    intro a k acc hk
    rw [powModAux]
    by_cases h0 : k = 0
    · subst h0; simp; rfl
    · rw [if_neg h0]
      refine (ih _ (k / 2) _ (by omega)).trans ?_
      have hsq : (a * a % p) ^ (k / 2) ≡ a ^ (2 * (k / 2)) [MOD p] := by
        rw [pow_mul, pow_two]
        exact (Nat.mod_modEq _ _).pow _
      by_cases hodd : k % 2 = 1
      · rw [if_pos hodd]
        have hk2 : a ^ k = a * a ^ (2 * (k / 2)) := by
          rw [← pow_succ']; congr 1; omega
        rw [hk2, ← mul_assoc]
        exact ((Nat.mod_modEq _ _).mul hsq)
      · rw [if_neg hodd]
        have hk2 : k = 2 * (k / 2) := by omega
        rw [← hk2] at hsq
        exact (Nat.ModEq.refl acc).mul hsq

/-- `a ^ k % p` for `k < 2^64` by 64 squarings -/
theorem powMod_eq (p a k : ℕ) (hk : k < 2 ^ 64) : a ^ k % p = powModAux p 64 a k 1 % p := by
  have := powModAux_spec p 64 a k 1 hk
  rw [one_mul] at this
  exact this.symm

theorem prime_1427 : Nat.Prime 1427 := by norm_num
theorem prime_2131 : Nat.Prime 2131 := by norm_num
theorem prime_15331 : Nat.Prime 15331 := by norm_num

theorem prime_5594472617641 : Nat.Prime 5594472617641 := by
  apply lucas_list 5594472617641 13 [2, 2, 2, 3, 5, 1427, 2131, 15331] (by norm_num) (by norm_num)
  · intro r hr
    simp only [List.mem_cons, List.not_mem_nil, or_false] at hr
    rcases hr with rfl | rfl | rfl | rfl | rfl | rfl | rfl | rfl
    · norm_num
    · norm_num
    · norm_num
    · norm_num
    · norm_num
    · exact prime_1427
    · exact prime_2131
    · exact prime_15331
  · rw [powMod_eq _ _ _ (by norm_num)]; decide +kernel
  · intro r hr
    simp only [List.mem_cons, List.not_mem_nil, or_false] at hr
    rcases hr with rfl | rfl | rfl | rfl | rfl | rfl | rfl | rfl <;>
      (rw [powMod_eq _ _ _ (by norm_num)]; decide +kernel)

/-- the last 64-bit prime is prime -/
theorem prime_maxPrime64 : Nat.Prime maxPrime64 := by
  unfold maxPrime64
  apply lucas_list 18446744073709551557 2 [2, 2, 11, 137, 547, 5594472617641] (by norm_num) (by norm_num)
  · intro r hr
    simp only [List.mem_cons, List.not_mem_nil, or_false] at hr
    rcases hr with rfl | rfl | rfl | rfl | rfl | rfl
    · norm_num
    · norm_num
    · norm_num
    · norm_num
    · norm_num
    · exact prime_5594472617641
  · rw [powMod_eq _ _ _ (by norm_num)]; decide +kernel
  · intro r hr
    simp only [List.mem_cons, List.not_mem_nil, or_false] at hr
    rcases hr with rfl | rfl | rfl | rfl | rfl | rfl <;>
      (rw [powMod_eq _ _ _ (by norm_num)]; decide +kernel)

/-- **the real iterator meets the P2 / B contract at every position up to the last 64-bit prime** -/
theorem realIter_specTo_maxPrime64 (e : Env) (he : GenSpec e) (hp hn : ℕ → ℕ) (hhn : ∀ n, hn n ≤ umax) :
    P2L.IterSpecTo (realIter e hp hn) maxPrime64 :=
  realIter_specTo e he hp hn hhn maxPrime64 (by unfold maxPrime64 umax; omega)
    ⟨maxPrime64, prime_maxPrime64, le_refl _, by unfold maxPrime64 umax; omega⟩

/-- a proper divisor of each of the 58 numbers `2^64-58 … 2^64-1` -/
def gapWitness : List ℕ := [2, 41, 2, 3, 2, 29, 2, 5, 2, 3, 2, 31, 2, 11071, 2, 3, 2, 5, 2, 139646831, 2, 3, 2, 17, 2, 827, 2, 3, 2, 13, 2, 11, 2, 3, 2, 7, 2, 5, 2, 3, 2, 19, 2, 53, 2, 3, 2, 5, 2, 7, 2, 3, 2, 11, 2, 13, 2, 3]

theorem gapWitness_ok : ∀ i, i < 58 → 1 < gapWitness.getD i 0 ∧ gapWitness.getD i 0 < maxPrime64 + 1 + i ∧
    gapWitness.getD i 0 ∣ maxPrime64 + 1 + i := by decide +kernel

/-- no prime in `(18446744073709551557, 2^64-1]`: it IS the last 64-bit prime -/
theorem no_prime_above_maxPrime64 (p : ℕ) (hp : p.Prime) (h1 : maxPrime64 < p) : ¬ p ≤ umax := by
  intro h2
  obtain ⟨i, rfl⟩ : ∃ i, p = maxPrime64 + 1 + i := ⟨p - (maxPrime64 + 1), by omega⟩
  have hi : i < 58 := by unfold maxPrime64 umax at *; omega
  obtain ⟨g1, g2, g3⟩ := gapWitness_ok i hi
  rcases (Nat.dvd_prime hp).1 g3 with h | h <;> omega

/-- … and not beyond: from `maxPrime64 + 1` on, `generate_next_primes()` of a fresh iterator throws, so `next_ne` fails:
    `maxPrime64` is the LARGEST `N` with `IterSpecTo (realIter …) N` -/
theorem realIter_next_beyond (e : Env) (he : GenSpec e) (hp hn : ℕ → ℕ) (hhn : ∀ n, hn n ≤ umax) (n : ℕ) (h1 : maxPrime64 < n)
    (h2 : n ≤ umax) : (realIter e hp hn).next n = [] := by
  have := (genNext_spec e he bigFuel (init n (hn n)) n (fwdReady_init n (hn n) h2) h2 (hhn n) h2 (fwdFuel_le_big _ n)).2
    (fun p hp' hnp => no_prime_above_maxPrime64 p hp' (by omega))
  show firstBuf e n (hn n) = []
  unfold firstBuf; rw [this]

end Pc.It
