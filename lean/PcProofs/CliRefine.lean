/-
WP cli2 — the L2 command-line model (PcModel/Cli.lean) refines the L1 API machine of C20 (PcModel/ApiState.lean:
`CliOpt`, `cliOption`, `cliRun`), and the option loop never runs out of fuel.

* `itemCliOpt` : the L1 option a parsed item denotes (none for numbers and main options);
* `item_effect_is_cliOption` : one iteration of the switch in `parseOptions` acts on (σ, opts.time) exactly as
  `Pc.cliOption` acts for that L1 option (split per option group: one lemma per `case` of the switch);
* `parseOptions_refines` : (σ, time) after `parseOptions` = fold of `cliOption` over the L1 options of argv from (σ₀, false);
* `parseLoopIn_fuel` : with fuel ≥ number of remaining arguments the result of the loop does not depend on the fuel, and
  `parseLoop_no_fuel_error`: the fuel-exhaustion branch is not taken.
-/
import PcProofs.Cli
import PcProofs.ApiState

namespace Pc.Cli
open Pc.Calc

/-! ### items → L1 options -/

/-- the value `Option::to<int>()` hands to a setter: `toMaxint` narrowed to `int` -/
def itemInt (it : Item) : Option Int :=
  match toMaxint it.val with
  | .ok v => some (wrapInt32 v)
  | .error _ => none

/-- The option of the L1 machine (C20) that a parsed item denotes: `-t` / `--threads`, `-s` / `--status[=N]`, `--time`,
    `-a` / `--alpha`, `--alpha-y`, `--alpha-z`; `none` for everything else (numbers, main options — they do not act on σ or
    `opts.time`) and for a value that `Option::to<T>` rejects (then the run ends with "invalid option"). -/
def itemCliOpt (stod : Bytes → Option AlphaArg) (it : Item) : Option CliOpt :=
  if it.id = .alpha then (stod it.val).map .alpha
  else if it.id = .alphaY then (stod it.val).map .alphaY
  else if it.id = .alphaZ then (stod it.val).map .alphaZ
  else if it.id = .threads then (itemInt it).map .threads
  else if it.id = .status then (if it.val.isEmpty then some (.status none) else (itemInt it).map fun p => .status (some p))
  else if it.id = .time then some .time
  else none

/-- what one L1 option (or none) does to (σ, opts.time) -/
def stepL1 (hw : ApiHw) (st : ApiState × Bool) : Option CliOpt → ApiState × Bool
  | none => st
  | some o => cliOption hw st o

/-! one lemma per `case` of the switch in `parseOptions` -/

private theorem eff_alpha {hw stod} {s s' : PState} {it : Item} (hid : it.id = .alpha)
    (h : applyItem hw stod s it = .cont s') : (s'.σ, s'.time) = stepL1 hw (s.σ, s.time) (itemCliOpt stod it) := by
  simp only [applyItem, hid] at h
  simp only [itemCliOpt, hid, if_true]
  cases hs : stod it.val with
  | none => simp [hs] at h
  | some a => simp only [hs] at h; cases h; rfl

private theorem eff_alphaY {hw stod} {s s' : PState} {it : Item} (hid : it.id = .alphaY)
    (h : applyItem hw stod s it = .cont s') : (s'.σ, s'.time) = stepL1 hw (s.σ, s.time) (itemCliOpt stod it) := by
  simp only [applyItem, hid] at h
  simp only [itemCliOpt, hid, reduceCtorEq, if_false, if_true]
  cases hs : stod it.val with
  | none => simp [hs] at h
  | some a => simp only [hs] at h; cases h; rfl

private theorem eff_alphaZ {hw stod} {s s' : PState} {it : Item} (hid : it.id = .alphaZ)
    (h : applyItem hw stod s it = .cont s') : (s'.σ, s'.time) = stepL1 hw (s.σ, s.time) (itemCliOpt stod it) := by
  simp only [applyItem, hid] at h
  simp only [itemCliOpt, hid, reduceCtorEq, if_false, if_true]
  cases hs : stod it.val with
  | none => simp [hs] at h
  | some a => simp only [hs] at h; cases h; rfl

private theorem eff_threads {hw stod} {s s' : PState} {it : Item} (hid : it.id = .threads)
    (h : applyItem hw stod s it = .cont s') : (s'.σ, s'.time) = stepL1 hw (s.σ, s.time) (itemCliOpt stod it) := by
  simp only [applyItem, hid] at h
  simp only [itemCliOpt, hid, reduceCtorEq, if_false, if_true, itemInt]
  cases hs : toMaxint it.val with
  | error e => simp [hs] at h
  | ok v => simp only [hs] at h; cases h; rfl

private theorem eff_status {hw stod} {s s' : PState} {it : Item} (hid : it.id = .status)
    (h : applyItem hw stod s it = .cont s') : (s'.σ, s'.time) = stepL1 hw (s.σ, s.time) (itemCliOpt stod it) := by
  simp only [applyItem, hid] at h
  simp only [itemCliOpt, hid, reduceCtorEq, if_false, if_true, itemInt]
  cases he : it.val.isEmpty with
  | true => simp only [he, if_true] at h ⊢; cases h; rfl
  | false =>
    simp only [he, Bool.false_eq_true, if_false] at h ⊢
    cases hs : toMaxint it.val with
    | error e => simp [hs] at h
    | ok v => simp only [hs] at h; cases h; rfl

private theorem eff_time {hw stod} {s s' : PState} {it : Item} (hid : it.id = .time)
    (h : applyItem hw stod s it = .cont s') : (s'.σ, s'.time) = stepL1 hw (s.σ, s.time) (itemCliOpt stod it) := by
  simp only [applyItem, hid] at h
  simp only [itemCliOpt, hid, reduceCtorEq, if_false, if_true]
  cases h; rfl

private theorem eff_number {hw stod} {s s' : PState} {it : Item} (hid : it.id = .number)
    (h : applyItem hw stod s it = .cont s') : (s'.σ, s'.time) = stepL1 hw (s.σ, s.time) (itemCliOpt stod it) := by
  simp only [applyItem, hid] at h
  simp only [itemCliOpt, hid, reduceCtorEq, if_false]
  cases hs : toMaxint it.val with
  | error e => simp [hs] at h
  | ok v => simp only [hs] at h; cases h; rfl

/-- `default:` of the switch — `setMainOption` writes `option`/`optionStr` only -/
private theorem eff_main {hw stod} {s s' : PState} {it : Item} (hm : isMainId it.id = true)
    (h : applyItem hw stod s it = .cont s') : (s'.σ, s'.time) = stepL1 hw (s.σ, s.time) (itemCliOpt stod it) := by
  have hk : ∀ i : OptId, isMainId i = true →
      i ≠ .alpha ∧ i ≠ .alphaY ∧ i ≠ .alphaZ ∧ i ≠ .threads ∧ i ≠ .status ∧ i ≠ .time := by
    intro i; cases i <;> simp [isMainId, specialIds]
  obtain ⟨k1, k2, k3, k4, k5, k6⟩ := hk _ hm
  have hopt : itemCliOpt stod it = none := by simp only [itemCliOpt, k1, k2, k3, k4, k5, k6, if_false]
  rw [hopt]
  obtain ⟨_, _, _, _, a5, _⟩ := applyItem_cont h
  -- the default branch: `{ s with optionStr, option }`
  unfold applyItem at h
  split at h
  case h_11 =>
    split at h
    · cases h
    · cases h; rfl
  all_goals (rename_i hid; rw [hid] at hm; exact absurd hm (by decide))

/-- **Each parsed item acts on the API state as the L1 machine says** (`Pc.cliOption` of PcModel/ApiState.lean): one
    iteration of the switch of `parseOptions` that continues maps (σ, opts.time) to `cliOption hw (σ, time) o` for the L1
    option `o` the item denotes, and leaves both alone when it denotes none (number, main option). -/
theorem item_effect_is_cliOption {hw : ApiHw} {stod : Bytes → Option AlphaArg} {s s' : PState} {it : Item}
    (h : applyItem hw stod s it = .cont s') :
    (s'.σ, s'.time) = stepL1 hw (s.σ, s.time) (itemCliOpt stod it) := by
  by_cases hm : isMainId it.id = true
  · exact eff_main hm h
  · have hs : it.id ∈ specialIds := by
      simp only [isMainId, Bool.not_eq_true'] at hm
      simpa using hm
    simp only [specialIds, List.mem_cons, List.not_mem_nil, or_false] at hs
    rcases hs with e | e | e | e | e | e | e | e | e | e
    · exact eff_alpha e h
    · exact eff_alphaY e h
    · exact eff_alphaZ e h
    · exact eff_number e h
    · exact eff_threads e h
    · exact absurd e (applyItem_cont h).1
    · exact eff_status e h
    · exact eff_time e h
    · exact absurd e (applyItem_cont h).2.2.1
    · exact absurd e (applyItem_cont h).2.1

/-- `itemEffect` (the σ part used by C20Cli `cli_state_fresh`) in L1 terms -/
theorem itemEffect_eq_cliOption (hw : ApiHw) (stod : Bytes → Option AlphaArg) (σ : ApiState) (t : Bool) (it : Item)
    (hc : ∃ s', applyItem hw stod { σ := σ, time := t } it = .cont s') :
    itemEffect hw stod σ it = (stepL1 hw (σ, t) (itemCliOpt stod it)).1 := by
  obtain ⟨s', hs'⟩ := hc
  have h1 := item_effect_is_cliOption hs'
  -- the σ component does not depend on `time` or the other fields of the parser state
  have h2 : ∀ (s : PState) s'', applyItem hw stod s it = .cont s'' → s''.σ = itemEffect hw stod s.σ it :=
    fun s s'' h => applyItem_σ h
  rw [← h2 _ _ hs']
  exact congrArg Prod.fst h1

/-! ### the loop -/

/-- the L1 options of the items of a command line, in argv order -/
def optsOfItems (stod : Bytes → Option AlphaArg) (l : List Item) : List CliOpt := l.filterMap (itemCliOpt stod)

theorem foldl_stepL1 (hw : ApiHw) (stod : Bytes → Option AlphaArg) (l : List Item) (st : ApiState × Bool) :
    (l.map (itemCliOpt stod)).foldl (stepL1 hw) st = (optsOfItems stod l).foldl (cliOption hw) st := by
  induction l generalizing st with
  | nil => rfl
  | cons it l ih =>
    simp only [List.map_cons, List.foldl_cons, optsOfItems, List.filterMap_cons]
    cases ho : itemCliOpt stod it with
    | none => simpa [stepL1, optsOfItems] using ih st
    | some o => simpa [stepL1, optsOfItems] using ih (cliOption hw st o)

/-- (σ, time) after the option loop = the L1 fold over the items' options -/
theorem parseLoopIn_refines (tbl : List (String × OptId × IsParam)) (hw : ApiHw) (stod : Bytes → Option AlphaArg) :
    ∀ (fuel : Nat) (s0 : PState) (argv : List Bytes) (s : PState), parseLoopIn tbl hw stod fuel s0 argv = .ok s →
      (s.σ, s.time) = (optsOfItems stod (itemsIn tbl fuel argv)).foldl (cliOption hw) (s0.σ, s0.time) := by
  intro fuel
  induction fuel with
  | zero =>
    intro s0 argv s h
    cases argv with
    | nil => simp only [parseLoopIn] at h; cases h; simp [itemsIn, optsOfItems]
    | cons a r => simp [parseLoopIn] at h
  | succ n ih =>
    intro s0 argv s h
    cases argv with
    | nil => simp only [parseLoopIn] at h; cases h; simp [itemsIn, optsOfItems]
    | cons str rest =>
      simp only [parseLoopIn] at h
      split at h
      · cases h
      · rename_i it rest' hp
        split at h
        · cases h
        · cases h
        · rename_i s1 ha
          have hit : itemsIn tbl (n + 1) (str :: rest) = it :: itemsIn tbl n rest' := by simp [itemsIn, hp]
          rw [hit, ih s1 rest' s h, item_effect_is_cliOption ha, ← foldl_stepL1, ← foldl_stepL1]
          rfl

/-- the L1 options of a command line -/
def cliOpts (stod : Bytes → Option AlphaArg) (argv : List Bytes) : List CliOpt := optsOfItems stod (items argv)

/-- **`parseOptions` refines the L1 option fold**: the global settings σ and `opts.time` with which main runs are the
    fold of `Pc.cliOption` over the L1 options of argv (in argv order) from the state of a fresh process. -/
theorem parseOptions_refines {hw : ApiHw} {stod : Bytes → Option AlphaArg} {argv : List Bytes} {o : CmdOpts}
    (h : parseOptions hw stod argv = .ok o) :
    (o.σ, o.time) = (cliOpts stod argv).foldl (cliOption hw) (ApiState.init, false) := by
  unfold parseOptions at h
  split at h
  · cases h
  · split at h
    · cases h
    · cases h
    · rename_i s hs
      have := parseLoopIn_refines optTable hw stod argv.length {} argv s hs
      split at h
      · cases h
      · rename_i o' hf
        cases h
        unfold finishParse at hf
        split at hf
        · cases hf
        · split at hf
          · cases hf
          · cases hf; exact this

/-! ### fuel -/

/-- `parseOption` returns a suffix of the arguments after the current one: `i` only moves forward -/
theorem parseOptionIn_rest_length {tbl str rest it rest'} (h : parseOptionIn tbl str rest = .ok (it, rest')) :
    rest'.length ≤ rest.length := by
  obtain ⟨_, _, h3, _⟩ := parseOptionIn_ok h
  rcases h3 with ⟨_, e⟩ | ⟨e, _, _⟩
  · rw [e]
  · rw [e]; exact Nat.le_succ _

/-- With at least as much fuel as there are arguments left, the loop never reaches its fuel-exhaustion branch: its
    result is the result with exactly `argv.length` fuel — in particular independent of the fuel. -/
theorem parseLoopIn_fuel (tbl : List (String × OptId × IsParam)) (hw : ApiHw) (stod : Bytes → Option AlphaArg) :
    ∀ (fuel : Nat) (s : PState) (argv : List Bytes), argv.length ≤ fuel →
      parseLoopIn tbl hw stod fuel s argv = parseLoopIn tbl hw stod argv.length s argv := by
  intro fuel
  induction fuel using Nat.strong_induction_on with
  | _ fuel ih =>
    intro s argv hle
    cases argv with
    | nil => cases fuel <;> simp [parseLoopIn]
    | cons str rest =>
      cases fuel with
      | zero => simp at hle
      | succ n =>
        simp only [List.length_cons, parseLoopIn]
        cases hp : parseOptionIn tbl str rest with
        | error e => rfl
        | ok p =>
          obtain ⟨it, rest'⟩ := p
          have hl := parseOptionIn_rest_length hp
          have hn : rest.length ≤ n := by simpa using hle
          dsimp only
          cases ha : applyItem hw stod s it with
          | err e => rfl
          | exit e => rfl
          | cont s' =>
            dsimp only
            rw [ih n (Nat.lt_succ_self n) s' rest' (Nat.le_trans hl hn),
                ih rest.length (by omega) s' rest' hl]

/-- the step relation of the loop without fuel: what "the loop ends with `r`" means -/
inductive LoopRuns (tbl : List (String × OptId × IsParam)) (hw : ApiHw) (stod : Bytes → Option AlphaArg) :
    PState → List Bytes → ParseResult → Prop where
  | done (s) : LoopRuns tbl hw stod s [] (.ok s)
  | parseErr {s str rest e} : parseOptionIn tbl str rest = .error e → LoopRuns tbl hw stod s (str :: rest) (.err e)
  | applyErr {s str rest it rest' e} : parseOptionIn tbl str rest = .ok (it, rest') → applyItem hw stod s it = .err e →
      LoopRuns tbl hw stod s (str :: rest) (.err e)
  | applyExit {s str rest it rest' e} : parseOptionIn tbl str rest = .ok (it, rest') → applyItem hw stod s it = .exit e →
      LoopRuns tbl hw stod s (str :: rest) (.exit e)
  | step {s str rest it rest' s' r} : parseOptionIn tbl str rest = .ok (it, rest') → applyItem hw stod s it = .cont s' →
      LoopRuns tbl hw stod s' rest' r → LoopRuns tbl hw stod s (str :: rest) r

/-- **Fuel exhaustion is unreachable**: the fuelled loop with `argv.length` fuel computes exactly the result of the
    fuel-free `for` loop (`LoopRuns`: parse an option, apply it, continue with the arguments after it). Every `.err .lib`
    of `parseLoop` therefore comes from `parseOption` (the `optionMap.at("--number")` lookup), none from the fuel. -/
theorem parseLoopIn_runs (tbl : List (String × OptId × IsParam)) (hw : ApiHw) (stod : Bytes → Option AlphaArg) :
    ∀ (n : Nat) (s : PState) (argv : List Bytes), argv.length ≤ n →
      LoopRuns tbl hw stod s argv (parseLoopIn tbl hw stod argv.length s argv) := by
  intro n
  induction n with
  | zero =>
    intro s argv h
    cases argv with
    | nil => exact .done s
    | cons a r => simp at h
  | succ n ih =>
    intro s argv h
    cases argv with
    | nil => exact .done s
    | cons str rest =>
      simp only [List.length_cons, parseLoopIn]
      cases hp : parseOptionIn tbl str rest with
      | error e => exact .parseErr hp
      | ok p =>
        obtain ⟨it, rest'⟩ := p
        dsimp only
        cases ha : applyItem hw stod s it with
        | err e => exact .applyErr hp ha
        | exit e => exact .applyExit hp ha
        | cont s' =>
          dsimp only
          have hl := parseOptionIn_rest_length hp
          have hn : rest.length ≤ n := by simpa using h
          rw [parseLoopIn_fuel tbl hw stod rest.length s' rest' hl]
          exact .step hp ha (ih s' rest' (Nat.le_trans hl hn))

/-- the fuel-free loop is deterministic, so `LoopRuns` characterises the result -/
theorem LoopRuns.unique {tbl hw stod s argv r₁ r₂} (h₁ : LoopRuns tbl hw stod s argv r₁)
    (h₂ : LoopRuns tbl hw stod s argv r₂) : r₁ = r₂ := by
  induction h₁ generalizing r₂ with
  | done s => cases h₂; rfl
  | parseErr hp =>
    cases h₂ with
    | parseErr hp' => rw [hp] at hp'; cases hp'; rfl
    | applyErr hp' _ => rw [hp] at hp'; cases hp'
    | applyExit hp' _ => rw [hp] at hp'; cases hp'
    | step hp' _ _ => rw [hp] at hp'; cases hp'
  | applyErr hp ha =>
    cases h₂ with
    | parseErr hp' => rw [hp] at hp'; cases hp'
    | applyErr hp' ha' => rw [hp] at hp'; cases hp'; rw [ha] at ha'; cases ha'; rfl
    | applyExit hp' ha' => rw [hp] at hp'; cases hp'; rw [ha] at ha'; cases ha'
    | step hp' ha' _ => rw [hp] at hp'; cases hp'; rw [ha] at ha'; cases ha'
  | applyExit hp ha =>
    cases h₂ with
    | parseErr hp' => rw [hp] at hp'; cases hp'
    | applyErr hp' ha' => rw [hp] at hp'; cases hp'; rw [ha] at ha'; cases ha'
    | applyExit hp' ha' => rw [hp] at hp'; cases hp'; rw [ha] at ha'; cases ha'; rfl
    | step hp' ha' _ => rw [hp] at hp'; cases hp'; rw [ha] at ha'; cases ha'
  | step hp ha _ ih =>
    cases h₂ with
    | parseErr hp' => rw [hp] at hp'; cases hp'
    | applyErr hp' ha' => rw [hp] at hp'; cases hp'; rw [ha] at ha'; cases ha'
    | applyExit hp' ha' => rw [hp] at hp'; cases hp'; rw [ha] at ha'; cases ha'
    | step hp' ha' hr => rw [hp] at hp'; cases hp'; rw [ha] at ha'; cases ha'; exact ih hr

/-- the real table has a "--number" row, so `parseOption` itself never yields `.err .lib` -/
theorem parseOption_no_lib (str : Bytes) (rest : List Bytes) : parseOption str rest ≠ .error .lib := by
  have hn : lookupIn optTable (ofStr "--number") = some (.number, .required) := by decide
  have hk : ∀ s o v r, finishKeyed optTable s o v r ≠ .error .lib := by
    intro s o v r
    unfold finishKeyed
    split
    · simp
    · split <;> simp
  unfold parseOption parseOptionIn
  split
  · simp
  · split
    · split
      · split
        · simp
        · split <;> simp
      · split
        · split <;> simp
        · simp
      · simp
    · split
      · split
        · exact hk _ _ _ _
        · split
          · exact hk _ _ _ _
          · exact hk _ _ _ _
      · split
        · simp
        · split
          · simp
          · rw [hn]; simp

theorem applyItem_no_lib (hw : ApiHw) (stod : Bytes → Option AlphaArg) (s : PState) (it : Item) :
    applyItem hw stod s it ≠ .err .lib := by
  unfold applyItem
  split <;> (try split) <;> (try split) <;> simp

/-- **`parseOptions` never reports the fuel/`std::out_of_range` class**: with the real option table neither the fuel nor
    the `optionMap.at` lookups can fail, so every error of `parseOptions` is one of the eight message classes the source
    throws explicitly. -/
theorem parseLoop_no_fuel_error (hw : ApiHw) (stod : Bytes → Option AlphaArg) (s : PState) (argv : List Bytes) :
    parseLoop hw stod s argv ≠ .err .lib := by
  have hr := parseLoopIn_runs optTable hw stod argv.length s argv (Nat.le_refl _)
  unfold parseLoop
  generalize parseLoopIn optTable hw stod argv.length s argv = r at hr
  induction hr with
  | done s => simp
  | parseErr hp => intro e; cases e; exact parseOption_no_lib _ _ hp
  | applyErr _ ha => intro e; cases e; exact applyItem_no_lib _ _ _ _ ha
  | applyExit _ _ => simp
  | step _ _ _ ih => exact ih

end Pc.Cli

namespace Pc.Cli
open Pc.Calc

/-! ### a whole run against the L1 machine -/

/-- the state of the L1 machine after the options of a command line -/
def l1State (hw : ApiHw) (stod : Bytes → Option AlphaArg) (argv : List Bytes) : ApiState × Bool :=
  (cliOpts stod argv).foldl (cliOption hw) (ApiState.init, false)

/-- The library as the L1 machine of C20 sees it through the default option: `pi(const std::string&)` on the text `xs` =
    `pi(to_maxint(xs), get_num_threads())` — the function `alg` under the same configuration. -/
def apiOfCli (alg : CliAlg) : ApiAlgorithms :=
  ⟨fun cfg c => match c with
    | .piStr xs => (match toMaxint xs with
      | .ok x => (match alg cfg ⟨"pi", x, none, true⟩ with
        | some v => .int v
        | none => .err)
      | .error _ => .err)
    | _ => .err⟩

/-- every result line of a run is the library's value under the configuration of the L1 machine's state -/
theorem cliMain_result_l1 (hw : ApiHw) (stod : Bytes → Option AlphaArg) (alg : CliAlg) (argv : List Bytes) (v : Int)
    (hv : OutItem.result v ∈ (cliMain hw stod alg argv).stdout) :
    ∃ c, (cliMain hw stod alg argv).call = some c ∧ alg ((l1State hw stod argv).1.config hw) c = some v ∧
      (OutItem.seconds ∈ (cliMain hw stod alg argv).stdout ↔ (l1State hw stod argv).2 = true) := by
  generalize hr : cliMain hw stod alg argv = r at hv
  unfold cliMain at hr
  split at hr
  · subst hr; simp at hv
  · subst hr; simp at hv
  · subst hr; simp at hv
  · subst hr; simp at hv
  · rename_i o hp
    have href := parseOptions_refines hp
    have hσ : (l1State hw stod argv).1 = o.σ := by unfold l1State; rw [← href]
    have ht : (l1State hw stod argv).2 = o.time := by unfold l1State; rw [← href]
    obtain ⟨_, _, _, p3, _⟩ := parseOptions_ok hp
    split at hr
    · subst hr; simp at hv
    · rename_i hm
      obtain ⟨d, hd⟩ := dispatchOf_total o.option p3
      rw [mainCall_none hm] at hd
      cases hd
    · rename_i call d hm
      split at hr
      · subst hr; exfalso; revert hv; dsimp only; split <;> simp
      · rename_i res ha
        subst hr
        have hv' : v = res := mem_printResult hv
        subst hv'
        refine ⟨call, rfl, by rw [hσ]; exact ha, ?_⟩
        rw [ht]
        -- a result line is printed, so `is_print_combined_result()` holds and `Seconds` follows iff `opts.time`
        dsimp only at hv ⊢
        generalize (if (d.formula && o.σ.print && decide (1 ≤ call.x)) = true then setPrintVariables o.σ true else o.σ) = σ' at hv ⊢
        unfold printResult at hv ⊢
        cases hc : isPrintCombinedResult σ' with
        | false => exfalso; revert hv; simp only [hc]; split <;> simp
        | true =>
          cases hT : o.time <;> cases hP : σ'.print <;> simp

/-- what main does for the default option (`primecount x [settings]`) -/
theorem cliMain_default {hw : ApiHw} {stod : Bytes → Option AlphaArg} (alg : CliAlg) {argv : List Bytes} {o : CmdOpts}
    (h : parseOptions hw stod argv = .ok o) (hdef : o.option = .default) :
    cliMain hw stod alg argv =
      (match alg (o.σ.config hw) ⟨"pi", o.x, none, true⟩ with
       | none => ⟨1, if o.σ.print then [.statusOutput] else [], some .lib, some ⟨"pi", o.x, none, true⟩⟩
       | some res => ⟨0, printResult o.σ o.time res, none, some ⟨"pi", o.x, none, true⟩⟩) := by
  have hmc : mainCall o = .ok (some (⟨"pi", o.x, none, true⟩, ⟨"pi", false, false, true, false⟩)) := by
    unfold mainCall; rw [hdef]; rfl
  unfold cliMain
  rw [h]
  simp only [hmc]
  cases alg (o.σ.config hw) ⟨"pi", o.x, none, true⟩ <;> simp

/-- **The L2 CLI model refines the L1 API machine of C20.** For a command line without a main option that `parseOptions`
    accepts, with `xs` any text whose checked value is the run's `x` (e.g. the text of its first number argument), the
    run of the L2 model and `Pc.cliRun` of PcModel/ApiState.lean — fresh σ₀, the command line's L1 options folded with
    `cliOption` in argv order, one `pi` call, the result line — agree: the L1 machine yields a number `v` iff the program
    exits 0 and prints exactly the result line `v`, followed by `Seconds` iff the L1 machine says so; the L1 machine
    yields an error iff the program exits 1 with the library's error and prints no result line. -/
theorem cliMain_refines_cliRun (hw : ApiHw) (stod : Bytes → Option AlphaArg) (alg : CliAlg) (argv : List Bytes) (o : CmdOpts)
    (h : parseOptions hw stod argv = .ok o) (hdef : o.option = .default) (xs : Bytes) (hxs : toMaxint xs = .ok o.x) :
    let out := cliRun hw (apiOfCli alg) (cliOpts stod argv) xs
    let r := cliMain hw stod alg argv
    (∀ v, out.number = some (.int v) ↔ (r.exit = 0 ∧ OutItem.result v ∈ r.stdout)) ∧
    (out.number = some .err ↔ (r.exit = 1 ∧ r.err = some .lib)) ∧
    (out.number = some .err ∨ ∃ v, out.number = some (.int v)) ∧
    (r.exit = 0 → (out.seconds = true ↔ OutItem.seconds ∈ r.stdout)) ∧
    (∀ v w, OutItem.result v ∈ r.stdout → OutItem.result w ∈ r.stdout → v = w) := by
  intro out r
  have href := parseOptions_refines h
  have hpv : o.σ.printVariables = false := by
    have := cliFold_printVariables hw (cliOpts stod argv) (ApiState.init, false)
    rw [← href] at this
    exact this
  have hout : out = (match alg (o.σ.config hw) ⟨"pi", o.x, none, true⟩ with
      | some v => ⟨some (.int v), o.time⟩
      | none => ⟨some .err, o.time⟩) := by
    show cliRun hw (apiOfCli alg) (cliOpts stod argv) xs = _
    unfold cliRun
    simp only [← href, isPrintCombinedResult, hpv, Bool.not_false, if_true, apiOfCli, hxs]
    cases alg (o.σ.config hw) ⟨"pi", o.x, none, true⟩ <;> rfl
  have hr : r = _ := cliMain_default alg h hdef
  cases ha : alg (o.σ.config hw) ⟨"pi", o.x, none, true⟩ with
  | none =>
    rw [ha] at hout hr
    rw [hout, hr]
    refine ⟨fun v => by simp, by simp, Or.inl rfl, by simp, ?_⟩
    intro v w hv; exfalso; revert hv; dsimp only; split <;> simp
  | some res =>
    rw [ha] at hout hr
    rw [hout, hr]
    have hmem : ∀ v, OutItem.result v ∈ printResult o.σ o.time res ↔ v = res := by
      intro v
      constructor
      · exact mem_printResult
      · rintro rfl
        simp [printResult, isPrintCombinedResult, hpv]
    refine ⟨fun v => ?_, by simp, Or.inr ⟨res, rfl⟩, fun _ => ?_, ?_⟩
    · simp only [hmem, true_and, Option.some.injEq, ApiValue.int.injEq]
      exact eq_comm
    · simp only [printResult, isPrintCombinedResult, hpv, Bool.not_false, if_true]
      cases o.time <;> cases o.σ.print <;> simp
    · intro v w hv hw'
      rw [(hmem v).mp hv, (hmem w).mp hw']

end Pc.Cli
