/-
C19 — soundness of the fixed-point interval evaluation of the Gram-type series (PcModel/LiRFx.lean) with
respect to the exact-rational closed forms `Rseries` / `Eseries` (PcModel/LiR.lean):
for every rational `L` in `[aLo, aHi] / S` and every `N ≥ gramTerms aHi`,
`(rEnc aLo aHi).1 / S ≤ R_N(L) ≤ (rEnc aLo aHi).2 / S` (and the same for `eEnc` / `Eseries`).
Hence the enclosure contains the limit of the partial sums — the value of the Gram series — for the true `log x`
whenever that lies in `[aLo, aHi] / S`. The logarithm enclosure `logFx` itself is NOT proved here.
-/
import PcProofs.LiR
import PcModel.LiRFx

namespace Pc.LiR.Fx
open Pc.LiR

/-! ## generic series `Σ_{k=1}^{K} L^k / (k · k! · z k)` -/

def Gseries (z : ℕ → ℚ) : ℕ → ℚ → ℚ
  | 0, _ => 0
  | K + 1, L => Gseries z K L + L ^ (K + 1) / (((K + 1 : ℕ) : ℚ) * (fact (K + 1) : ℚ) * z (K + 1))

theorem Rseries_eq_G (K : ℕ) (L : ℚ) : Rseries K L = 1 + Gseries zetaFactor K L := by
  induction K with
  | zero => simp [Rseries, Gseries]
  | succ K ih => rw [Rseries, Gseries, ih]; ring

theorem Eseries_eq_G (K : ℕ) (L : ℚ) : Eseries K L = Gseries (fun _ => 1) K L := by
  induction K with
  | zero => simp [Eseries, Gseries]
  | succ K ih => rw [Eseries, Gseries, ih]; simp

theorem Gseries_step_le (z : ℕ → ℚ) (hz : ∀ k, 1 ≤ k → 1 ≤ z k) (K : ℕ) {L : ℚ} (h0 : 0 ≤ L) :
    Gseries z (K + 1) L - Gseries z K L ≤ dTerm L (K + 1) := by
  show Gseries z K L + _ - Gseries z K L ≤ _
  unfold dTerm
  have h1 : (0 : ℚ) < ((K + 1 : ℕ) : ℚ) := by exact_mod_cast Nat.succ_pos K
  have h2 : (0 : ℚ) < (fact (K + 1) : ℚ) := by exact_mod_cast fact_pos (K + 1)
  have hz' := hz (K + 1) (by omega)
  have hp : 0 ≤ L ^ (K + 1) := pow_nonneg h0 _
  have : L ^ (K + 1) / (((K + 1 : ℕ) : ℚ) * (fact (K + 1) : ℚ) * z (K + 1)) ≤
      L ^ (K + 1) / (((K + 1 : ℕ) : ℚ) * (fact (K + 1) : ℚ)) := by
    apply div_le_div_of_nonneg_left hp (by positivity)
    nlinarith [mul_pos h1 h2]
  linarith

theorem Gseries_step_nonneg (z : ℕ → ℚ) (hz : ∀ k, 1 ≤ k → 1 ≤ z k) (K : ℕ) {L : ℚ} (h0 : 0 ≤ L) :
    0 ≤ Gseries z (K + 1) L - Gseries z K L := by
  show 0 ≤ Gseries z K L + _ - Gseries z K L
  have h1 : (0 : ℚ) < ((K + 1 : ℕ) : ℚ) := by exact_mod_cast Nat.succ_pos K
  have h2 : (0 : ℚ) < (fact (K + 1) : ℚ) := by exact_mod_cast fact_pos (K + 1)
  have hz' : 0 < z (K + 1) := lt_of_lt_of_le one_pos (hz (K + 1) (by omega))
  have hp : 0 ≤ L ^ (K + 1) := pow_nonneg h0 _
  have := div_nonneg hp (mul_pos (mul_pos h1 h2) hz').le
  linarith

theorem Gseries_tail (z : ℕ → ℚ) (hz : ∀ k, 1 ≤ k → 1 ≤ z k) (K n : ℕ) {L : ℚ} (h0 : 0 ≤ L)
    (h : 2 * L ≤ (K : ℚ) + 2) :
    Gseries z (K + 1 + n) L - Gseries z K L ≤ 2 * dTerm L (K + 1) - dTerm L (K + 1 + n) := by
  induction n with
  | zero =>
    have := Gseries_step_le z hz K h0
    simp only [Nat.add_zero]; linarith
  | succ n ih =>
    have hstep := Gseries_step_le z hz (K + 1 + n) h0
    have hh := dTerm_halves h0 (K + 1 + n) (by omega)
      (by push_cast; have : (0 : ℚ) ≤ (n : ℚ) := Nat.cast_nonneg n; linarith)
    have e : K + 1 + (n + 1) = K + 1 + n + 1 := by omega
    rw [e]; linarith

theorem Gseries_mono_index (z : ℕ → ℚ) (hz : ∀ k, 1 ≤ k → 1 ≤ z k) (K n : ℕ) {L : ℚ} (h0 : 0 ≤ L) :
    Gseries z K L ≤ Gseries z (K + n) L := by
  induction n with
  | zero => exact le_refl _
  | succ n ih => have := Gseries_step_nonneg z hz (K + n) h0; rw [← Nat.add_assoc]; linarith

/-- all partial sums from `K` on lie in `[G_K, G_K + 2 d_{K+1}]` -/
theorem Gseries_enclosed (z : ℕ → ℚ) (hz : ∀ k, 1 ≤ k → 1 ≤ z k) (K N : ℕ) (hN : K ≤ N) {L : ℚ} (h0 : 0 ≤ L)
    (h : 2 * L ≤ (K : ℚ) + 2) :
    Gseries z K L ≤ Gseries z N L ∧ Gseries z N L ≤ Gseries z K L + 2 * dTerm L (K + 1) := by
  obtain ⟨n, rfl⟩ : ∃ n, N = K + n := ⟨N - K, by omega⟩
  refine ⟨Gseries_mono_index z hz K n h0, ?_⟩
  cases n with
  | zero => have := dTerm_nonneg h0 (K + 1); simp only [Nat.add_zero]; linarith
  | succ n =>
    have := Gseries_tail z hz K n h0 h
    have hd := dTerm_nonneg h0 (K + 1 + n)
    have e : K + (n + 1) = K + 1 + n := by omega
    rw [e]; linarith

/-! ## floor / ceiling division -/

theorem le_cdiv_mul (a b : ℕ) (hb : 0 < b) : a ≤ cdiv a b * b := by
  unfold cdiv
  have h1 := Nat.div_add_mod (a + b - 1) b
  have h2 := Nat.mod_lt (a + b - 1) hb
  have h3 : b * ((a + b - 1) / b) = (a + b - 1) / b * b := Nat.mul_comm _ _
  omega

theorem cast_le_cdiv (a b : ℕ) (hb : 0 < b) : (a : ℚ) / (b : ℚ) ≤ ((cdiv a b : ℕ) : ℚ) := by
  have hbq : (0 : ℚ) < (b : ℚ) := by exact_mod_cast hb
  rw [div_le_iff₀ hbq]
  exact_mod_cast le_cdiv_mul a b hb

/-- `⌊t d / n⌋ / s ≤ p · d / n` when `t / s ≤ p` -/
theorem floor_term (s t d n : ℕ) (p : ℚ) (hs : 0 < s) (hn : 0 < n) (h : (t : ℚ) / (s : ℚ) ≤ p) :
    ((t * d / n : ℕ) : ℚ) / (s : ℚ) ≤ p * (d : ℚ) / (n : ℚ) := by
  have hsq : (0 : ℚ) < (s : ℚ) := by exact_mod_cast hs
  have hnq : (0 : ℚ) < (n : ℚ) := by exact_mod_cast hn
  have hd : (0 : ℚ) ≤ (d : ℚ) := Nat.cast_nonneg d
  have e1 : ((t * d / n : ℕ) : ℚ) ≤ ((t * d : ℕ) : ℚ) / (n : ℚ) := Nat.cast_div_le
  rw [Nat.cast_mul] at e1
  have e2 : (t : ℚ) * (d : ℚ) / (n : ℚ) / (s : ℚ) = (t : ℚ) / (s : ℚ) * (d : ℚ) / (n : ℚ) := by
    field_simp
  calc ((t * d / n : ℕ) : ℚ) / (s : ℚ) ≤ (t : ℚ) * (d : ℚ) / (n : ℚ) / (s : ℚ) :=
        div_le_div_of_nonneg_right e1 hsq.le
    _ = (t : ℚ) / (s : ℚ) * (d : ℚ) / (n : ℚ) := e2
    _ ≤ p * (d : ℚ) / (n : ℚ) :=
        div_le_div_of_nonneg_right (mul_le_mul_of_nonneg_right h hd) hnq.le

/-- `p · d / n ≤ ⌈t d / n⌉ / s` when `p ≤ t / s` -/
theorem ceil_term (s t d n : ℕ) (p : ℚ) (hs : 0 < s) (hn : 0 < n) (h : p ≤ (t : ℚ) / (s : ℚ)) :
    p * (d : ℚ) / (n : ℚ) ≤ ((cdiv (t * d) n : ℕ) : ℚ) / (s : ℚ) := by
  have hsq : (0 : ℚ) < (s : ℚ) := by exact_mod_cast hs
  have hnq : (0 : ℚ) < (n : ℚ) := by exact_mod_cast hn
  have hd : (0 : ℚ) ≤ (d : ℚ) := Nat.cast_nonneg d
  have e1 := cast_le_cdiv (t * d) n hn
  rw [Nat.cast_mul] at e1
  have e2 : (t : ℚ) * (d : ℚ) / (n : ℚ) / (s : ℚ) = (t : ℚ) / (s : ℚ) * (d : ℚ) / (n : ℚ) := by
    field_simp
  calc p * (d : ℚ) / (n : ℚ) ≤ (t : ℚ) / (s : ℚ) * (d : ℚ) / (n : ℚ) :=
        div_le_div_of_nonneg_right (mul_le_mul_of_nonneg_right h hd) hnq.le
    _ = (t : ℚ) * (d : ℚ) / (n : ℚ) / (s : ℚ) := e2.symm
    _ ≤ ((cdiv (t * d) n : ℕ) : ℚ) / (s : ℚ) := div_le_div_of_nonneg_right e1 hsq.le

/-! ## the accumulator invariant -/

theorem powTerm_succ (L : ℚ) (K : ℕ) : powTerm L (K + 1) = powTerm L K * L / ((K + 1 : ℕ) : ℚ) := by
  have hf : (fact K : ℚ) ≠ 0 := by exact_mod_cast (fact_pos K).ne'
  have hk : ((K + 1 : ℕ) : ℚ) ≠ 0 := by exact_mod_cast Nat.succ_ne_zero K
  unfold powTerm
  rw [fact_succ, pow_succ, Nat.cast_mul]
  field_simp

theorem powTerm_nonneg {L : ℚ} (h0 : 0 ≤ L) (K : ℕ) : 0 ≤ powTerm L K := by
  have hf : (0 : ℚ) < (fact K : ℚ) := by exact_mod_cast fact_pos K
  unfold powTerm; positivity

theorem gramFx_sound (s : ℕ) (hs : 0 < s) (zn zd : ℕ → ℕ) (z : ℕ → ℚ)
    (hz : ∀ k, 1 ≤ k → 0 < zn k ∧ 0 < zd k ∧ z k = (zn k : ℚ) / (zd k : ℚ))
    (aLo aHi : ℕ) (L : ℚ) (hlo : (aLo : ℚ) / (s : ℚ) ≤ L) (hhi : L ≤ (aHi : ℚ) / (s : ℚ)) (K : ℕ) :
    ((gramFx s zn zd aLo aHi K).tLo : ℚ) / (s : ℚ) ≤ powTerm L K ∧
    powTerm L K ≤ ((gramFx s zn zd aLo aHi K).tHi : ℚ) / (s : ℚ) ∧
    ((gramFx s zn zd aLo aHi K).sLo : ℚ) / (s : ℚ) ≤ Gseries z K L ∧
    Gseries z K L ≤ ((gramFx s zn zd aLo aHi K).sHi : ℚ) / (s : ℚ) := by
  have hsq : (0 : ℚ) < (s : ℚ) := by exact_mod_cast hs
  have hL0 : 0 ≤ L := le_trans (by positivity) hlo
  induction K with
  | zero =>
    have e : powTerm L 0 = 1 := by simp [powTerm, fact]
    simp only [gramFx, Gseries, e, Nat.cast_zero, zero_div]
    rw [div_self hsq.ne']
    exact ⟨le_refl _, le_refl _, le_refl _, le_refl _⟩
  | succ K ih =>
    obtain ⟨h1, h2, h3, h4⟩ := ih
    obtain ⟨hzn, hzd, hzk⟩ := hz (K + 1) (by omega)
    have hk : (0 : ℚ) < ((K + 1 : ℕ) : ℚ) := by exact_mod_cast Nat.succ_pos K
    have hf1 : (0 : ℚ) < (fact (K + 1) : ℚ) := by exact_mod_cast fact_pos (K + 1)
    have hznq : (0 : ℚ) < (zn (K + 1) : ℚ) := by exact_mod_cast hzn
    have hzdq : (0 : ℚ) < (zd (K + 1) : ℚ) := by exact_mod_cast hzd
    have hp0 := powTerm_nonneg hL0 K
    have hsk : 0 < s * (K + 1) := Nat.mul_pos hs (Nat.succ_pos K)
    have hkz : 0 < (K + 1) * zn (K + 1) := Nat.mul_pos (Nat.succ_pos K) hzn
    set a := gramFx s zn zd aLo aHi K with ha
    -- new power terms
    have htLo : ((a.tLo * aLo / (s * (K + 1)) : ℕ) : ℚ) / (s : ℚ) ≤ powTerm L (K + 1) := by
      have e := floor_term s a.tLo aLo (s * (K + 1)) (powTerm L K) hs hsk h1
      have e' : powTerm L K * (aLo : ℚ) / ((s * (K + 1) : ℕ) : ℚ) =
          powTerm L K * ((aLo : ℚ) / (s : ℚ)) / ((K + 1 : ℕ) : ℚ) := by
        rw [Nat.cast_mul]; field_simp
      rw [e'] at e
      rw [powTerm_succ]
      exact le_trans e (div_le_div_of_nonneg_right (mul_le_mul_of_nonneg_left hlo hp0) hk.le)
    have htHi : powTerm L (K + 1) ≤ ((cdiv (a.tHi * aHi) (s * (K + 1)) : ℕ) : ℚ) / (s : ℚ) := by
      have e := ceil_term s a.tHi aHi (s * (K + 1)) (powTerm L K) hs hsk h2
      have e' : powTerm L K * (aHi : ℚ) / ((s * (K + 1) : ℕ) : ℚ) =
          powTerm L K * ((aHi : ℚ) / (s : ℚ)) / ((K + 1 : ℕ) : ℚ) := by
        rw [Nat.cast_mul]; field_simp
      rw [e'] at e
      rw [powTerm_succ]
      exact le_trans (div_le_div_of_nonneg_right (mul_le_mul_of_nonneg_left hhi hp0) hk.le) e
    -- the series term: L^(K+1) / ((K+1) (K+1)! z) = powTerm (K+1) · zd / ((K+1) zn)
    have hterm : L ^ (K + 1) / (((K + 1 : ℕ) : ℚ) * (fact (K + 1) : ℚ) * z (K + 1)) =
        powTerm L (K + 1) * (zd (K + 1) : ℚ) / (((K + 1) * zn (K + 1) : ℕ) : ℚ) := by
      rw [hzk, Nat.cast_mul]; unfold powTerm; field_simp
    refine ⟨htLo, htHi, ?_, ?_⟩
    · show ((a.sLo + (a.tLo * aLo / (s * (K + 1))) * zd (K + 1) / ((K + 1) * zn (K + 1)) : ℕ) : ℚ) / (s : ℚ) ≤
        Gseries z K L + _
      rw [hterm, Nat.cast_add, add_div]
      have e := floor_term s (a.tLo * aLo / (s * (K + 1))) (zd (K + 1)) ((K + 1) * zn (K + 1))
        (powTerm L (K + 1)) hs hkz htLo
      linarith
    · show Gseries z K L + _ ≤
        ((a.sHi + cdiv (cdiv (a.tHi * aHi) (s * (K + 1)) * zd (K + 1)) ((K + 1) * zn (K + 1)) : ℕ) : ℚ) / (s : ℚ)
      rw [hterm, Nat.cast_add, add_div]
      have e := ceil_term s (cdiv (a.tHi * aHi) (s * (K + 1))) (zd (K + 1)) ((K + 1) * zn (K + 1))
        (powTerm L (K + 1)) hs hkz htHi
      linarith

/-! ## the enclosures used by the driver -/

theorem two_L_le_terms (s : ℕ) (hs : 0 < s) (aHi : ℕ) (L : ℚ) (hhi : L ≤ (aHi : ℚ) / (s : ℚ)) :
    2 * L ≤ ((gramTerms s aHi : ℕ) : ℚ) + 2 := by
  have h1 := cast_le_cdiv aHi s hs
  have h2 : ((gramTerms s aHi : ℕ) : ℚ) = 4 * ((cdiv aHi s : ℕ) : ℚ) + 60 := by
    unfold gramTerms; rw [Nat.cast_add, Nat.cast_mul]; norm_num
  have : (0 : ℚ) ≤ ((cdiv aHi s : ℕ) : ℚ) := Nat.cast_nonneg _
  rw [h2]; linarith

theorem gramEnc_sound (s : ℕ) (hs : 0 < s) (zn zd : ℕ → ℕ) (z : ℕ → ℚ)
    (hz : ∀ k, 1 ≤ k → 0 < zn k ∧ 0 < zd k ∧ z k = (zn k : ℚ) / (zd k : ℚ)) (hz1 : ∀ k, 1 ≤ k → 1 ≤ z k)
    (aLo aHi : ℕ) (L : ℚ) (hlo : (aLo : ℚ) / (s : ℚ) ≤ L) (hhi : L ≤ (aHi : ℚ) / (s : ℚ))
    (N : ℕ) (hN : gramTerms s aHi ≤ N) :
    ((gramEnc s zn zd aLo aHi).1 : ℚ) / (s : ℚ) ≤ Gseries z N L ∧
    Gseries z N L ≤ ((gramEnc s zn zd aLo aHi).2 : ℚ) / (s : ℚ) := by
  have hsq : (0 : ℚ) < (s : ℚ) := by exact_mod_cast hs
  have hL0 : 0 ≤ L := le_trans (by positivity) hlo
  set K := gramTerms s aHi with hK
  obtain ⟨_, _, h3, h4⟩ := gramFx_sound s hs zn zd z hz aLo aHi L hlo hhi K
  obtain ⟨_, h2', _, _⟩ := gramFx_sound s hs zn zd z hz aLo aHi L hlo hhi (K + 1)
  obtain ⟨e1, e2⟩ := Gseries_enclosed z hz1 K N hN hL0 (two_L_le_terms s hs aHi L hhi)
  have hd : dTerm L (K + 1) ≤ powTerm L (K + 1) := by
    unfold dTerm powTerm
    have hk : (1 : ℚ) ≤ ((K + 1 : ℕ) : ℚ) := by exact_mod_cast Nat.succ_pos K
    have hf1 : (0 : ℚ) < (fact (K + 1) : ℚ) := by exact_mod_cast fact_pos (K + 1)
    have hp : 0 ≤ L ^ (K + 1) := pow_nonneg hL0 _
    apply div_le_div_of_nonneg_left hp hf1
    nlinarith
  refine ⟨le_trans h3 e1, ?_⟩
  show _ ≤ (((gramFx s zn zd aLo aHi K).sHi + gramTail s (gramFx s zn zd aLo aHi K) aHi K : ℕ) : ℚ) / (s : ℚ)
  have ht : ((gramTail s (gramFx s zn zd aLo aHi K) aHi K : ℕ) : ℚ) / (s : ℚ) =
      2 * (((gramFx s zn zd aLo aHi (K + 1)).tHi : ℚ) / (s : ℚ)) := by
    show ((2 * cdiv ((gramFx s zn zd aLo aHi K).tHi * aHi) (s * (K + 1)) : ℕ) : ℚ) / (s : ℚ) =
      2 * (((cdiv ((gramFx s zn zd aLo aHi K).tHi * aHi) (s * (K + 1)) : ℕ) : ℚ) / (s : ℚ))
    rw [Nat.cast_mul]; norm_num; ring
  rw [Nat.cast_add, add_div, ht]
  linarith

theorem zeta_frac (k : ℕ) (hk : 1 ≤ k) :
    0 < zetaN k ∧ 0 < zetaD k ∧ zetaFactor k = (zetaN k : ℚ) / (zetaD k : ℚ) := by
  unfold zetaN zetaD zetaFactor
  by_cases h : k + 1 < Gen.zetaNum.size
  · rw [if_pos h, if_pos h, if_pos h]
    rw [zetaNum_size] at h
    refine ⟨lt_trans zetaDen_pos (zetaNum_gt_den (k + 1) (by omega) h), zetaDen_pos, ?_⟩
    unfold zetaLit; rfl
  · rw [if_neg h, if_neg h, if_neg h]
    exact ⟨Nat.one_pos, Nat.one_pos, by norm_num⟩

/-- The driver's enclosure of R (any scale `s > 0`; the driver uses `s = S = 2^192`): every partial sum
    `R_N(L)`, `N ≥ gramTerms s aHi`, of the Gram series at any rational `L ∈ [aLo, aHi] / s` lies in
    `[(rEncS s aLo aHi).1, (rEncS s aLo aHi).2] / s`. -/
theorem rEncS_sound (s : ℕ) (hs : 0 < s) (aLo aHi : ℕ) (L : ℚ) (hlo : (aLo : ℚ) / (s : ℚ) ≤ L)
    (hhi : L ≤ (aHi : ℚ) / (s : ℚ)) (N : ℕ) (hN : gramTerms s aHi ≤ N) :
    ((rEncS s aLo aHi).1 : ℚ) / (s : ℚ) ≤ Rseries N L ∧ Rseries N L ≤ ((rEncS s aLo aHi).2 : ℚ) / (s : ℚ) := by
  have hsq : (0 : ℚ) < (s : ℚ) := by exact_mod_cast hs
  obtain ⟨h1, h2⟩ := gramEnc_sound s hs zetaN zetaD zetaFactor zeta_frac one_le_zetaFactor aLo aHi L hlo hhi N hN
  rw [Rseries_eq_G]
  show ((s + (gramEnc s zetaN zetaD aLo aHi).1 : ℕ) : ℚ) / (s : ℚ) ≤ _ ∧
    _ ≤ ((s + (gramEnc s zetaN zetaD aLo aHi).2 : ℕ) : ℚ) / (s : ℚ)
  rw [Nat.cast_add, Nat.cast_add, add_div, add_div, div_self hsq.ne']
  constructor <;> linarith

/-- the same for the series `Σ L^k / (k · k!)` of li -/
theorem eEncS_sound (s : ℕ) (hs : 0 < s) (aLo aHi : ℕ) (L : ℚ) (hlo : (aLo : ℚ) / (s : ℚ) ≤ L)
    (hhi : L ≤ (aHi : ℚ) / (s : ℚ)) (N : ℕ) (hN : gramTerms s aHi ≤ N) :
    ((eEncS s aLo aHi).1 : ℚ) / (s : ℚ) ≤ Eseries N L ∧ Eseries N L ≤ ((eEncS s aLo aHi).2 : ℚ) / (s : ℚ) := by
  rw [Eseries_eq_G]
  exact gramEnc_sound s hs (fun _ => 1) (fun _ => 1) (fun _ => 1)
    (fun _ _ => ⟨Nat.one_pos, Nat.one_pos, by simp⟩) (fun _ _ => le_refl 1) aLo aHi L hlo hhi N hN

end Pc.LiR.Fx
