/-
WP close, item 2b: the adapter from the stateful iterator model (PcModel/Iter.lean) to the position-indexed abstraction
`P2L.Iter` that the P2 / B loop models use (PcModel/P2Loop.lean), and the k-th-call theorems that make the abstraction sound
for ONE running object.

* `realIter e hp hn`          : `prev n` = what the first `prev_prime()` of a fresh `iterator(n, hp n)` returns,
                                `next n` = the buffer the first `generate_next_primes()` of a fresh `iterator(n, hn n)` leaves.
* `realIter_specTo`           : `IterSpecTo (realIter …) N` for every `N` with a prime in `[N, 2^64-1]` (under `GenSpec e`).
* `BwdAt s p`, `prevPrime_stepAt`, `prevCalls_init` : the k-th `prev_prime()` of ONE object started at `n` returns exactly what the
                                P2 model obtains by k queries `it.prev (prime - 1)` (in-buffer step + refill at the buffer front).
* `BufChain`, `nextCalls_spec`: the k-th `generate_next_primes()` of ONE object continues the (k-1)-th buffer and satisfies the
                                three `next_*` fields of the contract at position `last_{k-1} + 1`.
-/
import PcProofs.CloseIter
import PcProofs.P2Loop

namespace Pc.It
open Nat

/-! ## the adapter -/

/-- `primesieve::iterator it(n, hint); it.generate_next_primes();` — the buffer `primes_[0 .. size_)` (empty if it throws) -/
def firstBuf (e : Env) (n hint : ℕ) : List ℕ :=
  match genNext e bigFuel (init n hint) with
  | .ok s => s.buf
  | .error _ => []

/-- `primesieve::iterator it(n, hint); it.prev_prime();` (0 if the model reports an error) -/
def firstPrev (e : Env) (n hint : ℕ) : ℕ :=
  match prevPrime e (init n hint) with
  | .ok r => r.1
  | .error _ => 0

/-- the P2 / B abstraction of `primesieve::iterator` instantiated by the iterator model: `hp n` / `hn n` are the stop hints
    the objects are constructed with (P2.cpp:49 `it1(stop, start)`, P2.cpp:65 `it2(xp + 1, high)`); any functions -/
def realIter (e : Env) (hp hn : ℕ → ℕ) : P2L.Iter where
  prev n := firstPrev e n (hp n)
  next n := firstBuf e n (hn n)

theorem realIter_prev (e : Env) (he : GenSpec e) (hp hn : ℕ → ℕ) (n : ℕ) (h : n ≤ umax) :
    (realIter e hp hn).prev n = Nat.findGreatest Nat.Prime n := by
  obtain ⟨s', hs'⟩ := prevPrime_init e he n (hp n) h
  show firstPrev e n (hp n) = _
  unfold firstPrev; rw [hs']

theorem realIter_next (e : Env) (he : GenSpec e) (hp hn : ℕ → ℕ) (hhn : ∀ n, hn n ≤ umax) (n : ℕ) (h : n ≤ umax)
    (hprime : ∃ p, p.Prime ∧ n ≤ p ∧ p ≤ umax) :
    (realIter e hp hn).next n ≠ [] ∧ ∀ L, ((realIter e hp hn).next n).getLast? = some L → PrimesIn ((realIter e hp hn).next n) n L := by
  obtain ⟨s', h1, h2⟩ := (genNext_spec e he bigFuel (init n (hn n)) n (fwdReady_init n (hn n) h) h (hhn n) h
    (fwdFuel_le_big _ n)).1 hprime
  have : (realIter e hp hn).next n = s'.buf := by
    show firstBuf e n (hn n) = _
    unfold firstBuf; rw [h1]
  rw [this]
  exact ⟨h2.ne, fun L hL => (h2.covers L hL).1⟩

/-- **`IterSpecTo` for the real iterator**: for every `N` such that a prime exists in `[N, 2^64-1]` (the forward iterator throws
    beyond the last 64-bit prime, so `IterSpec` for ALL positions is false of the real object) -/
theorem realIter_specTo (e : Env) (he : GenSpec e) (hp hn : ℕ → ℕ) (hhn : ∀ n, hn n ≤ umax) (N : ℕ) (hN : N ≤ umax)
    (hprime : ∃ p, p.Prime ∧ N ≤ p ∧ p ≤ umax) : P2L.IterSpecTo (realIter e hp hn) N := by
  have hNu : N ≤ umax := hN
  have hex : ∀ n, n ≤ N → ∃ p, p.Prime ∧ n ≤ p ∧ p ≤ umax := by
    intro n hn'
    obtain ⟨p, h1, h2, h3⟩ := hprime
    exact ⟨p, h1, by omega, h3⟩
  refine ⟨fun n h => ?_, fun n h h0 => ?_, fun n h q hq hqn => ?_, fun n h => ?_, fun n h => ?_, fun n h L hL q => ?_⟩
  · rw [realIter_prev e he hp hn n (by omega)]; exact Nat.findGreatest_le n
  · rw [realIter_prev e he hp hn n (by omega)] at h0 ⊢
    exact Nat.findGreatest_of_ne_zero rfl h0
  · rw [realIter_prev e he hp hn n (by omega)]; exact Nat.le_findGreatest hqn hq
  · exact (realIter_next e he hp hn hhn n (by omega) (hex n h)).1
  · have hne := (realIter_next e he hp hn hhn n (by omega) (hex n h)).1
    have hL : ((realIter e hp hn).next n).getLast? = some (((realIter e hp hn).next n).getLast hne) :=
      List.getLast?_eq_some_getLast hne
    exact ((realIter_next e he hp hn hhn n (by omega) (hex n h)).2 _ hL).1
  · exact ((realIter_next e he hp hn hhn n (by omega) (hex n h)).2 L hL).2 q

/-- a prime above `2^63` below `2^64` exists (Bertrand): `N = 2^63` needs no primality certificate -/
theorem exists_prime_ge_two63 : ∃ p, p.Prime ∧ 2 ^ 63 ≤ p ∧ p ≤ umax := by
  obtain ⟨p, hp, h1, h2⟩ := Nat.exists_prime_lt_and_le_two_mul (2 ^ 63) (by norm_num)
  refine ⟨p, hp, by omega, ?_⟩
  have hne : p ≠ 2 ^ 64 := by
    intro h; rw [h] at hp
    exact Nat.not_prime_mul (a := 2) (b := 2 ^ 63) (by norm_num) (by norm_num) (by simpa using hp)
  unfold umax; omega

/-! ## the running backward object: k-th `prev_prime()` -/

/-- the running backward iterator has just returned `p = primes_[i_]` -/
structure BwdAt (s : St) (p : ℕ) : Prop where
  gen : s.mem.gen = none
  incl : s.mem.incl = false
  sorted : s.buf.Pairwise (· < ·)
  cur : s.buf[s.i]? = some p
  mem : ∀ q, q ∈ s.buf ↔ (q.Prime ∧ s.start ≤ q ∧ q ≤ s.mem.stop) ∨ (q = 0 ∧ s.start ≤ 2)
  start_le : s.start ≤ umax

theorem sorted_get_lt {l : List ℕ} (hs : l.Pairwise (· < ·)) {i j : ℕ} {a b : ℕ} (hi : l[i]? = some a) (hj : l[j]? = some b)
    (hij : i < j) : a < b := by
  obtain ⟨hi', rfl⟩ := List.getElem?_eq_some_iff.1 hi
  obtain ⟨hj', rfl⟩ := List.getElem?_eq_some_iff.1 hj
  exact List.pairwise_iff_getElem.1 hs i j hi' hj' hij

/-- in a strictly increasing list every member below `l[i]` sits at an index below `i` -/
theorem sorted_mem_lt {l : List ℕ} (hs : l.Pairwise (· < ·)) {i : ℕ} {a q : ℕ} (hi : l[i]? = some a) (hq : q ∈ l) (hqa : q < a) :
    ∃ j, j < i ∧ l[j]? = some q := by
  obtain ⟨j, hj, rfl⟩ := List.mem_iff_getElem.1 hq
  have hjq : l[j]? = some l[j] := List.getElem?_eq_getElem hj
  refine ⟨j, ?_, hjq⟩
  by_contra hc
  rcases Nat.lt_or_ge i j with h | h
  · have := sorted_get_lt hs hi hjq h; omega
  · have : i = j := by omega
    subst this
    rw [hjq] at hi
    have := Option.some.inj hi; omega

/-- what `generate_prev_primes()` leaves: the LAST buffer entry is the largest prime `≤ u`, for every `u` between the buffer and
    the top `t` the loop continued from -/
theorem bwdDone_last {s s' : St} {t : ℕ} (hd : BwdDone s s' t) (u : ℕ) (hLu : ∀ L ∈ s'.buf, L ≤ u)
    (hut : ∀ q, q.Prime → q ≤ u → q ≤ t) :
    s'.buf[s'.buf.length - 1]? = some (Nat.findGreatest Nat.Prime u) := by
  have hlen : 0 < s'.buf.length := List.length_pos_of_ne_nil hd.ne
  have hL : s'.buf.getLast? = some (s'.buf[s'.buf.length - 1]'(by omega)) := by
    rw [List.getLast?_eq_getElem?]; exact List.getElem?_eq_getElem (by omega)
  rw [List.getElem?_eq_getElem (by omega : s'.buf.length - 1 < s'.buf.length)]
  generalize s'.buf[s'.buf.length - 1]'(by omega) = L at hL ⊢
  have hmemL : L ∈ s'.buf := List.mem_of_getLast? hL
  have hmax : ∀ q ∈ s'.buf, q ≤ L := P2L.le_getLast_of_pairwise hd.sorted L hL
  congr 1
  symm
  rw [Nat.findGreatest_eq_iff]
  refine ⟨hLu L hmemL, fun h0 => ?_, fun n hn hnu hnp => ?_⟩
  · rcases (hd.mem L).1 hmemL with ⟨hp, _, _⟩ | ⟨h0', _⟩
    · exact hp
    · exact absurd h0' h0
  · have h3 := hd.above n hnp (hut n hnp hnu)
    by_cases hsn : s'.start ≤ n
    · have : n ∈ s'.buf := (hd.mem n).2 (Or.inl ⟨hnp, hsn, h3⟩)
      have := hmax n this; omega
    · rcases (hd.mem L).1 hmemL with ⟨_, h1', _⟩ | ⟨h0, h2'⟩
      · omega
      · have := hnp.two_le; omega

/-- **one more `prev_prime()` of a running backward iterator** (iterator.hpp:141-147): whether it is the in-buffer step
    `primes_[--i_]` or the refill `generate_prev_primes()` at the buffer front, it returns the largest prime below the prime `p`
    returned last (0 when there is none) — i.e. exactly `it.prev (p - 1)` of the P2 abstraction — and the object is again in a
    state of this kind -/
theorem prevPrime_stepAt (e : Env) (he : GenSpec e) (s : St) (p : ℕ) (h : BwdAt s p) :
    ∃ s', prevPrime e s = .ok (Nat.findGreatest Nat.Prime (p - 1), s') ∧ BwdAt s' (Nat.findGreatest Nat.Prime (p - 1)) := by
  have hpmem : p ∈ s.buf := List.mem_of_getElem? h.cur
  by_cases hi : s.i = 0
  · -- refill at the buffer front
    obtain ⟨s', h1, hd⟩ := genPrev_none e he s h.gen h.start_le
    have htop : prevTop s = s.start - 1 := by
      unfold prevTop; rw [h.incl]; simp only [Bool.false_eq_true, if_false]; exact checkedSub_eq _ _
    rw [htop] at hd
    -- `p = primes_[0]` is the smallest entry
    have hmin : ∀ q ∈ s.buf, p ≤ q := by
      intro q hq
      by_contra hc
      obtain ⟨j, hj, _⟩ := sorted_mem_lt h.sorted h.cur hq (by omega)
      omega
    have hget := bwdDone_last hd (p - 1) (fun L hL => by
        rcases (hd.mem L).1 hL with ⟨hLp, _, hL2⟩ | ⟨h0, _⟩
        · have := hd.stop_le
          rcases (h.mem p).1 hpmem with ⟨_, hsp, _⟩ | ⟨hp0, hs2⟩
          · have := hLp.two_le; omega
          · have := hLp.two_le; omega
        · omega)
      (fun q hq hqp => by
        by_contra hc
        have hqs : s.start ≤ q := by omega
        rcases (h.mem p).1 hpmem with ⟨_, _, hps⟩ | ⟨hp0, _⟩
        · have hqm : q ∈ s.buf := (h.mem q).2 (Or.inl ⟨hq, hqs, by omega⟩)
          have := hmin q hqm
          have := hq.two_le; omega
        · have := hq.two_le; omega)
    have hlen : 0 < s'.buf.length := List.length_pos_of_ne_nil hd.ne
    refine ⟨{ s' with i := s'.i - 1 }, ?_, ⟨hd.gen, hd.incl, hd.sorted, ?_, hd.mem, ?_⟩⟩
    · unfold prevPrime
      simp only [hi, if_true, h1]
      have hi' : s'.i ≠ 0 := by rw [hd.iend]; omega
      rw [if_neg hi', hd.iend, hget]
    · show s'.buf[s'.i - 1]? = _
      rw [hd.iend]; exact hget
    · show s'.start ≤ umax
      have := hd.start_le; have := hd.stop_le; have := h.start_le; omega
  · -- in-buffer step
    have hlt : s.i - 1 < s.buf.length := by
      have := (List.getElem?_eq_some_iff.1 h.cur).1; omega
    have hget : s.buf[s.i - 1]? = some (s.buf[s.i - 1]'hlt) := List.getElem?_eq_getElem hlt
    generalize s.buf[s.i - 1]'hlt = p' at hget
    have hp'mem : p' ∈ s.buf := List.mem_of_getElem? hget
    have hlt' : p' < p := sorted_get_lt h.sorted hget h.cur (by omega)
    have hval : Nat.findGreatest Nat.Prime (p - 1) = p' := by
      rw [Nat.findGreatest_eq_iff]
      refine ⟨by omega, fun h0 => ?_, fun n hn hnu hnp => ?_⟩
      · rcases (h.mem p').1 hp'mem with ⟨hp, _, _⟩ | ⟨h0', _⟩
        · exact hp
        · exact absurd h0' h0
      · have hp0 : p ≠ 0 := by omega
        rcases (h.mem p).1 hpmem with ⟨_, _, hps⟩ | ⟨hp0', _⟩
        · by_cases hsn : s.start ≤ n
          · have hnm : n ∈ s.buf := (h.mem n).2 (Or.inl ⟨hnp, hsn, by omega⟩)
            obtain ⟨j, hj, hjn⟩ := sorted_mem_lt h.sorted h.cur hnm (by omega)
            rcases Nat.lt_or_ge j (s.i - 1) with hjl | hjl
            · have := sorted_get_lt h.sorted hjn hget hjl; omega
            · have : j = s.i - 1 := by omega
              subst this
              rw [hget] at hjn
              have := Option.some.inj hjn; omega
          · rcases (h.mem p').1 hp'mem with ⟨_, h1', _⟩ | ⟨h0, h2'⟩
            · omega
            · have := hnp.two_le; omega
        · exact absurd hp0' hp0
    rw [hval]
    refine ⟨{ s with i := s.i - 1 }, ?_, ⟨h.gen, h.incl, h.sorted, hget, h.mem, h.start_le⟩⟩
    unfold prevPrime
    simp only [hi, if_false, hget]

/-- the first `prev_prime()` of a fresh / repositioned iterator, with the state invariant for the following calls -/
theorem prevPrime_init_at (e : Env) (he : GenSpec e) (n hint : ℕ) (hn : n ≤ umax) :
    ∃ s', prevPrime e (init n hint) = .ok (Nat.findGreatest Nat.Prime n, s') ∧ BwdAt s' (Nat.findGreatest Nat.Prime n) := by
  obtain ⟨s', h1, hd⟩ := genPrev_none e he (init n hint) rfl hn
  have htop : prevTop (init n hint) = n := rfl
  rw [htop] at hd
  have hget := bwdDone_last hd n (fun L hL => by
      rcases (hd.mem L).1 hL with ⟨_, _, hL2⟩ | ⟨h0, _⟩
      · have := hd.stop_le; omega
      · omega) (fun q _ h => h)
  have hlen : 0 < s'.buf.length := List.length_pos_of_ne_nil hd.ne
  refine ⟨{ s' with i := s'.i - 1 }, ?_, ⟨hd.gen, hd.incl, hd.sorted, ?_, hd.mem, ?_⟩⟩
  · unfold prevPrime
    have hi0 : (init n hint).i = 0 := rfl
    simp only [hi0, if_true, h1]
    have hi' : s'.i ≠ 0 := by rw [hd.iend]; omega
    rw [if_neg hi', hd.iend, hget]
  · show s'.buf[s'.i - 1]? = _
    rw [hd.iend]; exact hget
  · show s'.start ≤ umax
    have := hd.start_le; have := hd.stop_le; omega

/-- `k` successive `prev_prime()` calls of ONE object: the returned values and the final state -/
def prevCalls (e : Env) : ℕ → St → Except Err (List ℕ × St)
  | 0, s => .ok ([], s)
  | k + 1, s =>
    match prevPrime e s with
    | .error err => .error err
    | .ok (p, s') =>
      match prevCalls e k s' with
      | .error err => .error err
      | .ok (l, s'') => .ok (p :: l, s'')

/-- what the P2 / B loop model obtains from its abstract iterator by `k` queries: `prime = it.prev n`, then
    `prime = it.prev (prime - 1)` … (PcModel/P2Loop.lean `p2Thread`, `outer`) -/
def iterPrevs (it : P2L.Iter) : ℕ → ℕ → List ℕ
  | 0, _ => []
  | k + 1, n => it.prev n :: iterPrevs it k (it.prev n - 1)

theorem prevCalls_running (e : Env) (he : GenSpec e) (hp hn : ℕ → ℕ) :
    ∀ k (s : St) (p : ℕ), BwdAt s p → p ≤ umax + 1 →
      ∃ s', prevCalls e k s = .ok (iterPrevs (realIter e hp hn) k (p - 1), s') := by
  intro k
  induction k with
  | zero => intro s p _ _; exact ⟨s, rfl⟩
  | succ k ih =>
    intro s p h hpu
    obtain ⟨s1, h1, h2⟩ := prevPrime_stepAt e he s p h
    have hle := Nat.findGreatest_le (P := Nat.Prime) (p - 1)
    obtain ⟨s2, h3⟩ := ih s1 _ h2 (by omega)
    refine ⟨s2, ?_⟩
    rw [prevCalls, h1]
    simp only [h3]
    rw [iterPrevs, realIter_prev e he hp hn (p - 1) (by omega)]

/-- **k-th call of `prev_prime()`**: the `k` values ONE object `iterator it1(n, hint)` returns are exactly the `k` values the P2 / B
    loop model reads from the position-indexed abstraction (`it.prev n`, `it.prev (prime - 1)`, …), for every `k` — by induction
    over the number of calls with the invariant `BwdAt` (in-buffer step `primes_[--i_]` + refill at the buffer front) -/
theorem prevCalls_init (e : Env) (he : GenSpec e) (hp hn : ℕ → ℕ) (k n hint : ℕ) (hnu : n ≤ umax) :
    ∃ s', prevCalls e k (init n hint) = .ok (iterPrevs (realIter e hp hn) k n, s') := by
  cases k with
  | zero => exact ⟨_, rfl⟩
  | succ k =>
    obtain ⟨s1, h1, h2⟩ := prevPrime_init_at e he n hint hnu
    have hle := Nat.findGreatest_le (P := Nat.Prime) n
    obtain ⟨s2, h3⟩ := prevCalls_running e he hp hn k s1 _ h2 (by omega)
    refine ⟨s2, ?_⟩
    rw [prevCalls, h1]
    simp only [h3]
    rw [iterPrevs, realIter_prev e he hp hn n hnu]

/-! ## the running forward object: k-th `generate_next_primes()` -/

/-- successive buffers that continue each other from position `n`: each is non-empty, strictly increasing and holds exactly the
    primes from the current position up to its last entry; the next one starts one above that entry. This is the trace of
    `next`-calls the P2 loop model makes (`it.next (xp + 1)`, then `it.next (last + 1)` …) under `IterSpec.next_*`. -/
inductive BufChain : ℕ → List (List ℕ) → Prop
  | nil (n : ℕ) : BufChain n []
  | cons (n : ℕ) (b : List ℕ) (L : ℕ) (rest : List (List ℕ)) :
      b.getLast? = some L → PrimesIn b n L → BufChain (L + 1) rest → BufChain n (b :: rest)

/-- the position after the chain -/
def chainEnd : ℕ → List (List ℕ) → ℕ
  | n, [] => n
  | _, b :: rest => chainEnd (b.getLastD 0 + 1) rest

/-- `k` successive `generate_next_primes()` calls of ONE object: the buffers and the final state -/
def nextCalls (e : Env) : ℕ → St → Except Err (List (List ℕ) × St)
  | 0, s => .ok ([], s)
  | k + 1, s =>
    match genNext e bigFuel s with
    | .error err => .error err
    | .ok s' =>
      match nextCalls e k s' with
      | .error err => .error err
      | .ok (l, s'') => .ok (s'.buf :: l, s'')

/-- **k-th call of `generate_next_primes()`**: `k` successive calls on ONE object that is ready at `n` either all succeed — then the
    `k` buffers form a `BufChain` from `n` (the k-th buffer satisfies the contract at `last_{k-1} + 1`: nothing skipped or repeated
    across calls) and the object is ready at the end of the chain — or a call throws `primesieve_error` after `j < k` good buffers,
    exactly because no prime `≥` the end of the chain exists below 2^64. Never `hang`, never `oob`. -/
theorem nextCalls_spec (e : Env) (he : GenSpec e) :
    ∀ k (s : St) (n : ℕ), FwdReady s n → n ≤ umax → s.hint ≤ umax → s.start ≤ umax →
      (∃ bufs s', nextCalls e k s = .ok (bufs, s') ∧ bufs.length = k ∧ BufChain n bufs ∧ FwdReady s' (chainEnd n bufs) ∧
          chainEnd n bufs ≤ umax) ∨
      (nextCalls e k s = .error .ps ∧ ∃ bufs, bufs.length < k ∧ BufChain n bufs ∧
          ∀ p, p.Prime → chainEnd n bufs ≤ p → ¬ p ≤ umax) := by
  intro k
  induction k with
  | zero => intro s n hr hn _ _; exact Or.inl ⟨[], s, rfl, rfl, BufChain.nil n, hr, hn⟩
  | succ k ih =>
    intro s n hr hn hh hst
    have hspec := genNext_spec e he bigFuel s n hr hn hh hst (fwdFuel_le_big s n)
    by_cases hp : ∃ p, p.Prime ∧ n ≤ p ∧ p ≤ umax
    · obtain ⟨s1, h1, hd⟩ := hspec.1 hp
      obtain ⟨L, hL⟩ : ∃ L, s1.buf.getLast? = some L := ⟨s1.buf.getLast hd.ne, List.getLast?_eq_some_getLast hd.ne⟩
      obtain ⟨hP, hle, hg⟩ := hd.covers L hL
      have hLp := ((hP.2 L).1 (List.mem_of_getLast? hL)).1
      have hLu : L + 1 ≤ umax := by
        have := hd.stop_le
        have : L ≠ umax := fun h => umax_not_prime (h ▸ hLp)
        omega
      have hr1 : FwdReady s1 (L + 1) :=
        ⟨hd.stop_le, Or.inr ⟨_, hg, rfl, rfl, hd.incl, by show L + 1 ≤ s1.mem.stop + 1; omega⟩⟩
      have hD : s1.buf.getLastD 0 = L := by
        rw [List.getLastD_eq_getLast?, hL]; rfl
      rcases ih s1 (L + 1) hr1 hLu (by rw [hd.hint]; exact hh) hd.start_le with
        ⟨bufs, s2, h2, hlen, hch, hr2, hend⟩ | ⟨h2, bufs, hlen, hch, hno⟩
      · refine Or.inl ⟨s1.buf :: bufs, s2, ?_, by simp [hlen], BufChain.cons n _ L bufs hL hP hch, ?_, ?_⟩
        · rw [nextCalls, h1]; simp only [h2]
        · show FwdReady s2 (chainEnd (s1.buf.getLastD 0 + 1) bufs); rw [hD]; exact hr2
        · show chainEnd (s1.buf.getLastD 0 + 1) bufs ≤ umax; rw [hD]; exact hend
      · refine Or.inr ⟨?_, s1.buf :: bufs, by simp; omega, BufChain.cons n _ L bufs hL hP hch, ?_⟩
        · rw [nextCalls, h1]; simp only [h2]
        · show ∀ p, p.Prime → chainEnd (s1.buf.getLastD 0 + 1) bufs ≤ p → ¬ p ≤ umax; rw [hD]; exact hno
    · have hno : ∀ p, p.Prime → n ≤ p → ¬ p ≤ umax := fun p h1 h2 h3 => hp ⟨p, h1, h2, h3⟩
      refine Or.inr ⟨?_, [], by simp, BufChain.nil n, hno⟩
      rw [nextCalls, hspec.2 hno]

/-- every link of a chain satisfies the three `next_*` fields of `IterSpec` at its own position: a chain is a legal sequence of
    answers of an abstract iterator meeting the contract -/
theorem BufChain.head_fields {n : ℕ} {b : List ℕ} {rest : List (List ℕ)} (h : BufChain n (b :: rest)) :
    b ≠ [] ∧ b.Pairwise (· < ·) ∧ (∀ L, b.getLast? = some L → ∀ q, q ∈ b ↔ q.Prime ∧ n ≤ q ∧ q ≤ L) ∧
      BufChain (b.getLastD 0 + 1) rest := by
  cases h with
  | cons _ _ L _ hL hP hrest =>
    refine ⟨fun h0 => by rw [h0] at hL; simp at hL, hP.1, fun L' hL' q => ?_, ?_⟩
    · have : L' = L := by rw [hL] at hL'; exact (Option.some.inj hL').symm
      rw [this]; exact hP.2 q
    · rw [List.getLastD_eq_getLast?, hL]; exact hrest

end Pc.It
