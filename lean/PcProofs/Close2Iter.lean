/-
WP close2, item 1 (helpers): the two non-iterator cores of PcProps/C18Par.lean instantiated by the REAL sieving-core model.

* `countCore l1raw kib s e`       : what `CountPrintPrimes` counts for `[max(s, 7), e]` — the `big` summand of `Pc.PsCore.countPrimes`
                                     (popcounts over all segments of `sieveRun`), verbatim.
* `countCoreTo l1raw kib B`       : `countCore` for `e < B`, the exact count beyond (`B = 2^64`: beyond the domain of the C++ function, whose
                                     `stop` is a `uint64_t`; the same total extension as `coreEnvTo`).
* `countCoreTo_coreCounts`        : `CoreCounts (countCoreTo …)` from WP core2's `count_contract`; float assumption `CountFloatOk`
                                     (`FloatOk` for the runs `[max(a, 7), b]`), none for `B = 2^50`.
* `sieveCount_countCore_eq`       : the iterator-level model of `PrimeSieve::sieve()` (`It.sieveCount`, small-primes table + core) over
                                     `countCore` returns what WP core's model `PsCore.countPrimes` returns.
* `pgPrimes_congr` / `pgPrimes_coreTo` : `It.pgPrimes` asks its core only for `[max(721, start), stop]`; over `generatePrimes` it lists the primes.
-/
import PcProofs.CloseIter
import PcProofs.IterPar2
import PcProofs.IterTable

namespace Pc.It
open Nat
open Pc.PsCore (generatePrimes preTabsDecoded FloatOk countPrimes sieveRun)

/-- the counting core: `CountPrintPrimes` over `[max(s, 7), e]`, the popcounts of all segments added up
    (the `big` summand of `Pc.PsCore.countPrimes`, PcModel/PsCore.lean) -/
def countCore (l1raw kib s e : ℕ) : ℕ :=
  ((sieveRun (preTabsDecoded ()) l1raw (max s 7) e kib).map fun x => Pc.PsCore.sieveCount x.2).foldl (· + ·) 0

/-- `countCore` below `B`, the exact count beyond (total extension outside the `uint64_t` domain for `B = 2^64`) -/
def countCoreTo (l1raw kib B s e : ℕ) : ℕ := if e < B then countCore l1raw kib s e else primeCnt (max s 7) e

/-- float assumption of WP core2 for every run of the counting path (`Erat::init(max(start, 7), stop)`) -/
def CountFloatOk (l1raw kib : ℕ) : Prop := ∀ a b, b < 2 ^ 64 → FloatOk l1raw (max a 7) b kib

/-- for `7 ≤ s ≤ e` the whole of `PrimeSieve::countPrimes` is the counting core -/
theorem countPrimes_eq_countCore (l1raw kib s e : ℕ) (hs : 7 ≤ s) (hse : s ≤ e) :
    countPrimes (preTabsDecoded ()) l1raw s e kib = countCore l1raw kib s e := by
  unfold countPrimes countCore
  rw [if_neg (by omega), if_neg (by omega), if_pos (by omega : e ≥ 7), Nat.zero_add]

theorem countCore_max (l1raw kib s e : ℕ) : countCore l1raw kib (max s 7) e = countCore l1raw kib s e := by
  unfold countCore
  rw [show max (max s 7) 7 = max s 7 by omega]

/-- the right-hand side of `count_contract` is `primeCnt` -/
theorem filter_length_eq_primeCnt (a b : ℕ) :
    ((List.range (b + 1)).filter (fun p => decide (a ≤ p) && decide (Nat.Prime p))).length = primeCnt a b := by
  refine (primeCnt_eq_card a b _ (List.Pairwise.filter _ List.pairwise_lt_range) (fun q => ?_)).symm
  simp only [List.mem_filter, List.mem_range, Bool.and_eq_true, decide_eq_true_eq]
  constructor
  · rintro ⟨h1, h2, h3⟩; exact ⟨h3, h2, by omega⟩
  · rintro ⟨h1, h2, h3⟩; exact ⟨by omega, h2, h1⟩

/-- the counting core counts the primes `≥ 7` of `[s, e]` -/
theorem countCore_eq (l1raw kib s e : ℕ) (he : e < 2 ^ 64) (hk : 16 ≤ kib) (hk2 : kib ≤ 8192) (hse : s ≤ e) (h7 : 7 ≤ e)
    (hfl : FloatOk l1raw (max s 7) e kib) : countCore l1raw kib s e = primeCnt (max s 7) e := by
  rw [← countCore_max, ← countPrimes_eq_countCore l1raw kib (max s 7) e (by omega) (by omega),
    Pc.PsCore.count_contract l1raw (max s 7) e kib he hk hk2 (by rw [show max (max s 7) 7 = max s 7 by omega]; exact hfl),
    filter_length_eq_primeCnt]

/-- **`CoreCounts` discharged** for the real counting core below `B ≤ 2^64` -/
theorem countCoreTo_coreCounts (l1raw kib B : ℕ) (hB : B ≤ 2 ^ 64) (hfl : ∀ a b, b < B → FloatOk l1raw (max a 7) b kib)
    (hk : 16 ≤ kib) (hk2 : kib ≤ 8192) : CoreCounts (countCoreTo l1raw kib B) := by
  intro s e hse h7
  unfold countCoreTo
  by_cases hb : e < B
  · rw [if_pos hb]
    exact countCore_eq l1raw kib s e (by omega) hk hk2 hse h7 (hfl s e hb)
  · rw [if_neg hb]

theorem countCore64_coreCounts (l1raw kib : ℕ) (hfl : CountFloatOk l1raw kib) (hk : 16 ≤ kib) (hk2 : kib ≤ 8192) :
    CoreCounts (countCoreTo l1raw kib (2 ^ 64)) :=
  countCoreTo_coreCounts l1raw kib (2 ^ 64) (le_refl _) hfl hk hk2

/-- the float assumption of the counting path is a theorem below `2^50` -/
theorem floatOk_count_below_2_50 (l1raw kib a b : ℕ) (hk : 16 ≤ kib) (hk2 : kib ≤ 8192) (hb : b < 2 ^ 50) :
    FloatOk l1raw (max a 7) b kib := by
  by_cases hss : max a 7 ≤ b
  · exact Pc.PsCore.floatOk_of_lt l1raw (max a 7) b kib (by omega) hss hk hk2 hb
  · unfold FloatOk Pc.PsCore.eratInit
    rw [if_pos (Or.inl (by omega))]
    norm_num

theorem countCore50_coreCounts (l1raw kib : ℕ) (hk : 16 ≤ kib) (hk2 : kib ≤ 8192) : CoreCounts (countCoreTo l1raw kib (2 ^ 50)) :=
  countCoreTo_coreCounts l1raw kib (2 ^ 50) (by norm_num) (fun a b hb => floatOk_count_below_2_50 l1raw kib a b hk hk2 hb) hk hk2

/-- the two models of `PrimeSieve::sieve()` with `COUNT_PRIMES` agree: WP iter2's `It.sieveCount` over the counting core returns what
    WP core's `PsCore.countPrimes` returns (both are the number of primes of `[s, e]`) -/
theorem sieveCount_countCore_eq (l1raw kib s e : ℕ) (he : e < 2 ^ 64) (hk : 16 ≤ kib) (hk2 : kib ≤ 8192)
    (hfl : CountFloatOk l1raw kib) :
    sieveCount (countCoreTo l1raw kib (2 ^ 64)) s e = countPrimes (preTabsDecoded ()) l1raw s e kib := by
  rw [sieveCount_eq _ (countCore64_coreCounts l1raw kib hfl hk hk2),
    Pc.PsCore.count_contract l1raw s e kib he hk hk2 (hfl s e he), filter_length_eq_primeCnt]

/-! ### the table path of `PrimeGenerator` -/

/-- `pgPrimes` asks its core for `[max(721, start), stop]` only -/
theorem pgPrimes_congr (core core' : ℕ → ℕ → List ℕ) (start stop : ℕ)
    (h : core (max (maxCached + 2) start) stop = core' (max (maxCached + 2) start) stop) :
    pgPrimes core start stop = pgPrimes core' start stop := by
  unfold pgPrimes
  simp only [h]

/-- the table path over the real sieving core for `stop < B ≤ 2^64`: exactly the primes of `[start, stop]` -/
theorem pgPrimes_coreTo (l1raw kib B start stop : ℕ) (hB : B ≤ 2 ^ 64) (hfl : ∀ a b, b < B → FloatOk l1raw (max 721 a) b kib)
    (hk : 16 ≤ kib) (hk2 : kib ≤ 8192) (hstop : stop < B) :
    PrimesIn (pgPrimes (fun a b => generatePrimes (preTabsDecoded ()) l1raw a b kib) start stop) start stop := by
  have hu : stop ≤ umax := by unfold umax; omega
  have hc : (fun a b => generatePrimes (preTabsDecoded ()) l1raw a b kib) (max (maxCached + 2) start) stop =
      (coreEnvTo ⟨fun _ => 0, fun _ => 0, fun _ => 0, fun _ => 0⟩ (fun _ => 0) l1raw kib B).primes (max (maxCached + 2) start) stop := by
    show _ = (if stop < B then _ else _)
    rw [if_pos hstop]
  rw [pgPrimes_congr _ _ start stop hc]
  exact pgPrimes_spec _ (fun a b _ => (coreEnvTo_genSpec _ _ l1raw kib B hB hfl hk hk2).primes_spec a b) start stop hu

/-- `PrimesIn` determines the list -/
theorem PrimesIn.uniqueC2 {l l' : List ℕ} {a b : ℕ} (h : PrimesIn l a b) (h' : PrimesIn l' a b) : l = l' :=
  List.Pairwise.eq_of_mem_iff h.1 h'.1 (fun q => by rw [h.2 q, h'.2 q])

end Pc.It
