/-
WP top (item 3): the hypotheses of the theorems about pi_lmo5 / pi_lmo_parallel are satisfiable — an (ideal, noncomputable)
table set meeting `LmoOK` for every `y` and a context meeting `CtxOK` for every `x`; used by the non-vacuity examples of
PcProps/C02TopLmo.lean.
-/
import PcProofs.TopLmoPi
import PcProofs.HardExamples
import PcProofs.P2LoopEx

namespace Pc.TopLmo
open Nat
open Pc.Hard Pc.LB
open scoped Nat.Prime ArithmeticFunction.Moebius

/-- tables holding exactly the specified values -/
noncomputable def idealLmoEnv (y : ℕ) : LmoEnv where
  e := idealEnv y 65535 y
  mu := fun m => μ m
  lpf := fun m => m.minFac
  vecSize := y + 1

theorem idealLmoEnv_ok (y : ℕ) : LmoOK (idealLmoEnv y) y where
  env := idealEnv_ok y 65535 y
  vecSize := rfl
  mu_eq := fun _ _ _ => rfl
  lpf_eq := fun _ _ _ => rfl

/-- reference sieve, ideal tables, `S1`'s table built for `y`, the reference iterator, `π` itself, the generated constants -/
noncomputable def idealCtx : Ctx RefSieve where
  S := refSieve Spec.p
  tabs := idealLmoEnv
  nt := fun y => NT.build y
  lc := genConsts
  it := P2L.refIter
  piFn := Nat.primeCounting

theorem idealCtx_ok (x : ℕ) : CtxOK idealCtx x where
  tabs := idealLmoEnv_ok
  nt := fun y => ⟨NT.build_valid y, le_rfl⟩
  it := P2L.refIter_spec
  piFn := fun _ _ => rfl
  lc := genConsts_wf

/-- the reference sieve meets the contract on every work item -/
theorem idealCtx_sieve (K : ℕ) :
    ∃ H : SieveSpec idealCtx.S K, ∀ low seg, 240 ∣ low → 240 ∣ seg → 0 < seg → H.segOK low seg :=
  ⟨refSieve_spec Spec.p K (fun _ _ _ => rfl), fun _ _ _ _ _ => trivial⟩

/-- the one-thread run of `P2`'s region for `x = 1000`, `y = 10`: chunk `[31, 100)`, then `false` -/
def run1000y10 : P2L.Run := { team := 1, print := false, es := [⟨0, true, 31, 100⟩, ⟨0, false, 100, 100⟩], order := [0] }

theorem iroot3_1000 : irootN 3 1000 = 10 := irootN_eq_of (by norm_num) (by norm_num) (by norm_num)
theorem iroot6_1000 : irootN 6 1000 = 3 := irootN_eq_of (by norm_num) (by norm_num) (by norm_num)

end Pc.TopLmo
