/-
WP close3, item 2 (gourdon): `pi_gourdon_64 / 128` over `World2` (bit-level PhiCache) for EVERY `x` of the type — `World2.pi_gourdon_s3`
(PcProofs/Close2Final.lean) without the side condition `x < 8 ∨ 16 ≤ x` (`piGourdon_total_to_all`, PcProofs/Close3Top.lean).
-/
import PcProofs.Close2Final
import PcProofs.Close3Top

namespace Pc.Close
open Nat Pc.Hard Pc.PhiVec Pc.Top Pc.PsCore Pc.LB PcGen.ApiConst Pc.PhiAlgProofs Pc.ClosePhi
open scoped Nat.Prime

namespace World2

/-- `pi_gourdon_64(x)` / `pi_gourdon_128(x)` over the world with the bit-level phi, EVERY `x` of the type -/
theorem pi_gourdon_s_all (W : World2) {B : ℕ} (h : W.toWorld.OK B) (hB : B < 2 ^ 32) (c : Sieve.Cfg) (f : Sieve.StopFn) (pi : ℕ → ℕ)
    (wide : Bool) (x : ℤ) (hx : InType wide x) (threads : ℤ) (isPrint : Bool) (r : GRun)
    (hphi : ∀ n : ℕ, (n : ℤ) < x → maxCached < n → n ≤ meisselMax → W.PhiRunOK2 n)
    (hrec : W.NestedS2 c f B pi x)
    (hex : 2 ≤ x → GExecC (W.toWorld.tablesS c f wide) B wide x.toNat r) :
    piGourdon (W.toWorld.tablesS c f wide) pi wide x threads isPrint r = .ok (π x.toNat : ℤ) ∨
      piGourdon (W.toWorld.tablesS c f wide) pi wide x threads isPrint r = .error (.hard .badRun) :=
  piGourdon_total_to_all (W.toWorld.tablesS c f wide) (W.toWorld.tablesS_ok h hB c f wide) (W.toWorld.it_specTo h)
    World.maxPrime64_ge pi wide x hx threads isPrint r (W.nested_s2 h hB c f pi x hphi hrec) hex

end World2
end Pc.Close

#print axioms Pc.Close.World2.pi_gourdon_s_all
