/-
C18 (WP iter): the backward refill loop `generate_prev_primes()` (iterator.cpp:158-189, PcModel/Iter.lean `genPrevLoop`, `genPrev`).
-/
import PcProofs.IterRefine

namespace Pc.It
open Nat

/-- the top from which `generate_prev_primes()` continues: `start_` itself right after construction / `jump_to`
    (`include_start_number`), else `start_ - 1` (saturating) -/
def prevTop (s : St) : ℕ := if s.mem.incl then s.start else checkedSub s.start 1

/-- what the `do … while (!size_)` loop leaves behind when it had to continue from `t` -/
structure BwdDone (s s' : St) (t : ℕ) : Prop where
  ne : s'.buf ≠ []
  iend : s'.i = s'.buf.length
  hint : s'.hint = s.hint
  incl : s'.mem.incl = false
  gen : s'.mem.gen = none
  stop_le : s'.mem.stop ≤ t
  start_le : s'.start ≤ s'.mem.stop
  sorted : s'.buf.Pairwise (· < ·)
  mem : ∀ q, q ∈ s'.buf ↔ (q.Prime ∧ s'.start ≤ q ∧ q ≤ s'.mem.stop) ∨ (q = 0 ∧ s'.start ≤ 2)
  above : ∀ q, q.Prime → q ≤ t → q ≤ s'.mem.stop

theorem fillPrev_mem (e : Env) (he : GenSpec e) (a b q : ℕ) :
    q ∈ fillPrev e a b ↔ (q.Prime ∧ a ≤ q ∧ q ≤ b) ∨ (q = 0 ∧ a ≤ 2) := by
  unfold fillPrev
  rw [List.mem_append, (he.primes_spec a b).2 q]
  by_cases h : a ≤ 2
  · rw [if_pos h]; simp only [List.mem_singleton]; tauto
  · rw [if_neg h]; simp only [List.not_mem_nil]; tauto

theorem fillPrev_sorted (e : Env) (he : GenSpec e) (a b : ℕ) : (fillPrev e a b).Pairwise (· < ·) := by
  unfold fillPrev
  rw [List.pairwise_append]
  refine ⟨?_, (he.primes_spec a b).1, ?_⟩
  · split
    · exact List.pairwise_singleton _ _
    · exact List.Pairwise.nil
  · intro x hx y hy
    have hyp := ((he.primes_spec a b).2 y).1 hy
    split at hx
    · rw [List.mem_singleton] at hx; subst hx; exact hyp.1.pos
    · simp at hx

/-- `generate_prev_primes()`: terminates for every hint / float outcome, the windows are contiguous downwards, the buffer holds
    exactly the primes of `[start_, stop]` (and the leading 0 iff `start_ <= 2`) and no prime of `(stop, t]` was skipped -/
theorem genPrevLoop_spec (e : Env) (he : GenSpec e) :
    ∀ fuel (s : St), s.mem.gen = none → prevTop s + 2 ≤ fuel →
      ∃ s', genPrevLoop e fuel s = .ok s' ∧ BwdDone s s' (prevTop s) := by
  intro fuel
  induction fuel with
  | zero => intro s _ h; omega
  | succ fuel ih =>
    intro s hgen hf
    have hstop := updatePrev_stop e.fl s.start s.hint s.mem
    have hle := updatePrev_le e.fl s.start s.hint s.mem
    have hsnd := updatePrev_snd e.fl s.start s.hint s.mem
    rw [genPrevLoop]
    rcases hu : updatePrev e.fl s.start s.hint s.mem with ⟨st, d⟩
    rw [hu] at hstop hle hsnd
    simp only [] at hstop hle hsnd ⊢
    have hdt : d.stop = prevTop s := hstop
    by_cases hb : (fillPrev e st d.stop).isEmpty = true
    · rw [if_pos hb]
      have hnil : fillPrev e st d.stop = [] := List.isEmpty_iff.1 hb
      have hst2 : ¬ st ≤ 2 := by
        intro h
        have : (0 : ℕ) ∈ fillPrev e st d.stop := (fillPrev_mem e he st d.stop 0).2 (Or.inr ⟨rfl, h⟩)
        rw [hnil] at this; simp at this
      have hnone : ∀ q, q.Prime → st ≤ q → ¬ q ≤ d.stop := by
        intro q hq h1 h2
        have : q ∈ fillPrev e st d.stop := (fillPrev_mem e he st d.stop q).2 (Or.inl ⟨hq, h1, h2⟩)
        rw [hnil] at this; simp at this
      have htop : prevTop { s with start := st, mem := d, buf := fillPrev e st d.stop, i := (fillPrev e st d.stop).length }
          = st - 1 := by
        show (if d.incl then st else checkedSub st 1) = st - 1
        rw [hsnd.1]; simp only [Bool.false_eq_true, if_false]; exact checkedSub_eq st 1
      obtain ⟨s', hs', hd⟩ := ih { s with start := st, mem := d, buf := fillPrev e st d.stop, i := (fillPrev e st d.stop).length }
        (by show d.gen = none; rw [hsnd.2]; exact hgen) (by rw [htop]; omega)
      rw [htop] at hd
      refine ⟨s', hs', ⟨hd.ne, hd.iend, hd.hint, hd.incl, hd.gen, by have := hd.stop_le; omega, hd.start_le, hd.sorted, hd.mem, ?_⟩⟩
      intro q hq hqt
      by_cases hc : q ≤ st - 1
      · exact hd.above q hq hc
      · exact absurd (by omega : q ≤ d.stop) (hnone q hq (by omega))
    · rw [if_neg hb]
      refine ⟨_, rfl, ⟨?_, rfl, rfl, hsnd.1, by show d.gen = none; rw [hsnd.2]; exact hgen, by show d.stop ≤ prevTop s; omega, hle,
        fillPrev_sorted e he st d.stop, fillPrev_mem e he st d.stop, ?_⟩⟩
      · intro h; apply hb; exact List.isEmpty_iff.2 h
      · intro q _ hqt; show q ≤ d.stop; omega

end Pc.It

namespace Pc.It
open Nat

/-- `generate_prev_primes()` on an iterator without live generator -/
theorem genPrev_none (e : Env) (he : GenSpec e) (s : St) (hgen : s.mem.gen = none) (hs : s.start ≤ umax) :
    ∃ s', genPrev e bigFuel s = .ok s' ∧ BwdDone s s' (prevTop s) := by
  have hf : prevTop s + 2 ≤ bigFuel := by
    have : prevTop s ≤ s.start := by
      unfold prevTop
      split
      · exact le_refl _
      · exact checkedSub_le _ _
    unfold bigFuel two64; unfold umax at hs; omega
  obtain ⟨s', h1, h2⟩ := genPrevLoop_spec e he bigFuel s hgen hf
  exact ⟨s', by rw [genPrev, hgen]; exact h1, h2⟩

/-- `generate_prev_primes()` after `generate_next_primes()` (the direction switch `start_ = primes.front()`): it continues
    below the FIRST entry `p` of the current buffer -/
theorem genPrev_some (e : Env) (he : GenSpec e) (s : St) (g : Gen) (p : ℕ) (rest : List ℕ) (hgen : s.mem.gen = some g)
    (hbuf : s.buf = p :: rest) (hincl : s.mem.incl = false) (hp : p ≤ umax) :
    ∃ s', genPrev e bigFuel s = .ok s' ∧ s'.hint = s.hint ∧
      BwdDone { s with start := p, mem := { s.mem with gen := none } } s' (p - 1) := by
  have htop : prevTop { s with start := p, mem := { s.mem with gen := none } } = p - 1 := by
    show (if s.mem.incl then p else checkedSub p 1) = p - 1
    rw [hincl]; simp only [Bool.false_eq_true, if_false]; exact checkedSub_eq p 1
  have hf : prevTop { s with start := p, mem := { s.mem with gen := none } } + 2 ≤ bigFuel := by
    rw [htop]; unfold bigFuel two64; unfold umax at hp; omega
  obtain ⟨s', h1, h2⟩ := genPrevLoop_spec e he bigFuel _ (show ({ s.mem with gen := none } : Data).gen = none from rfl) hf
  rw [htop] at h2
  exact ⟨s', by rw [genPrev, hgen, hbuf]; exact h1, h2.hint, h2⟩

/-- first `prev_prime()` of a fresh / repositioned iterator: the largest prime `<= start`, 0 when there is none -/
theorem prevPrime_init (e : Env) (he : GenSpec e) (start hint : ℕ) (hs : start ≤ umax) :
    ∃ s', prevPrime e (init start hint) = .ok (Nat.findGreatest Nat.Prime start, s') := by
  obtain ⟨s', h1, hd⟩ := genPrev_none e he (init start hint) rfl hs
  have htop : prevTop (init start hint) = start := rfl
  rw [htop] at hd
  have hlen : 0 < s'.buf.length := List.length_pos_of_ne_nil hd.ne
  have hL : s'.buf.getLast? = some (s'.buf[s'.buf.length - 1]'(by omega)) := by
    rw [List.getLast?_eq_getElem?]; exact List.getElem?_eq_getElem (by omega)
  generalize hLv : s'.buf[s'.buf.length - 1]'(by omega) = L at hL
  have hmemL : L ∈ s'.buf := List.mem_of_getLast? hL
  have hmax : ∀ q ∈ s'.buf, q ≤ L := P2L.le_getLast_of_pairwise hd.sorted L hL
  have hval : L = Nat.findGreatest Nat.Prime start := by
    symm
    rw [Nat.findGreatest_eq_iff]
    rcases (hd.mem L).1 hmemL with ⟨hp, h1', h2'⟩ | ⟨h0, h2'⟩
    · refine ⟨by have := hd.stop_le; omega, fun _ => hp, fun n hn hns hnp => ?_⟩
      have h3 := hd.above n hnp hns
      have : n ∈ s'.buf := (hd.mem n).2 (Or.inl ⟨hnp, by omega, h3⟩)
      have := hmax n this; omega
    · subst h0
      refine ⟨Nat.zero_le _, fun h => absurd rfl h, fun n hn hns hnp => ?_⟩
      have h3 := hd.above n hnp hns
      have : n ∈ s'.buf := (hd.mem n).2 (Or.inl ⟨hnp, by have := hnp.two_le; omega, h3⟩)
      have := hmax n this; omega
  refine ⟨{ s' with i := s'.i - 1 }, ?_⟩
  unfold prevPrime
  have hi0 : (init start hint).i = 0 := rfl
  simp only [hi0, if_true, h1]
  have hi : s'.i ≠ 0 := by rw [hd.iend]; omega
  rw [if_neg hi, hd.iend, List.getElem?_eq_getElem (by omega : s'.buf.length - 1 < s'.buf.length)]
  simp only [hLv, hval]

end Pc.It
