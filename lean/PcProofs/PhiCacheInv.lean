/-
C07 (WP phicache) — the invariant of `PhiCache::init_cache` and the correctness of `phi_cache`:
after any legal sequence of `init_cache` calls on an object built by the constructor, word `w` of `sieve_[l]`
(9 ≤ l ≤ max_a_cached_) has bit `k` set iff `240 w + wheelNum k` is coprime to p_1 … p_l, and
`count = φ(240 w − 1, l)` (no `uint32_t` truncation), hence `phi_cache(x, l) = φ(x, l)` for every cached `(x, l)`.
-/
import PcProofs.PhiCacheBits

namespace Pc.PhiCacheProofs
open Nat Pc Pc.PhiCacheL2 Pc.Spec Classical

/-- bits of one array at level `l`, `S` words -/
structure RowOK (S l : ℕ) (row : Row) : Prop where
  size : row.size = S
  bits : ∀ w, w < S → WordHoldsQ (Surv l) w (bitsAt row w)
  /-- the `bits` member fits `uint64_t` -/
  lt : ∀ w, w < S → bitsAt row w < 2 ^ 64

/-- bits and prefix counts (`count` of word `w` = number of survivors below `240 w` = φ(240 w − 1, l)) -/
structure RowCnt (S l : ℕ) (row : Row) : Prop extends RowOK S l row where
  cnt : ∀ w, w < S → cntAt row w = Nat.count (Surv l) (240 * w)

theorem getD_setIfInBounds' {α} (xs : Array α) (j w : ℕ) (a d : α) :
    (xs.setIfInBounds j a).getD w d = if j = w ∧ j < xs.size then a else xs.getD w d := by
  simp only [Array.getD_eq_getD_getElem?, Array.getElem?_setIfInBounds]
  by_cases h : j = w
  · subst h
    by_cases h2 : j < xs.size
    · simp [h2]
    · simp [h2]
  · simp [h]

theorem getD_replicate {α} (n w : ℕ) (v d : α) (h : w < n) : (Array.replicate n v).getD w d = v := by
  simp [Array.getD_eq_getD_getElem?, h]

/-- `std::fill(..., sieve_t{0, ~0ull})`: level 3 = the numbers coprime to 2·3·5 -/
theorem rowOK_init (S : ℕ) : RowOK S 3 (Array.replicate S ((0, 2 ^ 64 - 1) : Word)) := by
  refine ⟨by simp, fun w hw k hk => ?_, fun w hw => ?_⟩
  · unfold bitsAt
    rw [getD_replicate _ _ _ _ hw]
    simp only [Nat.testBit_two_pow_sub_one, hk, decide_true, true_iff]
    refine ⟨(coprime30_add w _).2 ((coprime30_iff_wheel _ (wheelNum_lt hk)).2 ⟨k, hk, rfl⟩), ?_⟩
    intro j h4 h3; omega
  · unfold bitsAt
    rw [getD_replicate _ _ _ _ hw]
    norm_num

/-- **one level of `init_cache`** (phi.cpp:255-272): from the bits of level `l` to the bits — and, above
    `PhiTiny::max_a()`, the prefix counts — of level `l + 1` -/
theorem sieveLevel_ok {S l maxX : ℕ} {prev : Row} (hl : 3 ≤ l) (hmax : maxX + 1 = 240 * S)
    (hcap : 240 * S ≤ 2 ^ 32) (h : RowOK S l prev) :
    RowOK S (l + 1) (sieveLevel (p (l + 1)) maxX (l + 1) prev) ∧
    (8 < l + 1 → RowCnt S (l + 1) (sieveLevel (p (l + 1)) maxX (l + 1) prev)) := by
  set q := p (l + 1) with hq
  have hq2 : 2 ≤ q := Spec.two_le_p _
  -- step 1: the prime itself
  obtain ⟨row1, hrow1⟩ : ∃ r : Row, r = if q ≤ maxX then clearBit prev q else prev := ⟨_, rfl⟩
  have h1s : row1.size = S := by
    rw [hrow1]; split
    · rw [size_clearBit]; exact h.size
    · exact h.size
  have h1b : ∀ w k, w < S → k < 64 →
      ((bitsAt row1 w).testBit k = true ↔ (Surv l (240 * w + wheelNum k) ∧ 240 * w + wheelNum k ≠ q)) := by
    intro w k hw hk
    have hwl := wheelNum_lt hk
    rw [hrow1]
    split
    · rw [bitsAt_clearBit _ _ _ _ (by rw [h.size]; exact hw) hk, h.bits w hw k hk]
    · rename_i hgt
      rw [h.bits w hw k hk]
      constructor
      · intro hs; exact ⟨hs, by omega⟩
      · exact fun hs => hs.1
  -- step 2: q², q² + 2q, ...
  obtain ⟨row2, hrow2⟩ : ∃ r : Row, r = crossOff maxX (q * 2) (maxX + 1) (q * q) row1 := ⟨_, rfl⟩
  obtain ⟨h2s, _, h2b⟩ := crossOff_spec maxX (q * 2) (maxX + 1) (q * q) row1 (by nlinarith)
  rw [← hrow2, h1s] at h2s h2b
  have h1le : ∀ w, w < S → bitsAt row1 w ≤ bitsAt prev w := by
    intro w hw
    rw [hrow1]
    split
    · exact bitsAt_clearBit_le _ _ _ (by rw [h.size]; exact hw)
    · exact le_rfl
  have h2le : ∀ w, w < S → bitsAt row2 w ≤ bitsAt row1 w := by
    intro w hw
    rw [hrow2]
    exact crossOff_le _ _ _ _ _ w (by rw [h1s]; exact hw)
  have hok2 : RowOK S (l + 1) row2 := by
    refine ⟨h2s, fun w hw k hk => ?_, fun w hw => lt_of_le_of_lt (le_trans (h2le w hw) (h1le w hw)) (h.lt w hw)⟩
    have hwl := wheelNum_lt hk
    rw [h2b w k hw hk, h1b w k hw hk, surv_succ hl]
    constructor
    · rintro ⟨⟨hs, hne⟩, hex⟩
      refine ⟨hs, fun hdvd => ?_⟩
      rcases (cross_iff hl hs).1 hdvd with h' | ⟨t, ht⟩
      · exact hne h'
      · exact hex ⟨t, ht, by rw [← ht]; omega⟩
    · rintro ⟨hs, hnd⟩
      refine ⟨⟨hs, fun heq => hnd ((cross_iff hl hs).2 (Or.inl heq))⟩, ?_⟩
      rintro ⟨t, ht, _⟩
      exact hnd ((cross_iff hl hs).2 (Or.inr ⟨t, ht⟩))
  have hsl : sieveLevel q maxX (l + 1) prev = if l + 1 > phiTinyMaxA then countFill row2 else row2 := by
    unfold sieveLevel
    rw [hrow2, hrow1]
  rw [hsl]
  -- step 3: prefix counts
  set c : ℕ → ℕ := fun w => Nat.count (Surv (l + 1)) (240 * w) with hc
  have hstep : ∀ v, 0 ≤ v → v < row2.size → c (v + 1) = c v + popcount64 (bitsAt row2 v) := by
    intro v _ hv
    rw [h2s] at hv
    rw [popcount_fullQ (Surv (l + 1)) v _ (hok2.bits v hv), hc]
    simp only
    rw [show 240 * (v + 1) = 240 * v + 240 by ring, count_blockS]
  have hc0 : c 0 = 0 := by simp [hc]
  obtain ⟨c1, c2, _, c4⟩ := countLoop_spec c row2.size 0 row2 (by omega) hstep
  rw [hc0] at c1 c2 c4
  have hfill : RowCnt S (l + 1) (countFill row2) := by
    unfold countFill
    refine ⟨⟨by rw [c1, h2s], fun w hw => by rw [c2 w]; exact hok2.bits w hw,
      fun w hw => by rw [c2 w]; exact hok2.lt w hw⟩, fun w hw => ?_⟩
    rw [c4 w (Nat.zero_le _) (by rw [h2s]; exact hw)]
    have : c w ≤ 240 * w := Nat.count_le _
    exact Nat.mod_eq_of_lt (by omega)
  by_cases h8 : l + 1 > phiTinyMaxA
  · rw [if_pos h8]
    exact ⟨hfill.toRowOK, fun _ => hfill⟩
  · rw [if_neg h8]
    refine ⟨hok2, fun h9 => ?_⟩
    simp only [phiTinyMaxA] at h8
    omega

/-! ### the sieve array during `init_cache` -/

/-- the state of `sieve_` when levels up to `top` have been produced in an object with `max_a_ = M` -/
structure Mid (M S top : ℕ) (sv : Array Row) : Prop where
  size : sv.size = M + 1
  top_le : top ≤ M
  three : 3 ≤ top
  row : RowOK S top (sv.getD top #[])
  rows : ∀ l, 9 ≤ l → l ≤ top → RowCnt S l (sv.getD l #[])

theorem initLevel_mid {prime : ℕ → ℕ} {M S maxX top : ℕ} {sv : Array Row} (hmax : maxX + 1 = 240 * S)
    (hcap : 240 * S ≤ 2 ^ 32) (h : Mid M S top sv) (htop : top + 1 ≤ M) (hp : prime (top + 1) = p (top + 1)) :
    Mid M S (top + 1) (initLevel prime maxX sv (top + 1)) := by
  have hlev := sieveLevel_ok (prev := sv.getD top #[]) h.three hmax hcap h.row
  have h3 := h.three
  unfold initLevel
  simp only [Nat.add_sub_cancel, hp]
  set new := sieveLevel (p (top + 1)) maxX (top + 1) (sv.getD top #[]) with hnew
  by_cases hmv : top ≤ phiTinyMaxA
  · rw [if_pos hmv]
    simp only [phiTinyMaxA] at hmv
    refine ⟨by simp [h.size], htop, by omega, ?_, fun l h9 hl => ?_⟩
    · rw [getD_setIfInBounds', if_pos ⟨rfl, by simp [h.size]; omega⟩]
      exact hlev.1
    · have : l = top + 1 := by omega
      subst this
      rw [getD_setIfInBounds', if_pos ⟨rfl, by simp [h.size]; omega⟩]
      exact hlev.2 (by omega)
  · rw [if_neg hmv]
    simp only [phiTinyMaxA] at hmv
    refine ⟨by simp [h.size], htop, by omega, ?_, fun l h9 hl => ?_⟩
    · rw [getD_setIfInBounds', if_pos ⟨rfl, by simp [h.size]; omega⟩]
      exact hlev.1
    · rcases Nat.lt_or_ge l (top + 1) with hlt | hge
      · rw [getD_setIfInBounds', if_neg (by omega), getD_setIfInBounds', if_neg (by omega)]
        exact h.rows l h9 (by omega)
      · have : l = top + 1 := by omega
        subst this
        rw [getD_setIfInBounds', if_pos ⟨rfl, by simp [h.size]; omega⟩]
        exact hlev.2 (by omega)

theorem foldl_mid {prime : ℕ → ℕ} {M S maxX : ℕ} (hmax : maxX + 1 = 240 * S) (hcap : 240 * S ≤ 2 ^ 32) :
    ∀ n top (sv : Array Row), Mid M S top sv → top + n ≤ M → (∀ i, top < i → i ≤ top + n → prime i = p i) →
      Mid M S (top + n) ((List.range' (top + 1) n).foldl (initLevel prime maxX) sv) := by
  intro n
  induction n with
  | zero => intro top sv h _ _; simpa using h
  | succ n ih =>
    intro top sv h hle hp
    rw [List.range'_succ, List.foldl_cons]
    have := ih (top + 1) _ (initLevel_mid hmax hcap h (by omega) (hp (top + 1) (by omega) (by omega))) (by omega)
      (fun i h1 h2 => hp i (by omega) (by omega))
    rw [show top + (n + 1) = top + 1 + n by ring]
    exact this

/-! ### the cache object -/

/-- what the constructor guarantees when caching is switched on -/
structure Geom (st : State) : Prop where
  maxX_eq : st.maxX + 1 = 240 * st.maxXSize
  cap : 240 * st.maxXSize ≤ 2 ^ 32
  maxA_gt : 8 < st.maxA

/-- **invariant of a `PhiCache` object** between calls: either nothing has been sieved yet, or every level
    `9 ≤ l ≤ max_a_cached_` holds the survivors of p_1 … p_l with exact prefix counts -/
structure Inv (st : State) : Prop where
  mac_le : st.maxACached ≤ st.maxA
  geom : st.maxA = 0 ∨ Geom st
  rows : (st.sieve = #[] ∧ st.maxACached = 0) ∨
    (st.sieve.size = st.maxA + 1 ∧ 9 ≤ st.maxACached ∧
      ∀ l, 9 ≤ l → l ≤ st.maxACached → RowCnt st.maxXSize l (st.sieve.getD l #[]))

/-- **the constructor establishes the invariant**, for every `x`, `a` and every value of the float estimate -/
theorem new_inv (a est : ℕ) : Inv (State.new a est) := by
  have e8 : phiTinyMaxA = 8 := rfl
  unfold State.new
  dsimp only
  split
  · exact ⟨le_rfl, Or.inl rfl, Or.inl ⟨rfl, rfl⟩⟩
  · rename_i hA
    split
    · exact ⟨le_rfl, Or.inl rfl, Or.inl ⟨rfl, rfl⟩⟩
    · rename_i hsz
      have h1 : (16 <<< 20) / (min (a - min a 30) 100 - phiTinyMaxA) ≤ 16 <<< 20 := Nat.div_le_self _ _
      have h2 : (16 : ℕ) <<< 20 = 16777216 := by decide
      have h3 : 240 / sizeofSieveT = 20 := by decide
      have hlim : min est (16 <<< 20 / (min (a - min a 30) 100 - phiTinyMaxA) * (240 / sizeofSieveT))
          ≤ 335544320 := by
        refine le_trans (Nat.min_le_right _ _) ?_
        rw [h2] at h1 ⊢; rw [h3]; omega
      refine ⟨Nat.zero_le _, Or.inr ⟨?_, ?_, ?_⟩, Or.inl ⟨rfl, rfl⟩⟩
      · dsimp only
        omega
      · dsimp only
        unfold ceilDiv
        omega
      · dsimp only
        omega

theorem isCachedS_iff (st : State) (x a : ℕ) :
    st.isCached x a = true ↔ x ≤ st.maxX ∧ a ≤ st.maxACached ∧ 8 < a := by
  simp only [State.isCached, Bool.and_eq_true, decide_eq_true_eq, and_assoc]
  simp only [phiTinyMaxA]

/-- **invariant of `init_cache(k)`** for a call that satisfies the ASSERTs (`8 < k ≤ max_a_`,
    `k > max_a_cached_`) with a prime vector that is right up to index `k` -/
theorem initCache_inv {prime : ℕ → ℕ} {st : State} {k : ℕ} (h : Inv st) (h8 : 8 < k) (hk : k ≤ st.maxA)
    (hmac : st.maxACached < k) (hp : ∀ i, 4 ≤ i → i ≤ k → prime i = p i) :
    Inv (st.initCache prime k) ∧ (st.initCache prime k).maxACached = k ∧
      (st.initCache prime k).maxX = st.maxX ∧ (st.initCache prime k).maxXSize = st.maxXSize ∧
      (st.initCache prime k).maxA = st.maxA := by
  have hg : Geom st := by
    rcases h.geom with h0 | hg
    · omega
    · exact hg
  refine ⟨?_, rfl, ?_, ?_, ?_⟩
  · rcases h.rows with ⟨he, hm0⟩ | ⟨hs, h9, hrows⟩
    · -- first call: allocate, fill level 3, sieve levels 4..k
      have hemp : st.sieve.isEmpty = true := by rw [Array.isEmpty_iff]; exact he
      unfold State.initCache
      simp only [hemp, if_true]
      have hmid0 : Mid st.maxA st.maxXSize 3
          ((Array.replicate (st.maxA + 1) (#[] : Row)).setIfInBounds 3
            (Array.replicate st.maxXSize ((0, 2 ^ 64 - 1) : Word))) := by
        refine ⟨by simp, by omega, le_rfl, ?_, fun l h9 hl => by omega⟩
        rw [getD_setIfInBounds', if_pos ⟨rfl, by simp; omega⟩]
        exact rowOK_init _
      have := foldl_mid (prime := prime) hg.maxX_eq hg.cap (k - 3) 3 _ hmid0 (by omega)
        (fun i h1 h2 => hp i (by omega) (by omega))
      rw [show 3 + (k - 3) = k by omega] at this
      refine ⟨hk, Or.inr ⟨hg.maxX_eq, hg.cap, hg.maxA_gt⟩, Or.inr ⟨?_, (by show 9 ≤ k; omega), ?_⟩⟩
      · simp only [show k + 1 - (3 + 1) = k - 3 by omega]
        exact this.size
      · simp only [show k + 1 - (3 + 1) = k - 3 by omega]
        exact this.rows
    · -- later call: copy and sieve levels mac+1..k
      have hemp : st.sieve.isEmpty = false := by
        rw [Array.isEmpty_eq_false_iff]
        intro he; rw [he] at hs; simp at hs
      unfold State.initCache
      simp only [hemp, Bool.false_eq_true, if_false]
      have hmid0 : Mid st.maxA st.maxXSize st.maxACached st.sieve :=
        ⟨hs, h.mac_le, by omega, (hrows _ h9 le_rfl).toRowOK, hrows⟩
      have := foldl_mid (prime := prime) hg.maxX_eq hg.cap (k - st.maxACached) st.maxACached _ hmid0 (by omega)
        (fun i h1 h2 => hp i (by omega) (by omega))
      rw [show st.maxACached + (k - st.maxACached) = k by omega] at this
      refine ⟨hk, Or.inr ⟨hg.maxX_eq, hg.cap, hg.maxA_gt⟩, Or.inr ⟨?_, (by show 9 ≤ k; omega), ?_⟩⟩
      · simp only [show k + 1 - (st.maxACached + 1) = k - st.maxACached by omega]
        exact this.size
      · simp only [show k + 1 - (st.maxACached + 1) = k - st.maxACached by omega]
        exact this.rows
  all_goals
    unfold State.initCache
    split <;> rfl

/-- lookup in one array with exact counts -/
theorem lookup_correct {S l : ℕ} {row : Row} (h : RowCnt S l row) (hl : 3 ≤ l) {x : ℕ} (hx : x < 240 * S) :
    wordLookup (row.getD (x / 240) (0, 0)) x = phi x l := by
  have hw : x / 240 < S := by omega
  have hm : x % 240 < 240 := Nat.mod_lt _ (by norm_num)
  unfold wordLookup
  rw [unsetLargerTbl_eq _ hm]
  have h1 := h.cnt _ hw
  have h2 := popcount_maskedQ (Surv l) (x / 240) _ (x % 240) (h.bits _ hw) hm
  unfold cntAt at h1
  unfold bitsAt at h2
  rw [h1, h2, phi_eq_count hl]
  have hx' : x + 1 = 240 * (x / 240) + (x % 240 + 1) := by omega
  conv_rhs => rw [hx']
  rw [count_blockS]

/-- **`phi_cache(x, a) = φ(x, a)` for every cached `(x, a)`** -/
theorem phiCache_correct {st : State} (h : Inv st) {x a : ℕ} (hc : st.isCached x a = true) :
    st.phiCache x a = phi x a := by
  rw [isCachedS_iff] at hc
  obtain ⟨hx, ha, h8⟩ := hc
  rcases h.rows with ⟨_, hm0⟩ | ⟨_, _, hrows⟩
  · omega
  · have hg : Geom st := by
      rcases h.geom with h0 | hg
      · have := h.mac_le; omega
      · exact hg
    unfold State.phiCache
    exact lookup_correct (hrows a (by omega) ha) (by omega) (by have := hg.maxX_eq; omega)

/-- the reads of `phi_cache` are inside the arrays (the ASSERT `is_cached(x, a)` suffices) -/
theorem phiCache_in_range {st : State} (h : Inv st) {x a : ℕ} (hc : st.isCached x a = true) :
    a < st.sieve.size ∧ x / 240 < (st.sieve.getD a #[]).size := by
  rw [isCachedS_iff] at hc
  obtain ⟨hx, ha, h8⟩ := hc
  rcases h.rows with ⟨_, hm0⟩ | ⟨hs, _, hrows⟩
  · omega
  · have hg : Geom st := by
      rcases h.geom with h0 | hg
      · have := h.mac_le; omega
      · exact hg
    have := h.mac_le
    have := hg.maxX_eq
    rw [(hrows a (by omega) ha).size]
    omega

/-- the `(uint32_t) count` cast of phi.cpp:269 never truncates: every stored count is the exact survivor count,
    which is below `240 · max_x_size_ ≤ 335544480 < 2^32` -/
theorem count_no_truncation {st : State} (h : Inv st) {l w : ℕ} (h9 : 9 ≤ l) (hl : l ≤ st.maxACached)
    (hw : w < st.maxXSize) :
    cntAt (st.sieve.getD l #[]) w = Nat.count (Surv l) (240 * w) ∧ Nat.count (Surv l) (240 * w) < 2 ^ 32 := by
  rcases h.rows with ⟨_, hm0⟩ | ⟨_, _, hrows⟩
  · omega
  · have hg : Geom st := by
      rcases h.geom with h0 | hg
      · have := h.mac_le; omega
      · exact hg
    refine ⟨(hrows l h9 hl).cnt w hw, ?_⟩
    have : Nat.count (Surv l) (240 * w) ≤ 240 * w := Nat.count_le _
    have := hg.cap
    omega

end Pc.PhiCacheProofs
