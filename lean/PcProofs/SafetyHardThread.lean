/-
WP safety4 (C16 / C12): the chunk theorems of `S2_hard_thread` / `D_thread` for the WIDTH-CHECKED mirrors
(`s2HardThreadC`, `dThreadC` of PcModel/SafetyHard.lean): under the hypotheses of `s2HardThread_eq` / `dThread_eq_gen`
plus `low + segment_size·segments ≤ iMax` and "the true chunk value fits the signed `T`", the checked mirror returns the
same value: no `int64_t` local of the thread function overflows, for EVERY work item.
(The two proofs follow `s2HardThread_eq` / `dThread_eq_gen` line by line; only the engine lemma is `segLoopC_spec`.)
-/
import PcProofs.SafetyHardEngine
import PcProofs.HardDChunk

namespace Pc.Hard
open Nat Finset
open scoped Nat.Prime ArithmeticFunction.Moebius

local notation "p" => Spec.p
local notation "φ" => Spec.phi

variable {σ : Type} {S : SieveOps σ}

theorem leafItems1_w (e : Env) (prime xp minI : ℕ) : ∀ n, WeightsOK (leafItems1 e prime xp minI n) := by
  intro n
  induction n with
  | zero => intro it hit; simp [leafItems1] at hit
  | succ n ih =>
    intro it hit
    unfold leafItems1 at hit
    split_ifs at hit
    · rcases List.mem_cons.1 hit with h | h
      · subst h
        simp only [Env.mu]
        split_ifs <;> simp
      · exact ih it h
    · exact ih it hit

theorem leafItems2_w (e : Env) (xp minHard : ℕ) : ∀ l, WeightsOK (leafItems2 e xp minHard l) := by
  intro l
  induction l with
  | zero => intro it hit; simp [leafItems2] at hit
  | succ l ih =>
    intro it hit
    unfold leafItems2 at hit
    split_ifs at hit
    · rcases List.mem_cons.1 hit with h | h
      · subst h; left; rfl
      · exact ih it h
    · simp at hit

theorem s2Lv_w {e : Env} {x y z ps maxB b lo hi : ℕ} {its : List (ℕ × ℤ)}
    (h : s2Lv e x y z ps maxB b lo hi = .ok (some its)) : WeightsOK its := by
  unfold s2Lv at h
  split_ifs at h
  · unfold s2Level1 at h
    split_ifs at h
    · simp at h
    · rw [← Option.some.inj (Except.ok.inj h)]; exact leafItems1_w _ _ _ _ _
  · unfold s2Level2 at h
    split_ifs at h
    · simp at h
    · rw [← Option.some.inj (Except.ok.inj h)]; exact leafItems2_w _ _ _ _

theorem dLv_w {e : Env} {x y z ps maxB b lo hi : ℕ} {its : List (ℕ × ℤ)}
    (h : dLv e x y z ps maxB b lo hi = .ok (some its)) : WeightsOK its := by
  unfold dLv at h
  split_ifs at h
  · unfold dLevel1 at h
    split_ifs at h
    · simp at h
    · rw [← Option.some.inj (Except.ok.inj h)]; exact leafItems1_w _ _ _ _ _
  · unfold dLevel2 at h
    split_ifs at h
    · simp at h
    · rw [← Option.some.inj (Except.ok.inj h)]; exact leafItems2_w _ _ _ _

/-- **`S2_hard_thread`, width-checked**: every work item, hypotheses of `s2HardThread_eq` + `low + segment_size·segments ≤ iMax`
    + the true chunk value fits the signed `T` -/
theorem s2HardThreadC_eq {e : Env} {iMax sMax P tmax x y z c low segments segSize : ℕ}
    (hS : ∀ K, K ≤ π P → ∃ H : SieveSpec S K, H.segOK low segSize)
    (hE : EnvOK e P) (hP : P = min y (z / Nat.sqrt y)) (hF : FactorOK e tmax y)
    (hy : 1 ≤ y) (hyz : y ≤ z) (hzyx : z * y ≤ x) (hc : 4 ≤ c) (heven : 2 ∣ low)
    (hsz : 1 ≤ segSize) (hsegs : 1 ≤ segments) (hlow : low < z)
    (hiM : low + segSize * segments ≤ iMax)
    (hret : fitsS sMax (∑ b ∈ Ioc c (π y), WS2 x y z b low (chunkLimit low segments segSize z))) :
    s2HardThreadC iMax sMax S e x y z c low segments segSize =
      .ok (∑ b ∈ Ioc c (π y), WS2 x y z b low (chunkLimit low segments segSize z)) := by
  have hPy : P ≤ y := by rw [hP]; exact min_le_left _ _
  have hsP : Nat.sqrt y ≤ P := by rw [hP]; exact sqrt_y_le_P hyz hy
  unfold s2HardThreadC
  simp only []
  rw [if_neg (by omega)]
  set limit := chunkLimit low segments segSize z with hlimit
  have hlim1 : low < limit := by
    rw [hlimit]; unfold chunkLimit; rw [lt_min_iff]
    have : segSize * 1 ≤ segSize * segments := Nat.mul_le_mul_left _ hsegs
    omega
  have hlimz : limit ≤ z := by rw [hlimit]; exact min_le_right _ _
  have harg : min (min (isqrtN (x / max low 1)) (isqrtN z)) y ≤ P := by
    rw [isqrtN_eq, isqrtN_eq, hP]; exact arg_le_P hyz hy
  rw [hE.piMax, isqrtN_eq y, if_neg (by omega), if_neg (by omega), if_neg (by omega)]
  set maxArg := if limit ≤ y then Nat.sqrt y else min (min (Nat.sqrt (x / max low 1)) (Nat.sqrt z)) y with hmaxArg
  have hmaxArgP : maxArg ≤ P := by
    rw [hmaxArg]; split_ifs
    · exact hsP
    · rw [isqrtN_eq, isqrtN_eq] at harg; exact harg
  have hmaxB : s2MaxB e x y z low limit = π maxArg := by
    unfold s2MaxB
    rw [hmaxArg]
    split_ifs
    · rw [isqrtN_eq, hE.pi_eq _ hsP]
    · rw [hE.pi_eq _ harg, isqrtN_eq, isqrtN_eq]
  rw [hmaxB]
  have hmaxBP : π maxArg ≤ π P := Spec.pi_mono hmaxArgP
  rw [hE.primesSize, if_neg (by omega)]
  have hprimeP : e.primes (π maxArg) ≤ P := by
    rcases Nat.eq_zero_or_pos (π maxArg) with h0 | h0
    · rw [h0, hE.primes_zero]; exact Nat.zero_le _
    · rw [hE.primes_eq _ h0 hmaxBP]; exact le_trans (Spec.p_pi_le h0) hmaxArgP
  set a2 := min (z / limit) (e.primes (π maxArg)) with ha2
  have ha2P : a2 ≤ P := le_trans (min_le_right _ _) hprimeP
  rw [if_neg (by omega)]
  have hminB : s2MinB e z c limit (π maxArg) = max c (π a2) + 1 := by
    unfold s2MinB; rw [← ha2, hE.pi_eq a2 ha2P]
  rw [hminB]
  -- the levels outside [min_b, max_b] have no leaf in the window
  have hprune : ∀ b ∈ Ioc c (π y), b ∉ Icc (max c (π a2) + 1) (π maxArg) → WS2 x y z b low limit = 0 := by
    intro b hb hnot
    rw [mem_Ioc] at hb
    rw [mem_Icc] at hnot
    have hb1 : 1 ≤ b := by omega
    have hl1 : 1 ≤ limit := by omega
    have ha2le : a2 ≤ z / limit := by rw [ha2]; exact min_le_left _ _
    refine s2_pruned (a2 := a2) hyz hzyx hb1 hb.2 hl1 hmaxArg ha2le ?_
    by_cases h1 : b ≤ π maxArg
    · right
      have : ¬ (max c (π a2) + 1 ≤ b) := fun h => hnot ⟨h, h1⟩
      have := le_max_right c (π a2)
      omega
    · left; omega
  have hsub : Icc (max c (π a2) + 1) (π maxArg) ⊆ Ioc c (π y) := by
    intro b hb
    rw [mem_Icc] at hb
    rw [mem_Ioc]
    have : π maxArg ≤ π y := le_trans hmaxBP (Spec.pi_mono hPy)
    omega
  rw [← Finset.sum_subset hsub hprune]
  rw [← Finset.sum_subset hsub hprune] at hret
  by_cases hempty : max c (π a2) + 1 > π maxArg
  · rw [if_pos hempty, Finset.Icc_eq_empty (by omega), Finset.sum_empty]
  · rw [if_neg hempty]
    obtain ⟨H, hOK⟩ := hS (π maxArg) hmaxBP
    have hL := s2_lvspec (x := x) (minB := max c (π a2) + 1) (maxB := π maxArg) (low0 := low) (limit := limit)
      hE hP hF hy hyz hzyx (by omega) hmaxBP
    have hprime : ∀ b, max c (π a2) + 1 ≤ b → b ≤ π maxArg → e.primes b = p b :=
      fun b h1 h2 => hE.primes_eq b (by omega) (le_trans h2 hmaxBP)
    have hrun := segLoopC_spec H hL hprime (fun b lo hi its h => s2Lv_w h) (by omega) hsz (iMax := iMax)
      (top := low + segSize * segments) hiM (by rw [hlimit]; exact min_le_left _ _) limit low (π maxArg + 1) (S.create low segSize (π maxArg))
      (e.phiVec low (π maxArg)) 0 (by omega) le_rfl (by omega) le_rfl (by omega) (by rw [Nat.add_sub_cancel_left]; exact Dvd.intro _ rfl)
      (by rw [Nat.add_sub_cancel]; exact H.create_ready low segSize _ hOK)
      (hE.phiVec_size _ _)
      (fun b h1 h2 => by
        rw [hE.phiVec_eq low (π maxArg) b hmaxBP (by omega) (by omega), phi_even heven (by omega)])
      (fun b h1 h2 => by omega)
    rw [isqrtN_eq y] at hrun
    rw [hrun]
    simp only []
    rw [zero_add, Nat.max_eq_right hlim1.le]
    unfold retS
    rw [if_pos hret]


/-- **`D_thread`, width-checked** (general chunk cap `xz`, `xz·z ≤ x`) -/
theorem dThreadC_eq_gen {e : Env} {iMax sMax tmax x xs xz y z k low segments segSize : ℕ}
    (hS : ∀ K, K ≤ π y → ∃ H : SieveSpec S K, H.segOK low segSize)
    (hE : EnvOK e y) (hF : FactorDOK e tmax y z)
    (hyz : y ≤ z) (hsz : Nat.sqrt z ≤ y) (hxs : xs ≤ y) (hxz : xz * z ≤ x) (hk : 4 ≤ k) (heven : 2 ∣ low)
    (hsize : 1 ≤ segSize) (hsegs : 1 ≤ segments) (hlow : low < xz)
    (hiM : low + segSize * segments ≤ iMax)
    (hret : fitsS sMax (∑ b ∈ Ioc k (π xs), WSD x y z b low (chunkLimit low segments segSize xz))) :
    dThreadC iMax sMax S e x xs xz y z k low segments segSize =
      .ok (∑ b ∈ Ioc k (π xs), WSD x y z b low (chunkLimit low segments segSize xz)) := by
  unfold dThreadC
  simp only []
  rw [if_neg (by omega)]
  set limit := chunkLimit low segments segSize xz with hlimit
  have hlim1 : low < limit := by
    rw [hlimit]; unfold chunkLimit; rw [lt_min_iff]
    have : segSize * 1 ≤ segSize * segments := Nat.mul_le_mul_left _ hsegs
    omega
  rw [hE.piMax, isqrtN_eq z, if_neg (by omega), if_neg (by omega), if_neg (by omega)]
  set maxArg := min (min (Nat.sqrt (x / max low 1)) (Nat.sqrt limit)) xs with hmaxArg
  have hmaxArgxs : maxArg ≤ xs := min_le_right _ _
  have hmaxB : dMaxB e x xs low limit = π maxArg := by
    unfold dMaxB
    rw [hE.pi_eq _ (by omega), isqrtN_eq, isqrtN_eq]
  rw [hmaxB]
  have hmaxBP : π maxArg ≤ π y := Spec.pi_mono (by omega)
  set a2 := min (xz / limit) xs with ha2
  have ha2P : a2 ≤ y := le_trans (min_le_right _ _) hxs
  rw [if_neg (by omega)]
  have hminB : dMinB e xz xs k limit = max k (π a2) + 1 := by
    unfold dMinB; rw [← ha2, hE.pi_eq a2 ha2P]
  rw [hminB]
  -- the levels outside [min_b, max_b] have no leaf in the window
  have hprune : ∀ b ∈ Ioc k (π xs), b ∉ Icc (max k (π a2) + 1) (π maxArg) → WSD x y z b low limit = 0 := by
    intro b hb hnot
    rw [mem_Ioc] at hb
    rw [mem_Icc] at hnot
    have hb1 : 1 ≤ b := by omega
    have hl1 : 1 ≤ limit := by omega
    have ha2le : a2 ≤ xz / limit := by rw [ha2]; exact min_le_left _ _
    refine d_pruned (a2 := a2) hyz hxz hb1 hb.2 hl1 ha2le ?_
    by_cases h1 : b ≤ π maxArg
    · right
      have : ¬ (max k (π a2) + 1 ≤ b) := fun h => hnot ⟨h, h1⟩
      have := le_max_right k (π a2)
      omega
    · left; exact Nat.lt_of_not_le h1
  have hsub : Icc (max k (π a2) + 1) (π maxArg) ⊆ Ioc k (π xs) := by
    intro b hb
    rw [mem_Icc] at hb
    rw [mem_Ioc]
    have : π maxArg ≤ π xs := Spec.pi_mono hmaxArgxs
    omega
  rw [← Finset.sum_subset hsub hprune]
  rw [← Finset.sum_subset hsub hprune] at hret
  by_cases hempty : max k (π a2) + 1 > π maxArg
  · rw [if_pos hempty, Finset.Icc_eq_empty (by omega), Finset.sum_empty]
  · rw [if_neg hempty]
    obtain ⟨H, hOK⟩ := hS (π maxArg) hmaxBP
    have hL := d_lvspec (x := x) (minB := max k (π a2) + 1) (maxB := π maxArg) (low0 := low) (limit := limit)
      hE hF hyz hsz (by omega) hmaxBP
    have hprime : ∀ b, max k (π a2) + 1 ≤ b → b ≤ π maxArg → e.primes b = p b :=
      fun b h1 h2 => hE.primes_eq b (by omega) (le_trans h2 hmaxBP)
    have hrun := segLoopC_spec H hL hprime (fun b lo hi its h => dLv_w h) (by omega) hsize (iMax := iMax)
      (top := low + segSize * segments) hiM (by rw [hlimit]; exact min_le_left _ _) limit low (π maxArg + 1) (S.create low segSize (π maxArg))
      (e.phiVec low (π maxArg)) 0 (by omega) le_rfl (by omega) le_rfl (by omega) (by rw [Nat.add_sub_cancel_left]; exact Dvd.intro _ rfl)
      (by rw [Nat.add_sub_cancel]; exact H.create_ready low segSize _ hOK)
      (hE.phiVec_size _ _)
      (fun b h1 h2 => by
        rw [hE.phiVec_eq low (π maxArg) b hmaxBP (by omega) (by omega), phi_even heven (by omega)])
      (fun b h1 h2 => by omega)
    rw [isqrtN_eq z] at hrun
    rw [hrun]
    simp only []
    rw [zero_add, Nat.max_eq_right hlim1.le]
    unfold retS
    rw [if_pos hret]


end Pc.Hard

#print axioms Pc.Hard.s2HardThreadC_eq
#print axioms Pc.Hard.dThreadC_eq_gen
