/-
C04/C12: the clamps that derive (y, z) keep the ordering the algorithms assume, for EVERY value of the
float products.
-/
import PcModel.Params
import PcProofs.Roots
import PcProofs.FormulasBase
import Mathlib.Tactic.Linarith
import Mathlib.Tactic.Ring

namespace Pc

/-- for x ≥ 64 there is room for x^(1/3) < y < x^(1/2): ⌊x^(1/3)⌋ + 2 ≤ ⌊√x⌋ -/
theorem root_gap (x : ℕ) (hx : 64 ≤ x) : irootN 3 x + 2 ≤ isqrtN x := by
  rw [isqrtN_eq, Nat.le_sqrt]
  obtain ⟨h1, h2⟩ := irootN_spec 3 x (by norm_num)
  set r := irootN 3 x with hr
  -- r ≥ 4 because (r+1)^3 > x ≥ 64
  have hr4 : 4 ≤ r := by
    by_contra hlt
    have : r + 1 ≤ 4 := by omega
    have : (r + 1) ^ 3 ≤ 4 ^ 3 := Nat.pow_le_pow_left this 3
    omega
  -- (r+2)^2 ≤ r^3 for r ≥ 4
  have : (r + 2) * (r + 2) ≤ r ^ 3 := by nlinarith [Nat.mul_le_mul hr4 hr4]
  omega

/-- Gourdon's clamps: whatever the float products, x^(1/3) < y < √x and y ≤ z < √x (x ≥ 64) -/
theorem clamp_y_z (x13 sq v : ℤ) (w : ℤ) (hgap : x13 + 2 ≤ sq) (h13 : 0 ≤ x13) :
    let y := clampY x13 sq v
    let z := clampZ sq y w
    x13 < y ∧ y < sq ∧ y ≤ z ∧ z < sq ∧ 1 ≤ y := by
  simp only [clampY, clampZ]
  omega

end Pc
